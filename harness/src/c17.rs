//! C17: column options text codec, metadata file, option check at open, column administration
//! (add_column / drop_last_column / reset_column / clear_column) on the real crate.
//!
//! Case kinds (chosen by `seed % 20`, so `--case-seed` replays one case):
//!   codec      all 384 ColumnOptions combinations through write_metadata / load_metadata_file
//!   malformed  mutated metadata texts through load_metadata_file
//!   open       pairs (stored, requested) through Db::open*, directory must stay untouched
//!   admin      administration calls on databases of 1..5 mixed columns, optionally with
//!              unreplayed logs
//!   findings   dedicated reproductions (F9, F13, F14, F15, F16, F17)
//! Model ops emitted: `c17 encmeta`, `c17 decmeta`, `c17 validate`, `c17 match`, `c17 admin`
//! (protocol: header of lean/Pdb/Model/Meta.lean).  Known findings are reported with
//! `t.known(prop, id, ..)`: F8 clear_column with pending logs, F9 lock file left by a failed
//! open, F13 options.salt different from the stored salt, F14 version rewritten on an old
//! database, F15 more than 256 columns, F16 / F17 panics of load_metadata_file (unknown
//! compression code / salt of the wrong length).  Everything else is `oracle_fail`.
use crate::util::*;
use parity_db::{ColumnOptions, CompressionType, Db, Error, NewNode, NodeRef, Operation, Options};
use std::collections::{BTreeMap, BTreeSet, HashMap};
use std::path::{Path, PathBuf};
use std::sync::atomic::{AtomicBool, Ordering};

const CURRENT_VERSION: u32 = 8; // options.rs CURRENT_VERSION (the model regenerates its own copy)
const LAST_SUPPORTED_VERSION: u32 = 4;

static QUIET: AtomicBool = AtomicBool::new(false);

/// Run `f`, turning a panic into `Err` without the default panic message.
fn quiet<R>(f: impl FnOnce() -> R) -> std::thread::Result<R> {
	QUIET.store(true, Ordering::SeqCst);
	let r = std::panic::catch_unwind(std::panic::AssertUnwindSafe(f));
	QUIET.store(false, Ordering::SeqCst);
	r
}

fn hexs(b: &[u8]) -> String {
	let mut s = String::with_capacity(b.len() * 2);
	for x in b {
		s.push_str(&format!("{:02x}", x));
	}
	s
}

fn comp_code(c: CompressionType) -> u8 {
	match c {
		CompressionType::NoCompression => 0,
		CompressionType::Lz4 => 1,
		CompressionType::Snappy => 2,
	}
}

fn comp_of(n: u64) -> CompressionType {
	match n % 3 {
		0 => CompressionType::NoCompression,
		1 => CompressionType::Lz4,
		_ => CompressionType::Snappy,
	}
}

/// The i-th of the 2^7 x 3 = 384 combinations.
fn opt_from_index(i: u64) -> ColumnOptions {
	let rest = (i >> 4) / 3;
	ColumnOptions {
		preimage: (rest >> 2) & 1 == 1,
		uniform: (rest >> 1) & 1 == 1,
		ref_counted: rest & 1 == 1,
		compression: comp_of((i >> 4) % 3),
		btree_index: (i >> 3) & 1 == 1,
		multitree: (i >> 2) & 1 == 1,
		append_only: (i >> 1) & 1 == 1,
		allow_direct_node_access: i & 1 == 1,
	}
}

fn b(x: bool) -> &'static str {
	if x {
		"1"
	} else {
		"0"
	}
}

fn render_opts(o: &ColumnOptions) -> String {
	format!(
		"{} {} {} {} {} {} {} {}",
		b(o.preimage),
		b(o.uniform),
		b(o.ref_counted),
		comp_code(o.compression),
		b(o.btree_index),
		b(o.multitree),
		b(o.append_only),
		b(o.allow_direct_node_access)
	)
}

fn render_cols(cols: &[ColumnOptions]) -> String {
	cols.iter().map(render_opts).collect::<Vec<_>>().join(" ")
}

fn render_err(e: &Error) -> String {
	match e {
		Error::IncompatibleColumnConfig { id, .. } => format!("err:IncompatibleColumnConfig:{}", id),
		e => format!("err:{}", err_kind(e)),
	}
}

type Loaded = Result<Option<(u32, [u8; 32], Vec<ColumnOptions>)>, Error>;

fn load_meta(path: &Path) -> std::thread::Result<Loaded> {
	quiet(|| Options::load_metadata_file(path).map(|m| m.map(|m| (m.version, m.salt, m.columns))))
}

fn render_loaded(r: &std::thread::Result<Loaded>) -> String {
	match r {
		Err(_) => "panic".into(),
		Ok(Err(e)) => render_err(e),
		Ok(Ok(None)) => "missing".into(),
		Ok(Ok(Some((v, s, cols)))) => {
			let mut out = format!("ok {} {} {}", v, hexs(s), cols.len());
			if !cols.is_empty() {
				out.push(' ');
				out.push_str(&render_cols(cols));
			}
			out
		},
	}
}

fn rand_salt(rng: &mut Rng) -> [u8; 32] {
	let mut salt = [0u8; 32];
	for i in 0..4 {
		salt[i * 8..i * 8 + 8].copy_from_slice(&rng.next().to_le_bytes());
	}
	salt
}

fn plain_options(path: &Path, cols: &[ColumnOptions]) -> Options {
	let mut o = Options::with_columns(path, 0);
	o.columns = cols.to_vec();
	o.with_background_thread = false;
	o.always_flush = true;
	o.stats = false;
	o
}

// ------------------------------------------------------------------------------------ codec

fn case_codec(seed: u64, rng: &mut Rng, root: &Path, t: &mut Trace, ctr: &mut Counters, prop: &str) -> bool {
	t.begin_case(&format!("seed={} kind=codec", seed));
	let dir = fresh_dir(root, &format!("c17-{}", seed));
	std::fs::create_dir_all(&dir).unwrap();
	let meta = dir.join("metadata");
	let mut ok = true;
	// 384 exhaustive entries + a zero-column and a 260-column file
	for i in 0..386u64 {
		let cols: Vec<ColumnOptions> = if i == 384 {
			vec![]
		} else if i == 385 {
			(0..260).map(|_| opt_from_index(rng.below(384))).collect()
		} else {
			let n = rng.range(1, 4);
			let pos = rng.below(n);
			(0..n).map(|j| if j == pos { opt_from_index(i) } else { opt_from_index(rng.below(384)) }).collect()
		};
		let salt = rand_salt(rng);
		let version: Option<u32> = match rng.below(10) {
			0..=5 => None,
			6 | 7 => Some(rng.range(4, 8) as u32),
			8 => Some(*rng.pick(&[0u32, 1, 3, 9, 100, u32::MAX])),
			_ => Some(CURRENT_VERSION),
		};
		let options = plain_options(&dir, &cols);
		let _ = std::fs::remove_file(&meta);
		let w = match version {
			None =>
				if rng.chance(1, 2) {
					options.write_metadata(&dir, &salt)
				} else {
					options.write_metadata_file(&meta, &salt)
				},
			Some(v) => options.write_metadata_with_version(&dir, &salt, Some(v)),
		};
		if let Err(e) = w {
			t.oracle_fail(prop, &format!("write_metadata failed: {:?}", e));
			ok = false;
			continue
		}
		let vnum = version.unwrap_or(CURRENT_VERSION);
		let bytes = std::fs::read(&meta).unwrap();
		let mut line = format!("c17 encmeta {} {} {}", vnum, hexs(&salt), cols.len());
		if !cols.is_empty() {
			line.push(' ');
			line.push_str(&render_cols(&cols));
		}
		t.op(&line, &format!("x{}", hexs(&bytes)));
		let loaded = load_meta(&meta);
		t.op(&format!("c17 decmeta x{}", hexs(&bytes)), &render_loaded(&loaded));
		// independent oracle: what was written is what is read
		match &loaded {
			Ok(Ok(Some((v, s, c)))) =>
				if vnum < LAST_SUPPORTED_VERSION {
					t.oracle_fail(prop, &format!("metadata of unsupported version {} loaded", vnum));
					ok = false;
				} else if *v != vnum || *s != salt || *c != cols {
					t.oracle_fail(
						prop,
						&format!("metadata round trip changed the content: wrote [{}] read [{}]", render_cols(&cols), render_cols(c)),
					);
					ok = false;
				},
			Ok(Err(Error::InvalidConfiguration(_))) if vnum < LAST_SUPPORTED_VERSION => {},
			other => {
				t.oracle_fail(prop, &format!("metadata round trip failed for [{}]: {}", render_cols(&cols), render_loaded(other)));
				ok = false;
			},
		}
		ctr.inc("codec.roundtrips");
		ctr.inc(&format!("codec.ncols.{}", std::cmp::min(cols.len(), 5)));
		if i < 384 && !opt_from_index(i).is_valid() {
			ctr.inc("codec.invalid_option_combinations");
		}
		if vnum != CURRENT_VERSION {
			ctr.inc("codec.other_version");
		}
	}
	let _ = std::fs::remove_dir_all(&dir);
	ctr.inc("cases.codec");
	t.end_case(true);
	ok
}

// ------------------------------------------------------------------------------------ malformed

#[derive(Clone, Debug)]
enum MLine {
	Raw(String),
	Version(String),
	Salt(String),
	Col { key: String, fields: Vec<(String, String)>, sep: String, kv: String, suffix: String },
}

impl MLine {
	fn render(&self) -> String {
		match self {
			MLine::Raw(s) => s.clone(),
			MLine::Version(v) => format!("version={}", v),
			MLine::Salt(s) => format!("salt={}", s),
			MLine::Col { key, fields, sep, kv, suffix } => format!(
				"{}={}{}",
				key,
				fields.iter().map(|(k, v)| format!("{}{}{}", k, kv, v)).collect::<Vec<_>>().join(sep),
				suffix
			),
		}
	}
}

fn col_fields(o: &ColumnOptions) -> Vec<(String, String)> {
	vec![
		("preimage".into(), o.preimage.to_string()),
		("uniform".into(), o.uniform.to_string()),
		("refc".into(), o.ref_counted.to_string()),
		("compression".into(), comp_code(o.compression).to_string()),
		("ordered".into(), o.btree_index.to_string()),
		("multitree".into(), o.multitree.to_string()),
		("append_only".into(), o.append_only.to_string()),
		("allow_direct_node_access".into(), o.allow_direct_node_access.to_string()),
	]
}

fn col_line(i: usize, o: &ColumnOptions) -> MLine {
	MLine::Col { key: format!("col{}", i), fields: col_fields(o), sep: ", ".into(), kv: ": ".into(), suffix: String::new() }
}

const BAD_BOOLS: &[&str] = &["True", "FALSE", "1", "0", "", " true", "false ", "yes", "tru", "truee", "t", "\ttrue"];
const BAD_COMP: &[&str] = &[
	"+1", "+2", "+3", "+0", "-1", "-0", "01", "002", "1.0", "", " 1", "1 ", "x", "0x1", "\u{968}", "\u{ff11}", "255", "256",
	"99999999999999999999", "1e0", "+", "++1", "0000000000000000000000000000002", "3", "4",
];
const BAD_VERSION: &[&str] = &[
	"0", "1", "3", "4", "5", "6", "7", "8", "9", "100", "4294967295", "4294967296", "99999999999999999999", "+8", "+4", "+3",
	"-8", "8 ", " 8", "", "08", "0008", "abc", "8.0", "0x8", "+", "++8", "\u{ff18}", "8\t",
];
const RAW_LINES: &[&str] = &[
	"", "garbage", "=", "==", "foo=bar", "versionx=1", "VERSION=9", " version=8", "version =8", "salt", "salt=", "version=", "col5",
	"col5=", "#comment", "version=8=9", "=version=8", "salt=zz", "col0=preimage: true", "col0=sizes: [1, 2]", " ", "\t",
	"col=uniform: true, refc: false, preimage: false", "Salt=00", "version=7", "version=3", "version=+9",
	"colour=preimage: true, uniform: false, refc: false, compression: 2",
	"column9=preimage: false, uniform: true, refc: false, ordered: true",
	"COL0=preimage: true, uniform: false, refc: false",
	"col1=preimage: true, uniform: false, refc: false, compression: 7",
	"col1=preimage: true, uniform: false, compression: 7",
	"col1=preimage: true, uniform: false, refc: maybe, compression: 9",
];
const SUFFIXES: &[&str] = &[
	", sizes: [96, 128, 192]", "sizes: ", " sizes: x", ", foo: bar", ", preimage: false", "=x", ": y", ", ", ",", ", sizes: ",
	", uniform: true", ", compression: 1", ", compression: 200", " ", "\t", ", refc: true=false",
];
const COL_KEYS: &[&str] = &["col", "colX", "col-1", "col00", "col 0", "Col0", "cal0", "co", "col999999999999999999999", "column"];

fn mutate_salt(rng: &mut Rng, s: &str) -> String {
	match rng.below(12) {
		0 => String::new(),
		1 => s[..2].to_string(),
		2 => s[..62].to_string(),
		3 => format!("{}00", s),
		4 => format!("{}{}", s, s),
		5 => s[..63].to_string(),
		6 => format!("{}0", s),
		7 => {
			let mut c: Vec<char> = s.chars().collect();
			let p = rng.below(c.len() as u64) as usize;
			c[p] = *rng.pick(&['g', 'z', ' ', '-', 'G', '\u{e9}', ':']);
			c.into_iter().collect()
		},
		8 => s.to_uppercase(),
		9 => format!("0x{}", s),
		10 => format!(" {}", s),
		_ => {
			// valid hex of a random wrong length
			let n = *rng.pick(&[1u64, 2, 16, 31, 33, 48]);
			(0..n).map(|_| format!("{:02x}", rng.below(256))).collect()
		},
	}
}

fn gen_malformed(rng: &mut Rng, ctr: &mut Counters) -> Vec<u8> {
	let n = rng.range(0, 3) as usize;
	let cols: Vec<ColumnOptions> = (0..n).map(|_| opt_from_index(rng.below(384))).collect();
	let salt = hexs(&rand_salt(rng));
	let mut lines = vec![MLine::Version(CURRENT_VERSION.to_string()), MLine::Salt(salt)];
	for (i, c) in cols.iter().enumerate() {
		lines.push(col_line(i, c));
	}
	let mut joiner = "\n".to_string();
	let mut trailer = String::new();
	let mut charlevel = 0;
	let nmut = rng.range(1, 3);
	for _ in 0..nmut {
		let m = rng.below(21);
		ctr.inc(&format!("malformed.mutation.{:02}", m));
		// index of a random Col line, if any
		let col_idx: Vec<usize> = lines.iter().enumerate().filter(|(_, l)| matches!(l, MLine::Col { .. })).map(|(i, _)| i).collect();
		let pick_col = |rng: &mut Rng| if col_idx.is_empty() { None } else { Some(*rng.pick(&col_idx)) };
		match m {
			0 =>
				if !lines.is_empty() {
					let p = rng.below(lines.len() as u64) as usize;
					lines.remove(p);
				},
			1 =>
				if !lines.is_empty() {
					let p = rng.below(lines.len() as u64) as usize;
					let q = rng.below(lines.len() as u64 + 1) as usize;
					let l = lines[p].clone();
					lines.insert(q, l);
				},
			2 =>
				if lines.len() >= 2 {
					let p = rng.below(lines.len() as u64) as usize;
					let q = rng.below(lines.len() as u64) as usize;
					lines.swap(p, q);
				},
			3 =>
				if let Some(i) = pick_col(rng) {
					if let MLine::Col { fields, .. } = &mut lines[i] {
						if !fields.is_empty() {
							let p = rng.below(fields.len() as u64) as usize;
							fields.remove(p);
						}
					}
				},
			4 =>
				if let Some(i) = pick_col(rng) {
					if let MLine::Col { fields, .. } = &mut lines[i] {
						if !fields.is_empty() {
							let p = rng.below(fields.len() as u64) as usize;
							let (k, v) = fields[p].clone();
							let v2 = match v.as_str() {
								"true" => "false".to_string(),
								"false" => "true".to_string(),
								x => format!("{}", (x.parse::<u64>().unwrap_or(0) + 1) % 3),
							};
							let q = rng.below(fields.len() as u64 + 1) as usize;
							fields.insert(q, (k, v2));
						}
					}
				},
			5 =>
				if let Some(i) = pick_col(rng) {
					if let MLine::Col { fields, .. } = &mut lines[i] {
						for j in (1..fields.len()).rev() {
							let k = rng.below(j as u64 + 1) as usize;
							fields.swap(j, k);
						}
					}
				},
			6 =>
				if let Some(i) = pick_col(rng) {
					if let MLine::Col { fields, .. } = &mut lines[i] {
						let idx: Vec<usize> = (0..fields.len()).filter(|j| fields[*j].0 != "compression").collect();
						if !idx.is_empty() {
							let p = *rng.pick(&idx);
							fields[p].1 = rng.pick(BAD_BOOLS).to_string();
						}
					}
				},
			7 =>
				if let Some(i) = pick_col(rng) {
					if let MLine::Col { fields, .. } = &mut lines[i] {
						let v = match rng.below(4) {
							0 => rng.below(3).to_string(),
							1 => rng.range(3, 255).to_string(),
							2 => rng.range(256, 300).to_string(),
							_ => rng.pick(BAD_COMP).to_string(),
						};
						match fields.iter_mut().find(|f| f.0 == "compression") {
							Some(f) => f.1 = v,
							None => fields.push(("compression".into(), v)),
						}
					}
				},
			8 =>
				for l in lines.iter_mut() {
					if let MLine::Salt(s) = l {
						if s.len() == 64 {
							*s = mutate_salt(rng, &s.clone());
						}
						break
					}
				},
			9 =>
				for l in lines.iter_mut() {
					if let MLine::Version(v) = l {
						*v = rng.pick(BAD_VERSION).to_string();
						break
					}
				},
			10 => joiner = rng.pick(&["\r\n", "\n\n", "\r", "\n\r\n", "\r\r\n", " \n"]).to_string(),
			11 => trailer = rng.pick(&["\n", "\r\n", "\n\n", "\r", "\n \n", "\n\r\n"]).to_string(),
			12 => {
				let q = rng.below(lines.len() as u64 + 1) as usize;
				lines.insert(q, MLine::Raw(rng.pick(RAW_LINES).to_string()));
			},
			13 =>
				if let Some(i) = pick_col(rng) {
					if let MLine::Col { suffix, .. } = &mut lines[i] {
						*suffix = rng.pick(SUFFIXES).to_string();
					}
				},
			14 =>
				if let Some(i) = pick_col(rng) {
					if let MLine::Col { fields, .. } = &mut lines[i] {
						// a "sizes: " pseudo field or an unknown key in the middle
						let q = rng.below(fields.len() as u64 + 1) as usize;
						let f = match rng.below(4) {
							0 => ("sizes".to_string(), "[1]".to_string()),
							1 => ("foo".to_string(), "true".to_string()),
							2 => ("x=y".to_string(), "true".to_string()),
							_ => ("".to_string(), "".to_string()),
						};
						fields.insert(q, f);
					}
				},
			15 =>
				if let Some(i) = pick_col(rng) {
					if let MLine::Col { fields, .. } = &mut lines[i] {
						if !fields.is_empty() {
							let p = rng.below(fields.len() as u64) as usize;
							match rng.below(4) {
								0 => fields[p].1 = format!("{}: false", fields[p].1),
								1 => fields[p].0 = format!("x: {}", fields[p].0),
								2 => fields[p].1 = format!("{}=1", fields[p].1),
								_ => fields[p].0 = format!("{}=", fields[p].0),
							}
						}
					}
				},
			16 =>
				if let Some(i) = pick_col(rng) {
					if let MLine::Col { fields, .. } = &mut lines[i] {
						if !fields.is_empty() {
							let p = rng.below(fields.len() as u64) as usize;
							fields[p].0 = match fields[p].0.as_str() {
								"preimage" => "Preimage".into(),
								"refc" => "ref_counted".into(),
								"ordered" => "btree_index".into(),
								"uniform" => "uniform ".into(),
								k => format!(" {}", k),
							};
						}
					}
				},
			17 =>
				if let Some(i) = pick_col(rng) {
					if let MLine::Col { sep, kv, .. } = &mut lines[i] {
						if rng.chance(1, 2) {
							*sep = rng.pick(&[",", ",  ", "; ", ",\t", " , "]).to_string();
						} else {
							*kv = rng.pick(&[":", ":  ", " : ", "=", ":\t"]).to_string();
						}
					}
				},
			18 =>
				if let Some(i) = pick_col(rng) {
					if let MLine::Col { key, .. } = &mut lines[i] {
						*key = rng.pick(COL_KEYS).to_string();
					}
				},
			19 => charlevel += 1,
			_ =>
				if rng.chance(1, 2) {
					lines.clear();
				} else {
					lines.truncate(1);
				},
		}
	}
	let mut text = lines.iter().map(|l| l.render()).collect::<Vec<_>>().join(&joiner);
	text.push_str(&trailer);
	for _ in 0..charlevel {
		let mut cs: Vec<char> = text.chars().collect();
		let c = *rng.pick(&['=', ':', ',', ' ', '\r', '\n', '\t', 't', '0', '9', '+', 's']);
		if cs.is_empty() {
			cs.push(c);
		} else {
			let p = rng.below(cs.len() as u64) as usize;
			match rng.below(3) {
				0 => cs.insert(p, c),
				1 => {
					cs.remove(p);
				},
				_ => cs[p] = c,
			}
		}
		text = cs.into_iter().collect();
	}
	text.into_bytes()
}

/// Independent classification of a text on which `load_metadata_file` panicked:
/// the two known causes, or None.
fn panic_cause(text: &str) -> Option<&'static str> {
	for l in text.split('\n') {
		let l = l.strip_suffix('\r').unwrap_or(l);
		let mut it = l.split('=');
		let (k, v) = match (it.next(), it.next()) {
			(Some(k), Some(v)) => (k, v),
			_ => return None, // Bad metadata error comes first
		};
		if k == "salt" {
			let hexok = v.len() % 2 == 0 && v.bytes().all(|c| c.is_ascii_hexdigit());
			if hexok && v.len() != 64 {
				return Some("F17")
			}
			if !hexok {
				return None
			}
		} else if k.starts_with("col") {
			let vals = v.split("sizes: ").next().unwrap_or("");
			let mut comp: Option<&str> = None;
			for item in vals.split(", ") {
				let mut p = item.split(": ");
				if let (Some(a), Some(bv)) = (p.next(), p.next()) {
					if a == "compression" {
						comp = Some(bv);
					}
				}
			}
			if let Some(n) = comp.and_then(|c| c.parse::<u8>().ok()) {
				if n > 2 {
					return Some("F16")
				}
			}
		}
	}
	None
}

fn report_meta_panic(text: &[u8], t: &mut Trace, ctr: &mut Counters, prop: &str) -> bool {
	let s = String::from_utf8_lossy(text).to_string();
	match panic_cause(&s) {
		Some("F16") => {
			t.known(prop, "F16", &format!("load_metadata_file panics on an unknown compression code (text in the preceding decmeta op, {} bytes)", text.len()));
			ctr.inc("known.F16");
			true
		},
		Some(_) => {
			t.known(prop, "F17", &format!("load_metadata_file panics on a salt that is not 32 bytes long (text in the preceding decmeta op, {} bytes)", text.len()));
			ctr.inc("known.F17");
			true
		},
		None => {
			t.oracle_fail(prop, &format!("load_metadata_file panicked on x{}", hexs(text)));
			false
		},
	}
}

fn case_malformed(seed: u64, rng: &mut Rng, thorough: bool, root: &Path, t: &mut Trace, ctr: &mut Counters, prop: &str) -> bool {
	t.begin_case(&format!("seed={} kind=malformed", seed));
	let dir = fresh_dir(root, &format!("c17-{}", seed));
	std::fs::create_dir_all(&dir).unwrap();
	let meta = dir.join("metadata");
	let mut ok = true;
	let n = if thorough { 120 } else { 40 };
	let mut kinds: BTreeSet<String> = BTreeSet::new();
	for _ in 0..n {
		let text = gen_malformed(rng, ctr);
		std::fs::write(&meta, &text).unwrap();
		let loaded = load_meta(&meta);
		let obs = render_loaded(&loaded);
		t.op(&format!("c17 decmeta x{}", hexs(&text)), &obs);
		let kind = obs.split(' ').next().unwrap_or("").to_string();
		ctr.inc(&format!("malformed.result.{}", kind));
		kinds.insert(kind);
		match &loaded {
			Err(_) => ok &= report_meta_panic(&text, t, ctr, prop),
			Ok(Ok(Some((v, _, _)))) if *v < LAST_SUPPORTED_VERSION => {
				t.oracle_fail(prop, &format!("unsupported version {} accepted", v));
				ok = false;
			},
			_ => {},
		}
	}
	// non-UTF-8 content: outside the model's text domain, must be an error and not a panic
	let mut text = b"version=8\nsalt=".to_vec();
	text.extend_from_slice(hexs(&rand_salt(rng)).as_bytes());
	let p = rng.below(text.len() as u64) as usize;
	text.insert(p, 0xff);
	std::fs::write(&meta, &text).unwrap();
	match load_meta(&meta) {
		Ok(Err(_)) => ctr.inc("malformed.non_utf8.err"),
		other => {
			t.oracle_fail(prop, &format!("non-UTF-8 metadata x{} -> {}", hexs(&text), render_loaded(&other)));
			ok = false;
		},
	}
	let _ = std::fs::remove_dir_all(&dir);
	ctr.inc("cases.malformed");
	t.end_case(kinds.len() >= 2);
	ok
}

// ------------------------------------------------------------------------------------ databases

#[derive(Clone, Debug, PartialEq, Eq)]
struct Tree {
	data: Vec<u8>,
	children: Vec<Tree>,
}

/// Independent reference content of one column: key -> value (with reference count) or tree.
#[derive(Clone, Debug, PartialEq, Eq)]
enum Item {
	Val(Vec<u8>, u32),
	Tree(Tree),
}

type Content = Vec<BTreeMap<Vec<u8>, Item>>;
type DbOp = (u8, Operation<Vec<u8>, Vec<u8>>);

/// What a read through the public API returned.
#[derive(Clone, Debug, PartialEq, Eq)]
enum Got {
	Absent,
	Val(Vec<u8>),
	Tree(Tree),
	Fail(String),
}

#[derive(Clone, Debug, PartialEq, Eq, Default)]
struct ColObs {
	gets: BTreeMap<Vec<u8>, Got>,
	/// btree columns: full ordered iteration
	iter: Option<Vec<(Vec<u8>, Vec<u8>)>>,
	/// hash columns: sorted multiset of (rc, value) from iter_column_while
	values: Option<Vec<(u32, Vec<u8>)>>,
	entries: Option<u64>,
}

fn kind_name(o: &ColumnOptions) -> String {
	let mut s = String::new();
	s.push_str(if o.btree_index {
		"btree"
	} else if o.multitree {
		"multitree"
	} else if o.ref_counted {
		"rc"
	} else if o.preimage {
		"preimage"
	} else {
		"plain"
	});
	if o.uniform {
		s.push_str("+uniform");
	}
	if o.append_only {
		s.push_str("+append");
	}
	if o.allow_direct_node_access {
		s.push_str("+direct");
	}
	match o.compression {
		CompressionType::NoCompression => {},
		CompressionType::Lz4 => s.push_str("+lz4"),
		CompressionType::Snappy => s.push_str("+snappy"),
	}
	s
}

/// A valid column configuration of mixed kinds.
fn gen_col(rng: &mut Rng) -> ColumnOptions {
	let mut o = ColumnOptions::default();
	match rng.below(9) {
		0 | 1 => {},
		2 => o.preimage = true,
		3 => {
			o.preimage = true;
			o.ref_counted = true;
		},
		4 => o.btree_index = true,
		5 => o.uniform = true,
		6 => {
			o.multitree = true;
			o.append_only = true;
			o.allow_direct_node_access = rng.chance(1, 3);
		},
		7 => {
			o.multitree = true;
			o.allow_direct_node_access = true;
		},
		_ => o.append_only = true,
	}
	if !o.multitree {
		o.compression = *rng.pick(&[
			CompressionType::NoCompression,
			CompressionType::NoCompression,
			CompressionType::Lz4,
			CompressionType::Snappy,
		]);
		if !o.btree_index && !o.uniform && rng.chance(1, 5) {
			o.uniform = true;
		}
	}
	assert!(o.is_valid());
	o
}

fn gen_key(rng: &mut Rng) -> Vec<u8> {
	let len = *rng.pick(&[32usize, 32, 32, 33, 40, 64]);
	let mut k = Vec::with_capacity(len + 8);
	while k.len() < len {
		k.extend_from_slice(&rng.next().to_le_bytes());
	}
	k.truncate(len);
	k
}

fn gen_bytes(r: &mut Rng, len: usize, compressible: bool) -> Vec<u8> {
	let mut out = Vec::with_capacity(len + 8);
	if compressible {
		let tag = r.next().to_le_bytes();
		for i in 0..len {
			out.push(if i < 8 { tag[i] } else { tag[(i / 11) % 3] });
		}
	} else {
		while out.len() < len {
			out.extend_from_slice(&r.next().to_le_bytes());
		}
		out.truncate(len);
	}
	out
}

fn gen_value(rng: &mut Rng) -> Vec<u8> {
	let len = match rng.below(10) {
		0 => 0,
		1 | 2 => rng.range(1, 30),
		3 | 4 => rng.range(30, 200),
		5 | 6 => rng.range(200, 1200),
		7 => rng.range(4000, 4200),
		8 => rng.range(8000, 9000),
		_ => rng.range(33000, 34000),
	} as usize;
	let c = rng.chance(1, 2);
	gen_bytes(rng, len, c)
}

/// Value determined by the key (preimage contract).
fn value_for_key(k: &[u8]) -> Vec<u8> {
	let mut seed = 0xcbf2_9ce4_8422_2325u64;
	for x in k {
		seed = (seed ^ *x as u64).wrapping_mul(0x100_0000_01b3);
	}
	let mut r = Rng::new(seed);
	let len = *r.pick(&[1u64, 7, 31, 32, 33, 100, 500, 4100]) as usize;
	let c = r.chance(1, 2);
	gen_bytes(&mut r, len, c)
}

fn gen_tree(rng: &mut Rng, depth: u32) -> Tree {
	let len = rng.range(1, 60) as usize;
	let data = gen_bytes(rng, len, false);
	let nch = if depth >= 2 { 0 } else { rng.below(4) };
	Tree { data, children: (0..nch).map(|_| gen_tree(rng, depth + 1)).collect() }
}

fn to_new_node(t: &Tree) -> NewNode {
	NewNode { data: t.data.clone(), children: t.children.iter().map(|c| NodeRef::New(to_new_node(c))).collect() }
}

/// One transaction of valid operations; `content` is updated to the state after it.
fn gen_tx(rng: &mut Rng, cols: &[ColumnOptions], pools: &[Vec<Vec<u8>>], content: &mut Content, ctr: &mut Counters) -> Vec<DbOp> {
	let nops = rng.range(1, 8);
	let mut tx: Vec<DbOp> = vec![];
	let mut used: BTreeSet<(u8, Vec<u8>)> = BTreeSet::new();
	for _ in 0..nops {
		let c = rng.below(cols.len() as u64) as usize;
		if pools[c].is_empty() {
			continue
		}
		let k = rng.pick(&pools[c]).clone();
		if !used.insert((c as u8, k.clone())) {
			continue
		}
		let o = &cols[c];
		let m = &mut content[c];
		let r = rng.below(100);
		if o.multitree && !o.btree_index {
			if !m.contains_key(&k) {
				let tree = gen_tree(rng, 0);
				tx.push((c as u8, Operation::InsertTree(k.clone(), to_new_node(&tree))));
				m.insert(k, Item::Tree(tree));
				ctr.inc("admin.dbop.insert_tree");
			}
		} else if o.append_only {
			if !m.contains_key(&k) {
				let v = if o.preimage { value_for_key(&k) } else { gen_value(rng) };
				tx.push((c as u8, Operation::Set(k.clone(), v.clone())));
				m.insert(k, Item::Val(v, 1));
				ctr.inc("admin.dbop.set");
			}
		} else if o.ref_counted {
			if r < 60 {
				let v = value_for_key(&k);
				tx.push((c as u8, Operation::Set(k.clone(), v.clone())));
				match m.get_mut(&k) {
					Some(Item::Val(_, n)) => *n += 1,
					_ => {
						m.insert(k, Item::Val(v, 1));
					},
				}
				ctr.inc("admin.dbop.set");
			} else if r < 85 {
				tx.push((c as u8, Operation::Dereference(k.clone())));
				let gone = match m.get_mut(&k) {
					Some(Item::Val(_, n)) => {
						*n -= 1;
						*n == 0
					},
					_ => false,
				};
				if gone {
					m.remove(&k);
				}
				ctr.inc("admin.dbop.deref");
			} else {
				tx.push((c as u8, Operation::Reference(k.clone())));
				if let Some(Item::Val(_, n)) = m.get_mut(&k) {
					*n += 1;
				}
				ctr.inc("admin.dbop.ref");
			}
		} else if r < 72 {
			if o.preimage {
				let v = value_for_key(&k);
				tx.push((c as u8, Operation::Set(k.clone(), v.clone())));
				m.entry(k).or_insert(Item::Val(v, 1));
			} else {
				let v = gen_value(rng);
				tx.push((c as u8, Operation::Set(k.clone(), v.clone())));
				m.insert(k, Item::Val(v, 1));
			}
			ctr.inc("admin.dbop.set");
		} else {
			tx.push((c as u8, Operation::Dereference(k.clone())));
			m.remove(&k);
			ctr.inc("admin.dbop.deref");
		}
	}
	tx
}

struct DbSpec {
	cols: Vec<ColumnOptions>,
	salt: Option<[u8; 32]>,
	thresholds: HashMap<u8, u32>,
}

impl DbSpec {
	fn gen(rng: &mut Rng, ncols: usize) -> DbSpec {
		let cols: Vec<ColumnOptions> = (0..ncols).map(|_| gen_col(rng)).collect();
		let mut thresholds = HashMap::new();
		for (i, c) in cols.iter().enumerate() {
			if c.compression != CompressionType::NoCompression && rng.chance(2, 3) {
				thresholds.insert(i as u8, 0u32);
			}
		}
		let salt = if rng.chance(1, 2) { Some(rand_salt(rng)) } else { None };
		DbSpec { cols, salt, thresholds }
	}
	fn options(&self, path: &Path) -> Options {
		let mut o = plain_options(path, &self.cols);
		o.salt = self.salt;
		o.compression_threshold = self.thresholds.clone();
		o
	}
	fn describe(&self) -> String {
		self.cols.iter().map(kind_name).collect::<Vec<_>>().join(",")
	}
}

struct Built {
	dir: PathBuf,
	content: Content,
	pools: Vec<Vec<Vec<u8>>>,
	pending_cols: BTreeSet<u8>, // columns touched by unreplayed log records
	pending: bool,
}

fn drain(db: &Db, unread: &mut usize) -> Result<(), Error> {
	while *unread > 0 {
		db.enact_logs()?;
		db.clean_logs()?;
		*unread -= 1;
	}
	db.enact_logs()?;
	db.clean_logs()?;
	Ok(())
}

/// Create a database with content in every column.  With `pending` the result is a crash
/// image: the last transactions are only in flushed, unreplayed log files.
fn build_db(rng: &mut Rng, root: &Path, name: &str, spec: &DbSpec, pending: bool, ctr: &mut Counters) -> Result<Built, String> {
	let dir = fresh_dir(root, name);
	let e = |what: &str, e: Error| format!("{}: {:?}", what, e);
	let db = Db::open_or_create(&spec.options(&dir)).map_err(|x| e("create", x))?;
	let n = spec.cols.len();
	let pools: Vec<Vec<Vec<u8>>> = (0..n).map(|_| (0..rng.range(3, 8)).map(|_| gen_key(rng)).collect()).collect();
	let mut content: Content = vec![Default::default(); n];
	let mut unread = 0usize;
	// base content: every column gets at least one key
	let mut first: Vec<DbOp> = vec![];
	for c in 0..n {
		let k = pools[c][0].clone();
		let o = &spec.cols[c];
		if o.multitree && !o.btree_index {
			let tree = gen_tree(rng, 0);
			first.push((c as u8, Operation::InsertTree(k.clone(), to_new_node(&tree))));
			content[c].insert(k, Item::Tree(tree));
		} else {
			let v = if o.preimage { value_for_key(&k) } else { gen_value(rng) };
			first.push((c as u8, Operation::Set(k.clone(), v.clone())));
			content[c].insert(k, Item::Val(v, 1));
		}
	}
	db.commit_changes(first).map_err(|x| e("commit", x))?;
	db.process_commits().map_err(|x| e("process", x))?;
	for _ in 0..rng.range(1, 4) {
		let tx = gen_tx(rng, &spec.cols, &pools, &mut content, ctr);
		db.commit_changes(tx).map_err(|x| e("commit", x))?;
		db.process_commits().map_err(|x| e("process", x))?;
	}
	db.flush_logs().map_err(|x| e("flush", x))?;
	unread += 1;
	drain(&db, &mut unread).map_err(|x| e("drain", x))?;
	let mut pending_cols = BTreeSet::new();
	if pending {
		let groups = rng.range(1, 2);
		for _ in 0..groups {
			for _ in 0..rng.range(1, 3) {
				let tx = gen_tx(rng, &spec.cols, &pools, &mut content, ctr);
				for (c, _) in &tx {
					pending_cols.insert(*c);
				}
				db.commit_changes(tx).map_err(|x| e("commit", x))?;
				db.process_commits().map_err(|x| e("process", x))?;
			}
			db.flush_logs().map_err(|x| e("flush", x))?;
			unread += 1;
		}
		let img = fresh_dir(root, &format!("{}-img", name));
		copy_dir(&dir, &img);
		let _ = std::fs::remove_file(img.join("lock"));
		// one image in two also holds an EMPTY log file with an unused number (a crash before the first record header
		// reached a new log file, or a reclaimed file of the pool): a successful open removes it in `Log::open`, a
		// REFUSED open must leave it alone (seeded C17-c17e: `Log::open` moved in front of the metadata check)
		if rng.chance(1, 2) {
			let _ = std::fs::write(img.join("log9"), b"");
			ctr.inc("db.built.with_empty_log_file");
		}
		drain(&db, &mut unread).map_err(|x| e("drain", x))?;
		drop(db);
		let _ = std::fs::remove_dir_all(&dir);
		let has_log = std::fs::read_dir(&img).unwrap().any(|f| f.unwrap().file_name().to_string_lossy().starts_with("log"));
		if !has_log {
			return Err("crash image has no log file".into())
		}
		ctr.inc("db.built.with_pending_logs");
		return Ok(Built { dir: img, content, pools, pending_cols, pending: true })
	}
	drop(db);
	ctr.inc("db.built.clean");
	Ok(Built { dir, content, pools, pending_cols, pending: false })
}

fn read_tree(db: &Db, c: u8, data: Vec<u8>, children: Vec<u64>, depth: u32) -> Result<Tree, String> {
	let mut out = Tree { data, children: vec![] };
	if depth > 8 {
		return Err("tree too deep".into())
	}
	for a in children {
		match db.get_node(c, a) {
			Ok(Some((d, ch))) => out.children.push(read_tree(db, c, d, ch, depth + 1)?),
			Ok(None) => return Err(format!("child node {} missing", a)),
			Err(e) => return Err(format!("get_node: {:?}", e)),
		}
	}
	Ok(out)
}

/// Everything readable from the given columns through the public API.
fn observe(db: &Db, cols: &[ColumnOptions], pools: &[Vec<Vec<u8>>]) -> Vec<ColObs> {
	let mut out = vec![];
	for (c, o) in cols.iter().enumerate() {
		// a panic inside the crate while reading is an observation of that column, not a harness crash
		let r = quiet(|| observe_col(db, c, o, pools));
		out.push(match r {
			Ok(obs) => obs,
			Err(_) => {
				let mut obs = ColObs::default();
				obs.gets.insert(b"<any>".to_vec(), Got::Fail("panic while reading the column".into()));
				obs
			},
		});
	}
	out
}

fn observe_col(db: &Db, c: usize, o: &ColumnOptions, pools: &[Vec<Vec<u8>>]) -> ColObs {
	{
		let mut obs = ColObs::default();
		let keys: &[Vec<u8>] = pools.get(c).map(|p| p.as_slice()).unwrap_or(&[]);
		for k in keys {
			let g = if o.multitree && !o.btree_index {
				match db.get_root(c as u8, k) {
					Ok(None) => Got::Absent,
					Ok(Some((d, ch))) => match read_tree(db, c as u8, d, ch, 0) {
						Ok(t) => Got::Tree(t),
						Err(e) => Got::Fail(e),
					},
					Err(e) => Got::Fail(format!("{:?}", e)),
				}
			} else {
				match db.get(c as u8, k) {
					Ok(None) => Got::Absent,
					Ok(Some(v)) => Got::Val(v),
					Err(e) => Got::Fail(format!("{:?}", e)),
				}
			};
			obs.gets.insert(k.clone(), g);
		}
		if o.btree_index {
			let mut items = vec![];
			match db.iter(c as u8) {
				Ok(mut it) => {
					let _ = it.seek_to_first();
					let mut guard = 0;
					while let Ok(Some(kv)) = it.next() {
						items.push(kv);
						guard += 1;
						if guard > 10000 {
							break
						}
					}
				},
				Err(e) => items.push((b"iter error".to_vec(), format!("{:?}", e).into_bytes())),
			}
			obs.iter = Some(items);
		} else {
			let mut vals = vec![];
			let r = db.iter_column_while(c as u8, |s| {
				vals.push((s.rc, s.value));
				true
			});
			if let Err(e) = r {
				vals.push((u32::MAX, format!("{:?}", e).into_bytes()));
			}
			vals.sort();
			obs.values = Some(vals);
			obs.entries = db.get_num_column_value_entries(c as u8).ok();
		}
		obs
	}
}

fn short(v: &[u8]) -> String {
	format!("{}b:{}", v.len(), hexs(&v[..std::cmp::min(8, v.len())]))
}

/// Compare one column's observation with the reference content; returns the discrepancies.
fn diff_content(c: usize, o: &ColumnOptions, obs: &ColObs, exp: &BTreeMap<Vec<u8>, Item>) -> Vec<String> {
	let mut out = vec![];
	for (k, g) in &obs.gets {
		let e = match exp.get(k) {
			None => Got::Absent,
			Some(Item::Val(v, _)) => Got::Val(v.clone()),
			Some(Item::Tree(t)) => Got::Tree(t.clone()),
		};
		if *g != e {
			let show = |g: &Got| match g {
				Got::Absent => "absent".to_string(),
				Got::Val(v) => format!("value {}", short(v)),
				Got::Tree(t) => format!("tree {} ({} children)", short(&t.data), t.children.len()),
				Got::Fail(m) => format!("error {}", m),
			};
			out.push(format!("col {} ({}) key {}: expected {}, read {}", c, kind_name(o), short(k), show(&e), show(g)));
		}
	}
	if let Some(items) = &obs.iter {
		let want: Vec<(Vec<u8>, Vec<u8>)> = exp
			.iter()
			.filter_map(|(k, i)| match i {
				Item::Val(v, _) => Some((k.clone(), v.clone())),
				_ => None,
			})
			.collect();
		if *items != want {
			out.push(format!("col {} ({}) btree iteration yields {} entries, expected {}", c, kind_name(o), items.len(), want.len()));
		}
	}
	if let Some(vals) = &obs.values {
		if !(o.multitree && !o.btree_index) {
			let mut want: Vec<Vec<u8>> = exp
				.values()
				.filter_map(|i| match i {
					Item::Val(v, _) => Some(v.clone()),
					_ => None,
				})
				.collect();
			want.sort();
			let mut have: Vec<Vec<u8>> = vals.iter().map(|x| x.1.clone()).collect();
			have.sort();
			if have != want {
				out.push(format!("col {} ({}) holds {} values, expected {}", c, kind_name(o), have.len(), want.len()));
			}
		} else if exp.is_empty() && !vals.is_empty() {
			out.push(format!("col {} ({}) holds {} node values, expected none", c, kind_name(o), vals.len()));
		}
		if exp.is_empty() && obs.entries.unwrap_or(0) != 0 {
			out.push(format!("col {} ({}) reports {} value entries, expected 0", c, kind_name(o), obs.entries.unwrap_or(0)));
		}
	}
	out
}

fn file_digest(path: &Path) -> (u64, u64) {
	use std::io::Read;
	let mut f = std::fs::File::open(path).unwrap();
	let len = f.metadata().unwrap().len();
	let mut buf = vec![0u8; 1 << 16];
	let mut h = 0xcbf2_9ce4_8422_2325u64;
	let mut off = 0u64;
	loop {
		let n = f.read(&mut buf).unwrap();
		if n == 0 {
			break
		}
		if buf[..n].iter().any(|x| *x != 0) {
			h = (h ^ off).wrapping_mul(0x100_0000_01b3);
			let mut i = 0;
			while i + 8 <= n {
				let w = u64::from_le_bytes(buf[i..i + 8].try_into().unwrap());
				h = (h ^ w).wrapping_mul(0x100_0000_01b3);
				h ^= h >> 29;
				i += 8;
			}
			while i < n {
				h = (h ^ buf[i] as u64).wrapping_mul(0x100_0000_01b3);
				i += 1;
			}
		}
		off += n as u64;
	}
	(len, h)
}

/// File names with (length, content digest); the `lock` file is left out.
fn snapshot(dir: &Path) -> BTreeMap<String, (u64, u64)> {
	let mut m = BTreeMap::new();
	if let Ok(rd) = std::fs::read_dir(dir) {
		for e in rd {
			let e = e.unwrap();
			let n = e.file_name().to_string_lossy().to_string();
			if n == "lock" {
				continue
			}
			if e.file_type().unwrap().is_file() {
				m.insert(n, file_digest(&e.path()));
			} else {
				m.insert(n, (u64::MAX, 0));
			}
		}
	}
	m
}

fn file_names(dir: &Path) -> BTreeSet<String> {
	std::fs::read_dir(dir).map(|rd| rd.map(|e| e.unwrap().file_name().to_string_lossy().to_string()).collect()).unwrap_or_default()
}

fn snapshot_diff(a: &BTreeMap<String, (u64, u64)>, b: &BTreeMap<String, (u64, u64)>) -> Vec<String> {
	let mut out = vec![];
	for (n, d) in a {
		match b.get(n) {
			None => out.push(format!("{} deleted", n)),
			Some(d2) if d2 != d => out.push(format!("{} modified", n)),
			_ => {},
		}
	}
	for n in b.keys() {
		if !a.contains_key(n) {
			out.push(format!("{} created", n));
		}
	}
	out
}

// ------------------------------------------------------------------------------------ open checks

/// Change one field of `o`; the result is valid and different from `o`.
fn flip_one(rng: &mut Rng, o: &ColumnOptions) -> ColumnOptions {
	for _ in 0..64 {
		let mut n = o.clone();
		match rng.below(8) {
			0 => n.preimage = !n.preimage,
			1 => n.uniform = !n.uniform,
			2 => n.ref_counted = !n.ref_counted,
			3 => n.compression = comp_of(comp_code(n.compression) as u64 + 1 + rng.below(2)),
			4 => n.btree_index = !n.btree_index,
			5 => n.multitree = !n.multitree,
			6 => n.append_only = !n.append_only,
			_ => n.allow_direct_node_access = !n.allow_direct_node_access,
		}
		if n.is_valid() && n != *o {
			return n
		}
	}
	let mut n = o.clone();
	n.allow_direct_node_access = !n.allow_direct_node_access;
	n
}

#[derive(Clone, Copy, PartialEq, Debug)]
enum Mode {
	Open,
	Create,
	ReadOnly,
}

fn open_mode(mode: Mode, o: &Options) -> std::thread::Result<Result<Db, Error>> {
	quiet(|| match mode {
		Mode::Open => Db::open(o),
		Mode::Create => Db::open_or_create(o),
		Mode::ReadOnly => Db::open_read_only(o),
	})
}

fn render_open(r: &std::thread::Result<Result<Db, Error>>) -> String {
	match r {
		Err(_) => "panic".into(),
		Ok(Ok(_)) => "ok".into(),
		Ok(Err(e)) => render_err(e),
	}
}

/// Independent statement of the option check.
fn expected_open(stored: &[ColumnOptions], requested: &[ColumnOptions]) -> String {
	if stored.len() != requested.len() {
		return "err:InvalidConfiguration".into()
	}
	for i in 0..stored.len() {
		if stored[i] != requested[i] {
			return format!("err:IncompatibleColumnConfig:{}", i)
		}
	}
	"ok".into()
}

/// `Db::open` without create on a directory that has no metadata: DatabaseNotFound and
/// nothing created.  Returns false on an oracle failure (F9 is reported as known).
fn check_open_nothing(dir: &Path, what: &str, mode: Mode, cols: &[ColumnOptions], t: &mut Trace, ctr: &mut Counters, prop: &str) -> bool {
	let existed = dir.is_dir();
	let before = file_names(dir);
	let r = open_mode(mode, &plain_options(dir, cols));
	let obs = render_open(&r);
	drop(r);
	let mut ok = true;
	if obs != "err:DatabaseNotFound" {
		t.oracle_fail(prop, &format!("{:?} of {} -> {}, expected err:DatabaseNotFound", mode, what, obs));
		ok = false;
	}
	if !existed {
		if dir.exists() {
			t.oracle_fail(prop, &format!("{:?} of {} created the directory", mode, what));
			ok = false;
		}
		ctr.inc("open.missing_dir");
		return ok
	}
	let after = file_names(dir);
	let created: Vec<&String> = after.difference(&before).collect();
	let deleted: Vec<&String> = before.difference(&after).collect();
	if !deleted.is_empty() {
		t.oracle_fail(prop, &format!("{:?} of {} deleted {:?}", mode, what, deleted));
		ok = false;
	}
	if created.len() == 1 && created[0] == "lock" {
		t.known(prop, "F9", &format!("failed {:?} of {} left a `lock` file behind", mode, what));
		ctr.inc("known.F9");
	} else if !created.is_empty() {
		t.oracle_fail(prop, &format!("failed {:?} of {} created {:?}", mode, what, created));
		ok = false;
	}
	ctr.inc("open.no_metadata_dir");
	ok
}

fn case_open(seed: u64, rng: &mut Rng, root: &Path, t: &mut Trace, ctr: &mut Counters, prop: &str) -> bool {
	let n = rng.range(1, 4) as usize;
	let spec = DbSpec::gen(rng, n);
	let pending = rng.chance(1, 4);
	let metaonly = !pending && rng.chance(1, 5);
	t.begin_case(&format!(
		"seed={} kind=open cols={} pending_logs={} metadata_only={}",
		seed,
		spec.describe(),
		pending as u8,
		metaonly as u8
	));
	let mut ok = true;
	let name = format!("c17-{}", seed);
	let (dir, stored): (PathBuf, Vec<ColumnOptions>) = if metaonly {
		// a directory with only a metadata file; stored options arbitrary (valid or not)
		let dir = fresh_dir(root, &name);
		std::fs::create_dir_all(&dir).unwrap();
		let stored: Vec<ColumnOptions> = (0..n).map(|_| opt_from_index(rng.below(384))).collect();
		plain_options(&dir, &stored).write_metadata(&dir, &rand_salt(rng)).unwrap();
		(dir, stored)
	} else {
		match build_db(rng, root, &name, &spec, pending, ctr) {
			Ok(b) => (b.dir, spec.cols.clone()),
			Err(e) => {
				t.oracle_fail(prop, &format!("building the database failed: {}", e));
				t.end_case(false);
				return false
			},
		}
	};
	let tries = rng.range(3, 6);
	let mut outcomes = BTreeSet::new();
	for _ in 0..tries {
		let mut requested = stored.clone();
		let variant = rng.below(20);
		if variant < 3 {
			// equal
		} else if variant < 13 {
			let p = rng.below(requested.len() as u64) as usize;
			requested[p] = flip_one(rng, &stored[p]);
			if !metaonly && rng.chance(1, 4) && requested.len() > 1 {
				let q = rng.below(requested.len() as u64) as usize;
				requested[q] = flip_one(rng, &stored[q]);
			}
		} else {
			if rng.chance(1, 2) {
				let k = rng.range(1, requested.len() as u64) as usize;
				requested.truncate(requested.len() - k);
			} else {
				for _ in 0..rng.range(1, 2) {
					requested.push(gen_col(rng));
				}
			}
			if variant >= 18 && !requested.is_empty() {
				let p = rng.below(requested.len() as u64) as usize;
				requested[p] = flip_one(rng, &requested[p].clone());
			}
		}
		if requested.iter().any(|c| !c.is_valid()) {
			// `Db::open` asserts the validity of the requested options
			for c in requested.iter_mut() {
				if !c.is_valid() {
					*c = gen_col(rng);
				}
			}
		}
		let mode = match rng.below(20) {
			0..=11 => Mode::Open,
			12..=16 => Mode::Create,
			_ => Mode::ReadOnly,
		};
		let expect = expected_open(&stored, &requested);
		if expect == "ok" && (metaonly && stored.iter().any(|c| !c.is_valid())) {
			continue
		}
		let mut o = plain_options(&dir, &requested);
		o.salt = if rng.chance(1, 2) { None } else { spec.salt };
		o.compression_threshold = spec.thresholds.clone();
		let before = snapshot(&dir);
		let r = open_mode(mode, &o);
		let obs = render_open(&r);
		drop(r);
		let after = snapshot(&dir);
		let mut line = format!("c17 validate {} {}", stored.len(), requested.len());
		for c in stored.iter().chain(requested.iter()) {
			line.push(' ');
			line.push_str(&render_opts(c));
		}
		t.op(&line, &obs);
		ctr.inc(&format!("open.{:?}.{}", mode, obs.split(':').take(2).collect::<Vec<_>>().join(":")));
		outcomes.insert(obs.split(':').take(2).collect::<Vec<_>>().join(":"));
		if obs != expect {
			t.oracle_fail(prop, &format!("{:?} with stored [{}] requested [{}] -> {}, expected {}", mode, render_cols(&stored), render_cols(&requested), obs, expect));
			ok = false;
		}
		if expect != "ok" {
			let d = snapshot_diff(&before, &after);
			if !d.is_empty() {
				t.oracle_fail(prop, &format!("failed {:?} ({}) modified the directory: {}", mode, obs, d.join(", ")));
				ok = false;
			}
			ctr.inc("open.mismatch.dir_compared");
		}
	}
	if rng.chance(1, 2) {
		ok &= pair_sweep(seed, rng, root, t, ctr, prop);
	}
	// opening what does not exist
	let missing = root.join(format!("c17-{}-missing", seed));
	let _ = std::fs::remove_dir_all(&missing);
	let mode = if rng.chance(2, 3) { Mode::Open } else { Mode::ReadOnly };
	ok &= check_open_nothing(&missing, "a missing directory", mode, &stored_valid(&stored, rng), t, ctr, prop);
	if rng.chance(1, 2) {
		let empty = fresh_dir(root, &format!("c17-{}-empty", seed));
		std::fs::create_dir_all(&empty).unwrap();
		let what = if rng.chance(1, 2) {
			std::fs::write(empty.join("table_00_00"), b"stale").unwrap();
			"an existing directory without metadata"
		} else {
			"an existing empty directory"
		};
		ok &= check_open_nothing(&empty, what, mode, &stored_valid(&stored, rng), t, ctr, prop);
		let _ = std::fs::remove_dir_all(&empty);
	}
	let _ = std::fs::remove_dir_all(&dir);
	ctr.inc("cases.open");
	t.end_case(outcomes.len() >= 2);
	ok
}

/// One requested (valid) single-column configuration against ALL 384 stored ones.
fn pair_sweep(seed: u64, rng: &mut Rng, root: &Path, t: &mut Trace, ctr: &mut Counters, prop: &str) -> bool {
	let dir = fresh_dir(root, &format!("c17-{}-sweep", seed));
	let requested = loop {
		let o = opt_from_index(rng.below(384));
		if o.is_valid() {
			break o
		}
	};
	let salt = rand_salt(rng);
	let mut ok = true;
	for i in 0..384 {
		let stored = opt_from_index(i);
		let _ = std::fs::remove_dir_all(&dir);
		std::fs::create_dir_all(&dir).unwrap();
		plain_options(&dir, &[stored.clone()]).write_metadata(&dir, &salt).unwrap();
		let before = std::fs::read(dir.join("metadata")).unwrap();
		let r = open_mode(Mode::Open, &plain_options(&dir, &[requested.clone()]));
		let obs = render_open(&r);
		drop(r);
		t.op(&format!("c17 validate 1 1 {} {}", render_opts(&stored), render_opts(&requested)), &obs);
		let expect = if stored == requested { "ok".to_string() } else { "err:IncompatibleColumnConfig:0".to_string() };
		if obs != expect {
			t.oracle_fail(prop, &format!("open with stored [{}] requested [{}] -> {}, expected {}", render_opts(&stored), render_opts(&requested), obs, expect));
			ok = false;
		}
		if stored != requested {
			let names = file_names(&dir);
			let extra: Vec<&String> = names.iter().filter(|n| *n != "metadata" && *n != "lock").collect();
			if !extra.is_empty() || std::fs::read(dir.join("metadata")).ok() != Some(before) {
				t.oracle_fail(prop, &format!("failed open with stored [{}] requested [{}] modified the directory ({:?})", render_opts(&stored), render_opts(&requested), extra));
				ok = false;
			}
		}
		ctr.inc("open.pair_sweep.pairs");
	}
	let _ = std::fs::remove_dir_all(&dir);
	ok
}

fn stored_valid(stored: &[ColumnOptions], rng: &mut Rng) -> Vec<ColumnOptions> {
	stored.iter().map(|c| if c.is_valid() { c.clone() } else { gen_col(rng) }).collect()
}

// ------------------------------------------------------------------------------------ administration

#[derive(Clone, Debug)]
enum Admin {
	Add(ColumnOptions),
	DropLast,
	Reset(u8, Option<ColumnOptions>),
	Clear(u8),
}

impl Admin {
	fn name(&self) -> &'static str {
		match self {
			Admin::Add(_) => "add_column",
			Admin::DropLast => "drop_last_column",
			Admin::Reset(_, None) => "reset_column_none",
			Admin::Reset(_, Some(_)) => "reset_column_some",
			Admin::Clear(_) => "clear_column",
		}
	}
	fn describe(&self) -> String {
		match self {
			Admin::Add(o) => format!("add_column({})", kind_name(o)),
			Admin::DropLast => "drop_last_column".into(),
			Admin::Reset(i, None) => format!("reset_column({},None)", i),
			Admin::Reset(i, Some(o)) => format!("reset_column({},Some({}))", i, kind_name(o)),
			Admin::Clear(i) => format!("clear_column({})", i),
		}
	}
}

fn call_admin(op: &Admin, o: &mut Options) -> String {
	let r = quiet(|| match op {
		Admin::Add(n) => Db::add_column(o, n.clone()),
		Admin::DropLast => Db::drop_last_column(o),
		Admin::Reset(i, n) => Db::reset_column(o, *i, n.clone()),
		Admin::Clear(i) => parity_db::clear_column(&o.path, *i),
	});
	match r {
		Err(_) => "panic".into(),
		Ok(Ok(())) => "ok".into(),
		Ok(Err(e)) => render_err(&e),
	}
}

/// The call plus the model op `c17 admin ..`: what it does to the `lock` and `metadata` files.
fn run_admin(op: &Admin, o: &mut Options, t: &mut Trace) -> String {
	let dir = o.path.clone();
	let lock = dir.join("lock").exists();
	let meta = std::fs::read(dir.join("metadata")).ok();
	let mut line = format!(
		"c17 admin {} {} {} {}",
		lock as u8,
		meta.as_ref().map(|m| format!("x{}", hexs(m))).unwrap_or_else(|| "-".into()),
		o.salt.map(|s| hexs(&s)).unwrap_or_else(|| "-".into()),
		o.columns.len()
	);
	for c in &o.columns {
		line.push(' ');
		line.push_str(&render_opts(c));
	}
	line.push(' ');
	line.push_str(&match op {
		Admin::Add(c) => format!("add {}", render_opts(c)),
		Admin::DropLast => "droplast".to_string(),
		Admin::Reset(i, None) => format!("reset {} none", i),
		Admin::Reset(i, Some(c)) => format!("reset {} {}", i, render_opts(c)),
		Admin::Clear(i) => format!("clear {}", i),
	});
	let res = call_admin(op, o);
	let obs = if !dir.is_dir() {
		format!("{} nodir", res)
	} else {
		format!(
			"{} {} {}",
			res,
			dir.join("lock").exists() as u8,
			std::fs::read(dir.join("metadata")).ok().map(|m| format!("x{}", hexs(&m))).unwrap_or_else(|| "-".into())
		)
	};
	t.op(&line, &obs);
	res
}

/// Names that are not files of any existing column but look similar.
fn decoys(n: usize) -> Vec<String> {
	let mut v = vec![
		"index_100_16".to_string(),
		"table_100_00".to_string(),
		"refcount_100_16".to_string(),
		"table_1_00".to_string(),
		"table_001_00".to_string(),
		"index_01".to_string(),
		"xindex_01_16".to_string(),
		"INDEX_00_16".to_string(),
		"refcount_1_16".to_string(),
		"index_10_16".to_string(),
		"table_20_00".to_string(),
		"index__16".to_string(),
		"table_0".to_string(),
		"metadata.bak".to_string(),
	];
	for c in 0..n {
		// these do match the deletion prefix of column c
		v.push(format!("table_{:02}_zz", c));
		v.push(format!("index_{:02}_", c));
		v.push(format!("refcount_{:02}_x.bak", c));
		// and these do not
		v.push(format!("table_{:02}", c));
		v.push(format!("index_{:02}x_16", c));
		v.push(format!("refcount_{}{:02}_16", 1, c));
	}
	v
}

/// Write a key into a freshly configured (empty) column and read it back.
fn smoke_write(db: &Db, c: u8, o: &ColumnOptions, rng: &mut Rng) -> Result<(), String> {
	let k = gen_key(rng);
	let e = |w: &str, e: Error| format!("{} on the new column: {:?}", w, e);
	if o.multitree && !o.btree_index {
		let tree = gen_tree(rng, 0);
		db.commit_changes(vec![(c, Operation::InsertTree(k.clone(), to_new_node(&tree)))]).map_err(|x| e("commit", x))?;
		db.process_commits().map_err(|x| e("process", x))?;
		db.flush_logs().map_err(|x| e("flush", x))?;
		let mut u = 1;
		drain(db, &mut u).map_err(|x| e("drain", x))?;
		match db.get_root(c, &k) {
			Ok(Some((d, ch))) =>
				if read_tree(db, c, d, ch, 0)? != tree {
					return Err("tree written to the new column reads back differently".into())
				},
			other => return Err(format!("tree written to the new column reads back as {:?}", other.map(|x| x.is_some()))),
		}
	} else {
		let v = if o.preimage { value_for_key(&k) } else { gen_value(rng) };
		db.commit_changes(vec![(c, Operation::Set(k.clone(), v.clone()))]).map_err(|x| e("commit", x))?;
		db.process_commits().map_err(|x| e("process", x))?;
		db.flush_logs().map_err(|x| e("flush", x))?;
		let mut u = 1;
		drain(db, &mut u).map_err(|x| e("drain", x))?;
		match db.get(c, &k) {
			Ok(Some(got)) if got == v => {},
			other => return Err(format!("value written to the new column reads back as {:?}", other.map(|x| x.map(|v| short(&v))))),
		}
	}
	Ok(())
}

fn case_admin(seed: u64, rng: &mut Rng, root: &Path, t: &mut Trace, ctr: &mut Counters, prop: &str) -> bool {
	let n = rng.range(1, 5) as usize;
	let spec = DbSpec::gen(rng, n);
	let pending = rng.chance(2, 5);
	// 0 = valid call, 1 = index out of range, 2 = requested options disagree with the stored ones
	let flavour = match rng.below(100) {
		0..=87 => 0,
		88..=93 => 1,
		_ => 2,
	};
	let mut op = match rng.below(5) {
		0 => Admin::Add(gen_col(rng)),
		1 => Admin::DropLast,
		2 => Admin::Reset(rng.below(n as u64) as u8, None),
		3 => Admin::Reset(rng.below(n as u64) as u8, Some(gen_col(rng))),
		_ => Admin::Clear(rng.below(n as u64) as u8),
	};
	if flavour == 1 {
		let bad = n as u8 + rng.below(3) as u8;
		op = match rng.below(3) {
			0 => Admin::Reset(bad, None),
			1 => Admin::Reset(bad, Some(gen_col(rng))),
			_ => Admin::Clear(bad),
		};
	}
	if flavour == 2 && matches!(op, Admin::Clear(_)) {
		op = Admin::DropLast; // clear_column takes no options
	}
	t.begin_case(&format!(
		"seed={} kind=admin cols={} pending_logs={} op={} flavour={}",
		seed,
		spec.describe(),
		pending as u8,
		op.describe(),
		flavour
	));
	let name = format!("c17-{}", seed);
	let built = match build_db(rng, root, &name, &spec, pending, ctr) {
		Ok(b) => b,
		Err(e) => {
			t.oracle_fail(prop, &format!("building the database failed: {}", e));
			t.end_case(false);
			return false
		},
	};
	let dir = built.dir.clone();
	let refdir = fresh_dir(root, &format!("{}-ref", name));
	let mut ok = true;
	let mut fails: Vec<String> = vec![];
	// decoy files next to the real ones
	let decoy_names = decoys(n);
	for d in &decoy_names {
		std::fs::write(dir.join(d), b"decoy").unwrap();
	}
	// reference observation on a copy: the content before the call (pending logs included)
	copy_dir(&dir, &refdir);
	let ref_obs = match open_mode(Mode::Open, &spec.options(&refdir)) {
		Ok(Ok(db)) => {
			let o = observe(&db, &spec.cols, &built.pools);
			drop(db);
			o
		},
		other => {
			t.oracle_fail(prop, &format!("opening the reference copy failed: {}", render_open(&other)));
			t.end_case(false);
			return false
		},
	};
	let _ = std::fs::remove_dir_all(&refdir);
	for c in 0..n {
		for m in diff_content(c, &spec.cols[c], &ref_obs[c], &built.content[c]) {
			fails.push(format!("before the call (recovery of the committed content): {}", m));
		}
	}
	// the call
	let mut options = spec.options(&dir);
	if flavour == 2 {
		if rng.chance(2, 3) {
			let p = rng.below(n as u64) as usize;
			options.columns[p] = flip_one(rng, &spec.cols[p]);
		} else {
			options.columns.push(gen_col(rng));
		}
	}
	let requested = options.columns.clone();
	let before_names = file_names(&dir);
	let before_snap = if flavour != 0 { Some(snapshot(&dir)) } else { None };
	let res = run_admin(&op, &mut options, t);
	let after_names = file_names(&dir);
	ctr.inc(&format!("admin.op.{}.{}", op.name(), res.split(':').take(2).collect::<Vec<_>>().join(":")));
	ctr.inc(&format!("admin.ncols.{}", n));
	for c in &spec.cols {
		for (i, part) in kind_name(c).split('+').enumerate() {
			ctr.inc(&format!("admin.{}.{}", if i == 0 { "colkind" } else { "colflag" }, part));
		}
	}
	// expected outcome and new column list (independent statement)
	let affected: Option<usize> = match &op {
		Admin::Add(_) => None,
		Admin::DropLast => Some(n - 1),
		Admin::Reset(i, _) | Admin::Clear(i) => Some(*i as usize),
	};
	let mut new_cols = spec.cols.clone();
	let expect = match flavour {
		0 => {
			match &op {
				Admin::Add(o) => new_cols.push(o.clone()),
				Admin::DropLast => {
					new_cols.pop();
				},
				Admin::Reset(i, Some(o)) => new_cols[*i as usize] = o.clone(),
				_ => {},
			}
			"ok".to_string()
		},
		1 => match &op {
			Admin::Clear(_) => "err:Migration".to_string(),
			Admin::Reset(i, _) => format!("err:IncompatibleColumnConfig:{}", i),
			_ => unreachable!(),
		},
		_ => expected_open(&spec.cols, &requested),
	};
	if res != expect {
		fails.push(format!("{} returned {}, expected {}", op.describe(), res, expect));
	}
	if flavour == 2 {
		let mut line = format!("c17 validate {} {}", spec.cols.len(), requested.len());
		for c in spec.cols.iter().chain(requested.iter()) {
			line.push(' ');
			line.push_str(&render_opts(c));
		}
		t.op(&line, &res);
		let d = snapshot_diff(before_snap.as_ref().unwrap(), &snapshot(&dir));
		if !d.is_empty() {
			fails.push(format!("failed {} ({}) modified the directory: {}", op.describe(), res, d.join(", ")));
		}
		if options.columns != requested {
			fails.push(format!("failed {} changed the caller's options", op.describe()));
		}
		options = spec.options(&dir);
	}
	if flavour == 1 {
		if let Admin::Clear(_) = op {
			let d = snapshot_diff(before_snap.as_ref().unwrap(), &snapshot(&dir));
			if !d.is_empty() {
				fails.push(format!("failed {} ({}) modified the directory: {}", op.describe(), res, d.join(", ")));
			}
		}
		options = spec.options(&dir);
	}
	// which files did the call delete (ties the model's file selection to the code)
	if flavour == 0 && res == "ok" {
		if let Some(col) = affected {
			for name in &before_names {
				if name.starts_with("log") || name.contains(' ') {
					t.comment(&format!("file {} {}", name, if after_names.contains(name) { "kept" } else { "removed" }));
					continue
				}
				let deleted = !after_names.contains(name);
				t.op(&format!("c17 match {} {}", col, name), if deleted { "1" } else { "0" });
				ctr.inc(if deleted { "admin.match.deleted" } else { "admin.match.kept" });
				// independent statement: exactly the three prefixes of that column
				let want = name.starts_with(&format!("index_{:02}_", col)) ||
					name.starts_with(&format!("table_{:02}_", col)) ||
					name.starts_with(&format!("refcount_{:02}_", col));
				if want != deleted {
					fails.push(format!("{}: file {} was {}", op.describe(), name, if deleted { "deleted" } else { "kept" }));
				}
			}
		} else {
			for name in &before_names {
				if !name.starts_with("log") && !after_names.contains(name) {
					fails.push(format!("{}: file {} was deleted", op.describe(), name));
				}
			}
		}
		if options.columns != new_cols {
			fails.push(format!("{} left the caller's options as [{}], expected [{}]", op.describe(), render_cols(&options.columns), render_cols(&new_cols)));
			options.columns = new_cols.clone();
		}
	}
	// the metadata file holds the new options
	match load_meta(&dir.join("metadata")) {
		Ok(Ok(Some((_, _, cols)))) if cols == new_cols => {},
		other => fails.push(format!("metadata after {}: {}, expected columns [{}]", op.describe(), render_loaded(&other), render_cols(&new_cols))),
	}
	// content after the call
	let mut pools = built.pools.clone();
	let mut exp = built.content.clone();
	if flavour == 0 && res == "ok" {
		match &op {
			Admin::Add(_) => {
				pools.push((0..3).map(|_| gen_key(rng)).collect());
				exp.push(Default::default());
			},
			Admin::DropLast => {
				pools.pop();
				exp.pop();
			},
			Admin::Reset(i, _) | Admin::Clear(i) => exp[*i as usize].clear(),
		}
	}
	let mut affected_fails: Vec<String> = vec![];
	let rounds = if rng.chance(1, 3) { 2 } else { 1 };
	for round in 0..rounds {
		let db = match open_mode(Mode::Open, &options) {
			Ok(Ok(db)) => db,
			other => {
				let m = format!("open after {} failed: {}", op.describe(), render_open(&other));
				if matches!(op, Admin::Clear(_)) && built.pending && flavour == 0 {
					affected_fails.push(m);
				} else {
					fails.push(m);
				}
				break
			},
		};
		let obs = observe(&db, &new_cols, &pools);
		for c in 0..new_cols.len() {
			let is_affected = flavour == 0 && (affected == Some(c) || (matches!(op, Admin::Add(_)) && c == n));
			let d = diff_content(c, &new_cols[c], &obs[c], &exp[c]);
			if is_affected {
				affected_fails.extend(d.into_iter().map(|m| format!("after {} (open #{}): affected {}", op.describe(), round + 1, m)));
			} else {
				fails.extend(d.into_iter().map(|m| format!("after {} (open #{}): {}", op.describe(), round + 1, m)));
				// same kind of column as before: the raw observation is unchanged too
				if c < n && new_cols[c] == spec.cols[c] && obs[c] != ref_obs[c] {
					fails.push(format!("after {} (open #{}): col {} ({}) reads differently than before the call", op.describe(), round + 1, c, kind_name(&new_cols[c])));
				}
			}
		}
		if round == 0 && flavour == 0 && res == "ok" && affected_fails.is_empty() {
			let target = match &op {
				Admin::Add(o) => Some((n as u8, o.clone())),
				Admin::Reset(i, Some(o)) => Some((*i, o.clone())),
				_ => None,
			};
			if let Some((c, o)) = target {
				match smoke_write(&db, c, &o, rng) {
					Ok(()) => ctr.inc("admin.new_column_written"),
					Err(m) => fails.push(m),
				}
				let obs2 = observe(&db, &new_cols, &pools);
				for c2 in 0..new_cols.len() {
					if c2 != c as usize && obs2[c2] != obs[c2] {
						fails.push(format!("writing to the new column {} changed column {}", c, c2));
					}
				}
				// the probe key is not part of the pools: the column is no longer empty
				ctr.inc("admin.reopened_after_write");
				drop(db);
				break
			}
		}
		drop(db);
	}
	if !affected_fails.is_empty() {
		// F8: clear_column does not replay pending logs; their records for that column come back
		let is_f8 = matches!(op, Admin::Clear(_)) && built.pending && flavour == 0;
		if is_f8 && fails.is_empty() {
			t.known(prop, "F8", &format!("clear_column with unreplayed logs: {}", affected_fails[0]));
			ctr.inc("known.F8");
		} else {
			fails.extend(affected_fails);
		}
	}
	if matches!(op, Admin::Clear(_)) && built.pending && flavour == 0 {
		ctr.inc(if built.pending_cols.contains(&(affected.unwrap() as u8)) {
			"admin.clear.pending_records_for_column"
		} else {
			"admin.clear.pending_records_elsewhere"
		});
	}
	for m in &fails {
		t.oracle_fail(prop, m);
		ok = false;
	}
	let _ = std::fs::remove_dir_all(&dir);
	ctr.inc("cases.admin");
	if built.pending {
		ctr.inc("cases.admin.pending_logs");
	}
	t.end_case(true);
	ok
}

// ------------------------------------------------------------------------------------ dedicated findings

fn simple_fill(db: &Db, cols: &[ColumnOptions], pools: &[Vec<Vec<u8>>], content: &mut Content, rng: &mut Rng) -> Result<(), String> {
	let e = |w: &str, e: Error| format!("{}: {:?}", w, e);
	let mut tx: Vec<DbOp> = vec![];
	for (c, o) in cols.iter().enumerate() {
		for k in &pools[c] {
			let v = if o.preimage { value_for_key(k) } else { gen_value(rng) };
			tx.push((c as u8, Operation::Set(k.clone(), v.clone())));
			content[c].insert(k.clone(), Item::Val(v, 1));
		}
	}
	db.commit_changes(tx).map_err(|x| e("commit", x))?;
	db.process_commits().map_err(|x| e("process", x))?;
	db.flush_logs().map_err(|x| e("flush", x))?;
	let mut u = 1;
	drain(db, &mut u).map_err(|x| e("drain", x))
}

/// F13: an administration call (or a plain open) with `options.salt` different from the stored salt.
fn finding_salt(seed: u64, rng: &mut Rng, root: &Path, t: &mut Trace, ctr: &mut Counters, prop: &str) -> bool {
	let dir = fresh_dir(root, &format!("c17-{}", seed));
	let mut uni = ColumnOptions::default();
	uni.uniform = true;
	let mut bt = ColumnOptions::default();
	bt.btree_index = true;
	let cols = vec![ColumnOptions::default(), uni, bt, ColumnOptions::default()];
	let stored_salt = if rng.chance(1, 2) { Some(rand_salt(rng)) } else { None };
	let other_salt = rand_salt(rng);
	let op = match rng.below(4) {
		0 => Admin::Add(gen_col(rng)),
		1 => Admin::DropLast,
		2 => Admin::Reset(3, Some(gen_col(rng))),
		_ => Admin::Reset(3, None),
	};
	t.begin_case(&format!("seed={} kind=findings scenario=salt op={} stored_salt_given={}", seed, op.describe(), stored_salt.is_some() as u8));
	let mut fails: Vec<String> = vec![];
	let mut known: Vec<String> = vec![];
	let pools: Vec<Vec<Vec<u8>>> = (0..4).map(|_| (0..4).map(|_| gen_key(rng)).collect()).collect();
	let mut content: Content = vec![Default::default(); 4];
	let mut o = plain_options(&dir, &cols);
	o.salt = stored_salt;
	let r = (|| -> Result<(), String> {
		let db = Db::open_or_create(&o).map_err(|e| format!("create: {:?}", e))?;
		simple_fill(&db, &cols, &pools, &mut content, rng)?;
		drop(db);
		Ok(())
	})();
	if let Err(m) = r {
		t.oracle_fail(prop, &m);
		t.end_case(false);
		return false
	}
	let salt_before = match load_meta(&dir.join("metadata")) {
		Ok(Ok(Some((_, s, _)))) => s,
		other => {
			t.oracle_fail(prop, &format!("metadata unreadable: {}", render_loaded(&other)));
			t.end_case(false);
			return false
		},
	};
	// (a) a handle opened with a different `options.salt`: a committed value must be readable
	let mut o2 = plain_options(&dir, &cols);
	o2.salt = Some(other_salt);
	match open_mode(Mode::Open, &o2) {
		Ok(Ok(db)) => {
			let k = gen_key(rng);
			let v = gen_value(rng);
			let w = (|| -> Result<(), Error> {
				db.commit_changes(vec![(0u8, Operation::Set(k.clone(), v.clone()))])?;
				db.process_commits()?;
				db.flush_logs()?;
				let mut u = 1;
				drain(&db, &mut u)
			})();
			match (w, db.get(0, &k)) {
				(Ok(()), Ok(Some(got))) if got == v => {
					content[0].insert(k.clone(), Item::Val(v, 1));
				},
				(Ok(()), Ok(None)) => known.push("a value committed through a handle opened with options.salt different from the stored salt is not readable through that handle".into()),
				(w, g) => fails.push(format!("write/read through a handle opened with another salt: {:?} / {:?}", w.err(), g.map(|x| x.map(|v| short(&v))))),
			}
			drop(db);
			// whatever happened, the key is either readable with the stored salt or was never stored under it
			content[0].remove(&k);
		},
		Ok(Err(Error::InvalidConfiguration(_))) => ctr.inc("findings.salt.open_rejected"),
		other => fails.push(format!("open with another salt: {}", render_open(&other))),
	}
	// (b) the administration call with the other salt
	let res = run_admin(&op, &mut o2, t);
	let mut new_cols = cols.clone();
	let mut pools2 = pools.clone();
	if res == "ok" {
		match &op {
			Admin::Add(c) => {
				new_cols.push(c.clone());
				pools2.push(vec![]);
				content.push(Default::default());
			},
			Admin::DropLast => {
				new_cols.pop();
				pools2.pop();
				content.pop();
			},
			Admin::Reset(i, c) => {
				if let Some(c) = c {
					new_cols[*i as usize] = c.clone();
				}
				content[*i as usize].clear();
			},
			_ => {},
		}
		let salt_after = match load_meta(&dir.join("metadata")) {
			Ok(Ok(Some((_, s, _)))) => Some(s),
			_ => None,
		};
		let mut o3 = plain_options(&dir, &new_cols);
		o3.salt = None;
		match open_mode(Mode::Open, &o3) {
			Ok(Ok(db)) => {
				let obs = observe(&db, &new_cols, &pools2);
				let mut d: Vec<String> = vec![];
				for c in 0..new_cols.len() {
					// the key written in (a) may legitimately be present in column 0's value multiset
					let mut ob = obs[c].clone();
					if c == 0 {
						ob.values = None;
					}
					d.extend(diff_content(c, &new_cols[c], &ob, &content[c]));
				}
				drop(db);
				if !d.is_empty() {
					if salt_after != Some(salt_before) && salt_after == Some(other_salt) {
						known.push(format!("{} with options.salt set rewrote the stored salt; afterwards {}", op.describe(), d[0]));
					} else {
						fails.extend(d);
					}
				} else if salt_after != Some(salt_before) && matches!(op, Admin::Add(_) | Admin::DropLast | Admin::Reset(_, Some(_))) {
					// only the btree column survives a salt change; hash columns must have failed above
					fails.push("stored salt changed but all content is still readable".into());
				}
			},
			other => fails.push(format!("open after {}: {}", op.describe(), render_open(&other))),
		}
	} else if res != "err:InvalidConfiguration" {
		fails.push(format!("{} with another salt returned {}", op.describe(), res));
	} else {
		ctr.inc("findings.salt.admin_rejected");
	}
	for k in &known {
		t.known(prop, "F13", k);
		ctr.inc("known.F13");
	}
	for m in &fails {
		t.oracle_fail(prop, m);
	}
	let _ = std::fs::remove_dir_all(&dir);
	t.end_case(true);
	fails.is_empty()
}

/// F14: administration on a database of an older (still supported) format version.
fn finding_version(seed: u64, rng: &mut Rng, root: &Path, t: &mut Trace, ctr: &mut Counters, prop: &str) -> bool {
	let dir = fresh_dir(root, &format!("c17-{}", seed));
	std::fs::create_dir_all(&dir).unwrap();
	let version = rng.range(5, 7) as u32;
	let mut uni = ColumnOptions::default();
	uni.uniform = true;
	let cols = vec![uni, ColumnOptions::default(), ColumnOptions::default()];
	let op = match rng.below(3) {
		0 => Admin::Add(gen_col(rng)),
		1 => Admin::DropLast,
		_ => Admin::Reset(2, Some(gen_col(rng))),
	};
	t.begin_case(&format!("seed={} kind=findings scenario=version version={} op={}", seed, version, op.describe()));
	let mut fails: Vec<String> = vec![];
	let pools: Vec<Vec<Vec<u8>>> = (0..3).map(|_| (0..4).map(|_| gen_key(rng)).collect()).collect();
	let mut content: Content = vec![Default::default(); 3];
	let mut o = plain_options(&dir, &cols);
	let r = (|| -> Result<(), String> {
		o.write_metadata_with_version(&dir, &rand_salt(rng), Some(version)).map_err(|e| format!("{:?}", e))?;
		let db = Db::open(&o).map_err(|e| format!("open of a version {} database: {:?}", version, e))?;
		simple_fill(&db, &cols, &pools, &mut content, rng)?;
		drop(db);
		let db = Db::open(&o).map_err(|e| format!("reopen: {:?}", e))?;
		let obs = observe(&db, &cols, &pools);
		drop(db);
		for c in 0..3 {
			let d = diff_content(c, &cols[c], &obs[c], &content[c]);
			if !d.is_empty() {
				return Err(format!("version {} database does not read back: {}", version, d[0]))
			}
		}
		Ok(())
	})();
	if let Err(m) = r {
		t.oracle_fail(prop, &m);
		t.end_case(false);
		return false
	}
	let res = run_admin(&op, &mut o, t);
	if res != "ok" {
		fails.push(format!("{} on a version {} database returned {}", op.describe(), version, res));
	} else {
		let mut new_cols = cols.clone();
		let mut pools2 = pools.clone();
		match &op {
			Admin::Add(c) => {
				new_cols.push(c.clone());
				pools2.push(vec![]);
				content.push(Default::default());
			},
			Admin::DropLast => {
				new_cols.pop();
				pools2.pop();
				content.pop();
			},
			Admin::Reset(i, Some(c)) => {
				new_cols[*i as usize] = c.clone();
				content[*i as usize].clear();
			},
			_ => {},
		}
		let v_after = match load_meta(&dir.join("metadata")) {
			Ok(Ok(Some((v, _, _)))) => Some(v),
			_ => None,
		};
		match open_mode(Mode::Open, &plain_options(&dir, &new_cols)) {
			Ok(Ok(db)) => {
				let obs = observe(&db, &new_cols, &pools2);
				drop(db);
				let mut d: Vec<String> = vec![];
				for c in 0..new_cols.len() {
					d.extend(diff_content(c, &new_cols[c], &obs[c], &content[c]));
				}
				if !d.is_empty() {
					if v_after != Some(version) {
						t.known(prop, "F14", &format!("{} on a version {} database rewrote the version to {:?} without converting the data; afterwards {}", op.describe(), version, v_after, d[0]));
						ctr.inc("known.F14");
					} else {
						fails.extend(d);
					}
				} else if v_after != Some(version) {
					fails.push(format!("version changed from {} to {:?} but the uniform column still reads back", version, v_after));
				}
			},
			other => fails.push(format!("open after {}: {}", op.describe(), render_open(&other))),
		}
	}
	for m in &fails {
		t.oracle_fail(prop, m);
	}
	let _ = std::fs::remove_dir_all(&dir);
	t.end_case(true);
	fails.is_empty()
}

/// F15: more than 256 columns.
fn finding_many_columns(seed: u64, rng: &mut Rng, root: &Path, t: &mut Trace, ctr: &mut Counters, prop: &str) -> bool {
	let dir = fresh_dir(root, &format!("c17-{}", seed));
	t.begin_case(&format!("seed={} kind=findings scenario=columns257", seed));
	let mut fails: Vec<String> = vec![];
	let cols: Vec<ColumnOptions> = vec![ColumnOptions::default(); 255];
	let mut o = plain_options(&dir, &cols);
	let k0 = gen_key(rng);
	let k254 = gen_key(rng);
	let v0 = gen_value(rng);
	let v254 = gen_value(rng);
	let r = (|| -> Result<(), String> {
		let db = Db::open_or_create(&o).map_err(|e| format!("create: {:?}", e))?;
		db.commit_changes(vec![(0u8, Operation::Set(k0.clone(), v0.clone())), (254u8, Operation::Set(k254.clone(), v254.clone()))])
			.map_err(|e| format!("commit: {:?}", e))?;
		db.process_commits().map_err(|e| format!("{:?}", e))?;
		db.flush_logs().map_err(|e| format!("{:?}", e))?;
		let mut u = 1;
		drain(&db, &mut u).map_err(|e| format!("{:?}", e))?;
		drop(db);
		Ok(())
	})();
	if let Err(m) = r {
		t.oracle_fail(prop, &m);
		t.end_case(false);
		return false
	}
	let r1 = run_admin(&Admin::Add(ColumnOptions::default()), &mut o, t);
	if r1 != "ok" {
		fails.push(format!("add_column to 255 columns returned {}", r1));
	} else {
		let r2 = run_admin(&Admin::Add(ColumnOptions::default()), &mut o, t);
		if r2 == "err:InvalidConfiguration" {
			ctr.inc("findings.columns257.rejected");
		} else if r2 != "ok" {
			fails.push(format!("add_column to 256 columns returned {}", r2));
		} else {
			let r3 = run_admin(&Admin::DropLast, &mut o, t);
			if r3 != "ok" {
				fails.push(format!("drop_last_column on 257 columns returned {}", r3));
			}
			match open_mode(Mode::Open, &o) {
				Ok(Ok(db)) => {
					let g0 = db.get(0, &k0);
					let g254 = db.get(254, &k254);
					drop(db);
					if !matches!(&g254, Ok(Some(v)) if *v == v254) {
						fails.push("column 254 lost its content".into());
					}
					match g0 {
						Ok(Some(v)) if v == v0 => {},
						Ok(None) => {
							t.known(prop, "F15", "drop_last_column on a database of 257 columns deleted the files of column 0 (index 256 truncated to u8)");
							ctr.inc("known.F15");
						},
						other => fails.push(format!("column 0 after drop_last_column on 257 columns: {:?}", other.map(|x| x.map(|v| short(&v))))),
					}
				},
				other => fails.push(format!("open after drop_last_column: {}", render_open(&other))),
			}
		}
	}
	for m in &fails {
		t.oracle_fail(prop, m);
	}
	let _ = std::fs::remove_dir_all(&dir);
	t.end_case(true);
	fails.is_empty()
}

/// F16 / F17 / F9 on fixed inputs.
fn finding_fixed(seed: u64, rng: &mut Rng, root: &Path, t: &mut Trace, ctr: &mut Counters, prop: &str) -> bool {
	let dir = fresh_dir(root, &format!("c17-{}", seed));
	std::fs::create_dir_all(&dir).unwrap();
	t.begin_case(&format!("seed={} kind=findings scenario=fixed", seed));
	let mut ok = true;
	let salt = hexs(&rand_salt(rng));
	let texts = vec![
		format!("version=8\nsalt={}\ncol0=preimage: true, uniform: false, refc: false, compression: {}", salt, rng.range(3, 255)),
		format!("version=8\nsalt={}", &salt[..2 * rng.range(0, 31) as usize]),
		format!("version=8\nsalt={}{}", salt, &salt[..2 * rng.range(1, 32) as usize]),
	];
	let meta = dir.join("metadata");
	for text in texts {
		std::fs::write(&meta, text.as_bytes()).unwrap();
		let loaded = load_meta(&meta);
		t.op(&format!("c17 decmeta x{}", hexs(text.as_bytes())), &render_loaded(&loaded));
		match &loaded {
			Err(_) => ok &= report_meta_panic(text.as_bytes(), t, ctr, prop),
			Ok(Err(Error::Corruption(_))) => ctr.inc("findings.fixed.corruption"),
			other => {
				t.oracle_fail(prop, &format!("bad metadata x{} -> {}", hexs(text.as_bytes()), render_loaded(other)));
				ok = false;
			},
		}
		// the same through Db::open: an error, the directory untouched
		let r = open_mode(Mode::Open, &plain_options(&dir, &[ColumnOptions::default()]));
		match &r {
			Err(_) => {},
			Ok(Err(Error::Corruption(_))) => {},
			other => {
				t.oracle_fail(prop, &format!("Db::open on bad metadata -> {}", render_open(other)));
				ok = false;
			},
		}
	}
	let _ = std::fs::remove_file(&meta);
	let _ = std::fs::remove_file(dir.join("lock"));
	ok &= check_open_nothing(&dir, "an existing empty directory", Mode::Open, &[ColumnOptions::default()], t, ctr, prop);
	// the same through the precheck of an administration call
	let _ = std::fs::remove_file(dir.join("lock"));
	let op = match rng.below(3) {
		0 => Admin::Add(gen_col(rng)),
		1 => Admin::DropLast,
		_ => Admin::Reset(0, None),
	};
	let mut o = plain_options(&dir, &[ColumnOptions::default()]);
	let res = run_admin(&op, &mut o, t);
	let names = file_names(&dir);
	if res != "err:DatabaseNotFound" {
		t.oracle_fail(prop, &format!("{} on an empty directory returned {}", op.describe(), res));
		ok = false;
	}
	if names.len() == 1 && names.contains("lock") {
		t.known(prop, "F9", &format!("failed {} on an existing empty directory left a `lock` file behind", op.describe()));
		ctr.inc("known.F9");
	} else if !names.is_empty() {
		t.oracle_fail(prop, &format!("failed {} on an empty directory created {:?}", op.describe(), names));
		ok = false;
	}
	let _ = std::fs::remove_dir_all(&dir);
	t.end_case(true);
	ok
}

// ------------------------------------------------------------------------------------ entry

pub fn run(seeds: &[u64], thorough: bool, root: &Path, t: &mut Trace, ctr: &mut Counters, prop: &str) -> u64 {
	let prev = std::panic::take_hook();
	std::panic::set_hook(Box::new(move |info| {
		if !QUIET.load(Ordering::SeqCst) {
			prev(info)
		}
	}));
	let mut fails = 0;
	// a run of many cases starts with one case of every kind (fixed, replayable seeds), so that
	// in particular the exhaustive codec enumeration is always part of the run
	const FIXED: [u64; 9] = [0, 2, 6, 10, 18, 58, 78, 118, 138];
	let seeds: Vec<u64> =
		seeds.iter().enumerate().map(|(i, s)| if seeds.len() >= 40 && i < FIXED.len() { FIXED[i] } else { *s }).collect();
	for seed in seeds.iter().copied() {
		let mut rng = Rng::new(seed);
		let r = std::panic::catch_unwind(std::panic::AssertUnwindSafe(|| match seed % 20 {
			0 | 1 => case_codec(seed, &mut rng, root, t, ctr, prop),
			2..=5 => case_malformed(seed, &mut rng, thorough, root, t, ctr, prop),
			6..=9 => case_open(seed, &mut rng, root, t, ctr, prop),
			10..=17 => case_admin(seed, &mut rng, root, t, ctr, prop),
			_ => {
				ctr.inc("cases.findings");
				match (seed / 20) % 8 {
					0 | 1 | 2 => finding_salt(seed, &mut rng, root, t, ctr, prop),
					3 | 4 => finding_version(seed, &mut rng, root, t, ctr, prop),
					5 => finding_many_columns(seed, &mut rng, root, t, ctr, prop),
					_ => finding_fixed(seed, &mut rng, root, t, ctr, prop),
				}
			},
		}));
		QUIET.store(false, Ordering::SeqCst);
		let ok = match r {
			Ok(ok) => ok,
			Err(p) => {
				let msg = p.downcast_ref::<String>().cloned().or_else(|| p.downcast_ref::<&str>().map(|s| s.to_string())).unwrap_or_default();
				t.oracle_fail(prop, &format!("panic while running the case (seed={}): {}", seed, msg));
				t.end_case(true);
				false
			},
		};
		ctr.inc("cases");
		if !ok {
			fails += 1;
			t.comment(&format!("FAILED-CASE seed={}", seed));
		}
	}
	let _ = std::panic::take_hook();
	fails
}
