//! C16, the half "with background threads": an I/O error that strikes a WORKER thread stops
//! the writer cleanly and never corrupts the database.
//!
//! Every case runs in a child process (re-exec of this binary, hidden sub-command
//! `c16t-child <dir> <seed> <thorough>`) under a watchdog.  The child opens a real `Db` WITH
//! the four background workers (sync on, `always_flush` on/off, 1..3 columns: plain hash /
//! ref-counted hash / plain btree), runs a seeded history from 1..3 committer threads plus a
//! reader thread, and arms an errno-injection plan in the interposed libc calls
//! (`interpose.rs`): after the N-th matching call (syscall class x file class) on a thread that
//! is not a registered client thread, this and every later matching call fails with
//! EIO / ENOSPC / EISDIR / ENOMEM without reaching the kernel.
//!
//! The child prints observations as lines; the parent turns them into oracle verdicts:
//!  (1) reported: after the first injected failure some later `commit` returns
//!      `Err(Background)` within the bound, no commit call hangs, and once a commit was refused
//!      no later commit is accepted;
//!  (2) reads (reader thread, concurrent with everything) return, for plain keys, the value of
//!      some prefix j of that lane's committed history with  done-before-the-read <= j <=
//!      started-before-the-read-ended;  rc keys whose count is positive in all those prefixes
//!      are readable with their value; no `Err`, no panic;
//!  (3) no panic anywhere (panic hook prints `PANIC <thread> <location>`);
//!  (4) `drop` returns within the bound (fault still armed in half of the cases: the drop then
//!      runs on a non-exempt thread);
//!  (5) after disarming `Db::open` succeeds and the content of every lane is EXACTLY a prefix
//!      state m of that lane's Ok-committed transactions with  synced <= m <= committed.
//!
//! "synced" (sound lower bound, see `analyse`): every transaction sets a per-lane marker key to
//! a 32-byte value MAGIC ++ lane ++ index.  The interposed `write` reports each occurrence of
//! MAGIC in the bytes that reached a log file.  A marker counts as synced when it was seen in a
//! COMPLETE write to log file F that precedes (journal order) a successful, non-injected
//! fdatasync/fsync of F which itself precedes the first injected failure.  `Log::end_record`
//! writes and flushes a whole record under the `appending` lock and `flush_one` takes the file
//! out of `appending` before syncing it, so at the time of that fdatasync F holds complete
//! records only; a record that contains marker (lane, i) is the record of that lane's i-th
//! accepted transaction; records are appended in commit order, so every earlier transaction
//! is in the same or an older (already synced, or already enacted and reclaimed) file.
//!
//! Model tie: only in serial mode (one lane = one global commit order) the child emits, after
//! the reopen, `p1 init`, the accepted transactions, `p1 process` x synced, `p1 flush`,
//! `p1 process` x (written-1-synced), `p1 fail 0`, `p1 failreopen m`, and `p1 get` for every
//! key: the compiled Lean model must accept m given these stage positions (both justified by
//! the journal: "written" = largest marker seen in any log write) and predict every read.
//!
//! Experiment switches (environment, never set by the check): `C16T_PLAN=<label>` forces the plan
//! class, `C16T_BIG=1` the 17 MiB scenario, `C16T_BOUND_S=<s>` the watchdog bound.
use crate::interpose as ip;
use crate::util::*;
use parity_db::{ColumnOptions, CompressionType, Db, Operation, Options};
use std::collections::{BTreeMap, HashMap};
use std::io::{BufRead, BufReader, Write};
use std::path::Path;
use std::process::{Command, Stdio};
use std::sync::atomic::{AtomicBool, AtomicU64, Ordering};
use std::sync::{Arc, Mutex};
use std::time::{Duration, Instant};

const MAGIC: [u8; 16] = [0xC1, 0x6D, 0xA5, 0x5A, 0x9E, 0x37, 0x79, 0xB9, 0x7F, 0x4A, 0x7C, 0x15, 0x13, 0x57, 0x9B, 0xDF];

// ------------------------------------------------------------------------------ case description

#[derive(Clone, Copy, PartialEq, Eq, Debug)]
enum CK {
	Plain,
	Rc,
	Btree,
}

#[derive(Clone, Debug)]
struct PlanSpec {
	label: &'static str,
	sys: u32,
	fc: u32,
	skip: u64,
	errno: i32,
	all_threads: bool,
	delay_us: u64,
}

#[derive(Clone, Debug)]
struct Case {
	cols: Vec<(CK, CompressionType)>,
	always_flush: bool,
	serial: bool,
	threads: usize,
	big: bool,
	late_cols: bool,
	pre_arm: u64,
	n_hist: u64,
	nkeys: u64,
	plan: PlanSpec,
	keep_armed: bool,
	/// latency added to every fdatasync / fsync / msync of a worker ("slow disk"), microseconds
	slow_sync_us: u64,
	salt: [u8; 32],
}

fn errno_name(e: i32) -> &'static str {
	match e {
		libc::EIO => "EIO",
		libc::ENOSPC => "ENOSPC",
		libc::EISDIR => "EISDIR",
		libc::ENOMEM => "ENOMEM",
		_ => "E?",
	}
}

/// (label, syscall classes, file classes, max skip, errnos, weight)
const PLANS: &[(&str, u32, u32, u64, &[i32], u64)] = &[
	("write-log", ip::S_WRITE, ip::F_LOG, 60, &[libc::EIO, libc::ENOSPC], 10),
	("create-log", ip::S_CREATE, ip::F_LOG, 2, &[libc::EIO, libc::ENOSPC, libc::EISDIR], 5),
	("fdatasync-log", ip::S_FDATASYNC, ip::F_LOG, 30, &[libc::EIO], 8),
	("read-log", ip::S_READ, ip::F_LOG, 60, &[libc::EIO], 10),
	("lseek-log", ip::S_SEEK, ip::F_LOG, 40, &[libc::EIO], 5),
	("ftruncate-log", ip::S_TRUNC, ip::F_LOG, 20, &[libc::EIO], 6),
	("fsync-log", ip::S_FSYNC, ip::F_LOG, 20, &[libc::EIO], 5),
	("unlink-log", ip::S_UNLINK, ip::F_LOG, 0, &[libc::EIO], 2),
	("create-table", ip::S_CREATE, ip::F_TABLE, 3, &[libc::EIO, libc::ENOSPC, libc::EISDIR], 7),
	("grow-table", ip::S_TRUNC, ip::F_TABLE, 4, &[libc::ENOSPC, libc::EIO], 7),
	("mmap-table", ip::S_MMAP, ip::F_TABLE, 3, &[libc::ENOMEM], 6),
	("create-index", ip::S_CREATE | ip::S_TRUNC | ip::S_MMAP, ip::F_INDEX | ip::F_REFCOUNT, 3, &[libc::ENOSPC, libc::EIO, libc::EISDIR], 5),
	("msync-data", ip::S_MSYNC, ip::F_TABLE | ip::F_INDEX | ip::F_REFCOUNT, 30, &[libc::EIO], 8),
	("any-call", ip::S_ALL & !ip::S_OPEN, ip::F_ALL & !ip::F_OTHER, 400, &[libc::EIO], 12),
];

fn gen_case(seed: u64, thorough: bool) -> Case {
	let mut rng = Rng::new(seed ^ 0xc16_7);
	let ncols = rng.range(1, 3) as usize;
	let mut cols = vec![(CK::Plain, CompressionType::NoCompression)];
	for _ in 1..ncols {
		let k = *rng.pick(&[CK::Plain, CK::Rc, CK::Rc, CK::Btree, CK::Btree]);
		let c = *rng.pick(&[CompressionType::NoCompression, CompressionType::NoCompression, CompressionType::Lz4]);
		cols.push((k, c));
	}
	// experiments: C16T_BIG=1 forces the 17 MiB scenario (queue-full throttle)
	let big = rng.chance(1, 7) || std::env::var("C16T_BIG").map(|v| v == "1").unwrap_or(false);
	let serial = rng.chance(1, 2);
	let threads = if big { rng.range(1, 2) } else { rng.range(1, 3) } as usize;
	let always_flush = rng.chance(2, 3);
	let total: u64 = PLANS.iter().map(|p| p.5).sum();
	let mut pick = rng.below(total);
	let mut pi = 0;
	for (i, p) in PLANS.iter().enumerate() {
		if pick < p.5 {
			pi = i;
			break
		}
		pick -= p.5;
	}
	// experiments: C16T_PLAN=<label> forces the plan class (the seed still draws everything else)
	if let Ok(want) = std::env::var("C16T_PLAN") {
		if let Some(i) = PLANS.iter().position(|p| p.0 == want) {
			pi = i;
		}
	}
	let p = &PLANS[pi];
	// small indexes are as likely as the whole range (the first calls of a site matter most)
	let skip = match rng.below(4) {
		0 => 0,
		1 => rng.below(std::cmp::min(p.3, 3) + 1),
		_ => rng.below(p.3 + 1),
	};
	let plan = PlanSpec {
		label: p.0,
		sys: p.1,
		fc: p.2,
		skip: if big { std::cmp::min(skip, 6) } else { skip },
		errno: *rng.pick(p.4),
		all_threads: rng.chance(1, 8),
		// a failing device answers slowly: the other workers run on while the call is stuck
		delay_us: *rng.pick(&[0u64, 0, 300, 2000, 5000]),
	};
	let n_hist = if big {
		rng.range(5, 9)
	} else if thorough {
		rng.range(60, 500)
	} else {
		rng.range(40, 220)
	};
	// arm after "some history": sometimes before the first commit, so that the very first
	// index / table / log file creation is within reach
	let pre_arm = match rng.below(6) {
		0 => 0,
		1 => rng.range(1, 3),
		_ => rng.range(1, std::cmp::max(2, n_hist * threads as u64 / 2)),
	};
	let mut salt = [0u8; 32];
	for i in 0..4 {
		salt[i * 8..i * 8 + 8].copy_from_slice(&rng.next().to_le_bytes());
	}
	Case {
		cols,
		always_flush,
		serial,
		threads,
		big,
		late_cols: rng.chance(1, 3),
		pre_arm: if big { std::cmp::min(pre_arm, 3) } else { pre_arm },
		n_hist,
		nkeys: rng.range(3, 8),
		plan,
		keep_armed: rng.chance(1, 2),
		slow_sync_us: if big { 0 } else { *rng.pick(&[0u64, 0, 150, 600, 1500]) },
		salt,
	}
}

impl Case {
	fn lanes(&self) -> usize {
		if self.serial {
			1
		} else {
			self.threads
		}
	}
	fn describe(&self) -> String {
		format!(
			"cols={} always_flush={} mode={} threads={} big={} late_cols={} pre_arm={} hist={} slow_sync={}us plan={}:skip={}:{}:delay={}us{} drop_armed={}",
			self.cols
				.iter()
				.map(|(k, c)| format!(
					"{}{}",
					match k {
						CK::Plain => "plain",
						CK::Rc => "rc",
						CK::Btree => "btree",
					},
					if *c == CompressionType::Lz4 { "+lz4" } else { "" }
				))
				.collect::<Vec<_>>()
				.join(","),
			self.always_flush as u8,
			if self.serial { "serial" } else { "free" },
			self.threads,
			self.big as u8,
			self.late_cols as u8,
			self.pre_arm,
			self.n_hist,
			self.slow_sync_us,
			self.plan.label,
			self.plan.skip,
			errno_name(self.plan.errno),
			self.plan.delay_us,
			if self.plan.all_threads { ":all-threads" } else { "" },
			self.keep_armed as u8
		)
	}
	fn options(&self, dir: &Path, threads: bool) -> Options {
		let mut o = Options::with_columns(dir, self.cols.len() as u8);
		for (i, (k, c)) in self.cols.iter().enumerate() {
			o.columns[i] = ColumnOptions {
				preimage: *k == CK::Rc,
				uniform: false,
				ref_counted: *k == CK::Rc,
				compression: *c,
				btree_index: *k == CK::Btree,
				multitree: false,
				append_only: false,
				allow_direct_node_access: false,
			};
		}
		o.salt = Some(self.salt);
		o.stats = false;
		o.sync_wal = true;
		o.sync_data = true;
		o.with_background_thread = threads;
		o.always_flush = self.always_flush;
		o
	}
	fn model_kinds(&self) -> String {
		self.cols.iter().map(|(k, _)| if *k == CK::Rc { "rc" } else { "plain" }).collect::<Vec<_>>().join(" ")
	}
}

// ------------------------------------------------------------------------------ oracle (plain maps)

type Val = Arc<Vec<u8>>;
/// (column, key) -> (value, count)
type State = BTreeMap<(u8, Vec<u8>), (Val, u64)>;

#[derive(Clone, Debug)]
enum Op {
	Set(Vec<u8>, String, Val),
	Del(Vec<u8>),
	Ref(Vec<u8>),
}

type Tx = Vec<(u8, Op)>;

fn apply(cols: &[(CK, CompressionType)], s: &mut State, tx: &Tx) {
	for (c, op) in tx {
		let rc = cols[*c as usize].0 == CK::Rc;
		match op {
			Op::Set(k, _, v) =>
				if rc {
					let e = s.entry((*c, k.clone())).or_insert((v.clone(), 0));
					e.1 += 1;
				} else {
					s.insert((*c, k.clone()), (v.clone(), 1));
				},
			Op::Del(k) =>
				if rc {
					let gone = match s.get_mut(&(*c, k.clone())) {
						Some(e) => {
							e.1 -= 1;
							e.1 == 0
						},
						None => false,
					};
					if gone {
						s.remove(&(*c, k.clone()));
					}
				} else {
					s.remove(&(*c, k.clone()));
				},
			Op::Ref(k) =>
				if let Some(e) = s.get_mut(&(*c, k.clone())) {
					e.1 += 1;
				},
		}
	}
}

fn tx_line(tx: &Tx) -> String {
	let mut s = String::from("p1 commit");
	for (c, op) in tx {
		match op {
			Op::Set(k, t, _) => s.push_str(&format!(" {}:set:{}:{}", c, hex(k), t)),
			Op::Del(k) => s.push_str(&format!(" {}:del:{}", c, hex(k))),
			Op::Ref(k) => s.push_str(&format!(" {}:ref:{}", c, hex(k))),
		}
	}
	s
}

fn to_db(tx: &Tx) -> Vec<(u8, Operation<Vec<u8>, Vec<u8>>)> {
	tx.iter()
		.map(|(c, op)| {
			(
				*c,
				match op {
					Op::Set(k, _, v) => Operation::Set(k.clone(), v.as_ref().clone()),
					Op::Del(k) => Operation::Dereference(k.clone()),
					Op::Ref(k) => Operation::Reference(k.clone()),
				},
			)
		})
		.collect()
}

/// Keys are pairwise distinct (the id is their first 8 bytes); lengths 8 .. 400.
fn gen_key(id: u64) -> Vec<u8> {
	let mut r = Rng::new(id.wrapping_mul(0x1234_5678_9abc_def1));
	let len = *r.pick(&[8u64, 9, 12, 31, 32, 33, 64, 251, 400]) as usize;
	let mut k = (id ^ 0x6b65_795f_0000_0000).to_be_bytes().to_vec();
	while k.len() < len {
		k.extend_from_slice(&r.next().to_le_bytes());
	}
	k.truncate(len);
	k
}

fn marker_key(lane: usize) -> Vec<u8> {
	let mut k = format!("c16t-sequence-marker-lane-{:02}", lane).into_bytes();
	k.resize(32, b'#');
	k
}

fn marker_val(lane: usize, idx: u64) -> Vec<u8> {
	let mut v = MAGIC.to_vec();
	v.extend_from_slice(&(lane as u32).to_le_bytes());
	v.extend_from_slice(&(idx as u32).to_le_bytes());
	v.extend_from_slice(&[0xEE; 8]);
	v
}

fn decode_marker(v: &[u8]) -> Option<(usize, u64)> {
	if v.len() == 32 && v[..16] == MAGIC && v[24..] == [0xEE; 8] {
		Some((u32::from_le_bytes(v[16..20].try_into().unwrap()) as usize, u32::from_le_bytes(v[20..24].try_into().unwrap()) as u64))
	} else {
		None
	}
}

fn marker_token(lane: usize, idx: u64) -> String {
	format!("v32_m{}x{}", lane, idx)
}

/// token <-> bytes with canonical tokens (two tokens with equal bytes are one value).
#[derive(Default)]
struct Toks {
	by_print: HashMap<(usize, Vec<u8>), (String, Val)>,
}

fn print_of(v: &[u8]) -> (usize, Vec<u8>) {
	(v.len(), v[..std::cmp::min(v.len(), 48)].to_vec())
}

impl Toks {
	fn canon(&mut self, tok: String) -> (String, Val) {
		let b = expand_token(&tok);
		self.by_print.entry(print_of(&b)).or_insert_with(|| (tok, Arc::new(b))).clone()
	}
	fn render(&self, v: &[u8]) -> String {
		if let Some((l, i)) = decode_marker(v) {
			return marker_token(l, i)
		}
		match self.by_print.get(&print_of(v)) {
			Some((t, b)) if b.as_slice() == v => t.clone(),
			_ => format!("raw{}:{}", v.len(), hex(&v[..std::cmp::min(v.len(), 16)])),
		}
	}
}

struct Lane {
	id: usize,
	/// prefix states; `states[j]` = after the first j accepted transactions; while a commit
	/// call is in flight its tentative state is the last element
	states: Vec<State>,
	txs: Vec<Tx>,
	inflight: bool,
	rng: Rng,
	keys: Vec<Vec<Vec<u8>>>,
	toks: Toks,
}

impl Lane {
	fn n(&self) -> usize {
		self.states.len() - 1 - self.inflight as usize
	}
	fn gen_tx(&mut self, case: &Case, armed: bool, small: bool) -> Tx {
		let idx = self.n() as u64 + 1;
		let mut tx: Tx = vec![];
		let ncols = case.cols.len() as u64;
		let big = case.big && !small;
		let nops = if big { 1 } else { self.rng.range(0, 4) };
		for _ in 0..nops {
			let mut c = self.rng.below(ncols) as usize;
			if case.late_cols && !armed {
				c = 0;
			}
			let kid = self.rng.below(case.nkeys);
			let k = self.keys[c][kid as usize].clone();
			let kind = case.cols[c].0;
			let r = self.rng.below(100);
			let op = if r < 60 {
				let tok = if big && kind != CK::Rc {
					format!("v{}_{}", *self.rng.pick(&[17u64 << 20, 17 << 20, 6 << 20, 1 << 20]) + self.rng.below(100), 1 + self.rng.below(1 << 30))
				} else {
					crate::p1::gen_value_token(&mut self.rng, true, kid + 100 * c as u64 + 1000 * self.id as u64, kind == CK::Rc)
				};
				let (tok, v) = self.toks.canon(tok);
				Op::Set(k, tok, v)
			} else if r < 88 || kind != CK::Rc {
				Op::Del(k)
			} else {
				Op::Ref(k)
			};
			tx.push((c as u8, op));
		}
		let at = self.rng.below(tx.len() as u64 + 1) as usize;
		tx.insert(at, (0, Op::Set(marker_key(self.id), marker_token(self.id, idx), Arc::new(marker_val(self.id, idx)))));
		tx
	}
}

// ------------------------------------------------------------------------------------------ child

struct Out(std::io::Stdout);
impl Out {
	fn line(&self, s: &str) {
		let mut l = self.0.lock();
		let _ = writeln!(l, "{}", s);
		let _ = l.flush();
	}
}

struct Shared {
	case: Case,
	db: Db,
	lanes: Vec<Mutex<Lane>>,
	serial: Mutex<()>,
	out: Arc<Out>,
	done: AtomicU64,
	reported: AtomicBool,
	reported_us: AtomicU64,
	stop_reader: AtomicBool,
	reads: AtomicU64,
	viol: AtomicU64,
	t0: Instant,
}

impl Shared {
	fn viol(&self, class: &str, msg: &str) {
		self.viol.fetch_add(1, Ordering::SeqCst);
		self.out.line(&format!("VIOL {} {}", class, msg));
	}
}

/// One commit call of committer `th` on lane `li`; false = stop this committer.
fn one_commit(sh: &Shared, th: usize, li: usize, tag: &str) -> Result<(), &'static str> {
	let _serial = if sh.case.serial { Some(sh.serial.lock().unwrap_or_else(|e| e.into_inner())) } else { None };
	let (tx, idx) = {
		let mut l = sh.lanes[li].lock().unwrap();
		let tx = l.gen_tx(&sh.case, ip::armed(), tag != "h");
		let mut st = l.states.last().unwrap().clone();
		apply(&sh.case.cols, &mut st, &tx);
		l.states.push(st);
		l.inflight = true;
		(tx, l.n() + 1)
	};
	let refused_before = sh.reported.load(Ordering::SeqCst);
	sh.out.line(&format!("begin commit {} {} {}", th, li, idx));
	let t0 = Instant::now();
	let r = sh.db.commit_changes(to_db(&tx));
	let ms = t0.elapsed().as_millis();
	{
		let mut l = sh.lanes[li].lock().unwrap();
		l.inflight = false;
		if r.is_ok() {
			l.txs.push(tx);
		} else {
			l.states.pop();
		}
	}
	match &r {
		Ok(()) => {
			sh.done.fetch_add(1, Ordering::SeqCst);
			sh.out.line(&format!("commit {} {} {} {} ok {}", th, li, idx, ms, tag));
			if refused_before {
				sh.viol("accepted-after-refusal", &format!("commit {} of lane {} returned Ok although an earlier commit was refused with a background error", idx, li));
			}
			Ok(())
		},
		Err(e) => {
			let k = err_kind(e);
			if !sh.reported.swap(true, Ordering::SeqCst) {
				sh.reported_us.store(sh.t0.elapsed().as_micros() as u64, Ordering::SeqCst);
			}
			sh.out.line(&format!("commit {} {} {} {} err:{} {}", th, li, idx, ms, k, tag));
			if k != "Background" {
				sh.viol("commit-error-kind", &format!("commit returned {:?} (only Err(Background) is expected: the call itself does no file I/O)", e));
			}
			if ip::plan_stats().2.is_none() {
				sh.viol("refused-without-fault", &format!("commit refused ({:?}) although no injected failure has happened", e));
			}
			Err(k)
		},
	}
}

fn committer(sh: Arc<Shared>, th: usize) {
	ip::exempt_current_thread();
	let li = if sh.case.serial { 0 } else { th };
	let mut pace = Rng::new(0x9ace ^ th as u64 ^ sh.case.n_hist);
	let mut errs = 0;
	for _ in 0..sh.case.n_hist {
		if one_commit(&sh, th, li, "h").is_err() {
			errs += 1;
			if errs >= 3 {
				break
			}
		}
		match pace.below(10) {
			0..=3 => {},
			4..=6 => std::thread::sleep(Duration::from_micros(200)),
			7..=8 => std::thread::sleep(Duration::from_millis(1)),
			_ => std::thread::sleep(Duration::from_millis(4)),
		}
	}
}

fn reader(sh: Arc<Shared>) {
	ip::exempt_current_thread();
	let mut rng = Rng::new(0x4ead ^ sh.case.n_hist);
	let nl = sh.lanes.len() as u64;
	let mut bad = 0;
	while !sh.stop_reader.load(Ordering::SeqCst) {
		let li = rng.below(nl) as usize;
		let (c, k, lo) = {
			let l = sh.lanes[li].lock().unwrap();
			let c = rng.below(sh.case.cols.len() as u64) as usize;
			let k = if c == 0 && rng.chance(1, 4) { marker_key(li) } else { l.keys[c][rng.below(sh.case.nkeys) as usize].clone() };
			(c as u8, k, l.n())
		};
		let got = std::panic::catch_unwind(std::panic::AssertUnwindSafe(|| sh.db.get(c, &k)));
		sh.reads.fetch_add(1, Ordering::SeqCst);
		let got = match got {
			Ok(Ok(g)) => g,
			Ok(Err(e)) => {
				sh.viol("read-error", &format!("get col={} key={} returned {:?}", c, hex(&k), e));
				continue
			},
			Err(_) => {
				sh.viol("read-panic", &format!("get col={} key={} panicked", c, hex(&k)));
				continue
			},
		};
		let l = sh.lanes[li].lock().unwrap();
		let hi = l.states.len() - 1;
		let rc = sh.case.cols[c as usize].0 == CK::Rc;
		let key = (c, k.clone());
		let ok = if rc {
			let all_pos = (lo..=hi).all(|j| l.states[j].get(&key).map(|e| e.1 > 0).unwrap_or(false));
			!all_pos || got.as_deref() == l.states[lo].get(&key).map(|e| e.0.as_slice())
		} else {
			(lo..=hi).any(|j| l.states[j].get(&key).map(|e| e.0.as_slice()) == got.as_deref())
		};
		if !ok && bad < 3 {
			bad += 1;
			let exp: Vec<String> = (lo..=hi).map(|j| l.states[j].get(&key).map(|e| format!("{}*{}", l.toks.render(&e.0), e.1)).unwrap_or("none".into())).collect();
			let msg = format!(
				"get lane={} col={} key={} observed={} allowed prefixes {}..={} hold [{}] (background error reported: {})",
				li,
				c,
				hex(&k),
				got.as_ref().map(|v| l.toks.render(v)).unwrap_or("none".into()),
				lo,
				hi,
				exp.join(" "),
				sh.reported.load(Ordering::SeqCst)
			);
			drop(l);
			sh.viol("read-not-committed", &msg);
		}
	}
}

static DROPPER_TID: AtomicU64 = AtomicU64::new(0);

struct Analysis {
	first: Option<ip::XEvent>,
	synced: Vec<u64>,
	written: Vec<u64>,
	roles: HashMap<i32, String>,
}

fn role_of(roles: &HashMap<i32, String>, tid: i32) -> &str {
	roles.get(&tid).map(|s| s.as_str()).unwrap_or("worker?")
}

/// Journal analysis: first injected failure, per-lane synced / written marker bounds, thread roles.
fn analyse(xs: &[ip::XEvent], lanes: usize, named: &HashMap<i32, String>) -> Analysis {
	let first = xs.iter().filter(|e| e.injected).min_by_key(|e| e.seq).cloned();
	let fseq = first.as_ref().map(|e| e.seq).unwrap_or(u64::MAX);
	let mut synced = vec![0u64; lanes];
	let mut written = vec![0u64; lanes];
	let mut pending: HashMap<String, Vec<(usize, u64)>> = HashMap::new();
	for e in xs {
		if e.fc != ip::F_LOG || e.injected {
			continue
		}
		match e.sys {
			ip::S_WRITE if e.ret > 0 =>
				for h in &e.hits {
					let lane = u32::from_le_bytes(h[0..4].try_into().unwrap()) as usize;
					let idx = u32::from_le_bytes(h[4..8].try_into().unwrap()) as u64;
					if lane < lanes && h[8..] == [0xEE; 8] {
						written[lane] = written[lane].max(idx);
						if e.ret as u64 == e.arg {
							pending.entry(e.name.clone()).or_default().push((lane, idx));
						}
					}
				},
			ip::S_FDATASYNC | ip::S_FSYNC if e.ret == 0 =>
				if let Some(p) = pending.remove(&e.name) {
					if e.seq < fseq {
						for (lane, idx) in p {
							synced[lane] = synced[lane].max(idx);
						}
					}
				},
			ip::S_TRUNC if e.ret == 0 && e.arg == 0 => {
				pending.remove(&e.name);
			},
			_ => {},
		}
	}
	// thread roles from the characteristic calls of each thread
	let mut flags: HashMap<i32, u32> = HashMap::new();
	for e in xs {
		let f = flags.entry(e.tid).or_insert(0);
		let log = e.fc == ip::F_LOG;
		if log && e.sys == ip::S_READ {
			*f |= 1;
		}
		if log && e.sys == ip::S_FDATASYNC {
			*f |= 2;
		}
		if e.sys == ip::S_MSYNC || (log && (e.sys == ip::S_FSYNC || (e.sys == ip::S_TRUNC && e.arg == 0) || e.sys == ip::S_UNLINK)) {
			*f |= 4;
		}
		if log && (e.sys == ip::S_WRITE || e.sys == ip::S_CREATE) {
			*f |= 8;
		}
		if !log && (e.sys == ip::S_CREATE || e.sys == ip::S_TRUNC || e.sys == ip::S_MMAP) {
			*f |= 16;
		}
		if log && e.sys == ip::S_SEEK {
			*f |= 32;
		}
	}
	let mut roles = HashMap::new();
	for (tid, f) in flags {
		let r = if let Some(n) = named.get(&tid) {
			n.clone()
		} else if f & 1 != 0 {
			"commit-worker".to_string()
		} else if f & 2 != 0 {
			"flush-worker".to_string()
		} else if f & 4 != 0 {
			"cleanup-worker".to_string()
		} else if f & 8 != 0 {
			"log-worker".to_string()
		} else if f & 16 != 0 {
			"commit-worker".to_string()
		} else if f & 32 != 0 {
			"commit-or-cleanup-worker".to_string()
		} else {
			"worker?".to_string()
		};
		roles.insert(tid, r);
	}
	Analysis { first, synced, written, roles }
}

fn jline(e: &ip::XEvent, roles: &HashMap<i32, String>) -> String {
	format!(
		"J {} t={}us tid={}({}) {} {} arg={} ret={}{}{}",
		e.seq,
		e.us,
		e.tid,
		role_of(roles, e.tid),
		ip::sys_name(e.sys),
		e.name,
		e.arg,
		e.ret,
		if e.injected { format!(" INJECTED {}", errno_name(e.errno)) } else { String::new() },
		if e.hits.is_empty() {
			String::new()
		} else {
			format!(
				" markers={}",
				e.hits
					.iter()
					.map(|h| format!("{}:{}", u32::from_le_bytes(h[0..4].try_into().unwrap()), u32::from_le_bytes(h[4..8].try_into().unwrap())))
					.collect::<Vec<_>>()
					.join(",")
			)
		}
	)
}

/// `pdbverif c16t-child <dir> <seed> <thorough 0|1>`
pub fn child_main(args: &[String]) -> i32 {
	let dir = std::path::PathBuf::from(&args[0]);
	let seed: u64 = args[1].parse().unwrap();
	let thorough = args[2] == "1";
	let case = gen_case(seed, thorough);
	let out = Arc::new(Out(std::io::stdout()));
	{
		let out = out.clone();
		std::panic::set_hook(Box::new(move |info| {
			let th = std::thread::current();
			let loc = info.location().map(|l| format!("{}:{}", l.file(), l.line())).unwrap_or("?".into());
			let msg = info
				.payload()
				.downcast_ref::<&str>()
				.map(|s| s.to_string())
				.or_else(|| info.payload().downcast_ref::<String>().cloned())
				.unwrap_or_default();
			out.line(&format!("PANIC {}/tid{} {} {}", th.name().unwrap_or("unnamed"), ip::gettid(), loc, msg.replace('\n', " ")));
		}));
	}
	let deadline = Duration::from_millis(if thorough { 8000 } else { 4000 });
	let dirs = dir.to_string_lossy().to_string();
	ip::xreset();
	ip::reset();
	ip::set_needle(&MAGIC);
	ip::enable(true);
	ip::xenable(Some(&dirs));
	ip::exempt_current_thread();
	if case.slow_sync_us > 0 {
		ip::set_latency(ip::S_FDATASYNC | ip::S_FSYNC | ip::S_MSYNC, ip::F_ALL, case.slow_sync_us);
	}
	let mut named: HashMap<i32, String> = HashMap::new();
	named.insert(ip::gettid(), "client-main".into());
	let db = match Db::open_or_create(&case.options(&dir, true)) {
		Ok(db) => db,
		Err(e) => {
			out.line(&format!("VIOL open {:?}", e));
			return 3
		},
	};
	let mut master = Rng::new(seed ^ 0x1a9e);
	let lanes: Vec<Mutex<Lane>> = (0..case.lanes())
		.map(|li| {
			let keys = case
				.cols
				.iter()
				.enumerate()
				.map(|(c, _)| (0..case.nkeys).map(|i| gen_key(1 + i + 50 * c as u64 + 1000 * li as u64)).collect())
				.collect();
			Mutex::new(Lane { id: li, states: vec![State::new()], txs: vec![], inflight: false, rng: master.fork(), keys, toks: Toks::default() })
		})
		.collect();
	let sh = Arc::new(Shared {
		case: case.clone(),
		db,
		lanes,
		serial: Mutex::new(()),
		out: out.clone(),
		done: AtomicU64::new(0),
		reported: AtomicBool::new(false),
		reported_us: AtomicU64::new(0),
		stop_reader: AtomicBool::new(false),
		reads: AtomicU64::new(0),
		viol: AtomicU64::new(0),
		t0: Instant::now(),
	});
	let p = &case.plan;
	let arm = |out: &Out| {
		ip::arm(p.sys, p.fc, p.skip, p.errno, p.all_threads, p.delay_us);
		out.line(&format!("armed {} skip={} {} delay_us={}", p.label, p.skip, errno_name(p.errno), p.delay_us));
	};
	if case.pre_arm == 0 {
		arm(&out);
	}
	let rd = {
		let sh = sh.clone();
		std::thread::Builder::new().name("reader".into()).spawn(move || reader(sh)).unwrap()
	};
	// announces the first injected failure as soon as it happens (a hang report can then name it)
	let mon_stop = Arc::new(AtomicBool::new(false));
	let mon = {
		let out = out.clone();
		let stop = mon_stop.clone();
		std::thread::Builder::new()
			.name("monitor".into())
			.spawn(move || {
				ip::exempt_current_thread();
				while !stop.load(Ordering::SeqCst) {
					if ip::plan_stats().2.is_some() {
						if let Some(e) = ip::xfirst_injected() {
							out.line(&format!("firsthit {} {} {} tid={} t={}us", ip::sys_name(e.sys), e.name, errno_name(e.errno), e.tid, e.us));
							return
						}
					}
					std::thread::sleep(Duration::from_millis(1));
				}
			})
			.unwrap()
	};
	let mut hs = vec![];
	for th in 0..case.threads {
		let sh = sh.clone();
		hs.push(std::thread::Builder::new().name(format!("committer{}", th)).spawn(move || committer(sh, th)).unwrap());
	}
	if case.pre_arm > 0 {
		let t = Instant::now();
		while sh.done.load(Ordering::SeqCst) < case.pre_arm && t.elapsed() < Duration::from_secs(20) && !hs.iter().all(|h| h.is_finished()) {
			std::thread::sleep(Duration::from_micros(100));
		}
		arm(&out);
	}
	out.line("begin join-committers");
	for h in hs {
		let _ = h.join();
	}
	out.line("joined committers");
	// Give the workers a moment to run into the plan, then probe: after an injected failure some
	// later commit has to be refused.
	let t = Instant::now();
	while ip::plan_stats().2.is_none() && t.elapsed() < Duration::from_millis(if case.always_flush { 60 } else { 10 }) {
		std::thread::sleep(Duration::from_millis(1));
	}
	let hit_before_drop = ip::plan_stats().2.is_some();
	if hit_before_drop && !sh.reported.load(Ordering::SeqCst) {
		let t = Instant::now();
		let mut probes = 0;
		while !sh.reported.load(Ordering::SeqCst) && t.elapsed() < deadline {
			let _ = one_commit(&sh, 99, 0, "probe");
			probes += 1;
			std::thread::sleep(Duration::from_millis(2));
		}
		out.line(&format!("STAT probes {}", probes));
		if !sh.reported.load(Ordering::SeqCst) {
			sh.viol(
				"not-reported",
				&format!("an injected failure happened {} ms ago but {} later commits were all accepted (error swallowed)", deadline.as_millis(), probes),
			);
		}
	}
	if sh.reported.load(Ordering::SeqCst) {
		// once refused, always refused
		for _ in 0..3 {
			if one_commit(&sh, 99, 0, "after").is_ok() {
				break
			}
		}
		if let Some(f) = ip::plan_stats().2 {
			let r = sh.reported_us.load(Ordering::SeqCst);
			out.line(&format!("STAT report.latency_us {}", r.saturating_sub(f)));
		}
	}
	// reads after the failure (the reader ran all the time; make sure it also ran after it)
	let r0 = sh.reads.load(Ordering::SeqCst);
	let t = Instant::now();
	while sh.reads.load(Ordering::SeqCst) < r0 + 300 && t.elapsed() < Duration::from_millis(300) {
		std::thread::sleep(Duration::from_millis(1));
	}
	sh.stop_reader.store(true, Ordering::SeqCst);
	out.line("begin join-reader");
	let _ = rd.join();
	out.line(&format!("joined reader reads={} after_failure={}", sh.reads.load(Ordering::SeqCst), sh.reads.load(Ordering::SeqCst) - r0));
	let reported = sh.reported.load(Ordering::SeqCst);
	let viol_live = sh.viol.load(Ordering::SeqCst);
	// ---- drop
	let sh = match Arc::try_unwrap(sh) {
		Ok(s) => s,
		Err(_) => {
			out.line("VIOL harness shared state still referenced");
			return 3
		},
	};
	let Shared { db, lanes, .. } = sh;
	let keep = case.keep_armed;
	if !keep {
		ip::disarm();
	}
	mon_stop.store(true, Ordering::SeqCst);
	let _ = mon.join();
	out.line(&format!("begin drop armed={}", keep as u8));
	let t0 = Instant::now();
	let h = std::thread::Builder::new()
		.name("dropper".into())
		.spawn(move || {
			DROPPER_TID.store(ip::gettid() as u64, Ordering::SeqCst);
			drop(db);
		})
		.unwrap();
	let dropped = h.join();
	out.line(&format!("drop {} {}", t0.elapsed().as_millis(), if dropped.is_ok() { "ok" } else { "panicked" }));
	ip::disarm();
	ip::set_latency(0, 0, 0);
	named.insert(DROPPER_TID.load(Ordering::SeqCst) as i32, "dropper".into());
	// ---- journal
	let xs = ip::xdrain();
	ip::xenable(None);
	ip::enable(false);
	ip::reset();
	let an = analyse(&xs, lanes.len(), &named);
	let mut dist: BTreeMap<String, u64> = BTreeMap::new();
	for e in &xs {
		let role = role_of(&an.roles, e.tid);
		*dist.entry(format!("site.{}.{}.{}", ip::sys_name(e.sys), ip::fc_name(e.fc), role)).or_insert(0) += 1;
		if e.injected {
			*dist.entry(format!("injected.{}.{}.{}", ip::sys_name(e.sys), ip::fc_name(e.fc), role)).or_insert(0) += 1;
		}
	}
	for (k, v) in &dist {
		out.line(&format!("STAT {} {}", k, v));
	}
	// Observation (durability order in the error shutdown, C12 territory, not a C16 verdict): with a
	// stored error `kill_logs` reclaims the fully enacted log files; count the shutdowns in which
	// the dropping thread truncated a log file without having msync'ed any table before.
	if reported {
		let dt = DROPPER_TID.load(Ordering::SeqCst) as i32;
		let mut flushed = false;
		let mut unflushed_truncate = false;
		for e in xs.iter().filter(|e| e.tid == dt && !e.injected && e.ret == 0) {
			if e.sys == ip::S_MSYNC {
				flushed = true;
			}
			if e.sys == ip::S_TRUNC && e.fc == ip::F_LOG && e.arg == 0 && !flushed {
				unflushed_truncate = true;
			}
		}
		out.line(&format!("STAT obs.error_shutdown.{} 1", if unflushed_truncate { "log_reclaimed_without_table_flush" } else { "no_unflushed_reclaim" }));
	}
	let (matched, failed, _) = ip::plan_stats();
	out.line(&format!("STAT plan.matching_calls {}", matched));
	out.line(&format!("STAT plan.failed_calls {}", failed));
	match &an.first {
		Some(e) => {
			out.line(&format!(
				"hit {} {} {} {} {} {}",
				ip::sys_name(e.sys),
				ip::fc_name(e.fc),
				role_of(&an.roles, e.tid),
				errno_name(e.errno),
				e.name,
				if hit_before_drop { "running" } else { "in-drop" }
			));
		},
		None => out.line("nohit"),
	}
	let excerpt = |out: &Out| {
		if let Some(f) = &an.first {
			let pos = xs.iter().position(|e| e.seq == f.seq).unwrap_or(0);
			let from = pos.saturating_sub(14);
			for e in xs[from..std::cmp::min(xs.len(), pos + 22)].iter() {
				out.line(&jline(e, &an.roles));
			}
			let tail = xs.len().saturating_sub(10);
			if tail > pos + 22 {
				out.line("J ...");
				for e in xs[tail..].iter() {
					out.line(&jline(e, &an.roles));
				}
			}
		}
	};
	// ---- reopen with the fault gone
	out.line("begin reopen");
	let o2 = case.options(&dir, false);
	let r = std::panic::catch_unwind(std::panic::AssertUnwindSafe(|| Db::open(&o2)));
	let db = match r {
		Ok(Ok(db)) => db,
		Ok(Err(e)) => {
			out.line(&format!("VIOL reopen-failed Db::open after the fault was removed returned {:?}", e));
			excerpt(&out);
			return 4
		},
		Err(_) => {
			out.line("VIOL reopen-panicked Db::open after the fault was removed panicked");
			excerpt(&out);
			return 4
		},
	};
	out.line("reopen ok");
	let mut viol = viol_live;
	let lanes: Vec<Lane> = lanes.into_iter().map(|l| l.into_inner().unwrap()).collect();
	let checked = std::panic::catch_unwind(std::panic::AssertUnwindSafe(|| {
		let mut viol = 0u64;
		let mut ms = vec![];
		for l in &lanes {
			let n = l.n() as u64;
			let got = db.get(0, &marker_key(l.id)).ok().flatten();
			let m = match &got {
				None => Some(0),
				Some(v) => decode_marker(v).filter(|(li, _)| *li == l.id).map(|x| x.1),
			};
			let lo = an.synced[l.id];
			let m = match m {
				Some(m) if m <= n => m,
				_ => {
					out.line(&format!("VIOL not-a-prefix lane={} marker key holds {:?}: no accepted transaction (accepted {})", l.id, got.as_ref().map(|v| l.toks.render(v)), n));
					viol += 1;
					ms.push(None);
					continue
				},
			};
			out.line(&format!("prefix lane={} m={} synced={} written={} accepted={}", l.id, m, lo, an.written[l.id], n));
			if m < lo {
				out.line(&format!(
					"VIOL lost-synced lane={} reopen exposes prefix {} but transactions up to {} were in a log file fdatasync'ed before the failure (accepted {})",
					l.id, m, lo, n
				));
				viol += 1;
			}
			let st = &l.states[m as usize];
			let mut bad = 0;
			for (c, ks) in l.keys.iter().enumerate() {
				for k in ks {
					let got = db.get(c as u8, k).ok().flatten();
					let exp = st.get(&(c as u8, k.clone())).map(|e| e.0.as_ref().clone());
					if got != exp {
						bad += 1;
						if bad <= 3 {
							out.line(&format!(
								"VIOL not-a-prefix lane={} prefix m={} (marker) but col={} key={} holds {} instead of {}",
								l.id,
								m,
								c,
								hex(k),
								got.as_ref().map(|v| l.toks.render(v)).unwrap_or("none".into()),
								exp.as_ref().map(|v| l.toks.render(v)).unwrap_or("none".into())
							));
						}
					}
				}
			}
			viol += bad;
			ms.push(Some(m));
		}
		// value iteration of hash columns: exactly the values (and counts) of the chosen prefixes
		if ms.iter().all(|m| m.is_some()) {
			for (c, (k, _)) in case.cols.iter().enumerate() {
				if *k == CK::Btree {
					continue
				}
				let mut seen: Vec<(Vec<u8>, u64)> = vec![];
				let r = db.iter_column_while(c as u8, |st| {
					seen.push((st.value, if *k == CK::Rc { st.rc as u64 } else { 1 }));
					true
				});
				if let Err(e) = r {
					out.line(&format!("VIOL iteration col={} failed: {:?}", c, e));
					viol += 1;
					continue
				}
				let mut exp: Vec<(Vec<u8>, u64)> = vec![];
				for (l, m) in lanes.iter().zip(ms.iter()) {
					for ((cc, _), (v, n)) in l.states[m.unwrap() as usize].iter() {
						if *cc as usize == c {
							exp.push((v.as_ref().clone(), *n));
						}
					}
				}
				seen.sort();
				exp.sort();
				if seen != exp {
					let show = |x: &[(Vec<u8>, u64)]| x.iter().map(|(v, n)| format!("{}*{}", lanes[0].toks.render(v), n)).collect::<Vec<_>>().join(" ");
					out.line(&format!("VIOL not-a-prefix value iteration of col={} yields [{}] expected [{}]", c, show(&seen), show(&exp)));
					viol += 1;
				}
			}
		}
		// ---- model ops (serial mode: one global commit order)
		if case.serial && ms[0].is_some() {
			let l = &lanes[0];
			let m = ms[0].unwrap();
			let n = l.n() as u64;
			out.line(&format!("OP p1 init {}\tok", case.model_kinds()));
			for tx in &l.txs {
				out.line(&format!("OP {}\tok", tx_line(tx)));
			}
			if an.first.is_none() && m == n {
				out.line("OP p1 reopen\tok");
			} else {
				let a = std::cmp::min(an.synced[0], n);
				let w = std::cmp::min(std::cmp::max(an.written[0].saturating_sub(1), a), n);
				for _ in 0..a {
					out.line("OP p1 process\tok");
				}
				out.line("OP p1 flush\tok");
				for _ in a..w {
					out.line("OP p1 process\tok");
				}
				out.line("OP p1 fail 0\tok");
				out.line(&format!("OP p1 failreopen {}\tok", m));
			}
			for (c, ks) in l.keys.iter().enumerate() {
				for k in ks.iter().chain(if c == 0 { vec![marker_key(0)] } else { vec![] }.iter()) {
					let got = db.get(c as u8, k);
					let obs = match &got {
						Ok(Some(v)) => format!("some {}", l.toks.render(v)),
						Ok(None) => "none".to_string(),
						Err(e) => format!("err:{}", err_kind(e)),
					};
					out.line(&format!("OP p1 get {} {}\t{}", c, hex(k), obs));
				}
			}
		}
		viol
	}));
	match checked {
		Ok(v) => viol += v,
		Err(_) => {
			out.line("VIOL panic-after-reopen reading the reopened database panicked (see the PANIC line)");
			viol += 1;
		},
	}
	if viol > 0 || (hit_before_drop && !reported) {
		excerpt(&out);
	}
	out.line("begin drop2");
	drop(db);
	out.line("DONE");
	if viol > 0 {
		5
	} else {
		0
	}
}

// ----------------------------------------------------------------------------------------- parent

#[derive(Default, Debug)]
struct Rep {
	commits_ok: u64,
	commits_err: u64,
	err_kinds: BTreeMap<String, u64>,
	max_commit_ms: u64,
	slow: u64,
	drop_ms: Option<u64>,
	viol: Vec<String>,
	panics: Vec<String>,
	journal: Vec<String>,
	ops: Vec<(String, String)>,
	stats: BTreeMap<String, u64>,
	hit: Option<String>,
	firsthit: Option<String>,
	prefixes: Vec<String>,
	pending: BTreeMap<String, String>,
	last_begin: String,
	armed: bool,
	done: bool,
	timed_out: bool,
	exit: Option<i32>,
	wall_ms: u64,
}

fn run_child(dir: &Path, seed: u64, thorough: bool, bound: Duration) -> Rep {
	let exe = std::env::current_exe().unwrap();
	let mut child = Command::new(exe)
		.arg("c16t-child")
		.arg(dir)
		.arg(seed.to_string())
		.arg(if thorough { "1" } else { "0" })
		.stdout(Stdio::piped())
		.stderr(Stdio::null())
		.spawn()
		.expect("spawn c16t child");
	let stdout = child.stdout.take().unwrap();
	let (txc, rxc) = std::sync::mpsc::channel::<String>();
	let rd = std::thread::spawn(move || {
		for l in BufReader::new(stdout).lines() {
			match l {
				Ok(l) =>
					if txc.send(l).is_err() {
						break
					},
				Err(_) => break,
			}
		}
	});
	let mut rep = Rep::default();
	let t0 = Instant::now();
	let total = bound * 4;
	let mut last_progress = Instant::now();
	let handle = |rep: &mut Rep, l: String| {
		let w: Vec<&str> = l.split(' ').collect();
		match w[0] {
			"begin" => {
				rep.last_begin = l.clone();
				if w.len() >= 3 && w[1] == "commit" {
					rep.pending.insert(format!("commit {}", w[2]), l.clone());
				} else {
					rep.pending.insert(w[1].to_string(), l.clone());
				}
			},
			"commit" if w.len() >= 6 => {
				rep.pending.remove(&format!("commit {}", w[1]));
				let ms: u64 = w[4].parse().unwrap_or(0);
				rep.max_commit_ms = rep.max_commit_ms.max(ms);
				if ms >= 20 {
					rep.slow += 1;
				}
				if w[5] == "ok" {
					rep.commits_ok += 1;
				} else {
					rep.commits_err += 1;
					*rep.err_kinds.entry(w[5].to_string()).or_insert(0) += 1;
				}
			},
			"joined" => {
				rep.pending.remove(if w[1] == "committers" { "join-committers" } else { "join-reader" });
			},
			"drop" if w.len() >= 2 => {
				rep.pending.remove("drop");
				rep.drop_ms = w[1].parse().ok();
				if w.get(2) == Some(&"panicked") {
					rep.viol.push("drop panicked".into());
				}
			},
			"reopen" => {
				rep.pending.remove("reopen");
			},
			"armed" => rep.armed = true,
			"VIOL" => rep.viol.push(l[5..].to_string()),
			"PANIC" => rep.panics.push(l.clone()),
			"J" => rep.journal.push(l.clone()),
			"OP" => {
				let body = &l[3..];
				if let Some((a, b)) = body.split_once('\t') {
					rep.ops.push((a.to_string(), b.to_string()));
				}
			},
			"STAT" if w.len() >= 3 => {
				*rep.stats.entry(w[1].to_string()).or_insert(0) += w[2].parse::<u64>().unwrap_or(0);
			},
			"hit" => rep.hit = Some(l[4..].to_string()),
			"firsthit" => rep.firsthit = Some(l[9..].to_string()),
			"prefix" => rep.prefixes.push(l[7..].to_string()),
			"DONE" => {
				rep.pending.remove("drop2");
				rep.done = true
			},
			_ => {},
		}
	};
	loop {
		match rxc.recv_timeout(Duration::from_millis(100)) {
			Ok(l) => {
				last_progress = Instant::now();
				handle(&mut rep, l);
			},
			Err(std::sync::mpsc::RecvTimeoutError::Timeout) => {
				if let Ok(Some(_)) = child.try_wait() {
					while let Ok(l) = rxc.recv_timeout(Duration::from_millis(50)) {
						handle(&mut rep, l);
					}
					break
				}
				if last_progress.elapsed() > bound || t0.elapsed() > total {
					rep.timed_out = true;
					let _ = child.kill();
					break
				}
			},
			Err(_) => break,
		}
	}
	let status = child.wait().ok();
	rep.exit = status.and_then(|s| s.code());
	let _ = rd.join();
	rep.wall_ms = t0.elapsed().as_millis() as u64;
	rep
}

pub fn run(seeds: &[u64], thorough: bool, root: &Path, t: &mut Trace, ctr: &mut Counters, prop: &str) -> u64 {
	let mut fails = 0;
	// observed: a whole case takes 0.1 .. 2 s on tmpfs, a single call far below 1 s
	// (C16T_BOUND_S overrides the bound: used to test the watchdog itself)
	let bound = Duration::from_secs(
		std::env::var("C16T_BOUND_S").ok().and_then(|v| v.parse().ok()).unwrap_or(if thorough { 90 } else { 45 }),
	);
	let mut confirmed_hangs = 0;
	let mut unconfirmed: Vec<(u64, String, String)> = vec![];
	for seed in seeds.iter().copied() {
		if confirmed_hangs >= 2 {
			ctr.inc("skipped_after_confirmed_hangs");
			continue
		}
		let c = gen_case(seed, thorough);
		t.begin_case(&format!("seed={} {}", seed, c.describe()));
		let mut intermittent = false;
		let dir = fresh_dir(root, &format!("c16t-{}", seed));
		let mut rep = run_child(&dir, seed, thorough, bound);
		if rep.timed_out {
			ctr.inc("watchdog.first_expiry");
			let first_pending: Vec<String> = rep.pending.values().cloned().collect();
			let _ = std::fs::remove_dir_all(&dir);
			let rep2 = run_child(&dir, seed, thorough, bound);
			if !rep2.timed_out {
				ctr.inc("watchdog.not_reproduced");
				t.comment(&format!("watchdog expiry with pending [{}] did not reproduce", first_pending.join(" | ")));
				// A hang caused by a race need not reproduce with the same seed.  A second
				// independent expiry in the same run with the same kind of pending call is a
				// reproduction too (the bound is two to three orders of magnitude above the
				// observed times, one loaded-machine hiccup cannot produce two of them).
				let kind = if first_pending.iter().any(|p| p.starts_with("begin commit")) {
					"commit".to_string()
				} else {
					first_pending.first().map(|p| p.split(' ').nth(1).unwrap_or("?").to_string()).unwrap_or("?".into())
				};
				unconfirmed.push((seed, kind.clone(), first_pending.join(" | ")));
				let same: Vec<&(u64, String, String)> = unconfirmed.iter().filter(|u| u.1 == kind).collect();
				if same.len() == 2 {
					t.oracle_fail(
						prop,
						&format!(
							"intermittent hang: two watchdog expiries ({} s without progress) with a pending `{}` call in this run, neither reproduced on the immediate re-run: seed {} [{}] and seed {} [{}]",
							bound.as_secs(),
							kind,
							same[0].0,
							same[0].2,
							same[1].0,
							same[1].2
						),
					);
					ctr.inc("hang.intermittent");
					intermittent = true;
				}
			}
			rep = rep2;
		}
		let mut failed = intermittent;
		if rep.timed_out {
			let pend: Vec<String> = rep.pending.values().cloned().collect();
			t.oracle_fail(
				prop,
				&format!(
					"hang (reproduced twice, no progress for {} s) with pending calls [{}] after {} accepted / {} refused commits; fault: {}",
					bound.as_secs(),
					pend.join(" | "),
					rep.commits_ok,
					rep.commits_err,
					rep.hit.clone().or(rep.firsthit.clone()).unwrap_or(format!("plan {} (armed={}, no injected failure yet)", c.plan.label, rep.armed))
				),
			);
			ctr.inc("hang");
			confirmed_hangs += 1;
			failed = true;
		} else {
			for p in &rep.panics {
				t.oracle_fail(prop, &format!("panic in the child: {}", p));
				failed = true;
			}
			for v in &rep.viol {
				t.oracle_fail(prop, &format!("{} [fault: {}]", v, rep.hit.clone().unwrap_or("none".into())));
				failed = true;
			}
			if !failed && (!rep.done || rep.exit != Some(0)) {
				t.oracle_fail(prop, &format!("child ended early: exit={:?} done={} after '{}'", rep.exit, rep.done, rep.last_begin));
				failed = true;
			}
			if failed {
				for j in &rep.journal {
					t.comment(j);
				}
			}
		}
		if !rep.timed_out {
			for (op, obs) in &rep.ops {
				t.op(op, obs);
			}
		}
		for p in &rep.prefixes {
			t.comment(&format!("reopen prefix {}", p));
		}
		t.comment(&format!(
			"commits ok={} refused={} max_commit_ms={} drop_ms={:?} hit={} wall_ms={}",
			rep.commits_ok,
			rep.commits_err,
			rep.max_commit_ms,
			rep.drop_ms,
			rep.hit.clone().unwrap_or("none".into()),
			rep.wall_ms
		));
		ctr.inc("cases");
		ctr.inc(&format!("plan.{}", c.plan.label));
		ctr.inc(&format!("plan.errno.{}", errno_name(c.plan.errno)));
		ctr.inc(if c.always_flush { "cfg.always_flush" } else { "cfg.min_log_size_64m" });
		ctr.inc(if c.serial { "cfg.serial_commit_order" } else { "cfg.free_lanes" });
		ctr.inc(&format!("cfg.threads.{}", c.threads));
		ctr.inc(&format!("cfg.cols.{}", c.cols.len()));
		if c.big {
			ctr.inc("cfg.big_transactions");
		}
		if c.plan.all_threads {
			ctr.inc("cfg.plan_includes_client_threads");
		}
		ctr.inc(if c.keep_armed { "drop.fault_still_armed" } else { "drop.fault_removed" });
		match &rep.hit {
			Some(h) => {
				let w: Vec<&str> = h.split(' ').collect();
				ctr.inc("fault.hit");
				if w.len() >= 6 {
					ctr.inc(&format!("fault.first.{}.{}.{}", w[0], w[1], w[2]));
					ctr.inc(&format!("fault.first.when.{}", w[5]));
				}
				if rep.commits_err > 0 {
					ctr.inc("fault.reported_by_refused_commit");
				}
			},
			None => ctr.inc("fault.not_reached"),
		}
		ctr.add("commits.ok", rep.commits_ok);
		ctr.add("commits.refused", rep.commits_err);
		ctr.add("commits.slow_ge_20ms", rep.slow);
		for (k, v) in &rep.err_kinds {
			ctr.add(&format!("commit.{}", k), *v);
		}
		for (k, v) in &rep.stats {
			if k == "report.latency_us" {
				let prev = ctr.0.get("report.max_latency_us").copied().unwrap_or(0);
				if *v > prev {
					ctr.0.insert("report.max_latency_us".into(), *v);
				}
			} else {
				ctr.add(k, *v);
			}
		}
		if let Some(d) = rep.drop_ms {
			let b = if d < 10 { "lt10ms" } else if d < 100 { "lt100ms" } else if d < 1000 { "lt1s" } else { "ge1s" };
			ctr.inc(&format!("drop.{}", b));
		}
		let prev = ctr.0.get("commit.max_ms").copied().unwrap_or(0);
		if rep.max_commit_ms > prev {
			ctr.0.insert("commit.max_ms".into(), rep.max_commit_ms);
		}
		if !rep.ops.is_empty() {
			ctr.inc("model.cases_with_ops");
		}
		if failed {
			fails += 1;
			t.comment(&format!("FAILED-CASE seed={}", seed));
		}
		t.end_case(rep.hit.is_some() && rep.commits_ok > 0);
		let _ = std::fs::remove_dir_all(&dir);
	}
	fails
}
