//! C08: rejected transactions leave no trace.  Columns of every kind; transactions with
//! one invalid operation at a random position among valid ones; full observable snapshot
//! before / after the rejected call, after drain and after reopen.
use crate::util::*;
use parity_db::{ColumnOptions, Db, NewNode, NodeRef, Operation, Options};
use std::collections::BTreeMap;
use std::path::Path;

#[derive(Clone, Copy, Debug)]
struct Col {
	btree: bool,
	multitree: bool,
	rc: bool,
	append_only: bool,
}

const COLS: [Col; 8] = [
	Col { btree: false, multitree: false, rc: false, append_only: false },
	Col { btree: false, multitree: false, rc: true, append_only: false },
	Col { btree: true, multitree: false, rc: false, append_only: false },
	Col { btree: false, multitree: true, rc: true, append_only: false },
	Col { btree: false, multitree: true, rc: false, append_only: true },
	Col { btree: false, multitree: true, rc: false, append_only: false },
	// btree-indexed column that also carries the multitree flag: takes the btree path
	Col { btree: true, multitree: true, rc: false, append_only: false },
	// plain hash column with append_only (never ref_counted)
	Col { btree: false, multitree: false, rc: false, append_only: true },
];

fn options(path: &Path) -> Options {
	let mut o = Options::with_columns(path, COLS.len() as u8);
	for (i, c) in COLS.iter().enumerate() {
		o.columns[i] = ColumnOptions {
			preimage: c.rc,
			uniform: false,
			ref_counted: c.rc,
			compression: parity_db::CompressionType::NoCompression,
			btree_index: c.btree,
			multitree: c.multitree,
			append_only: c.append_only,
			allow_direct_node_access: c.multitree,
		};
	}
	o.salt = Some([7u8; 32]);
	o.with_background_thread = false;
	o.always_flush = true;
	o.stats = false;
	o
}

#[derive(Clone, Debug)]
enum Op {
	Set(Vec<u8>, Vec<u8>),
	Del(Vec<u8>),
	Ref(Vec<u8>),
	InsTree(Vec<u8>, usize), // root key, fan-out of the root (children are leaves)
	RefTree(Vec<u8>),
	DerefTree(Vec<u8>),
}

fn key(i: u64) -> Vec<u8> {
	format!("key-{:03}", i).into_bytes()
}
fn val_for(k: &[u8]) -> Vec<u8> {
	let mut v = b"value-of-".to_vec();
	v.extend_from_slice(k);
	v
}

fn to_db(op: &Op) -> Operation<Vec<u8>, Vec<u8>> {
	match op {
		Op::Set(k, v) => Operation::Set(k.clone(), v.clone()),
		Op::Del(k) => Operation::Dereference(k.clone()),
		Op::Ref(k) => Operation::Reference(k.clone()),
		Op::InsTree(k, f) => {
			let children = (0..*f)
				.map(|i| NodeRef::New(NewNode { data: format!("leaf{}", i).into_bytes(), children: vec![] }))
				.collect();
			Operation::InsertTree(k.clone(), NewNode { data: val_for(k), children })
		},
		Op::RefTree(k) => Operation::ReferenceTree(k.clone()),
		Op::DerefTree(k) => Operation::DereferenceTree(k.clone()),
	}
}

/// Reference semantics of which single operations are acceptable (independent restatement of
/// the property's list, not derived from the Lean model).
fn expect_valid(c: &Col, op: &Op, root_exists: bool) -> bool {
	let tree_col = c.multitree && !c.btree;
	match op {
		Op::Set(..) | Op::Del(..) => !tree_col,
		Op::Ref(..) => !tree_col && c.rc,
		Op::InsTree(_, f) => tree_col && *f <= 255,
		Op::RefTree(..) => tree_col && (c.append_only || c.rc),
		Op::DerefTree(..) => tree_col && !c.append_only && root_exists,
	}
}

fn model_line(col: usize, op: &Op, root_exists: bool) -> String {
	let c = &COLS[col];
	let b = |x: bool| if x { 1 } else { 0 };
	let o = match op {
		Op::Set(..) => "set".to_string(),
		Op::Del(..) => "del".to_string(),
		Op::Ref(..) => "ref".to_string(),
		Op::InsTree(_, f) => format!("instree {}", f),
		Op::RefTree(..) => "reftree".to_string(),
		Op::DerefTree(..) => format!("dereftree {}", b(root_exists)),
	};
	format!("c08 validate {} {} {} {} {} {} {}", COLS.len(), col, b(c.btree), b(c.multitree), b(c.rc), b(c.append_only), o)
}

/// Everything observable through the public API, canonical.
fn snapshot(db: &Db, nkeys: u64) -> Vec<String> {
	let mut out = vec![];
	for (ci, c) in COLS.iter().enumerate() {
		let col = ci as u8;
		if c.multitree && !c.btree {
			for i in 0..nkeys {
				let k = key(i);
				let r = db.get_root(col, &k);
				out.push(format!("{}:root:{}={:?}", ci, i, r.map(|x| x.map(|(d, ch)| (hex(&d), ch))).map_err(|e| err_kind(&e))));
			}
			out.push(format!("{}:entries={:?}", ci, db.get_num_column_value_entries(col).map_err(|e| err_kind(&e))));
		} else {
			for i in 0..nkeys {
				let k = key(i);
				out.push(format!("{}:get:{}={:?}", ci, i, db.get(col, &k).map(|v| v.map(|v| hex(&v))).map_err(|e| err_kind(&e))));
				out.push(format!("{}:size:{}={:?}", ci, i, db.get_size(col, &k).map_err(|e| err_kind(&e))));
			}
			if c.btree {
				let mut it = db.iter(col).unwrap();
				it.seek_to_first().unwrap();
				let mut n = 0;
				while let Ok(Some((k, v))) = it.next() {
					out.push(format!("{}:iter:{}={}", ci, hex(&k), hex(&v)));
					n += 1;
					if n > 1000 {
						break
					}
				}
			} else {
				out.push(format!("{}:entries={:?}", ci, db.get_num_column_value_entries(col).map_err(|e| err_kind(&e))));
			}
		}
	}
	out
}

fn drain(db: &Db, commits: usize) {
	for _ in 0..commits + 2 {
		db.process_commits().unwrap();
	}
	db.flush_logs().unwrap();
	for _ in 0..3 {
		db.enact_logs().unwrap();
		db.clean_logs().unwrap();
	}
}

pub fn run(seeds: &[u64], _thorough: bool, root: &Path, t: &mut Trace, ctr: &mut Counters, prop: &str) -> u64 {
	let mut fails = 0;
	for cs in seeds.iter().copied() {
		let mut rng = Rng::new(cs);
		let dir = fresh_dir(root, &format!("c08-{}", cs));
		let opts = options(&dir);
		let mut db = Db::open_or_create(&opts).unwrap();
		let nkeys = 6u64;
		t.begin_case(&format!("seed={}", cs));
		let mut ok = true;
		// logical mirror of what exists (for root_exists and for the expected final state)
		let mut roots: Vec<BTreeMap<Vec<u8>, u64>> = vec![Default::default(); COLS.len()];
		let mut pending = 0usize;
		let mut rejected = 0;
		let steps = rng.range(10, 30);
		for step in 0..steps {
			// build a transaction of valid operations
			let n = rng.range(1, 5) as usize;
			let mut tx: Vec<(u8, Op)> = vec![];
			let mut tmp_roots = roots.clone();
			for _ in 0..n {
				let ci = rng.below(COLS.len() as u64) as usize;
				let c = &COLS[ci];
				let k = key(rng.below(nkeys));
				// one operation per tree root and transaction: the order between a tree dereference
				// and other operations on the same root inside ONE transaction is C10's business
				if c.multitree && !c.btree && tx.iter().any(|(cc, o)| *cc as usize == ci && match o {
					Op::InsTree(kk, _) | Op::RefTree(kk) | Op::DerefTree(kk) => *kk == k,
					_ => false,
				}) {
					continue
				}
				let op = if c.multitree && !c.btree {
					let exists = tmp_roots[ci].contains_key(&k);
					match rng.below(3) {
						0 if !exists => {
							tmp_roots[ci].insert(k.clone(), 1);
							Op::InsTree(k, rng.below(4) as usize)
						},
						1 if exists && (c.rc || c.append_only) => Op::RefTree(k),
						2 if exists && !c.append_only && tmp_roots[ci][&k] > 0 => {
							// keep it simple: only dereference trees present before this transaction
							if roots[ci].contains_key(&k) {
								Op::DerefTree(k)
							} else {
								continue
							}
						},
						_ => {
							if exists {
								if c.rc || c.append_only { Op::RefTree(k) } else { continue }
							} else {
								tmp_roots[ci].insert(k.clone(), 1);
								Op::InsTree(k, 1)
							}
						},
					}
				} else {
					match rng.below(if c.rc { 3 } else { 2 }) {
						0 => { let v = val_for(&k); Op::Set(k, v) },
						1 => Op::Del(k),
						_ => Op::Ref(k),
					}
				};
				tx.push((ci as u8, op));
			}
			if tx.is_empty() {
				continue
			}
			// with probability 1/2 insert one invalid operation at a random position
			let inject = step == 0 || rng.chance(1, 2);
			let mut invalid_kind = String::new();
			if inject {
				let ci = rng.below(COLS.len() as u64) as usize;
				let c = &COLS[ci];
				let k = key(rng.below(nkeys));
				let bad = if c.multitree && !c.btree {
					match rng.below(if c.rc || c.append_only { 5 } else { 6 }) {
						0 => Op::Set(k.clone(), val_for(&k)),
						1 => Op::Ref(k),
						2 => Op::InsTree(key(100 + rng.below(50)), 256 + rng.below(3) as usize),
						3 if c.append_only => Op::DerefTree(k),
						3 => Op::DerefTree(key(200 + rng.below(50))), // missing root
						5 => Op::RefTree(k), // no reference counting on this column
						_ => Op::Del(k),
					}
				} else {
					match rng.below(if c.rc { 3 } else { 4 }) {
						0 => Op::InsTree(k, 1),
						1 => Op::RefTree(k),
						2 => Op::DerefTree(k),
						_ => Op::Ref(k),
					}
				};
				invalid_kind = format!("{:?}", std::mem::discriminant(&bad));
				let pos = rng.below(tx.len() as u64 + 1) as usize;
				tx.insert(pos, (ci as u8, bad));
				ctr.inc(&format!("invalid_at.{}", if pos == 0 { "first" } else if pos == tx.len() - 1 { "last" } else { "middle" }));
			}
			// single-operation verdicts tie the validation matrix to the model
			if step < 3 {
				for (ci, op) in tx.iter() {
					let exists = match op {
						Op::DerefTree(k) => roots[*ci as usize].contains_key(k),
						_ => false,
					};
					let line = model_line(*ci as usize, op, exists);
					let v = expect_valid(&COLS[*ci as usize], op, exists);
					t.comment(&format!("matrix {} -> expect_valid={}", line, v));
				}
			}
			t.comment(&format!("tx inject={} {:?}", inject, tx.iter().map(|(c, o)| format!("{}:{}", c, match o {
				Op::Set(k, _) => format!("set {}", String::from_utf8_lossy(k)),
				Op::Del(k) => format!("del {}", String::from_utf8_lossy(k)),
				Op::Ref(k) => format!("ref {}", String::from_utf8_lossy(k)),
				Op::InsTree(k, f) => format!("instree {} {}", String::from_utf8_lossy(k), f),
				Op::RefTree(k) => format!("reftree {}", String::from_utf8_lossy(k)),
				Op::DerefTree(k) => format!("dereftree {}", String::from_utf8_lossy(k)),
			})).collect::<Vec<_>>()));
			let before = snapshot(&db, nkeys);
			let r = db.commit_changes(tx.iter().map(|(c, o)| (*c, to_db(o))).collect::<Vec<_>>());
			ctr.inc(if r.is_ok() { "commit.ok" } else { "commit.rejected" });
			if inject {
				match &r {
					Ok(()) => {
						t.oracle_fail(prop, &format!("transaction with an invalid operation ({}) was accepted", invalid_kind));
						ok = false;
					},
					Err(e) => {
						rejected += 1;
						ctr.inc(&format!("err.{}", err_kind(e)));
						let after = snapshot(&db, nkeys);
						if after != before {
							let d: Vec<_> = before.iter().zip(after.iter()).filter(|(a, b)| a != b).take(3).collect();
							t.oracle_fail(prop, &format!("rejected transaction changed the observable state at once: {:?}", d));
							ok = false;
						}
						// ... and later: drain, compare with the state before (pending commits are
						// all valid ones, so draining may legitimately change entry counts: compare
						// against a drain of the same prefix instead: drain first, snapshot, reopen, snapshot)
						drain(&db, pending);
						pending = 0;
						let drained = snapshot(&db, nkeys);
						drop(db);
						db = Db::open(&opts).unwrap();
						let reopened = snapshot(&db, nkeys);
						if drained != reopened {
							t.oracle_fail(prop, "state after drain differs from state after reopen (something of the rejected transaction was persisted or lost)");
							ok = false;
						}
						// logical content must still be the one produced by accepted commits only
						for (ci, c) in COLS.iter().enumerate() {
							if c.multitree && !c.btree {
								for i in 0..nkeys {
									let k = key(i);
									let present = db.get_root(ci as u8, &k).ok().flatten().is_some();
									if present != roots[ci].contains_key(&k) {
										t.oracle_fail(prop, &format!("tree root {} col {} present={} expected={}", i, ci, present, roots[ci].contains_key(&k)));
										ok = false;
									}
								}
							}
						}
					},
				}
			} else {
				match r {
					Ok(()) => {
						pending += 1;
						// apply to the logical mirror
						for (ci, op) in tx.iter() {
							let ci = *ci as usize;
							match op {
								Op::InsTree(k, _) => { roots[ci].entry(k.clone()).or_insert(1); },
								Op::RefTree(k) => if !COLS[ci].append_only { if let Some(n) = roots[ci].get_mut(k) { *n += 1; } },
								Op::DerefTree(k) => {
									let gone = if let Some(n) = roots[ci].get_mut(k) { *n -= 1; *n == 0 } else { false };
									if gone { roots[ci].remove(k); }
								},
								_ => {},
							}
						}
					},
					Err(e) => {
						t.oracle_fail(prop, &format!("valid transaction rejected: {:?} tx={:?}", e, tx));
						ok = false;
					},
				}
			}
		}
		// exhaustive single-operation matrix (model tie): every column kind x operation kind
		for (ci, c) in COLS.iter().enumerate() {
			let k_new = key(900 + ci as u64);
			let ops = vec![
				Op::Set(k_new.clone(), val_for(&k_new)),
				Op::Del(k_new.clone()),
				Op::Ref(k_new.clone()),
				Op::InsTree(key(910 + ci as u64), 255),
				Op::InsTree(key(920 + ci as u64), 256),
				Op::RefTree(key(910 + ci as u64)),
				Op::DerefTree(key(910 + ci as u64)),
				Op::DerefTree(key(999)),
			];
			for op in ops {
				let exists = match &op {
					Op::DerefTree(k) => db.get_root(ci as u8, k).ok().flatten().is_some() || (c.multitree && !c.btree && *k == key(910 + ci as u64)),
					_ => false,
				};
				let r = db.commit_changes(vec![(ci as u8, to_db(&op))]);
				let obs = match &r {
					Ok(()) => "ok".to_string(),
					Err(e) => format!("err:{}", err_kind(e)),
				};
				// root existence as the implementation sees it at validation time
				let exists_now = match &op {
					Op::DerefTree(k) => c.multitree && !c.btree && *k == key(910 + ci as u64),
					_ => exists,
				};
				t.op(&model_line(ci, &op, exists_now), &obs);
				if r.is_ok() != expect_valid(c, &op, exists_now) {
					t.oracle_fail(prop, &format!("single operation {:?} on column {:?}: got {}", op, c, obs));
					ok = false;
				}
				ctr.inc("matrix.ops");
			}
		}
		// refusal because of a stored background error: a VALID transaction (tree insertions with
		// new nodes, a tree dereference, key-value operations) must be refused with Err(Background)
		// and leave no trace: no claimed slots, nothing in the overlays, nothing after reopen
		{
			drain(&db, pending + 20);
			let before = snapshot(&db, nkeys);
			db.verif_store_err(Err(parity_db::Error::Io(std::io::Error::new(std::io::ErrorKind::Other, "injected by the c08 harness"))));
			let mut refused = 0;
			for round in 0..2 {
				let mut tx: Vec<(u8, Op)> = vec![];
				for (ci, c) in COLS.iter().enumerate() {
					if c.multitree && !c.btree {
						tx.push((ci as u8, Op::InsTree(key(700 + 10 * round + ci as u64), 2 + rng.below(4) as usize)));
						if !c.append_only {
							if let Some(k) = roots[ci].keys().next().cloned() {
								tx.push((ci as u8, Op::DerefTree(k)));
							}
						}
					} else {
						let k = key(rng.below(nkeys));
						let v = val_for(&k);
						tx.push((ci as u8, Op::Set(k, v)));
					}
				}
				let r = db.commit_changes(tx.iter().map(|(c, o)| (*c, to_db(o))).collect::<Vec<_>>());
				match &r {
					Err(e) if err_kind(e) == "Background" => refused += 1,
					other => {
						t.oracle_fail(prop, &format!("commit after a stored background error returned {:?} instead of Err(Background)", other.as_ref().map_err(err_kind)));
						ok = false;
					},
				}
				let after = snapshot(&db, nkeys);
				if after != before {
					let d: Vec<_> = before.iter().zip(after.iter()).filter(|(a, b)| a != b).take(3).collect();
					t.oracle_fail(prop, &format!("commit refused because of a background error changed the observable state: {:?}", d));
					ok = false;
				}
			}
			ctr.add("bgerr.refused", refused);
			drop(db);
			db = Db::open(&opts).unwrap();
			let reopened = snapshot(&db, nkeys);
			if reopened != before {
				let d: Vec<_> = before.iter().zip(reopened.iter()).filter(|(a, b)| a != b).take(3).collect();
				t.oracle_fail(prop, &format!("state after reopen differs from the state before the refused commits: {:?}", d));
				ok = false;
			}
			rejected += refused;
		}
		// out-of-range column id
		let r = db.commit_changes(vec![(COLS.len() as u8 + 3, Operation::Set(b"k".to_vec(), b"v".to_vec()))]);
		t.op(&format!("c08 validate {} {} 0 0 0 0 set", COLS.len(), COLS.len() + 3), &match &r { Ok(()) => "ok".to_string(), Err(e) => format!("err:{}", err_kind(e)) });
		drop(db);
		let _ = std::fs::remove_dir_all(&dir);
		ctr.inc("cases");
		ctr.add("rejected_total", rejected);
		t.end_case(rejected > 0);
		if !ok {
			fails += 1;
		}
	}
	fails
}
