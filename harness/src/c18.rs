//! C18: at most one live handle per database directory.  Threads and CHILD PROCESSES (re-exec
//! of this binary, hidden sub-command `c18-child <dir> <mode>`) race open / drop / kill -9 on
//! one directory.
//!
//! Oracle (independent of the Lean model): at most one Ok handle at a time; every losing open
//! reports Locked; a failed open leaves the directory content (names + hashes, except the
//! `lock` file) unchanged; after drop or `kill -9` of the holder the next open succeeds; a
//! second open racing the first open's recovery (crash image with pending logs) gets Locked
//! and the recovered content is exactly the committed content.
//! No model op lines beyond one summary line per case: the tie for C18 is T0 (order
//! obligations on the generated open / drop skeletons) + these oracle runs.
use crate::util::*;
use parity_db::{Db, Options};
use std::collections::BTreeMap;
use std::io::{BufRead, BufReader, Write};
use std::path::{Path, PathBuf};
use std::process::{Child, ChildStdin, Command, Stdio};
use std::sync::atomic::{AtomicUsize, Ordering};
use std::sync::{Arc, Mutex};
use std::time::{Duration, Instant};

fn options(dir: &Path, threads: bool) -> Options {
	let mut o = Options::with_columns(dir, 1);
	o.salt = Some([3u8; 32]);
	o.stats = false;
	o.with_background_thread = threads;
	o.always_flush = true;
	o
}

fn key_of(i: u64) -> Vec<u8> {
	let mut k = vec![0u8; 32];
	k[..8].copy_from_slice(&i.to_be_bytes());
	k[8..16].copy_from_slice(&(i.wrapping_mul(0x9E37_79B9_7F4A_7C15)).to_be_bytes());
	k[16..24].copy_from_slice(&(!i).to_be_bytes());
	k
}

fn value_of(i: u64, len: usize) -> Vec<u8> {
	let mut r = Rng::new(i ^ 0xc18);
	let mut v = Vec::with_capacity(len + 8);
	while v.len() < len {
		v.extend_from_slice(&r.next().to_le_bytes());
	}
	v.truncate(len);
	v
}

fn fnv(h: &mut u64, data: &[u8]) {
	for b in data {
		*h ^= *b as u64;
		*h = h.wrapping_mul(0x100_0000_01b3);
	}
}

/// Digest of the values of keys 0..n (absent keys are part of the digest).
fn content_digest(db: &Db, n: u64) -> u64 {
	let mut h = 0xcbf2_9ce4_8422_2325u64;
	for i in 0..n {
		match db.get(0, &key_of(i)).unwrap() {
			Some(v) => {
				fnv(&mut h, &[1]);
				fnv(&mut h, &(v.len() as u64).to_le_bytes());
				fnv(&mut h, &v);
			},
			None => fnv(&mut h, &[0]),
		}
	}
	h
}

/// names + sizes + content hashes of everything in the directory except the `lock` file
fn dir_snapshot(dir: &Path) -> BTreeMap<String, (u64, u64)> {
	let mut m = BTreeMap::new();
	if let Ok(rd) = std::fs::read_dir(dir) {
		for e in rd.flatten() {
			let name = e.file_name().to_string_lossy().to_string();
			if name == "lock" {
				continue
			}
			let data = std::fs::read(e.path()).unwrap_or_default();
			let mut h = 0xcbf2_9ce4_8422_2325u64;
			// sparse index files: hash only non-zero 4 KiB blocks (with their offsets)
			for (bi, blk) in data.chunks(4096).enumerate() {
				if blk.iter().any(|b| *b != 0) {
					fnv(&mut h, &(bi as u64).to_le_bytes());
					fnv(&mut h, blk);
				}
			}
			m.insert(name, (data.len() as u64, h));
		}
	}
	m
}

// ------------------------------------------------------------------------------------ child

/// `pdbverif c18-child <dir> <mode> [n]` with mode = try | hold | try-open.
/// Prints `ok` / `locked` / `err:<Kind>`; `hold` then prints `digest <hex>` for keys 0..n and keeps
/// the handle until a line arrives on stdin (or EOF), then drops it and prints `dropped`.
pub fn child_main(args: &[String]) -> i32 {
	let dir = PathBuf::from(&args[0]);
	let mode = args[1].as_str();
	let n: u64 = args.get(2).map(|s| s.parse().unwrap()).unwrap_or(0);
	let out = std::io::stdout();
	let say = |s: &str| {
		let mut l = out.lock();
		let _ = writeln!(l, "{}", s);
		let _ = l.flush();
	};
	let o = options(&dir, true);
	let r = if mode == "try-open" { Db::open(&o) } else { Db::open_or_create(&o) };
	match r {
		Ok(db) => {
			say("ok");
			if mode == "hold" {
				say(&format!("digest {:016x}", content_digest(&db, n)));
				let mut line = String::new();
				let _ = std::io::stdin().read_line(&mut line);
			}
			drop(db);
			say("dropped");
			0
		},
		Err(parity_db::Error::Locked(_)) => {
			say("locked");
			0
		},
		Err(e) => {
			say(&format!("err:{}", err_kind(&e)));
			0
		},
	}
}

struct Kid {
	child: Child,
	stdin: Option<ChildStdin>,
	lines: std::sync::mpsc::Receiver<String>,
}

fn spawn_kid(dir: &Path, mode: &str, n: u64) -> Kid {
	let exe = std::env::current_exe().unwrap();
	let mut child = Command::new(exe)
		.arg("c18-child")
		.arg(dir)
		.arg(mode)
		.arg(n.to_string())
		.stdin(Stdio::piped())
		.stdout(Stdio::piped())
		.stderr(Stdio::null())
		.spawn()
		.expect("spawn c18 child");
	let stdout = child.stdout.take().unwrap();
	let stdin = child.stdin.take();
	let (tx, rx) = std::sync::mpsc::channel();
	std::thread::spawn(move || {
		for l in BufReader::new(stdout).lines().flatten() {
			if tx.send(l).is_err() {
				break
			}
		}
	});
	Kid { child, stdin, lines: rx }
}

impl Kid {
	fn line(&self, secs: u64) -> Option<String> {
		self.lines.recv_timeout(Duration::from_secs(secs)).ok()
	}
	fn release(&mut self) {
		if let Some(mut s) = self.stdin.take() {
			let _ = s.write_all(b"go\n");
		}
	}
	fn finish(mut self) {
		self.release();
		let t0 = Instant::now();
		loop {
			if let Ok(Some(_)) = self.child.try_wait() {
				break
			}
			if t0.elapsed() > Duration::from_secs(30) {
				let _ = self.child.kill();
				let _ = self.child.wait();
				break
			}
			std::thread::sleep(Duration::from_millis(2));
		}
	}
}

/// A database with `n` keys of which the last commits are only in flushed, not yet enacted log
/// files (crash image taken as in p1.rs): opening it has to replay them.
fn make_crash_image(root: &Path, seed: u64, rng: &mut Rng, n: u64, big: usize) -> PathBuf {
	let src = fresh_dir(root, &format!("c18-{}-src", seed));
	let img = fresh_dir(root, &format!("c18-{}-img", seed));
	{
		let db = Db::open_or_create(&options(&src, false)).unwrap();
		let enacted = rng.range(0, n / 2);
		for i in 0..n {
			let len = if i % 5 == 0 { big } else { rng.range(0, 2000) as usize };
			db.commit(vec![(0u8, key_of(i), Some(value_of(i, len)))]).unwrap();
			db.process_commits().unwrap();
			if i % 3 == 2 || i + 1 == n {
				db.flush_logs().unwrap();
			}
			if i == enacted {
				db.flush_logs().unwrap();
				db.enact_logs().unwrap();
				db.clean_logs().unwrap();
			}
		}
		db.flush_logs().unwrap();
		copy_dir(&src, &img);
		let _ = std::fs::remove_file(img.join("lock"));
		// the source handle is dropped normally (its directory is discarded)
	}
	let _ = std::fs::remove_dir_all(&src);
	img
}

fn value_len_for(i: u64, big: usize, lens: &BTreeMap<u64, usize>) -> usize {
	*lens.get(&i).unwrap_or(&big)
}

pub fn run(seeds: &[u64], thorough: bool, root: &Path, t: &mut Trace, ctr: &mut Counters, prop: &str) -> u64 {
	let mut fails = 0;
	for seed in seeds.iter().copied() {
		let mut rng = Rng::new(seed);
		let scenario = *rng.pick(&["threads", "threads", "procs", "procs", "kill", "recovery-race", "recovery-race", "mixed"]);
		t.begin_case(&format!("seed={} scenario={}", seed, scenario));
		let mut problems: Vec<String> = vec![];
		let mut ok_opens = 0u64;
		let mut locked = 0u64;
		let dir = fresh_dir(root, &format!("c18-{}", seed));
		match scenario {
			"threads" | "mixed" => {
				// in-process threads (and, for "mixed", child processes) hammer open / drop
				let nthreads = rng.range(2, 5);
				let rounds = if thorough { rng.range(20, 60) } else { rng.range(8, 25) };
				let live = Arc::new(AtomicUsize::new(0));
				let max_live = Arc::new(AtomicUsize::new(0));
				let errs: Arc<Mutex<Vec<String>>> = Arc::new(Mutex::new(vec![]));
				let committed: Arc<Mutex<Vec<u64>>> = Arc::new(Mutex::new(vec![]));
				let counts = Arc::new((AtomicUsize::new(0), AtomicUsize::new(0)));
				let _ = Db::open_or_create(&options(&dir, false)).map(drop);
				let mut hs = vec![];
				for th in 0..nthreads {
					let (dir, live, max_live, errs, committed, counts) =
						(dir.clone(), live.clone(), max_live.clone(), errs.clone(), committed.clone(), counts.clone());
					let mut r = rng.fork();
					hs.push(std::thread::spawn(move || {
						for round in 0..rounds {
							let with_threads = r.chance(1, 2);
							match Db::open_or_create(&options(&dir, with_threads)) {
								Ok(db) => {
									let now = live.fetch_add(1, Ordering::SeqCst) + 1;
									max_live.fetch_max(now, Ordering::SeqCst);
									counts.0.fetch_add(1, Ordering::SeqCst);
									let id = th * 1000 + round;
									if db.commit(vec![(0u8, key_of(id), Some(value_of(id, 100)))]).is_ok() {
										committed.lock().unwrap().push(id);
									}
									if r.chance(1, 2) {
										std::thread::sleep(Duration::from_micros(r.range(0, 3000)));
									}
									live.fetch_sub(1, Ordering::SeqCst);
									drop(db);
								},
								Err(parity_db::Error::Locked(_)) => {
									counts.1.fetch_add(1, Ordering::SeqCst);
								},
								Err(e) => errs.lock().unwrap().push(format!("open failed with {:?}", e)),
							}
							if r.chance(1, 3) {
								std::thread::sleep(Duration::from_micros(r.range(0, 2000)));
							}
						}
					}));
				}
				let mut kid_results = vec![];
				if scenario == "mixed" {
					for _ in 0..rng.range(3, 8) {
						let k = spawn_kid(&dir, "try", 0);
						let first = k.line(30);
						kid_results.push(first.clone());
						k.finish();
						std::thread::sleep(Duration::from_micros(rng.range(0, 3000)));
					}
				}
				for h in hs {
					let _ = h.join();
				}
				for r in kid_results {
					match r.as_deref() {
						Some("ok") => ok_opens += 1,
						Some("locked") => locked += 1,
						other => problems.push(format!("child open reported {:?}", other)),
					}
				}
				ok_opens += counts.0.load(Ordering::SeqCst) as u64;
				locked += counts.1.load(Ordering::SeqCst) as u64;
				if max_live.load(Ordering::SeqCst) > 1 {
					problems.push(format!("{} handles were alive at the same time", max_live.load(Ordering::SeqCst)));
				}
				problems.extend(errs.lock().unwrap().drain(..));
				// everything committed through any of the successive handles is there
				match Db::open(&options(&dir, false)) {
					Ok(db) =>
						for id in committed.lock().unwrap().iter() {
							if db.get(0, &key_of(*id)).unwrap() != Some(value_of(*id, 100)) {
								problems.push(format!("value committed by handle {} is missing after reopen", id));
								break
							}
						},
					Err(e) => problems.push(format!("final open failed: {:?}", e)),
				}
			},
			"procs" | "kill" => {
				let n = rng.range(5, 40);
				{
					let db = Db::open_or_create(&options(&dir, false)).unwrap();
					for i in 0..n {
						db.commit(vec![(0u8, key_of(i), Some(value_of(i, 300)))]).unwrap();
					}
				}
				let mut holder = spawn_kid(&dir, "hold", n);
				match holder.line(60).as_deref() {
					Some("ok") => ok_opens += 1,
					other => problems.push(format!("holder process could not open: {:?}", other)),
				}
				let _digest = holder.line(60);
				let before = dir_snapshot(&dir);
				// losers: child processes and in-process attempts, concurrently
				let kids: Vec<Kid> = (0..rng.range(1, 4)).map(|_| spawn_kid(&dir, if rng.chance(1, 2) { "try" } else { "try-open" }, 0)).collect();
				for _ in 0..rng.range(1, 4) {
					match Db::open_or_create(&options(&dir, rng.chance(1, 2))) {
						Err(parity_db::Error::Locked(_)) => locked += 1,
						Ok(_) => problems.push("in-process open succeeded while another process holds the handle".into()),
						Err(e) => problems.push(format!("in-process open failed with {:?} instead of Locked", e)),
					}
				}
				for k in kids {
					match k.line(60).as_deref() {
						Some("locked") => locked += 1,
						other => problems.push(format!("child open while held reported {:?}", other)),
					}
					k.finish();
				}
				let after = dir_snapshot(&dir);
				if before != after {
					let changed: Vec<&String> =
						after.keys().chain(before.keys()).filter(|k| before.get(*k) != after.get(*k)).collect();
					problems.push(format!("failed opens changed the directory: {:?}", changed));
				}
				if scenario == "kill" {
					let _ = holder.child.kill(); // SIGKILL
					let _ = holder.child.wait();
				} else {
					holder.release();
					match holder.line(60).as_deref() {
						Some("dropped") => {},
						other => problems.push(format!("holder did not report the drop: {:?}", other)),
					}
					holder.finish();
				}
				match Db::open(&options(&dir, rng.chance(1, 2))) {
					Ok(db) => {
						ok_opens += 1;
						for i in 0..n {
							if db.get(0, &key_of(i)).unwrap() != Some(value_of(i, 300)) {
								problems.push(format!("key {} wrong after the holder went away", i));
								break
							}
						}
					},
					Err(e) => problems.push(format!("open after {} of the holder failed: {:?}", if scenario == "kill" { "kill -9" } else { "drop" }, e)),
				}
			},
			_ => {
				// recovery race: several processes open the same crash image at once
				let n = rng.range(10, 40);
				let big = if thorough { 600_000 } else { 200_000 };
				let mut r2 = rng.fork();
				let mut probe = r2.clone();
				let img = make_crash_image(root, seed, &mut r2, n, big);
				// recompute the value lengths chosen by make_crash_image (same rng stream)
				let mut lens = BTreeMap::new();
				let _enacted = probe.range(0, n / 2);
				for i in 0..n {
					let len = if i % 5 == 0 { big } else { probe.range(0, 2000) as usize };
					lens.insert(i, len);
				}
				let logs = std::fs::read_dir(&img).unwrap().flatten().filter(|e| e.file_name().to_string_lossy().starts_with("log")).count();
				ctr.add("recovery.pending_log_files", logs as u64);
				let racers = rng.range(2, 5);
				let mut kids: Vec<Kid> = (0..racers).map(|_| spawn_kid(&img, "hold", n)).collect();
				let mut winner: Option<usize> = None;
				for (i, k) in kids.iter().enumerate() {
					match k.line(120).as_deref() {
						Some("ok") => {
							ok_opens += 1;
							if winner.is_some() {
								problems.push("two racing opens of one crash image both succeeded".into());
							}
							winner = Some(i);
						},
						Some("locked") => locked += 1,
						other => problems.push(format!("racing open reported {:?}", other)),
					}
				}
				let mut expect = 0xcbf2_9ce4_8422_2325u64;
				for i in 0..n {
					let v = value_of(i, value_len_for(i, big, &lens));
					fnv(&mut expect, &[1]);
					fnv(&mut expect, &(v.len() as u64).to_le_bytes());
					fnv(&mut expect, &v);
				}
				match winner {
					None => problems.push("no racing open succeeded".into()),
					Some(w) => match kids[w].line(120) {
						Some(l) if l == format!("digest {:016x}", expect) => {},
						other => problems.push(format!("recovered content differs from the committed content: {:?} expected {:016x}", other, expect)),
					},
				}
				for k in kids.drain(..) {
					k.finish();
				}
				match Db::open(&options(&img, false)) {
					Ok(db) => {
						ok_opens += 1;
						if content_digest(&db, n) != expect {
							problems.push("content after the race and a clean reopen differs from the committed content".into());
						}
					},
					Err(e) => problems.push(format!("open after the race failed: {:?}", e)),
				}
				let _ = std::fs::remove_dir_all(&img);
			},
		}
		for p in &problems {
			t.oracle_fail(prop, &format!("scenario={} {}", scenario, p));
		}
		t.op(&format!("c18 {}", scenario), if problems.is_empty() { "ok" } else { "fail" });
		t.comment(&format!("ok_opens={} locked={}", ok_opens, locked));
		ctr.inc("cases");
		ctr.inc(&format!("scenario.{}", scenario));
		ctr.add("opens.ok", ok_opens);
		ctr.add("opens.locked", locked);
		if !problems.is_empty() {
			fails += 1;
		}
		t.end_case(locked > 0 && ok_opens > 0);
		let _ = std::fs::remove_dir_all(&dir);
	}
	fails
}
