/-
pdbdriver: line-protocol driver over the executable model.  One output line per input line.
See /verif/DESIGN.md section 4 (T1) and harness/src for the protocol.
-/
import Pdb.Model.Pipeline
import Pdb.Model.IndexPage
import Pdb.Model.Meta
import Pdb.Model.Wal
import Pdb.Model.Validate
import Pdb.Model.ValueTable
import Pdb.Model.Dur
import Pdb.Model.MultiTree
import Pdb.Model.Migrate
import Pdb.Model.BTree
import Pdb.Model.BTreeBatch
import Pdb.Model.BTreePipe
import Pdb.Model.BTreePhys
import Pdb.Model.Index
import Pdb.Model.DumpCheck
import Pdb.Model.DumpCheckRc
import Pdb.Model.C02xDriver
import Pdb.Model.C11Driver
import Pdb.Model.RefineRc
import Pdb.Model.Recover
import Pdb.Model.ConcReadDriver
import Pdb.Model.LockDir
import Pdb.Model.PhysRec
import Pdb.Model.PhysRecRc
import Pdb.Model.PhysRecV
import Pdb.Model.PhysRecD
import Pdb.Model.MultiTreePhys
import Pdb.Model.C02xTxDriver
import Pdb.Model.ConcSlotDriver
import Pdb.Model.Journal
import Pdb.Model.ValueIter

open Pdb

namespace Driver

abbrev K := String
abbrev V := String

structure P1 where
  kinds : Array Kind
  st : St K V
  btree : Array Bool   -- columns that are btree-indexed (same logical pipeline at P1)

def colOf (k : K) : Nat := ((k.splitOn ":").headD "").toNat!

def P1.kind (p : P1) (k : K) : Kind := p.kinds.getD (colOf k) .plain

def parseKind : String → Option Kind
  | "plain" => some .plain
  | "preimage" => some .preimage
  | "rc" => some .rc
  | _ => none

/-- value token `v<len>_<seed>`; length is the number after 'v'. -/
def tokLen (v : V) : Nat :=
  ((((v.drop 1).toString).splitOn "_").headD "").toNat!

def parseOp (w : String) : Option (Op K V) :=
  match w.splitOn ":" with
  | [c, "set", k, v] => some (.set (c ++ ":" ++ k) v)
  | [c, "del", k] => some (.deref (c ++ ":" ++ k))
  | [c, "ref", k] => some (.ref (c ++ ":" ++ k))
  | _ => none

def showOpt : Option String → String
  | some v => "some " ++ v
  | none => "none"

def p1Step (p : P1) (ws : List String) : P1 × String :=
  let kind := p.kind
  match ws with
  | "commit" :: ops =>
    match ops.mapM parseOp with
    | none => (p, "bad-op")
    | some tx =>
      let (s', r) := commit kind p.st tx
      ({ p with st := s' }, match r with
        | .ok => "ok"
        | .invalidInput => "err:InvalidInput"
        | .background => "err:Background")
  | ["process"] => ({ p with st := process kind p.st }, "ok")
  | ["flush"] => ({ p with st := flush p.st }, "ok")
  | ["enact"] => ({ p with st := enactOne p.st }, "ok")
  | ["enactall"] => ({ p with st := enactAll p.st.logged.length p.st }, "ok")
  | ["clean"] => (p, "ok")
  | ["reindex"] => (p, "ok")
  | ["reopen"] => ({ p with st := cleanReopen kind p.st }, "ok")
  | ["crashto", m] =>
    -- the implementation recovered to the prefix of length m; allowed iff the model has a
    -- crash (j, n) reaching it: nEnacted + flushed ≤ m ≤ nEnacted + logged.length
    match m.toNat? with
    | none => (p, "bad-op")
    | some m =>
      let s := p.st
      if s.nEnacted + s.flushed ≤ m ∧ m ≤ s.nEnacted + s.logged.length then
        ({ p with st := crashRecover s 0 (m - s.nEnacted) }, "ok")
      else (p, s!"err:crash-prefix-not-allowed lo={s.nEnacted + s.flushed} hi={s.nEnacted + s.logged.length}")
  | ["fail", j] =>
    match j.toNat? with
    | some j => ({ p with st := failStep p.st j }, "ok")
    | none => (p, "bad-op")
  | ["failreopen", m] =>
    -- reopen after a stored error: every record that reached the log files is replayed.  The
    -- record of a failing `process_commits` may or may not have reached the file completely.
    match m.toNat? with
    | none => (p, "bad-op")
    | some m =>
      let s := p.st
      let hi := s.nEnacted + s.logged.length
      if s.nEnacted + s.flushed ≤ m ∧ m ≤ hi then
        ({ p with st := crashRecover s 0 (m - s.nEnacted) }, "ok")
      else if m = hi + 1 ∧ !s.queue.isEmpty then
        let s1 := process kind { s with bgErr := false }
        ({ p with st := crashRecover s1 0 (m - s1.nEnacted) }, "ok")
      else (p, s!"err:reopen-prefix-not-allowed lo={s.nEnacted + s.flushed} hi={hi}")
  | ["get", c, k] => (p, showOpt (get p.st (c ++ ":" ++ k)))
  | ["size", c, k] => (p, showOpt ((getSize tokLen p.st (c ++ ":" ++ k)).map toString))
  | ["stages"] => (p, s!"queue={p.st.queue.length} logged={p.st.logged.length} flushed={p.st.flushed} enacted={p.st.nEnacted} hist={p.st.hist.length}")
  | _ => (p, "bad-op")

structure State where
  p1 : Option P1 := none
  c06 : Pdb.ValueTable.State := {}
  c10 : Pdb.MultiTree.DState := none
  c04 : Option Pdb.C04.Drv := none
  c04b : Option Pdb.C04.DrvB := none
  c04phys : Pdb.BTreePhys.State := {}
  c09 : Pdb.Index.DState := Pdb.Index.DState.init
  c02x : Pdb.C02xDriver.State := none
  c02xt : Pdb.C02xTxDriver.State := none
  physrec : Pdb.PhysRec.VState := {}
  mtphys : Pdb.MultiTreePhys.DState := none
  c05s : Pdb.CSlotDriver.State := none
  t3 : Pdb.T3.State := none
  c11 : Pdb.C11Driver.State := none
  lastTree : List String := []   -- tokens of the last `t2 tree` dump (reused by `c04b cursor load`)
  r5 : Pdb.RefineRc.DState := Pdb.RefineRc.DState.init
  p1r : Pdb.RecoverDriver.State := none   -- file-tracking wrapper around p1, fed every `p1` line
  c05 : Pdb.CRdDriver.State := none
  c18 : Pdb.LockDir.State := Pdb.LockDir.init

def stepLine (s : State) (line : String) : State × String :=
  let ws := (line.trimAscii.toString.splitOn " ").filter (· ≠ "")
  match ws with
  | "p1" :: "init" :: kinds =>
    match kinds.mapM parseKind with
    | some ks => ({ s with p1 := some { kinds := ks.toArray, st := St.init, btree := #[] },
                           p1r := Pdb.RecoverDriver.feed s.p1r ("init" :: kinds) }, "ok")
    | none => (s, "bad-op")
  | "p1" :: rest =>
    match s.p1 with
    | some p =>
      let (p', out) := p1Step p rest
      ({ s with p1 := some p', p1r := Pdb.RecoverDriver.feed s.p1r rest }, out)
    | none => (s, "bad-op")
  | "p1r" :: rest =>
    let (r, o) := Pdb.RecoverDriver.step s.p1r rest
    ({ s with p1r := r }, o)
  | "c19" :: rest => (s, Pdb.IndexPage.driverLine rest)
  | "c17" :: rest => (s, Pdb.C17.driverLine rest)
  | "c13" :: rest => (s, Pdb.Wal.driverLine rest)
  | "c08" :: rest => (s, Pdb.Validate.driverLine rest)
  | "c12" :: rest => (s, Pdb.Dur.driverLine rest)
  | "c20" :: rest => (s, Pdb.Migrate.driverLine rest)
  | "c09" :: rest =>
    let (d, out) := Pdb.Index.step s.c09 rest
    ({ s with c09 := d }, out)
  | "c04" :: rest =>
    let r := Pdb.C04.driverStep s.c04 rest
    ({ s with c04 := r.1 }, r.2)
  | "c04b" :: "cursor" :: rest =>
    -- `c04b cursor load` without arguments loads the dump of the last `t2 tree` line
    let args := if rest == ["load"] then "load" :: s.lastTree else rest
    let r := Pdb.C04.driverStep s.c04 ("cursor" :: args)
    ({ s with c04 := r.1 }, r.2)
  | "c04b" :: "phys" :: rest =>
    let (st', out) := Pdb.BTreePhys.step s.c04phys rest
    ({ s with c04phys := st' }, out)
  | "c04b" :: rest =>
    let r := Pdb.C04.driverStepB s.c04b rest
    ({ s with c04b := r.1 }, r.2)
  | "c10" :: rest =>
    let (c, o) := Pdb.MultiTree.step s.c10 rest
    ({ s with c10 := c }, o)
  | "c06" :: "t" :: rest =>
    match Pdb.ValueIter.c06Step s.c06 rest with
    | some out => (s, out)
    | none =>
      let (st', out) := Pdb.ValueTable.step s.c06 rest
      ({ s with c06 := st' }, out)
  | "c06" :: rest => (s, Pdb.ValueTable.driverLine rest)
  | "t2" :: "tree" :: rest =>
    ({ s with lastTree := rest }, Pdb.DumpCheck.driverLine ("tree" :: rest))
  | "t2" :: rest => (s, Pdb.DumpCheck.driverLine rest)
  | "t2rc" :: rest => (s, Pdb.DumpCheckRc.driverLine rest)
  | "c02x" :: rest =>
    let (c, o) := Pdb.C02xDriver.step s.c02x rest
    ({ s with c02x := c }, o)
  | "c02xt" :: rest =>
    let (c, o) := Pdb.C02xTxDriver.step s.c02xt rest
    ({ s with c02xt := c }, o)
  | "physrec" :: rest =>
    let (d, out) := Pdb.PhysRec.stepD s.physrec rest
    ({ s with physrec := d }, out)
  | "mtphys" :: rest =>
    let (d, out) := Pdb.MultiTreePhys.step s.mtphys rest
    ({ s with mtphys := d }, out)
  | "c05s" :: rest =>
    let (c, o) := Pdb.CSlotDriver.step s.c05s rest
    ({ s with c05s := c }, o)
  | "t3" :: rest =>
    let (c, o) := Pdb.T3.step s.t3 rest
    ({ s with t3 := c }, o)
  | "r5" :: rest =>
    match Pdb.ValueIter.r5Step s.r5 rest with
    | some out => (s, out)
    | none =>
      let (d, out) := Pdb.RefineRc.step s.r5 rest
      ({ s with r5 := d }, out)
  | "c11" :: rest =>
    let (c, o) := Pdb.C11Driver.step s.c11 rest
    ({ s with c11 := c }, o)
  | "c05" :: rest =>
    let (c, o) := Pdb.CRdDriver.step s.c05 rest
    ({ s with c05 := c }, o)
  | "c18" :: rest =>
    let (c, o) := Pdb.LockDir.step s.c18 rest
    ({ s with c18 := c }, o)
  | [] => (s, "")
  | _ => (s, "bad-op")

partial def loop (h : IO.FS.Stream) (out : IO.FS.Stream) (s : State) : IO Unit := do
  let line ← h.getLine
  if line.isEmpty then return ()
  let (s', o) := stepLine s line
  out.putStrLn o
  loop h out s'

end Driver

def main : IO Unit := do
  let stdin ← IO.getStdin
  let stdout ← IO.getStdout
  Driver.loop stdin stdout {}
