/-
C10: the dereference walk (`write_dereference_children_plan`) preserves the invariants,
never runs out of fuel and never fails.
-/
import Pdb.Proofs.C10Inv

namespace Pdb.MultiTree
set_option linter.unusedSectionVars false
variable {K D : Type} [DecidableEq K]

/-- Relation between the heap before (`h`) and after (`h'`) a walk that leaves `P` pending. -/
structure WalkOk (h h' : Heap K D) (P : List Addr) : Prop where
  shape : Shape h'
  counts : Counts h' P
  size : h'.nodes.size ≤ h.nodes.size
  roots : h'.roots = h.roots
  next : h'.next = h.next
  /-- nodes are only removed, never rewritten -/
  sub : ∀ b n, h'.nodes.get b = some n → h.nodes.get b = some n

theorem WalkOk.trans {h h1 h2 : Heap K D} {P Q : List Addr} (w1 : WalkOk h h1 P)
    (w2 : WalkOk h1 h2 Q) : WalkOk h h2 Q where
  shape := w2.shape
  counts := w2.counts
  size := Nat.le_trans w2.size w1.size
  roots := by rw [w2.roots, w1.roots]
  next := by rw [w2.next, w1.next]
  sub := fun b n hg => w1.sub b n (w2.sub b n hg)

/-- `decRef` on a pending address that has a table entry: the count drops by one. -/
theorem decRef_remains (h : Heap K D) (hs : Shape h) (a : Addr) (P : List Addr)
    (hc : Counts h (a :: P)) (c : Nat) (hr : h.rc.get a = some c) :
    decRef h a = (true, { h with rc := h.rc.set a (if c - 1 > 1 then some (c - 1) else none) }) ∧
    WalkOk h { h with rc := h.rc.set a (if c - 1 > 1 then some (c - 1) else none) } P := by
  refine ⟨by simp only [decRef, hr], ?_⟩
  have hc2 := (hc.rcEntries a c hr).1
  exact {
    shape := ⟨hs.wfN, FMap.WF_set _ hs.wfRc _ _, hs.wfRoots, hs.acyclic, hs.closedN, hs.closedR,
      hs.rootPos⟩
    counts := {
      rcEntries := by
        intro b c' hg
        simp only [FMap.get_set] at hg
        split at hg
        · subst b
          split at hg
          · simp only [Option.some.injEq] at hg
            exact ⟨by omega, (hc.rcEntries a c hr).2⟩
          · cases hg
        · exact hc.rcEntries b c' hg
      rcEq := by
        intro b hb
        have := hc.rcEq b hb
        have hrefs : refs { h with rc := h.rc.set a (if c - 1 > 1 then some (c - 1) else none) } b =
          refs h b := rfl
        rw [hrefs]
        simp only [Heap.count, FMap.get_set] at this ⊢
        by_cases hba : b = a
        · subst hba
          simp only [hr, Option.getD_some, List.count_cons_self] at this
          simp only [if_true]
          split
          · simp only [Option.getD_some]; omega
          · simp only [Option.getD_none]; omega
        · have hne : (a == b) = false := by simp; exact fun e => hba e.symm
          rw [List.count_cons, hne] at this
          simp only [Bool.false_eq_true, if_false, Nat.add_zero] at this
          simp only [hba, if_false]
          exact this
      pend := fun b hb => hc.pend b (List.mem_cons_of_mem _ hb) }
    size := Nat.le_refl _
    roots := rfl
    next := rfl
    sub := fun _ _ hg => hg }

/-- `decRef` on a pending address without a table entry: that was the last reference; the node
    is freed and its child references become pending. -/
theorem decRef_freed (h : Heap K D) (hs : Shape h) (a : Addr) (P : List Addr)
    (hc : Counts h (a :: P)) (hr : h.rc.get a = none) :
    ∃ n, h.nodes.get a = some n ∧
      decRef h a = (false, { h with nodes := h.nodes.set a none }) ∧
      WalkOk h { h with nodes := h.nodes.set a none } (n.children ++ P) ∧
      ({ h with nodes := h.nodes.set a none } : Heap K D).nodes.size < h.nodes.size := by
  have hpa : present h a := hc.pend a (by simp)
  obtain ⟨n, hn⟩ := (present_iff h a).mp hpa
  refine ⟨n, hn, by simp only [decRef, hr], ?_, FMap.size_set_none_lt _ _ _ hn⟩
  have heq := hc.rcEq a hpa
  simp only [Heap.count, hr, Option.getD_none, List.count_cons_self, refs] at heq
  have hnr : nodeRefs h a = 0 := by omega
  have hrr : rootRefs h a = 0 := by omega
  have hPa : P.count a = 0 := by omega
  have hsum : ∀ b, nodeRefs { h with nodes := h.nodes.set a none } b + n.children.count b =
      nodeRefs h b := by
    intro b
    have := FMap.sum_set h.nodes hs.wfN a none (fun n => n.children.count b)
    simp only [hn, Option.map_some, Option.getD_some, Option.map_none, Option.getD_none] at this
    simp only [nodeRefs]
    omega
  have hkeep : ∀ b, b ≠ a → present h b → present { h with nodes := h.nodes.set a none } b := by
    intro b hba hb
    simp only [present, FMap.get_set, hba, if_false]
    exact hb
  exact {
    shape := {
      wfN := FMap.WF_set _ hs.wfN _ _
      wfRc := hs.wfRc
      wfRoots := hs.wfRoots
      acyclic := by
        intro b m hg c hcm
        simp only [FMap.get_set] at hg
        split at hg
        · cases hg
        · exact hs.acyclic b m hg c hcm
      closedN := by
        intro b m hg c hcm
        simp only [FMap.get_set] at hg
        split at hg
        · cases hg
        · apply hkeep c _ (hs.closedN b m hg c hcm)
          intro hca
          subst hca
          have h1 := FMap.le_sum h.nodes b m (fun n => n.children.count c) hg
          have h2 : 0 < m.children.count c := List.count_pos_iff.mpr hcm
          simp only [nodeRefs] at hnr
          omega
      closedR := by
        intro k e hg c hce
        apply hkeep c _ (hs.closedR k e hg c hce)
        intro hca
        subst hca
        have h1 := FMap.le_sum h.roots k e (fun e => e.1.children.count c) hg
        have h2 : 0 < e.1.children.count c := List.count_pos_iff.mpr hce
        simp only [rootRefs] at hrr
        omega
      rootPos := hs.rootPos }
    counts := {
      rcEntries := by
        intro b c hg
        have := hc.rcEntries b c hg
        refine ⟨this.1, hkeep b ?_ this.2⟩
        intro hba; subst hba
        have hg' : h.rc.get b = some c := hg
        rw [hr] at hg'; cases hg'
      rcEq := by
        intro b hb
        have hba : b ≠ a := by
          intro e; subst e
          simp [present, FMap.get_set] at hb
        have hb' : present h b := by
          simp only [present, FMap.get_set, hba, if_false] at hb
          exact hb
        have := hc.rcEq b hb'
        have hne : (a == b) = false := by simp; exact fun e => hba e.symm
        rw [List.count_cons, hne] at this
        simp only [Bool.false_eq_true, if_false, Nat.add_zero] at this
        have hsb := hsum b
        have hcnt : Heap.count { h with nodes := h.nodes.set a none } b = Heap.count h b := rfl
        have hroot : rootRefs { h with nodes := h.nodes.set a none } b = rootRefs h b := rfl
        simp only [refs, List.count_append] at this ⊢
        omega
      pend := by
        intro b hb
        simp only [List.mem_append] at hb
        rcases hb with hb | hb
        · have hlt := hs.acyclic a n hn b hb
          exact hkeep b (by omega) (hs.closedN a n hn b hb)
        · apply hkeep b _ (hc.pend b (List.mem_cons_of_mem _ hb))
          intro e; subst e
          have : 0 < P.count b := List.count_pos_iff.mpr hb
          omega }
    size := FMap.size_set_none_le _ _
    roots := rfl
    next := rfl
    sub := by
      intro b m hg
      simp only [FMap.get_set] at hg
      split at hg
      · cases hg
      · exact hg }

/-- The whole walk: with `cs ++ P` pending and fuel above the number of present nodes it
    succeeds and leaves `P` pending. -/
theorem derefChildren_ok : ∀ (fuel : Nat) (cs : List Addr) (h : Heap K D) (P : List Addr),
    Shape h → Counts h (cs ++ P) → h.nodes.size < fuel →
    ∃ h', derefChildren fuel h cs = .ok h' ∧ WalkOk h h' P
  | 0, _, _, _, _, _, hf => by omega
  | fuel + 1, cs, h, P, hs, hc, hf => by
    simp only [derefChildren]
    induction cs generalizing h with
    | nil =>
      exact ⟨h, rfl, ⟨hs, by simpa using hc, Nat.le_refl _, rfl, rfl, fun _ _ hg => hg⟩⟩
    | cons a rest ih =>
      simp only [List.foldlM_cons]
      have hc' : Counts h (a :: (rest ++ P)) := by simpa using hc
      -- one step
      have hstep : ∃ h2, derefStep (derefChildren fuel) h a = .ok h2 ∧ WalkOk h h2 (rest ++ P) := by
        cases hr : h.rc.get a with
        | some c =>
          obtain ⟨e, w⟩ := decRef_remains h hs a (rest ++ P) hc' c hr
          exact ⟨_, by simp only [derefStep, e], w⟩
        | none =>
          obtain ⟨n, hn, e, w, hsz⟩ := decRef_freed h hs a (rest ++ P) hc' hr
          have hf1 : ({ h with nodes := h.nodes.set a none } : Heap K D).nodes.size < fuel := by omega
          obtain ⟨h2, e2, w2⟩ := derefChildren_ok fuel n.children _ (rest ++ P) w.shape w.counts hf1
          refine ⟨h2, ?_, w.trans w2⟩
          simp only [derefStep, e, hn, Option.map_some]
          exact e2
      obtain ⟨h2, e2, w2⟩ := hstep
      have hf2 : h2.nodes.size < fuel + 1 := by have := w2.size; omega
      obtain ⟨h3, e3, w3⟩ := ih h2 w2.shape w2.counts hf2
      refine ⟨h3, ?_, w2.trans w3⟩
      rw [e2]
      exact e3

end Pdb.MultiTree
