/-
C15 helper lemmas (5): the numeric invariants - byte accounting of the log queue, the
throttles (a parked waiter that was not notified still has its reason to wait).
-/
import Pdb.Proofs.C15Run

namespace Pdb.Conc.Pipe

theorem foldl_add (l : List Nat) (a : Nat) : l.foldl (· + ·) a = a + l.foldl (· + ·) 0 := by
  induction l generalizing a with
  | nil => simp
  | cons x l ih => simp only [List.foldl_cons]; rw [ih (a + x), ih (0 + x)]; omega

theorem sum_cons (b : Nat) (l : List Nat) : sum (b :: l) = b + sum l := by
  unfold sum; simp only [List.foldl_cons]; rw [foldl_add]; omega

theorem sum_append (l : List Nat) (b : Nat) : sum (l ++ [b]) = sum l + b := by
  unfold sum; simp [List.foldl_append]

def sumsum (l : List (List Nat)) : Nat := sum (l.map sum)
def sumOpt : Option (List Nat) → Nat
  | some f => sum f
  | none => 0

@[simp] theorem sumsum_nil : sumsum [] = 0 := rfl
theorem sumsum_cons (f : List Nat) (l : List (List Nat)) : sumsum (f :: l) = sum f + sumsum l := by
  unfold sumsum; simp [sum_cons]
theorem sumsum_append (l : List (List Nat)) (f : List Nat) : sumsum (l ++ [f]) = sumsum l + sum f := by
  unfold sumsum; simp [sum_append]

/-- bytes written to the appending file whose `logged_bytes +=` is still to come -/
def pendL : LPc → Nat
  | .write2 b => recSz b
  | _ => 0

def unnot : Cm → Bool
  | .about _ => true
  | .parked _ false => true
  | _ => false

def lE23 : LPc → Bool
  | .err .e2 | .err .e3 => true
  | _ => false
def fE23 : FPc → Bool
  | .err .e2 | .err .e3 => true
  | _ => false
def cE23 : CPc → Bool
  | .err .e2 | .err .e3 => true
  | _ => false
def kE23 : KPc → Bool
  | .err .e2 | .err .e3 => true
  | _ => false

/-- the log worker waits (or is about to wait) on the log-queue throttle and has not been
    notified: the queue is still above its limit -/
def RLQ (pl : LPc) (lqn : Bool) (logq : Int) : Prop :=
  (pl = .lqAbout ∨ (pl = .lqParked ∧ lqn = false)) → logq > (MAXL : Int)
/-- byte accounting: `log_queue_wait.work` = bytes appended + flushed-unread + being read -/
def RACC (logq : Int) (pl : LPc) (app : List Nat) (readQ : List (List Nat)) (reading : Option (List Nat)) : Prop :=
  logq + (pendL pl : Int) = ((sum app + sumsum readQ + sumOpt reading : Nat) : Int)
/-- a committer waits (or is about to) on the queue-full throttle, not notified: the queue is
    still above its limit -/
def RQ (cms : List Cm) (q : List Nat) : Prop := (∃ c ∈ cms, unnot c = true) → sum q > MAXQ
/-- ... and no error has been stored, unless the failing worker's notify_all is still to come -/
def Q2 (be : Bool) (cms : List Cm) (pl : LPc) (pf : FPc) (pc : CPc) (pk : KPc) : Prop :=
  be = true → (∃ c ∈ cms, unnot c = true) → lE23 pl = true ∨ fE23 pf = true ∨ cE23 pc = true ∨ kE23 pk = true

structure GN (s : St) : Prop where
  rlq : RLQ s.pl s.lqNotified s.logq
  racc : RACC s.logq s.pl s.app s.readQ s.reading
  rq : RQ s.cms s.q

theorem curFile_total {s : St} {f : List Nat} {rq : List (List Nat)} (h : curFile s = (some f, rq)) :
    sumsum s.readQ + sumOpt s.reading = sum f + sumsum rq := by
  rcases curFile_some h with ⟨h1, h2⟩ | ⟨h1, h2⟩
  · rw [h1, h2]; simp [sumOpt]; omega
  · rw [h1, h2, sumsum_cons]; simp [sumOpt]

theorem unnot_wake (c : Cm) (hc : c.isAbout = false) : unnot c.wake = false := by
  cases c with
  | idle => rfl
  | about b => simp [Cm.isAbout] at hc
  | parked b n => rfl

theorem no_unnot_after_notifyAll {cms : List Cm} (hq : cms.all (fun c => !c.isAbout) = true) :
    ¬ ∃ c ∈ cms.map Cm.wake, unnot c = true := by
  rintro ⟨c, hc, hu⟩
  simp only [List.mem_map] at hc
  obtain ⟨c0, hc0, rfl⟩ := hc
  have := List.all_eq_true.1 hq c0 hc0
  rw [unnot_wake c0 (by simpa using this)] at hu
  cases hu

theorem unnot_of_wake {cms : List Cm} (h : ∃ c ∈ cms.map Cm.wake, unnot c = true) : ∃ c ∈ cms, unnot c = true := by
  obtain ⟨c, hc, hu⟩ := h
  simp only [List.mem_map] at hc
  obtain ⟨c0, hc0, rfl⟩ := hc
  refine ⟨c0, hc0, ?_⟩
  cases c0 with
  | idle => exact hu
  | about b => rfl
  | parked b n => cases n <;> simp_all [Cm.wake, unnot]

theorem unnot_of_set {cms : List Cm} {i : Nat} {x : Cm} (h : ∃ c ∈ cms.set i x, unnot c = true) :
    unnot x = true ∨ ∃ c ∈ cms, unnot c = true := by
  obtain ⟨c, hc, hu⟩ := h
  rcases List.mem_or_eq_of_mem_set hc with h1 | h1
  · exact Or.inr ⟨c, h1, hu⟩
  · subst h1; exact Or.inl hu

macro "gnsimp" : tactic => `(tactic|
  simp_all [RLQ, RACC, pendL, sum_append, sum_cons, sumsum_append, sumsum_cons, sumOpt, recSz])

macro "gnfin" : tactic => `(tactic| (
  first
  | (cases ‹_ = some _›; done)
  | (cases ‹_ = some _›
     constructor <;> dsimp only <;>
       (first | assumption
              | (gnsimp; first | done | assumption | omega | grind)))))

theorem gn_reindexStep {s : St} (hI : GN s) (hp : s.pl = .loop) : GN (reindexStep s) := by
  obtain ⟨rlq, racc, rq⟩ := hI
  unfold reindexStep
  split
  · split
    · constructor <;> dsimp only <;> (first | assumption | (gnsimp; first | done | omega))
    · constructor <;> dsimp only <;> (first | assumption | (gnsimp; first | done | omega))
  · constructor <;> dsimp only <;> (first | assumption | (gnsimp; first | done | omega))

theorem gn_lqNotify {s : St} (hI : GN s) : GN (lqNotify s) := by
  obtain ⟨rlq, racc, rq⟩ := hI
  unfold lqNotify; split
  · constructor <;> dsimp only <;> (first | assumption | (gnsimp; done))
  · exact ⟨rlq, racc, rq⟩

theorem gn_notifyAllCm {s : St} (hI : GN s) : GN (notifyAllCm s) := by
  obtain ⟨rlq, racc, rq⟩ := hI
  refine ⟨rlq, racc, ?_⟩
  intro h
  exact rq (unnot_of_wake h)

theorem gn_sdNotify (cfg : Cfg) {s : St} (hI : GN s) : GN (sdNotify cfg s) := by
  have := gn_lqNotify hI
  obtain ⟨rlq, racc, rq⟩ := this
  unfold sdNotify
  exact ⟨rlq, racc, rq⟩

theorem gn_errStep {cfg : Cfg} {s s1 : St} {e : ETail} {n : Option ETail} (hI : GN s)
    (he : errStep cfg s e = some (s1, n)) : GN s1 := by
  cases e with
  | e1 =>
    simp only [errStep] at he
    split at he <;> (cases he; exact ⟨hI.rlq, hI.racc, hI.rq⟩)
  | e2 =>
    simp only [errStep] at he
    split at he
    · cases he
    · cases he; exact gn_sdNotify cfg hI
  | e3 =>
    simp only [errStep] at he
    split at he
    · cases he
    · cases he; exact gn_notifyAllCm hI

set_option maxHeartbeats 1600000 in
theorem gn_tickL {cfg : Cfg} {s s' : St} (hI : GN s) (h : tickL cfg s = some s') : GN s' := by
  have hI0 := hI
  obtain ⟨rlq, racc, rq⟩ := hI
  unfold tickL at h
  split at h
  · cases h
    apply gn_reindexStep _ rfl
    constructor <;> dsimp only <;> (first | assumption | (gnsimp; done))
  · split at h
    · split at h <;> gnfin
    · gnfin
  · split at h <;> gnfin
  · split at h <;> gnfin
  · gnfin
  · split at h <;> gnfin
  · split at h
    · rename_i hqf
      split at h
      · gnfin
      · rename_i hpl _ b q' hq
        cases h
        have rlq' : RLQ (.write1 b) s.lqNotified s.logq := by simp [RLQ]
        have racc' : RACC s.logq (.write1 b) s.app s.readQ s.reading := by
          simpa [RACC, pendL, hpl] using racc
        split
        · exact ⟨rlq', racc', fun hex => absurd hex (no_unnot_after_notifyAll hqf)⟩
        · rename_i hcross
          refine ⟨rlq', racc', ?_⟩
          intro hex
          have := rq hex
          rw [hq, sum_cons] at this
          simp at hcross
          show sum q' > MAXQ
          omega
    · gnfin
  · gnfin
  · gnfin
  · cases h
    apply gn_reindexStep _ rfl
    constructor <;> dsimp only <;> (first | assumption | (gnsimp; done))
  · gnfin
  · obtain ⟨⟨s1, n⟩, he, hs⟩ := map_some h
    subst hs
    have := gn_errStep hI0 he
    obtain ⟨b1, b2, b3⟩ := this
    rename_i e hp
    have hpl : s1.pl = s.pl := by
      cases e <;> simp only [errStep] at he <;> split at he <;> cases he <;> (try rfl)
      · unfold sdNotify lqNotify; split <;> rfl
    constructor <;> dsimp only <;> (first | assumption | skip)
    · rw [hpl, hp] at b1; cases n <;> simpa [RLQ] using b1
    · rw [hpl, hp] at b2; cases n <;> simpa [RACC, pendL] using b2
  · gnfin

/-- error tail of the other three workers: the log worker's pc is untouched -/
theorem gn_err_other {cfg : Cfg} {s s1 : St} {e : ETail} {n : Option ETail} (hI : GN s)
    (he : errStep cfg s e = some (s1, n)) : GN s1 ∧ s1.pl = s.pl := by
  refine ⟨gn_errStep hI he, ?_⟩
  cases e <;> simp only [errStep] at he <;> split at he <;> cases he <;> (try rfl)
  · unfold sdNotify lqNotify; split <;> rfl

set_option maxHeartbeats 1600000 in
theorem gn_tickF {cfg : Cfg} {s s' : St} (hI : GN s) (h : tickF cfg s = some s') : GN s' := by
  have hI0 := hI
  obtain ⟨rlq, racc, rq⟩ := hI
  unfold tickF at h
  split at h
  · split at h
    · split at h <;> gnfin
    · gnfin
  · split at h <;> gnfin
  · split at h <;> gnfin
  · gnfin
  · obtain ⟨⟨s1, n⟩, he, hs⟩ := map_some h
    subst hs
    obtain ⟨⟨b1, b2, b3⟩, _⟩ := gn_err_other hI0 he
    exact ⟨b1, b2, b3⟩
  · gnfin

set_option maxHeartbeats 1600000 in
theorem gn_tickC {cfg : Cfg} {s s' : St} (hI : GN s) (h : tickC cfg s = some s') : GN s' := by
  have hI0 := hI
  obtain ⟨rlq, racc, rq⟩ := hI
  unfold tickC at h
  split at h
  · split at h
    · split at h <;> gnfin
    · gnfin
  · gnfin
  · split at h <;> gnfin
  · split at h <;> gnfin
  · split at h
    · gnfin
    · rename_i rq' hcf
      have ht := curFile_total hcf
      cases h
      refine ⟨rlq, ?_, rq⟩
      have h0 : sumOpt (none : Option (List Nat)) = 0 := rfl
      simp only [sum_nil] at ht
      simp only [RACC, h0] at racc ⊢
      omega
    · rename_i r rs rq' hcf
      have ht := curFile_total hcf
      rw [sum_cons] at ht
      split at h
      · rename_i hfree
        cases h
        have hnab : s.pl ≠ .lqAbout := by simpa [lqFree] using hfree
        have racc' : RACC (s.logq - (r : Int)) s.pl s.app rq' (some rs) := by
          have h1 : sumOpt (some rs) = sum rs := rfl
          simp only [RACC, h1] at racc ⊢
          omega
        split
        · rename_i hcross
          -- crossing downwards: a parked log worker is notified by `lqNotify`
          unfold lqNotify
          split
          · rename_i hpar
            refine ⟨?_, racc', rq⟩
            intro hw
            simp only [] at hpar
            rcases hw with hw | ⟨_, hw⟩
            · exact absurd hw hnab
            · cases hw
          · rename_i hpar
            refine ⟨?_, racc', rq⟩
            intro hw
            simp only [] at hpar
            rcases hw with hw | ⟨hw, _⟩
            · exact absurd hw hnab
            · exact absurd hw hpar
        · rename_i hcross
          refine ⟨?_, racc', rq⟩
          intro hw
          have := rlq hw
          simp at hcross
          show (MAXL : Int) < s.logq - (r : Int)
          omega
      · gnfin
  · split at h <;> gnfin
  · split at h <;> gnfin
  · obtain ⟨⟨s1, n⟩, he, hs⟩ := map_some h
    subst hs
    obtain ⟨⟨b1, b2, b3⟩, _⟩ := gn_err_other hI0 he
    exact ⟨b1, b2, b3⟩
  · gnfin

set_option maxHeartbeats 1600000 in
theorem gn_tickK {cfg : Cfg} {s s' : St} (hI : GN s) (h : tickK cfg s = some s') : GN s' := by
  have hI0 := hI
  obtain ⟨rlq, racc, rq⟩ := hI
  unfold tickK at h
  split at h
  · split at h
    · split at h <;> gnfin
    · gnfin
  · split at h <;> gnfin
  · split at h <;> gnfin
  · gnfin
  · obtain ⟨⟨s1, n⟩, he, hs⟩ := map_some h
    subst hs
    obtain ⟨⟨b1, b2, b3⟩, _⟩ := gn_err_other hI0 he
    exact ⟨b1, b2, b3⟩
  · gnfin

/-- the sequential pieces run when the log worker has exited and no committer is active -/
structure Quiet (s : St) : Prop where
  pl : s.pl = .done
  cms : ∀ c ∈ s.cms, c = .idle

theorem quiet_ctlEq {s s' : St} (h : Quiet s) (e : CtlEq s s') : Quiet s' :=
  ⟨by rw [e.pl]; exact h.pl, by rw [e.cms]; exact h.cms⟩

theorem rlq_quiet {s : St} (h : Quiet s) : RLQ s.pl s.lqNotified s.logq := by
  intro hw; rw [h.pl] at hw; simp at hw
theorem rq_quiet {s : St} (h : Quiet s) : RQ s.cms s.q := by
  rintro ⟨c, hc, hu⟩; rw [h.cms c hc] at hu; cases hu

theorem racc_seqEnactOnce {cfg : Cfg} {s s1 : St} {b : Bool} (hq : Quiet s)
    (hr : RACC s.logq s.pl s.app s.readQ s.reading) (h : seqEnactOnce cfg s = some (s1, b)) :
    RACC s1.logq s1.pl s1.app s1.readQ s1.reading := by
  unfold seqEnactOnce at h
  split at h
  · cases h; exact hr
  · rename_i rq' hcf
    have ht := curFile_total hcf
    cases h
    have h0 : sumOpt (none : Option (List Nat)) = 0 := rfl
    simp only [sum_nil] at ht
    simp only [RACC, h0] at hr ⊢
    omega
  · rename_i r rs rq' hcf
    have ht := curFile_total hcf
    rw [sum_cons] at ht
    simp only at h
    split at h
    · cases h
    · cases h
      have h1 : sumOpt (some rs) = sum rs := rfl
      simp only [RACC, h1] at hr ⊢
      omega

theorem gn_seqEnactLoop {cfg : Cfg} : ∀ (n : Nat) {s s' : St}, Quiet s → GN s →
    seqEnactLoop cfg n s = some s' → GN s'
  | 0, s, s', _, hI, h => by simp [seqEnactLoop] at h; subst h; exact hI
  | n + 1, s, s', hq, hI, h => by
    simp only [seqEnactLoop] at h
    split at h
    · cases h
    · rename_i s1 he
      have hq1 := quiet_ctlEq hq (ctlEq_seqEnactOnce he)
      exact gn_seqEnactLoop n hq1 ⟨rlq_quiet hq1, racc_seqEnactOnce hq hI.racc he, rq_quiet hq1⟩ h
    · rename_i s1 he
      cases h
      have hq1 := quiet_ctlEq hq (ctlEq_seqEnactOnce he)
      exact ⟨rlq_quiet hq1, racc_seqEnactOnce hq hI.racc he, rq_quiet hq1⟩

theorem gn_seqFlush0 {s : St} (hq : Quiet s) (hI : GN s) : GN (seqFlush0 s) := by
  have hq1 := quiet_ctlEq hq (ctlEq_seqFlush0 s)
  refine ⟨rlq_quiet hq1, ?_, rq_quiet hq1⟩
  have hr := hI.racc
  unfold seqFlush0
  split
  · simp only [RACC, sumsum_append, sum_nil] at hr ⊢; omega
  · exact hr

theorem gn_seqProcessOnce {s : St} (hq : Quiet s) (hI : GN s) : GN (seqProcessOnce s).1 := by
  have hq1 := quiet_ctlEq hq (ctlEq_seqProcessOnce s)
  refine ⟨rlq_quiet hq1, ?_, rq_quiet hq1⟩
  have hr := hI.racc
  unfold seqProcessOnce
  split
  · exact hr
  · simp only [RACC, sum_append] at hr ⊢; omega

theorem gn_seqProcessLoop : ∀ (n : Nat) {s : St}, Quiet s → GN s → GN (seqProcessLoop n s)
  | 0, s, _, hI => by simpa [seqProcessLoop] using hI
  | n + 1, s, hq, hI => by
    simp only [seqProcessLoop]
    split
    · exact gn_seqProcessLoop n (quiet_ctlEq hq (ctlEq_seqProcessOnce s)) (gn_seqProcessOnce hq hI)
    · exact hI

theorem gn_killLogsSeq {cfg : Cfg} {s s' : St} (hq : Quiet s) (hI : GN s) (h : killLogsSeq cfg s = some s') :
    GN s' := by
  unfold killLogsSeq at h
  split at h
  · cases h; exact ⟨hI.rlq, hI.racc, hI.rq⟩
  · obtain ⟨s1, h1, h⟩ := bind_some h
    have q1 := quiet_ctlEq hq (ctlEq_seqEnactLoop _ h1)
    have i1 := gn_seqEnactLoop _ hq hI h1
    have q2 := quiet_ctlEq q1 (ctlEq_seqFlush0 s1)
    have i2 := gn_seqFlush0 q1 i1
    have q3 := quiet_ctlEq q2 (ctlEq_seqProcessLoop (fuel s1) _)
    have i3 := gn_seqProcessLoop (fuel s1) q2 i2
    split at h
    · cases h
    obtain ⟨s4, h4, h⟩ := bind_some h
    have q4 := quiet_ctlEq q3 (ctlEq_seqEnactLoop _ h4)
    have i4 := gn_seqEnactLoop _ q3 i3 h4
    have q5 := quiet_ctlEq q4 (ctlEq_seqFlush0 s4)
    have i5 := gn_seqFlush0 q4 i4
    obtain ⟨s6, h6, h⟩ := bind_some h
    have i6 := gn_seqEnactLoop _ q5 i5 h6
    cases h
    exact ⟨i6.rlq, i6.racc, i6.rq⟩

set_option maxHeartbeats 1600000 in
theorem gn_tickD {cfg : Cfg} {s s' : St} (hG : G1 s) (hI : GN s) (h : tickD cfg s = some s') : GN s' := by
  have hI0 := hI
  obtain ⟨rlq, racc, rq⟩ := hI
  unfold tickD at h
  split at h
  · gnfin
  · gnfin
  · split at h
    · gnfin
    · cases h
      have := gn_sdNotify cfg hI0
      exact ⟨this.rlq, this.racc, this.rq⟩
  · split at h <;> gnfin
  · split at h <;> gnfin
  · split at h <;> gnfin
  · split at h <;> gnfin
  · rename_i hp
    obtain ⟨s1, he, hs⟩ := map_some h
    subst hs
    have hq : Quiet s := ⟨hG.a9.1 (by rw [hp]; decide), hG.a1 (by rw [hp]; simp)⟩
    have := gn_killLogsSeq hq hI0 he
    exact ⟨this.rlq, this.racc, this.rq⟩
  · gnfin
  · gnfin
  · gnfin

theorem gn_commitFinish {s : St} (hI : GN s) (i b : Nat) : GN (commitFinish s i b) := by
  obtain ⟨rlq, racc, rq⟩ := hI
  unfold commitFinish setCm
  split
  · refine ⟨rlq, racc, ?_⟩
    intro hex
    rcases unnot_of_set hex with h1 | h1
    · cases h1
    · exact rq h1
  · refine ⟨rlq, racc, ?_⟩
    intro hex
    show sum (s.q ++ [b]) > MAXQ
    rw [sum_append]
    rcases unnot_of_set hex with h1 | h1
    · cases h1
    · have := rq h1; omega

theorem gn_tickCm {s s' : St} {i : Nat} (hI : GN s) (h : tickCm s i = some s') : GN s' := by
  unfold tickCm at h
  split at h
  · rename_i b hc
    cases h
    refine ⟨hI.rlq, hI.racc, ?_⟩
    intro hex
    apply hI.rq
    rcases unnot_of_set hex with h1 | h1
    · exact ⟨_, List.mem_of_getElem? hc, rfl⟩
    · exact h1
  · split at h
    · cases h; exact gn_commitFinish hI _ _
    · cases h
  · cases h

theorem gn_init (cfg : Cfg) (n r : Nat) : GN (init cfg n r) := by
  have hrep : ∀ c ∈ List.replicate n Cm.idle, c = Cm.idle := fun c hc => (List.mem_replicate.1 hc).2
  unfold init
  split <;> (refine ⟨by simp [RLQ], by simp [RACC, pendL, sumOpt], ?_⟩ <;>
    (rintro ⟨c, hc, hu⟩; rw [hrep c hc] at hu; cases hu))

set_option maxHeartbeats 800000 in
theorem gn_step {cfg : Cfg} (hw : cfg.workers = true) {s s' : St} {a : Act} (hnp : a.isPanic = false) (hG : G1 s)
    (hI : GN s) (h : step cfg s a = some s') : GN s' := by
  cases a with
  | tick t =>
    cases t
    · exact gn_tickL hI h
    · exact gn_tickF hI h
    · exact gn_tickC hI (tickCg_some h)
    · exact gn_tickK hI h
    · exact gn_tickD hG hI h
  | cmTick i => exact gn_tickCm hI h
  | commit i b =>
    simp only [step] at h
    split at h
    · split at h
      · rename_i hwait
        cases h
        refine ⟨hI.rlq, hI.racc, ?_⟩
        intro _
        simp at hwait
        exact hwait.1.2
      · cases h; exact gn_commitFinish hI _ _
    · cases h
  | drop =>
    simp only [step] at h
    split at h
    · cases h; exact ⟨hI.rlq, hI.racc, hI.rq⟩
    · cases h
  | fail t =>
    obtain ⟨rlq, racc, rq⟩ := hI
    cases t
    · simp only [step, hw, if_true] at h
      split at h <;> gnfin
    · simp only [step] at h
      split at h <;> gnfin
    · simp only [step] at h
      split at h <;> gnfin
    · simp only [step] at h
      split at h <;> gnfin
    · simp only [step] at h
      cases h
  | apiProcess => simp [step, hw] at h
  | apiFlush => simp [step, hw] at h
  | apiEnact => simp [step, hw] at h
  | apiClean => simp [step, hw] at h
  | defer =>
    obtain ⟨rlq, racc, rq⟩ := hI
    simp only [step] at h
    split at h
    · split at h
      · rename_i b hp
        cases h
        refine ⟨by simp [RLQ], by simpa [RACC, pendL, hp] using racc, ?_⟩
        intro hex
        have := rq hex
        show sum (s.q ++ [b]) > MAXQ
        rw [sum_append]; omega
      · cases h
    · cases h
  | panic t => cases hnp
  | iterHold | iterRelease | dropEnacted k | makeCycle =>
    simp only [step] at h
    split at h
    · cases h; exact ⟨hI.rlq, hI.racc, hI.rq⟩
    · cases h
  | lockTree | unlockTree =>
    simp only [step] at h
    cases h; exact ⟨hI.rlq, hI.racc, hI.rq⟩
  | grow k =>
    simp only [step] at h
    split at h
    · cases h; exact ⟨hI.rlq, hI.racc, hI.rq⟩
    · split at h
      · cases h; exact ⟨hI.rlq, hI.racc, hI.rq⟩
      · cases h
    · cases h

end Pdb.Conc.Pipe
