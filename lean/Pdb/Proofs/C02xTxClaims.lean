/-
C02xTx: whose claims a header after-image covers.

`laterCs c i` are the change sets of the accepted transactions behind the first `i` logged records,
in commit order: the logged records from index `i` on, then the queue - exactly the transactions
a crash that keeps `i` logged records LOSES.  `ClaimsInv`: the ghost `claims` of every logged
record (and of the enacted base) are the slots claimed by the first `nq` of the transactions
behind it (`nq` = how many commits were queued when the record was published).  Purely structural:
holds of every reachable state, no legality needed.
-/
import Pdb.Model.MultiTreeCrashTx

namespace Pdb.MultiTree
set_option linter.unusedSectionVars false
variable {K D : Type} [DecidableEq K]

/-- the change sets of the transactions behind the first `i` logged records (commit order) -/
def laterCs (c : XState K D) (i : Nat) : List (ChangeSet K D) :=
  (c.logged.drop i).map (·.cs) ++ c.t.queue

structure ClaimsInv (c : XState K D) : Prop where
  base : c.baseClaims = queueClaimed ((laterCs c 0).take c.baseNq) ∧
    c.baseNq ≤ (laterCs c 0).length
  recs : ∀ i r, c.logged[i]? = some r →
    r.claims = queueClaimed ((laterCs c (i + 1)).take r.nq) ∧ r.nq ≤ (laterCs c (i + 1)).length

theorem claimsInv_init (v : Variant) : ClaimsInv (XState.init v : XState K D) :=
  ⟨⟨rfl, Nat.le_refl _⟩, fun i r h => by simp [XState.init] at h⟩

theorem commit_queue (s : TState K D) (ops : List (Op K D)) :
    ∃ l, (s.commit ops).1.queue = s.queue ++ l := by
  simp only [TState.commit]
  split
  · split
    · exact ⟨[_], rfl⟩
    · exact ⟨[], by simp [TState.withAsm]⟩
  · exact ⟨[], by simp⟩

theorem process_queue (s s' : TState K D) (cs : ChangeSet K D) (q : List (ChangeSet K D))
    (hq : s.queue = cs :: q) (hp : s.process = .ok s') : s'.queue = q := by
  simp only [TState.process, hq] at hp
  split at hp
  · simp only [Except.ok.injEq] at hp; rw [← hp]
  · cases hp

private theorem take_app {α : Type} (x l : List α) (n : Nat) (h : n ≤ x.length) :
    (x ++ l).take n = x.take n := List.take_append_of_le_length h

theorem claimsInv_of_commit (c c' : XState K D) (hi : ClaimsInv c) (hlog : c'.logged = c.logged)
    (hb : c'.baseClaims = c.baseClaims) (hn : c'.baseNq = c.baseNq) (l : List (ChangeSet K D))
    (hq : c'.t.queue = c.t.queue ++ l) : ClaimsInv c' := by
  have hlater : ∀ j, laterCs c' j = laterCs c j ++ l := by
    intro j; simp only [laterCs, hlog, hq, List.append_assoc]
  refine ⟨?_, ?_⟩
  · rw [hb, hn, hlater, take_app _ _ _ hi.base.2]
    exact ⟨hi.base.1, by rw [List.length_append]; have := hi.base.2; omega⟩
  · intro i r hr
    rw [hlog] at hr
    have := hi.recs i r hr
    rw [hlater, take_app _ _ _ this.2]
    exact ⟨this.1, by rw [List.length_append]; omega⟩

theorem claimsInv_of_process (c c' : XState K D) (hi : ClaimsInv c) (cs : ChangeSet K D)
    (q : List (ChangeSet K D)) (hq : c.t.queue = cs :: q) (rn : XRec K D)
    (hlog : c'.logged = c.logged ++ [rn]) (hcs : rn.cs = cs) (hcl : rn.claims = queueClaimed q)
    (hnq : rn.nq = q.length) (hq' : c'.t.queue = q)
    (hb : c'.baseClaims = c.baseClaims) (hn : c'.baseNq = c.baseNq) : ClaimsInv c' := by
  have hlater : ∀ j, j ≤ c.logged.length → laterCs c' j = laterCs c j := by
    intro j hj
    simp only [laterCs, hlog, hq', hq, List.drop_append_of_le_length hj, List.map_append,
      List.map_cons, List.map_nil, List.append_assoc, List.cons_append, List.nil_append, hcs]
  refine ⟨?_, ?_⟩
  · rw [hb, hn, hlater 0 (Nat.zero_le _)]; exact hi.base
  · intro i r hr
    rw [hlog] at hr
    by_cases h : i < c.logged.length
    · rw [List.getElem?_append_left h] at hr
      rw [hlater (i + 1) h]
      exact hi.recs i r hr
    · have hge : c.logged.length ≤ i := Nat.le_of_not_lt h
      rw [List.getElem?_append_right hge] at hr
      have hi0 : i - c.logged.length = 0 := by
        cases hd : i - c.logged.length with
        | zero => rfl
        | succ k => rw [hd] at hr; simp at hr
      rw [hi0] at hr
      simp only [List.getElem?_cons_zero, Option.some.injEq] at hr
      subst hr
      have hil : i = c.logged.length := by omega
      subst hil
      have : laterCs c' (c.logged.length + 1) = q := by
        simp [laterCs, hlog, hq']
      rw [this, hcl, hnq]
      simp

theorem claimsInv_of_enact (c c' : XState K D) (hi : ClaimsInv c) (r : XRec K D)
    (rs : List (XRec K D)) (hl : c.logged = r :: rs) (hlog : c'.logged = rs)
    (hq : c'.t.queue = c.t.queue) (hb : c'.baseClaims = r.claims) (hn : c'.baseNq = r.nq) :
    ClaimsInv c' := by
  have hlater : ∀ j, laterCs c' j = laterCs c (j + 1) := by
    intro j; simp only [laterCs, hl, hlog, hq, List.drop_succ_cons]
  refine ⟨?_, ?_⟩
  · rw [hb, hn, hlater]
    exact hi.recs 0 r (by rw [hl]; rfl)
  · intro i r2 hr
    rw [hlater]
    exact hi.recs (i + 1) r2 (by rw [hl]; rw [hlog] at hr; exact hr)

theorem claimsInv_step (c : XState K D) (hi : ClaimsInv c) (cmd : XCmd K D) :
    ClaimsInv (xstep c cmd) := by
  cases cmd with
  | commit ops =>
    simp only [xstep]
    rcases hc : c.t.commit ops with ⟨t', res⟩
    cases res with
    | error e => exact hi
    | ok u =>
      cases u
      obtain ⟨l, hl⟩ := commit_queue c.t ops
      rw [hc] at hl
      simp only at hl ⊢
      exact claimsInv_of_commit c _ hi rfl rfl rfl l hl
  | process =>
    simp only [xstep]
    cases hq : c.t.queue with
    | nil => exact hi
    | cons cs q =>
      cases hp : c.t.process with
      | error e => exact hi
      | ok t' =>
        have hq' := process_queue c.t t' cs q hq hp
        simp only
        exact claimsInv_of_process c _ hi cs q hq _ rfl rfl (by rw [hq']) (by rw [hq']) hq' rfl rfl
  | flush => exact ⟨hi.base, hi.recs⟩
  | enact =>
    simp only [xstep]
    cases hf : c.flushed with
    | zero => exact hi
    | succ f =>
      cases hl : c.logged with
      | nil => exact hi
      | cons r rs =>
        simp only
        exact claimsInv_of_enact c _ hi r rs hl rfl rfl rfl rfl
  | crash n =>
    exact ⟨⟨rfl, Nat.zero_le _⟩, fun i r h => by simp [xstep, xrecover] at h⟩

theorem claimsInv_run (cmds : List (XCmd K D)) :
    ∀ c : XState K D, ClaimsInv c → ClaimsInv (xrun c cmds) := by
  induction cmds with
  | nil => intro c h; exact h
  | cons cmd cmds ih => intro c h; exact ih _ (claimsInv_step c h cmd)

theorem getLast?_take_succ {α : Type} (l : List α) :
    ∀ i, i < l.length → (l.take (i + 1)).getLast? = l[i]? := by
  induction l with
  | nil => intro i h; simp at h
  | cons a l ih =>
    intro i h
    cases i with
    | zero => simp
    | succ i =>
      have h' : i < l.length := by simpa using h
      cases l with
      | nil => simp at h'
      | cons b l =>
        rw [List.take_succ_cons, List.take_succ_cons, List.getLast?_cons_cons,
          ← List.take_succ_cons, ih i h']
        simp

end Pdb.MultiTree
