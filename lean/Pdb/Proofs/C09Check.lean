/-
C09: an executable check of the run hypotheses (used by the concrete instances in Pdb/Props).
-/
import Pdb.Proofs.C09Run

namespace Pdb.Index
open Pdb.Gen

def boundedB (s : Col) : Bool :=
  decide (s.current.bits ≤ 49) && (List.range 256).all (fun t => decide ((s.tier t).filled ≤ 2 ^ 56))

theorem boundedB_sound (s : Col) (h : boundedB s = true) : Bounded s := by
  unfold boundedB at h
  rw [Bool.and_eq_true] at h
  refine ⟨of_decide_eq_true h.1, fun tier ht => ?_⟩
  have := List.all_eq_true.1 h.2 tier (List.mem_range.2 ht)
  exact of_decide_eq_true this

/-- run, checking the physical limits after every action -/
def runChecked (s : Col) : List Action → Option Col
  | [] => some s
  | a :: as =>
    match stepA s a with
    | .ok s1 => if boundedB s1 then runChecked s1 as else none
    | _ => none

theorem runChecked_sound : ∀ (acts : List Action) (s s' : Col), runChecked s acts = some s' →
    runA s acts = .ok s' ∧ AllBounded s acts := by
  intro acts
  induction acts with
  | nil =>
    intro s s' h
    simp only [runChecked] at h
    injection h with h; subst h
    exact ⟨rfl, trivial⟩
  | cons a as ih =>
    intro s s' h
    simp only [runChecked] at h
    cases hs : stepA s a with
    | ok s1 =>
      rw [hs] at h
      simp only at h
      by_cases hb : boundedB s1 = true
      · simp only [hb, if_true] at h
        obtain ⟨h1, h2⟩ := ih s1 s' h
        refine ⟨?_, fun s1' hs' => ?_⟩
        · simp only [runA, hs, Res.bind]; exact h1
        · rw [hs] at hs'
          injection hs' with hs'
          subst hs'
          exact ⟨boundedB_sound s1 hb, h2⟩
      · simp [hb] at h
    | panic => rw [hs] at h; simp at h
    | diverge => rw [hs] at h; simp at h

end Pdb.Index
