/-
C04 (c): node occupancy.  `Occ lb d n`: node `n` (leaves `d` levels below) has between `lb` and
ORDER separators and every descendant between ORDER/2 and ORDER.  Insertions keep it
(splits leave ORDER/2 on both sides), removals keep it or report `underflow` with exactly one
separator missing, `rebalance` repairs that and always finds a sibling: `stuck` is
unreachable from a tree satisfying TreeInv.
-/
import Pdb.Proofs.C04TreeApply

namespace Pdb.C04
variable {V : Type}

theorem MIDDLE_eq : MIDDLE = 4 := rfl
theorem ORDER_eq : ORDER = 8 := rfl

def Occ (lb : Nat) : Nat → Node V → Prop
  | 0, n => lb ≤ n.seps.length ∧ n.seps.length ≤ ORDER
  | d + 1, n => lb ≤ n.seps.length ∧ n.seps.length ≤ ORDER ∧ ∀ c ∈ n.children, Occ MIDDLE d c

/-- all children (if any) satisfy the non-root bound -/
def Kids (d : Nat) (cl : List (Node V)) : Prop :=
  match d with
  | 0 => True
  | d + 1 => ∀ c ∈ cl, Occ MIDDLE d c

theorem occ_iff {lb d : Nat} {n : Node V} :
    Occ lb d n ↔ lb ≤ n.seps.length ∧ n.seps.length ≤ ORDER ∧ Kids d n.children := by
  cases d with
  | zero => simp [Occ, Kids]
  | succ d => rfl

theorem Occ.mono {lb lb' d : Nat} {n : Node V} (h : Occ lb d n) (hl : lb' ≤ lb) : Occ lb' d n := by
  rw [occ_iff] at h ⊢
  exact ⟨Nat.le_trans hl h.1, h.2⟩

theorem Kids.subset {d : Nat} {l l' : List (Node V)} (h : Kids d l) (hs : ∀ c ∈ l', c ∈ l) :
    Kids d l' := by
  cases d with
  | zero => trivial
  | succ d => exact fun c hc => h c (hs c hc)

theorem Kids.append {d : Nat} {l1 l2 : List (Node V)} (h1 : Kids d l1) (h2 : Kids d l2) :
    Kids d (l1 ++ l2) := by
  cases d with
  | zero => trivial
  | succ d =>
    intro c hc
    rcases List.mem_append.mp hc with hc | hc
    · exact h1 c hc
    · exact h2 c hc

theorem Kids.of_forall {d : Nat} {l : List (Node V)} (h : ∀ c ∈ l, Occ MIDDLE (d - 1) c) (hd : 0 < d) :
    Kids d l := by
  cases d with
  | zero => exact absurd hd (by decide)
  | succ d => exact h

theorem Kids.mem {d : Nat} {l : List (Node V)} (h : Kids (d + 1) l) {c : Node V} (hc : c ∈ l) :
    Occ MIDDLE d c := h c hc

theorem Kids.nil {d : Nat} : Kids d ([] : List (Node V)) := by
  cases d with
  | zero => trivial
  | succ d => intro c hc; cases hc

/-- replacing one child by a good one -/
theorem Kids.set {d : Nat} {l : List (Node V)} (h : Kids (d + 1) l) (i : Nat) {c : Node V}
    (hc : Occ MIDDLE d c) : Kids (d + 1) (l.set i c) := by
  intro x hx
  rcases List.mem_or_eq_of_mem_set hx with hx | rfl
  · exact h x hx
  · exact hc

/-! ### insertion -/

theorem mem_insertAt {α : Type} {l : List α} {i : Nat} {x y : α} (h : y ∈ insertAt l i x) :
    y ∈ l ∨ y = x := by
  simp only [insertAt, List.mem_append, List.mem_cons] at h
  rcases h with h | h | h
  · exact Or.inl (List.mem_of_mem_take h)
  · exact Or.inr h
  · exact Or.inl (List.mem_of_mem_drop h)

/-- Occupancy of the results of `insertSep`. -/
theorem insertSep_occ {lb d : Nat} {n : Node V} (i : Nat) (x : Key × V) (r : Option (Node V))
    (hn : Occ lb d n) (_hlb : lb ≤ MIDDLE) (hr : ∀ c, r = some c → 0 < d ∧ Occ MIDDLE (d - 1) c) :
    ((insertSep n i x r).2 = .ok ∧ Occ lb d (insertSep n i x r).1) ∨
    (∃ sep right, (insertSep n i x r).2 = .split sep right ∧
        Occ MIDDLE d (insertSep n i x r).1 ∧ Occ MIDDLE d right) := by
  rw [occ_iff] at hn
  obtain ⟨h1, h2, h3⟩ := hn
  -- the children list after the insertion
  have hk : Kids d (match r with
                    | some r => insertAt n.children (i + 1) r
                    | none => n.children) := by
    cases r with
    | none => exact h3
    | some c =>
      obtain ⟨hd, hc⟩ := hr c rfl
      apply Kids.of_forall _ hd
      intro y hy
      rcases mem_insertAt hy with hy | rfl
      · cases d with
        | zero => exact absurd hd (by decide)
        | succ d => exact h3 y hy
      · exact hc
  unfold insertSep
  by_cases hfull : n.seps.length = ORDER
  · right
    simp only [hfull, if_true]
    refine ⟨_, _, rfl, ?_, ?_⟩
    · rw [occ_iff]
      simp only [Node.seps_mk, Node.children_mk, List.length_take, insertAt_length, hfull]
      refine ⟨by rw [MIDDLE_eq, ORDER_eq]; omega, by rw [MIDDLE_eq, ORDER_eq]; omega, ?_⟩
      exact hk.subset (fun c hc => List.mem_of_mem_take hc)
    · rw [occ_iff]
      simp only [Node.seps_mk, Node.children_mk, List.length_drop, insertAt_length, hfull]
      refine ⟨by rw [MIDDLE_eq, ORDER_eq]; omega, by rw [MIDDLE_eq, ORDER_eq]; omega, ?_⟩
      exact hk.subset (fun c hc => List.mem_of_mem_drop hc)
  · left
    simp only [hfull, if_false]
    refine ⟨trivial, ?_⟩
    rw [occ_iff]
    simp only [Node.seps_mk, Node.children_mk, insertAt_length]
    exact ⟨by omega, by omega, hk⟩

theorem change_set_occ (d : Nat) : ∀ (lb : Nat) (n : Node V), WF d n → Sorted (toList d n) →
    Occ lb d n → lb ≤ MIDDLE → ∀ (k : Key) (v : V),
      ((change d n (.set k v)).2 = .ok ∧ Occ lb d (change d n (.set k v)).1) ∨
      (∃ sep right, (change d n (.set k v)).2 = .split sep right ∧
          Occ MIDDLE d (change d n (.set k v)).1 ∧ Occ MIDDLE d right) := by
  induction d with
  | zero =>
    intro lb n hwf hs ho hlb k v
    obtain ⟨seps, cl⟩ := n
    have hcl : cl = [] := hwf
    subst hcl
    cases hp : (position seps k).1 with
    | true =>
      have e : change 0 (.mk seps []) (.set k v) =
          (.mk (seps.set (position seps k).2 (k, v)) [], .ok) := by
        simp [change, Op.key, hp]
      rw [e]
      left
      refine ⟨rfl, ?_⟩
      rw [occ_iff] at ho ⊢
      simpa using ho
    | false =>
      have e : change 0 (.mk seps []) (.set k v) =
          insertSep (.mk seps []) (position seps k).2 (k, v) none := by
        simp [change, Op.key, hp]
      rw [e]
      exact insertSep_occ _ _ none ho hlb (fun c h => by cases h)
  | succ d ih =>
    intro lb n hwf hs ho hlb k v
    obtain ⟨seps, cl⟩ := n
    obtain ⟨hlen, hch⟩ := hwf
    simp only [Node.seps_mk, Node.children_mk] at hlen hch
    have hss : Sorted seps := seps_sorted (n := .mk seps cl) hlen hs
    obtain ⟨o1, o2, o3⟩ := ho
    simp only [Node.seps_mk, Node.children_mk] at o1 o2 o3
    cases hp : (position seps k).1 with
    | true =>
      have e : change (d + 1) (.mk seps cl) (.set k v) =
          (.mk (seps.set (position seps k).2 (k, v)) cl, .ok) := by
        simp [change, Op.key, hp]
      rw [e]
      left
      exact ⟨rfl, by simpa using o1, by simpa using o2, o3⟩
    | false =>
      obtain ⟨S1, S2, es, hl, h1, h2⟩ := position_false hss hp
      obtain ⟨A, c, B, ec, hA, hB⟩ := split_children (n := seps.length) (i := S1.length) hlen
        (by rw [es]; simp)
      have hget : cl[(position seps k).2]? = some c := by
        rw [ec, ← hl]; exact getElem?_mid hA
      have e : change (d + 1) (.mk seps cl) (.set k v) =
          afterChild (.mk seps (cl.set (position seps k).2 (change d c (.set k v)).1))
            (position seps k).2 (change d c (.set k v)).2 := by
        simp [change, Op.key, hp, hget]
      rw [e]
      have hcm : c ∈ cl := by rw [ec]; simp
      have hcw : WF d c := hch c hcm
      have hcs : Sorted (toList d c) := by
        have t1 := toList_node d A c B S1 S2 hA
        rw [es, ec, t1] at hs
        exact (sorted_append.mp (sorted_append.mp hs).2.1).1
      rcases ih MIDDLE c hcw hcs (o3 c hcm) (Nat.le_refl _) k v with ⟨hok, hoc⟩ | ⟨sep, right, hsp, hoc, hor⟩
      · rw [hok]
        left
        refine ⟨rfl, ?_⟩
        show Occ lb (d + 1) (Node.mk seps (cl.set (position seps k).2 (change d c (.set k v)).1))
        exact ⟨o1, o2, Kids.set o3 _ hoc⟩
      · rw [hsp]
        have hn1 : Occ lb (d + 1)
            (Node.mk seps (cl.set (position seps k).2 (change d c (.set k v)).1)) :=
          ⟨o1, o2, Kids.set o3 _ hoc⟩
        exact insertSep_occ _ sep (some right) hn1 hlb
          (fun c' h => by cases h; exact ⟨Nat.succ_pos _, hor⟩)


/-! ### rebalance always succeeds and repairs the occupancy -/

theorem Occ.mk {lb d : Nat} {s : List (Key × V)} {cl : List (Node V)} (h1 : lb ≤ s.length)
    (h2 : s.length ≤ ORDER) (h3 : Kids d cl) : Occ lb d (.mk s cl) :=
  occ_iff.mpr ⟨h1, h2, h3⟩

theorem Kids.cons {d : Nat} {c : Node V} {l : List (Node V)} (hc : 0 < d → Occ MIDDLE (d - 1) c)
    (h : Kids d l) : Kids d (c :: l) := by
  cases d with
  | zero => trivial
  | succ d =>
    intro x hx
    rcases List.mem_cons.mp hx with rfl | hx
    · exact hc (Nat.succ_pos _)
    · exact h x hx

theorem Kids.optionToList {d : Nat} {l : List (Node V)} (h : Kids d l) (o : Option (Node V))
    (ho : ∀ c, o = some c → c ∈ l) : Kids d o.toList := by
  apply h.subset
  intro c hc
  cases o with
  | none => simp at hc
  | some x =>
    have : c = x := by simpa using hc
    subst this
    exact ho _ rfl

/-- The underfull child `r` (one separator short) takes from its large left sibling `l`. -/
theorem rotRight_occ {d : Nat} (A : List (Node V)) (l r : Node V) (B : List (Node V))
    (S1 : List (Key × V)) (sep : Key × V) (S2 : List (Key × V)) (h : A.length = S1.length)
    (hl : Occ MIDDLE d l) (hlarge : l.seps.length > MIDDLE)
    (hr : Occ (MIDDLE - 1) d r) (hrs : r.seps.length = MIDDLE - 1) :
    ∃ n', rotRight (.mk (S1 ++ sep :: S2) (A ++ l :: r :: B)) (A.length + 1) l r = some n' ∧
      n'.seps.length = (S1 ++ sep :: S2).length ∧
      ∃ l' r', n'.children = A ++ l' :: r' :: B ∧ Occ MIDDLE d l' ∧ Occ MIDDLE d r' := by
  rw [occ_iff] at hl hr
  have hne : l.seps ≠ [] := by intro e; rw [e] at hlarge; simp at hlarge
  unfold rotRight
  simp only [Node.seps_mk, Node.children_mk, Nat.add_sub_cancel]
  rw [getElem?_mid h.symm, List.getLast?_eq_some_getLast hne]
  refine ⟨_, rfl, ?_, ?_⟩
  · simp
  · refine ⟨.mk l.seps.dropLast l.children.dropLast,
      .mk (sep :: r.seps) (l.children.getLast?.toList ++ r.children), ?_, ?_, ?_⟩
    · simp only [Node.children_mk]
      rw [set_mid rfl]
      have : A ++ Node.mk l.seps.dropLast l.children.dropLast :: r :: B =
          (A ++ [Node.mk l.seps.dropLast l.children.dropLast]) ++ r :: B := by simp
      rw [this, set_mid (by simp)]
      simp
    · apply Occ.mk
      · simp only [List.length_dropLast]; omega
      · simp only [List.length_dropLast]; omega
      · exact hl.2.2.subset (fun c hc => List.dropLast_subset _ hc)
    · apply Occ.mk
      · simp only [List.length_cons]; rw [MIDDLE_eq] at hrs ⊢; omega
      · simp only [List.length_cons]; rw [MIDDLE_eq] at hrs; rw [ORDER_eq]; omega
      · apply Kids.append
        · exact hl.2.2.optionToList _ (fun c hc => List.mem_of_getLast? hc)
        · exact hr.2.2

theorem rotLeft_occ {d : Nat} (A : List (Node V)) (l r : Node V) (B : List (Node V))
    (S1 : List (Key × V)) (sep : Key × V) (S2 : List (Key × V)) (h : A.length = S1.length)
    (hr : Occ MIDDLE d r) (hlarge : r.seps.length > MIDDLE)
    (hl : Occ (MIDDLE - 1) d l) (hls : l.seps.length = MIDDLE - 1) :
    ∃ n', rotLeft (.mk (S1 ++ sep :: S2) (A ++ l :: r :: B)) A.length l r = some n' ∧
      n'.seps.length = (S1 ++ sep :: S2).length ∧
      ∃ l' r', n'.children = A ++ l' :: r' :: B ∧ Occ MIDDLE d l' ∧ Occ MIDDLE d r' := by
  rw [occ_iff] at hl hr
  unfold rotLeft
  simp only [Node.seps_mk, Node.children_mk]
  rw [getElem?_mid h.symm]
  cases hrs : r.seps with
  | nil => rw [hrs] at hlarge; simp at hlarge
  | cons s2 rs =>
    simp only [List.head?_cons]
    refine ⟨_, rfl, ?_, ?_⟩
    · simp
    · refine ⟨.mk (l.seps ++ [sep]) (l.children ++ r.children.head?.toList),
        .mk rs r.children.tail, ?_, ?_, ?_⟩
      · simp only [Node.children_mk, List.tail_cons]
        rw [set_mid rfl]
        have : A ++ Node.mk (l.seps ++ [sep]) (l.children ++ r.children.head?.toList) :: r :: B =
            (A ++ [Node.mk (l.seps ++ [sep]) (l.children ++ r.children.head?.toList)]) ++ r :: B := by
          simp
        rw [this, set_mid (by simp)]
        simp
      · apply Occ.mk
        · simp only [List.length_append, List.length_singleton]; rw [MIDDLE_eq] at hls ⊢; omega
        · simp only [List.length_append, List.length_singleton]
          rw [MIDDLE_eq] at hls; rw [ORDER_eq]; omega
        · apply Kids.append hl.2.2
          exact hr.2.2.optionToList _ (fun c hc => List.mem_of_head? hc)
      · have hlen : r.seps.length = rs.length + 1 := by rw [hrs]; simp
        apply Occ.mk
        · omega
        · have := hr.2.1; omega
        · exact hr.2.2.subset (fun c hc => List.mem_of_mem_tail hc)

theorem mergeAt_occ {d : Nat} (A : List (Node V)) (l r : Node V) (B : List (Node V))
    (S1 : List (Key × V)) (sep : Key × V) (S2 : List (Key × V)) (h : A.length = S1.length)
    (hl : Kids d l.children) (hr : Kids d r.children)
    (hsz : MIDDLE ≤ l.seps.length + 1 + r.seps.length ∧ l.seps.length + 1 + r.seps.length ≤ ORDER) :
    ∃ n', mergeAt (.mk (S1 ++ sep :: S2) (A ++ l :: r :: B)) A.length = some n' ∧
      n'.seps.length + 1 = (S1 ++ sep :: S2).length ∧
      ∃ m, n'.children = A ++ m :: B ∧ Occ MIDDLE d m := by
  unfold mergeAt
  simp only [Node.seps_mk, Node.children_mk]
  obtain ⟨g1, g2⟩ := getElem?_pair (l := l) (r := r) (B := B) (rfl : A.length = A.length)
  rw [g1, g2, getElem?_mid h.symm]
  refine ⟨_, rfl, ?_, ?_⟩
  · simp only [Node.seps_mk]
    rw [eraseIdx_mid h.symm]
    simp only [List.length_append, List.length_cons]
    omega
  · refine ⟨.mk (l.seps ++ sep :: r.seps) (l.children ++ r.children), ?_, ?_⟩
    · simp only [Node.children_mk]
      rw [set_mid rfl]
      have : A ++ Node.mk (l.seps ++ sep :: r.seps) (l.children ++ r.children) :: r :: B =
          (A ++ [Node.mk (l.seps ++ sep :: r.seps) (l.children ++ r.children)]) ++ r :: B := by simp
      rw [this, eraseIdx_mid (by simp)]
      simp
    · apply Occ.mk
      · simp only [List.length_append, List.length_cons]; omega
      · simp only [List.length_append, List.length_cons]; omega
      · exact Kids.append hl hr

/-- Precondition of `rebalance` at child `i`: the parent has a separator, child `i` is exactly
    one separator short, every other child is fine. -/
structure RebPre (d : Nat) (n : Node V) (i : Nat) : Prop where
  len : n.children.length = n.seps.length + 1
  one : 1 ≤ n.seps.length
  idx : i < n.children.length
  cur : ∀ c, n.children[i]? = some c → Occ (MIDDLE - 1) d c ∧ c.seps.length = MIDDLE - 1
  others : ∀ j c, j ≠ i → n.children[j]? = some c → Occ MIDDLE d c

theorem sibLarge_some {c : Node V} : sibLarge (some c) = decide (c.seps.length > MIDDLE) := rfl

theorem rebalance_occ (d : Nat) (n : Node V) (i : Nat) (hp : RebPre d n i) :
    ∃ n', rebalance n i = some n' ∧ (∀ c ∈ n'.children, Occ MIDDLE d c) ∧
      n.seps.length ≤ n'.seps.length + 1 ∧ n'.seps.length ≤ n.seps.length := by
  obtain ⟨seps, cl⟩ := n
  obtain ⟨hlen, hone, hidx, hcur, hoth⟩ := hp
  simp only [Node.seps_mk, Node.children_mk] at hlen hone hidx hcur hoth
  rw [rebalance_mk]
  have pair : ∀ j, j < seps.length → ∃ A l r B S1 sep S2, cl = A ++ l :: r :: B ∧
      seps = S1 ++ sep :: S2 ∧ A.length = j ∧ S1.length = j := fun j hj => split_pair hlen hj
  -- all children of a decomposed list, given the two in the middle
  have kidsOf : ∀ (A B : List (Node V)) (l r x y : Node V) (j : Nat), cl = A ++ l :: r :: B →
      A.length = j → (i = j ∨ i = j + 1) → Occ MIDDLE d x → Occ MIDDLE d y →
      ∀ c ∈ A ++ x :: y :: B, Occ MIDDLE d c := by
    intro A B l r x y j ec hA hij hx hy c hc
    simp only [List.mem_append, List.mem_cons] at hc
    rcases hc with hc | rfl | rfl | hc
    · obtain ⟨q, hq, rfl⟩ := List.getElem_of_mem hc
      have : cl[q]? = some A[q] := by
        rw [ec, List.getElem?_append_left (by omega)]; simp [hq]
      exact hoth q _ (by omega) this
    · exact hx
    · exact hy
    · obtain ⟨q, hq, rfl⟩ := List.getElem_of_mem hc
      have : cl[A.length + 2 + q]? = some B[q] := by
        rw [ec, List.getElem?_append_right (by omega)]
        have : A.length + 2 + q - A.length = q + 2 := by omega
        rw [this]; simp [hq]
      exact hoth _ _ (by omega) this
  have kidsOf1 : ∀ (A B : List (Node V)) (l r m : Node V) (j : Nat), cl = A ++ l :: r :: B →
      A.length = j → (i = j ∨ i = j + 1) → Occ MIDDLE d m →
      ∀ c ∈ A ++ m :: B, Occ MIDDLE d c := by
    intro A B l r m j ec hA hij hm c hc
    simp only [List.mem_append, List.mem_cons] at hc
    rcases hc with hc | rfl | hc
    · obtain ⟨q, hq, rfl⟩ := List.getElem_of_mem hc
      have : cl[q]? = some A[q] := by
        rw [ec, List.getElem?_append_left (by omega)]; simp [hq]
      exact hoth q _ (by omega) this
    · exact hm
    · obtain ⟨q, hq, rfl⟩ := List.getElem_of_mem hc
      have : cl[A.length + 2 + q]? = some B[q] := by
        rw [ec, List.getElem?_append_right (by omega)]
        have : A.length + 2 + q - A.length = q + 2 := by omega
        rw [this]; simp [hq]
      exact hoth _ _ (by omega) this
  by_cases hfl : sibLarge (if i > 0 then cl[i - 1]? else none) = true
  · -- rotate from the left
    rw [if_pos hfl]
    have hi : i > 0 := by
      by_cases hi : i > 0
      · exact hi
      · simp [hi, sibLarge] at hfl
    rw [if_pos hi] at hfl ⊢
    obtain ⟨A, l, r, B, S1, sep, S2, ec, es, hA, hS⟩ := pair (i - 1) (by omega)
    obtain ⟨e1, e2⟩ := getElem?_pair (l := l) (r := r) (B := B) hA
    have hi' : i - 1 + 1 = i := by omega
    rw [hi'] at e2
    rw [← ec] at e1 e2
    rw [e1] at hfl ⊢
    rw [e2]
    simp only [rotRightO]
    rw [sibLarge_some] at hfl
    have hlarge : l.seps.length > MIDDLE := by simpa using hfl
    have hl : Occ MIDDLE d l := hoth (i - 1) l (by omega) e1
    obtain ⟨hr1, hr2⟩ := hcur r e2
    have hi'' : i = A.length + 1 := by omega
    obtain ⟨n', g1, g2, l', r', g3, g4, g5⟩ :=
      rotRight_occ A l r B S1 sep S2 (by omega) hl hlarge hr1 hr2
    rw [es, ec, hi'']
    refine ⟨n', g1, ?_, by simp only [Node.seps_mk, g2]; omega, by simp only [Node.seps_mk, g2]; omega⟩
    rw [g3]
    exact kidsOf A B l r l' r' (i - 1) ec hA (Or.inr (by omega)) g4 g5
  · rw [if_neg hfl]
    by_cases hfr : sibLarge (if i + 1 < seps.length + 1 then cl[i + 1]? else none) = true
    · -- rotate from the right
      rw [if_pos hfr]
      have hi : i + 1 < seps.length + 1 := by
        by_cases hi : i + 1 < seps.length + 1
        · exact hi
        · simp [hi, sibLarge] at hfr
      rw [if_pos hi] at hfr ⊢
      obtain ⟨A, l, r, B, S1, sep, S2, ec, es, hA, hS⟩ := pair i (by omega)
      obtain ⟨e1, e2⟩ := getElem?_pair (l := l) (r := r) (B := B) hA
      rw [← ec] at e1 e2
      rw [e2] at hfr ⊢
      rw [e1]
      simp only [rotLeftO]
      rw [sibLarge_some] at hfr
      have hlarge : r.seps.length > MIDDLE := by simpa using hfr
      have hr : Occ MIDDLE d r := hoth (i + 1) r (by omega) e2
      obtain ⟨hl1, hl2⟩ := hcur l e1
      obtain ⟨n', g1, g2, l', r', g3, g4, g5⟩ :=
        rotLeft_occ A l r B S1 sep S2 (by omega) hr hlarge hl1 hl2
      rw [es, ec, ← hA]
      refine ⟨n', g1, ?_, by simp only [Node.seps_mk, g2]; omega, by simp only [Node.seps_mk, g2]; omega⟩
      rw [g3]
      exact kidsOf A B l r l' r' i ec hA (Or.inl rfl) g4 g5
    · rw [if_neg hfr]
      -- merge: the sibling used is not large
      by_cases hlast : i + 1 = seps.length + 1
      · rw [if_pos hlast]
        have hi0 : ¬ i = 0 := by omega
        rw [if_neg hi0]
        obtain ⟨A, l, r, B, S1, sep, S2, ec, es, hA, hS⟩ := pair (i - 1) (by omega)
        obtain ⟨e1, e2⟩ := getElem?_pair (l := l) (r := r) (B := B) hA
        have hi' : i - 1 + 1 = i := by omega
        rw [hi'] at e2
        rw [← ec] at e1 e2
        have hi : i > 0 := by omega
        rw [if_pos hi, e1, sibLarge_some] at hfl
        have hnl : ¬ l.seps.length > MIDDLE := by simpa using hfl
        have hl : Occ MIDDLE d l := hoth (i - 1) l (by omega) e1
        obtain ⟨hr1, hr2⟩ := hcur r e2
        rw [occ_iff] at hl hr1
        obtain ⟨n', g1, g2, m, g3, g4⟩ := mergeAt_occ A l r B S1 sep S2 (by omega) hl.2.2 hr1.2.2
          (by rw [MIDDLE_eq, ORDER_eq] at *; omega)
        rw [es, ec, ← hA]
        refine ⟨n', g1, ?_, by simp only [Node.seps_mk]; omega, by simp only [Node.seps_mk]; omega⟩
        rw [g3]
        exact kidsOf1 A B l r m (i - 1) ec hA (Or.inr (by omega)) g4
      · rw [if_neg hlast]
        have hi : i < seps.length := by omega
        obtain ⟨A, l, r, B, S1, sep, S2, ec, es, hA, hS⟩ := pair i hi
        obtain ⟨e1, e2⟩ := getElem?_pair (l := l) (r := r) (B := B) hA
        rw [← ec] at e1 e2
        have hi2 : i + 1 < seps.length + 1 := by omega
        rw [if_pos hi2, e2, sibLarge_some] at hfr
        have hnr : ¬ r.seps.length > MIDDLE := by simpa using hfr
        have hr : Occ MIDDLE d r := hoth (i + 1) r (by omega) e2
        obtain ⟨hl1, hl2⟩ := hcur l e1
        rw [occ_iff] at hr hl1
        obtain ⟨n', g1, g2, m, g3, g4⟩ := mergeAt_occ A l r B S1 sep S2 (by omega) hl1.2.2 hr.2.2
          (by rw [MIDDLE_eq, ORDER_eq] at *; omega)
        rw [es, ec, ← hA]
        refine ⟨n', g1, ?_, by simp only [Node.seps_mk]; omega, by simp only [Node.seps_mk]; omega⟩
        rw [g3]
        exact kidsOf1 A B l r m i ec hA (Or.inl rfl) g4


/-! ### removals -/

theorem RebPre.ofSet {d : Nat} {seps : List (Key × V)} {cl : List (Node V)} {i : Nat} {c' : Node V}
    (hlen : cl.length = seps.length + 1) (hone : 1 ≤ seps.length) (hi : i < cl.length)
    (hk : ∀ c ∈ cl, Occ MIDDLE d c) (hc : Occ (MIDDLE - 1) d c') (hcs : c'.seps.length = MIDDLE - 1) :
    RebPre d (.mk seps (cl.set i c')) i := by
  refine ⟨by simpa using hlen, hone, by simpa using hi, ?_, ?_⟩
  · intro c h
    simp only [Node.children_mk] at h
    rw [List.getElem?_set_self hi] at h
    cases h
    exact ⟨hc, hcs⟩
  · intro j c hj h
    simp only [Node.children_mk] at h
    rw [List.getElem?_set_ne (fun e => hj e.symm)] at h
    exact hk c (List.mem_of_getElem? h)

theorem flag_occ {d lb : Nat} {n2 : Node V} (sz : Nat) (hk : Kids d n2.children)
    (h1 : sz ≤ n2.seps.length + 1) (h2 : n2.seps.length ≤ sz) (hsz : sz ≤ ORDER) (hlb : lb ≤ sz)
    (hlbm : lb ≤ MIDDLE) :
    ((if needRebalance n2 = true then (Res.underflow : Res V) else .ok) = .ok ∧ Occ lb d n2) ∨
    ((if needRebalance n2 = true then (Res.underflow : Res V) else .ok) = .underflow ∧
      Occ (lb - 1) d n2 ∧ n2.seps.length < MIDDLE) := by
  by_cases hb : needRebalance n2 = true
  · right
    rw [if_pos hb]
    have : n2.seps.length < MIDDLE := by simpa [needRebalance] using hb
    exact ⟨rfl, occ_iff.mpr ⟨by omega, by omega, hk⟩, this⟩
  · left
    rw [if_neg hb]
    have : ¬ n2.seps.length < MIDDLE := by simpa [needRebalance] using hb
    exact ⟨rfl, occ_iff.mpr ⟨by omega, by omega, hk⟩⟩

theorem removeLast_occ (d : Nat) : ∀ (n : Node V), WF d n → Occ MIDDLE d n →
    ∃ n' r m, removeLast d n = (n', r, some m) ∧
      ((r = .ok ∧ Occ MIDDLE d n') ∨
       (r = .underflow ∧ Occ (MIDDLE - 1) d n' ∧ n'.seps.length = MIDDLE - 1)) := by
  induction d with
  | zero =>
    intro n hw ho
    obtain ⟨seps, cl⟩ := n
    have : cl = [] := hw
    subst this
    obtain ⟨o1, o2⟩ := ho
    simp only [Node.seps_mk] at o1 o2
    have hne : seps ≠ [] := by intro e; subst e; rw [MIDDLE_eq] at o1; simp at o1
    unfold removeLast
    simp only [Node.seps_mk, Node.children_mk, List.getLast?_eq_some_getLast hne]
    refine ⟨_, _, _, rfl, ?_⟩
    have hl : (Node.mk seps.dropLast ([] : List (Node V))).seps.length = seps.length - 1 := by simp
    rcases flag_occ (d := 0) (lb := MIDDLE) (n2 := Node.mk seps.dropLast ([] : List (Node V)))
      seps.length trivial (by rw [hl]; omega) (by rw [hl]; omega) o2 o1 (Nat.le_refl _) with h | h
    · exact Or.inl h
    · right
      refine ⟨h.1, h.2.1, ?_⟩
      have := h.2.2
      rw [hl] at this ⊢
      rw [MIDDLE_eq] at *; omega
  | succ d ih =>
    intro n hw ho
    obtain ⟨seps, cl⟩ := n
    obtain ⟨hlen, hch⟩ := hw
    obtain ⟨o1, o2, o3⟩ := ho
    simp only [Node.seps_mk, Node.children_mk] at hlen hch o1 o2 o3
    have hne : seps ≠ [] := by intro e; subst e; rw [MIDDLE_eq] at o1; simp at o1
    have hci : seps.length < cl.length := by omega
    have hget : cl[seps.length]? = some cl[seps.length] := List.getElem?_eq_getElem hci
    have hcm : cl[seps.length] ∈ cl := List.getElem_mem hci
    obtain ⟨c', r', m, hrl, hres⟩ := ih cl[seps.length] (hch _ hcm) (o3 _ hcm)
    unfold removeLast
    simp only [Node.seps_mk, Node.children_mk, List.getLast?_eq_some_getLast hne, hget, hrl]
    rcases hres with ⟨rfl, hoc⟩ | ⟨rfl, hoc, hcs⟩
    · refine ⟨_, _, _, rfl, Or.inl ⟨rfl, ?_⟩⟩
      exact ⟨o1, o2, Kids.set o3 _ hoc⟩
    · have hpre := RebPre.ofSet (d := d) (seps := seps) (cl := cl) (i := seps.length) hlen
        (by rw [MIDDLE_eq] at o1; omega) hci o3 hoc hcs
      obtain ⟨n2, hreb, hk2, hs1, hs2⟩ := rebalance_occ d _ _ hpre
      simp only [hreb, Node.seps_mk] at hs1 hs2 ⊢
      refine ⟨_, _, _, rfl, ?_⟩
      rcases flag_occ (d := d + 1) (lb := MIDDLE) (n2 := n2) seps.length hk2 hs1 hs2 o2 o1
        (Nat.le_refl _) with h | h
      · exact Or.inl h
      · right
        refine ⟨h.1, h.2.1, ?_⟩
        have := h.2.2
        rw [MIDDLE_eq] at *; omega

theorem change_del_occ (d : Nat) : ∀ (lb : Nat) (n : Node V), WF d n → Sorted (toList d n) →
    Occ lb d n → lb ≤ MIDDLE → (0 < d → 1 ≤ lb) → ∀ (k : Key),
      ((change d n (.del k)).2 = .ok ∧ Occ lb d (change d n (.del k)).1) ∨
      ((change d n (.del k)).2 = .underflow ∧ Occ (lb - 1) d (change d n (.del k)).1 ∧
        (change d n (.del k)).1.seps.length < MIDDLE) := by
  induction d with
  | zero =>
    intro lb n hwf hs ho hlb _ k
    obtain ⟨seps, cl⟩ := n
    have hcl : cl = [] := hwf
    subst hcl
    have hs' : Sorted seps := hs
    obtain ⟨o1, o2⟩ := ho
    simp only [Node.seps_mk] at o1 o2
    cases hp : (position seps k).1 with
    | true =>
      have e : change 0 (.mk seps []) (.del k) =
          (.mk (seps.eraseIdx (position seps k).2) [],
            if needRebalance (Node.mk (seps.eraseIdx (position seps k).2) ([] : List (Node V))) = true
            then .underflow else .ok) := by
        simp [change, Op.key, hp]
        try rfl
      rw [e]
      obtain ⟨S1, v0, S2, es, hl, _, _⟩ := position_true hs' hp
      have hi : (position seps k).2 < seps.length := by rw [← hl, es]; simp
      have hlen : (Node.mk (seps.eraseIdx (position seps k).2) ([] : List (Node V))).seps.length =
          seps.length - 1 := by simp [List.length_eraseIdx, hi]
      exact flag_occ (d := 0) seps.length trivial (by rw [hlen]; omega) (by rw [hlen]; omega)
        o2 o1 hlb
    | false =>
      have e : change 0 (.mk seps []) (.del k) = (.mk seps [], .ok) := by
        simp [change, Op.key, hp]
      rw [e]
      exact Or.inl ⟨rfl, o1, o2⟩
  | succ d ih =>
    intro lb n hwf hs ho hlb hlb1 k
    obtain ⟨seps, cl⟩ := n
    obtain ⟨hlen, hch⟩ := hwf
    simp only [Node.seps_mk, Node.children_mk] at hlen hch
    have hss : Sorted seps := seps_sorted (n := .mk seps cl) hlen hs
    obtain ⟨o1, o2, o3⟩ := ho
    simp only [Node.seps_mk, Node.children_mk] at o1 o2 o3
    have hone : 1 ≤ seps.length := Nat.le_trans (hlb1 (Nat.succ_pos _)) o1
    cases hp : (position seps k).1 with
    | true =>
      obtain ⟨S1, v0, S2, es, hl, h1, h2⟩ := position_true hss hp
      have hi : (position seps k).2 < cl.length := by rw [← hl, hlen, es]; simp; omega
      have hget : cl[(position seps k).2]? = some cl[(position seps k).2] :=
        List.getElem?_eq_getElem hi
      have hcm : cl[(position seps k).2] ∈ cl := List.getElem_mem hi
      obtain ⟨c', r, m, hrl, hres⟩ := removeLast_occ d _ (hch _ hcm) (o3 _ hcm)
      have hsz : (seps.set (position seps k).2 m).length = seps.length := by simp
      rcases hres with ⟨rfl, hoc⟩ | ⟨rfl, hoc, hcs⟩
      · have e : change (d + 1) (.mk seps cl) (.del k) =
            (.mk (seps.set (position seps k).2 m) (cl.set (position seps k).2 c'),
              if needRebalance (Node.mk (seps.set (position seps k).2 m)
                (cl.set (position seps k).2 c')) = true then .underflow else .ok) := by
          simp [change, Op.key, hp, hget, hrl]
          try rfl
        rw [e]
        exact flag_occ (d := d + 1) seps.length (Kids.set o3 _ hoc)
          (by simp only [Node.seps_mk, hsz]; omega) (by simp only [Node.seps_mk, hsz]; omega)
          o2 o1 hlb
      · have hpre := RebPre.ofSet (d := d) (seps := seps.set (position seps k).2 m) (cl := cl)
          (i := (position seps k).2) (by rw [hsz]; exact hlen) (by rw [hsz]; exact hone) hi o3 hoc hcs
        obtain ⟨n2, hreb, hk2, hs1, hs2⟩ := rebalance_occ d _ _ hpre
        have e : change (d + 1) (.mk seps cl) (.del k) =
            (n2, if needRebalance n2 = true then .underflow else .ok) := by
          simp [change, Op.key, hp, hget, hrl, hreb]
          try rfl
        rw [e]
        simp only [Node.seps_mk, hsz] at hs1 hs2
        exact flag_occ (d := d + 1) seps.length hk2 hs1 hs2 o2 o1 hlb
    | false =>
      obtain ⟨S1, S2, es, hl, h1, h2⟩ := position_false hss hp
      obtain ⟨A, c, B, ec, hA, hB⟩ := split_children (n := seps.length) (i := S1.length) hlen
        (by rw [es]; simp)
      have hget : cl[(position seps k).2]? = some c := by
        rw [ec, ← hl]; exact getElem?_mid hA
      have hi : (position seps k).2 < cl.length := (List.getElem?_eq_some_iff.mp hget).1
      have e : change (d + 1) (.mk seps cl) (.del k) =
          afterChild (.mk seps (cl.set (position seps k).2 (change d c (.del k)).1))
            (position seps k).2 (change d c (.del k)).2 := by
        simp [change, Op.key, hp, hget]
      rw [e]
      have hcm : c ∈ cl := by rw [ec]; simp
      have hcs : Sorted (toList d c) := by
        have t1 := toList_node d A c B S1 S2 hA
        rw [es, ec, t1] at hs
        exact (sorted_append.mp (sorted_append.mp hs).2.1).1
      rcases ih MIDDLE c (hch c hcm) hcs (o3 c hcm) (Nat.le_refl _)
        (fun _ => by rw [MIDDLE_eq]; omega) k with ⟨hok, hoc⟩ | ⟨hun, hoc, hlt⟩
      · rw [hok]
        left
        exact ⟨rfl, o1, o2, Kids.set o3 _ hoc⟩
      · rw [hun]
        have hcsz : (change d c (.del k)).1.seps.length = MIDDLE - 1 := by
          have := (occ_iff.mp hoc).1
          omega
        have hpre := RebPre.ofSet (d := d) (seps := seps) (cl := cl) (i := (position seps k).2)
          hlen hone hi o3 hoc hcsz
        obtain ⟨n2, hreb, hk2, hs1, hs2⟩ := rebalance_occ d _ _ hpre
        have ea : afterChild (Node.mk seps (cl.set (position seps k).2 (change d c (.del k)).1))
            (position seps k).2 .underflow =
            (n2, if needRebalance n2 = true then .underflow else .ok) := by
          simp [afterChild, hreb]
          try rfl
        rw [ea]
        simp only [Node.seps_mk] at hs1 hs2
        exact flag_occ (d := d + 1) seps.length hk2 hs1 hs2 o2 o1 hlb


/-! ### the root; whole transactions -/

/-- lower bound for the root: none for a leaf root, one separator for an internal root -/
def rootLb (d : Nat) : Nat := if d = 0 then 0 else 1

theorem rootLb_le (d : Nat) : rootLb d ≤ MIDDLE := by
  unfold rootLb; split <;> rw [MIDDLE_eq] <;> omega

def TreeOcc (t : Tree V) : Prop := Occ (rootLb t.depth) t.depth t.root

theorem applyOne_occ (t : Tree V) (op : Op V) (hw : TreeWF t) (ho : TreeOcc t) :
    (applyOne t op).2 = true ∧ TreeOcc (applyOne t op).1 := by
  obtain ⟨root, depth⟩ := t
  obtain ⟨hwf, hs⟩ := hw
  simp only [Tree.toList] at hs
  have ho' : Occ (rootLb depth) depth root := ho
  cases op with
  | set k v =>
    have hocc := change_set_occ depth (rootLb depth) root hwf hs ho' (rootLb_le depth) k v
    unfold applyOne
    simp only
    cases hc : change depth root (.set k v) with
    | mk root' r =>
      rw [hc] at hocc
      simp only at hocc
      rcases hocc with ⟨rfl, hoc⟩ | ⟨sep, right, rfl, hol, hor⟩
      · exact ⟨rfl, hoc⟩
      · refine ⟨rfl, ?_⟩
        show Occ (rootLb (depth + 1)) (depth + 1) (.mk [sep] [root', right])
        refine ⟨by simp [rootLb], by simp [ORDER_eq], ?_⟩
        intro c hc'
        simp only [Node.children_mk, List.mem_cons, List.not_mem_nil, or_false] at hc'
        rcases hc' with rfl | rfl
        · exact hol
        · exact hor
  | del k =>
    have hlb1 : 0 < depth → 1 ≤ rootLb depth := by
      intro h; unfold rootLb; rw [if_neg (by omega)]; exact Nat.le_refl _
    have hocc := change_del_occ depth (rootLb depth) root hwf hs ho' (rootLb_le depth) hlb1 k
    have hns : (change depth root (.del k)).2 ≠ .stuck := by
      rcases hocc with ⟨h, _⟩ | ⟨h, _⟩ <;> rw [h] <;> simp
    obtain ⟨_, c2, _⟩ := change_del_spec depth root hwf hs k hns
    unfold applyOne
    simp only
    cases hc : change depth root (.del k) with
    | mk root' r =>
      rw [hc] at hocc c2
      simp only at hocc c2
      rcases hocc with ⟨rfl, hoc⟩ | ⟨rfl, hoc, hlt⟩
      · exact ⟨rfl, hoc⟩
      · refine ⟨rfl, ?_⟩
        simp only
        by_cases h0 : root'.seps.length = 0
        · rw [if_pos h0]
          cases depth with
          | zero =>
            have : root'.children = [] := c2
            simp only [this, List.getElem?_nil]
            exact hoc.mono (Nat.zero_le _)
          | succ d =>
            obtain ⟨hl, _⟩ := c2
            rw [h0] at hl
            obtain ⟨_, _, hk⟩ := hoc
            cases hcl : root'.children with
            | nil => rw [hcl] at hl; simp at hl
            | cons c rest =>
              simp only [List.getElem?_cons_zero]
              show Occ (rootLb (d + 1 - 1)) (d + 1 - 1) c
              simp only [Nat.add_sub_cancel]
              exact (hk c (by rw [hcl]; simp)).mono (rootLb_le d)
        · rw [if_neg h0]
          show Occ (rootLb depth) depth root'
          rw [occ_iff] at hoc ⊢
          refine ⟨?_, hoc.2⟩
          unfold rootLb; split <;> omega

theorem applyList_occ (ops : List (Op V)) : ∀ (t : Tree V), TreeWF t → TreeOcc t →
    (applyList t ops).2 = true ∧ TreeOcc (applyList t ops).1 := by
  induction ops with
  | nil => intro t _ ho; exact ⟨rfl, ho⟩
  | cons op ops ih =>
    intro t hw ho
    obtain ⟨h1, h2⟩ := applyOne_occ t op hw ho
    obtain ⟨_, w1⟩ := applyOne_spec t op hw h1
    unfold applyList
    simp only
    rw [if_pos h1]
    exact ih _ w1 h2

/-! ### the executable TreeInv is order + shape + occupancy -/

theorem sortedB_iff {β : Type} (l : List (Key × β)) : sortedB l = true ↔ Sorted l := by
  induction l with
  | nil => simp [sortedB, Sorted]
  | cons a l ih =>
    cases l with
    | nil => simp [sortedB, Sorted]
    | cons b rest =>
      simp only [sortedB, Bool.and_eq_true, ih]
      constructor
      · rintro ⟨h1, h2⟩
        refine sorted_cons.mpr ⟨?_, h2⟩
        intro x hx
        rcases List.mem_cons.mp hx with rfl | hx
        · exact h1
        · exact keyLt_trans h1 (h2.head_lt x hx)
      · intro h
        exact ⟨h.head_lt b (List.mem_cons.mpr (Or.inl rfl)), h.tail⟩

theorem nodeOk_iff (d : Nat) : ∀ (isRoot : Bool) (n : Node V),
    nodeOk isRoot d n = true ↔ WF d n ∧ Occ (if isRoot = true then rootLb d else MIDDLE) d n := by
  induction d with
  | zero =>
    intro isRoot n
    cases isRoot <;>
      simp [nodeOk, WF, Occ, rootLb, List.isEmpty_iff, and_assoc, and_comm, and_left_comm]
  | succ d ih =>
    intro isRoot n
    have hall : (n.children.all (nodeOk false d) = true) ↔
        (∀ c ∈ n.children, WF d c) ∧ (∀ c ∈ n.children, Occ MIDDLE d c) := by
      rw [List.all_eq_true]
      constructor
      · intro h
        exact ⟨fun c hc => ((ih false c).mp (h c hc)).1,
          fun c hc => by simpa using ((ih false c).mp (h c hc)).2⟩
      · rintro ⟨h1, h2⟩ c hc
        exact (ih false c).mpr ⟨h1 c hc, by simpa using h2 c hc⟩
    cases isRoot
    · simp only [nodeOk, Bool.and_eq_true, decide_eq_true_eq, hall, WF, Occ, Bool.false_eq_true,
        if_false]
      constructor
      · rintro ⟨⟨⟨h1, h2⟩, h3⟩, h4, h5⟩; exact ⟨⟨h1, h4⟩, h3, h2, h5⟩
      · rintro ⟨⟨h1, h4⟩, h3, h2, h5⟩; exact ⟨⟨⟨h1, h2⟩, h3⟩, h4, h5⟩
    · simp only [nodeOk, Bool.and_eq_true, decide_eq_true_eq, hall, WF, Occ, if_true, rootLb,
        Nat.add_eq_zero_iff, Nat.succ_ne_zero, and_false, if_false]
      constructor
      · rintro ⟨⟨⟨h1, h2⟩, h3⟩, h4, h5⟩; exact ⟨⟨h1, h4⟩, h3, h2, h5⟩
      · rintro ⟨⟨h1, h4⟩, h3, h2, h5⟩; exact ⟨⟨⟨h1, h2⟩, h3⟩, h4, h5⟩

theorem treeInvB_iff (t : Tree V) : treeInvB t = true ↔ TreeWF t ∧ TreeOcc t := by
  unfold treeInvB TreeWF TreeOcc
  rw [Bool.and_eq_true, nodeOk_iff, sortedB_iff]
  simp only [if_true]
  constructor
  · rintro ⟨⟨h1, h2⟩, h3⟩; exact ⟨⟨h1, h3⟩, h2⟩
  · rintro ⟨⟨h1, h3⟩, h2⟩; exact ⟨⟨h1, h2⟩, h3⟩

/-- Full refinement and invariant preservation for a transaction. -/
theorem applyChanges_full (t : Tree V) (cs : List (Op V)) (h : treeInvB t = true) :
    (applyChanges t cs).2 = true ∧
    (applyChanges t cs).1.toList = specApply cs t.toList ∧
    treeInvB (applyChanges t cs).1 = true := by
  obtain ⟨hw, ho⟩ := (treeInvB_iff t).mp h
  have h1 : (applyChanges t cs).2 = true ∧ TreeOcc (applyChanges t cs).1 := by
    unfold applyChanges; exact applyList_occ _ t hw ho
  obtain ⟨e, w⟩ := applyChanges_spec t cs hw h1.1
  exact ⟨h1.1, e, (treeInvB_iff _).mpr ⟨w, h1.2⟩⟩

end Pdb.C04
