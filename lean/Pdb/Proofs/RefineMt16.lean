/-
R6 lemmas, part 16: histories of single-operation transactions (each committed and processed) on a plain multitree column.
-/
import Pdb.Proofs.RefineMt15

namespace Pdb.MultiTreePhys
open Pdb.Gen Pdb.ValueTable Pdb.MultiTree

/-- commit one single-operation transaction and process it -/
def stepTx (db : PDb) (op : POp) : PDb := ((db.commit [op]).1.process).1

/-- C10's result (`applyChangeSetH`) of the change set the physical commit queued -/
def absStep (db : PDb) (h : Heap Key Bytes) (op : POp) : Heap Key Bytes :=
  match (db.commit [op]).1.queue with
  | [cs] => okOr h (applyChangeSetH .plain h cs)
  | _ => h

/-- legality of one transaction in state (`db`, `h`): C10T's LegalInOrder / DerefLive for a single operation (fresh root key for
    InsertTree, live root for DereferenceTree with a walk that succeeds in C10's model) + what the codec can represent + the
    physical limits (room in the tables) -/
def StepLegal (db : PDb) (h : Heap Key Bytes) : POp → Prop
  | .insert k t =>
    k.length = 32 ∧ h.roots.get k = none ∧
    (t.data.length < 2 ^ 63 ∧ t.children.length ≤ 255 ∧ fineRefs t.children) ∧
    (∀ tier, (db.col.vt tier).filled +
      ((tierCounts (tiersRefs db.col.isRc t.children)).map Prod.snd).sum ≤ 2 ^ 56) ∧
    (∀ p1 root chs, physClaimTree db.col t = .ok (p1, root, chs) →
      ∀ tier, (p1.vt tier).filled + rootSlots p1.isRc [.set k root] + slotsNeeded p1.isRc chs ≤ 2 ^ 56)
  | .dereference k => ∃ n c h', h.roots.get k = some (n, c) ∧ derefProcess .plain h k n.children = .ok h'
  | .reference _ => False

def HistLegal : PDb → Heap Key Bytes → List POp → Prop
  | _, _, [] => True
  | db, h, op :: rest => StepLegal db h op ∧ HistLegal (stepTx db op) (absStep db h op) rest

def runTx (db : PDb) (ops : List POp) : PDb := ops.foldl stepTx db

def absRun : PDb → Heap Key Bytes → List POp → Heap Key Bytes
  | _, h, [] => h
  | db, h, op :: rest => absRun (stepTx db op) (absStep db h op) rest

theorem sim_txStep (db : PDb) (h : Heap Key Bytes) (ly : Layout) (r : Rep db.col h ly)
    (hv : db.col.variant = .plain) (hq : db.queue = []) (hce : ∀ tier, ly.claimed tier = []) (op : POp)
    (hl : StepLegal db h op) :
    ∃ ly', Rep (stepTx db op).col (absStep db h op) ly' ∧ (stepTx db op).col.variant = .plain ∧
      (stepTx db op).queue = [] ∧ ∀ tier, ly'.claimed tier = [] := by
  cases op with
  | reference k => exact absurd hl (by simp [StepLegal])
  | insert k t =>
    obtain ⟨hk, hfresh, hfine, hb, hroom⟩ := hl
    obtain ⟨db1, root, chs, h', p', ly1, ly', hc, hq1, _, _, _, happ, hproc, r', hv', hce'⟩ :=
      sim_tx_insert db h ly r hv hq k t hk hfresh hfine hb hroom
    have e1 : stepTx db (.insert k t) = ⟨p', []⟩ := by simp only [stepTx, hc, hproc]
    have e2 : absStep db h (.insert k t) = h' := by simp only [absStep, hc, hq1, happ, okOr]
    rw [e1, e2]
    exact ⟨ly', r', hv', rfl, hce' hce⟩
  | dereference k =>
    obtain ⟨n, c, h', hg, hw⟩ := hl
    obtain ⟨db1, p', ly', hc, _, hq1, happ, hproc, r', hv', hcl⟩ := sim_tx_deref db h h' ly r hv hq k n c hg hw
    have e1 : stepTx db (.dereference k) = ⟨p', []⟩ := by simp only [stepTx, hc, hproc]
    have e2 : absStep db h (.dereference k) = h' := by simp only [absStep, hc, hq1, happ, okOr]
    rw [e1, e2]
    exact ⟨ly', r', hv', rfl, fun tier => by rw [hcl]; exact hce tier⟩

theorem sim_history : ∀ (ops : List POp) (db : PDb) (h : Heap Key Bytes) (ly : Layout), Rep db.col h ly →
    db.col.variant = .plain → db.queue = [] → (∀ tier, ly.claimed tier = []) → HistLegal db h ops →
    ∃ ly', Rep (runTx db ops).col (absRun db h ops) ly' ∧ (runTx db ops).col.variant = .plain ∧
      (runTx db ops).queue = [] ∧ ∀ tier, ly'.claimed tier = [] := by
  intro ops
  induction ops with
  | nil => intro db h ly r hv hq hce _; exact ⟨ly, r, hv, hq, hce⟩
  | cons op rest ih =>
    intro db h ly r hv hq hce hl
    obtain ⟨ly1, r1, hv1, hq1, hce1⟩ := sim_txStep db h ly r hv hq hce op hl.1
    exact ih (stepTx db op) (absStep db h op) ly1 r1 hv1 hq1 hce1 hl.2

end Pdb.MultiTreePhys
