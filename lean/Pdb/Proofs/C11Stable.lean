/-
C11, lock part (patched variant): while a reader holds the lock of a tree, its root and every
present node reachable from it stay exactly as they are; after the unlock the postponed removal
goes through.
-/
import Pdb.Model.ConcRead

set_option linter.unusedSectionVars false
set_option linter.unusedSimpArgs false
set_option linter.unusedVariables false
namespace Pdb
namespace CRd
namespace Tr
variable {K V TK : Type} [DecidableEq K] [DecidableEq TK]

/-! ### reachability -/

theorem reachN_mono_fr (node : Nat → Option (List Nat)) (n : Nat) (F F' : List Nat)
    (h : ∀ x ∈ F, x ∈ F') : ∀ x ∈ reachN node n F, x ∈ reachN node n F' := by
  induction n generalizing F F' with
  | zero => simpa [reachN] using h
  | succ n ih =>
    intro x hx
    simp only [reachN, List.mem_append] at hx ⊢
    rcases hx with hx | hx
    · exact Or.inl (h x hx)
    · right
      refine ih _ _ ?_ x hx
      intro y hy
      rw [List.mem_flatMap] at hy ⊢
      obtain ⟨a, ha, hya⟩ := hy
      exact ⟨a, h a ha, hya⟩

theorem mem_reachN_frontier (node : Nat → Option (List Nat)) (n : Nat) (F : List Nat) (x : Nat)
    (h : x ∈ F) : x ∈ reachN node n F := by
  cases n with
  | zero => simpa [reachN] using h
  | succ n => simp only [reachN, List.mem_append]; exact Or.inl h

theorem reachN_mono_node (node node' : Nat → Option (List Nat)) (n : Nat) (F : List Nat)
    (h : ∀ a ∈ reachN node n F, (node a).isSome → node' a = node a) :
    ∀ x ∈ reachN node n F, x ∈ reachN node' n F := by
  induction n generalizing F with
  | zero => intro x hx; simpa [reachN] using hx
  | succ n ih =>
    intro x hx
    simp only [reachN, List.mem_append] at hx ⊢
    rcases hx with hx | hx
    · exact Or.inl hx
    · right
      have h1 : ∀ a ∈ reachN node n (F.flatMap fun a => (node a).getD []),
          (node a).isSome → node' a = node a := by
        intro a ha hs
        apply h a _ hs
        simp only [reachN, List.mem_append]
        exact Or.inr ha
      have h2 := ih _ h1 x hx
      refine reachN_mono_fr node' n _ _ ?_ x h2
      intro y hy
      rw [List.mem_flatMap] at hy ⊢
      obtain ⟨a, ha, hya⟩ := hy
      refine ⟨a, ha, ?_⟩
      cases hn : node a with
      | none => rw [hn] at hya; simp at hya
      | some ch =>
        have := h a (by simp only [reachN, List.mem_append]; exact Or.inl ha) (by simp [hn])
        rw [this]
        exact hya

/-! ### effects of inserts and dereferences on the forest -/

theorem insertTree_root_other (f : Forest TK) (ins : Ins TK) (x : TK) (h : x ≠ ins.1) :
    (insertTree f ins).root x = f.root x := by
  simp [insertTree, h]

theorem insertTree_node_other (f : Forest TK) (ins : Ins TK) (a : Nat) (h : a ∉ insAddrs ins) :
    (insertTree f ins).node a = f.node a := by
  simp only [insertTree]
  have : ins.2.2.find? (fun p => decide (p.1 = a)) = none := by
    rw [List.find?_eq_none]
    intro p hp
    simp only [decide_eq_true_eq]
    intro e
    apply h
    simp only [insAddrs, List.mem_map]
    exact ⟨p, hp, e⟩
  rw [this]
  rfl

theorem insFold_root_other (l : List (Ins TK)) (f : Forest TK) (x : TK) (h : x ∉ l.map (·.1)) :
    (l.foldl insertTree f).root x = f.root x := by
  induction l generalizing f with
  | nil => rfl
  | cons i l ih =>
    simp only [List.map_cons, List.mem_cons, not_or] at h
    simp only [List.foldl_cons]
    rw [ih _ h.2, insertTree_root_other f i x h.1]

theorem insFold_node_other (l : List (Ins TK)) (f : Forest TK) (a : Nat)
    (h : a ∉ l.flatMap insAddrs) : (l.foldl insertTree f).node a = f.node a := by
  induction l generalizing f with
  | nil => rfl
  | cons i l ih =>
    simp only [List.flatMap_cons, List.mem_append, not_or] at h
    simp only [List.foldl_cons]
    rw [ih _ h.2, insertTree_node_other f i a h.1]

theorem insFold_rootKeys_mem (l : List (Ins TK)) (f : Forest TK) (k : TK) :
    k ∈ (l.foldl insertTree f).rootKeys ↔ k ∈ l.map (·.1) ∨ k ∈ f.rootKeys := by
  induction l generalizing f with
  | nil => simp
  | cons i l ih =>
    simp only [List.foldl_cons, List.map_cons, List.mem_cons]
    rw [ih]
    simp only [insertTree, List.mem_cons]
    constructor
    · rintro (h | h | h)
      · exact Or.inl (Or.inr h)
      · exact Or.inl (Or.inl h)
      · exact Or.inr h
    · rintro ((h | h) | h)
      · exact Or.inr (Or.inl h)
      · exact Or.inl h
      · exact Or.inr (Or.inr h)

theorem insFold_root_some (l : List (Ins TK)) (f : Forest TK) (x : TK)
    (h : ((l.foldl insertTree f).root x).isSome) : x ∈ l.map (·.1) ∨ (f.root x).isSome := by
  by_cases hx : x ∈ l.map (·.1)
  · exact Or.inl hx
  · rw [insFold_root_other l f x hx] at h
    exact Or.inr h

theorem derefTree_root (fuel : Nat) (f : Forest TK) (k x : TK) :
    (derefTree fuel f k).root x = if x = k then none else f.root x := by
  unfold derefTree
  cases h : f.root k with
  | none =>
    simp only
    by_cases e : x = k
    · subst e; simp [h]
    · simp [e]
  | some ch => simp

theorem derefTree_rootKeys (fuel : Nat) (f : Forest TK) (k : TK) :
    (derefTree fuel f k).rootKeys = f.rootKeys := by
  unfold derefTree
  cases h : f.root k <;> simp

theorem derefTree_node_cases (fuel : Nat) (f : Forest TK) (k : TK) (a : Nat) :
    (derefTree fuel f k).node a = f.node a ∨ (derefTree fuel f k).node a = none := by
  unfold derefTree
  cases h : f.root k with
  | none => left; rfl
  | some ch =>
    simp only
    split
    · left; rfl
    · right; rfl

theorem derefFold_root_cases (fuel : Nat) (ks : List TK) (f : Forest TK) (x : TK) :
    (ks.foldl (derefTree fuel) f).root x = f.root x ∨ (ks.foldl (derefTree fuel) f).root x = none := by
  induction ks generalizing f with
  | nil => left; rfl
  | cons k ks ih =>
    simp only [List.foldl_cons]
    rcases ih (derefTree fuel f k) with h | h
    · rw [h, derefTree_root]
      by_cases e : x = k
      · right; simp [e]
      · left; simp [e]
    · right; exact h

theorem derefFold_node_cases (fuel : Nat) (ks : List TK) (f : Forest TK) (a : Nat) :
    (ks.foldl (derefTree fuel) f).node a = f.node a ∨ (ks.foldl (derefTree fuel) f).node a = none := by
  induction ks generalizing f with
  | nil => left; rfl
  | cons k ks ih =>
    simp only [List.foldl_cons]
    rcases ih (derefTree fuel f k) with h | h
    · rcases derefTree_node_cases fuel f k a with h2 | h2
      · left; rw [h, h2]
      · right; rw [h, h2]
    · right; exact h

theorem derefFold_rootKeys (fuel : Nat) (ks : List TK) (f : Forest TK) :
    (ks.foldl (derefTree fuel) f).rootKeys = f.rootKeys := by
  induction ks generalizing f with
  | nil => rfl
  | cons k ks ih => simp only [List.foldl_cons]; rw [ih, derefTree_rootKeys]

theorem derefFold_root_mem (fuel : Nat) (ks : List TK) (f : Forest TK) (k : TK) (h : k ∈ ks) :
    (ks.foldl (derefTree fuel) f).root k = none := by
  induction ks generalizing f with
  | nil => simp at h
  | cons k' ks ih =>
    simp only [List.foldl_cons]
    simp only [List.mem_cons] at h
    rcases h with h | h
    · subst h
      rcases derefFold_root_cases fuel ks (derefTree fuel f k) k with e | e
      · rw [e, derefTree_root]; simp
      · exact e
    · exact ih _ h

/-- The walk of other trees leaves everything reachable from a remaining root in place. -/
theorem derefFold_keeps (fuel : Nat) (node0 : Nat → Option (List Nat)) (key : TK) (ch : List Nat)
    (ks : List TK) (f : Forest TK) (hk : key ∉ ks) (hr : f.root key = some ch)
    (hm : key ∈ f.rootKeys)
    (hn : ∀ x ∈ reachN node0 fuel ch, (node0 x).isSome → f.node x = node0 x) :
    (ks.foldl (derefTree fuel) f).root key = some ch ∧
    ∀ x ∈ reachN node0 fuel ch, (node0 x).isSome → (ks.foldl (derefTree fuel) f).node x = node0 x := by
  induction ks generalizing f with
  | nil => exact ⟨hr, hn⟩
  | cons k ks ih =>
    simp only [List.mem_cons, not_or] at hk
    simp only [List.foldl_cons]
    apply ih _ hk.2
    · rw [derefTree_root]; simp [hk.1, hr]
    · rw [derefTree_rootKeys]; exact hm
    · intro x hx hs
      unfold derefTree
      cases hrk : f.root k with
      | none => exact hn x hx hs
      | some chk =>
        simp only
        have hin : x ∈ liveAddrs fuel (fun y => if y = k then none else f.root y) f.node f.rootKeys := by
          unfold liveAddrs
          have h1 : x ∈ reachN f.node fuel ch := reachN_mono_node node0 f.node fuel ch hn x hx
          refine reachN_mono_fr f.node fuel ch _ ?_ x h1
          intro y hy
          rw [List.mem_flatMap]
          refine ⟨key, hm, ?_⟩
          simp [hk.1, hr, hy]
        have : (liveAddrs fuel (fun y => if y = k then none else f.root y) f.node f.rootKeys).contains x = true :=
          List.contains_iff_mem.mpr hin
        rw [this]
        exact hn x hx hs

/-! ### invariant of the patched variant -/

def unpub (s : TSt K V TK) : List (TCommit K V TK) := s.pend.toList ++ s.queue
def insKeys (l : List (TCommit K V TK)) : List TK := l.flatMap (fun c => c.inserts.map (·.1))
def insAd (l : List (TCommit K V TK)) : List Nat := l.flatMap (fun c => c.inserts.flatMap insAddrs)

structure SInv (s : TSt K V TK) : Prop where
  w1 : ∀ k ∈ s.wlocked, s.locked k = 0
  w2 : s.wlocked = (s.pend.map (·.derefs)).getD []
  k2 : ∀ k, (s.root k).isSome → k ∈ s.rootKeys
  k3 : ∀ k ∈ s.rootKeys, k ∈ s.usedKeys
  uk : ∀ k ∈ insKeys (unpub s), s.root k = none ∧ k ∈ s.usedKeys
  ua : ∀ a ∈ insAd (unpub s), s.node a = none ∧ a ∈ s.claimed
  nk : (insKeys (unpub s)).Nodup
  na : (insAd (unpub s)).Nodup

theorem SInv.init : SInv (TSt.init : TSt K V TK) := by
  constructor <;> simp [TSt.init, unpub, insKeys, insAd]

/-- A step that only rearranges the unpublished commits without touching their inserts. -/
theorem unpub_snoc (s' s : TSt K V TK) (c : TCommit K V TK) (h1 : s'.pend = s.pend)
    (h2 : s'.queue = s.queue ++ [c]) : unpub s' = unpub s ++ [c] := by
  simp [unpub, h1, h2, List.append_assoc]

theorem insKeys_snoc (l : List (TCommit K V TK)) (c : TCommit K V TK) :
    insKeys (l ++ [c]) = insKeys l ++ c.inserts.map (·.1) := by
  simp [insKeys]

theorem insAd_snoc (l : List (TCommit K V TK)) (c : TCommit K V TK) :
    insAd (l ++ [c]) = insAd l ++ c.inserts.flatMap insAddrs := by
  simp [insAd]

theorem SInv.rearrange {s s' : TSt K V TK} (h : SInv s)
    (e2 : s'.root = s.root) (e3 : s'.node = s.node)
    (e4 : s'.rootKeys = s.rootKeys) (e5 : s'.usedKeys = s.usedKeys) (e6 : s'.claimed = s.claimed)
    (e7 : insKeys (unpub s') = insKeys (unpub s)) (e8 : insAd (unpub s') = insAd (unpub s))
    (w1 : ∀ k ∈ s'.wlocked, s'.locked k = 0)
    (w2 : s'.wlocked = (s'.pend.map (·.derefs)).getD []) : SInv s' := by
  constructor
  · exact w1
  · exact w2
  · rw [e2, e4]; exact h.k2
  · rw [e4, e5]; exact h.k3
  · rw [e7, e2, e5]; exact h.uk
  · rw [e8, e3, e6]; exact h.ua
  · rw [e7]; exact h.nk
  · rw [e8]; exact h.na

theorem SInv.commit_like {s s' : TSt K V TK} (h : SInv s) (c : TCommit K V TK)
    (e_pend : s'.pend = s.pend) (e_queue : s'.queue = s.queue ++ [c]) (e_root : s'.root = s.root)
    (e_node : s'.node = s.node) (e_rk : s'.rootKeys = s.rootKeys)
    (e_uk : s'.usedKeys = c.inserts.map (·.1) ++ s.usedKeys)
    (e_cl : s'.claimed = c.inserts.flatMap insAddrs ++ s.claimed) (e_locked : s'.locked = s.locked)
    (e_wl : s'.wlocked = s.wlocked)
    (g3' : ∀ i ∈ c.inserts, i.1 ∉ s.usedKeys) (g4' : (c.inserts.map (·.1)).Nodup)
    (g5' : (c.inserts.flatMap insAddrs).Nodup)
    (g6' : ∀ a ∈ c.inserts.flatMap insAddrs, s.node a = none ∧ a ∉ s.claimed) : SInv s' := by
  have eU := unpub_snoc s' s c e_pend e_queue
  constructor
  · rw [e_wl, e_locked]; exact h.w1
  · rw [e_wl, e_pend]; exact h.w2
  · rw [e_root, e_rk]; exact h.k2
  · intro k hk
    rw [e_rk] at hk
    rw [e_uk, List.mem_append]
    exact Or.inr (h.k3 k hk)
  · intro k hk
    rw [eU, insKeys_snoc, List.mem_append] at hk
    rw [e_root, e_uk, List.mem_append]
    rcases hk with hk | hk
    · have := h.uk k hk
      exact ⟨this.1, Or.inr this.2⟩
    · refine ⟨?_, Or.inl hk⟩
      obtain ⟨i, hi, e⟩ := List.mem_map.mp hk
      cases hr : s.root k with
      | none => rfl
      | some ch =>
        have := h.k3 k (h.k2 k (by simp [hr]))
        rw [← e] at this
        exact absurd this (g3' i hi)
  · intro a ha
    rw [eU, insAd_snoc, List.mem_append] at ha
    rw [e_node, e_cl, List.mem_append]
    rcases ha with ha | ha
    · have := h.ua a ha
      exact ⟨this.1, Or.inr this.2⟩
    · exact ⟨(g6' a ha).1, Or.inl ha⟩
  · rw [eU, insKeys_snoc, List.nodup_append]
    refine ⟨h.nk, g4', ?_⟩
    intro k hk k' hk' e
    subst e
    obtain ⟨i, hi, e⟩ := List.mem_map.mp hk'
    have := (h.uk k hk).2
    rw [← e] at this
    exact g3' i hi this
  · rw [eU, insAd_snoc, List.nodup_append]
    refine ⟨h.na, g5', ?_⟩
    intro a ha a' ha' e
    subst e
    exact (g6' a ha').2 (h.ua a ha).2

theorem SInv.step {kind : K → Kind} {fuel : Nat} {s : TSt K V TK} (h : SInv s)
    (a : TAct K V TK) : SInv (tstep .patched kind fuel s a) := by
  cases a with
  | commit ops derefs inserts =>
    simp only [tstep]
    split
    · exact h
    · split
      · exact h
      · split
        · exact h
        · split
          · exact h
          · split
            · exact h
            · split
              · exact h
              · rename_i g1 g2 g3 g4 g5 g6
                have g3' : ∀ i ∈ inserts, i.1 ∉ s.usedKeys := by
                  intro i hi
                  have g : (inserts.all fun i => !s.usedKeys.contains i.1) = true := by simpa using g3
                  have := (List.all_eq_true.mp g) i hi
                  simpa using this
                have g4' : (inserts.map (·.1)).Nodup := by simpa using g4
                have g5' : (inserts.flatMap insAddrs).Nodup := by simpa using g5
                have g6' : ∀ a ∈ inserts.flatMap insAddrs, s.node a = none ∧ a ∉ s.claimed := by
                  intro a ha
                  have g : ((inserts.flatMap insAddrs).all
                      fun a => (s.node a).isNone && !s.claimed.contains a) = true := by simpa using g6
                  have := (List.all_eq_true.mp g) a ha
                  simpa using this
                exact SInv.commit_like h _ rfl rfl rfl rfl rfl rfl rfl rfl rfl g3' g4' g5' g6'
  | process =>
    simp only [tstep, process]
    split
    · rename_i c rest hp hq
      have hw : s.wlocked = [] := by rw [h.w2, hp]; rfl
      split
      · skip
        split
        · rename_i hem
          simp only [Bool.and_eq_true, List.isEmpty_iff] at hem
          apply SInv.rearrange h
          · rfl
          · rfl
          · rfl
          · rfl
          · rfl
          · simp [unpub, insKeys, hp, hq, hem.2]
          · simp [unpub, insAd, hp, hq, hem.2]
          · exact h.w1
          · simp only [hp]; exact hw
        · apply SInv.rearrange h
          · rfl
          · rfl
          · rfl
          · rfl
          · rfl
          · simp [unpub, insKeys, hp, hq]
          · simp [unpub, insAd, hp, hq]
          · exact h.w1
          · simp only [Option.map_some, Option.getD_some]; exact hw
      · rename_i hnd
        apply SInv.rearrange h
        · rfl
        · rfl
        · rfl
        · rfl
        · rfl
        · simp [unpub, insKeys, hp, hq]
        · simp [unpub, insAd, hp, hq]
        · intro k hk
          simp only at hk ⊢
          have : ¬ (mustDefer s rest k = true) := by
            intro hm
            apply hnd
            rw [List.any_eq_true]
            exact ⟨k, hk, hm⟩
          simp only [mustDefer, Bool.or_eq_true, decide_eq_true_eq, not_or] at this
          omega
        · simp
    · exact h
  | publish =>
    simp only [tstep, publish]
    split
    · exact h
    · rename_i c hp
      have hU : unpub s = c :: s.queue := by simp [unpub, hp]
      have hnk := h.nk
      have hna := h.na
      rw [hU] at hnk hna
      simp only [insKeys, insAd, List.flatMap_cons] at hnk hna
      rw [List.nodup_append] at hnk hna
      have hukc : ∀ k ∈ c.inserts.map (·.1), s.root k = none ∧ k ∈ s.usedKeys := by
        intro k hk
        apply h.uk k
        rw [hU]; simp only [insKeys, List.flatMap_cons, List.mem_append]; exact Or.inl hk
      constructor
      · intro k hk; simp at hk
      · simp
      · intro k hk
        simp only [applyTrees] at hk ⊢
        rw [derefFold_rootKeys, insFold_rootKeys_mem]
        rcases derefFold_root_cases fuel c.derefs (c.inserts.foldl insertTree ⟨s.root, s.node, s.rootKeys⟩) k with e | e
        · rw [e] at hk
          rcases insFold_root_some c.inserts _ k hk with h1 | h1
          · exact Or.inl h1
          · exact Or.inr (h.k2 k h1)
        · rw [e] at hk; simp at hk
      · intro k hk
        simp only [applyTrees] at hk
        rw [derefFold_rootKeys, insFold_rootKeys_mem] at hk
        rcases hk with hk | hk
        · exact (hukc k hk).2
        · exact h.k3 k hk
      · intro k hk
        simp only [unpub, List.nil_append, Option.toList_none] at hk
        have hk0 := h.uk k (by rw [hU]; simp only [insKeys, List.flatMap_cons, List.mem_append]; exact Or.inr hk)
        refine ⟨?_, hk0.2⟩
        simp only [applyTrees]
        have hnotc : k ∉ c.inserts.map (·.1) := fun hc => hnk.2.2 k hc k hk rfl
        rcases derefFold_root_cases fuel c.derefs (c.inserts.foldl insertTree ⟨s.root, s.node, s.rootKeys⟩) k with e | e
        · rw [e, insFold_root_other c.inserts _ k hnotc]; exact hk0.1
        · exact e
      · intro a ha
        simp only [unpub, List.nil_append, Option.toList_none] at ha
        have ha0 := h.ua a (by rw [hU]; simp only [insAd, List.flatMap_cons, List.mem_append]; exact Or.inr ha)
        have hnotc : a ∉ c.inserts.flatMap insAddrs := fun hc => hna.2.2 a hc a ha rfl
        constructor
        · simp only [applyTrees]
          rcases derefFold_node_cases fuel c.derefs (c.inserts.foldl insertTree ⟨s.root, s.node, s.rootKeys⟩) a with e | e
          · rw [e, insFold_node_other c.inserts _ a hnotc]; exact ha0.1
          · exact e
        · simp only [List.mem_filter]
          refine ⟨ha0.2, ?_⟩
          simp [hnotc]
      · simp only [unpub, Option.toList_none, List.nil_append]
        exact hnk.2.1
      · simp only [unpub, Option.toList_none, List.nil_append]
        exact hna.2.1
  | lock key =>
    simp only [tstep]
    split
    · exact h
    · rename_i hc
      apply SInv.rearrange h
      · rfl
      · rfl
      · rfl
      · rfl
      · rfl
      · rfl
      · rfl
      · intro k hk
        simp only at hk ⊢
        have hne : k ≠ key := by
          intro e; subst e
          exact hc (List.contains_iff_mem.mpr hk)
        simp [hne, h.w1 k hk]
      · exact h.w2
  | unlock key =>
    simp only [tstep]
    apply SInv.rearrange h
    · rfl
    · rfl
    · rfl
    · rfl
    · rfl
    · rfl
    · rfl
    · intro k hk
      simp only at hk ⊢
      have := h.w1 k hk
      by_cases e : k = key
      · subst e; simp; omega
      · simp [e, this]
    · exact h.w2

theorem SInv.run {kind : K → Kind} {fuel : Nat} {s : TSt K V TK} (h : SInv s)
    (as : List (TAct K V TK)) : SInv (trun .patched kind fuel s as) := by
  induction as generalizing s with
  | nil => exact h
  | cons a as ih => exact ih (h.step a)

/-! ### stability under a held lock -/

/-- Relative to the reference state `s0`: the root of `key` and every node that was present
    and reachable from it (within the depth bound) are as in `s0`. -/
def Stable (fuel : Nat) (s0 s : TSt K V TK) (key : TK) : Prop :=
  s.root key = s0.root key ∧
  ∀ x ∈ reachN s0.node fuel ((s0.root key).getD []), (s0.node x).isSome → s.node x = s0.node x

theorem stable_step {kind : K → Kind} {fuel : Nat} {s0 s : TSt K V TK} {key : TK} (h : SInv s)
    (hs : Stable fuel s0 s key) (hr : (s0.root key).isSome) (hl : 0 < s.locked key)
    (a : TAct K V TK) : Stable fuel s0 (tstep .patched kind fuel s a) key := by
  cases a with
  | commit ops derefs inserts =>
    simp only [tstep]
    repeat (first | exact hs | split)
  | process =>
    simp only [tstep, process]
    repeat (first | exact hs | split)
  | lock k =>
    simp only [tstep]
    repeat (first | exact hs | split)
  | unlock k => exact hs
  | publish =>
    simp only [tstep, publish]
    split
    · exact hs
    · rename_i c hp
      obtain ⟨ch, hch⟩ := Option.isSome_iff_exists.mp hr
      have hroot : s.root key = some ch := by rw [hs.1, hch]
      -- the planner holds the write locks of the trees it dereferences: `key` is not one
      have hkd : key ∉ c.derefs := by
        intro hm
        have hw : key ∈ s.wlocked := by rw [h.w2, hp]; exact hm
        have := h.w1 key hw
        omega
      have hU : unpub s = c :: s.queue := by simp [unpub, hp]
      have hkk : key ∉ c.inserts.map (·.1) := by
        intro hm
        have := (h.uk key (by rw [hU]; simp only [insKeys, List.flatMap_cons, List.mem_append]; exact Or.inl hm)).1
        rw [hroot] at this
        simp at this
      have hnodes : ∀ x ∈ reachN s0.node fuel ch, (s0.node x).isSome →
          (c.inserts.foldl insertTree ⟨s.root, s.node, s.rootKeys⟩).node x = s0.node x := by
        intro x hx hsome
        have hsx : s.node x = s0.node x := hs.2 x (by rw [hch]; exact hx) hsome
        have hnot : x ∉ c.inserts.flatMap insAddrs := by
          intro hm
          have := (h.ua x (by rw [hU]; simp only [insAd, List.flatMap_cons, List.mem_append]; exact Or.inl hm)).1
          rw [hsx] at this
          rw [this] at hsome
          simp at hsome
        rw [insFold_node_other c.inserts _ x hnot]
        exact hsx
      have hkeep := derefFold_keeps fuel s0.node key ch c.derefs
        (c.inserts.foldl insertTree ⟨s.root, s.node, s.rootKeys⟩) hkd
        (by rw [insFold_root_other c.inserts _ key hkk]; exact hroot)
        (by rw [insFold_rootKeys_mem]; exact Or.inr (h.k2 key (by simp [hroot])))
        hnodes
      constructor
      · simp only [applyTrees]
        rw [hkeep.1, hch]
      · intro x hx hsome
        simp only [applyTrees]
        rw [hch] at hx
        exact hkeep.2 x hx hsome

/-- The read lock on `key` is held in every state of the run. -/
def lockedThroughout (kind : K → Kind) (fuel : Nat) (key : TK) :
    TSt K V TK → List (TAct K V TK) → Prop
  | s, [] => 0 < s.locked key
  | s, a :: as => 0 < s.locked key ∧ lockedThroughout kind fuel key (tstep .patched kind fuel s a) as

theorem stable_run {kind : K → Kind} {fuel : Nat} {s0 s : TSt K V TK} {key : TK} (h : SInv s)
    (hs : Stable fuel s0 s key) (hr : (s0.root key).isSome) (as : List (TAct K V TK))
    (hl : lockedThroughout kind fuel key s as) :
    Stable fuel s0 (trun .patched kind fuel s as) key := by
  induction as generalizing s with
  | nil => exact hs
  | cons a as ih =>
    simp only [lockedThroughout] at hl
    exact ih (h.step a) (stable_step h hs hr hl.1 a) hl.2

/-- Progress: a commit at the head of the queue whose trees are neither locked nor used by a
    later commit is planned by the next `process` and its removals are visible after `publish`. -/
theorem released_completes {kind : K → Kind} {fuel : Nat} (s : TSt K V TK)
    (c : TCommit K V TK) (rest : List (TCommit K V TK)) (hp : s.pend = none)
    (hq : s.queue = c :: rest)
    (hfree : ∀ k ∈ c.derefs, s.locked k = 0 ∧ ∀ c' ∈ rest, k ∉ c'.used) :
    (process .patched kind s).pend = some c ∧
    ∀ k ∈ c.derefs, (publish kind fuel (process .patched kind s)).root k = none := by
  have hnd : c.derefs.any (mustDefer s rest) = false := by
    rw [List.any_eq_false]
    intro k hk
    have := hfree k hk
    simp only [mustDefer, Bool.or_eq_true, decide_eq_true_eq, not_or, Bool.not_eq_true]
    refine ⟨by omega, ?_⟩
    rw [List.any_eq_false]
    intro c' hc'
    simpa using this.2 c' hc'
  have e : process .patched kind s = { s with queue := rest, pend := some c, toDeref := c.derefs.foldl decDeref s.toDeref, wlocked := c.derefs } := by
    simp only [process, hp, hq, hnd]
    rfl
  rw [e]
  refine ⟨rfl, ?_⟩
  intro k hk
  simp only [publish, applyTrees]
  exact derefFold_root_mem fuel c.derefs _ k hk

end Tr
end CRd
end Pdb
