/-
R8 (physical btree column), part 2: a write / removal in ONE value table that keeps the slots of
the chains of a set of owner addresses (what C06's `writeChain_spec` / `removePlan_spec`
guarantee for all other live chains) leaves every entry of these owners, their chains and hence
the abstraction unchanged (frame), and the three primitive steps `physWriteNew`,
`physWriteExisting` (same tier), `physRemove` keep the per-tier `SlotInv` with the owner list
updated (lemmas for `R8_step_*`, Props/RefineBt.lean).
-/
import Pdb.Proofs.RefineBt1
import Pdb.Proofs.C06Remove
import Pdb.Proofs.Refine3
import Pdb.Props.C06

namespace Pdb.BTreePhys
open Pdb.Gen Pdb.ValueTable

/-! ## tables of a column -/

theorem setTbl_same (c : PCol) (τ : Nat) (t : VT) : (c.setTbl τ t).tables τ = t := by
  simp [PCol.setTbl]

theorem setTbl_other (c : PCol) (τ : Nat) (t : VT) (j : Nat) (h : j ≠ τ) :
    (c.setTbl τ t).tables j = c.tables j := by
  simp [PCol.setTbl, h]

theorem setTbl_rc (c : PCol) (τ : Nat) (t : VT) : (c.setTbl τ t).rc = c.rc := rfl

theorem entryAt_other (c : PCol) (τ : Nat) (t : VT) (a : Nat) (h : Address.size_tier a ≠ τ) :
    entryAt (c.setTbl τ t) a = entryAt c a := by
  unfold entryAt
  rw [setTbl_other c τ t _ h]

/-! ## chains -/

theorem walk_head (t : VT) (n i : Nat) : (walk t (n + 1) i).1.headD 0 = i := by
  unfold walk
  cases nextPart t i <;> simp

theorem chainOf_isChain (t : VT) (ch : List Nat) (h : IsChain t ch) (hl : ch.length ≤ t.filled) :
    chainOf t (ch.headD 0) = ch := by
  cases ch with
  | nil => exact absurd h (by simp [IsChain])
  | cons a r =>
    unfold chainOf
    rw [List.headD_cons, walk_spec t t.filled a r h]
    exact List.take_of_length_le hl

theorem chainOf_head (t : VT) (i : Nat) (h : 0 < t.filled) : (chainOf t i).headD 0 = i := by
  unfold chainOf
  obtain ⟨n, hn⟩ : ∃ n, t.filled = n + 1 := ⟨t.filled - 1, by omega⟩
  rw [hn]; exact walk_head t n i

theorem mem_tierChains (c : PCol) (own : List Nat) (τ : Nat) (ch : List Nat) :
    ch ∈ tierChains c own τ ↔
      ∃ a ∈ own, Address.size_tier a = τ ∧ ch = chainOf (c.tables τ) (Address.offset a) := by
  unfold tierChains
  simp only [List.mem_map, List.mem_filter, beq_iff_eq]
  constructor
  · rintro ⟨a, ⟨h1, h2⟩, rfl⟩; exact ⟨a, h1, h2, rfl⟩
  · rintro ⟨a, h1, h2, rfl⟩; exact ⟨a, ⟨h1, h2⟩, rfl⟩

theorem tierChains_cons_same (c : PCol) (own : List Nat) (a τ : Nat) (h : Address.size_tier a = τ) :
    tierChains c (a :: own) τ = chainOf (c.tables τ) (Address.offset a) :: tierChains c own τ := by
  unfold tierChains
  simp [h]

theorem tierChains_cons_other (c : PCol) (own : List Nat) (a τ : Nat) (h : Address.size_tier a ≠ τ) :
    tierChains c (a :: own) τ = tierChains c own τ := by
  unfold tierChains
  simp [h]

theorem tierChains_other (c : PCol) (own : List Nat) (τ τ' : Nat) (t : VT) (h : τ' ≠ τ) :
    tierChains (c.setTbl τ t) own τ' = tierChains c own τ' := by
  unfold tierChains
  rw [setTbl_other c τ t τ' h]

/-- what `SlotInv` gives about one listed chain -/
theorem _root_.Pdb.ValueTable.SlotInv.chain_facts {t : VT} {F : List Nat} {L : List (List Nat)} (h : SlotInv t F L)
    (ch : List Nat) (hc : ch ∈ L) : IsChain t ch ∧ ch.length ≤ t.filled ∧ 0 < t.filled := by
  have h1 := h.chains ch hc
  have h2 := length_le_flatten L ch hc
  have h3 := h.count
  exact ⟨h1, by omega, by omega⟩

/-! ## frame -/

/-- FRAME.  The table of tier `τ` is replaced by `t'` (same configuration); the chains of the
owners `own` in that tier are chains, fit below both fill marks and keep their slot bytes.  Then
every owner reads as before and owns the same chain. -/
theorem frame (c : PCol) (τ : Nat) (t' : VT) (own : List Nat)
    (hcfg : SameCfg (c.tables τ) t')
    (hch : ∀ ch ∈ tierChains c own τ, IsChain (c.tables τ) ch ∧ ch.length ≤ (c.tables τ).filled ∧
      ch.length ≤ t'.filled)
    (hs : ∀ i ∈ (tierChains c own τ).flatten, t'.slots i = (c.tables τ).slots i) :
    (∀ a ∈ own, entryAt (c.setTbl τ t') a = entryAt c a) ∧
    tierChains (c.setTbl τ t') own τ = tierChains c own τ := by
  have key : ∀ a ∈ own, Address.size_tier a = τ →
      (chainOf (c.tables τ) (Address.offset a)).headD 0 = Address.offset a ∧
      IsChain (c.tables τ) (chainOf (c.tables τ) (Address.offset a)) ∧
      (chainOf (c.tables τ) (Address.offset a)).length ≤ (c.tables τ).filled ∧
      (chainOf (c.tables τ) (Address.offset a)).length ≤ t'.filled ∧
      ∀ x ∈ chainOf (c.tables τ) (Address.offset a), t'.slots x = (c.tables τ).slots x := by
    intro a ha hτ
    have hm : chainOf (c.tables τ) (Address.offset a) ∈ tierChains c own τ :=
      (mem_tierChains c own τ _).mpr ⟨a, ha, hτ, rfl⟩
    obtain ⟨h1, h2, h3⟩ := hch _ hm
    have hne := IsChain_ne_nil _ _ h1
    have hpos : 0 < (c.tables τ).filled := by
      cases hc : chainOf (c.tables τ) (Address.offset a) with
      | nil => exact absurd hc hne
      | cons x r => rw [hc] at h2; simp at h2; omega
    exact ⟨chainOf_head _ _ hpos, h1, h2, h3,
      fun x hx => hs x (List.mem_flatten.mpr ⟨_, hm, hx⟩)⟩
  constructor
  · intro a ha
    by_cases hτ : Address.size_tier a = τ
    · obtain ⟨k1, k2, k3, k4, k5⟩ := key a ha hτ
      unfold entryAt
      rw [hτ, setTbl_same, ← k1]
      rw [readChain_congr (c.tables τ) t' hcfg .noHash _ k2 k5 k3 k4]
    · exact entryAt_other c τ t' a hτ
  · unfold tierChains
    rw [setTbl_same]
    apply List.map_congr_left
    intro a ha
    obtain ⟨ha1, ha2⟩ := List.mem_filter.mp ha
    have hτ : Address.size_tier a = τ := by simpa using ha2
    obtain ⟨k1, k2, k3, k4, k5⟩ := key a ha1 hτ
    have h' : IsChain t' (chainOf (c.tables τ) (Address.offset a)) :=
      IsChain_congr (c.tables τ) t' _ k5 hcfg.2.1 k2
    have := chainOf_isChain t' _ h' k4
    rw [k1] at this
    exact this

/-- the abstraction only looks at the entries of the nodes it decodes -/
theorem valueAt_of_entryAt {decomp : Bytes → Option Bytes} {c c' : PCol} {a : Nat}
    (h : entryAt c' a = entryAt c a) : valueAt decomp c' a = valueAt decomp c a := by
  unfold valueAt; rw [h]

/-! ## pigeonhole: a duplicate-free list of `n - 1` indices in `1 .. n-1` lists all of them -/

theorem nodup_length_le : ∀ (n : Nat) (l : List Nat), l.Nodup → (∀ i ∈ l, 1 ≤ i ∧ i < n) →
    l.length ≤ n - 1 := by
  intro n
  induction n with
  | zero =>
    intro l _ hr
    cases l with
    | nil => simp
    | cons x r => have := hr x (by simp); omega
  | succ n ih =>
    intro l hnd hr
    have hnd' : (l.erase n).Nodup := hnd.erase n
    have hr' : ∀ i ∈ l.erase n, 1 ≤ i ∧ i < n := by
      intro i hi
      have hmem := (hnd.mem_erase_iff).mp hi
      have := hr i hmem.2
      have hne : i ≠ n := hmem.1
      omega
    have h1 := ih (l.erase n) hnd' hr'
    have h2 : l.length ≤ (l.erase n).length + 1 := by
      rw [List.length_erase]
      split <;> omega
    by_cases hn : n = 0
    · subst hn
      cases l with
      | nil => simp
      | cons x r => have := hr x (by simp); omega
    · omega

theorem nodup_range_complete (l : List Nat) (n : Nat) (hnd : l.Nodup)
    (hr : ∀ i ∈ l, 1 ≤ i ∧ i < n) (hc : l.length + 1 = n) (i : Nat) (h1 : 1 ≤ i) (h2 : i < n) :
    i ∈ l := by
  apply Classical.byContradiction
  intro hni
  have hnd' : (i :: l).Nodup := List.nodup_cons.mpr ⟨hni, hnd⟩
  have hr' : ∀ j ∈ i :: l, 1 ≤ j ∧ j < n := by
    intro j hj
    rcases List.mem_cons.mp hj with rfl | hj
    · exact ⟨h1, h2⟩
    · exact hr j hj
  have := nodup_length_le n (i :: l) hnd' hr'
  simp at this
  omega

end Pdb.BTreePhys
