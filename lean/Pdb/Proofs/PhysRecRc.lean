/-
R7 for columns of every kind.  First the GENERIC part: everything R7 says about a record follows
from a value-table frame `VFrame T p p'` between the state before and after (the index part of the
frame holds between any two states), whatever produced the step.  Then the frame of
`RefineRc.rRun` (`write_inc_ref` / `write_dec_ref` rewrite one slot).
-/
import Pdb.Proofs.PhysRecHist
import Pdb.Model.PhysRecRc

namespace Pdb.PhysRec
open Pdb.Gen Pdb.Index Pdb.IndexPage Pdb.ValueTable Pdb.Refine Pdb.RefineRc

/-! ## generic: from a value-table frame -/

theorem frame_of_vframe (T : List (Nat × Nat)) (p p' : PCol) (hf : VFrame T p p') : Frame T p p' := by
  intro l hl hn
  cases l with
  | idx b c i => exact frame_idx _ p p' b c i hl hn
  | val tier s =>
    rw [val_mem_cands] at hn
    simp only [mem]
    exact (hf tier).slots s (by rw [mem_tierSlots]; exact hn)
  | hdr tier =>
    rw [hdr_mem_cands] at hn
    simp only [mem]
    obtain ⟨h1, h2⟩ := (hf tier).hdr (by rw [mem_tierSlots]; exact fun x => hn ⟨0, x⟩)
    rw [h1, h2]

/-- the diff record between two states related by a frame -/
def recOf (T : List (Nat × Nat)) (p p' : PCol) : List Write :=
  diffWrites (cands T p p') (mem p) (mem p')

theorem full_mem_gen (T : List (Nat × Nat)) (p p' q : PCol) (hf : VFrame T p p') (hng : NoGrow p p')
    (hqs : shape q = shape p) (hqm : ∀ l, Loc.Ok l → mem q l = mem p l) :
    (∀ l, Loc.Ok l → mem (applyWrites q (recOf T p p')) l = mem p' l) ∧
      Static q (applyWrites q (recOf T p p')) := by
  have hok : ∀ w ∈ recOf T p p', Write.Ok (shape q) w := by
    rw [hqs]; exact fun w hw => diff_ok T p p' hng w hw
  obtain ⟨hm, hst⟩ := mem_applyWrites _ q hok
  refine ⟨fun l hl => ?_, hst⟩
  rw [hm l hl, mapplys_congr _ _ (mem p) l (hqm l hl)]
  unfold recOf
  rw [mapplys_diff_self]
  split
  · rfl
  · rename_i hn
    exact (frame_of_vframe T p p' hf l hl hn).symm

/-- a history of framed steps without growth, with their diff records -/
inductive HistG : PCol → List (List Write) → PCol → Prop
  | nil (p : PCol) : HistG p [] p
  | cons {p p1 p' : PCol} {T : List (Nat × Nat)} {recs : List (List Write)} :
      VFrame T p p1 → NoGrow p p1 → HistG p1 recs p' → HistG p (recOf T p p1 :: recs) p'

theorem HistG.shape {p recs p'} (h : HistG p recs p') : shape p' = shape p := by
  induction h with
  | nil p => rfl
  | cons _ hng _ ih => exact ih.trans hng

theorem HistG.flatten_ok {p recs p'} (h : HistG p recs p') :
    ∀ w ∈ recs.flatten, Write.Ok (PhysRec.shape p) w := by
  induction h with
  | nil p => intro w hw; cases hw
  | @cons p p1 p' T recs _ hng _ ih =>
    intro w hw
    rw [List.flatten_cons] at hw
    rcases List.mem_append.1 hw with hw | hw
    · exact diff_ok T p p1 hng w hw
    · have := ih w hw
      rwa [hng] at this

theorem HistG.mem {p recs p'} (h : HistG p recs p') :
    ∀ q, PhysRec.shape q = PhysRec.shape p → (∀ l, Loc.Ok l → PhysRec.mem q l = PhysRec.mem p l) →
      (∀ l, Loc.Ok l → PhysRec.mem (applyWrites q recs.flatten) l = PhysRec.mem p' l) ∧
        Static q (applyWrites q recs.flatten) := by
  induction h with
  | nil p => intro q _ hqm; exact ⟨hqm, Static.refl q⟩
  | @cons p p1 p' T recs hf hng _ ih =>
    intro q hqs hqm
    obtain ⟨h1, s1⟩ := full_mem_gen T p p1 q hf hng hqs hqm
    obtain ⟨h2, s2⟩ := ih (applyWrites q (recOf T p p1)) (s1.shape.trans (hqs.trans hng.symm)) h1
    rw [List.flatten_cons, applyWrites_append]
    exact ⟨h2, s1.trans s2⟩

/-- torn enactment + replay of consecutive records of a framed history -/
theorem HistG.redo {p p' : PCol} (pre mid post : List (List Write)) (r : List Write)
    (h : HistG p (pre ++ mid ++ r :: post) p') (j : Nat) (l : Loc) (hl : Loc.Ok l) :
    PhysRec.mem (applyWrites (applyWrites (applyWrites p (pre ++ mid).flatten) (r.take j))
        (mid ++ r :: post).flatten) l = PhysRec.mem p' l := by
  rw [col_redo_seq p pre mid post r j h.flatten_ok l hl]
  exact (h.mem p rfl (fun _ _ => rfl)).1 l hl

/-! ## the frame of `rRun` -/

theorem ite_prod_cases {c : Prop} [Decidable c] (a b : VT × Bool) (P : VT → Prop) (ha : P a.1)
    (hb : P b.1) : P (if c then a else b).1 := by
  split <;> assumption

theorem changeRef_cases (t : VT) (i : Nat) (inc : Bool) :
    (changeRef t i inc).1 = t ∨ ∃ b, (changeRef t i inc).1 = t.setSlot i b := by
  unfold changeRef
  dsimp only
  refine ite_prod_cases _ _ (fun x => x = t ∨ ∃ b, x = t.setSlot i b) (Or.inl rfl) ?_
  exact ite_prod_cases _ _ (fun x => x = t ∨ ∃ b, x = t.setSlot i b) (Or.inl rfl) (Or.inr ⟨_, rfl⟩)

theorem changeRef_frame (t : VT) (i : Nat) (inc : Bool) : TFrame [i] t (changeRef t i inc).1 := by
  rcases changeRef_cases t i inc with h | ⟨b, h⟩
  · rw [h]; exact TFrame.refl _ _
  · rw [h]
    refine ⟨⟨rfl, rfl, rfl⟩, fun j hj => ?_, fun _ => ⟨rfl, rfl⟩⟩
    exact setSlot_ne _ _ _ _ (by simpa using hj)

theorem rIncRef_frame (p : PCol) (a : Nat) :
    VFrame [(Address.size_tier a, Address.offset a)] p (rIncRef p a) := by
  have := VFrame.setVT p (Address.size_tier a)
    (changeRef (p.vt (Address.size_tier a)) (Address.offset a) true).1 [Address.offset a]
    (changeRef_frame _ _ _)
  simpa [rIncRef] using this

theorem pWriteExisting_frame (p : PCol) (k : Key) (op : Option ((Bytes × Bool) × Nat))
    (j sub a : Nat) (p' : PCol) (h : pWriteExisting p k op j sub a = .ok p') :
    VFrame (existingTouched p k op a) p p' := by
  unfold pWriteExisting at h
  split at h
  · obtain ⟨p0, h0, hv⟩ := mapIx_ok h
    exact (pWriteExisting0_frame _ _ _ _ _ _ _ h0).vt_congr hv
  · exact pWriteExisting0_frame _ _ _ _ _ _ _ h

theorem pWriteNew_frame (p : PCol) (k : Key) (tf : (Bytes × Bool) × Nat) (p' : PCol)
    (h : pWriteNew p k tf = .ok p') : VFrame (insTouched p k tf) p p' := by
  unfold pWriteNew at h
  split at h
  · cases h
  · rename_i a p2 hi
    exact (pInsertVal_frame _ _ _ _ _ hi).vt_congr (liftIx_vt h)

theorem rWriteExisting_frame (kind : Pdb.Kind) (cmp : Bytes → Bytes) (thr : Nat) (p : PCol) (k : Key)
    (op : ROp) (j sub a : Nat) (p' : PCol) (h : rWriteExisting kind cmp thr p k op j sub a = .ok p') :
    VFrame (existingTouchedR kind cmp thr p k op a) p p' := by
  unfold rWriteExisting at h
  unfold existingTouchedR
  cases op with
  | ref =>
    simp only at h ⊢
    split at h
    · rename_i hk; rw [if_pos hk]; injection h with h; subst h; exact rIncRef_frame p a
    · rename_i hk; rw [if_neg hk]; injection h with h; subst h; exact VFrame.refl _ _
  | set v =>
    simp only at h ⊢
    split at h
    · rename_i hk; rw [if_pos hk]; injection h with h; subst h; exact rIncRef_frame p a
    · rename_i hk
      rw [if_neg hk]
      split at h
      · rename_i hp; rw [if_pos hp]; injection h with h; subst h; exact VFrame.refl _ _
      · rename_i hp; rw [if_neg hp]; exact pWriteExisting_frame _ _ _ _ _ _ _ h
  | deref =>
    simp only at h ⊢
    split at h
    · rename_i hk
      rw [if_pos hk]
      split at h
      · rename_i hc
        rw [if_pos hc]
        injection h with h; subst h
        have := VFrame.setVT p (Address.size_tier a)
          (changeRef (p.vt (Address.size_tier a)) (Address.offset a) false).1 [Address.offset a]
          (changeRef_frame _ _ _)
        simpa using this
      · rename_i hc; rw [if_neg hc]; exact pWriteExisting_frame _ _ _ _ _ _ _ h
    · rename_i hk; rw [if_neg hk]; exact pWriteExisting_frame _ _ _ _ _ _ _ h

theorem rWrite_frame (kind : Pdb.Kind) (cmp : Bytes → Bytes) (thr : Nat) (p : PCol) (k : Key)
    (op : ROp) (p' : PCol) (h : rWrite kind cmp thr p k op = .ok p') :
    VFrame (vtTouchedR kind cmp thr p k op) p p' := by
  unfold rWrite at h
  unfold vtTouchedR
  split at h
  · rename_i j sub a hs
    simp only [hs]
    exact rWriteExisting_frame _ _ _ _ _ _ _ _ _ _ h
  · rename_i hs
    simp only [hs]
    cases op with
    | set v => exact pWriteNew_frame _ _ _ _ h
    | deref => simp only at h ⊢; injection h with h; subst h; exact VFrame.refl _ _
    | ref => simp only at h ⊢; injection h with h; subst h; exact VFrame.refl _ _

theorem rStep_frame (kind : Pdb.Kind) (cmp : Bytes → Bytes) (thr : Nat) (p : PCol) (a : RAction)
    (p' : PCol) (h : rStep kind cmp thr p a = .ok p') : VFrame (stepTouchedR kind cmp thr p a) p p' := by
  cases a with
  | set k v => exact rWrite_frame kind cmp thr p k (.set v) p' h
  | deref k => exact rWrite_frame kind cmp thr p k .deref p' h
  | ref k => exact rWrite_frame kind cmp thr p k .ref p' h
  | reindex => exact VFrame.of_vt (liftIx_vt h) _
  | enact => simp only [rStep] at h; injection h with h; subst h; exact VFrame.of_vt rfl _
  | reopen => simp only [rStep] at h; injection h with h; subst h; exact VFrame.of_vt rfl _
  | relaunch => simp only [rStep] at h; injection h with h; subst h; exact VFrame.of_vt rfl _

theorem rRun_frame (kind : Pdb.Kind) (cmp : Bytes → Bytes) (thr : Nat) : ∀ (tx : TxR) (p p' : PCol),
    rRun kind cmp thr p tx = .ok p' → VFrame (txTouchedR kind cmp thr p tx) p p' := by
  intro tx
  induction tx with
  | nil => intro p p' h; simp only [rRun] at h; injection h with h; subst h; exact VFrame.refl _ _
  | cons a as ih =>
    intro p p' h
    simp only [rRun] at h
    cases hs : rStep kind cmp thr p a with
    | ok p1 =>
      rw [hs] at h
      simp only [PRes.bind] at h
      simp only [txTouchedR, hs]
      exact (rStep_frame kind cmp thr p a p1 hs).trans (ih p1 p' h)
    | panic => rw [hs] at h; cases h
    | diverge => rw [hs] at h; cases h
    | vtErr e => rw [hs] at h; cases h

theorem runTxR_frame (kind : Pdb.Kind) (cmp : Bytes → Bytes) (thr : Nat) (p p' : PCol) (tx : TxR)
    (h : runTxR kind cmp thr p tx = some p') : VFrame (txTouchedR kind cmp thr p tx) p p' := by
  apply rRun_frame
  unfold runTxR at h
  split at h
  · injection h with h; subst h; assumption
  · cases h

theorem planWritesR_eq (kind : Pdb.Kind) (cmp : Bytes → Bytes) (thr : Nat) (p p' : PCol) (tx : TxR)
    (hrun : runTxR kind cmp thr p tx = some p') :
    planWritesR kind cmp thr p tx = recOf (txTouchedR kind cmp thr p tx) p p' := by
  simp [planWritesR, hrun, recOf]

/-- histories of transactions on a column of kind `kind` -/
inductive HistR (kind : Pdb.Kind) (cmp : Bytes → Bytes) (thr : Nat) :
    PCol → List TxR → List (List Write) → PCol → Prop
  | nil (p : PCol) : HistR kind cmp thr p [] [] p
  | cons {p p1 p' : PCol} {tx : TxR} {txs : List TxR} {recs : List (List Write)} :
      runTxR kind cmp thr p tx = some p1 → NoGrow p p1 → HistR kind cmp thr p1 txs recs p' →
      HistR kind cmp thr p (tx :: txs) (planWritesR kind cmp thr p tx :: recs) p'

theorem HistR.gen {kind cmp thr p txs recs p'} (h : HistR kind cmp thr p txs recs p') :
    HistG p recs p' := by
  induction h with
  | nil p => exact .nil p
  | cons hrun hng _ ih =>
    rw [planWritesR_eq _ _ _ _ _ _ hrun]
    exact .cons (runTxR_frame _ _ _ _ _ _ hrun) hng ih

end Pdb.PhysRec
