/-
C07 / C14 value iteration, part 1: one slot of the scan is the keyed read of that slot with the
key tail the slot itself stores (`fetchSlot_eq`), the loop of `iter_while` is a callback run over
the full enumeration (`iterLoop_eq`), and the enumeration is the `absVT` image of the table in
index order (`scan_abs`).
-/
import Pdb.Model.ValueIter
import Pdb.Proofs.Refine2

namespace Pdb.ValueIter
open Pdb.Gen Pdb.ValueTable Pdb.Refine

/-- a keyed read result as a scan item -/
def ofRead (i : Nat) (tl : Bytes) : Except RdErr (Option (Bytes × Bool × Nat)) → Except RdErr (Option Item)
  | .ok (some (v, c, n)) => .ok (some ⟨i, n, tl, v, c⟩)
  | .ok none => .ok none
  | .error e => .error e

theorem fetchSlot_eq (t : VT) (i : Nat) (hes : PARTIAL_SIZE ≤ t.entrySize) :
    fetchSlot t i = ofRead i (storedTail t i) (readChain t (.partialKey (storedTail t i)) i) := by
  have hes' : ¬ t.entrySize < PARTIAL_SIZE := by omega
  unfold fetchSlot readChain
  simp only [hes', if_false]
  by_cases h1 : isTombstone (t.slots i)
  · simp only [h1, if_true, ofRead]
  simp only [h1, if_false]
  by_cases h2 : t.multipart = true ∧ ¬ isMultiHead (t.slots i)
  · rw [if_pos h2, if_pos h2]; rfl
  rw [if_neg h2, if_neg h2]
  by_cases hm : t.multipart = true ∧ isMulti (t.slots i)
  · have hd : (decide (t.multipart = true ∧ isMulti (t.slots i)) : Bool) = true := decide_eq_true hm
    have hst : storedTail t i =
        ((t.slots i).drop (SIZE_SIZE + INDEX_SIZE + refSize t)).take PARTIAL_SIZE := by
      simp only [storedTail, keyOff, hd, if_true]
    rw [hst]
    simp only [hd, if_true, keyMatches, TKey.encodedSize, or_true, not_true_eq_false, if_false]
    cases hr : readRest t t.filled (linkOf (t.slots i)) with
    | error e => repeat' split
                 all_goals (first | rfl | simp_all [ofRead])
    | ok o =>
      cases o with
      | none => repeat' split
                all_goals (first | rfl | simp_all [ofRead])
      | some r => repeat' split
                  all_goals (first | rfl | simp_all [ofRead])
  · have hd : (decide (t.multipart = true ∧ isMulti (t.slots i)) : Bool) = false := decide_eq_false hm
    have hst : storedTail t i =
        ((t.slots i).drop (SIZE_SIZE + refSize t)).take PARTIAL_SIZE := by
      simp only [storedTail, keyOff, hd, Bool.false_eq_true, if_false]
    rw [hst]
    simp only [hd, Bool.false_eq_true, if_false, if_true, keyMatches, TKey.encodedSize, or_true,
      not_true_eq_false]
    repeat' split
    all_goals (first | rfl | simp_all [ofRead])

/-! ## the loop is a callback run over the enumeration -/

theorem iterLoop_eq {σ : Type} (t : VT) (f : σ → Item → σ × Bool) : ∀ (n i : Nat) (s : σ)
    (items : List Item), scanFrom t n i = .ok items → iterLoop t f n i s = .ok (runCb f s items) := by
  intro n
  induction n with
  | zero =>
    intro i s items h
    simp only [scanFrom] at h
    cases h; rfl
  | succ n ih =>
    intro i s items h
    unfold scanFrom at h
    unfold iterLoop
    cases hf : fetchSlot t i with
    | error e => rw [hf] at h; cases h
    | ok o =>
      rw [hf] at h
      simp only at h
      cases hs : scanFrom t n (i + 1) with
      | error e => rw [hs] at h; cases h
      | ok l =>
        rw [hs] at h
        simp only at h
        cases h
        cases o with
        | none => simp only [Option.toList, List.nil_append]; exact ih (i + 1) s l hs
        | some it =>
          simp only [Option.toList, List.cons_append, List.nil_append, runCb]
          by_cases hgo : (f s it).2 = true
          · rw [if_pos hgo, if_pos hgo]; exact ih (i + 1) _ l hs
          · rw [if_neg hgo, if_neg hgo]

/-- a collecting callback that stops at the first item with `keep = false` has been called with
`takeThrough keep items` -/
theorem runCb_collect (keep : Item → Bool) : ∀ (items acc : List Item),
    runCb (collect keep) acc items = acc ++ takeThrough keep items := by
  intro items
  induction items with
  | nil => intro acc; simp [runCb, takeThrough]
  | cons it l ih =>
    intro acc
    have e1 : (collect keep acc it).2 = keep it := rfl
    have e2 : (collect keep acc it).1 = acc ++ [it] := rfl
    by_cases hk : keep it = true
    · have : runCb (collect keep) acc (it :: l) = runCb (collect keep) (acc ++ [it]) l := by
        show (if (collect keep acc it).2 = true then _ else _) = _
        rw [if_pos (e1.trans hk), e2]
      rw [this, ih (acc ++ [it])]
      simp only [takeThrough, hk, if_true, List.append_assoc, List.cons_append, List.nil_append]
    · have : runCb (collect keep) acc (it :: l) = acc ++ [it] := by
        show (if (collect keep acc it).2 = true then _ else _) = _
        rw [if_neg (by rw [e1]; exact hk), e2]
      rw [this]
      simp only [takeThrough, hk, if_false, Bool.false_eq_true]

theorem takeThrough_prefix (keep : Item → Bool) : ∀ items : List Item,
    takeThrough keep items <+: items := by
  intro items
  induction items with
  | nil => exact List.prefix_refl _
  | cons it l ih =>
    simp only [takeThrough]
    split
    · exact (List.cons_prefix_cons).mpr ⟨rfl, ih⟩
    · exact (List.cons_prefix_cons).mpr ⟨rfl, List.nil_prefix⟩

theorem takeThrough_all (keep : Item → Bool) : ∀ items : List Item,
    (∀ it ∈ items, keep it = true) → takeThrough keep items = items := by
  intro items
  induction items with
  | nil => intro _; rfl
  | cons it l ih =>
    intro h
    simp only [takeThrough]
    rw [if_pos (h it (by simp)), ih (fun x hx => h x (by simp [hx]))]

/-! ## the enumeration, slot by slot -/

/-- what the scan reports for slot `j` -/
def slotItem (t : VT) (j : Nat) : Option Item :=
  match fetchSlot t j with
  | .ok o => o
  | .error _ => none

theorem scanFrom_ok (t : VT) : ∀ (n i : Nat), (∀ j, i ≤ j → j < i + n → ∃ o, fetchSlot t j = .ok o) →
    scanFrom t n i = .ok ((List.range' i n).filterMap (slotItem t)) := by
  intro n
  induction n with
  | zero => intro i _; rfl
  | succ n ih =>
    intro i h
    obtain ⟨o, ho⟩ := h i (Nat.le_refl _) (by omega)
    unfold scanFrom
    rw [ho]
    simp only
    rw [ih (i + 1) (fun j h1 h2 => h j (by omega) (by omega))]
    simp only [List.range'_succ, List.filterMap_cons, slotItem, ho]
    cases o <;> simp

theorem slotItem_some (t : VT) (hes : PARTIAL_SIZE ≤ t.entrySize) (j : Nat) (it : Item)
    (h : slotItem t j = some it) :
    it.index = j ∧ it.tail = storedTail t j ∧
      readChain t (.partialKey it.tail) j = .ok (some (it.value, it.compressed, it.rc)) ∧
      absVT t j = some (it.tail, it.value, it.compressed) := by
  unfold slotItem at h
  rw [fetchSlot_eq t j hes] at h
  cases hr : readChain t (.partialKey (storedTail t j)) j with
  | error e => rw [hr] at h; simp [ofRead] at h
  | ok o =>
    rw [hr] at h
    cases o with
    | none => simp [ofRead] at h
    | some x =>
      obtain ⟨v, c, n⟩ := x
      simp only [ofRead, Option.some.injEq] at h
      subst h
      exact ⟨rfl, rfl, hr, absVT_of_read t _ j v c n hr⟩

/-- the reported item of a readable slot -/
theorem slotItem_of_abs (t : VT) (hes : PARTIAL_SIZE ≤ t.entrySize) (j : Nat) (x : Bytes × Bytes × Bool)
    (h : absVT t j = some x) :
    ∃ n, fetchSlot t j = .ok (some ⟨j, n, x.1, x.2.1, x.2.2⟩) ∧
      readChain t (.partialKey x.1) j = .ok (some (x.2.1, x.2.2, n)) := by
  obtain ⟨tl, v, c⟩ := x
  obtain ⟨n, hn⟩ := read_of_absVT t tl j v c h
  have e := readChain_partial_tail t tl j _ hn
  subst e
  refine ⟨n, ?_, hn⟩
  rw [fetchSlot_eq t j hes, hn]; rfl

theorem fetchSlot_tombstone (t : VT) (j : Nat) (h : isTombstone (t.slots j)) :
    fetchSlot t j = .ok none := by
  unfold fetchSlot; simp only [h, if_true]

theorem fetchSlot_part (t : VT) (j : Nat) (hmp : t.multipart = true) (h : ¬ isMultiHead (t.slots j)) :
    fetchSlot t j = .ok none := by
  unfold fetchSlot
  by_cases h1 : isTombstone (t.slots j)
  · simp only [h1, if_true]
  · rw [if_neg h1, if_pos ⟨hmp, h⟩]

end Pdb.ValueIter
