/-
C02xTx: the invariant of the crash model Model/MultiTreeCrashTx.lean and its preservation by every
command (commit of a legal transaction, process, flush, enact, crash + recovery).

  SnapOk v c i   the disk after replaying the first `i` logged records over the enacted base:
                 its tables are the atomic heap of the first `nEn + i` accepted transactions, and
                 its header after-image (fill mark, free stack) accounts for every slot below the
                 fill mark: free stack, table nodes, the claims the header covers, earlier leaks.
  XInv v c       `SimL` of the memory state (Proofs/C02xTxSim.lean) + the ghost bookkeeping + the
                 tables in memory are the replay of ALL logged records + `SnapOk` at every index +
                 (`qcore`) the atomic heap of every prefix that ends inside the queue is what the
                 tables become when that part of the queue is processed.
-/
import Pdb.Model.MultiTreeCrashTx
import Pdb.Proofs.C02xTxSim

namespace Pdb.MultiTree
set_option linter.unusedSectionVars false
variable {K D : Type} [DecidableEq K]

def snapFold (v : Variant) (x0 : Heap K D × List Addr × List Addr) (rs : List (XRec K D)) :
    Heap K D × List Addr × List Addr := rs.foldl (snapStep v) x0

theorem snapAt_eq (v : Variant) (c : XState K D) (i : Nat) :
    snapAt v c i = snapFold v (c.base, c.baseFree, c.baseClaims) (c.logged.take i) := rfl

theorem snapFold_snoc (v : Variant) (x0 : Heap K D × List Addr × List Addr) (rs : List (XRec K D))
    (r : XRec K D) : snapFold v x0 (rs ++ [r]) = snapStep v (snapFold v x0 rs) r := by
  simp [snapFold, List.foldl_append]

theorem take_snoc_le {α : Type} (l : List α) (x : α) (i : Nat) (h : i ≤ l.length) :
    (l ++ [x]).take i = l.take i := List.take_append_of_le_length h

theorem take_snoc_all {α : Type} (l : List α) (x : α) :
    (l ++ [x]).take (l.length + 1) = l ++ [x] := by
  apply List.take_of_length_le; simp

theorem withNext_withNext (a b : Addr) (h : Heap K D) : withNext a (withNext b h) = withNext a h := rfl

theorem withNext_next (h : Heap K D) : withNext h.next h = h := by cases h; rfl

theorem atomRun_snoc (v : Variant) (hist : List (TxEntry K D)) (e : TxEntry K D) :
    atomRun v (hist ++ [e]) = specTx v (atomRun v hist) e.free e.next e.ops := by
  simp [atomRun, List.foldl_append]

def SnapOk (v : Variant) (c : XState K D) (i : Nat) : Prop :=
  core (atomRun v (c.hist.take (c.nEn + i))) = core (snapAt v c i).1 ∧
  Acct (snapAt v c i).1.next (snapAt v c i).1 (snapAt v c i).2.1 ((snapAt v c i).2.2 ++ c.leaked)

structure XInv (v : Variant) (c : XState K D) : Prop where
  sim : SimL v c.t c.H c.leaked
  hH : c.H = atomRun v c.hist
  len : c.hist.length = c.nEn + c.logged.length + c.t.queue.length
  fl : c.flushed ≤ c.logged.length
  invs : ∀ i, InvR v (atomRun v (c.hist.take i))
  mem : withNext c.t.heap.next (snapAt v c c.logged.length).1 = c.t.heap
  qcore : ∀ j, j ≤ c.t.queue.length →
    core (atomRun v (c.hist.take (c.nEn + c.logged.length + j))) =
      core (drainT v c.t.heap (c.t.queue.take j))
  snaps : ∀ i, i ≤ c.logged.length → SnapOk v c i

theorem xinv_init (v : Variant) : XInv v (XState.init v : XState K D) where
  sim := SimL.init v
  hH := rfl
  len := rfl
  fl := Nat.le_refl _
  invs := fun i => by simp [XState.init, atomRun]; exact InvR.empty v
  mem := rfl
  qcore := fun j hj => by
    have : j = 0 := by simpa [XState.init, TState.init] using hj
    subst this; rfl
  snaps := fun i hi => by
    have : i = 0 := by simpa [XState.init] using hi
    subst this
    exact ⟨rfl, by simpa [XState.init, snapAt, TState.init, queueClaimed] using (SimL.init (K := K) (D := D) v).alloc⟩

/-! ### commit -/

theorem xinv_commit (v : Variant) (c : XState K D) (hi : XInv v c) (ops : List (Op K D))
    (hda : DerefApart ops) (hdl : DerefLive c.H ops)
    (hleg : LegalInOrder v (c.H, c.t.free, c.t.heap.next) ops) :
    XInv v (xstep c (.commit ops)) := by
  have hvar := hi.sim.var
  have sim' := simL_commit v c.t c.H c.leaked hi.sim ops hda hdl hleg
  simp only [xstep]
  rcases hc : c.t.commit ops with ⟨t', res⟩
  cases res with
  | error e => exact hi
  | ok u =>
    cases u
    simp only
    rw [hc] at sim'
    simp only at sim'
    have hok : (c.t.commit ops).2 = .ok () := by rw [hc]
    have hV := (TState.commit_ok_iff c.t ops).mp hok
    have hA : (asmOps c.t.variant c.t.viewRoot c.t.asm0 ops).2 = .ok () :=
      sim_asmOps_ok c.t.variant c.t.viewRoot ops c.t.asm0 hV
    have hshape := commit_shape c.t ops hV hA
    rw [hc] at hshape
    simp only [Prod.mk.injEq, and_true] at hshape
    generalize (asmOps c.t.variant c.t.viewRoot c.t.asm0 ops).1 = a at hshape
    have hq : t'.queue = c.t.queue ++ [a.cs] := by rw [hshape]
    have hheap : t'.heap = withNext a.next c.t.heap := by rw [hshape]; rfl
    have hlen := hi.len
    have hatom : atomRun v (c.hist ++ [⟨ops, c.t.free, c.t.heap.next⟩]) =
        specTx v c.H c.t.free c.t.heap.next ops := by
      rw [atomRun_snoc, ← hi.hH]
    rw [hvar]
    refine ⟨sim', hatom.symm, ?_, hi.fl, ?_, ?_, ?_, ?_⟩
    · simp only [List.length_append, List.length_singleton, hq]; omega
    · intro i
      by_cases h : i ≤ c.hist.length
      · rw [take_snoc_le _ _ _ h]; exact hi.invs i
      · rw [List.take_of_length_le (by simp; omega), hatom]; exact sim'.inv
    · show withNext t'.heap.next (snapAt v c c.logged.length).1 = t'.heap
      rw [hheap, ← hi.mem]; rfl
    · intro j hj
      show core (atomRun v ((c.hist ++ [_]).take (c.nEn + c.logged.length + j))) =
        core (drainT v t'.heap (t'.queue.take j))
      rw [hq] at hj ⊢
      simp only [List.length_append, List.length_singleton] at hj
      by_cases h : j ≤ c.t.queue.length
      · rw [take_snoc_le _ _ _ h, take_snoc_le _ _ _ (by omega), hheap, drainT_withNext,
          core_withNext]
        exact hi.qcore j h
      · have hj' : j = c.t.queue.length + 1 := by omega
        subst hj'
        rw [take_snoc_all, List.take_of_length_le (by simp; omega), hatom, ← hq]
        exact sim'.core
    · intro i hil
      have h1 : c.nEn + i ≤ c.hist.length := by
        have : i ≤ c.logged.length := hil
        omega
      obtain ⟨s1, s2⟩ := hi.snaps i hil
      refine ⟨?_, s2⟩
      show core (atomRun v ((c.hist ++ [_]).take (c.nEn + i))) = core (snapAt v c i).1
      rw [take_snoc_le _ _ _ h1]; exact s1

/-! ### process -/

theorem xinv_process (v : Variant) (c : XState K D) (hi : XInv v c) :
    XInv v (xstep c .process) := by
  have hvar := hi.sim.var
  have sim' := simL_process v c.t c.H c.leaked hi.sim
  simp only [xstep]
  cases hq : c.t.queue with
  | nil => exact hi
  | cons cs q =>
    cases hp : c.t.process with
    | error e => exact hi
    | ok t' =>
      simp only
      rw [hp] at sim'
      simp only [okOr] at sim'
      -- shape of the step
      obtain ⟨t, base, baseFree, logged, flushed, H, hist, nEn, baseClaims, leaked, baseNq⟩ := c
      obtain ⟨sv, heap, free, queue, td⟩ := t
      dsimp only at hq hp hvar sim' ⊢
      subst hq hvar
      simp only [TState.process] at hp
      cases hap : applyChangeSet sv (heap, free) cs with
      | error e => rw [hap] at hp; cases hp
      | ok x =>
        obtain ⟨h, f⟩ := x
        rw [hap] at hp
        simp only [Except.ok.injEq] at hp
        subst hp
        obtain ⟨hstep, hnext⟩ := process_ok_shape sv heap free cs h f hap
        have hmem := hi.mem
        have hlen := hi.len
        simp only [List.length_cons] at hmem hlen
        -- the new snapshot is the new memory heap
        have hsnap : (snapFold sv (base, baseFree, baseClaims)
            (logged ++ [⟨cs, h.next, f, queueClaimed q, q.length⟩])).1 = h := by
          rw [snapFold_snoc]
          simp only [snapStep]
          have hX : withNext heap.next (snapFold sv (base, baseFree, baseClaims) logged).1 = heap := by
            have := hmem
            simp only [snapAt, List.take_length] at this
            exact this
          have h2 : h = withNext heap.next
              (drainStep sv (snapFold sv (base, baseFree, baseClaims) logged).1 cs) := by
            rw [← drainStep_withNext, hX, hstep]
          rw [hnext]; exact h2.symm
        refine ⟨sim', hi.hH, ?_, ?_, hi.invs, ?_, ?_, ?_⟩
        · show hist.length = nEn + (logged ++ [_]).length + q.length
          simp only [List.length_append, List.length_singleton]; omega
        · have := hi.fl
          show flushed ≤ (logged ++ [_]).length
          simp only [List.length_append, List.length_singleton] at this ⊢; omega
        · show withNext h.next (snapAt sv _ (logged ++ [_]).length).1 = h
          simp only [snapAt, List.take_length]
          have := hsnap
          simp only [snapFold] at this
          rw [this]; exact withNext_next h
        · intro j hj
          show core (atomRun sv (hist.take (nEn + (logged ++ [_]).length + j))) =
            core (drainT sv h (q.take j))
          have hj' : j ≤ q.length := hj
          have := hi.qcore (j + 1) (by simp only [List.length_cons]; omega)
          simp only [List.take_succ_cons, drainT_cons, hstep] at this
          rw [← this]
          congr 3
          simp only [List.length_append, List.length_singleton]; omega
        · intro i hil
          simp only [List.length_append, List.length_singleton] at hil
          by_cases h1 : i ≤ logged.length
          · have := hi.snaps i h1
            simp only [SnapOk, snapAt] at this ⊢
            rw [take_snoc_le _ _ _ h1]
            exact this
          · have hi' : i = logged.length + 1 := by omega
            subst hi'
            have hs : ∀ t0 : TState K D, snapAt sv (⟨t0, base, baseFree,
                logged ++ [⟨cs, h.next, f, queueClaimed q, q.length⟩], flushed, H, hist, nEn, baseClaims,
                leaked, baseNq⟩ : XState K D) (logged.length + 1) = (h, f, queueClaimed q) := by
              intro t0
              simp only [snapAt, take_snoc_all]
              have := hsnap
              simp only [snapFold] at this
              rw [List.foldl_append] at this ⊢
              simp only [List.foldl_cons, List.foldl_nil, snapStep] at this ⊢
              rw [this]
            simp only [SnapOk, hs]
            refine ⟨?_, sim'.alloc⟩
            have := hi.qcore 1 (by simp)
            simp only [List.take_succ_cons, List.take_zero, drainT_cons, hstep] at this
            exact this

/-! ### flush, enact -/

theorem xinv_flush (v : Variant) (c : XState K D) (hi : XInv v c) : XInv v (xstep c .flush) :=
  ⟨hi.sim, hi.hH, hi.len, Nat.le_refl _, hi.invs, hi.mem, hi.qcore, hi.snaps⟩

theorem xinv_enact (v : Variant) (c : XState K D) (hi : XInv v c) : XInv v (xstep c .enact) := by
  have hvar := hi.sim.var
  obtain ⟨t, base, baseFree, logged, flushed, H, hist, nEn, baseClaims, leaked, baseNq⟩ := c
  simp only [xstep]
  cases flushed with
  | zero => exact hi
  | succ f =>
    cases logged with
    | nil => exact hi
    | cons r rs =>
      simp only at hvar ⊢
      rw [hvar]
      have hshift : ∀ i, snapAt v (⟨t, withNext r.filled (drainStep v base r.cs), r.free, rs, f, H,
          hist, nEn + 1, r.claims, leaked, r.nq⟩ : XState K D) i =
          snapAt v (⟨t, base, baseFree, r :: rs, f + 1, H, hist, nEn, baseClaims, leaked, baseNq⟩ :
            XState K D) (i + 1) := by
        intro i
        simp only [snapAt, List.take_succ_cons, List.foldl_cons, snapStep]
      have hlen := hi.len
      have hfl := hi.fl
      simp only [List.length_cons] at hlen hfl
      refine ⟨hi.sim, hi.hH, ?_, ?_, hi.invs, ?_, ?_, ?_⟩
      · show hist.length = nEn + 1 + rs.length + t.queue.length
        omega
      · show f ≤ rs.length
        omega
      · show withNext t.heap.next (snapAt v _ rs.length).1 = t.heap
        rw [hshift]; exact hi.mem
      · intro j hj
        show core (atomRun v (hist.take (nEn + 1 + rs.length + j))) = _
        have := hi.qcore j hj
        simp only [List.length_cons] at this
        rw [← this]
        congr 3
        omega
      · intro i hil
        have := hi.snaps (i + 1) (by simp only [List.length_cons]; exact Nat.succ_le_succ hil)
        simp only [SnapOk, hshift] at this ⊢
        have e : nEn + 1 + i = nEn + (i + 1) := by omega
        rw [e]
        exact this

/-! ### crash + recovery -/

theorem kept_bounds (c : XState K D) (n : Nat) (hfl : c.flushed ≤ c.logged.length) :
    c.flushed ≤ kept c n ∧ kept c n ≤ c.logged.length := by
  simp only [kept]; omega

theorem xinv_recover (v : Variant) (c : XState K D) (hi : XInv v c) (i : Nat)
    (hil : i ≤ c.logged.length) : XInv v (xrecover c i) := by
  have hvar := hi.sim.var
  obtain ⟨s1, s2⟩ := hi.snaps i hil
  have hlen := hi.len
  have hm : c.nEn + i ≤ c.hist.length := by omega
  have hsnap0 : ∀ (c' : XState K D), c'.logged = [] →
      snapAt v c' 0 = (c'.base, c'.baseFree, c'.baseClaims) := by
    intro c' _; simp [snapAt]
  simp only [xrecover]
  rw [hvar]
  refine ⟨⟨rfl, ?_, trivial, ?_, hi.invs _⟩, rfl, ?_, Nat.le_refl _, ?_, ?_, ?_, ?_⟩
  · show core (atomRun v (c.hist.take (c.nEn + i))) = core (drainT v (snapAt v c i).1 [])
    exact s1
  · show Acct (snapAt v c i).1.next (snapAt v c i).1 (snapAt v c i).2.1
      (queueClaimed [] ++ ((snapAt v c i).2.2 ++ c.leaked))
    simpa [queueClaimed] using s2
  · show (c.hist.take (c.nEn + i)).length = c.nEn + i + 0 + 0
    rw [List.length_take]; omega
  · intro j
    show InvR v (atomRun v ((c.hist.take (c.nEn + i)).take j))
    rw [List.take_take]; exact hi.invs _
  · show withNext (snapAt v c i).1.next (snapAt v _ 0).1 = (snapAt v c i).1
    rw [hsnap0 _ rfl]; exact withNext_next _
  · intro j hj
    have : j = 0 := by simpa using hj
    subst this
    show core (atomRun v ((c.hist.take (c.nEn + i)).take (c.nEn + i + 0 + 0))) =
      core (drainT v (snapAt v c i).1 [])
    simp only [List.take_take, Nat.add_zero, Nat.min_self]
    exact s1
  · intro j hj
    have : j = 0 := by simpa using hj
    subst this
    simp only [SnapOk]
    rw [hsnap0 _ rfl]
    refine ⟨?_, ?_⟩
    · show core (atomRun v ((c.hist.take (c.nEn + i)).take (c.nEn + i + 0))) = core (snapAt v c i).1
      simp only [List.take_take, Nat.add_zero, Nat.min_self]
      exact s1
    · show Acct (snapAt v c i).1.next (snapAt v c i).1 (snapAt v c i).2.1
        ([] ++ ((snapAt v c i).2.2 ++ c.leaked))
      simpa using s2

theorem xinv_crash (v : Variant) (c : XState K D) (hi : XInv v c) (n : Nat) :
    XInv v (xstep c (.crash n)) :=
  xinv_recover v c hi (kept c n) (kept_bounds c n hi.fl).2

/-! ### runs -/

theorem xinv_run (v : Variant) (cmds : List (XCmd K D)) :
    ∀ (c : XState K D), XInv v c → LegalX v c cmds → XInv v (xrun c cmds) := by
  induction cmds with
  | nil => intro c hi _; exact hi
  | cons cmd cmds ih =>
    intro c hi hl
    simp only [xrun, List.foldl_cons]
    cases cmd with
    | commit ops =>
      simp only [LegalX] at hl
      obtain ⟨⟨hda, hdl, hleg⟩, hl2⟩ := hl
      exact ih _ (xinv_commit v c hi ops hda hdl hleg) hl2
    | process => simp only [LegalX] at hl; exact ih _ (xinv_process v c hi) hl
    | flush => simp only [LegalX] at hl; exact ih _ (xinv_flush v c hi) hl
    | enact => simp only [LegalX] at hl; exact ih _ (xinv_enact v c hi) hl
    | crash n => simp only [LegalX] at hl; exact ih _ (xinv_crash v c hi n) hl

theorem LegalX_append (v : Variant) (a b : List (XCmd K D)) :
    ∀ (c : XState K D), LegalX v c (a ++ b) ↔ (LegalX v c a ∧ LegalX v (xrun c a) b) := by
  induction a with
  | nil => intro c; simp [LegalX, xrun]
  | cons cmd a ih =>
    intro c
    cases cmd <;> simp only [List.cons_append, LegalX, xrun, List.foldl_cons] <;>
      first
        | (rw [ih]; simp only [xrun, and_assoc])
        | skip

/-! ### the Bool mirror of the hypothesis -/

theorem derefApartB_iff (ops : List (Op K D)) : derefApartB ops = true ↔ DerefApart ops := by
  induction ops with
  | nil => simp [derefApartB, DerefApart]
  | cons op ops ih =>
    simp only [derefApartB, DerefApart, Bool.and_eq_true, Bool.or_eq_true, Bool.not_eq_true',
      List.all_eq_true, decide_eq_true_eq, ih]
    refine and_congr ?_ (and_congr ?_ Iff.rfl)
    · constructor
      · intro h hd op' ho hr
        rcases h with h | h
        · rw [h] at hd; cases hd
        · rcases h op' ho with h2 | h2
          · rw [h2] at hr; cases hr
          · exact h2
      · intro h
        cases hd : op.isDeref with
        | false => exact Or.inl rfl
        | true =>
          refine Or.inr (fun op' ho => ?_)
          cases hr : op'.isRef with
          | false => exact Or.inl rfl
          | true => exact Or.inr (h hd op' ho hr)
    · constructor
      · intro h hd op' ho hr
        rcases h with h | h
        · rw [h] at hd; cases hd
        · rcases h op' ho with h2 | h2
          · rw [h2] at hr; cases hr
          · exact h2
      · intro h
        cases hd : op.isInsert with
        | false => exact Or.inl rfl
        | true =>
          refine Or.inr (fun op' ho => ?_)
          cases hr : op'.isDeref with
          | false => exact Or.inl rfl
          | true => exact Or.inr (h hd op' ho hr)

theorem derefLiveB_iff (H : Heap K D) (ops : List (Op K D)) :
    derefLiveB H ops = true ↔ DerefLive H ops := by
  simp only [derefLiveB, DerefLive, List.all_eq_true, Bool.or_eq_true, Bool.not_eq_true']
  constructor
  · intro h op ho hd
    rcases h op ho with h2 | h2
    · rw [h2] at hd; cases hd
    · exact h2
  · intro h op ho
    cases hd : op.isDeref with
    | false => exact Or.inl rfl
    | true => exact Or.inr (h op ho hd)

theorem legalInOrderB_iff (v : Variant) (ops : List (Op K D)) :
    ∀ x : Heap K D × List Addr × Addr, legalInOrderB v x ops = true ↔ LegalInOrder v x ops := by
  induction ops with
  | nil => intro x; simp [legalInOrderB, LegalInOrder]
  | cons op ops ih =>
    intro x
    simp only [legalInOrderB, LegalInOrder, Bool.and_eq_true]
    exact and_congr (Op.legalB_iff x.1 op) (ih _)

theorem legalXB_iff (v : Variant) (cmds : List (XCmd K D)) :
    ∀ c : XState K D, legalXB v c cmds = true ↔ LegalX v c cmds := by
  induction cmds with
  | nil => intro c; simp [legalXB, LegalX]
  | cons cmd cmds ih =>
    intro c
    cases cmd with
    | commit ops =>
      simp only [legalXB, LegalX, txLegalB, Bool.and_eq_true, derefApartB_iff, derefLiveB_iff,
        legalInOrderB_iff, ih]
    | process => simp only [legalXB, LegalX, ih]
    | flush => simp only [legalXB, LegalX, ih]
    | enact => simp only [legalXB, LegalX, ih]
    | crash n => simp only [legalXB, LegalX, ih]

end Pdb.MultiTree
