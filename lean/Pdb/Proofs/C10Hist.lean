/-
C10: histories of atomic tree operations and command sequences of the pipeline model.
-/
import Pdb.Proofs.C10Pipe

namespace Pdb.MultiTree
set_option linter.unusedSectionVars false
variable {K D : Type} [DecidableEq K]

def applyOp (v : Variant) (h : Heap K D) : Op K D → Except Err (Heap K D)
  | .insert k t => insertTree v h k t
  | .reference k => referenceTree v h k
  | .dereference k => dereferenceTree v h k

/-- The property's side conditions on one operation. -/
def Op.legal (h : Heap K D) : Op K D → Prop
  | .insert k t => h.roots.get k = none ∧ t.children.live h
  | _ => True

/-- A rejected operation leaves the heap as it was. -/
def stepOp (v : Variant) (h : Heap K D) (op : Op K D) : Heap K D :=
  okOr h (applyOp v h op)

def runOps (v : Variant) : Heap K D → List (Op K D) → Heap K D
  | h, [] => h
  | h, op :: ops => runOps v (stepOp v h op) ops

def LegalRun (v : Variant) : Heap K D → List (Op K D) → Prop
  | _, [] => True
  | h, op :: ops => op.legal h ∧ LegalRun v (stepOp v h op) ops

theorem stepOp_inv (v : Variant) (h : Heap K D) (op : Op K D) (hi : Inv v h) (hl : op.legal h) :
    Inv v (stepOp v h op) := by
  simp only [stepOp, okOr]
  split
  · rename_i h' he
    cases op with
    | insert k t => exact insertTree_inv v h h' k t hi hl.2 hl.1 he
    | reference k => exact referenceTree_inv v h h' k hi he
    | dereference k =>
      simp only [applyOp] at he
      by_cases hv : v = .appendOnly
      · simp [dereferenceTree, hv] at he
      · cases hk : h.roots.get k with
        | none => simp [dereferenceTree, hv, hk] at he
        | some e =>
          obtain ⟨h2, e2, hi2, _⟩ := dereferenceTree_ok v h k hv hi e.1 e.2 hk
          rw [e2] at he
          simp only [Except.ok.injEq] at he
          subst he
          exact hi2
  · exact hi

inductive Cmd (K D : Type) where
  | commit (op : Op K D)
  | process

def cmdStep (s : PState K D) : Cmd K D → PState K D
  | .commit (.insert k t) => okOr s (commitInsert s k t)
  | .commit (.reference k) => okOr s (commitRef s k)
  | .commit (.dereference k) => okOr s (commitDeref s k)
  | .process => okOr s (processOne s)

def committedOps : List (Cmd K D) → List (Op K D)
  | [] => []
  | .commit op :: cs => op :: committedOps cs
  | .process :: cs => committedOps cs


end Pdb.MultiTree
