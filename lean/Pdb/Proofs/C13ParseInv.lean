/-
C13 helper lemmas, part 3: inversion.  Whatever the bytes are, a record accepted by
`parseRecord` is a whole encoded record: the consumed bytes are exactly `encodeRecord crc r`
(in particular the stored checksum is the CRC of the body), its id continues the sequence
and it is well formed.
-/
import Pdb.Proofs.C13Parse

namespace Pdb.Wal
open Pdb.Gen

theorem leBytes_mod (k n : Nat) : leBytes k (n % 256 ^ k) = leBytes k n := by
  have := leBytes_leVal (leBytes k n)
  rwa [length_leBytes, leVal_leBytes] at this

theorem op_eq {op : Bytes} {o : Nat} (hl : op.length = 1) (h : leVal op = o) :
    op = leBytes 1 o := by
  subst h; exact eq_leBytes_of_length hl

/-- closes the branches of `next` that produce another constructor -/
local macro "wrong_branch" h:ident : tactic =>
  `(tactic| repeat (first | cases $h:ident | split at $h:ident))

theorem next_inv_begin {crc : Bytes → Nat} {rd rd' : Reader} {id : Nat}
    (h : next crc rd = .begin id rd') :
    id < U64 ∧ rd.rest = leBytes 1 BEGIN_RECORD ++ (leBytes 8 id ++ rd'.rest) ∧
      rd'.consumed = rd.consumed ++ (leBytes 1 BEGIN_RECORD ++ leBytes 8 id) := by
  unfold next at h
  split at h
  · cases h
  · rename_i op rd1 h1
    obtain ⟨l1, r1, c1⟩ := read_some h1
    simp only at h
    split at h
    · rename_i ho
      split at h
      · cases h
      · rename_i b rd2 h2
        cases h
        obtain ⟨l2, r2, c2⟩ := read_some h2
        have e1 := op_eq l1 ho
        have e2 := eq_leBytes_of_length l2
        refine ⟨?_, ?_, ?_⟩
        · have := leVal_lt b; rw [l2] at this; simpa [U64] using this
        · rw [r1, r2, ← e1, ← e2]
        · rw [c2, c1, ← e1, ← e2, List.append_assoc]
    · wrong_branch h

/-- shared shape of the three insert opcodes -/
theorem insert_inv {rd rd1 rd2 : Reader} {op : Bytes} {o t i : Nat}
    (h1 : rd.read 1 = some (op, rd1)) (ho : leVal op = o)
    (h2 : readTableIndex rd1 = some (t, i, rd2)) :
    t < U16 ∧ i < U64 ∧ rd.rest = leBytes 1 o ++ (leBytes 2 t ++ (leBytes 8 i ++ rd2.rest)) ∧
      rd2.consumed = rd.consumed ++ (leBytes 1 o ++ (leBytes 2 t ++ leBytes 8 i)) := by
  obtain ⟨l1, r1, c1⟩ := read_some h1
  obtain ⟨ht, hi, r2, c2⟩ := readTableIndex_some h2
  have e1 := op_eq l1 ho
  refine ⟨ht, hi, ?_, ?_⟩
  · rw [r1, r2, ← e1]
  · rw [c2, c1, ← e1, List.append_assoc]

theorem next_inv_insertIndex {crc : Bytes → Nat} {rd rd' : Reader} {t i : Nat}
    (h : next crc rd = .insertIndex t i rd') :
    t < U16 ∧ i < U64 ∧
      rd.rest = leBytes 1 INSERT_INDEX ++ (leBytes 2 t ++ (leBytes 8 i ++ rd'.rest)) ∧
      rd'.consumed = rd.consumed ++ (leBytes 1 INSERT_INDEX ++ (leBytes 2 t ++ leBytes 8 i)) := by
  unfold next at h
  split at h
  · cases h
  · rename_i op rd1 h1
    simp only at h
    split at h
    · wrong_branch h
    · split at h
      · rename_i ho
        split at h
        · cases h
        · rename_i t' i' rd2 h2
          cases h
          exact insert_inv h1 ho h2
      · wrong_branch h

theorem next_inv_insertValue {crc : Bytes → Nat} {rd rd' : Reader} {t i : Nat}
    (h : next crc rd = .insertValue t i rd') :
    t < U16 ∧ i < U64 ∧
      rd.rest = leBytes 1 INSERT_VALUE ++ (leBytes 2 t ++ (leBytes 8 i ++ rd'.rest)) ∧
      rd'.consumed = rd.consumed ++ (leBytes 1 INSERT_VALUE ++ (leBytes 2 t ++ leBytes 8 i)) := by
  unfold next at h
  split at h
  · cases h
  · rename_i op rd1 h1
    simp only at h
    split at h
    · wrong_branch h
    · split at h
      · wrong_branch h
      · split at h
        · rename_i ho
          split at h
          · cases h
          · rename_i t' i' rd2 h2
            cases h
            exact insert_inv h1 ho h2
        · wrong_branch h

theorem next_inv_insertRefCount {crc : Bytes → Nat} {rd rd' : Reader} {t i : Nat}
    (h : next crc rd = .insertRefCount t i rd') :
    t < U16 ∧ i < U64 ∧
      rd.rest = leBytes 1 INSERT_REF_COUNT ++ (leBytes 2 t ++ (leBytes 8 i ++ rd'.rest)) ∧
      rd'.consumed =
        rd.consumed ++ (leBytes 1 INSERT_REF_COUNT ++ (leBytes 2 t ++ leBytes 8 i)) := by
  unfold next at h
  split at h
  · cases h
  · rename_i op rd1 h1
    simp only at h
    split at h
    · wrong_branch h
    · split at h
      · wrong_branch h
      · split at h
        · wrong_branch h
        · split at h
          · rename_i ho
            split at h
            · cases h
            · rename_i t' i' rd2 h2
              cases h
              exact insert_inv h1 ho h2
          · wrong_branch h

theorem drop_inv {rd rd1 rd2 : Reader} {op tb : Bytes} {o : Nat}
    (h1 : rd.read 1 = some (op, rd1)) (ho : leVal op = o)
    (h2 : rd1.read 2 = some (tb, rd2)) :
    leVal tb < U16 ∧ rd.rest = leBytes 1 o ++ (leBytes 2 (leVal tb) ++ rd2.rest) ∧
      rd2.consumed = rd.consumed ++ (leBytes 1 o ++ leBytes 2 (leVal tb)) := by
  obtain ⟨l1, r1, c1⟩ := read_some h1
  obtain ⟨l2, r2, c2⟩ := read_some h2
  have e1 := op_eq l1 ho
  have e2 := eq_leBytes_of_length l2
  refine ⟨?_, ?_, ?_⟩
  · have := leVal_lt tb; rw [l2] at this; simpa [U16] using this
  · rw [r1, r2, ← e1, ← e2]
  · rw [c2, c1, ← e1, ← e2, List.append_assoc]

theorem next_inv_dropTable {crc : Bytes → Nat} {rd rd' : Reader} {t : Nat}
    (h : next crc rd = .dropTable t rd') :
    t < U16 ∧ rd.rest = leBytes 1 DROP_TABLE ++ (leBytes 2 t ++ rd'.rest) ∧
      rd'.consumed = rd.consumed ++ (leBytes 1 DROP_TABLE ++ leBytes 2 t) := by
  unfold next at h
  split at h
  · cases h
  · rename_i op rd1 h1
    simp only at h
    split at h
    · wrong_branch h
    · split at h
      · wrong_branch h
      · split at h
        · wrong_branch h
        · split at h
          · wrong_branch h
          · split at h
            · wrong_branch h
            · split at h
              · rename_i ho
                split at h
                · cases h
                · rename_i tb rd2 h2
                  cases h
                  exact drop_inv h1 ho h2
              · wrong_branch h

theorem next_inv_dropRefCountTable {crc : Bytes → Nat} {rd rd' : Reader} {t : Nat}
    (h : next crc rd = .dropRefCountTable t rd') :
    t < U16 ∧ rd.rest = leBytes 1 DROP_REF_COUNT_TABLE ++ (leBytes 2 t ++ rd'.rest) ∧
      rd'.consumed = rd.consumed ++ (leBytes 1 DROP_REF_COUNT_TABLE ++ leBytes 2 t) := by
  unfold next at h
  split at h
  · cases h
  · rename_i op rd1 h1
    simp only at h
    split at h
    · wrong_branch h
    · split at h
      · wrong_branch h
      · split at h
        · wrong_branch h
        · split at h
          · wrong_branch h
          · split at h
            · wrong_branch h
            · split at h
              · wrong_branch h
              · split at h
                · rename_i ho
                  split at h
                  · cases h
                  · rename_i tb rd2 h2
                    cases h
                    exact drop_inv h1 ho h2
                · cases h

/-- `END_RECORD` accepted: the four bytes after the opcode are the CRC of everything consumed
    since `BEGIN_RECORD`, the opcode included. -/
theorem next_inv_end {crc : Bytes → Nat} {rd rd' : Reader}
    (h : next crc rd = .endRecord rd') :
    rd.rest = leBytes 1 END_RECORD ++
      (leBytes 4 (crc (rd.consumed ++ leBytes 1 END_RECORD)) ++ rd'.rest) := by
  unfold next at h
  split at h
  · cases h
  · rename_i op rd1 h1
    obtain ⟨l1, r1, c1⟩ := read_some h1
    simp only at h
    split at h
    · wrong_branch h
    · split at h
      · wrong_branch h
      · split at h
        · wrong_branch h
        · split at h
          · wrong_branch h
          · split at h
            · rename_i ho
              split at h
              · cases h
              · rename_i c rd2 h2
                split at h
                · rename_i hcrc
                  cases h
                  obtain ⟨l2, r2, _⟩ := readRaw_some h2
                  have e1 := op_eq l1 ho
                  have e2 : c = leBytes 4 (crc rd1.consumed) := by
                    have := eq_leBytes_of_length l2
                    rw [hcrc] at this
                    rw [this]
                    exact leBytes_mod 4 _
                  rw [r1, r2, e2, c1, ← e1]
                · cases h
            · wrong_branch h


/-! ### validators, inverted -/

theorem validateIndex_inv {cfg cfg' : Cfg} {t i : Nat} {rd rd2 : Reader} {a : Action}
    (h : validateIndex cfg t i rd = .ok a rd2 cfg') :
    ∃ m es, a = .insertIndex t i m es ∧ m < U64 ∧ es.length = popcount m * INDEX_ENTRY_BYTES ∧
      checkIndex cfg t i = .ok cfg' ∧ rd.rest = leBytes 8 m ++ (es ++ rd2.rest) ∧
      rd2.consumed = rd.consumed ++ (leBytes 8 m ++ es) := by
  unfold validateIndex at h
  split at h
  · cases h
  · rename_i cfg1 hck
    split at h
    · cases h
    · rename_i mb rd1 h1
      split at h
      · cases h
      · rename_i es rd2' h2
        cases h
        obtain ⟨l1, r1, c1⟩ := read_some h1
        obtain ⟨l2, r2, c2⟩ := read_some h2
        have e1 := eq_leBytes_of_length l1
        refine ⟨leVal mb, es, rfl, ?_, l2, hck, ?_, ?_⟩
        · have := leVal_lt mb; rw [l1] at this; simpa [U64] using this
        · rw [r1, r2, ← e1]
        · rw [c2, c1, ← e1, List.append_assoc]

theorem validateRefCount_inv {cfg cfg' : Cfg} {t i : Nat} {rd rd2 : Reader} {a : Action}
    (h : validateRefCount cfg t i rd = .ok a rd2 cfg') :
    ∃ m es, a = .insertRefCount t i m es ∧ m < U64 ∧ m >>> RC_CHUNK_ENTRIES = 0 ∧
      es.length = popcount m * RC_ENTRY_BYTES ∧
      checkRefCount cfg t i = .ok cfg' ∧ rd.rest = leBytes 8 m ++ (es ++ rd2.rest) ∧
      rd2.consumed = rd.consumed ++ (leBytes 8 m ++ es) := by
  unfold validateRefCount at h
  split at h
  · cases h
  · rename_i cfg1 hck
    split at h
    · cases h
    · rename_i mb rd1 h1
      split at h
      · cases h
      · rename_i hmask
        split at h
        · cases h
        · rename_i es rd2' h2
          cases h
          obtain ⟨l1, r1, c1⟩ := read_some h1
          obtain ⟨l2, r2, c2⟩ := read_some h2
          have e1 := eq_leBytes_of_length l1
          refine ⟨leVal mb, es, rfl, ?_, ?_, l2, hck, ?_, ?_⟩
          · have := leVal_lt mb; rw [l1] at this; simpa [U64] using this
          · simpa using hmask
          · rw [r1, r2, ← e1]
          · rw [c2, c1, ← e1, List.append_assoc]

theorem two_le_valueLen {v4 : Bool} {tier i n : Nat} {bs : Bytes}
    (h : valueLen v4 tier i bs = some n) (hi : i ≠ 0) : 2 ≤ n := by
  unfold valueLen at h
  simp only [hi, if_false] at h
  split at h
  · rename_i b0 b1 tl
    split at h
    · cases h; simp [SIZE_SIZE]
    · split at h
      · rename_i hm
        cases h
        have : isMultipartTable tier = true := by
          simp only [Bool.and_eq_true] at hm; exact hm.1
        simp only [isMultipartTable, Option.isNone_iff_eq_none] at this
        simp [entrySize, this, MULTIPART_ENTRY_SIZE]
      · split at h
        · cases h
        · cases h; simp [SIZE_SIZE]
  · cases h

theorem valueLen_take {v4 : Bool} {tier i n : Nat} {bs : Bytes}
    (h : valueLen v4 tier i bs = some n) (hn : n ≤ bs.length) :
    valueLen v4 tier i (bs.take n) = some n := by
  by_cases hi : i = 0
  · unfold valueLen at h ⊢; simpa [hi] using h
  · have h2 := two_le_valueLen h hi
    match bs, hn, h with
    | b0 :: b1 :: tl, hn, h =>
      obtain ⟨k, rfl⟩ : ∃ k, n = k + 2 := ⟨n - 2, by omega⟩
      unfold valueLen at h ⊢
      simpa [hi, List.take_succ_cons] using h
    | [_], hn, _ => simp at hn; omega
    | [], hn, _ => simp at hn; omega

theorem validateValue_inv {cfg cfg' : Cfg} {t i : Nat} {rd rd2 : Reader} {a : Action}
    (h : validateValue cfg t i rd = .ok a rd2 cfg') :
    ∃ p, a = .insertValue t i p ∧ (cfg.cols[TableId.col t]?).isSome ∧
      valueLen cfg.v4 (sizeTier t) i p = some p.length ∧ cfg' = cfg ∧
      rd.rest = p ++ rd2.rest ∧ rd2.consumed = rd.consumed ++ p := by
  unfold validateValue at h
  split at h
  · cases h
  · rename_i cc hcc
    split at h
    · cases h
    · rename_i n hvl
      split at h
      · cases h
      · rename_i p rd' h1
        cases h
        obtain ⟨l1, r1, c1⟩ := read_some h1
        refine ⟨p, rfl, by simp [hcc], ?_, rfl, r1, c1⟩
        have hn : n ≤ rd.rest.length := by rw [r1]; simp; omega
        have := valueLen_take hvl hn
        rw [r1, List.take_left' l1] at this
        rw [l1]; exact this

/-! ### the validation loop, inverted -/

theorem loop_inv (crc : Bytes → Nat) :
    ∀ (fuel : Nat) {cfg cfgV : Cfg} {rd : Reader} {acc as : List Action} {rest : Bytes},
    validateLoop crc fuel cfg rd acc = .ok as rest cfgV →
    ∃ as', as = acc ++ as' ∧ validActions cfg as' = some cfgV ∧
      rd.rest = encodeActions as' ++ (leBytes 1 END_RECORD ++
        (leBytes 4 (crc (rd.consumed ++ (encodeActions as' ++ leBytes 1 END_RECORD))) ++ rest)) := by
  intro fuel
  induction fuel with
  | zero => intro cfg cfgV rd acc as rest h; simp [validateLoop] at h
  | succ fuel ih =>
    intro cfg cfgV rd acc as rest h
    unfold validateLoop at h
    split at h
    · cases h
    · cases h
    · cases h
    · cases h
    · -- END_RECORD
      rename_i rd' hn
      cases h
      refine ⟨[], by simp, rfl, ?_⟩
      simpa [encodeActions] using next_inv_end hn
    · -- INSERT_INDEX
      rename_i t i rd' hn
      split at h
      · rename_i a rd'' cfg' hv
        obtain ⟨ht, hi, r0, c0⟩ := next_inv_insertIndex hn
        obtain ⟨m, es, rfl, hm, hl, hck, r1, c1⟩ := validateIndex_inv hv
        obtain ⟨as', rfl, hva, r2⟩ := ih h
        refine ⟨.insertIndex t i m es :: as', by simp, ?_, ?_⟩
        · simp [validActions, validAction, ht, hi, hm, hl, hck, hva]
        · rw [r0, r1, r2, c1, c0]; simp [encodeActions, encodeAction]
      · cases h
    · -- INSERT_VALUE
      rename_i t i rd' hn
      split at h
      · rename_i a rd'' cfg' hv
        obtain ⟨ht, hi, r0, c0⟩ := next_inv_insertValue hn
        obtain ⟨p, rfl, hcol, hvl, rfl, r1, c1⟩ := validateValue_inv hv
        obtain ⟨as', rfl, hva, r2⟩ := ih h
        refine ⟨.insertValue t i p :: as', by simp, ?_, ?_⟩
        · simp [validActions, validAction, ht, hi, hcol, hvl, hva]
        · rw [r0, r1, r2, c1, c0]; simp [encodeActions, encodeAction]
      · cases h
    · -- INSERT_REF_COUNT
      rename_i t i rd' hn
      split at h
      · rename_i a rd'' cfg' hv
        obtain ⟨ht, hi, r0, c0⟩ := next_inv_insertRefCount hn
        obtain ⟨m, es, rfl, hm, hm', hl, hck, r1, c1⟩ := validateRefCount_inv hv
        obtain ⟨as', rfl, hva, r2⟩ := ih h
        refine ⟨.insertRefCount t i m es :: as', by simp, ?_, ?_⟩
        · simp [validActions, validAction, ht, hi, hm, hm', hl, hck, hva]
        · rw [r0, r1, r2, c1, c0]; simp [encodeActions, encodeAction]
      · cases h
    · -- DROP_TABLE
      rename_i t rd' hn
      split at h
      · rename_i hcol
        obtain ⟨ht, r0, c0⟩ := next_inv_dropTable hn
        obtain ⟨as', rfl, hva, r2⟩ := ih h
        refine ⟨.dropTable t :: as', by simp, ?_, ?_⟩
        · simp [validActions, validAction, ht, hcol, hva]
        · rw [r0, r2, c0]; simp [encodeActions, encodeAction]
      · cases h
    · -- DROP_REF_COUNT_TABLE
      rename_i t rd' hn
      split at h
      · rename_i hcol
        obtain ⟨ht, r0, c0⟩ := next_inv_dropRefCountTable hn
        obtain ⟨as', rfl, hva, r2⟩ := ih h
        refine ⟨.dropRefCountTable t :: as', by simp, ?_, ?_⟩
        · simp [validActions, validAction, ht, hcol, hva]
        · rw [r0, r2, c0]; simp [encodeActions, encodeAction]
      · cases h


/-! ### one record, inverted -/

theorem validatePass_inv {crc : Bytes → Nat} {cfg cfgV : Cfg} {last : Nat} {bytes rest : Bytes}
    {r : Record} (h : validatePass crc cfg last bytes = .ok r rest cfgV) :
    bytes = encodeRecord crc r ++ rest ∧ r.id = last + 1 ∧ r.id < U64 - 1 ∧
      validActions cfg r.actions = some cfgV := by
  unfold validatePass at h
  split at h
  · cases h
  · rename_i id rd hn
    obtain ⟨hid, r0, c0⟩ := next_inv_begin hn
    split at h
    · cases h
    · rename_i hseq
      split at h
      · rename_i actions rest' cfgV' hl
        cases h
        obtain ⟨as', has, hva, r1⟩ := loop_inv crc _ hl
        simp only [List.nil_append] at has
        subst has
        refine ⟨?_, (by show id = last + 1; omega), (by show id < U64 - 1; omega), hva⟩
        simp only at r0
        rw [r0, r1, c0]
        simp [encodeRecord, encodeBody, encodeHeader]
      · cases h
      · cases h
  · cases h

theorem parseRecord_inv {crc : Bytes → Nat} {cfg cfg' : Cfg} {last : Nat} {bytes rest : Bytes}
    {r : Record} (h : parseRecord crc cfg last bytes = .ok r rest cfg') :
    bytes = encodeRecord crc r ++ rest ∧ r.id = last + 1 ∧ WellFormed cfg r ∧
      cfg' = cfgAfter cfg r := by
  unfold parseRecord at h
  split at h
  · rename_i r' rest' cfgV hv
    cases h
    obtain ⟨hb, hid, hlt, hva⟩ := validatePass_inv hv
    exact ⟨hb, hid, ⟨hlt, by simp [hva]⟩, by simp [cfgAfter, hva]⟩
  · rename_i other hne
    cases hv : validatePass crc cfg last bytes with
    | ok r' rest' cfgV => exact absurd hv (hne r' rest' cfgV)
    | endOfLog => rw [hv] at h; cases h
    | invalid why c => rw [hv] at h; cases h
    | panic => rw [hv] at h; cases h

/-- Exact characterisation of acceptance. -/
theorem parseRecord_ok_iff {crc : Bytes → Nat} {cfg cfg' : Cfg} {last : Nat} {bytes rest : Bytes}
    {r : Record} :
    parseRecord crc cfg last bytes = .ok r rest cfg' ↔
      bytes = encodeRecord crc r ++ rest ∧ r.id = last + 1 ∧ WellFormed cfg r ∧
        cfg' = cfgAfter cfg r := by
  constructor
  · exact parseRecord_inv
  · rintro ⟨rfl, hid, hwf, rfl⟩
    exact parseRecord_encode crc hwf hid rest

theorem parseRecord_ok_shorter {crc : Bytes → Nat} {cfg cfg' : Cfg} {last : Nat}
    {bytes rest : Bytes} {r : Record} (h : parseRecord crc cfg last bytes = .ok r rest cfg') :
    rest.length + 14 ≤ bytes.length := by
  obtain ⟨hb, _⟩ := parseRecord_inv h
  rw [hb, List.length_append, length_encodeRecord]; omega

/-! ### the model never gets stuck -/

theorem validateIndex_rest {cfg cfg' : Cfg} {t i : Nat} {rd rd2 : Reader} {a : Action}
    (h : validateIndex cfg t i rd = .ok a rd2 cfg') : rd2.rest.length ≤ rd.rest.length := by
  obtain ⟨m, es, _, _, _, _, r, _⟩ := validateIndex_inv h
  rw [r]; simp; omega

theorem validateRefCount_rest {cfg cfg' : Cfg} {t i : Nat} {rd rd2 : Reader} {a : Action}
    (h : validateRefCount cfg t i rd = .ok a rd2 cfg') : rd2.rest.length ≤ rd.rest.length := by
  obtain ⟨m, es, _, _, _, _, _, r, _⟩ := validateRefCount_inv h
  rw [r]; simp; omega

theorem validateValue_rest {cfg cfg' : Cfg} {t i : Nat} {rd rd2 : Reader} {a : Action}
    (h : validateValue cfg t i rd = .ok a rd2 cfg') : rd2.rest.length ≤ rd.rest.length := by
  obtain ⟨p, _, _, _, _, r, _⟩ := validateValue_inv h
  rw [r]; simp

theorem loop_not_stuck (crc : Bytes → Nat) :
    ∀ (fuel : Nat) (cfg : Cfg) (rd : Reader) (acc : List Action),
    rd.rest.length < fuel → validateLoop crc fuel cfg rd acc ≠ .stuck := by
  intro fuel
  induction fuel with
  | zero => intro cfg rd acc h; omega
  | succ fuel ih =>
    intro cfg rd acc hf
    unfold validateLoop
    split
    · simp
    · simp
    · simp
    · simp
    · simp
    · rename_i t i rd' hn
      obtain ⟨_, _, r0, _⟩ := next_inv_insertIndex hn
      split
      · rename_i a rd'' cfg' hv
        have := validateIndex_rest hv
        apply ih
        rw [r0] at hf; simp at hf; omega
      · simp
    · rename_i t i rd' hn
      obtain ⟨_, _, r0, _⟩ := next_inv_insertValue hn
      split
      · rename_i a rd'' cfg' hv
        have := validateValue_rest hv
        apply ih
        rw [r0] at hf; simp at hf; omega
      · simp
    · rename_i t i rd' hn
      obtain ⟨_, _, r0, _⟩ := next_inv_insertRefCount hn
      split
      · rename_i a rd'' cfg' hv
        have := validateRefCount_rest hv
        apply ih
        rw [r0] at hf; simp at hf; omega
      · simp
    · rename_i t rd' hn
      obtain ⟨_, r0, _⟩ := next_inv_dropTable hn
      split
      · apply ih
        rw [r0] at hf; simp at hf; omega
      · simp
    · rename_i t rd' hn
      obtain ⟨_, r0, _⟩ := next_inv_dropRefCountTable hn
      split
      · apply ih
        rw [r0] at hf; simp at hf; omega
      · simp

theorem validatePass_ne_panic (crc : Bytes → Nat) (cfg : Cfg) (last : Nat) (bytes : Bytes) :
    validatePass crc cfg last bytes ≠ .panic := by
  unfold validatePass
  split
  · simp
  · rename_i id rd hn
    obtain ⟨_, r0, _⟩ := next_inv_begin hn
    split
    · simp
    · split
      · simp
      · simp
      · rename_i hs
        exfalso
        refine loop_not_stuck crc _ cfg rd [] ?_ hs
        simp only at r0
        rw [r0]; simp; omega
  · simp

theorem parseRecord_ne_panic (crc : Bytes → Nat) (cfg : Cfg) (last : Nat) (bytes : Bytes) :
    parseRecord crc cfg last bytes ≠ .panic := by
  unfold parseRecord
  have := validatePass_ne_panic crc cfg last bytes
  split
  · simp
  · rename_i other hne
    simpa using this

end Pdb.Wal
