/-
C04 pipeline, part 7: what the visible map of a reference-counted column (`SpecStR.visible`)
has to do with the committed cells: every key with a positive committed count is visible; with an
empty queue exactly those; values come from `Set`s of the history.
-/
import Pdb.Proofs.C04PipeRcMain

namespace Pdb.C04

/-- all elements of `setsOf` are `Set`s -/
theorem setsOf_mem {ops : List ROp} {op : Op String} (h : op ∈ setsOf ops) :
    ∃ k v, op = .set k v ∧ (Pdb.Op.set k v : ROp) ∈ ops := by
  simp only [setsOf, List.mem_filterMap] at h
  obtain ⟨r, hr, he⟩ := h
  cases r with
  | set k v =>
    simp only [setOf, Option.some.injEq] at he
    exact ⟨k, v, he.symm, hr⟩
  | deref k => simp [setOf] at he
  | ref k => simp [setOf] at he

theorem mem_setsOf {ops : List ROp} {k : Key} {v : String} (h : (Pdb.Op.set k v : ROp) ∈ ops) :
    (Op.set k v : Op String) ∈ setsOf ops := by
  simp only [setsOf, List.mem_filterMap]
  exact ⟨_, h, rfl⟩

theorem lastOp_isSome_of_mem {ops : List (Op String)} {op : Op String} (h : op ∈ ops) :
    (lastOp ops op.key).isSome = true := by
  unfold lastOp
  have hm : op ∈ ops.filter (fun o => o.key = op.key) := by
    simp only [List.mem_filter, decide_eq_true_eq]
    exact ⟨h, trivial⟩
  cases hl : (ops.filter (fun o => decide (o.key = op.key))).getLast? with
  | some x => rfl
  | none =>
    rw [List.getLast?_eq_none_iff] at hl
    rw [hl] at hm
    cases hm

/-- the view through the queued `Set`s is defined as soon as a `Set` of the key is queued or the
    processed cell exists -/
theorem effect_sets_isSome (ops : List ROp) (k : Key) (old : Option String)
    (h : (∃ v, (Pdb.Op.set k v : ROp) ∈ ops) ∨ old.isSome = true) :
    (effect (lastOp (setsOf ops) k) old).isSome = true := by
  cases hl : lastOp (setsOf ops) k with
  | some op =>
    obtain ⟨hm, _⟩ := lastOp_mem hl
    obtain ⟨k', v', e, _⟩ := setsOf_mem hm
    subst e
    rfl
  | none =>
    rcases h with ⟨v, hv⟩ | h
    · have := lastOp_isSome_of_mem (mem_setsOf hv)
      simp only [Op.key] at this
      rw [hl] at this
      cases this
    · exact h

/-- a cell that exists after operations on its key: one of them was a `Set` or it existed before -/
theorem cellFold_some (ops : List ROp) : ∀ (c : Cell String), (cellFold c ops).isSome = true →
    (∃ k v, (Pdb.Op.set k v : ROp) ∈ ops) ∨ c.isSome = true := by
  induction ops with
  | nil => intro c h; exact Or.inr h
  | cons op ops ih =>
    intro c h
    have h' : (cellFold (applyCell Kind.rc op c) ops).isSome = true := h
    rcases ih _ h' with ⟨k, v, hm⟩ | hs
    · exact Or.inl ⟨k, v, List.mem_cons_of_mem _ hm⟩
    · cases op with
      | set k v => exact Or.inl ⟨k, v, List.mem_cons.mpr (Or.inl rfl)⟩
      | deref k =>
        cases c with
        | none => simp [applyCell] at hs
        | some x => exact Or.inr rfl
      | ref k =>
        cases c with
        | none => simp [applyCell] at hs
        | some x => exact Or.inr rfl

theorem cellsAfter_append (a b : List (List ROp)) :
    cellsAfter (a ++ b) = b.flatten.foldl cellStep (cellsAfter a) := by
  simp [cellsAfter, List.foldl_append]

/-- Every key whose COMMITTED count is positive is visible. -/
theorem visible_of_live (sp : SpecStR) (k : Key)
    (h : (lookup (cellsAfter (sp.done ++ sp.queued)) k).isSome = true) :
    (lookup sp.visible k).isSome = true := by
  rw [cellsAfter_append, lookup_cellStep_fold _ (sorted_cellsAfter _)] at h
  unfold SpecStR.visible
  rw [lookup_specApply _ (sorted_valuesOf (sorted_cellsAfter _)), lookup_valuesOf]
  apply effect_sets_isSome
  rcases cellFold_some _ _ h with ⟨k', v, hm⟩ | hs
  · simp only [List.mem_filter, decide_eq_true_eq] at hm
    obtain ⟨hm1, hm2⟩ := hm
    have : k' = k := hm2
    subst this
    exact Or.inl ⟨v, hm1⟩
  · right
    cases hc : lookup (cellsAfter sp.done) k with
    | none => rw [hc] at hs; cases hs
    | some x => rfl

/-- With an empty queue the visible map is exactly the committed cells. -/
theorem visible_exact (sp : SpecStR) (hq : sp.queued = []) (k : Key) :
    lookup sp.visible k = (lookup (cellsAfter sp.done) k).map Prod.fst := by
  unfold SpecStR.visible
  rw [hq]
  show lookup (valuesOf (cellsAfter sp.done)) k = _
  rw [lookup_valuesOf]

/-! ### values come from `Set`s -/

theorem cellStep_value (P : Key → String → Prop) {cs : CellList} (hs : Sorted cs)
    (hcs : ∀ k v n, lookup cs k = some (v, n) → P k v) (op : ROp)
    (hop : ∀ k v, op = .set k v → P k v) :
    ∀ k v n, lookup (cellStep cs op) k = some (v, n) → P k v := by
  intro k v n h
  rw [lookup_cellStep hs] at h
  by_cases e : op.key = k
  · rw [if_pos e] at h
    cases hc : lookup cs k with
    | none =>
      rw [hc] at h
      cases op with
      | set k' v' =>
        simp only [applyCell, Option.some.injEq, Prod.mk.injEq] at h
        have : k' = k := e
        subst this
        rw [← h.1]
        exact hop _ _ rfl
      | deref k' => simp [applyCell] at h
      | ref k' => simp [applyCell] at h
    | some c0 =>
      obtain ⟨v0, n0⟩ := c0
      rw [hc] at h
      rcases applyCell_rc_some op v0 n0 with hn | ⟨n', hn⟩
      · rw [hn] at h; cases h
      · rw [hn] at h
        simp only [Option.some.injEq, Prod.mk.injEq] at h
        rw [← h.1]
        exact hcs k v0 n0 hc
  · rw [if_neg e] at h
    exact hcs k v n h

theorem cellFoldList_value (P : Key → String → Prop) (ops : List ROp) : ∀ {cs : CellList},
    Sorted cs → (∀ k v n, lookup cs k = some (v, n) → P k v) →
    (∀ k v, (Pdb.Op.set k v : ROp) ∈ ops → P k v) →
    ∀ k v n, lookup (ops.foldl cellStep cs) k = some (v, n) → P k v := by
  induction ops with
  | nil => intro cs _ hcs _; exact hcs
  | cons op ops ih =>
    intro cs hs hcs hops
    rw [List.foldl_cons]
    apply ih (sorted_cellStep hs op)
    · exact cellStep_value P hs hcs op (fun k v e => hops k v (e ▸ List.mem_cons.mpr (Or.inl rfl)))
    · exact fun k v hm => hops k v (List.mem_cons_of_mem _ hm)

/-- A visible value is the value of some `Set` of that key in the history: under the preimage
    discipline (the value is a function of the key) it is THE value of the key. -/
theorem visible_value (sp : SpecStR) (P : Key → String → Prop)
    (hP : ∀ k v, (Pdb.Op.set k v : ROp) ∈ (sp.done ++ sp.queued).flatten → P k v)
    (k : Key) (v : String) (h : lookup sp.visible k = some v) : P k v := by
  unfold SpecStR.visible at h
  rw [lookup_specApply _ (sorted_valuesOf (sorted_cellsAfter _)), lookup_valuesOf] at h
  cases hl : lastOp (setsOf sp.queued.flatten) k with
  | some op =>
    rw [hl] at h
    obtain ⟨hm, hk⟩ := lastOp_mem hl
    obtain ⟨k', v', e, hm'⟩ := setsOf_mem hm
    subst e
    simp only [effect, Option.some.injEq] at h
    have hk' : k' = k := hk
    subst hk' h
    exact hP _ _ (by simp only [List.flatten_append, List.mem_append]; exact Or.inr hm')
  | none =>
    rw [hl] at h
    simp only [effect] at h
    cases hc : lookup (cellsAfter sp.done) k with
    | none => rw [hc] at h; cases h
    | some c =>
      obtain ⟨v0, n0⟩ := c
      rw [hc] at h
      simp only [Option.map_some, Option.some.injEq] at h
      subst h
      refine cellFoldList_value P sp.done.flatten sorted_nil (fun _ _ _ h => by cases h) ?_ k v0 n0 hc
      intro k' v' hm
      exact hP _ _ (by simp only [List.flatten_append, List.mem_append]; exact Or.inl hm)

end Pdb.C04
