/-
C17 helper lemmas, part 1: text primitives (split, lines, join, decimal, hex, zero padding,
`format!` pieces) and the generic `key<kv>value<item>key<kv>value..` rendering that
`as_string` / `from_string` are instances of.  Nothing here depends on the VALUE of a
generated constant (except `plainChar`, which names the generated split character); the
obligations on the generated constants are in Pdb/Proofs/C17Gen.lean.  Core Lean only.
-/
import Pdb.Model.Meta

namespace Pdb.C17

theorem mem_allOptions (o : ColumnOptions) : o ∈ allOptions := by
  obtain ⟨p, u, r, c, b, m, a, d⟩ := o
  have hb : ∀ x : Bool, x ∈ allBools := by intro x; cases x <;> decide
  have hc : ∀ x : Compression, x ∈ allCompressions := by intro x; cases x <;> decide
  simp only [allOptions, List.mem_flatMap, List.mem_map]
  exact ⟨p, hb p, u, hb u, r, hb r, c, hc c, b, hb b, m, hb m, a, hb a, d, hb d, rfl⟩

/-! ### `splitOn` (string pattern) -/

theorem splitOnGo_ne_nil (pat s : Text) (k : Nat) : splitOnGo pat s k ≠ [] := by
  induction s generalizing k with
  | nil => simp [splitOnGo]
  | cons c cs ih =>
    cases k with
    | succ k => simpa [splitOnGo] using ih k
    | zero =>
      unfold splitOnGo
      split
      · simp
      · split <;> simp

/-- Skipping the rest of a matched delimiter. -/
theorem splitOnGo_skip (pat x r : Text) : splitOnGo pat (x ++ r) x.length = splitOnGo pat r 0 := by
  induction x with
  | nil => rfl
  | cons c cs ih => simpa [splitOnGo] using ih

theorem mem_of_isPrefixOf {pat t : Text} (h : pat.isPrefixOf t = true) {c : Char} (hc : c ∈ pat) :
    c ∈ t := by
  have hp := List.isPrefixOf_iff_prefix.mp h
  exact hp.subset hc

/-- (S1) A pattern containing a character that does not occur in `s` does not split `s`. -/
theorem splitOn_absent {pat s : Text} {c : Char} (hc : c ∈ pat) (hs : c ∉ s) :
    splitOn pat s = [s] := by
  unfold splitOn
  induction s with
  | nil => rfl
  | cons a as ih =>
    have hno : pat.isPrefixOf (a :: as) = false := by
      cases h : pat.isPrefixOf (a :: as) with
      | false => rfl
      | true => exact absurd (mem_of_isPrefixOf h hc) hs
    have has : c ∉ as := fun h => hs (List.mem_cons_of_mem _ h)
    simp [splitOnGo, hno, ih has]

/-- (S2) The first piece ends at the first delimiter when the first character of the
delimiter does not occur before. -/
theorem splitOn_first {p0 : Char} {ps a : Text} (r : Text) (ha : p0 ∉ a) :
    splitOn (p0 :: ps) (a ++ (p0 :: ps) ++ r) = a :: splitOn (p0 :: ps) r := by
  unfold splitOn
  induction a with
  | nil =>
    have hp : (p0 :: ps).isPrefixOf ((p0 :: ps) ++ r) = true :=
      List.isPrefixOf_iff_prefix.mpr (List.prefix_append _ _)
    have hs := splitOnGo_skip (p0 :: ps) ps r
    simp only [List.nil_append, List.cons_append] at hp ⊢
    simp [splitOnGo, hp, hs]
  | cons c cs ih =>
    have hc : c ≠ p0 := fun h => ha (by simp [h])
    have hcs : p0 ∉ cs := fun h => ha (List.mem_cons_of_mem _ h)
    have hno : (p0 :: ps).isPrefixOf (c :: (cs ++ (p0 :: ps) ++ r)) = false := by
      simp [List.isPrefixOf, Ne.symm hc]
    have := ih hcs
    simp only [List.cons_append, List.append_assoc] at this hno ⊢
    simp [splitOnGo, hno, this]

/-! ### `splitChar` -/

theorem splitChar_absent {sep : Char} {s : Text} (hs : sep ∉ s) : splitChar sep s = [s] := by
  induction s with
  | nil => rfl
  | cons a as ih =>
    have h1 : a ≠ sep := fun h => hs (by simp [h])
    have h2 : sep ∉ as := fun h => hs (List.mem_cons_of_mem _ h)
    simp [splitChar, h1, ih h2]

theorem splitChar_first {sep : Char} {a : Text} (r : Text) (ha : sep ∉ a) :
    splitChar sep (a ++ sep :: r) = a :: splitChar sep r := by
  induction a with
  | nil => simp [splitChar]
  | cons c cs ih =>
    have h1 : c ≠ sep := fun h => ha (by simp [h])
    have h2 : sep ∉ cs := fun h => ha (List.mem_cons_of_mem _ h)
    simp [splitChar, h1, ih h2]

/-! ### `lines` / `joinLines` -/

theorem linesGo_append {l : Text} (rest cur : Text) (hl : '\n' ∉ l) :
    linesGo (l ++ rest) cur = linesGo rest (l.reverse ++ cur) := by
  induction l generalizing cur with
  | nil => rfl
  | cons c cs ih =>
    have h1 : c ≠ '\n' := fun h => hl (by simp [h])
    have h2 : '\n' ∉ cs := fun h => hl (List.mem_cons_of_mem _ h)
    simp [linesGo, h1, ih _ h2]

theorem linesGo_newline (cs cur : Text) :
    linesGo ('\n' :: cs) cur = finishLine cur :: linesGo cs [] := by
  simp [linesGo]

/-- A line is "clean": non-empty, no `\n`, no `\r`. -/
def CleanLine (l : Text) : Prop := l ≠ [] ∧ '\n' ∉ l ∧ '\r' ∉ l

theorem stripCr_reverse {l : Text} (h : '\r' ∉ l) : finishLine l.reverse = l := by
  unfold finishLine
  split
  · rename_i cur' heq
    have : '\r' ∈ l.reverse := by rw [heq]; simp
    exact absurd (List.mem_reverse.mp this) h
  · simp

theorem lines_single {l : Text} (h : CleanLine l) : lines l = [l] := by
  have := linesGo_append (l := l) [] [] h.2.1
  simp only [List.append_nil] at this
  unfold lines
  rw [this]
  have hne : l.reverse ≠ [] := by simpa using h.1
  cases hr : l.reverse with
  | nil => exact absurd hr hne
  | cons a as =>
    have : (a :: as).reverse = l := by rw [← hr]; simp
    simp [linesGo, this]

theorem lines_joinLines {ls : List Text} (h : ∀ l ∈ ls, CleanLine l) :
    lines (joinLines ls) = ls := by
  induction ls with
  | nil => rfl
  | cons l r ih =>
    cases r with
    | nil => exact lines_single (h l (by simp))
    | cons l2 r2 =>
      have hl := h l (by simp)
      have ih' := ih (fun x hx => h x (List.mem_cons_of_mem _ hx))
      show lines (l ++ '\n' :: joinLines (l2 :: r2)) = _
      unfold lines at ih' ⊢
      rw [linesGo_append _ _ hl.2.1]
      simp only [List.append_nil]
      rw [linesGo_newline, stripCr_reverse hl.2.2, ih']

/-! ### decimal and hex -/

theorem isDigit_digitChar (d : Nat) : isDigit (digitChar d) = true := by
  unfold digitChar
  split <;> rfl

theorem isDigit_of_mem_decGo {fuel n : Nat} {acc : Text} {c : Char}
    (h : c ∈ decGo fuel n acc) : isDigit c = true ∨ c ∈ acc := by
  induction fuel generalizing n acc with
  | zero => exact Or.inr h
  | succ f ih =>
    unfold decGo at h
    simp only at h
    split at h
    · rcases List.mem_cons.mp h with h | h
      · exact Or.inl (h ▸ isDigit_digitChar _)
      · exact Or.inr h
    · rcases ih h with h | h
      · exact Or.inl h
      · rcases List.mem_cons.mp h with h | h
        · exact Or.inl (h ▸ isDigit_digitChar _)
        · exact Or.inr h

theorem isDigit_of_mem_dec {n : Nat} {c : Char} (h : c ∈ dec n) : isDigit c = true := by
  rcases isDigit_of_mem_decGo h with h | h
  · exact h
  · cases h

theorem decGo_ne_nil (fuel n : Nat) (acc : Text) (h : fuel ≠ 0 ∨ acc ≠ []) :
    decGo fuel n acc ≠ [] := by
  induction fuel generalizing n acc with
  | zero => simpa [decGo] using h
  | succ f ih =>
    unfold decGo
    simp only
    split
    · simp
    · exact ih _ _ (Or.inr (by simp))

theorem dec_ne_nil (n : Nat) : dec n ≠ [] := decGo_ne_nil _ _ _ (Or.inl (by omega))

theorem isDigit_of_mem_padTo {w : Nat} {t : Text} {c : Char} (ht : ∀ x ∈ t, isDigit x = true)
    (h : c ∈ padTo w t) : isDigit c = true := by
  unfold padTo at h
  rcases List.mem_append.mp h with h | h
  · rw [(List.mem_replicate.mp h).2]; rfl
  · exact ht c h

/-! #### decimal round trip: `parseDigits (dec n) 0 = some n` -/

theorem decGo_acc (fuel n : Nat) (acc : Text) : decGo fuel n acc = decGo fuel n [] ++ acc := by
  induction fuel generalizing n acc with
  | zero => rfl
  | succ f ih =>
    unfold decGo
    simp only
    split
    · rfl
    · rw [ih (n / 10) (digitChar (n % 10) :: acc), ih (n / 10) [digitChar (n % 10)]]
      simp

def digitStep (a : Nat) (c : Char) : Nat := a * 10 + (c.toNat - 48)

theorem parseDigits_eq {ds : Text} (h : ∀ c ∈ ds, isDigit c = true) (a : Nat) :
    parseDigits ds a = some (ds.foldl digitStep a) := by
  induction ds generalizing a with
  | nil => rfl
  | cons c r ih =>
    have hc := h c (by simp)
    simp only [parseDigits, hc, if_true, List.foldl_cons]
    exact ih (fun x hx => h x (List.mem_cons_of_mem _ hx)) _

theorem digitChar_val : ∀ d, d < 10 → (digitChar d).toNat - 48 = d := by decide

theorem decGo_val (fuel n : Nat) (h : n < fuel) : (decGo fuel n []).foldl digitStep 0 = n := by
  induction fuel generalizing n with
  | zero => omega
  | succ f ih =>
    unfold decGo
    simp only
    split
    · rename_i h0
      have hd := digitChar_val (n % 10) (by omega)
      have : n % 10 = n := by omega
      rw [this] at hd
      simp [digitStep, this, hd]
    · rename_i h0
      rw [decGo_acc, List.foldl_append, ih (n / 10) (by omega)]
      simp only [List.foldl_cons, List.foldl_nil, digitStep, digitChar_val (n % 10) (by omega)]
      omega

theorem parseDigits_dec (n : Nat) : parseDigits (dec n) 0 = some n := by
  rw [parseDigits_eq (fun _ h => isDigit_of_mem_dec h)]
  unfold dec
  rw [decGo_val _ _ (by omega)]

theorem parseDigits_zeros (k : Nat) (t : Text) :
    parseDigits (List.replicate k '0' ++ t) 0 = parseDigits t 0 := by
  induction k with
  | zero => rfl
  | succ k ih =>
    have h0 : isDigit '0' = true := rfl
    have h1 : 0 * 10 + ('0'.toNat - 48) = 0 := by decide
    simp only [List.replicate_succ, List.cons_append, parseDigits, h0, if_true, h1]
    exact ih

/-- `{:0w}` does not change the number that is read back. -/
theorem parseDigits_padTo (w n : Nat) : parseDigits (padTo w (dec n)) 0 = some n := by
  unfold padTo
  rw [parseDigits_zeros, parseDigits_dec]

theorem padTo_dec_injective {w w' a b : Nat} (h : padTo w (dec a) = padTo w' (dec b)) : a = b := by
  have := parseDigits_padTo w a
  rw [h, parseDigits_padTo w' b] at this
  exact (Option.some.inj this).symm

theorem dec_injective {a b : Nat} (h : dec a = dec b) : a = b := by
  have := parseDigits_dec a
  rw [h, parseDigits_dec b] at this
  exact (Option.some.inj this).symm

/-- `uN::from_str` reads back what `{}` printed. -/
theorem parseUnsigned_dec {max n : Nat} (h : n ≤ max) : parseUnsigned max (dec n) = some n := by
  unfold parseUnsigned
  have hne := dec_ne_nil n
  have hstrip : stripPlus (dec n) = dec n := by
    unfold stripPlus
    split
    · rename_i r heq
      have : isDigit '+' = true := isDigit_of_mem_dec (n := n) (by rw [heq]; simp)
      exact absurd this (by decide)
    · rfl
  rw [hstrip]
  split
  · rename_i heq; exact absurd heq hne
  · rw [parseDigits_dec]
    simp [h]

/-- Characters that may appear in a key or a value of a metadata line: anything but the
character `load_metadata_file` splits at (generated), `\n` and `\r`. -/
def plainChar (c : Char) : Bool :=
  c ≠ Gen.Text.metaSplitChar && c ≠ '\n' && c ≠ '\r'

theorem plainChar_ne {c : Char} (h : plainChar c = true) :
    c ≠ Gen.Text.metaSplitChar ∧ c ≠ '\n' ∧ c ≠ '\r' := by
  simp only [plainChar, Bool.and_eq_true, decide_eq_true_eq] at h
  exact ⟨h.1.1, h.1.2, h.2⟩

/-- T0 obligation: the split character of the metadata loader is not a decimal digit. -/
theorem splitChar_not_digit : isDigit Gen.Text.metaSplitChar = false := by decide

theorem plainChar_of_isDigit {c : Char} (h : isDigit c = true) : plainChar c = true := by
  have h1 : c ≠ Gen.Text.metaSplitChar := by
    intro heq; rw [heq, splitChar_not_digit] at h; cases h
  have h2 : c ≠ '\n' := by intro heq; subst heq; revert h; decide
  have h3 : c ≠ '\r' := by intro heq; subst heq; revert h; decide
  simp [plainChar, h1, h2, h3]

theorem isDigit_ne_underscore {c : Char} (h : isDigit c = true) : c ≠ '_' := by
  intro heq; subst heq; revert h; decide

/-- T0 obligation: ... nor a hexadecimal digit. -/
theorem plainChar_hexDigitChar (d : Nat) : plainChar (hexDigitChar d) = true := by
  unfold hexDigitChar
  split <;> decide

theorem plain_hexEncode (bs : List Nat) : (hexEncode bs).all plainChar = true := by
  induction bs with
  | nil => rfl
  | cons b r ih => simp [hexEncode, plainChar_hexDigitChar, ih]

theorem plain_dec (n : Nat) : (dec n).all plainChar = true :=
  List.all_eq_true.mpr fun _ h => plainChar_of_isDigit (isDigit_of_mem_dec h)

theorem hexVal_hexDigitChar : ∀ d, d < 16 → hexVal (hexDigitChar d) = some d := by decide

theorem hexDecode_hexEncode {bs : List Nat} (h : ∀ b ∈ bs, b < 256) :
    hexDecode (hexEncode bs) = some bs := by
  induction bs with
  | nil => rfl
  | cons b r ih =>
    have hb : b < 256 := h b (by simp)
    have ih' := ih (fun x hx => h x (List.mem_cons_of_mem _ hx))
    have h1 := hexVal_hexDigitChar (b / 16) (by omega)
    have h2 := hexVal_hexDigitChar (b % 16) (by omega)
    simp only [hexEncode, hexDecode, h1, h2, ih']
    congr 2
    omega

theorem hexVal_lt {c : Char} {x : Nat} (h : hexVal c = some x) : x < 16 := by
  unfold hexVal at h
  simp only [Bool.and_eq_true, decide_eq_true_eq] at h
  split at h
  · cases h; omega
  · split at h
    · cases h; omega
    · split at h
      · cases h; omega
      · cases h

theorem hexDecode_lt : ∀ {t : Text} {bs : List Nat}, hexDecode t = some bs → ∀ b ∈ bs, b < 256
  | [], bs, h => by cases h; simp
  | [_], bs, h => by cases h
  | a :: b :: r, bs, h => by
    unfold hexDecode at h
    split at h
    · rename_i x y bs' hx hy hr
      cases h
      intro b' hb'
      rcases List.mem_cons.mp hb' with hb' | hb'
      · have := hexVal_lt hx; have := hexVal_lt hy; omega
      · exact hexDecode_lt hr b' hb'
    · cases h

theorem not_mem_of_all {p : Char → Bool} {t : Text} {c : Char} (h : t.all p = true)
    (hc : p c = false) : c ∉ t := by
  intro hm
  have := List.all_eq_true.mp h c hm
  rw [hc] at this
  cases this

/-! ### `format!` pieces and the `key<kv>value<item>key<kv>value..` rendering -/

/-- A property of all characters of the pieces and of the values holds for the formatted text. -/
theorem all_fmt {P : Char → Bool} : ∀ (ps vs : List Text), ps.all (fun p => p.all P) = true →
    vs.all (fun v => v.all P) = true → (fmt ps vs).all P = true
  | [], _, _, _ => rfl
  | p :: _, [], hp, _ => by
    simp only [List.all_cons, Bool.and_eq_true] at hp
    simpa [fmt] using hp.1
  | p :: ps, v :: vs, hp, hv => by
    simp only [List.all_cons, Bool.and_eq_true] at hp hv
    simp only [fmt, List.all_append, Bool.and_eq_true]
    exact ⟨hp.1, hv.1, all_fmt ps vs hp.2 hv.2⟩

/-- The pieces a format string `l1<kv>{}<item>l2<kv>{}..<item>ln<kv>{}` splits into. -/
def piecesOf (sepI sepK : Text) : List Text → List Text
  | [] => [[]]
  | l :: ls => (l ++ sepK) :: (ls.map (fun l => sepI ++ (l ++ sepK)) ++ [[]])

/-- `<item>k<kv>v` for every pair. -/
def renderTail (sepI sepK : Text) : List (Text × Text) → Text
  | [] => []
  | (k, v) :: r => sepI ++ (k ++ (sepK ++ (v ++ renderTail sepI sepK r)))

/-- `k1<kv>v1<item>k2<kv>v2..`. -/
def renderItems (sepI sepK : Text) : List (Text × Text) → Text
  | [] => []
  | (k, v) :: r => k ++ (sepK ++ (v ++ renderTail sepI sepK r))

theorem fmt_tail (sepI sepK : Text) : ∀ (ls vs : List Text), ls.length = vs.length →
    fmt (ls.map (fun l => sepI ++ (l ++ sepK)) ++ [[]]) vs = renderTail sepI sepK (ls.zip vs)
  | [], [], _ => rfl
  | [], _ :: _, h => by simp at h
  | _ :: _, [], h => by simp at h
  | l :: ls, v :: vs, h => by
    have ih := fmt_tail sepI sepK ls vs (by simpa using h)
    simp only [List.map_cons, List.cons_append, fmt, List.zip_cons_cons, renderTail, ih,
      List.append_assoc]

/-- Filling the pieces of such a format string renders the (label, value) pairs. -/
theorem fmt_piecesOf (sepI sepK : Text) {ls vs : List Text} (h : ls.length = vs.length) :
    fmt (piecesOf sepI sepK ls) vs = renderItems sepI sepK (ls.zip vs) := by
  cases ls with
  | nil =>
    cases vs with
    | nil => rfl
    | cons _ _ => simp at h
  | cons l ls =>
    cases vs with
    | nil => simp at h
    | cons v vs =>
      have ih := fmt_tail sepI sepK ls vs (by simpa using h)
      simp only [piecesOf, fmt, List.zip_cons_cons, renderItems, ih, List.append_assoc]

theorem not_mem_renderTail {c : Char} {sepI sepK : Text} (hI : c ∉ sepI) (hK : c ∉ sepK) :
    ∀ {r : List (Text × Text)}, (∀ kv ∈ r, c ∉ kv.1 ∧ c ∉ kv.2) → c ∉ renderTail sepI sepK r
  | [], _ => by simp [renderTail]
  | (k, v) :: r, h => by
    have hkv := h (k, v) (by simp)
    have ih := not_mem_renderTail hI hK (r := r) (fun kv hm => h kv (List.mem_cons_of_mem _ hm))
    simp only [renderTail, List.mem_append, not_or]
    exact ⟨hI, hkv.1, hK, hkv.2, ih⟩

theorem not_mem_renderItems {c : Char} {sepI sepK : Text} (hI : c ∉ sepI) (hK : c ∉ sepK)
    {r : List (Text × Text)} (h : ∀ kv ∈ r, c ∉ kv.1 ∧ c ∉ kv.2) : c ∉ renderItems sepI sepK r := by
  cases r with
  | nil => simp [renderItems]
  | cons kv r =>
    obtain ⟨k, v⟩ := kv
    have hkv := h (k, v) (by simp)
    have ih := not_mem_renderTail hI hK (r := r) (fun kv hm => h kv (List.mem_cons_of_mem _ hm))
    simp only [renderItems, List.mem_append, not_or]
    exact ⟨hkv.1, hK, hkv.2, ih⟩

/-- Splitting at the item separator gives back the items, when the first character of the
separator occurs neither in a key, nor in a value, nor in the key/value separator. -/
theorem splitOn_renderTail (p0 : Char) (ps sepK : Text) (hK : p0 ∉ sepK) :
    ∀ (r : List (Text × Text)) (a : Text), p0 ∉ a → (∀ kv ∈ r, p0 ∉ kv.1 ∧ p0 ∉ kv.2) →
      splitOn (p0 :: ps) (a ++ renderTail (p0 :: ps) sepK r) =
        a :: r.map (fun kv => kv.1 ++ (sepK ++ kv.2))
  | [], a, ha, _ => by
    simp only [renderTail, List.append_nil, List.map_nil]
    exact splitOn_absent (c := p0) (by simp) ha
  | (k, v) :: r, a, ha, h => by
    have hkv := h (k, v) (by simp)
    have hitem : p0 ∉ k ++ (sepK ++ v) := by
      simp only [List.mem_append, not_or]; exact ⟨hkv.1, hK, hkv.2⟩
    have ih := splitOn_renderTail p0 ps sepK hK r (k ++ (sepK ++ v)) hitem
      (fun kv hm => h kv (List.mem_cons_of_mem _ hm))
    have e : a ++ renderTail (p0 :: ps) sepK ((k, v) :: r) =
        a ++ (p0 :: ps) ++ ((k ++ (sepK ++ v)) ++ renderTail (p0 :: ps) sepK r) := by
      simp only [renderTail, List.append_assoc]
    rw [e, splitOn_first _ ha, ih]
    rfl

theorem splitOn_renderItems (p0 : Char) (ps sepK : Text) (hK : p0 ∉ sepK)
    (r : List (Text × Text)) (hne : r ≠ []) (h : ∀ kv ∈ r, p0 ∉ kv.1 ∧ p0 ∉ kv.2) :
    splitOn (p0 :: ps) (renderItems (p0 :: ps) sepK r) =
      r.map (fun kv => kv.1 ++ (sepK ++ kv.2)) := by
  cases r with
  | nil => exact absurd rfl hne
  | cons kv r =>
    obtain ⟨k, v⟩ := kv
    have hkv := h (k, v) (by simp)
    have hitem : p0 ∉ k ++ (sepK ++ v) := by
      simp only [List.mem_append, not_or]; exact ⟨hkv.1, hK, hkv.2⟩
    have := splitOn_renderTail p0 ps sepK hK r (k ++ (sepK ++ v)) hitem
      (fun kv hm => h kv (List.mem_cons_of_mem _ hm))
    simp only [renderItems, List.map_cons]
    simpa only [List.append_assoc] using this

/-- Splitting one item at the key/value separator. -/
theorem firstTwo_item {q0 : Char} {qs k v : Text} (hk : q0 ∉ k) (hv : q0 ∉ v) :
    firstTwo (splitOn (q0 :: qs) (k ++ ((q0 :: qs) ++ v))) = some (k, v) := by
  have h1 : splitOn (q0 :: qs) (k ++ ((q0 :: qs) ++ v)) = k :: splitOn (q0 :: qs) v := by
    have := splitOn_first (p0 := q0) (ps := qs) (a := k) v hk
    simpa only [List.append_assoc] using this
  have h2 : splitOn (q0 :: qs) v = [v] := splitOn_absent (c := q0) (by simp) hv
  rw [h1, h2]; rfl

theorem filterMap_items (q0 : Char) (qs : Text) :
    ∀ (r : List (Text × Text)), (∀ kv ∈ r, q0 ∉ kv.1 ∧ q0 ∉ kv.2) →
      (r.map (fun kv => kv.1 ++ ((q0 :: qs) ++ kv.2))).filterMap
        (fun item => firstTwo (splitOn (q0 :: qs) item)) = r
  | [], _ => rfl
  | (k, v) :: r, h => by
    have hkv := h (k, v) (by simp)
    have ih := filterMap_items q0 qs r (fun kv hm => h kv (List.mem_cons_of_mem _ hm))
    simp only [List.map_cons, List.filterMap_cons, firstTwo_item hkv.1 hkv.2, ih]

theorem parseBool_boolText (b : Bool) : parseBool (boolText b) = some b := by
  cases b <;> rfl

end Pdb.C17
