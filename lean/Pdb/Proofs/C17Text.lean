/-
C17 helper lemmas, part 1: text primitives (split, lines, decimal, hex) and the
`as_string` / `from_string` round trip.  Core Lean only.
-/
import Pdb.Model.Meta

namespace Pdb.C17

theorem mem_allOptions (o : ColumnOptions) : o ∈ allOptions := by
  obtain ⟨p, u, r, c, b, m, a, d⟩ := o
  have hb : ∀ x : Bool, x ∈ allBools := by intro x; cases x <;> decide
  have hc : ∀ x : Compression, x ∈ allCompressions := by intro x; cases x <;> decide
  simp only [allOptions, List.mem_flatMap, List.mem_map]
  exact ⟨p, hb p, u, hb u, r, hb r, c, hc c, b, hb b, m, hb m, a, hb a, d, hb d, rfl⟩

/-! ### `splitOn` (string pattern) -/

theorem splitOnGo_ne_nil (pat s : Text) (k : Nat) : splitOnGo pat s k ≠ [] := by
  induction s generalizing k with
  | nil => simp [splitOnGo]
  | cons c cs ih =>
    cases k with
    | succ k => simpa [splitOnGo] using ih k
    | zero =>
      unfold splitOnGo
      split
      · simp
      · split <;> simp

/-- Skipping the rest of a matched delimiter. -/
theorem splitOnGo_skip (pat x r : Text) : splitOnGo pat (x ++ r) x.length = splitOnGo pat r 0 := by
  induction x with
  | nil => rfl
  | cons c cs ih => simpa [splitOnGo] using ih

theorem mem_of_isPrefixOf {pat t : Text} (h : pat.isPrefixOf t = true) {c : Char} (hc : c ∈ pat) :
    c ∈ t := by
  have hp := List.isPrefixOf_iff_prefix.mp h
  exact hp.subset hc

/-- (S1) A pattern containing a character that does not occur in `s` does not split `s`. -/
theorem splitOn_absent {pat s : Text} {c : Char} (hc : c ∈ pat) (hs : c ∉ s) :
    splitOn pat s = [s] := by
  unfold splitOn
  induction s with
  | nil => rfl
  | cons a as ih =>
    have hno : pat.isPrefixOf (a :: as) = false := by
      cases h : pat.isPrefixOf (a :: as) with
      | false => rfl
      | true => exact absurd (mem_of_isPrefixOf h hc) hs
    have has : c ∉ as := fun h => hs (List.mem_cons_of_mem _ h)
    simp [splitOnGo, hno, ih has]

/-- (S2) The first piece ends at the first delimiter when the first character of the
delimiter does not occur before. -/
theorem splitOn_first {p0 : Char} {ps a : Text} (r : Text) (ha : p0 ∉ a) :
    splitOn (p0 :: ps) (a ++ (p0 :: ps) ++ r) = a :: splitOn (p0 :: ps) r := by
  unfold splitOn
  induction a with
  | nil =>
    have hp : (p0 :: ps).isPrefixOf ((p0 :: ps) ++ r) = true :=
      List.isPrefixOf_iff_prefix.mpr (List.prefix_append _ _)
    have hs := splitOnGo_skip (p0 :: ps) ps r
    simp only [List.nil_append, List.cons_append] at hp ⊢
    simp [splitOnGo, hp, hs]
  | cons c cs ih =>
    have hc : c ≠ p0 := fun h => ha (by simp [h])
    have hcs : p0 ∉ cs := fun h => ha (List.mem_cons_of_mem _ h)
    have hno : (p0 :: ps).isPrefixOf (c :: (cs ++ (p0 :: ps) ++ r)) = false := by
      simp [List.isPrefixOf, Ne.symm hc]
    have := ih hcs
    simp only [List.cons_append, List.append_assoc] at this hno ⊢
    simp [splitOnGo, hno, this]

/-! ### `splitChar` -/

theorem splitChar_absent {sep : Char} {s : Text} (hs : sep ∉ s) : splitChar sep s = [s] := by
  induction s with
  | nil => rfl
  | cons a as ih =>
    have h1 : a ≠ sep := fun h => hs (by simp [h])
    have h2 : sep ∉ as := fun h => hs (List.mem_cons_of_mem _ h)
    simp [splitChar, h1, ih h2]

theorem splitChar_first {sep : Char} {a : Text} (r : Text) (ha : sep ∉ a) :
    splitChar sep (a ++ sep :: r) = a :: splitChar sep r := by
  induction a with
  | nil => simp [splitChar]
  | cons c cs ih =>
    have h1 : c ≠ sep := fun h => ha (by simp [h])
    have h2 : sep ∉ cs := fun h => ha (List.mem_cons_of_mem _ h)
    simp [splitChar, h1, ih h2]

/-! ### `lines` / `joinLines` -/

theorem linesGo_append {l : Text} (rest cur : Text) (hl : '\n' ∉ l) :
    linesGo (l ++ rest) cur = linesGo rest (l.reverse ++ cur) := by
  induction l generalizing cur with
  | nil => rfl
  | cons c cs ih =>
    have h1 : c ≠ '\n' := fun h => hl (by simp [h])
    have h2 : '\n' ∉ cs := fun h => hl (List.mem_cons_of_mem _ h)
    simp [linesGo, h1, ih _ h2]

theorem linesGo_newline (cs cur : Text) :
    linesGo ('\n' :: cs) cur = finishLine cur :: linesGo cs [] := by
  simp [linesGo]

/-- A line is "clean": non-empty, no `\n`, no `\r`. -/
def CleanLine (l : Text) : Prop := l ≠ [] ∧ '\n' ∉ l ∧ '\r' ∉ l

theorem stripCr_reverse {l : Text} (h : '\r' ∉ l) : finishLine l.reverse = l := by
  unfold finishLine
  split
  · rename_i cur' heq
    have : '\r' ∈ l.reverse := by rw [heq]; simp
    exact absurd (List.mem_reverse.mp this) h
  · simp

theorem lines_single {l : Text} (h : CleanLine l) : lines l = [l] := by
  have := linesGo_append (l := l) [] [] h.2.1
  simp only [List.append_nil] at this
  unfold lines
  rw [this]
  have hne : l.reverse ≠ [] := by simpa using h.1
  cases hr : l.reverse with
  | nil => exact absurd hr hne
  | cons a as =>
    have : (a :: as).reverse = l := by rw [← hr]; simp
    simp [linesGo, this]

theorem lines_joinLines {ls : List Text} (h : ∀ l ∈ ls, CleanLine l) :
    lines (joinLines ls) = ls := by
  induction ls with
  | nil => rfl
  | cons l r ih =>
    cases r with
    | nil => exact lines_single (h l (by simp))
    | cons l2 r2 =>
      have hl := h l (by simp)
      have ih' := ih (fun x hx => h x (List.mem_cons_of_mem _ hx))
      show lines (l ++ '\n' :: joinLines (l2 :: r2)) = _
      unfold lines at ih' ⊢
      rw [linesGo_append _ _ hl.2.1]
      simp only [List.append_nil]
      rw [linesGo_newline, stripCr_reverse hl.2.2, ih']

/-! ### decimal and hex -/

theorem isDigit_digitChar (d : Nat) : isDigit (digitChar d) = true := by
  unfold digitChar
  split <;> rfl

theorem isDigit_of_mem_decGo {fuel n : Nat} {acc : Text} {c : Char}
    (h : c ∈ decGo fuel n acc) : isDigit c = true ∨ c ∈ acc := by
  induction fuel generalizing n acc with
  | zero => exact Or.inr h
  | succ f ih =>
    unfold decGo at h
    simp only at h
    split at h
    · rcases List.mem_cons.mp h with h | h
      · exact Or.inl (h ▸ isDigit_digitChar _)
      · exact Or.inr h
    · rcases ih h with h | h
      · exact Or.inl h
      · rcases List.mem_cons.mp h with h | h
        · exact Or.inl (h ▸ isDigit_digitChar _)
        · exact Or.inr h

theorem isDigit_of_mem_dec {n : Nat} {c : Char} (h : c ∈ dec n) : isDigit c = true := by
  rcases isDigit_of_mem_decGo h with h | h
  · exact h
  · cases h

theorem decGo_ne_nil (fuel n : Nat) (acc : Text) (h : fuel ≠ 0 ∨ acc ≠ []) :
    decGo fuel n acc ≠ [] := by
  induction fuel generalizing n acc with
  | zero => simpa [decGo] using h
  | succ f ih =>
    unfold decGo
    simp only
    split
    · simp
    · exact ih _ _ (Or.inr (by simp))

theorem dec_ne_nil (n : Nat) : dec n ≠ [] := decGo_ne_nil _ _ _ (Or.inl (by omega))

theorem isDigit_of_mem_pad2 {n : Nat} {c : Char} (h : c ∈ pad2 n) : isDigit c = true := by
  unfold pad2 at h
  split at h
  · rcases List.mem_cons.mp h with h | h
    · exact h ▸ rfl
    · exact isDigit_of_mem_dec h
  · exact isDigit_of_mem_dec h

/-! #### decimal round trip: `parseDigits (dec n) 0 = some n` -/

theorem decGo_acc (fuel n : Nat) (acc : Text) : decGo fuel n acc = decGo fuel n [] ++ acc := by
  induction fuel generalizing n acc with
  | zero => rfl
  | succ f ih =>
    unfold decGo
    simp only
    split
    · rfl
    · rw [ih (n / 10) (digitChar (n % 10) :: acc), ih (n / 10) [digitChar (n % 10)]]
      simp

def digitStep (a : Nat) (c : Char) : Nat := a * 10 + (c.toNat - 48)

theorem parseDigits_eq {ds : Text} (h : ∀ c ∈ ds, isDigit c = true) (a : Nat) :
    parseDigits ds a = some (ds.foldl digitStep a) := by
  induction ds generalizing a with
  | nil => rfl
  | cons c r ih =>
    have hc := h c (by simp)
    simp only [parseDigits, hc, if_true, List.foldl_cons]
    exact ih (fun x hx => h x (List.mem_cons_of_mem _ hx)) _

theorem digitChar_val : ∀ d, d < 10 → (digitChar d).toNat - 48 = d := by decide

theorem decGo_val (fuel n : Nat) (h : n < fuel) : (decGo fuel n []).foldl digitStep 0 = n := by
  induction fuel generalizing n with
  | zero => omega
  | succ f ih =>
    unfold decGo
    simp only
    split
    · rename_i h0
      have hd := digitChar_val (n % 10) (by omega)
      have : n % 10 = n := by omega
      rw [this] at hd
      simp [digitStep, this, hd]
    · rename_i h0
      rw [decGo_acc, List.foldl_append, ih (n / 10) (by omega)]
      simp only [List.foldl_cons, List.foldl_nil, digitStep, digitChar_val (n % 10) (by omega)]
      omega

theorem parseDigits_dec (n : Nat) : parseDigits (dec n) 0 = some n := by
  rw [parseDigits_eq (fun _ h => isDigit_of_mem_dec h)]
  unfold dec
  rw [decGo_val _ _ (by omega)]

theorem parseDigits_pad2 (n : Nat) : parseDigits (pad2 n) 0 = some n := by
  unfold pad2
  split
  · have : isDigit '0' = true := rfl
    simp only [parseDigits, this, if_true]
    exact parseDigits_dec n
  · exact parseDigits_dec n

theorem pad2_injective {a b : Nat} (h : pad2 a = pad2 b) : a = b := by
  have := parseDigits_pad2 a
  rw [h, parseDigits_pad2 b] at this
  exact (Option.some.inj this).symm

theorem dec_injective {a b : Nat} (h : dec a = dec b) : a = b := by
  have := parseDigits_dec a
  rw [h, parseDigits_dec b] at this
  exact (Option.some.inj this).symm

/-- `uN::from_str` reads back what `{}` printed. -/
theorem parseUnsigned_dec {max n : Nat} (h : n ≤ max) : parseUnsigned max (dec n) = some n := by
  unfold parseUnsigned
  have hne := dec_ne_nil n
  have hstrip : stripPlus (dec n) = dec n := by
    unfold stripPlus
    split
    · rename_i r heq
      have : isDigit '+' = true := isDigit_of_mem_dec (n := n) (by rw [heq]; simp)
      exact absurd this (by decide)
    · rfl
  rw [hstrip]
  split
  · rename_i heq; exact absurd heq hne
  · rw [parseDigits_dec]
    simp [h]

/-- Characters that may appear in the generated metadata values: lower-case letters,
digits, space, `:`, `,`, `_`.  None of them is `=`, `\n` or `\r`. -/
def plainChar (c : Char) : Bool :=
  isDigit c || (97 ≤ c.toNat && c.toNat ≤ 122) || c = ' ' || c = ':' || c = ',' || c = '_'

theorem plainChar_ne {c : Char} (h : plainChar c = true) : c ≠ '=' ∧ c ≠ '\n' ∧ c ≠ '\r' := by
  refine ⟨?_, ?_, ?_⟩ <;> (intro heq; subst heq; revert h; decide)

theorem plainChar_of_isDigit {c : Char} (h : isDigit c = true) : plainChar c = true := by
  simp [plainChar, h]

theorem isDigit_ne_underscore {c : Char} (h : isDigit c = true) : c ≠ '_' := by
  intro heq; subst heq; revert h; decide

theorem plainChar_hexDigitChar (d : Nat) : plainChar (hexDigitChar d) = true := by
  unfold hexDigitChar
  split <;> rfl

theorem plain_hexEncode (bs : List Nat) : (hexEncode bs).all plainChar = true := by
  induction bs with
  | nil => rfl
  | cons b r ih => simp [hexEncode, plainChar_hexDigitChar, ih]

theorem plain_dec (n : Nat) : (dec n).all plainChar = true :=
  List.all_eq_true.mpr fun _ h => plainChar_of_isDigit (isDigit_of_mem_dec h)

theorem hexVal_hexDigitChar : ∀ d, d < 16 → hexVal (hexDigitChar d) = some d := by decide

theorem hexDecode_hexEncode {bs : List Nat} (h : ∀ b ∈ bs, b < 256) :
    hexDecode (hexEncode bs) = some bs := by
  induction bs with
  | nil => rfl
  | cons b r ih =>
    have hb : b < 256 := h b (by simp)
    have ih' := ih (fun x hx => h x (List.mem_cons_of_mem _ hx))
    have h1 := hexVal_hexDigitChar (b / 16) (by omega)
    have h2 := hexVal_hexDigitChar (b % 16) (by omega)
    simp only [hexEncode, hexDecode, h1, h2, ih']
    congr 2
    omega

theorem hexVal_lt {c : Char} {x : Nat} (h : hexVal c = some x) : x < 16 := by
  unfold hexVal at h
  simp only [Bool.and_eq_true, decide_eq_true_eq] at h
  split at h
  · cases h; omega
  · split at h
    · cases h; omega
    · split at h
      · cases h; omega
      · cases h

theorem hexDecode_lt : ∀ {t : Text} {bs : List Nat}, hexDecode t = some bs → ∀ b ∈ bs, b < 256
  | [], bs, h => by cases h; simp
  | [_], bs, h => by cases h
  | a :: b :: r, bs, h => by
    unfold hexDecode at h
    split at h
    · rename_i x y bs' hx hy hr
      cases h
      intro b' hb'
      rcases List.mem_cons.mp hb' with hb' | hb'
      · have := hexVal_lt hx; have := hexVal_lt hy; omega
      · exact hexDecode_lt hr b' hb'
    · cases h

/-! ### `from_string (as_string o)` -/

/-- One `key: value` item of the options text. -/
def item (k v : Text) : Text := k ++ t!": " ++ v

theorem asString_eq (o : ColumnOptions) :
    asString o =
      item t!"preimage" (boolText o.preimage) ++ t!", " ++
      (item t!"uniform" (boolText o.uniform) ++ t!", " ++
      (item t!"refc" (boolText o.refCounted) ++ t!", " ++
      (item t!"compression" (dec o.compression.code) ++ t!", " ++
      (item t!"ordered" (boolText o.btreeIndex) ++ t!", " ++
      (item t!"multitree" (boolText o.multitree) ++ t!", " ++
      (item t!"append_only" (boolText o.appendOnly) ++ t!", " ++
      item t!"allow_direct_node_access" (boolText o.allowDirectNodeAccess))))))) := by
  simp [asString, item, List.append_assoc]

theorem plain_boolText (b : Bool) : (boolText b).all plainChar = true := by
  cases b <;> decide

theorem plain_asString (o : ColumnOptions) : (asString o).all plainChar = true := by
  simp only [asString, List.all_append, plain_boolText, plain_dec, Bool.and_true]
  decide

/-- The values printed by `as_string` contain neither `,` nor `:` nor `z`. -/
def valueChar (c : Char) : Bool := c ≠ ',' && c ≠ ':' && c ≠ 'z'

theorem value_boolText (b : Bool) : (boolText b).all valueChar = true := by
  cases b <;> decide

theorem value_code (c : Compression) : (dec c.code).all valueChar = true := by
  cases c <;> decide

theorem not_mem_of_all {p : Char → Bool} {t : Text} {c : Char} (h : t.all p = true)
    (hc : p c = false) : c ∉ t := by
  intro hm
  have := List.all_eq_true.mp h c hm
  rw [hc] at this
  cases this

/-- Splitting one item on `": "`. -/
theorem firstTwo_item {k v : Text} (hk : ':' ∉ k) (hv : v.all valueChar = true) :
    firstTwo (splitOn t!": " (item k v)) = some (k, v) := by
  have hv' : ':' ∉ v := not_mem_of_all hv (by decide)
  have h1 : splitOn t!": " (item k v) = k :: splitOn t!": " v := by
    have := splitOn_first (p0 := ':') (ps := [' ']) (a := k) v hk
    simpa [item, List.append_assoc] using this
  have h2 : splitOn t!": " v = [v] := splitOn_absent (c := ':') (by decide) hv'
  rw [h1, h2]; rfl

theorem comma_not_mem_item {k v : Text} (hk : k.all valueChar = true)
    (hv : v.all valueChar = true) : ',' ∉ item k v := by
  have h : (item k v).all (fun c => c ≠ ',') = true := by
    simp only [item, List.all_append]
    have h1 : k.all (fun c => decide (c ≠ ',')) = true :=
      List.all_eq_true.mpr fun c hc => by
        have := List.all_eq_true.mp hk c hc
        simp only [valueChar, Bool.and_eq_true, decide_eq_true_eq] at this
        simpa using this.1.1
    have h2 : v.all (fun c => decide (c ≠ ',')) = true :=
      List.all_eq_true.mpr fun c hc => by
        have := List.all_eq_true.mp hv c hc
        simp only [valueChar, Bool.and_eq_true, decide_eq_true_eq] at this
        simpa using this.1.1
    rw [h1, h2]; decide
  exact not_mem_of_all h (by decide)

theorem z_not_mem_asString (o : ColumnOptions) : 'z' ∉ asString o := by
  have h : (asString o).all (fun c => c ≠ 'z') = true := by
    have hb : ∀ b, (boolText b).all (fun c => decide (c ≠ 'z')) = true := by
      intro b; cases b <;> decide
    have hc : (dec o.compression.code).all (fun c => decide (c ≠ 'z')) = true := by
      cases o.compression <;> decide
    simp only [asString, List.all_append, hb, hc, Bool.and_true]
    decide
  exact not_mem_of_all h (by decide)

/-- The `HashMap` built by `from_string` from the output of `as_string`. -/
theorem parseItems_asString (o : ColumnOptions) :
    parseItems (asString o) =
      [(t!"preimage", boolText o.preimage), (t!"uniform", boolText o.uniform),
       (t!"refc", boolText o.refCounted), (t!"compression", dec o.compression.code),
       (t!"ordered", boolText o.btreeIndex), (t!"multitree", boolText o.multitree),
       (t!"append_only", boolText o.appendOnly),
       (t!"allow_direct_node_access", boolText o.allowDirectNodeAccess)] := by
  have hsz : splitOn t!"sizes: " (asString o) = [asString o] :=
    splitOn_absent (c := 'z') (by decide) (z_not_mem_asString o)
  unfold parseItems
  rw [hsz]
  simp only
  rw [asString_eq]
  have vb := value_boolText
  have vc := value_code o.compression
  rw [splitOn_first (p0 := ',') (ps := [' ']) _ (comma_not_mem_item (by decide) (vb _)),
      splitOn_first (p0 := ',') (ps := [' ']) _ (comma_not_mem_item (by decide) (vb _)),
      splitOn_first (p0 := ',') (ps := [' ']) _ (comma_not_mem_item (by decide) (vb _)),
      splitOn_first (p0 := ',') (ps := [' ']) _ (comma_not_mem_item (by decide) vc),
      splitOn_first (p0 := ',') (ps := [' ']) _ (comma_not_mem_item (by decide) (vb _)),
      splitOn_first (p0 := ',') (ps := [' ']) _ (comma_not_mem_item (by decide) (vb _)),
      splitOn_first (p0 := ',') (ps := [' ']) _ (comma_not_mem_item (by decide) (vb _)),
      splitOn_absent (c := ',') (by decide) (comma_not_mem_item (by decide) (vb _))]
  simp only [List.filterMap_cons, List.filterMap_nil,
    firstTwo_item (k := t!"preimage") (by decide) (vb _),
    firstTwo_item (k := t!"uniform") (by decide) (vb _),
    firstTwo_item (k := t!"refc") (by decide) (vb _),
    firstTwo_item (k := t!"compression") (by decide) vc,
    firstTwo_item (k := t!"ordered") (by decide) (vb _),
    firstTwo_item (k := t!"multitree") (by decide) (vb _),
    firstTwo_item (k := t!"append_only") (by decide) (vb _),
    firstTwo_item (k := t!"allow_direct_node_access") (by decide) (vb _)]

theorem parseBool_boolText (b : Bool) : parseBool (boolText b) = some b := by
  cases b <;> rfl

theorem ofCode_code (c : Compression) :
    Compression.ofCode (((parseUnsigned 255 (dec c.code)) : Option Nat).getD 0) = .ok c := by
  cases c <;> rfl

/-- `from_string (as_string o) = Some(o)` for every option combination. -/
theorem fromString_asString (o : ColumnOptions) : fromString (asString o) = .ok o := by
  obtain ⟨p, u, r, c, b, m, a, d⟩ := o
  unfold fromString
  rw [parseItems_asString]
  have l1 : ∀ v1 v2 v3 v4 v5 v6 v7 v8 : Text,
      lookupLast t!"preimage" [(t!"preimage", v1), (t!"uniform", v2), (t!"refc", v3),
        (t!"compression", v4), (t!"ordered", v5), (t!"multitree", v6), (t!"append_only", v7),
        (t!"allow_direct_node_access", v8)] = some v1 := fun _ _ _ _ _ _ _ _ => rfl
  have l2 : ∀ v1 v2 v3 v4 v5 v6 v7 v8 : Text,
      lookupLast t!"uniform" [(t!"preimage", v1), (t!"uniform", v2), (t!"refc", v3),
        (t!"compression", v4), (t!"ordered", v5), (t!"multitree", v6), (t!"append_only", v7),
        (t!"allow_direct_node_access", v8)] = some v2 := fun _ _ _ _ _ _ _ _ => rfl
  have l3 : ∀ v1 v2 v3 v4 v5 v6 v7 v8 : Text,
      lookupLast t!"refc" [(t!"preimage", v1), (t!"uniform", v2), (t!"refc", v3),
        (t!"compression", v4), (t!"ordered", v5), (t!"multitree", v6), (t!"append_only", v7),
        (t!"allow_direct_node_access", v8)] = some v3 := fun _ _ _ _ _ _ _ _ => rfl
  have l4 : ∀ v1 v2 v3 v4 v5 v6 v7 v8 : Text,
      lookupLast t!"compression" [(t!"preimage", v1), (t!"uniform", v2), (t!"refc", v3),
        (t!"compression", v4), (t!"ordered", v5), (t!"multitree", v6), (t!"append_only", v7),
        (t!"allow_direct_node_access", v8)] = some v4 := fun _ _ _ _ _ _ _ _ => rfl
  have l5 : ∀ v1 v2 v3 v4 v5 v6 v7 v8 : Text,
      lookupLast t!"ordered" [(t!"preimage", v1), (t!"uniform", v2), (t!"refc", v3),
        (t!"compression", v4), (t!"ordered", v5), (t!"multitree", v6), (t!"append_only", v7),
        (t!"allow_direct_node_access", v8)] = some v5 := fun _ _ _ _ _ _ _ _ => rfl
  have l6 : ∀ v1 v2 v3 v4 v5 v6 v7 v8 : Text,
      lookupLast t!"multitree" [(t!"preimage", v1), (t!"uniform", v2), (t!"refc", v3),
        (t!"compression", v4), (t!"ordered", v5), (t!"multitree", v6), (t!"append_only", v7),
        (t!"allow_direct_node_access", v8)] = some v6 := fun _ _ _ _ _ _ _ _ => rfl
  have l7 : ∀ v1 v2 v3 v4 v5 v6 v7 v8 : Text,
      lookupLast t!"append_only" [(t!"preimage", v1), (t!"uniform", v2), (t!"refc", v3),
        (t!"compression", v4), (t!"ordered", v5), (t!"multitree", v6), (t!"append_only", v7),
        (t!"allow_direct_node_access", v8)] = some v7 := fun _ _ _ _ _ _ _ _ => rfl
  have l8 : ∀ v1 v2 v3 v4 v5 v6 v7 v8 : Text,
      lookupLast t!"allow_direct_node_access" [(t!"preimage", v1), (t!"uniform", v2),
        (t!"refc", v3), (t!"compression", v4), (t!"ordered", v5), (t!"multitree", v6),
        (t!"append_only", v7), (t!"allow_direct_node_access", v8)] = some v8 :=
    fun _ _ _ _ _ _ _ _ => rfl
  simp only [optFlag, l1, l2, l3, l4, l5, l6, l7, l8, Option.bind_some, parseBool_boolText,
    Option.getD_some, ofCode_code]

end Pdb.C17
