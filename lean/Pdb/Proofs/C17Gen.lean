/-
C17 helper lemmas, part 1b: the T0 OBLIGATIONS on the constants generated from the Rust
source text (Pdb/Gen/Text.lean, tools/rs2lean_text.py), each discharged by `decide` on what the
code says NOW, and the `as_string` / `from_string` round trip derived from them.

A changed string literal / format string / table row in the Rust breaks one of the
`decide`s below (or a `rfl` that evaluates the generated tables), hence `lake build
Pdb.Props.C17`.  Obligations are marked `T0 obligation`.  Core Lean only.
-/
import Pdb.Proofs.C17Text

namespace Pdb.C17

/-! ### `as_string` format vs `from_string` separators and keys -/

/-- The keys `from_string` looks up, in `let` order. -/
def fromStringKeyList : List Text := Gen.Text.fromStringKeys.map (fun r => r.2.1)

/-- The struct fields `from_string` fills, in `let` order. -/
def fromStringFieldList : List Text := Gen.Text.fromStringKeys.map (fun r => r.1)

/-- T0 obligation (shape): the format string of `as_string` is
`l1<kv>{}<item>l2<kv>{}..<item>l8<kv>{}` where `<item>` and `<kv>` are exactly the literals
`from_string` splits at. -/
theorem asString_shape : Gen.Text.asStringPieces =
    piecesOf Gen.Text.fromStringItemSep Gen.Text.fromStringKvSep Gen.Text.asStringLabels := by
  decide

/-- T0 obligation (keys): every key looked up by `from_string` is the label `as_string` prints
at the same position. -/
theorem keys_eq_labels : fromStringKeyList = Gen.Text.asStringLabels := by decide

/-- T0 obligation (fields): the i-th argument of `as_string` is the field the i-th `let` of
`from_string` fills (`compression` is printed `as u8`). -/
theorem args_eq_fields : Gen.Text.asStringArgs.map (fun a => a.takeWhile (· ≠ ' ')) =
    fromStringFieldList := by decide

/-- T0 obligation: one argument per label. -/
theorem labels_length : Gen.Text.asStringLabels.length = Gen.Text.asStringArgs.length := by decide

/-- T0 obligation: there is at least one label. -/
theorem labels_ne_nil : Gen.Text.asStringLabels ≠ [] := by decide

/-- T0 obligation: labels are pairwise distinct (a `HashMap` keeps one value per key). -/
theorem labels_nodup : Gen.Text.asStringLabels.Nodup := by decide

/-- T0 obligation: the required / defaulted split and the defaults of `from_string`. -/
theorem fromString_defaults :
    Gen.Text.fromStringKeys.map (fun r => (r.1, r.2.2.1, r.2.2.2)) =
      [(t!"preimage", true, []), (t!"uniform", true, []), (t!"ref_counted", true, []),
       (t!"compression", false, t!"0"), (t!"btree_index", false, t!"false"),
       (t!"multitree", false, t!"false"), (t!"append_only", false, t!"false"),
       (t!"allow_direct_node_access", false, t!"false")] := by decide

/-- First character of the item separator (`,`). -/
def sepI0 : Char := Gen.Text.fromStringItemSep.headD ' '
/-- First character of the key/value separator (`:`). -/
def sepK0 : Char := Gen.Text.fromStringKvSep.headD ' '

/-- Every character an `as_string` VALUE can contain (`true`, `false`, a `u8`). -/
def valueChars : Text := t!"truefals0123456789"

/-- Characters of all labels. -/
def labelChars : Text := Gen.Text.asStringLabels.flatten

/-- A character of the `sizes: ` literal that cannot occur in the output of `as_string`. -/
def sizesChar : Char :=
  (Gen.Text.fromStringSizesSep.find? fun c =>
    !(labelChars ++ valueChars ++ Gen.Text.fromStringItemSep ++ Gen.Text.fromStringKvSep).contains c).getD ' '

/-- T0 obligation: the split literals are not empty (`str::split("")` behaves differently). -/
theorem itemSep_cons :
    Gen.Text.fromStringItemSep = sepI0 :: Gen.Text.fromStringItemSep.tail := by decide
theorem kvSep_cons :
    Gen.Text.fromStringKvSep = sepK0 :: Gen.Text.fromStringKvSep.tail := by decide

/-- T0 obligation: the item separator starts with a character that occurs in no label, no
value and not in the key/value separator. -/
theorem sepI0_absent : sepI0 ∉ labelChars ∧ sepI0 ∉ valueChars ∧ sepI0 ∉ Gen.Text.fromStringKvSep := by
  decide

/-- T0 obligation: the key/value separator starts with a character that occurs in no label and
no value. -/
theorem sepK0_absent : sepK0 ∉ labelChars ∧ sepK0 ∉ valueChars := by decide

/-- T0 obligation: the `sizes: ` literal contains a character (`z`) that occurs in no label, no
value and no separator, so `split("sizes: ")` leaves the output of `as_string` in one piece. -/
theorem sizesChar_spec : sizesChar ∈ Gen.Text.fromStringSizesSep ∧ sizesChar ∉ labelChars ∧
    sizesChar ∉ valueChars ∧ sizesChar ∉ Gen.Text.fromStringItemSep ∧
    sizesChar ∉ Gen.Text.fromStringKvSep := by decide

/-- T0 obligation: no piece of the `as_string` format contains the character the metadata loader
splits at, `\n` or `\r`. -/
theorem plain_pieces : Gen.Text.asStringPieces.all (fun p => p.all plainChar) = true := by decide

theorem plain_valueChars : valueChars.all plainChar = true := by decide

/-! ### compression codes -/

/-- T0 obligation: the generated enum has exactly the modelled variants, in order. -/
theorem compression_names :
    Gen.Text.compressionCodes.map (fun r => r.1) = allCompressions.map Compression.name := by decide

/-- T0 obligation: discriminants are distinct (`From<u8>` inverts `as u8`). -/
theorem ofCode_code (c : Compression) : Compression.ofCode c.code = .ok c := by
  cases c <;> decide

/-- T0 obligation: every discriminant passes the guard of `from_string`. -/
theorem code_le_guard (c : Compression) :
    ¬ c.code > codeOfName Gen.Text.fromStringMaxCompression := by
  cases c <;> decide

/-- T0 obligation: every `u8` that passes the guard is a known discriminant, so that
`compression.into()` cannot panic (F16). -/
theorem guard_no_panic : ∀ n, n ≤ codeOfName Gen.Text.fromStringMaxCompression →
    Compression.ofCode n ≠ .panic := by decide

theorem code_le_255 (c : Compression) : c.code ≤ 255 := by
  cases c <;> decide

theorem value_code (c : Compression) : ∀ x ∈ dec c.code, x ∈ valueChars := by
  cases c <;> decide

theorem value_boolText (b : Bool) : ∀ x ∈ boolText b, x ∈ valueChars := by
  cases b <;> decide

/-! ### `is_valid` -/

/-- T0 obligation: the generated `is_valid` rejects exactly the three documented combinations
(reference counting without `preimage`; reference counting on an append-only column; a
multitree column with compression) - the table the c17 harness relies on when it picks valid
and invalid option sets. -/
theorem isValid_table (o : ColumnOptions) :
    o.isValid = (!(o.refCounted && !o.preimage) && !(o.refCounted && o.appendOnly) &&
      !(o.multitree && o.compression != .NoCompression)) := by
  obtain ⟨p, u, r, c, b, m, a, d⟩ := o
  cases p <;> cases u <;> cases r <;> cases c <;> cases b <;> cases m <;> cases a <;> cases d <;> rfl

/-! ### `from_string (as_string o)` -/

/-- The values `as_string` prints, in argument order. -/
def values (o : ColumnOptions) : List Text := Gen.Text.asStringArgs.map (argText o)

/-- The (label, value) pairs `as_string` prints. -/
def kvs (o : ColumnOptions) : List (Text × Text) := Gen.Text.asStringLabels.zip (values o)

theorem values_eq (o : ColumnOptions) : values o =
    [boolText o.preimage, boolText o.uniform, boolText o.refCounted, dec o.compression.code,
     boolText o.btreeIndex, boolText o.multitree, boolText o.appendOnly,
     boolText o.allowDirectNodeAccess] := rfl

theorem value_values (o : ColumnOptions) : ∀ v ∈ values o, ∀ x ∈ v, x ∈ valueChars := by
  intro v hv
  rw [values_eq] at hv
  simp only [List.mem_cons, List.not_mem_nil, or_false] at hv
  rcases hv with h | h | h | h | h | h | h | h <;> subst h <;>
    first | exact value_boolText _ | exact value_code _

theorem asString_eq (o : ColumnOptions) :
    asString o = renderItems Gen.Text.fromStringItemSep Gen.Text.fromStringKvSep (kvs o) := by
  unfold asString kvs
  rw [asString_shape]
  exact fmt_piecesOf _ _ (by simp only [List.length_map]; exact labels_length)

theorem kvs_ne_nil (o : ColumnOptions) : kvs o ≠ [] := by
  have h : (kvs o).length = Gen.Text.asStringLabels.length := by
    simp [kvs, values, labels_length]
  intro hn
  rw [hn] at h
  exact labels_ne_nil (List.eq_nil_of_length_eq_zero h.symm)

/-- A character outside the label and the value characters occurs in no printed pair. -/
theorem not_mem_kvs {c : Char} (hl : c ∉ labelChars) (hv : c ∉ valueChars) (o : ColumnOptions) :
    ∀ kv ∈ kvs o, c ∉ kv.1 ∧ c ∉ kv.2 := by
  intro kv hkv
  obtain ⟨hk, hval⟩ := List.of_mem_zip hkv
  constructor
  · intro hc
    exact hl (List.mem_flatten.mpr ⟨_, hk, hc⟩)
  · intro hc
    exact hv (value_values o _ hval c hc)

/-- The `HashMap` built by `from_string` from the output of `as_string`. -/
theorem parseItems_asString (o : ColumnOptions) : parseItems (asString o) = kvs o := by
  have hI := sepI0_absent
  have hK := sepK0_absent
  have hZ := sizesChar_spec
  have hsz : splitOn Gen.Text.fromStringSizesSep (asString o) = [asString o] := by
    apply splitOn_absent (c := sizesChar) hZ.1
    rw [asString_eq]
    exact not_mem_renderItems hZ.2.2.2.1 hZ.2.2.2.2 (not_mem_kvs hZ.2.1 hZ.2.2.1 o)
  unfold parseItems
  rw [hsz]
  simp only
  rw [asString_eq, itemSep_cons,
    splitOn_renderItems sepI0 _ _ hI.2.2 (kvs o) (kvs_ne_nil o) (not_mem_kvs hI.1 hI.2.1 o),
    kvSep_cons]
  exact filterMap_items sepK0 _ (kvs o) (not_mem_kvs hK.1 hK.2 o)

/-- What the eight `let`s of `from_string` read from the pairs printed by `as_string`
(evaluates the generated key table against the generated labels). -/
theorem readRaw_zip (v1 v2 v3 v4 v5 v6 v7 v8 : Text) :
    readRaw (Gen.Text.asStringLabels.zip [v1, v2, v3, v4, v5, v6, v7, v8]) =
      ((parseBool v1).or none).bind fun preimage =>
      ((parseBool v2).or none).bind fun uniform =>
      ((parseBool v3).or none).bind fun refCounted =>
      ((parseUnsigned 255 v4).or (parseUnsigned 255 t!"0")).bind fun compression =>
      ((parseBool v5).or (parseBool t!"false")).bind fun btreeIndex =>
      ((parseBool v6).or (parseBool t!"false")).bind fun multitree =>
      ((parseBool v7).or (parseBool t!"false")).bind fun appendOnly =>
      ((parseBool v8).or (parseBool t!"false")).bind fun allowDirectNodeAccess =>
      some { preimage, uniform, refCounted, compression, btreeIndex, multitree, appendOnly,
             allowDirectNodeAccess } := rfl

/-- `from_string (as_string o) = Some(o)` for every option combination. -/
theorem fromString_asString (o : ColumnOptions) : fromString (asString o) = .ok o := by
  unfold fromString
  rw [parseItems_asString, kvs, values_eq, readRaw_zip]
  simp only [parseBool_boolText, parseUnsigned_dec (code_le_255 o.compression), Option.some_or,
    Option.bind_some, code_le_guard, if_false, ofCode_code]

theorem plain_boolText (b : Bool) : (boolText b).all plainChar = true := by
  cases b <;> decide

theorem plain_values (o : ColumnOptions) : (values o).all (fun v => v.all plainChar) = true := by
  rw [List.all_eq_true]
  intro v hv
  rw [List.all_eq_true]
  intro c hc
  exact List.all_eq_true.mp plain_valueChars c (value_values o v hv c hc)

theorem plain_asString (o : ColumnOptions) : (asString o).all plainChar = true :=
  all_fmt _ _ plain_pieces (plain_values o)

end Pdb.C17
