/-
C05Driver: the `c05` driver (Model/ConcReadDriver.lean) replays SCHEDULES of the LTS `cstep`.

  * `cstep_of_not_enabled`   an action the driver reports as `disabled:<a>` is a no-op of the LTS;
  * `cstepX_eq`, `crunX_eq`  the executable step (one-pass record planning) is `cstep`;
  * `stepDrv_sched`          one op line moves the state by `crun` of the schedule it denotes
                             (`process` = [pop, publish, cleanOverlay], `get k` = the five reader
                             actions of reader 0, `enactRecord` = the remaining enactWrites ++ [endRead]);
  * `replay_is_schedule`     a whole replayed op sequence is `crun kindOf n CSt.init (schedOf ..)`;
  * `read_event`             the answer printed by `get` / `size` / the final `rEnd` is the `result`
                             of the `ReadEvt` the read appends to the ghost list `reads`;
  * `replay_reads_linearizable`  hence the C05 theorems apply to every read of every replayed
                             trace: the compared answers are the ones `C05_read_linearizable`
                             speaks about.
-/
import Pdb.Model.ConcReadDriver
import Pdb.Props.C05

namespace Pdb.CRdDriver
open CRd

section Generic
variable {K V : Type} [DecidableEq K]

/-- A disabled action leaves the state unchanged. -/
theorem cstep_of_not_enabled (kind : K → Kind) (N : Nat) (s : CSt K V) (a : CAct K V)
    (h : enabled kind N s a = false) : cstep kind N s a = s := by
  cases a with
  | commit tx =>
    simp only [enabled, Bool.and_eq_false_iff, Bool.not_eq_false'] at h
    simp only [cstep]
    rcases h with h | h
    · simp [h]
    · split
      · rfl
      · simp [h]
  | pop =>
    simp only [enabled] at h
    simp only [cstep]
    split <;> simp_all
  | publish =>
    simp only [enabled] at h
    simp only [cstep]
    split <;> simp_all
  | cleanOverlay =>
    simp only [enabled, Bool.and_eq_false_iff, Bool.not_eq_false'] at h
    simp only [cstep]
    rcases h with h | h
    · simp [h]
    · split
      · rfl
      · split <;> simp_all
  | flush => simp [enabled] at h
  | enactWrite =>
    simp only [enabled] at h
    simp only [cstep]
    split
    · split
      · simp_all
      · rfl
    · rfl
  | endRead =>
    simp only [enabled] at h
    simp only [cstep]
    split
    · simp_all
    · rfl
  | rBegin t k =>
    simp only [enabled, Bool.and_eq_false_iff, decide_eq_false_iff_not] at h
    simp only [cstep]
    split
    · rename_i hh
      rcases h with h | h
      · exact absurd hh.1 h
      · simp [hh.2] at h
    · rfl
  | rOverlay t =>
    simp only [enabled] at h
    simp only [cstep]
    split <;> simp_all
  | rLog t =>
    simp only [enabled] at h
    simp only [cstep]
    split <;> simp_all
  | rTable t =>
    simp only [enabled] at h
    simp only [cstep]
    split <;> simp_all
  | rEnd t =>
    simp only [enabled] at h
    simp only [cstep]
    split <;> simp_all

omit [DecidableEq K] in
theorem setReader_readers_self (s : CSt K V) (t : Nat) (pc : RPc K V) :
    (setReader s t pc).readers t = pc := by simp [setReader]

/-- A whole point read by reader 0 that can take the overlay lock: its lookups end with a
    result `r`, and the five actions append exactly the event (0, k, r) to `reads`, with no
    commit accepted in between. -/
theorem read_event (kind : K → Kind) (N : Nat) (s : CSt K V) (k : K)
    (h : enabled kind N s (.rBegin 0 k) = true) :
    ∃ r, resultAt (crun kind N s (lookupActs 0 k)) 0 = some r ∧
      (crun kind N s (readActs 0 k)).reads =
        s.reads ++ [{ tid := 0, key := k, result := r, startSeq := s.hist.length,
                      endSeq := s.hist.length }] := by
  simp only [enabled, Bool.and_eq_true, decide_eq_true_eq] at h
  obtain ⟨hN, hidle⟩ := h
  have h1 : cstep kind N s (.rBegin 0 k) = setReader s 0 (.started k s.hist.length) := by
    simp [cstep, hN, hidle]
  simp only [readActs, lookupActs, crun, List.foldl_cons, List.foldl_nil, List.cons_append,
    List.nil_append, h1]
  cases ho : s.overlay k with
  | some p =>
    obtain ⟨i, v⟩ := p
    refine ⟨v, ?_, ?_⟩ <;>
      simp [cstep, setReader, resultAt, ho]
  | none =>
    cases hl : logLookup s.logged k with
    | some c =>
      refine ⟨c.map Prod.fst, ?_, ?_⟩ <;>
        simp [cstep, setReader, resultAt, ho, hl]
    | none =>
      refine ⟨(s.tables k).map Prod.fst, ?_, ?_⟩ <;>
        simp [cstep, setReader, resultAt, ho, hl]

/-- The one-pass evaluation of a transaction's effect on one key. -/
theorem applyOps_apply (kind : K → Kind) (t : Tbl K V) (ops : List (Op K V)) (x : K) :
    applyOps kind t ops x = cellAfter kind t ops x := by
  induction ops generalizing t with
  | nil => rfl
  | cons op ops ih =>
    have h1 : applyOps kind t (op :: ops) = applyOps kind (applyOp kind t op) ops := rfl
    have h2 : cellAfter kind t (op :: ops) x =
        cellAfter kind (fun y => if op.key = y then applyCell (kind op.key) op (t y) else t y)
          ops x := rfl
    rw [h1, ih, h2]
    simp only [cellAfter]
    congr 1
    simp only [applyOp, upd]
    by_cases hx : x = op.key
    · subst hx; simp
    · have : ¬ op.key = x := fun h => hx h.symm
      simp [hx, this]

theorem planRecX_eq (kind : K → Kind) (t : Tbl K V) (ops : List (Op K V)) :
    planRecX kind t ops = planRec kind t ops := by
  simp only [planRecX, planRec]
  apply List.map_congr_left
  intro op _
  rw [applyOps_apply]

/-- The executable step IS the step of the LTS. -/
theorem cstepX_eq (kind : K → Kind) (N : Nat) (s : CSt K V) (a : CAct K V) :
    cstepX kind N s a = cstep kind N s a := by
  cases a with
  | publish =>
    simp only [cstepX, cstep, planRecX_eq]
    rcases s.inflight with _ | ⟨c, _ | _⟩ <;> rfl
  | _ => rfl

theorem crunX_eq (kind : K → Kind) (N : Nat) (s : CSt K V) (as : List (CAct K V)) :
    crunX kind N s as = crun kind N s as := by
  induction as generalizing s with
  | nil => rfl
  | cons a as ih =>
    simp only [crunX, crun, List.foldl_cons, cstepX_eq] at ih ⊢
    exact ih _

theorem crun_append (kind : K → Kind) (N : Nat) (s : CSt K V) (as bs : List (CAct K V)) :
    crun kind N s (as ++ bs) = crun kind N (crun kind N s as) bs := by
  simp [crun, List.foldl_append]

/-- `process_commits` for one commit is the schedule pop; publish; cleanOverlay. -/
theorem process_sched (kind : K → Kind) (N : Nat) (s : CSt K V) :
    crun kind N s processActs =
      cstep kind N (cstep kind N (cstep kind N s .pop) .publish) .cleanOverlay := rfl

/-- A whole read is the schedule rBegin; rOverlay; rLog; rTable; rEnd of one reader. -/
theorem read_sched (kind : K → Kind) (N : Nat) (s : CSt K V) (t : Nat) (k : K) :
    crun kind N s (readActs t k) =
      cstep kind N (cstep kind N (cstep kind N (cstep kind N (cstep kind N s (.rBegin t k))
        (.rOverlay t)) (.rLog t)) (.rTable t)) (.rEnd t) := rfl

end Generic

/-- One op line: the reader count is untouched and the state moves by `crun` of the denoted
    schedule (the empty one for a malformed line). -/
theorem stepDrv_sched (d : Drv) (args : List String) :
    (stepDrv d args).1.n = d.n ∧
    (stepDrv d args).1.st = crun kindOf d.n d.st ((actsOf d args).getD []) := by
  unfold stepDrv
  cases actsOf d args with
  | none => exact ⟨rfl, rfl⟩
  | some as => exact ⟨rfl, crunX_eq _ _ _ _⟩

/-- Replaying a list of op lines. -/
def replay (d : Drv) : List (List String) → Drv
  | [] => d
  | l :: ls => replay (stepDrv d l).1 ls

/-- The schedule a list of op lines denotes. -/
def schedOf (d : Drv) : List (List String) → List (CAct K V)
  | [] => []
  | l :: ls => (actsOf d l).getD [] ++ schedOf (stepDrv d l).1 ls

/-- A replayed op sequence IS a schedule of the LTS. -/
theorem replay_is_schedule (d : Drv) (ls : List (List String)) :
    (replay d ls).n = d.n ∧ (replay d ls).st = crun kindOf d.n d.st (schedOf d ls) := by
  induction ls generalizing d with
  | nil => exact ⟨rfl, rfl⟩
  | cons l ls ih =>
    have hs := stepDrv_sched d l
    have := ih (stepDrv d l).1
    simp only [replay, schedOf]
    refine ⟨this.1.trans hs.1, ?_⟩
    rw [this.2, hs.1, hs.2, crun_append]

/-- Every read completed in a trace replayed from `c05 init n` is one of the reads the C05
    theorems speak about: an atomic snapshot of the commits accepted when it began. -/
theorem replay_reads_linearizable (n : Nat) (ls : List (List String)) (e : ReadEvt K V)
    (he : e ∈ (replay { n := n, st := CSt.init } ls).st.reads) :
    e.startSeq = e.endSeq ∧
    e.result = (spec kindOf ((replay { n := n, st := CSt.init } ls).st.hist.take e.startSeq)
      e.key).map Prod.fst := by
  have h := (replay_is_schedule { n := n, st := CSt.init } ls).2
  rw [h] at he ⊢
  have := C05_read_linearizable kindOf n _ e he rfl
  exact ⟨this.2.1, this.2.2.2⟩

/-- The answer `get k` prints is the result of the event it appends to `reads`. -/
theorem get_answer (d : Drv) (k : K) (h : enabled kindOf d.n d.st (.rBegin 0 k) = true) :
    ∃ r, (stepDrv d ["get", k]).2 = showOpt r ∧
      (stepDrv d ["get", k]).1.st.reads =
        d.st.reads ++ [{ tid := 0, key := k, result := r, startSeq := d.st.hist.length,
                         endSeq := d.st.hist.length }] := by
  obtain ⟨r, hr, he⟩ := read_event kindOf d.n d.st k h
  refine ⟨r, ?_, ?_⟩
  · simp [stepDrv, actsOf, outputOf, readAnswer, h, crunX_eq, hr]
  · simpa [stepDrv, actsOf, crunX_eq] using he

/-- The answer `size k` prints is the token length of the result of the appended event. -/
theorem size_answer (d : Drv) (k : K) (h : enabled kindOf d.n d.st (.rBegin 0 k) = true) :
    ∃ r, (stepDrv d ["size", k]).2 = showOpt (r.map (fun v => toString (tokLen v))) ∧
      (stepDrv d ["size", k]).1.st.reads =
        d.st.reads ++ [{ tid := 0, key := k, result := r, startSeq := d.st.hist.length,
                         endSeq := d.st.hist.length }] := by
  obtain ⟨r, hr, he⟩ := read_event kindOf d.n d.st k h
  refine ⟨r, ?_, ?_⟩
  · simp [stepDrv, actsOf, outputOf, readAnswer, h, crunX_eq, hr]
  · simpa [stepDrv, actsOf, crunX_eq] using he

/-! ### non-vacuity: a replayed hand-over window (record published, overlay not cleaned;
    tables written, log overlay not cleaned), composite schedules computed from the state -/
section Example
private def kd : Nat → Kind := fun _ => .plain
private def s1 : CSt Nat Nat :=
  crun kd 1 CSt.init
    ([.commit [.set 0 16, .set 1 100], .pop, .publish] ++ readActs 0 0 ++
     [.commit [.set 0 24, .deref 1], .flush])
private def s2 : CSt Nat Nat :=
  crun kd 1 s1 (enactRecordActs s1 ++ [.cleanOverlay] ++ processActs ++ [.flush])
private def s3 : CSt Nat Nat :=
  crun kd 1 s2 (enactWritesActs s2 ++ readActs 0 0 ++ readActs 0 1 ++ [.endRead] ++ readActs 0 0)

example : pendingWrites s1 = 2 ∧ (enactRecordActs s1).length = 3 ∧
    firstDisabled kd 1 s1 (enactRecordActs s1 ++ [.cleanOverlay] ++ processActs) = none ∧
    s3.reads.map (·.result) = [some 16, some 24, none, some 24] ∧
    s3.nEnacted = 2 ∧ s3.hist.length = 2 ∧ s3.logged.length = 0 ∧
    enabled kd 1 s3 .endRead = false := by decide
end Example

/-- the same window through the text protocol (evaluated, not a theorem) -/
private def demo : List String :=
  ([["init", "1"], ["commit", "set:k4_0:v1_0_16", "set:k4_1:v1_1_100"], ["pop"], ["publish"],
    ["get", "k4_0"], ["commit", "set:k4_0:v2_0_24", "del:k4_1"], ["flush"], ["enactRecord"],
    ["cleanOverlay"], ["process"], ["flush"], ["enactWrites"], ["size", "k4_0"], ["get", "k4_1"],
    ["endRead"], ["get", "k4_0"], ["endRead"], ["rBegin", "0", "k4_1"], ["commit", "del:k4_0"],
    ["rOverlay", "0"], ["rLog", "0"], ["rTable", "0"], ["rEnd", "0"], ["nonsense"]].foldl
      (fun (acc : State × List String) l => let r := step acc.1 l; (r.1, acc.2 ++ [r.2]))
      (none, [])).2

#guard demo = ["ok", "ok", "ok", "ok", "some v1_0_16", "ok", "ok", "ok", "ok", "ok", "ok", "ok",
  "some 24", "none", "ok", "some v2_0_24", "disabled:endRead", "ok", "disabled:commit", "ok", "ok",
  "ok", "none", "bad-op"]

end Pdb.CRdDriver

#print axioms Pdb.CRdDriver.cstepX_eq
#print axioms Pdb.CRdDriver.crunX_eq
#print axioms Pdb.CRdDriver.cstep_of_not_enabled
#print axioms Pdb.CRdDriver.read_event
#print axioms Pdb.CRdDriver.process_sched
#print axioms Pdb.CRdDriver.read_sched
#print axioms Pdb.CRdDriver.stepDrv_sched
#print axioms Pdb.CRdDriver.replay_is_schedule
#print axioms Pdb.CRdDriver.replay_reads_linearizable
#print axioms Pdb.CRdDriver.get_answer
#print axioms Pdb.CRdDriver.size_answer
