/-
C15 helper lemmas (8): the termination measure of the shutdown phase: once the notifications
of `shutdown()` are out, every step of a worker strictly decreases it.
-/
import Pdb.Proofs.C15Stuck

namespace Pdb.Conc.Pipe

def rankE : ETail → Nat
  | .e1 => 3 | .e2 => 2 | .e3 => 1
def rankL : LPc → Bool → Nat
  | .init, _ => 33 | .write1 _, _ => 32 | .write2 _, _ => 19
  | .reindex, true => 18 | .reClear, true => 17 | .loop, true => 15 | .waitL, _ => 15 | .lqAbout, _ => 15
  | .thr, _ => 14 | .lqParked, _ => 14 | .pop, _ => 13
  | .reindex, false => 3 | .reClear, false => 2 | .loop, false => 1
  | .err e, _ => rankE e | .done, _ => 0
def rankF : FPc → Nat
  | .waitF => 14 | .flOne => 13 | .flSignal => 3 | .loop => 1 | .err e => rankE e | .done => 0
def rankC : CPc → Bool → Nat
  | .idle1, _ => 14 | .idle2, _ => 13 | .waitC, _ => 12 | .waitQ, _ => 12 | .enDirty, _ => 11
  | .loop, true => 10 | .enRead, _ => 9 | .loop, false => 1
  | .err e, _ => rankE e | .done, _ => 0
def rankK : KPc → Bool → Nat
  | .clSignal true, _ => 6 | .loop, true => 5 | .waitK, _ => 5 | .clClean, _ => 4
  | .clSignal false, _ => 2 | .loop, false => 1
  | .err e, _ => rankE e | .done, _ => 0

def lenSum (l : List (List Nat)) : Nat := sum (l.map List.length)
def optOne : Option (List Nat) → Nat
  | some _ => 1
  | none => 0
/-- log records not yet enacted -/
def recs (s : St) : Nat := s.app.length + lenSum s.readQ + optLen s.reading
/-- log files the commit worker still has to finish -/
def files (s : St) : Nat := s.readQ.length + optOne s.reading
def dT (cfg : Cfg) (s : St) : Nat := if s.dirty > cfg.keepLogs then 4 else 0

/-- the termination measure of the shutdown phase -/
def measure (cfg : Cfg) (s : St) : Nat :=
  40 * s.q.length + 40 * s.reidx + 12 * recs s + 8 * files s + dT cfg s +
  rankL s.pl s.moreCommits + rankF s.pf + rankC s.pc s.moreC + rankK s.pk s.moreK

@[simp] theorem optLen_some (f : List Nat) : optLen (some f) = f.length := rfl
@[simp] theorem optLen_none : optLen none = 0 := rfl
@[simp] theorem optOne_some (f : List Nat) : optOne (some f) = 1 := rfl
@[simp] theorem optOne_none : optOne none = 0 := rfl
@[simp] theorem lenSum_nil : lenSum [] = 0 := rfl
theorem lenSum_cons (f : List Nat) (l : List (List Nat)) : lenSum (f :: l) = f.length + lenSum l := by
  unfold lenSum; simp [sum_cons]
theorem lenSum_append (l : List (List Nat)) (f : List Nat) : lenSum (l ++ [f]) = lenSum l + f.length := by
  unfold lenSum; simp [sum_append]

theorem curFile_counts {s : St} {f : List Nat} {rq : List (List Nat)} (h : curFile s = (some f, rq)) :
    lenSum s.readQ + optLen s.reading = f.length + lenSum rq ∧
    s.readQ.length + optOne s.reading = rq.length + 1 := by
  rcases curFile_some h with ⟨h1, h2⟩ | ⟨h1, h2⟩
  · rw [h1, h2]; simp; omega
  · rw [h1, h2, lenSum_cons]; simp

macro "msimp" : tactic => `(tactic|
  simp_all [measure, recs, files, dT, rankL, rankF, rankC, rankK, rankE, lenSum_append, lenSum_cons,
    Cv.waitStep, DL, DF, DC, DK, cIdle, waitCond, notifyAllCm, lqNotify, sdNotify])

theorem errStep_measure {cfg : Cfg} {s s1 : St} {e : ETail} {n : Option ETail}
    (he : errStep cfg s e = some (s1, n)) :
    s1.q = s.q ∧ s1.reidx = s.reidx ∧ s1.app = s.app ∧ s1.readQ = s.readQ ∧ s1.reading = s.reading ∧
    s1.dirty = s.dirty ∧ s1.pl = s.pl ∧ s1.pf = s.pf ∧ s1.pc = s.pc ∧ s1.pk = s.pk ∧
    s1.moreCommits = s.moreCommits ∧ s1.moreC = s.moreC ∧ s1.moreK = s.moreK ∧
    (match n with | some e' => rankE e' | none => 0) < rankE e := by
  cases e <;> simp only [errStep] at he <;> split at he <;> cases he <;>
    (try (unfold sdNotify lqNotify; split)) <;>
    (refine ⟨rfl, rfl, rfl, rfl, rfl, rfl, rfl, rfl, rfl, rfl, rfl, rfl, rfl, ?_⟩; simp [rankE])

macro "mfin" : tactic => `(tactic| (
  first
  | (cases ‹_ = some _›; done)
  | (cases ‹_ = some _›; msimp; done)
  | (cases ‹_ = some _›; msimp; omega)))

set_option maxHeartbeats 1600000 in
theorem measure_tickL {cfg : Cfg} (hF : Fixed cfg) {s s' : St} (hG : G1 s) (hD : GD s) (hsd : s.sdDone = true)
    (h : tickL cfg s = some s') : measure cfg s' < measure cfg s := by
  have hsh : s.shutdown = true := hG.a4 hsd
  have dl := hD.dl hsd
  obtain ⟨hw, p1, p2, p3, p4, p5⟩ := hF
  unfold tickL reindexStep at h
  cases hmc : s.moreCommits <;> rw [hmc] at h
  all_goals
    split at h
    · split at h
      · split at h <;> mfin
      · mfin
    · split at h
      · split at h <;> mfin
      · mfin
    · split at h <;> mfin
    · split at h <;> mfin
    · mfin
    · split at h <;> mfin
    · split at h
      · split at h
        · mfin
        · cases h
          split <;> (msimp; omega)
      · mfin
    · mfin
    · mfin
    · split at h
      · split at h <;> mfin
      · mfin
    · mfin
    · rename_i e hp
      obtain ⟨⟨s1, n⟩, he, hs⟩ := map_some h
      subst hs
      cases e <;> simp only [errStep] at he <;> split at he <;> cases he <;> (msimp; try omega)
    · mfin

set_option maxHeartbeats 1600000 in
theorem measure_tickF {cfg : Cfg} (hF : Fixed cfg) {s s' : St} (hG : G1 s) (hD : GD s) (hsd : s.sdDone = true)
    (h : tickF cfg s = some s') : measure cfg s' < measure cfg s := by
  have hsh : s.shutdown = true := hG.a4 hsd
  have df := hD.df hsd
  obtain ⟨hw, p1, p2, p3, p4, p5⟩ := hF
  unfold tickF at h
  split at h
  · split at h
    · split at h <;> mfin
    · mfin
  · split at h <;> mfin
  · split at h <;> mfin
  · mfin
  · rename_i e hp
    obtain ⟨⟨s1, n⟩, he, hs⟩ := map_some h
    subst hs
    obtain ⟨f1, f2, f3, f4, f5, f6, f7, f8, f9, f10, f11, f12, f13, f14⟩ := errStep_measure he
    simp only [measure, recs, files, dT, f1, f2, f3, f4, f5, f6, f7, f8, f9, f10, f11, f12, f13, hp, rankF]
    cases n <;> simp only [rankF] at f14 ⊢ <;> omega
  · mfin

set_option maxHeartbeats 3200000 in
theorem measure_tickC {cfg : Cfg} (hF : Fixed cfg) {s s' : St} (hG : G1 s) (hD : GD s) (hsd : s.sdDone = true)
    (h : tickC cfg s = some s') : measure cfg s' < measure cfg s := by
  have hsh : s.shutdown = true := hG.a4 hsd
  have dc := hD.dc hsd
  obtain ⟨hw, p1, p2, p3, p4, p5⟩ := hF
  unfold tickC at h
  cases hmc : s.moreC <;> rw [hmc] at h
  all_goals
    split at h
    · split at h
      · split at h <;> mfin
      · mfin
    · mfin
    · split at h <;> mfin
    · split at h <;> mfin
    · split at h
      · mfin
      · rename_i rq' hcf
        have hc := curFile_counts hcf
        cases h
        simp only [measure, recs, files, dT, rankC, optLen_none, optOne_none] at hc ⊢
        simp only [hmc, ‹s.pc = CPc.enRead›, rankC] at hc ⊢
        simp only [List.length_nil] at hc
        split <;> split <;> omega
      · rename_i r rs rq' hcf
        have hc := curFile_counts hcf
        split at h
        · cases h
          simp only [List.length_cons] at hc
          split <;> (simp only [measure, recs, files, dT, rankC, optLen_some, optOne_some, lqNotify] at hc ⊢
                     try split
                     all_goals (simp only [hmc, ‹s.pc = CPc.enRead›, rankC, optLen_some, optOne_some] at hc ⊢; omega))
        · mfin
    · split at h <;> mfin
    · split at h <;> mfin
    · rename_i e hp
      obtain ⟨⟨s1, n⟩, he, hs⟩ := map_some h
      subst hs
      obtain ⟨f1, f2, f3, f4, f5, f6, f7, f8, f9, f10, f11, f12, f13, f14⟩ := errStep_measure he
      simp only [measure, recs, files, dT, f1, f2, f3, f4, f5, f6, f7, f8, f9, f10, f11, f12, f13, hp, rankC]
      cases n <;> simp only [rankC] at f14 ⊢ <;> omega
    · mfin

set_option maxHeartbeats 1600000 in
theorem measure_tickK {cfg : Cfg} (hF : Fixed cfg) {s s' : St} (hG : G1 s) (hD : GD s) (hsd : s.sdDone = true)
    (h : tickK cfg s = some s') : measure cfg s' < measure cfg s := by
  have hsh : s.shutdown = true := hG.a4 hsd
  have dk := hD.dk hsd
  obtain ⟨hw, p1, p2, p3, p4, p5⟩ := hF
  unfold tickK at h
  cases hmk : s.moreK <;> rw [hmk] at h
  all_goals
    split at h
    · split at h
      · split at h <;> mfin
      · mfin
    · split at h <;> mfin
    · split at h
      · cases h
        cases hk : decide (cfg.keepLogs > 0) <;> (msimp; try omega)
      · mfin
    · rename_i r _
      cases r <;> mfin
    · rename_i e hp
      obtain ⟨⟨s1, n⟩, he, hs⟩ := map_some h
      subst hs
      obtain ⟨f1, f2, f3, f4, f5, f6, f7, f8, f9, f10, f11, f12, f13, f14⟩ := errStep_measure he
      simp only [measure, recs, files, dT, f1, f2, f3, f4, f5, f6, f7, f8, f9, f10, f11, f12, f13, hp, rankK]
      cases n <;> simp only [rankK] at f14 ⊢ <;> omega
    · mfin
end Pdb.Conc.Pipe
