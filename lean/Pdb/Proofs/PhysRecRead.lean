/-
R7: reads depend on the physical column only through its memory: two columns with the same table
shape (distinct index bits), the same memory, 64-entry pages, the same `exact` flag and the same
static layout of the value tables answer `pGet` alike.
-/
import Pdb.Proofs.PhysRecHist

namespace Pdb.PhysRec
open Pdb.Gen Pdb.Index Pdb.IndexPage Pdb.ValueTable Pdb.Refine

/-- every page of every table has 64 entries (`TableWF.pages`) -/
def PagesLen (p : PCol) : Prop :=
  ∀ t ∈ PCol.tables p, ∀ c, (t.page c).length = INDEX_CHUNK_ENTRIES

theorem page_ext (pg pg' : List Nat) (h1 : pg.length = INDEX_CHUNK_ENTRIES)
    (h2 : pg'.length = INDEX_CHUNK_ENTRIES)
    (h : ∀ i, i < INDEX_CHUNK_ENTRIES → entryAt pg i = entryAt pg' i) : pg = pg' := by
  apply List.ext_getElem (h1.trans h2.symm)
  intro i hi hi'
  have := h i (h1 ▸ hi)
  simp only [entryAt, List.getD_eq_getElem?_getD, List.getElem?_eq_getElem hi,
    List.getElem?_eq_getElem hi', Option.getD_some] at this
  exact this

theorem VT.ext' (t t' : VT) (h1 : t.entrySize = t'.entrySize) (h2 : t.multipart = t'.multipart)
    (h3 : t.refCounted = t'.refCounted) (h4 : t.slots = t'.slots) (h5 : t.filled = t'.filled)
    (h6 : t.lastRemoved = t'.lastRemoved) : t = t' := by
  cases t; cases t'; simp only at h1 h2 h3 h4 h5 h6; subst h1 h2 h3 h4 h5 h6; rfl

theorem tableByBits_nodup (ts : List Table) (hnd : (ts.map (·.bits)).Nodup) (t : Table)
    (ht : t ∈ ts) : tableByBits ts t.bits = some t := by
  induction ts with
  | nil => cases ht
  | cons x xs ih =>
    simp only [List.map_cons, List.nodup_cons] at hnd
    simp only [tableByBits]
    rcases List.mem_cons.1 ht with rfl | hx
    · simp
    · have : x.bits ≠ t.bits := fun e => hnd.1 (e ▸ List.mem_map.2 ⟨t, hx, rfl⟩)
      rw [if_neg this]
      exact ih hnd.2 hx

/-- tables with the same index bits in two columns of the same memory have the same pages -/
theorem pages_eq (q p : PCol) (hs : shape q = shape p) (hnd : (shape p).Nodup)
    (hm : ∀ l, Loc.Ok l → mem q l = mem p l) (hlq : PagesLen q) (hlp : PagesLen p)
    (t : Table) (ht : t ∈ PCol.tables q) (t' : Table) (ht' : t' ∈ PCol.tables p)
    (hb : t.bits = t'.bits) (c : Nat) : t.page c = t'.page c := by
  apply page_ext _ _ (hlq t ht c) (hlp t' ht' c)
  intro i hi
  have h1 := tableByBits_nodup (PCol.tables q) (by rw [← shape, hs]; exact hnd) t ht
  have h2 := tableByBits_nodup (PCol.tables p) hnd t' ht'
  have := hm (.idx t.bits c i) hi
  simp only [mem, h1] at this
  rw [hb, h2] at this
  simpa using this

theorem pSearchTable_congr (q p : PCol) (hvt : q.vt = p.vt) (hex : q.cfg.exact = p.cfg.exact)
    (t t' : Table) (hb : t.bits = t'.bits) (hp : ∀ c, t.page c = t'.page c) (k : Key) :
    pSearchTable q t k = pSearchTable p t' k := by
  have hh : pHolds q k = pHolds p k := by funext a; simp only [pHolds, hvt]
  simp only [pSearchTable, Table.chunk, hb, hp, hex, hh]

theorem pSearchOlder_congr (q p : PCol) (hvt : q.vt = p.vt) (hex : q.cfg.exact = p.cfg.exact)
    (k : Key) : ∀ (l l' : List Table), l.map (·.bits) = l'.map (·.bits) →
    (∀ t ∈ l, ∀ t' ∈ l', t.bits = t'.bits → ∀ c, t.page c = t'.page c) →
    ∀ j, pSearchOlder q k l j = pSearchOlder p k l' j := by
  intro l
  induction l with
  | nil =>
    intro l' hb _ j
    cases l' with
    | nil => rfl
    | cons _ _ => cases hb
  | cons t ts ih =>
    intro l' hb hp j
    cases l' with
    | nil => cases hb
    | cons t' ts' =>
      simp only [List.map_cons, List.cons.injEq] at hb
      simp only [pSearchOlder]
      rw [pSearchTable_congr q p hvt hex t t' hb.1
        (hp t List.mem_cons_self t' List.mem_cons_self hb.1) k]
      rw [ih ts' hb.2 (fun x hx x' hx' => hp x (List.mem_cons_of_mem _ hx) x' (List.mem_cons_of_mem _ hx'))]

/-- READS DEPEND ON THE MEMORY ONLY. -/
theorem pGet_congr (d : Bytes → Option Bytes) (q p : PCol) (hs : shape q = shape p)
    (hnd : (shape p).Nodup) (hm : ∀ l, Loc.Ok l → mem q l = mem p l)
    (hex : q.cfg.exact = p.cfg.exact)
    (hst : ∀ tier, (q.vt tier).entrySize = (p.vt tier).entrySize ∧
      (q.vt tier).multipart = (p.vt tier).multipart ∧ (q.vt tier).refCounted = (p.vt tier).refCounted)
    (hlq : PagesLen q) (hlp : PagesLen p) (k : Key) : pGet d q k = pGet d p k := by
  have hvt : q.vt = p.vt := by
    funext tier
    have hh := hm (.hdr tier) trivial
    simp only [mem, List.cons.injEq, and_true] at hh
    exact VT.ext' _ _ (hst tier).1 (hst tier).2.1 (hst tier).2.2
      (by funext s; exact hm (.val tier s) trivial) hh.2 hh.1
  have hsa : pSearchAll q k = pSearchAll p k := by
    simp only [pSearchAll]
    exact pSearchOlder_congr q p hvt hex k _ _ hs
      (fun t ht t' ht' hb c => pages_eq q p hs hnd hm hlq hlp t ht t' ht' hb c) 0
  simp only [pGet, hsa, hvt]

/-! ## page lengths of replayed states -/

theorem length_setEntry (pg : List Nat) (i e : Nat) : (setEntry pg i e).length = INDEX_CHUNK_ENTRIES := by
  simp [setEntry]

theorem updTables_len (ts : List Table) (b c i e : Nat)
    (h : ∀ t ∈ ts, ∀ c, (t.page c).length = INDEX_CHUNK_ENTRIES) :
    ∀ t ∈ updTables ts b c i e, ∀ c, (t.page c).length = INDEX_CHUNK_ENTRIES := by
  induction ts with
  | nil => intro t ht; cases ht
  | cons x xs ih =>
    intro t ht c'
    simp only [updTables] at ht
    split at ht
    · rcases List.mem_cons.1 ht with rfl | hx
      · rw [setPage_page]
        split
        · exact length_setEntry _ _ _
        · exact h x List.mem_cons_self c'
      · exact h t (List.mem_cons_of_mem _ hx) c'
    · rcases List.mem_cons.1 ht with rfl | hx
      · exact h t List.mem_cons_self c'
      · exact ih (fun y hy => h y (List.mem_cons_of_mem _ hy)) t hx c'

theorem pagesLen_applyWrite {p : PCol} (h : PagesLen p) (w : Write) (hw : Write.Ok (shape p) w) :
    PagesLen (applyWrite p w) := by
  obtain ⟨wl, wi⟩ := w
  cases wl with
  | idx b c i =>
    obtain ⟨hb, _, e, he⟩ := hw
    simp only at he hb
    subst he
    obtain ⟨t, ht⟩ := tableByBits_of_mem (ts := PCol.tables p) hb
    have hap : applyWrite p (Loc.idx b c i, [e]) =
        PCol.setTables p (updTables (PCol.tables p) b c i e) := by
      simp only [PhysRec.applyWrite, ht]
    rw [hap]
    intro t' ht'
    rw [tables_upd] at ht'
    exact updTables_len _ _ _ _ _ h t' ht'
  | val tier s =>
    have hap : applyWrite p (Loc.val tier s, wi) = p.setVT tier ((p.vt tier).setSlot s wi) := by
      simp [PhysRec.applyWrite]
    rw [hap]; exact h
  | hdr tier =>
    obtain ⟨lr, f, he⟩ := hw
    simp only at he
    subst he
    have hap : applyWrite p (Loc.hdr tier, [lr, f]) =
        p.setVT tier { (p.vt tier) with lastRemoved := lr, filled := f } := by
      simp [PhysRec.applyWrite]
    rw [hap]; exact h

theorem pagesLen_applyWrites (ws : List Write) : ∀ {p : PCol}, PagesLen p →
    (∀ w ∈ ws, Write.Ok (shape p) w) → PagesLen (applyWrites p ws) := by
  induction ws with
  | nil => intro p h _; exact h
  | cons w ws ih =>
    intro p h hok
    have h1 := pagesLen_applyWrite h w (hok w List.mem_cons_self)
    have s1 := (mem_applyWrite p w (hok w List.mem_cons_self)).2
    exact ih h1 (fun x hx => by rw [s1.shape]; exact hok x (List.mem_cons_of_mem _ hx))

theorem pagesLen_init (cfg : Cfg) (b : Nat) : PagesLen (PCol.init cfg b) := by
  intro t ht c
  simp only [PCol.tables, PCol.init, List.mem_cons, List.not_mem_nil, or_false] at ht
  subst ht
  simp [Table.page, Table.new, Trie.empty, Trie.get, alGet, emptyPage]

/-! ## static layout along a history -/

theorem runTx_static (cmp : Bytes → Bytes) (thr : Nat) (p p' : PCol) (tx : Tx)
    (h : runTx cmp thr p tx = some p') (tier : Nat) : SameCfg (p.vt tier) (p'.vt tier) := by
  have hr : pRun cmp thr p tx = .ok p' := by
    unfold runTx at h
    split at h
    · injection h with h; subst h; assumption
    · cases h
  exact (pRun_frame cmp thr tx p p' hr tier).cfg

theorem Hist.static {cmp thr p txs recs p'} (h : Hist cmp thr p txs recs p') (tier : Nat) :
    SameCfg (p.vt tier) (p'.vt tier) := by
  induction h with
  | nil p => exact SameCfg.refl _
  | cons hrun _ _ ih => exact (runTx_static _ _ _ _ _ hrun tier).trans ih

theorem runTx_pRun {cmp thr p tx p'} (h : runTx cmp thr p tx = some p') :
    pRun cmp thr p tx = .ok p' := by
  unfold runTx at h
  split at h
  · injection h with h; subst h; assumption
  · cases h

theorem pRun_append' (cmp : Bytes → Bytes) (thr : Nat) : ∀ (as bs : List PAction) (p p1 p' : PCol),
    pRun cmp thr p as = .ok p1 → pRun cmp thr p1 bs = .ok p' → pRun cmp thr p (as ++ bs) = .ok p' := by
  intro as
  induction as with
  | nil => intro bs p p1 p' h1 h2; simp only [pRun] at h1; injection h1 with h1; subst h1; exact h2
  | cons a as ih =>
    intro bs p p1 p' h1 h2
    simp only [List.cons_append, pRun] at h1 ⊢
    cases hs : pStep cmp thr p a with
    | ok p0 =>
      simp only [hs, PRes.bind] at h1 ⊢
      exact ih bs p0 p1 p' h1 h2
    | panic => simp [hs, PRes.bind] at h1
    | diverge => simp [hs, PRes.bind] at h1
    | vtErr e => simp [hs, PRes.bind] at h1

/-- the history as one run of the physical column -/
theorem Hist.run {cmp thr p txs recs p'} (h : Hist cmp thr p txs recs p') :
    pRun cmp thr p txs.flatten = .ok p' := by
  induction h with
  | nil p => rfl
  | cons hrun _ _ ih =>
    rw [List.flatten_cons]
    exact pRun_append' cmp thr _ _ _ _ _ (runTx_pRun hrun) ih

end Pdb.PhysRec
