/-
C04: the key order is a strict total order; queries on key-sorted association lists.
-/
import Pdb.Model.BTreeIter

namespace Pdb.C04

/-! ### `keyLt` is a strict total order -/

theorem keyLt_irrefl (a : Key) : keyLt a a = false := by
  induction a with
  | nil => rfl
  | cons x xs ih => simp [keyLt, ih]

theorem keyLt_nil_right (a : Key) : keyLt a [] = false := by
  cases a <;> rfl

theorem keyLt_trans {a b c : Key} (h1 : keyLt a b = true) (h2 : keyLt b c = true) :
    keyLt a c = true := by
  induction a generalizing b c with
  | nil =>
    cases c with
    | nil => cases b <;> simp [keyLt] at h1 h2
    | cons z zs => rfl
  | cons x xs ih =>
    cases b with
    | nil => simp [keyLt] at h1
    | cons y ys =>
      cases c with
      | nil => simp [keyLt] at h2
      | cons z zs =>
        simp only [keyLt] at h1 h2 ⊢
        by_cases hxy : x < y
        · by_cases hyz : y < z
          · have : x < z := Nat.lt_trans hxy hyz
            simp [this]
          · by_cases hyz' : y = z
            · subst hyz'; simp [hxy]
            · simp [hyz, hyz'] at h2
        · by_cases hxy' : x = y
          · subst hxy'
            by_cases hyz : x < z
            · simp [hyz]
            · by_cases hyz' : x = z
              · subst hyz'
                simp only [hxy, if_false, if_true] at h1 h2 ⊢
                exact ih h1 h2
              · simp [hyz, hyz'] at h2
          · simp [hxy, hxy'] at h1

theorem keyLt_asymm {a b : Key} (h : keyLt a b = true) : keyLt b a = false := by
  cases hb : keyLt b a with
  | false => rfl
  | true =>
    have := keyLt_trans h hb
    rw [keyLt_irrefl] at this
    exact absurd this (by decide)

theorem keyLt_total (a b : Key) : keyLt a b = true ∨ a = b ∨ keyLt b a = true := by
  induction a generalizing b with
  | nil => cases b <;> simp [keyLt]
  | cons x xs ih =>
    cases b with
    | nil => simp [keyLt]
    | cons y ys =>
      simp only [keyLt]
      by_cases hxy : x < y
      · simp [hxy]
      · by_cases hxy' : x = y
        · subst hxy'
          rcases ih ys with h | h | h
          · simp [h]
          · simp [h]
          · simp [h]
        · have : y < x := by omega
          simp [this]

/-- A proper prefix sorts before every extension. -/
theorem keyLt_prefix (a : Key) (b : Nat) (bs : List Nat) : keyLt a (a ++ b :: bs) = true := by
  induction a with
  | nil => rfl
  | cons x xs ih => simp [keyLt, ih]

theorem keyLt_ne {a b : Key} (h : keyLt a b = true) : a ≠ b := by
  intro e; subst e; rw [keyLt_irrefl] at h; exact absurd h (by decide)

theorem keyLt_of_not {a b : Key} (h : keyLt a b = false) (hne : a ≠ b) : keyLt b a = true := by
  rcases keyLt_total a b with h' | h' | h'
  · rw [h] at h'; exact absurd h' (by decide)
  · exact absurd h' hne
  · exact h'

theorem keyLt_of_lt_of_le {a b c : Key} (h1 : keyLt a b = true) (h2 : keyLt c b = false) :
    keyLt a c = true := by
  by_cases e : b = c
  · subst e; exact h1
  · exact keyLt_trans h1 (keyLt_of_not h2 (fun x => e x.symm))

theorem keyLt_of_le_of_lt {a b c : Key} (h1 : keyLt b a = false) (h2 : keyLt b c = true) :
    keyLt a c = true := by
  by_cases e : a = b
  · subst e; exact h2
  · exact keyLt_trans (keyLt_of_not h1 (fun x => e x.symm)) h2

/-! ### the travel order `dirLt d` -/

theorem dirLt_irrefl (d : Dir) (a : Key) : dirLt d a a = false := by
  cases d <;> exact keyLt_irrefl a

theorem dirLt_trans {d : Dir} {a b c : Key} (h1 : dirLt d a b = true) (h2 : dirLt d b c = true) :
    dirLt d a c = true := by
  cases d
  · exact keyLt_trans h1 h2
  · exact keyLt_trans h2 h1

theorem dirLt_asymm {d : Dir} {a b : Key} (h : dirLt d a b = true) : dirLt d b a = false := by
  cases d <;> exact keyLt_asymm h

theorem dirLt_total (d : Dir) (a b : Key) : dirLt d a b = true ∨ a = b ∨ dirLt d b a = true := by
  cases d
  · exact keyLt_total a b
  · rcases keyLt_total a b with h | h | h
    · exact Or.inr (Or.inr h)
    · exact Or.inr (Or.inl h)
    · exact Or.inl h

theorem dirLt_of_not {d : Dir} {a b : Key} (h : dirLt d a b = false) (hne : a ≠ b) :
    dirLt d b a = true := by
  rcases dirLt_total d a b with h' | h' | h'
  · rw [h] at h'; exact absurd h' (by decide)
  · exact absurd h' hne
  · exact h'

theorem dirLt_of_lt_of_le {d : Dir} {a b c : Key} (h1 : dirLt d a b = true)
    (h2 : dirLt d c b = false) : dirLt d a c = true := by
  by_cases e : b = c
  · subst e; exact h1
  · exact dirLt_trans h1 (dirLt_of_not h2 (fun x => e x.symm))

theorem dirLt_of_le_of_lt {d : Dir} {a b c : Key} (h1 : dirLt d b a = false)
    (h2 : dirLt d b c = true) : dirLt d a c = true := by
  by_cases e : a = b
  · subst e; exact h2
  · exact dirLt_trans (dirLt_of_not h1 (fun x => e x.symm)) h2

/-! ### candidates are upward closed in travel order -/

theorem cand_at (d : Dir) (k k' : Key) : cand d (.at k) k' = dirLt d k k' := by
  cases d <;> rfl

theorem cand_mono {d : Dir} {L : LastKey} {k k' : Key} (h : cand d L k = true)
    (hlt : dirLt d k k' = true) : cand d L k' = true := by
  cases d <;> cases L <;> simp only [cand, after, before, dirLt] at h hlt ⊢
  · exact absurd h (by decide)
  · exact keyLt_trans h hlt
  · rename_i l
    cases hc : keyLt k' l with
    | false => rfl
    | true =>
      have := keyLt_trans hlt hc
      simp [this] at h
  · exact absurd h (by decide)
  · exact keyLt_trans hlt h
  · rename_i l
    cases hc : keyLt l k' with
    | false => rfl
    | true =>
      have := keyLt_trans hc hlt
      simp [this] at h

/-- A non-candidate lies strictly before every candidate. -/
theorem dirLt_of_not_cand {d : Dir} {L : LastKey} {k k' : Key} (h : cand d L k = false)
    (h' : cand d L k' = true) : dirLt d k k' = true := by
  rcases dirLt_total d k k' with hlt | he | hgt
  · exact hlt
  · subst he; rw [h] at h'; exact absurd h' (by decide)
  · have := cand_mono h' hgt
    rw [h] at this; exact absurd this (by decide)

/-! ### `first` / `last` / `pick` on sorted lists -/

variable {β : Type}

theorem Sorted.tail {a : Key × β} {l : List (Key × β)} (h : Sorted (a :: l)) : Sorted l :=
  (List.pairwise_cons.mp h).2

theorem Sorted.head_lt {a : Key × β} {l : List (Key × β)} (h : Sorted (a :: l)) :
    ∀ x ∈ l, keyLt a.1 x.1 = true :=
  (List.pairwise_cons.mp h).1

theorem sorted_nil : Sorted ([] : List (Key × β)) := List.Pairwise.nil

theorem sorted_cons {a : Key × β} {l : List (Key × β)} :
    Sorted (a :: l) ↔ (∀ x ∈ l, keyLt a.1 x.1 = true) ∧ Sorted l := List.pairwise_cons

theorem sorted_key_inj {l : List (Key × β)} (hs : Sorted l) :
    ∀ u ∈ l, ∀ w ∈ l, u.1 = w.1 → u = w := by
  induction l with
  | nil => intro u hu; cases hu
  | cons c l ih =>
    intro u hu w hw huw
    rcases List.mem_cons.mp hu with rfl | hu' <;> rcases List.mem_cons.mp hw with rfl | hw'
    · rfl
    · have := hs.head_lt w hw'
      rw [huw, keyLt_irrefl] at this; exact absurd this (by decide)
    · have := hs.head_lt u hu'
      rw [huw, keyLt_irrefl] at this; exact absurd this (by decide)
    · exact ih hs.tail u hu' w hw' huw

theorem first_none {α : Type} {p : α → Bool} {l : List α} :
    first p l = none ↔ ∀ x ∈ l, p x = false := by
  induction l with
  | nil => simp [first]
  | cons a l ih =>
    simp only [first]
    by_cases h : p a
    · simp [h]
    · simp [h, ih]

theorem last_none {α : Type} {p : α → Bool} {l : List α} :
    last p l = none ↔ ∀ x ∈ l, p x = false := by
  induction l with
  | nil => simp [last]
  | cons a l ih =>
    rw [last]
    constructor
    · intro h
      cases hl : last p l with
      | some y => rw [hl] at h; simp at h
      | none =>
        rw [hl] at h
        intro x hx
        rcases List.mem_cons.mp hx with rfl | hx
        · by_cases hp : p x = true
          · simp [hp] at h
          · simpa using hp
        · exact ih.mp hl x hx
    · intro h
      have h1 := ih.mpr (fun x hx => h x (List.mem_cons_of_mem _ hx))
      have h2 := h a (List.mem_cons.mpr (Or.inl rfl))
      simp [h1, h2]

theorem first_some {p : Key × β → Bool} {l : List (Key × β)} {e : Key × β} (hs : Sorted l) :
    first p l = some e ↔ e ∈ l ∧ p e = true ∧ ∀ x ∈ l, p x = true → keyLt x.1 e.1 = false := by
  induction l with
  | nil => simp [first]
  | cons a l ih =>
    have hs' := hs.tail
    have hlt := hs.head_lt
    rw [first]
    by_cases h : p a = true
    · rw [if_pos h]
      constructor
      · intro e'
        have e' : a = e := Option.some.inj e'
        subst e'
        refine ⟨List.mem_cons.mpr (Or.inl rfl), h, ?_⟩
        intro x hx _
        rcases List.mem_cons.mp hx with rfl | hx
        · exact keyLt_irrefl _
        · exact keyLt_asymm (hlt x hx)
      · rintro ⟨hm, _, hmin⟩
        rcases List.mem_cons.mp hm with rfl | hm
        · rfl
        · have := hmin a (List.mem_cons.mpr (Or.inl rfl)) h
          rw [hlt e hm] at this; exact absurd this (by decide)
    · rw [if_neg h, ih hs']
      constructor
      · rintro ⟨hm, hp, hmin⟩
        refine ⟨List.mem_cons_of_mem _ hm, hp, ?_⟩
        intro x hx hpx
        rcases List.mem_cons.mp hx with rfl | hx
        · exact absurd hpx h
        · exact hmin x hx hpx
      · rintro ⟨hm, hp, hmin⟩
        rcases List.mem_cons.mp hm with rfl | hm
        · exact absurd hp h
        · exact ⟨hm, hp, fun x hx => hmin x (List.mem_cons_of_mem _ hx)⟩

theorem last_some {p : Key × β → Bool} {l : List (Key × β)} {e : Key × β} (hs : Sorted l) :
    last p l = some e ↔ e ∈ l ∧ p e = true ∧ ∀ x ∈ l, p x = true → keyLt e.1 x.1 = false := by
  induction l generalizing e with
  | nil => simp [last]
  | cons a l ih =>
    have hs' := hs.tail
    have hlt := hs.head_lt
    rw [last]
    cases hl : last p l with
    | some y =>
      have hy := (ih hs').mp hl
      rw [Option.some_or]
      constructor
      · intro e'
        have e' : y = e := Option.some.inj e'
        subst e'
        refine ⟨List.mem_cons_of_mem _ hy.1, hy.2.1, ?_⟩
        intro x hx hpx
        rcases List.mem_cons.mp hx with rfl | hx
        · exact keyLt_asymm (hlt y hy.1)
        · exact hy.2.2 x hx hpx
      · rintro ⟨hm, hp, hmin⟩
        rcases List.mem_cons.mp hm with rfl | hm
        · have := hmin y (List.mem_cons_of_mem _ hy.1) hy.2.1
          rw [hlt y hy.1] at this; exact absurd this (by decide)
        · have h1 := hmin y (List.mem_cons_of_mem _ hy.1) hy.2.1
          have h2 := hy.2.2 e hm hp
          rcases keyLt_total e.1 y.1 with h | h | h
          · rw [h] at h1; exact absurd h1 (by decide)
          · exact congrArg some (sorted_key_inj hs' y hy.1 e hm h.symm)
          · rw [h] at h2; exact absurd h2 (by decide)
    | none =>
      have hn := last_none.mp hl
      rw [Option.none_or]
      by_cases h : p a = true
      · rw [if_pos h]
        constructor
        · intro e'
          have e' : a = e := Option.some.inj e'
          subst e'
          refine ⟨List.mem_cons.mpr (Or.inl rfl), h, ?_⟩
          intro x hx hpx
          rcases List.mem_cons.mp hx with rfl | hx
          · exact keyLt_irrefl _
          · rw [hn x hx] at hpx; exact absurd hpx (by decide)
        · rintro ⟨hm, hp, _⟩
          rcases List.mem_cons.mp hm with rfl | hm
          · rfl
          · rw [hn e hm] at hp; exact absurd hp (by decide)
      · rw [if_neg h]
        constructor
        · intro h'; exact absurd h' (by simp)
        · rintro ⟨hm, hp, _⟩
          rcases List.mem_cons.mp hm with rfl | hm
          · exact absurd hp h
          · rw [hn e hm] at hp; exact absurd hp (by decide)

theorem pick_none {α : Type} {d : Dir} {p : α → Bool} {l : List α} :
    pick d p l = none ↔ ∀ x ∈ l, p x = false := by
  cases d
  · exact first_none
  · exact last_none

/-- On a sorted list `pick d p` is the least element (in travel order) satisfying `p`. -/
theorem pick_some {d : Dir} {p : Key × β → Bool} {l : List (Key × β)} {e : Key × β}
    (hs : Sorted l) :
    pick d p l = some e ↔ e ∈ l ∧ p e = true ∧ ∀ x ∈ l, p x = true → dirLt d x.1 e.1 = false := by
  cases d
  · exact first_some hs
  · exact last_some hs

theorem head?_eq_first {α : Type} (l : List α) : l.head? = first (fun _ => true) l := by
  cases l <;> simp [first]

theorem getLast?_eq_last {α : Type} (l : List α) : l.getLast? = last (fun _ => true) l := by
  induction l with
  | nil => rfl
  | cons a l ih =>
    simp only [last, if_true]
    rw [← ih]
    cases l with
    | nil => rfl
    | cons b l =>
      rw [List.getLast?_cons_cons]
      cases h : (b :: l).getLast? with
      | none => simp at h
      | some z => rfl

/-! ### sorted lists: membership, lookup, put, del -/

theorem lookup_none {l : List (Key × β)} {k : Key} :
    lookup l k = none ↔ ∀ x ∈ l, x.1 ≠ k := by
  induction l with
  | nil => simp [lookup]
  | cons a l ih =>
    obtain ⟨k', b⟩ := a
    simp only [lookup]
    by_cases h : k' = k
    · simp [h]
    · simp [h, ih]

theorem mem_iff_lookup {l : List (Key × β)} (hs : Sorted l) (k : Key) (b : β) :
    (k, b) ∈ l ↔ lookup l k = some b := by
  induction l with
  | nil => simp [lookup]
  | cons a l ih =>
    obtain ⟨k', b'⟩ := a
    simp only [lookup, List.mem_cons]
    by_cases h : k' = k
    · subst h
      simp only [if_true, Option.some.injEq, Prod.mk.injEq, true_and]
      constructor
      · rintro (h | h)
        · exact h.symm
        · have := hs.head_lt _ h
          simp [keyLt_irrefl] at this
      · intro h; exact Or.inl h.symm
    · simp only [h, if_false, ih hs.tail]
      constructor
      · rintro (hh | hh)
        · exact absurd (Prod.mk.inj hh).1.symm h
        · exact hh
      · exact Or.inr

theorem lookup_put (l : List (Key × β)) (k : Key) (b : β) (x : Key) :
    lookup (put l k b) x = if k = x then some b else lookup l x := by
  induction l with
  | nil => simp [put, lookup]
  | cons a l ih =>
    obtain ⟨k', b'⟩ := a
    rw [put]
    by_cases h1 : keyLt k k' = true
    · rw [if_pos h1]; simp [lookup]
    · rw [if_neg h1]
      by_cases h2 : k = k'
      · rw [if_pos h2]
        subst h2
        by_cases h3 : k = x <;> simp [lookup, h3]
      · rw [if_neg h2]
        simp only [lookup, ih]
        by_cases h3 : k' = x
        · subst h3; simp [h2]
        · simp [h3]

theorem mem_put {l : List (Key × β)} {k : Key} {b : β} {x : Key × β} :
    x ∈ put l k b → x = (k, b) ∨ x ∈ l := by
  induction l with
  | nil => simp [put]
  | cons a l ih =>
    obtain ⟨k', b'⟩ := a
    rw [put]
    by_cases h1 : keyLt k k' = true
    · rw [if_pos h1]; exact fun h => List.mem_cons.mp h
    · rw [if_neg h1]
      by_cases h2 : k = k'
      · rw [if_pos h2]
        intro h
        rcases List.mem_cons.mp h with h | h
        · exact Or.inl h
        · exact Or.inr (List.mem_cons_of_mem _ h)
      · rw [if_neg h2]
        intro h
        rcases List.mem_cons.mp h with h | h
        · exact Or.inr (List.mem_cons.mpr (Or.inl h))
        · rcases ih h with h | h
          · exact Or.inl h
          · exact Or.inr (List.mem_cons_of_mem _ h)

theorem sorted_put {l : List (Key × β)} (hs : Sorted l) (k : Key) (b : β) :
    Sorted (put l k b) := by
  induction l with
  | nil => simp [put, Sorted]
  | cons a l ih =>
    obtain ⟨k', b'⟩ := a
    rw [put]
    by_cases h1 : keyLt k k' = true
    · rw [if_pos h1]
      refine sorted_cons.mpr ⟨?_, hs⟩
      intro x hx
      rcases List.mem_cons.mp hx with rfl | hx
      · exact h1
      · exact keyLt_trans h1 (hs.head_lt x hx)
    · rw [if_neg h1]
      by_cases h2 : k = k'
      · rw [if_pos h2]
        subst h2
        exact sorted_cons.mpr ⟨hs.head_lt, hs.tail⟩
      · rw [if_neg h2]
        refine sorted_cons.mpr ⟨?_, ih hs.tail⟩
        intro x hx
        rcases mem_put hx with rfl | hx
        · exact keyLt_of_not (by simpa using h1) h2
        · exact hs.head_lt x hx

theorem del_sublist (l : List (Key × β)) (k : Key) : (del l k).Sublist l := by
  induction l with
  | nil => exact List.Sublist.slnil
  | cons a l ih =>
    obtain ⟨k', b'⟩ := a
    simp only [del]
    by_cases h : k' = k
    · simp only [h, if_true]; exact List.sublist_cons_self _ _
    · simp only [h, if_false]; exact ih.cons_cons _

theorem sorted_del {l : List (Key × β)} (hs : Sorted l) (k : Key) : Sorted (del l k) :=
  List.Pairwise.sublist (del_sublist l k) hs

theorem lookup_del {l : List (Key × β)} (hs : Sorted l) (k : Key) (x : Key) :
    lookup (del l k) x = if k = x then none else lookup l x := by
  induction l with
  | nil => simp [del, lookup]
  | cons a l ih =>
    obtain ⟨k', b'⟩ := a
    simp only [del]
    by_cases h : k' = k
    · subst h
      simp only [if_true, lookup]
      by_cases h2 : k' = x
      · subst h2
        simp only [if_true]
        exact lookup_none.mpr (fun y hy e => by
          have := hs.head_lt y hy
          simp [e, keyLt_irrefl] at this)
      · simp [h2]
    · simp only [h, if_false, lookup, ih hs.tail]
      by_cases h2 : k' = x
      · subst h2
        have : ¬ k = k' := fun e => h e.symm
        simp [this]
      · simp [h2]

/-! ### `merged` -/

variable {V : Type}

theorem sorted_merged (ov : List (Key × Option V)) {be : List (Key × V)} (hb : Sorted be) :
    Sorted (merged ov be) := by
  unfold merged
  induction ov generalizing be with
  | nil => exact hb
  | cons e ov ih =>
    simp only [List.foldl_cons]
    apply ih
    cases e.2 with
    | some v => exact sorted_put hb _ _
    | none => exact sorted_del hb _

theorem lookup_merged {ov : List (Key × Option V)} (ho : Sorted ov) {be : List (Key × V)}
    (hb : Sorted be) (x : Key) : lookup (merged ov be) x = mget ov be x := by
  unfold merged mget
  induction ov generalizing be with
  | nil => simp [lookup]
  | cons e ov ih =>
    obtain ⟨k, o⟩ := e
    simp only [List.foldl_cons, lookup]
    have hne : k = x → lookup ov x = none := fun e => by
      subst e
      exact lookup_none.mpr (fun y hy e => by
        have := ho.head_lt y hy
        simp [e, keyLt_irrefl] at this)
    cases o with
    | some v =>
      rw [ih ho.tail (sorted_put hb _ _)]
      by_cases h : k = x
      · simp [h, hne h, lookup_put]
      · simp only [h, if_false, lookup_put]
    | none =>
      rw [ih ho.tail (sorted_del hb _)]
      by_cases h : k = x
      · simp [h, hne h, lookup_del hb]
      · simp only [h, if_false, lookup_del hb]

theorem mem_merged {ov : List (Key × Option V)} (ho : Sorted ov) {be : List (Key × V)}
    (hb : Sorted be) (k : Key) (v : V) : (k, v) ∈ merged ov be ↔ mget ov be k = some v := by
  rw [mem_iff_lookup (sorted_merged ov hb), lookup_merged ho hb]

end Pdb.C04
