/-
C20, bit level: the key rebuilt by `iter_index_internal` from (page number, entry, stored tail)
is the hashed key the entry was made from.  The expressions are the generated
`Pdb.Gen.recover_index_key`, `chunk_index`, `Entry.new`, `Entry.extract_key`.
-/
import Pdb.Model.Migrate
import Pdb.Proofs.C19

namespace Pdb.Migrate
open Pdb Pdb.Gen Pdb.IndexPage

/-! ### the generated expressions in plain shift form (16 ≤ ib ≤ 49) -/

theorem chunk_index_eq (ib P : Nat) (h49 : ib ≤ 49) (h16 : 16 ≤ ib) :
    chunk_index ib P = P >>> (64 - ib) := by
  simp only [chunk_index, wshr, wsub, INDEX_ENTRY_BITS]
  congr 1
  omega

theorem recover_index_key_eq (ib chunk entry : Nat) (h49 : ib ≤ 49) (h16 : 16 ≤ ib) :
    recover_index_key ib chunk entry =
      (chunk <<< (64 - ib)) % 2 ^ 64 ||| ((entry >>> (ib + 14)) <<< 14) % 2 ^ 64 := by
  have hab := address_bits_eq ib h49
  simp only [recover_index_key, recover_partial_key, recover_k, partial_key_eq _ ib h49, hab,
    wor, wshl, wsub]
  have e1 : (64 + 2 ^ 8 - ib % 2 ^ 8) % 2 ^ 8 % 64 = 64 - ib := by omega
  have e2 : ((64 + 2 ^ 8 - (64 + 2 ^ 8 - (ib + 14) % 2 ^ 8) % 2 ^ 8 % 2 ^ 8) % 2 ^ 8 + 2 ^ 8 -
      ib % 2 ^ 8) % 2 ^ 8 % 64 = 14 := by omega
  rw [e1, e2]

theorem entry_new_eq (addr pk ib : Nat) (h49 : ib ≤ 49) :
    Entry.new addr pk ib = (pk <<< (ib + 14)) % 2 ^ 64 ||| addr := by
  have hab := address_bits_eq ib h49
  simp only [Entry.new, wor, wshl, hab]
  have : (ib + 14) % 64 = ib + 14 := by omega
  rw [this]

theorem extract_key_eq' (P ib : Nat) (h49 : ib ≤ 49) :
    Entry.extract_key P ib = ((P <<< ib) % 2 ^ 64) >>> (ib + 14) := by
  rw [extract_key_eq P ib h49, address_bits_eq ib h49]
  simp only [wshl]
  have : ib % 64 = ib := by omega
  rw [this]

/-! ### the index-visible bits are the key prefix without its low 14 bits -/

theorem testBit_of_lt_pow (x n i : Nat) (hx : x < 2 ^ n) (hi : n ≤ i) : x.testBit i = false :=
  Nat.testBit_lt_two_pow (Nat.lt_of_lt_of_le hx (Nat.pow_le_pow_right (by omega) hi))

theorem index_key_bits (ib P addr : Nat) (h16 : 16 ≤ ib) (h49 : ib ≤ 49) (hP : P < 2 ^ 64)
    (ha : addr < 2 ^ (ib + 14)) :
    ((P >>> (64 - ib)) <<< (64 - ib)) % 2 ^ 64 |||
      ((((((P <<< ib) % 2 ^ 64) >>> (ib + 14)) <<< (ib + 14)) % 2 ^ 64 ||| addr) >>> (ib + 14)
        <<< 14) % 2 ^ 64 = (P >>> 14) <<< 14 := by
  apply Nat.eq_of_testBit_eq
  intro i
  have hPhi : ∀ j, 64 ≤ j → P.testBit j = false := fun j hj => testBit_of_lt_pow P 64 j hP hj
  have haddr : ∀ j, ib + 14 ≤ j → addr.testBit j = false :=
    fun j hj => testBit_of_lt_pow addr (ib + 14) j ha hj
  simp only [Nat.testBit_or, Nat.testBit_mod_two_pow, Nat.testBit_shiftLeft,
    Nat.testBit_shiftRight]
  by_cases h1 : i < 14
  · have a1 : ¬ (64 - ib ≤ i) := by omega
    have a2 : ¬ (14 ≤ i) := by omega
    simp [a1, a2]
  · by_cases h2 : i < 64 - ib
    · -- middle bits: from the partial key
      have a1 : ¬ (64 - ib ≤ i) := by omega
      have a2 : 14 ≤ i := by omega
      have a3 : i < 64 := by omega
      have a4 : ib + 14 + (i - 14) < 64 := by omega
      have a5 : ib + 14 ≤ ib + 14 + (i - 14) := by omega
      have a6 : ib ≤ ib + 14 + (i - 14) := by omega
      have e1 : ib + 14 + (i - 14) - ib = i := by omega
      have e2 : 14 + (i - 14) = i := by omega
      simp [a1, a2, a3, a4, a5, a6, e1, e2, haddr (ib + 14 + (i - 14)) a5]
    · by_cases h3 : i < 64
      · -- top bits: from the page number
        have a1 : 64 - ib ≤ i := by omega
        have a2 : 14 ≤ i := by omega
        have a4 : ¬ (ib + 14 + (i - 14) < 64) := by omega
        have a5 : ib + 14 ≤ ib + 14 + (i - 14) := by omega
        have e1 : 64 - ib + (i - (64 - ib)) = i := by omega
        have e2 : 14 + (i - 14) = i := by omega
        simp [a1, a2, h3, a4, e1, e2, haddr (ib + 14 + (i - 14)) a5]
      · have a2 : 14 ≤ i := by omega
        have e2 : 14 + (i - 14) = i := by omega
        simp [h3, a2, e2, hPhi i (by omega)]

theorem recovered_index_key (ib P addr : Nat) (h16 : 16 ≤ ib) (h49 : ib ≤ 49) (hP : P < 2 ^ 64)
    (ha : addr < 2 ^ (ib + 14)) :
    recover_index_key ib (chunk_index ib P) (Entry.new addr (Entry.extract_key P ib) ib) =
      (P >>> 14) <<< 14 := by
  rw [recover_index_key_eq _ _ _ h49 h16, chunk_index_eq ib P h49 h16, entry_new_eq _ _ ib h49,
    extract_key_eq' P ib h49]
  exact index_key_bits ib P addr h16 h49 hP ha

/-! ### bytes -/

theorem shr_clear_low (P s : Nat) (hs : 14 ≤ s) : ((P >>> 14) <<< 14) >>> s = P >>> s := by
  obtain ⟨d, rfl⟩ : ∃ d, s = 14 + d := ⟨s - 14, by omega⟩
  rw [Nat.shiftRight_add, Nat.shiftLeft_shiftRight, ← Nat.shiftRight_add]

theorem beBytes8_take6_clear_low (P : Nat) :
    (beBytes8 ((P >>> 14) <<< 14)).take 6 = (beBytes8 P).take 6 := by
  simp only [beBytes8, List.take_succ_cons, List.take_zero,
    shr_clear_low P 56 (by omega), shr_clear_low P 48 (by omega), shr_clear_low P 40 (by omega),
    shr_clear_low P 32 (by omega), shr_clear_low P 24 (by omega), shr_clear_low P 16 (by omega)]

theorem beBytes8_keyPrefix (b0 b1 b2 b3 b4 b5 b6 b7 : Nat) (rest : List Nat)
    (h0 : b0 < 256) (h1 : b1 < 256) (h2 : b2 < 256) (h3 : b3 < 256) (h4 : b4 < 256)
    (h5 : b5 < 256) (h6 : b6 < 256) (h7 : b7 < 256) :
    beBytes8 (keyPrefix (b0 :: b1 :: b2 :: b3 :: b4 :: b5 :: b6 :: b7 :: rest)) =
      [b0, b1, b2, b3, b4, b5, b6, b7] := by
  simp only [keyPrefix, beBytes8, List.take_succ_cons, List.take_zero, List.foldl_cons,
    List.foldl_nil, Nat.shiftRight_eq_div_pow]
  have e0 : (((((((((0 * 256 + b0) * 256 + b1) * 256 + b2) * 256 + b3) * 256 + b4) * 256 + b5) * 256 +
      b6) * 256 + b7) / 2 ^ 56) % 256 = b0 := by omega
  have e1 : (((((((((0 * 256 + b0) * 256 + b1) * 256 + b2) * 256 + b3) * 256 + b4) * 256 + b5) * 256 +
      b6) * 256 + b7) / 2 ^ 48) % 256 = b1 := by omega
  have e2 : (((((((((0 * 256 + b0) * 256 + b1) * 256 + b2) * 256 + b3) * 256 + b4) * 256 + b5) * 256 +
      b6) * 256 + b7) / 2 ^ 40) % 256 = b2 := by omega
  have e3 : (((((((((0 * 256 + b0) * 256 + b1) * 256 + b2) * 256 + b3) * 256 + b4) * 256 + b5) * 256 +
      b6) * 256 + b7) / 2 ^ 32) % 256 = b3 := by omega
  have e4 : (((((((((0 * 256 + b0) * 256 + b1) * 256 + b2) * 256 + b3) * 256 + b4) * 256 + b5) * 256 +
      b6) * 256 + b7) / 2 ^ 24) % 256 = b4 := by omega
  have e5 : (((((((((0 * 256 + b0) * 256 + b1) * 256 + b2) * 256 + b3) * 256 + b4) * 256 + b5) * 256 +
      b6) * 256 + b7) / 2 ^ 16) % 256 = b5 := by omega
  have e6 : (((((((((0 * 256 + b0) * 256 + b1) * 256 + b2) * 256 + b3) * 256 + b4) * 256 + b5) * 256 +
      b6) * 256 + b7) / 2 ^ 8) % 256 = b6 := by omega
  have e7 : (((((((((0 * 256 + b0) * 256 + b1) * 256 + b2) * 256 + b3) * 256 + b4) * 256 + b5) * 256 +
      b6) * 256 + b7)) % 256 = b7 := by omega
  rw [e0, e1, e2, e3, e4, e5, e6, e7]

theorem keyPrefix_lt (k : List Nat) (hb : ∀ b ∈ k, b < 256) : keyPrefix k < 2 ^ 64 := by
  have aux : ∀ (l : List Nat) (a n : Nat), (∀ b ∈ l, b < 256) → a < 256 ^ n →
      l.foldl (fun a b => a * 256 + b) a < 256 ^ (n + l.length) := by
    intro l
    induction l with
    | nil => intro a n _ ha; simpa using ha
    | cons x xs ih =>
      intro a n hl ha
      have hx : x < 256 := hl x (by simp)
      have : a * 256 + x < 256 ^ (n + 1) := by
        rw [Nat.pow_succ]
        have : a + 1 ≤ 256 ^ n := ha
        calc a * 256 + x < a * 256 + 256 := by omega
          _ = (a + 1) * 256 := by rw [Nat.add_mul]
          _ ≤ 256 ^ n * 256 := Nat.mul_le_mul_right 256 this
      have := ih (a * 256 + x) (n + 1) (fun b hb' => hl b (by simp [hb'])) this
      simpa [List.foldl_cons, Nat.add_assoc, Nat.add_comm 1] using this
  have h := aux (k.take 8) 0 0 (fun b hb' => hb b (List.mem_of_mem_take hb')) (by simp)
  have hlen : (k.take 8).length ≤ 8 := by simp [List.length_take]; omega
  have : (256 : Nat) ^ (0 + (k.take 8).length) ≤ 256 ^ 8 := Nat.pow_le_pow_right (by omega) (by omega)
  have e : (256 : Nat) ^ 8 = 2 ^ 64 := by decide
  unfold keyPrefix
  omega

/-- The round trip, on a key given by its first eight bytes and the rest. -/
theorem recoverKey_roundtrip_cons (b0 b1 b2 b3 b4 b5 b6 b7 : Nat) (rest : List Nat) (ib addr : Nat)
    (hb : ∀ b ∈ b0 :: b1 :: b2 :: b3 :: b4 :: b5 :: b6 :: b7 :: rest, b < 256)
    (h16 : 16 ≤ ib) (h49 : ib ≤ 49) (ha : addr < 2 ^ (ib + 14)) :
    let k := b0 :: b1 :: b2 :: b3 :: b4 :: b5 :: b6 :: b7 :: rest
    recoverKey ib (chunk_index ib (keyPrefix k)) (Entry.new addr (Entry.extract_key (keyPrefix k) ib) ib)
      (k.drop 6) = k := by
  intro k
  have hP : keyPrefix k < 2 ^ 64 := keyPrefix_lt k hb
  have hbytes := beBytes8_keyPrefix b0 b1 b2 b3 b4 b5 b6 b7 rest
    (hb b0 (by simp)) (hb b1 (by simp)) (hb b2 (by simp)) (hb b3 (by simp)) (hb b4 (by simp))
    (hb b5 (by simp)) (hb b6 (by simp)) (hb b7 (by simp))
  have hlen8 : ∀ x, (beBytes8 x).length = 8 := fun x => rfl
  unfold recoverKey recoverKeyPrefix
  rw [recovered_index_key ib (keyPrefix k) addr h16 h49 hP ha]
  have htake : (beBytes8 ((keyPrefix k >>> 14) <<< 14) ++ List.replicate (KEY_SIZE - 8) 0).take TAIL_START =
      (beBytes8 (keyPrefix k)).take 6 := by
    rw [← beBytes8_take6_clear_low]
    show (beBytes8 _ ++ _).take 6 = _
    rw [List.take_append_of_le_length (by rw [hlen8]; omega)]
  rw [htake, hbytes]
  rfl

end Pdb.Migrate
