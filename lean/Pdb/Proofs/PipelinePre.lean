/-
Reads on preimage columns (no reference counting) under the preimage contract "the value
is a function of the key": `get` returns the specification's value at every stage.
Also: reads of a state with empty overlay / queue / log overlay (any kind, no contract).
-/
import Pdb.Proofs.PipelineRc

set_option linter.unusedSectionVars false
set_option linter.unusedSimpArgs false
namespace Pdb
variable {K V : Type} [DecidableEq K]

theorem OpsContract.head {valueOf : K → V} {kind : K → Kind} {op : Op K V} {ops : List (Op K V)}
    (h : OpsContract valueOf kind (op :: ops)) : OpsContract valueOf kind [op] :=
  fun k v hm hk => h k v (by simp only [List.mem_singleton] at hm; simp [hm]) hk

theorem OpsContract.tail {valueOf : K → V} {kind : K → Kind} {op : Op K V} {ops : List (Op K V)}
    (h : OpsContract valueOf kind (op :: ops)) : OpsContract valueOf kind ops :=
  fun k v hm hk => h k v (List.mem_cons_of_mem _ hm) hk

theorem OpsContract.left {valueOf : K → V} {kind : K → Kind} {a b : List (Op K V)}
    (h : OpsContract valueOf kind (a ++ b)) : OpsContract valueOf kind a :=
  fun k v hm hk => h k v (List.mem_append_left _ hm) hk

theorem OpsContract.right {valueOf : K → V} {kind : K → Kind} {a b : List (Op K V)}
    (h : OpsContract valueOf kind (a ++ b)) : OpsContract valueOf kind b :=
  fun k v hm hk => h k v (List.mem_append_right _ hm) hk

/-- One operation on a preimage column: a `Set` on a present key is skipped, but the stored
    value and the new value are both `valueOf k`, so the overlay entry is still right. -/
theorem applyOp_preimage (valueOf : K → V) (kind : K → Kind) (id : Nat) (t : Tbl K V)
    (op : Op K V) (k : K) (hk : kind k = .preimage) (ht : TblOk valueOf kind t)
    (hop : OpsContract valueOf kind [op]) :
    (applyOp kind t op k).map Prod.fst =
      ((lastW (opW kind id op).toList k).map (·.2)).getD ((t k).map Prod.fst) := by
  unfold applyOp
  by_cases h : op.key = k
  · cases op with
    | set k' v =>
      simp only [Op.key] at h; subst h
      have hv : v = valueOf k' := hop k' v (by simp) (by simp [hk])
      cases htk : t k' with
      | none => simp [opW, lastW, applyCell, hk, Op.key, htk]
      | some c =>
        obtain ⟨v0, n0⟩ := c
        have h0 : v0 = valueOf k' := (ht k' v0 n0 htk).1 (by simp [hk])
        simp [opW, lastW, applyCell, hk, Op.key, htk, h0, hv]
    | deref k' =>
      simp only [Op.key] at h; subst h
      simp [opW, lastW, applyCell, hk, Op.key]
    | ref k' =>
      simp only [Op.key] at h; subst h
      simp [opW, lastW, applyCell, hk, Op.key]
  · have hne : k ≠ op.key := fun e => h e.symm
    rw [upd_other _ _ _ _ hne]
    cases op with
    | set k' v => simp only [Op.key] at h; simp [opW, lastW, h]
    | deref k' =>
      simp only [Op.key] at h
      by_cases hr : kind k' = .rc <;> simp [opW, lastW, h, hr]
    | ref k' => simp [opW, lastW]

theorem applyOps_preimage (valueOf : K → V) (kind : K → Kind) (id : Nat) (ops : List (Op K V))
    (t : Tbl K V) (k : K) (hk : kind k = .preimage) (ht : TblOk valueOf kind t)
    (hop : OpsContract valueOf kind ops) :
    (applyOps kind t ops k).map Prod.fst =
      ((lastW (opsW kind id ops) k).map (·.2)).getD ((t k).map Prod.fst) := by
  induction ops generalizing t with
  | nil => simp [applyOps, opsW, lastW]
  | cons op ops ih =>
    have : applyOps kind t (op :: ops) = applyOps kind (applyOp kind t op) ops := rfl
    rw [this, ih _ (applyOp_ok valueOf kind t op ht hop.head) hop.tail, opsW_cons, lastW_append,
      applyOp_preimage valueOf kind id t op k hk ht hop.head]
    cases lastW (opsW kind id ops) k <;> simp

theorem applyQ_preimage (valueOf : K → V) (kind : K → Kind) (q : List (Commit K V)) (t : Tbl K V)
    (k : K) (hk : kind k = .preimage) (ht : TblOk valueOf kind t)
    (hop : OpsContract valueOf kind (qops q)) :
    (applyOps kind t (qops q) k).map Prod.fst =
      ((lastW (queueW kind q) k).map (·.2)).getD ((t k).map Prod.fst) := by
  induction q generalizing t with
  | nil => simp [applyOps, qops, queueW, lastW]
  | cons c q ih =>
    have e1 : qops (c :: q) = c.ops ++ qops q := by simp [qops]
    have e2 : queueW kind (c :: q) = opsW kind c.id c.ops ++ queueW kind q := by simp [queueW]
    rw [e1] at hop
    rw [e1, e2, applyOps_append, ih _ (applyOps_ok valueOf kind c.ops t ht hop.left) hop.right,
      lastW_append, applyOps_preimage valueOf kind c.id c.ops t k hk ht hop.left]
    cases lastW (queueW kind q) k <;> simp

/-- Reads of a preimage column return the specification's value, whatever the stage,
    provided the committed transactions obey the preimage contract. -/
theorem Inv.get_preimage {kind : K → Kind} {s : St K V} (h : Inv kind s) (valueOf : K → V)
    (hc : Contract valueOf kind s.hist) (k : K) (hk : kind k = .preimage) :
    get s k = (spec kind s.hist k).map Prod.fst := by
  have hok : TblOk valueOf kind (view s) := by
    rw [h.view_eq]
    exact spec_ok valueOf kind _ (hc.take (s.nEnacted + s.logged.length))
  have hq : OpsContract valueOf kind (qops s.queue) :=
    fun k' v hm hk' => hc k' v (mem_qops_hist h _ hm) hk'
  rw [h.spec_hist, applyQ_preimage valueOf kind s.queue (view s) k hk hok hq, ← h.ov k]
  unfold get
  cases s.overlay k with
  | none => simp
  | some x => obtain ⟨i, v⟩ := x; simp

/-- With nothing in the commit overlay and nothing in the log overlay, a read is a table
    lookup (any column kind). -/
theorem get_tables_of_empty (s : St K V) (ho : ∀ k, s.overlay k = none) (hl : s.logged = [])
    (k : K) : get s k = (s.tables k).map Prod.fst := by
  unfold get view
  rw [ho k, hl]
  simp [logLookup]

/-! ### a decidable form of the contract, for concrete instances -/

/-- Boolean check of the preimage contract on a concrete list of operations. -/
def opsContractB [DecidableEq V] (valueOf : K → V) (kind : K → Kind) (ops : List (Op K V)) : Bool :=
  ops.all (fun op =>
    match op with
    | .set k v => decide (kind k = .plain) || decide (v = valueOf k)
    | _ => true)

theorem OpsContract.of_check [DecidableEq V] (valueOf : K → V) (kind : K → Kind)
    (ops : List (Op K V)) (h : opsContractB valueOf kind ops = true) :
    OpsContract valueOf kind ops := by
  intro k v hm hk
  unfold opsContractB at h
  rw [List.all_eq_true] at h
  have := h _ hm
  simp only [Bool.or_eq_true, decide_eq_true_eq] at this
  rcases this with e | e
  · exact absurd e hk
  · exact e

theorem Contract.of_check [DecidableEq V] (valueOf : K → V) (kind : K → Kind)
    (txs : List (List (Op K V))) (h : opsContractB valueOf kind txs.flatten = true) :
    Contract valueOf kind txs :=
  OpsContract.of_check valueOf kind _ h

end Pdb
