/-
R6 lemmas, part 4: root values.  `Operation::Set(key, packed root)` on a fresh key takes its slots from the SAME tables
(`write_insert_plan` = `next_free`), `Operation::Dereference(key)` of a column without `ref_counted` returns them
(`write_remove_plan`).
-/
import Pdb.Proofs.RefineMt3

namespace Pdb.MultiTreePhys
open Pdb.Gen Pdb.ValueTable Pdb.MultiTree

theorem TierInv.perm {t : VT} {F C : List Nat} {L L' : List (List Nat)} (hp : L.Perm L')
    (h : TierInv t F C L) : TierInv t F C L' :=
  ⟨SlotInv_perm t F _ _ (List.Perm.append_left _ hp) h.slot, h.fresh⟩

/-- `overwrite_chain(at = None)` touches only slots below the new fill mark -/
theorem writeChain_none_frame (t : VT) (key : TKey) (v : Bytes) (F : List Nat) (r : WrOk)
    (hF : FreeChain t t.lastRemoved F) (hpos : 0 < t.filled)
    (h : writeChain t key v none false = .ok r) :
    (∀ j, r.table.filled ≤ j → r.table.slots j = t.slots j) ∧ t.filled ≤ r.table.filled ∧ SameCfg t r.table := by
  unfold writeChain at h
  split at h
  · simp at h
  · obtain ⟨t1, ha, hs1, hc1, hf1, _⟩ :=
      allocN_spec ((chunksOf t key v).length - ([] : List Nat).length) t F hF hpos
    simp only [oldWalk, writeCore, ha] at h
    simp only [Except.ok.injEq] at h
    subst h
    have hcfg := writeParts_cfg false t1 true
      ([] ++ (F.take ((chunksOf t key v).length - ([] : List Nat).length) ++
        List.range' t.filled ((chunksOf t key v).length - ([] : List Nat).length - F.length)))
      (chunksOf t key v)
    simp only [] at hcfg ⊢
    refine ⟨?_, by rw [hcfg.2.1, hf1]; omega, SameCfg.trans hc1 hcfg.1⟩
    intro j hj
    rw [hcfg.2.1, hf1] at hj
    rw [writeParts_notin, hs1]
    intro hm
    rcases List.mem_append.mp hm with h1 | h1
    · simp at h1
    · rcases List.mem_append.mp h1 with h2 | h2
      · have := (FreeChain_mem t F _ hF j (List.mem_of_mem_take h2)).2.1; omega
      · rw [List.mem_range'_1] at h2; omega

/-- `write_insert_plan(key, v)`: pops the tier's free list, then fresh slots; the value reads back under its key. -/
theorem tier_insert (t : VT) (F C : List Nat) (L : List (List Nat)) (key : TKey) (v : Bytes)
    (hinv : TierInv t F C L) (hok : WriteOk t key v) (hb : t.filled + numParts t key v ≤ 2 ^ 64) :
    ∃ r, writeChain t key v none false = .ok r ∧
      readChain r.table key r.addr = .ok (some (v, false, 1)) ∧
      r.addr = r.chain.headD 0 ∧ 1 ≤ r.addr ∧ r.addr < r.table.filled ∧
      TierInv r.table (F.drop (numParts t key v)) C (r.chain :: L) ∧
      (∀ c ∈ L, ∀ key', readChain r.table key' (c.headD 0) = readChain t key' (c.headD 0)) ∧
      SameCfg t r.table ∧ r.table.filled ≤ t.filled + numParts t key v := by
  obtain ⟨r, h1, h2, h3, h4, h5, h6⟩ := C06_roundtrip t key v false F (singles C ++ L) hok hinv.slot hb
  obtain ⟨r', g1, _, g3⟩ := C06_insert_reuses_free t key v false F (singles C ++ L) hok hinv.slot hb
  have e : r' = r := by rw [h1] at g1; injection g1 with g1; exact g1.symm
  subst e
  have hpos : 0 < t.filled := by have := hinv.slot.count; omega
  obtain ⟨hfr, hge, hcfg⟩ := writeChain_none_frame t key v F r' hinv.slot.free hpos h1
  have hk : 0 < numParts t key v := numParts_pos
  have hne : r'.chain ≠ [] := by
    intro e; rw [e] at h4; simp at h4; omega
  have hmem : r'.addr ∈ r'.chain := by
    rw [h3]
    cases hc : r'.chain with
    | nil => exact absurd hc hne
    | cons x xs => simp
  have hrange := h5.range r'.addr (List.mem_append_right _ (by
    rw [List.flatten_cons]; exact List.mem_append_left _ hmem))
  refine ⟨r', h1, h2, h3, hrange.1, hrange.2, ⟨?_, ?_⟩, ?_, hcfg, by rw [g3]; omega⟩
  · exact SlotInv_perm _ _ _ _ (List.perm_middle).symm h5
  · intro i hi
    rw [hfr i hi]
    exact hinv.fresh i (by omega)
  · intro c hc key'
    exact h6 c (List.mem_append_right _ hc) key'

def updK (f : Key → List Nat) (k : Key) (x : List Nat) : Key → List Nat := fun j => if j = k then x else f j

theorem updK_same (f : Key → List Nat) (k : Key) (x : List Nat) : updK f k x k = x := by simp [updK]
theorem updK_other (f : Key → List Nat) (k j : Key) (x : List Nat) (h : j ≠ k) : updK f k x j = f j := by
  simp [updK, h]

theorem map_updK_of_not_mem (f : Key → List Nat) (k : Key) (x : List Nat) (l : List Key) (h : k ∉ l) :
    l.map (updK f k x) = l.map f := by
  apply List.map_congr_left
  intro b hb
  exact updK_other f k b x (by intro e; exact h (e ▸ hb))

/-- a root value may be written to the table of the tier `Column::compress` selects -/
theorem root_writeOk (rc : Bool) (t : VT) (k : Key) (v : Bytes) (hk : k.length = 32)
    (hcfg : SameCfg (tableOfTier rc (rootTier rc k v.length)) t) : WriteOk t (keyTail k) v := by
  have hkok : (keyTail k).Ok := by
    simp [keyTail, TKey.Ok, TKey.bytes, TKey.encodedSize, PARTIAL_SIZE, hk]
  have h := C06_tier_writeOk (fun x => x) v.length rc (keyTail k) v hkok t
    (by simpa [tierFor, storedForm, rootTier] using hcfg)
  simpa [tierFor, storedForm] using h

/-- `Operation::Set(key, packed root)` on a key without root entry: simulated by `roots.set k (some (root, 1))`
    (`applyRootChange (.set k root)` on a fresh key); the value slots come from the free list of the root's tier. -/
theorem sim_setRoot_new (p : PCol) (h : Heap Key Bytes) (ly : Layout) (r : Rep p h ly) (k : Key)
    (root : Node Bytes) (hk : k.length = 32) (hnew : h.roots.get k = none) (hn : NodeOk root)
    (hb : (p.vt (rootTier p.isRc k (encodeNode root).length)).filled +
      numParts (p.vt (rootTier p.isRc k (encodeNode root).length)) (keyTail k) (encodeNode root) ≤ 2 ^ 56) :
    ∃ p' c, physApplyRoot p (.set k root) = .ok p' ∧
      Rep p' { h with roots := h.roots.set k (some (root, 1)) }
        { ly with
          free := upd ly.free (rootTier p.isRc k (encodeNode root).length)
            ((ly.free (rootTier p.isRc k (encodeNode root).length)).drop
              (numParts (p.vt (rootTier p.isRc k (encodeNode root).length)) (keyTail k) (encodeNode root))),
          other := upd ly.other (rootTier p.isRc k (encodeNode root).length)
            (c :: ly.other (rootTier p.isRc k (encodeNode root).length)),
          rootKeys := upd ly.rootKeys (rootTier p.isRc k (encodeNode root).length)
            (k :: ly.rootKeys (rootTier p.isRc k (encodeNode root).length)),
          rchain := updK ly.rchain k c } ∧
      physGetRoot p' k = some (root, 1) ∧ p'.variant = p.variant := by
  generalize htier : rootTier p.isRc k (encodeNode root).length = tier at *
  have ht : tier < 256 := by rw [← htier]; exact tierOfLen_lt_256 _ _ _
  have hidxnone : p.index.get k = none := r.roots.rootNone k hnew
  have hknot : ∀ tier', k ∉ ly.rootKeys tier' := by
    intro tier' hm
    obtain ⟨a, ha, _⟩ := (r.roots.rdom tier' k).mp hm
    rw [hidxnone] at ha; simp at ha
  have hok : WriteOk (p.vt tier) (keyTail k) (encodeNode root) :=
    root_writeOk p.isRc _ k _ hk (by rw [htier]; exact r.cfg tier)
  obtain ⟨w, hw, hrd, hhd, hlo, hhi, hinv', hframe, hcfg, hfl⟩ := tier_insert (p.vt tier) (ly.free tier)
    (ly.claimed tier) _ (keyTail k) (encodeNode root) (r.tiers tier) hok (by omega)
  have haddr : w.addr < 2 ^ 56 := by omega
  have hat : Address.size_tier (Address.new w.addr tier) = tier := Index.address_tier_new _ _ haddr ht
  have hao : Address.offset (Address.new w.addr tier) = w.addr := Index.address_offset_new _ _ haddr ht
  refine ⟨{ p.setVT tier w.table with index := p.index.set k (some (Address.new w.addr tier)) }, w.chain, ?_, ?_, ?_⟩
  · simp only [physApplyRoot, physSetRoot, htier, hidxnone, hw]
  · refine ⟨?_, ?_, r.nodup, r.dom, ?_, r.rc, ?_, ?_, r.wf⟩
    · intro tier'
      by_cases he : tier' = tier
      · subst he
        simp only [setVT_same, upd_same]
        exact hinv'.perm (List.perm_middle).symm
      · simp only [setVT_other _ _ _ _ he, upd_other _ _ _ _ he]; exact r.tiers tier'
    · intro tier'
      show SameCfg (tableOfTier p.isRc tier') ((p.setVT tier w.table).vt tier')
      by_cases he : tier' = tier
      · subst he; rw [setVT_same]; exact SameCfg.trans (r.cfg _) hcfg
      · rw [setVT_other _ _ _ _ he]; exact r.cfg tier'
    · intro a n' hg
      obtain ⟨g1, g2, g3⟩ := r.node a n' hg
      refine ⟨g1, g2, ?_⟩
      show readChain ((p.setVT tier w.table).vt (Address.size_tier a)) _ _ = _
      by_cases he : Address.size_tier a = tier
      · rw [he, setVT_same]
        have hm : a ∈ ly.nodes tier := (r.dom tier a).mpr ⟨he, by simp [hg]⟩
        have := hframe (ly.chain a) (List.mem_append_left _ (List.mem_map.mpr ⟨a, hm, rfl⟩)) .noHash
        rw [g2] at this
        rw [this, ← he]; exact g3
      · rw [setVT_other _ _ _ _ he]; exact g3
    · intro tier'
      show ((p.setVT tier w.table).vt tier').filled ≤ 2 ^ 56
      by_cases he : tier' = tier
      · subst he; rw [setVT_same]; omega
      · rw [setVT_other _ _ _ _ he]; exact r.bound tier'
    · refine ⟨?_, ?_, ?_, ?_, ?_⟩
      · intro tier'
        by_cases he : tier' = tier
        · subst he
          simp only [upd_same, List.map_cons, updK_same]
          rw [map_updK_of_not_mem _ _ _ _ (hknot tier'), r.roots.otherEq]
        · simp only [upd_other _ _ _ _ he]
          rw [map_updK_of_not_mem _ _ _ _ (hknot tier'), r.roots.otherEq]
      · intro tier'
        by_cases he : tier' = tier
        · subst he; simp only [upd_same]; exact List.nodup_cons.mpr ⟨hknot tier', r.roots.rnodup tier'⟩
        · simp only [upd_other _ _ _ _ he]; exact r.roots.rnodup tier'
      · intro tier' k'
        show k' ∈ upd ly.rootKeys tier (k :: ly.rootKeys tier) tier' ↔
          ∃ a, (p.index.set k (some (Address.new w.addr tier))).get k' = some a ∧ Address.size_tier a = tier'
        simp only [FMap.get_set]
        by_cases hk' : k' = k
        · subst hk'
          simp only [if_true, Option.some.injEq]
          by_cases he : tier' = tier
          · subst he; simp only [upd_same, List.mem_cons, true_or, true_iff]; exact ⟨_, rfl, hat⟩
          · simp only [upd_other _ _ _ _ he]
            constructor
            · intro hm; exact absurd hm (hknot tier')
            · rintro ⟨a, rfl, ha⟩; rw [hat] at ha; exact absurd ha.symm he
        · simp only [hk', if_false]
          by_cases he : tier' = tier
          · subst he; simp only [upd_same, List.mem_cons, hk', false_or]; exact r.roots.rdom tier' k'
          · simp only [upd_other _ _ _ _ he]; exact r.roots.rdom tier' k'
      · intro k' n' c' hg
        show ∃ a, (p.index.set k (some (Address.new w.addr tier))).get k' = some a ∧ NodeOk n' ∧
          (updK ly.rchain k w.chain k').headD 0 = Address.offset a ∧
          readChain ((p.setVT tier w.table).vt (Address.size_tier a)) (keyTail k') (Address.offset a) =
            .ok (some (encodeNode n', false, c'))
        simp only [FMap.get_set] at hg ⊢
        by_cases hk' : k' = k
        · subst hk'
          simp only [if_true, Option.some.injEq, Prod.mk.injEq] at hg
          obtain ⟨rfl, rfl⟩ := hg
          refine ⟨Address.new w.addr tier, by simp, hn, ?_, ?_⟩
          · rw [updK_same, hao, hhd]
          · rw [hat, hao, setVT_same]; exact hrd
        · simp only [hk', if_false] at hg ⊢
          obtain ⟨a, g1, g2, g3, g4⟩ := r.roots.root k' n' c' hg
          refine ⟨a, g1, g2, by rw [updK_other _ _ _ _ hk']; exact g3, ?_⟩
          by_cases he : Address.size_tier a = tier
          · rw [he, setVT_same]
            have hm : k' ∈ ly.rootKeys tier := (r.roots.rdom tier k').mpr ⟨a, g1, he⟩
            have hc : ly.rchain k' ∈ ly.other tier := by
              rw [r.roots.otherEq]; exact List.mem_map.mpr ⟨k', hm, rfl⟩
            have := hframe (ly.rchain k') (List.mem_append_right _ hc) (keyTail k')
            rw [g3] at this
            rw [this, ← he]; exact g4
          · rw [setVT_other _ _ _ _ he]; exact g4
      · intro k' hg
        show (p.index.set k (some (Address.new w.addr tier))).get k' = none
        simp only [FMap.get_set] at hg ⊢
        by_cases hk' : k' = k
        · subst hk'; simp at hg
        · simp only [hk', if_false] at hg ⊢; exact r.roots.rootNone k' hg
  · refine ⟨?_, rfl⟩
    unfold physGetRoot
    simp only [FMap.get_set, if_true, Option.bind_some, hat, hao, setVT_same, hrd]
    rw [decode_encode root hn]
    rfl

/-- removal of a root entry (`write_remove_plan` on the value + removal of the index entry), whatever led to it: the
    slots of the value are pushed on the free list of its tier; simulated by `roots.set k none`. -/
theorem sim_removeRoot (p : PCol) (h : Heap Key Bytes) (ly : Layout) (r : Rep p h ly) (k : Key)
    (n : Node Bytes) (c : Nat) (hg : h.roots.get k = some (n, c)) :
    ∃ t' a, p.index.get k = some a ∧
      removePlan (p.vt (Address.size_tier a)) (Address.offset a) = .ok (t', ly.rchain k) ∧
      Rep { p.setVT (Address.size_tier a) t' with index := p.index.set k none }
        { h with roots := h.roots.set k none }
        { ly with
          free := upd ly.free (Address.size_tier a) ((ly.rchain k).reverse ++ ly.free (Address.size_tier a)),
          other := upd ly.other (Address.size_tier a) (((ly.rootKeys (Address.size_tier a)).erase k).map ly.rchain),
          rootKeys := upd ly.rootKeys (Address.size_tier a) ((ly.rootKeys (Address.size_tier a)).erase k) } := by
  obtain ⟨a, ha, _, hhd, _⟩ := r.roots.root k n c hg
  have hm : k ∈ ly.rootKeys (Address.size_tier a) := (r.roots.rdom _ k).mpr ⟨a, ha, rfl⟩
  have hknd := r.roots.rnodup (Address.size_tier a)
  have hperm : ((ly.nodes (Address.size_tier a)).map ly.chain ++ ly.other (Address.size_tier a)).Perm
      (ly.rchain k :: ((ly.nodes (Address.size_tier a)).map ly.chain ++
        ((ly.rootKeys (Address.size_tier a)).erase k).map ly.rchain)) := by
    rw [r.roots.otherEq]
    have h1 := (List.perm_cons_erase hm).map ly.rchain
    simp only [List.map_cons] at h1
    exact (List.Perm.append_left _ h1).trans List.perm_middle
  have hti' := (r.tiers (Address.size_tier a)).perm hperm
  obtain ⟨t', h1, h2, h3, h4, h5⟩ := tier_remove _ _ _ _ _ hti' (by have := r.bound (Address.size_tier a); omega)
  rw [hhd] at h1
  refine ⟨t', a, ha, h1, ?_⟩
  · refine ⟨?_, ?_, r.nodup, r.dom, ?_, r.rc, ?_, ?_, r.wf⟩
    · intro tier'
      by_cases he : tier' = Address.size_tier a
      · subst he; simp only [setVT_same, upd_same]; exact h2
      · simp only [setVT_other _ _ _ _ he, upd_other _ _ _ _ he]; exact r.tiers tier'
    · intro tier'
      show SameCfg (tableOfTier p.isRc tier') ((p.setVT (Address.size_tier a) t').vt tier')
      by_cases he : tier' = Address.size_tier a
      · subst he; rw [setVT_same]; exact SameCfg.trans (r.cfg _) h4
      · rw [setVT_other _ _ _ _ he]; exact r.cfg tier'
    · intro b n' hgb
      obtain ⟨g1, g2, g3⟩ := r.node b n' hgb
      refine ⟨g1, g2, ?_⟩
      show readChain ((p.setVT (Address.size_tier a) t').vt (Address.size_tier b)) _ _ = _
      by_cases he : Address.size_tier b = Address.size_tier a
      · rw [he, setVT_same]
        have hmb : b ∈ ly.nodes (Address.size_tier a) := (r.dom _ b).mpr ⟨he, by simp [hgb]⟩
        have := h5 (ly.chain b) (List.mem_append_left _ (List.mem_map.mpr ⟨b, hmb, rfl⟩)) .noHash
        rw [g2] at this
        rw [this, ← he]; exact g3
      · rw [setVT_other _ _ _ _ he]; exact g3
    · intro tier'
      show ((p.setVT (Address.size_tier a) t').vt tier').filled ≤ 2 ^ 56
      by_cases he : tier' = Address.size_tier a
      · subst he; rw [setVT_same, h3]; exact r.bound _
      · rw [setVT_other _ _ _ _ he]; exact r.bound tier'
    · refine ⟨?_, ?_, ?_, ?_, ?_⟩
      · intro tier'
        by_cases he : tier' = Address.size_tier a
        · subst he; simp only [upd_same]
        · simp only [upd_other _ _ _ _ he]; exact r.roots.otherEq tier'
      · intro tier'
        by_cases he : tier' = Address.size_tier a
        · subst he; simp only [upd_same]; exact hknd.erase k
        · simp only [upd_other _ _ _ _ he]; exact r.roots.rnodup tier'
      · intro tier' k'
        show k' ∈ upd ly.rootKeys (Address.size_tier a) ((ly.rootKeys (Address.size_tier a)).erase k) tier' ↔
          ∃ a', (p.index.set k none).get k' = some a' ∧ Address.size_tier a' = tier'
        simp only [FMap.get_set]
        by_cases hk' : k' = k
        · subst hk'
          simp only [if_true]
          constructor
          · intro hmem
            exfalso
            by_cases he : tier' = Address.size_tier a
            · subst he
              simp only [upd_same] at hmem
              exact ((List.Nodup.mem_erase_iff hknd).mp hmem).1 rfl
            · simp only [upd_other _ _ _ _ he] at hmem
              obtain ⟨a', ha', hta'⟩ := (r.roots.rdom tier' k').mp hmem
              rw [ha] at ha'
              injection ha' with ha'
              subst ha'
              exact he hta'.symm
          · rintro ⟨a', ha', _⟩; simp at ha'
        · simp only [hk', if_false]
          by_cases he : tier' = Address.size_tier a
          · subst he
            simp only [upd_same]
            rw [List.Nodup.mem_erase_iff hknd]
            constructor
            · intro hh; exact (r.roots.rdom _ k').mp hh.2
            · intro hh; exact ⟨hk', (r.roots.rdom _ k').mpr hh⟩
          · simp only [upd_other _ _ _ _ he]; exact r.roots.rdom tier' k'
      · intro k' n' c' hg'
        show ∃ a', (p.index.set k none).get k' = some a' ∧ NodeOk n' ∧
          (ly.rchain k').headD 0 = Address.offset a' ∧
          readChain ((p.setVT (Address.size_tier a) t').vt (Address.size_tier a')) (keyTail k') (Address.offset a') =
            .ok (some (encodeNode n', false, c'))
        simp only [FMap.get_set] at hg' ⊢
        by_cases hk' : k' = k
        · subst hk'; simp at hg'
        · simp only [hk', if_false] at hg' ⊢
          obtain ⟨a', g1, g2, g3, g4⟩ := r.roots.root k' n' c' hg'
          refine ⟨a', g1, g2, g3, ?_⟩
          by_cases he : Address.size_tier a' = Address.size_tier a
          · rw [he, setVT_same]
            have hmk : k' ∈ (ly.rootKeys (Address.size_tier a)).erase k := by
              rw [List.Nodup.mem_erase_iff hknd]
              exact ⟨hk', (r.roots.rdom _ k').mpr ⟨a', g1, he⟩⟩
            have := h5 (ly.rchain k') (List.mem_append_right _ (List.mem_map.mpr ⟨k', hmk, rfl⟩)) (keyTail k')
            rw [g3] at this
            rw [this, ← he]; exact g4
          · rw [setVT_other _ _ _ _ he]; exact g4
      · intro k' hg'
        show (p.index.set k none).get k' = none
        simp only [FMap.get_set] at hg' ⊢
        by_cases hk' : k' = k
        · simp [hk']
        · simp only [hk', if_false] at hg' ⊢; exact r.roots.rootNone k' hg'

/-- `Operation::Dereference(key)` of `DereferenceChildren` on a column without `ref_counted`: the root value is removed
    (`write_remove_plan`), its slots are pushed on the free list of its tier, the index entry goes; simulated by
    `roots.set k none`. -/
theorem sim_derefRoot_plain (p : PCol) (h : Heap Key Bytes) (ly : Layout) (r : Rep p h ly) (k : Key)
    (n : Node Bytes) (c : Nat) (hrcol : p.isRc = false) (hg : h.roots.get k = some (n, c)) :
    ∃ p' a, p.index.get k = some a ∧ physDerefRoot p k = .ok (true, p') ∧
      Rep p' { h with roots := h.roots.set k none }
        { ly with
          free := upd ly.free (Address.size_tier a) ((ly.rchain k).reverse ++ ly.free (Address.size_tier a)),
          other := upd ly.other (Address.size_tier a) (((ly.rootKeys (Address.size_tier a)).erase k).map ly.rchain),
          rootKeys := upd ly.rootKeys (Address.size_tier a) ((ly.rootKeys (Address.size_tier a)).erase k) } ∧
      p'.variant = p.variant := by
  obtain ⟨t', a, ha, h1, r'⟩ := sim_removeRoot p h ly r k n c hg
  refine ⟨{ p.setVT (Address.size_tier a) t' with index := p.index.set k none }, a, ha, ?_, r', rfl⟩
  simp only [physDerefRoot, ha, hrcol, h1]
  rfl

/-! ## fuel of the physical walk -/

theorem physStep_mono (r1 r2 : PCol → List Nat → Except PErr PCol)
    (hr : ∀ p cs p', r1 p cs = .ok p' → r2 p cs = .ok p') (p : PCol) (a : Nat) (p' : PCol)
    (h : physDerefStep r1 p a = .ok p') : physDerefStep r2 p a = .ok p' := by
  unfold physDerefStep at h ⊢
  cases hd : physDecRef p a with
  | error e => rw [hd] at h; simp at h
  | ok x =>
    obtain ⟨b, p1⟩ := x
    rw [hd] at h
    cases b with
    | true => exact h
    | false =>
      simp only [] at h ⊢
      cases hk : physGetChildren p a with
      | none => rw [hk] at h; simp at h
      | some ks => rw [hk] at h; simp only [] at h ⊢; exact hr _ _ _ h

theorem physFold_mono (r1 r2 : PCol → List Nat → Except PErr PCol)
    (hr : ∀ p cs p', r1 p cs = .ok p' → r2 p cs = .ok p') :
    ∀ (cs : List Nat) (p p' : PCol), cs.foldlM (physDerefStep r1) p = .ok p' →
      cs.foldlM (physDerefStep r2) p = .ok p' := by
  intro cs
  induction cs with
  | nil => intro p p' h; exact h
  | cons a cs ih =>
    intro p p' h
    simp only [List.foldlM_cons] at h ⊢
    cases h1 : physDerefStep r1 p a with
    | error e => rw [h1] at h; simp [bind, Except.bind] at h
    | ok pm =>
      rw [h1] at h
      rw [physStep_mono r1 r2 hr p a pm h1]
      simp only [bind, Except.bind] at h ⊢
      exact ih pm p' h

theorem physDeref_mono_succ : ∀ (f : Nat) (p : PCol) (cs : List Nat) (p' : PCol),
    physDerefChildren f p cs = .ok p' → physDerefChildren (f + 1) p cs = .ok p' := by
  intro f
  induction f with
  | zero => intro p cs p' h; simp [physDerefChildren] at h
  | succ f ih =>
    intro p cs p' h
    simp only [physDerefChildren] at h ⊢
    exact physFold_mono _ _ (fun p cs p' hh => by simpa [physDerefChildren] using ih p cs p' hh) cs p p' h

/-- more fuel never changes the result of a walk that succeeded -/
theorem physDeref_mono (f f' : Nat) (hle : f ≤ f') (p : PCol) (cs : List Nat) (p' : PCol)
    (h : physDerefChildren f p cs = .ok p') : physDerefChildren f' p cs = .ok p' := by
  induction hle with
  | refl => exact h
  | step _ ih => exact physDeref_mono_succ _ p cs p' ih

/-- `NodeChange::DereferenceChildren(key, children)` on a column without `ref_counted`, whole: root entry removed, walk. -/
theorem sim_derefChange_plain (p : PCol) (h h' : Heap Key Bytes) (ly : Layout) (r : Rep p h ly) (k : Key)
    (cs : List Nat) (hv : p.variant = .plain) (hlive : (h.roots.get k).isSome)
    (hw : derefProcess .plain h k cs = .ok h')
    (hfuel : ∀ p1, physDerefRoot p k = .ok (true, p1) →
      walkFuel { h with roots := h.roots.set k none } ≤ physFuel p1 cs) :
    ∃ p' ly', physApplyNode p (.derefChildren k cs) = .ok p' ∧ Rep p' h' ly' := by
  cases hg : h.roots.get k with
  | none => rw [hg] at hlive; simp at hlive
  | some rc =>
    obtain ⟨n, c⟩ := rc
    have hrcol : p.isRc = false := by simp [PCol.isRc, hv]
    obtain ⟨p1, a, ha, hd, r1, _⟩ := sim_derefRoot_plain p h ly r k n c hrcol hg
    simp only [derefProcess, hg] at hw
    have hne : ¬ ((Variant.plain = Variant.rcRoots) ∧ c > 1) := by intro hh; exact absurd hh.1 (by decide)
    simp only [hne, if_false] at hw
    obtain ⟨p', ly', hp, r', _, _⟩ := sim_walk _ cs p1 _ h' _ r1 hw
    refine ⟨p', ly', ?_, r'⟩
    simp only [physApplyNode, ha, hd]
    exact physDeref_mono _ _ (hfuel p1 hd) p1 cs p' hp

end Pdb.MultiTreePhys
