/-
R2: the byte-level value table (Pdb/Model/ValueTable.lean, proved in C06) implements the
abstract value store of the index model (one tier: cells by slot number, fill mark, LIFO free
list): reads, allocation order, insert / replace in place / remove, and the slot invariant.
-/
import Pdb.Model.Refine
import Pdb.Props.C06

namespace Pdb.Refine
open Pdb.Gen Pdb.Index Pdb.ValueTable

/-! ## `absVT` and `readChain` -/

theorem readChain_shape (t : VT) (key : TKey) (i : Nat) :
    ∃ rest, readChain t key i =
      if isTombstone (t.slots i) then .ok none
      else if t.multipart = true ∧ ¬ isMultiHead (t.slots i) then .ok none
      else if ¬ keyMatches key (t.slots i) (keyOff t i) then .ok none else rest :=
  ⟨_, rfl⟩

/-- a successful keyed read proves that the slot stores that key tail -/
theorem readChain_partial_tail (t : VT) (tl : Bytes) (i : Nat) (x : Bytes × Bool × Nat)
    (h : readChain t (.partialKey tl) i = .ok (some x)) : tl = storedTail t i := by
  obtain ⟨rest, e⟩ := readChain_shape t (.partialKey tl) i
  rw [e] at h
  by_cases h1 : isTombstone (t.slots i)
  · rw [if_pos h1] at h; cases h
  rw [if_neg h1] at h
  by_cases h2 : t.multipart = true ∧ ¬ isMultiHead (t.slots i)
  · rw [if_pos h2] at h; cases h
  rw [if_neg h2] at h
  by_cases h3 : ¬ keyMatches (.partialKey tl) (t.slots i) (keyOff t i)
  · rw [if_pos h3] at h; cases h
  have h3' := Decidable.not_not.mp h3
  rcases h3' with h3' | h3'
  · cases h3'
  · injection h3'

theorem absVT_of_read (t : VT) (tl : Bytes) (i : Nat) (v : Bytes) (c : Bool) (n : Nat)
    (h : readChain t (.partialKey tl) i = .ok (some (v, c, n))) : absVT t i = some (tl, v, c) := by
  have e := readChain_partial_tail t tl i _ h
  subst e
  simp only [absVT, h]

theorem read_of_absVT (t : VT) (tl : Bytes) (i : Nat) (v : Bytes) (c : Bool)
    (h : absVT t i = some (tl, v, c)) :
    ∃ n, readChain t (.partialKey tl) i = .ok (some (v, c, n)) := by
  unfold absVT at h
  split at h
  · rename_i v' c' n heq
    injection h with h
    injection h with h1 h2
    injection h2 with h2 h3
    subst h1; subst h2; subst h3
    exact ⟨n, heq⟩
  · cases h

/-- `absVT` at `i` is determined by the keyed reads at `i` -/
theorem absVT_congr_read (t t' : VT) (i : Nat)
    (h : ∀ key', readChain t' key' i = readChain t key' i) : absVT t' i = absVT t i := by
  cases h1 : absVT t i with
  | some x =>
    obtain ⟨tl, v, c⟩ := x
    obtain ⟨n, hn⟩ := read_of_absVT t tl i v c h1
    rw [← h] at hn
    exact absVT_of_read t' tl i v c n hn
  | none =>
    cases h2 : absVT t' i with
    | none => rfl
    | some x =>
      obtain ⟨tl, v, c⟩ := x
      obtain ⟨n, hn⟩ := read_of_absVT t' tl i v c h2
      rw [h] at hn
      rw [absVT_of_read t tl i v c n hn] at h1
      cases h1

theorem absVT_tombstone (t : VT) (i : Nat) (h : isTombstone (t.slots i)) : absVT t i = none := by
  cases h1 : absVT t i with
  | none => rfl
  | some x =>
    obtain ⟨tl, v, c⟩ := x
    obtain ⟨n, hn⟩ := read_of_absVT t tl i v c h1
    obtain ⟨rest, e⟩ := readChain_shape t (.partialKey tl) i
    rw [e, if_pos h] at hn
    cases hn

/-- an unwritten slot holds no value -/
theorem absVT_blank (t : VT) (i : Nat) (h : t.slots i = []) : absVT t i = none := by
  cases h1 : absVT t i with
  | none => rfl
  | some x =>
    obtain ⟨tl, v, c⟩ := x
    obtain ⟨n, hn⟩ := read_of_absVT t tl i v c h1
    exfalso
    unfold readChain at hn
    simp only [h] at hn
    have e1 : ¬ isTombstone ([] : Bytes) := by decide
    have e2 : ¬ isMulti ([] : Bytes) := by decide
    have e3 : (readSize ([] : Bytes)).1 = 0 := by decide
    simp only [e1, e2, e3, if_false, and_false, decide_false, Bool.false_eq_true] at hn
    split at hn
    · cases hn
    split at hn
    · cases hn
    have e4 : SIZE_SIZE + 0 < SIZE_SIZE + refSize t + (TKey.partialKey tl).encodedSize := by
      simp only [TKey.encodedSize, PARTIAL_SIZE]; omega
    rw [if_pos e4] at hn
    cases hn

/-- in a table without multipart support a cell is a function of the configuration and of the
bytes of its own slot -/
theorem absVT_congr_single (t t' : VT) (hcfg : SameCfg t t') (hmp : t.multipart = false) (i : Nat)
    (hs : t'.slots i = t.slots i) : absVT t' i = absVT t i := by
  have hmp' : t'.multipart = false := by rw [hcfg.2.1]; exact hmp
  unfold absVT storedTail keyOff readChain refSize
  simp only [hs, hcfg.1, hcfg.2.2, hmp, hmp']
  simp

/-! ## frame: what a write to a single-slot table leaves alone -/

theorem nextFree_slots (t t1 : VT) (a : Nat) (h : nextFree t = .ok (t1, a)) : t1.slots = t.slots := by
  unfold nextFree at h
  split at h
  · simp only at h
    split at h
    · cases h
    · injection h with h; injection h with h1 _; subst h1; rfl
  · injection h with h; injection h with h1 _; subst h1; rfl

theorem allocN_slots : ∀ (n : Nat) (t t' : VT) (l : List Nat), allocN t n = .ok (t', l) →
    t'.slots = t.slots := by
  intro n
  induction n with
  | zero => intro t t' l h; simp only [allocN] at h; injection h with h; injection h with h1 _; subst h1; rfl
  | succ n ih =>
    intro t t' l h
    simp only [allocN] at h
    cases hnf : nextFree t with
    | error e => rw [hnf] at h; cases h
    | ok r =>
      obtain ⟨t1, a⟩ := r
      rw [hnf] at h
      simp only at h
      cases hal : allocN t1 n with
      | error e => rw [hal] at h; cases h
      | ok r2 =>
        obtain ⟨t2, l2⟩ := r2
        rw [hal] at h
        simp only at h
        injection h with h; injection h with h1 _; subst h1
        rw [ih t1 t2 l2 hal, nextFree_slots t t1 a hnf]

theorem oldWalk_single (t : VT) (hmp : t.multipart = false) (n : Nat) (hn : 0 < n) (at_ : Option Nat) :
    (oldWalk t n at_).2 = none := by
  cases at_ with
  | none => rfl
  | some i =>
    cases n with
    | zero => omega
    | succ m =>
      simp only [oldWalk, walk, nextPart, hmp]
      simp

/-- a write to a table without multipart support touches only the slots of the new chain -/
theorem writeChain_frame_single (t : VT) (key : TKey) (v : Bytes) (at_ : Option Nat) (c : Bool)
    (r : WrOk) (hmp : t.multipart = false) (h : writeChain t key v at_ c = .ok r) (j : Nat)
    (hj : j ∉ r.chain) : r.table.slots j = t.slots j := by
  unfold writeChain at h
  by_cases hp : writePanics t key v
  · rw [if_pos hp] at h; cases h
  rw [if_neg hp] at h
  have hw2 := oldWalk_single t hmp (chunksOf t key v).length
    (by unfold chunksOf; exact List.length_pos_iff.mpr (splitBody_ne_nil _ _ _ _)) at_
  unfold writeCore at h
  cases hal : allocN t ((chunksOf t key v).length - (oldWalk t (chunksOf t key v).length at_).1.length) with
  | error e => rw [hal] at h; cases h
  | ok r1 =>
    obtain ⟨t1, fresh⟩ := r1
    rw [hal] at h
    simp only [hw2] at h
    injection h with h
    subst h
    simp only at hj ⊢
    rw [writeParts_notin _ _ _ _ _ _ hj, allocN_slots _ _ _ _ hal]

/-! ## counting -/

theorem nodup_bounded_length (lo : Nat) : ∀ (m : Nat) (l : List Nat), l.Nodup →
    (∀ x ∈ l, lo ≤ x ∧ x < lo + m) → l.length ≤ m := by
  intro m
  induction m with
  | zero =>
    intro l _ hr
    cases l with
    | nil => simp
    | cons x r => have := hr x (by simp); omega
  | succ m ih =>
    intro l hnd hr
    have h1 := ih (l.erase (lo + m)) (hnd.erase _) (fun x hx => by
      have hx' := (List.Nodup.mem_erase_iff hnd).mp hx
      have := hr x hx'.2
      omega)
    have h2 := List.length_erase (a := lo + m) (l := l)
    split at h2 <;> omega

/-- a duplicate-free list of `f - 1` numbers of `[1, f)` contains every number of `[1, f)` -/
theorem cover_of_count (l : List Nat) (f : Nat) (hnd : l.Nodup) (hr : ∀ x ∈ l, 1 ≤ x ∧ x < f)
    (hc : l.length + 1 = f) (i : Nat) (h1 : 1 ≤ i) (h2 : i < f) : i ∈ l := by
  apply Classical.byContradiction
  intro hni
  have := nodup_bounded_length 1 (f - 1) (i :: l) (List.nodup_cons.mpr ⟨hni, hnd⟩) (fun x hx => by
    rcases List.mem_cons.mp hx with rfl | hx
    · omega
    · have := hr x hx; omega)
  simp only [List.length_cons] at this
  omega

theorem flatten_singletons (l : List Nat) : (l.map (fun a => [a])).flatten = l := by
  induction l with
  | nil => rfl
  | cons a r ih => simp [ih]

/-! ## the representation relation (single-slot tables) -/

/-- The byte-level table `t` represents the abstract store `A`; `live` lists the live slots. -/
structure RepL (t : VT) (A : AStore) (live : List Nat) : Prop where
  single : t.multipart = false
  /-- every slot reads as the abstract cell -/
  cells : ∀ i, absVT t i = A.cell i
  filled : t.filled = A.tier.filled
  /-- C06's invariant with the free list of the index model and one-slot chains -/
  inv : ValueTable.SlotInv t A.tier.free (live.map (fun a => [a]))
  liveIff : ∀ a, a ∈ live ↔ (A.cell a).isSome = true
  /-- the header slot and the slots at or above the fill mark were never written -/
  blank : ∀ i, (i = 0 ∨ t.filled ≤ i) → t.slots i = []

def Rep (t : VT) (A : AStore) : Prop := ∃ live, RepL t A live

theorem numParts_single {t : VT} {key : TKey} {v : Bytes} (hok : WriteOk t key v)
    (hmp : t.multipart = false) : numParts t key v = 1 := by
  obtain ⟨_, p0, cs, hch, _, hshape⟩ := chunksOf_shape hok
  unfold numParts
  rcases hshape with ⟨_, h⟩ | ⟨h, _⟩
  · rw [hch, h]; rfl
  · rw [hmp] at h; cases h

theorem RepL.live_nodup {t : VT} {A : AStore} {live : List Nat} (h : RepL t A live) :
    live.Nodup := by
  have := h.inv.nodup
  rw [flatten_singletons] at this
  exact (List.nodup_append.mp this).2.1

/-- The index model's slot invariant (`Index.SlotInv`, one tier), read off the byte level. -/
structure AStoreInv (A : AStore) : Prop where
  /-- free-list members and slots at or above the fill mark hold no value -/
  fresh : ∀ off, (off ∈ A.tier.free ∨ A.tier.filled ≤ off) → A.cell off = none
  /-- live slots lie below the fill mark -/
  addr : ∀ off, (A.cell off).isSome = true → 1 ≤ off ∧ off < A.tier.filled
  nodup : A.tier.free.Nodup
  range : ∀ off ∈ A.tier.free, 1 ≤ off ∧ off < A.tier.filled
  filled : 1 ≤ A.tier.filled
  /-- no leaked slot -/
  cover : ∀ off, 1 ≤ off → off < A.tier.filled → off ∈ A.tier.free ∨ (A.cell off).isSome = true

theorem RepL.storeInv {t : VT} {A : AStore} {live : List Nat} (h : RepL t A live) :
    AStoreInv A := by
  have hnd := h.inv.nodup
  have hrange := h.inv.range
  have hcount := h.inv.count
  rw [flatten_singletons] at hnd hrange hcount
  refine ⟨?_, ?_, (List.nodup_append.mp hnd).1, ?_, ?_, ?_⟩
  · intro off ho
    rw [← h.cells]
    rcases ho with ho | ho
    · exact absVT_tombstone t off (FreeChain_mem t _ _ h.inv.free off ho).2.2
    · exact absVT_blank t off (h.blank off (Or.inr (by rw [h.filled]; exact ho)))
  · intro off ho
    have := hrange off (List.mem_append_right _ ((h.liveIff off).mpr ho))
    rw [← h.filled]; exact this
  · intro off ho
    have := hrange off (List.mem_append_left _ ho)
    rw [← h.filled]; exact this
  · rw [← h.filled]; omega
  · intro off h1 h2
    have := cover_of_count (A.tier.free ++ live) t.filled hnd hrange
      (by rw [List.length_append]; exact hcount) off h1 (by rw [h.filled]; exact h2)
    rcases List.mem_append.mp this with h | h'
    · exact Or.inl h
    · exact Or.inr ((h.liveIff off).mp h')

/-- reads: a keyed read at a slot succeeds iff the abstract cell holds that tail -/
theorem RepL.read {t : VT} {A : AStore} {live : List Nat} (h : RepL t A live) (tl : Bytes)
    (i : Nat) (v : Bytes) (c : Bool) :
    (∃ n, readChain t (.partialKey tl) i = .ok (some (v, c, n))) ↔ A.cell i = some (tl, v, c) := by
  rw [← h.cells]
  constructor
  · rintro ⟨n, hn⟩; exact absVT_of_read t tl i v c n hn
  · exact read_of_absVT t tl i v c

theorem AStore.alloc_nil (A : AStore) (h : A.tier.free = []) :
    A.alloc = (A.tier.filled, { A with tier := ⟨A.tier.filled + 1, []⟩ }) := by
  simp only [AStore.alloc, h]

theorem AStore.alloc_cons (A : AStore) (o : Nat) (rest : List Nat) (h : A.tier.free = o :: rest) :
    A.alloc = (o, { A with tier := ⟨A.tier.filled, rest⟩ }) := by
  simp only [AStore.alloc, h]

/-- INSERT commutes with the abstraction: `write_insert_plan` succeeds, takes the slot the index
model's allocator takes (head of the free list, else the fill mark) and the table represents the
updated store. -/
theorem RepL.insert {t : VT} {A : AStore} {live : List Nat} (h : RepL t A live) (tl v : Bytes)
    (c : Bool) (hok : WriteOk t (.partialKey tl) v) (hb : t.filled + 1 ≤ 2 ^ 64) :
    ∃ r, writeChain t (.partialKey tl) v none c = .ok r ∧ r.addr = (A.insert (tl, v, c)).1 ∧
      RepL r.table (A.insert (tl, v, c)).2 (r.addr :: live) ∧ SameCfg t r.table := by
  have hn := numParts_single hok h.single
  have hnd := h.inv.nodup
  have hrange := h.inv.range
  have hcount := h.inv.count
  obtain ⟨r, h1, h2, h3, _, h5, h6, _, h8⟩ := writeChain_spec t (.partialKey tl) v c A.tier.free []
    (live.map (fun a => [a])) hok h.inv.free (by simpa using hnd) (by simpa using hrange)
    (by simpa using hcount) h.inv.chains (Or.inl rfl) (by rw [hn]; exact hb)
  rw [hn] at h2 h6
  have h1' : writeChain t (.partialKey tl) v none c = .ok r := h1
  have hmp' : r.table.multipart = false := by rw [h8.2.1]; exact h.single
  -- the chain is the single slot returned
  have hlen : r.chain.length = 1 := by
    rw [h2]; unfold newChain; simp only [List.take_nil]
    exact extChain_length t _ [] 1 (by simp)
  have hchain : r.chain = [r.addr] := by
    rw [h3]
    cases hc : r.chain with
    | nil => rw [hc] at hlen; cases hlen
    | cons a rest =>
      cases rest with
      | nil => rfl
      | cons b rest' => rw [hc] at hlen; simp at hlen
  have hframe : ∀ j, j ≠ r.addr → r.table.slots j = t.slots j := fun j hj =>
    writeChain_frame_single t _ v none c r h.single h1' j (by rw [hchain]; simpa using hj)
  have hcells : ∀ i, absVT r.table i = if i = r.addr then some (tl, v, c) else A.cell i := by
    intro i
    by_cases hi : i = r.addr
    · rw [if_pos hi, hi]; exact absVT_of_read r.table tl r.addr v c 1 h5
    · rw [if_neg hi, absVT_congr_single t r.table h8 h.single i (hframe i hi)]; exact h.cells i
  rw [hchain] at h6
  have haddr_range := h6.range r.addr (by simp)
  have hfl := h6.count
  rw [flatten_singletons] at hcount
  simp only [List.flatten_cons, flatten_singletons, List.length_append, List.length_cons,
    List.length_nil] at hfl
  have hlive : ∀ a, a ∈ r.addr :: live ↔
      ((if a = r.addr then some (tl, v, c) else A.cell a) : Option (Bytes × Bytes × Bool)).isSome = true := by
    intro a
    by_cases ha : a = r.addr
    · simp [ha]
    · simp only [List.mem_cons, ha, false_or, if_false]; exact h.liveIff a
  cases hF : A.tier.free with
  | nil =>
    rw [hF] at h2 h6 hfl hcount
    have ha : r.addr = t.filled := by
      rw [h3, h2]; simp [newChain, extChain]
    have hfilled : r.table.filled = t.filled + 1 := by
      simp [newFree] at hfl hcount; omega
    refine ⟨r, h1', ?_, ?_, h8⟩
    · rw [ha, h.filled]; simp only [AStore.insert, AStore.alloc_nil A hF]
    · simp only [AStore.insert, AStore.alloc_nil A hF, AStore.setCell]
      rw [← h.filled, ← ha]
      refine ⟨hmp', hcells, ?_, ?_, hlive, ?_⟩
      · simp only; rw [hfilled, ha]
      · simpa [newFree] using h6
      · intro i hi
        have hne : i ≠ r.addr := by omega
        rw [hframe i hne]
        exact h.blank i (by omega)
  | cons o rest =>
    rw [hF] at h2 h6 hfl hcount
    have ha : r.addr = o := by
      rw [h3, h2]; simp [newChain, extChain]
    have hfilled : r.table.filled = t.filled := by
      simp [newFree] at hfl hcount; omega
    refine ⟨r, h1', ?_, ?_, h8⟩
    · rw [ha]; simp only [AStore.insert, AStore.alloc_cons A o rest hF]
    · simp only [AStore.insert, AStore.alloc_cons A o rest hF, AStore.setCell]
      rw [← ha]
      refine ⟨hmp', hcells, ?_, ?_, hlive, ?_⟩
      · simp only; rw [hfilled, h.filled]
      · simpa [newFree] using h6
      · intro i hi
        have hne : i ≠ r.addr := by omega
        rw [hframe i hne]
        exact h.blank i (by omega)

/-- C06's invariant with the live slot `a` listed first -/
theorem RepL.inv_first {t : VT} {A : AStore} {live : List Nat} (h : RepL t A live) (a : Nat)
    (ha : a ∈ live) :
    ValueTable.SlotInv t A.tier.free ([a] :: (live.erase a).map (fun x => [x])) := by
  have hp : (live.map (fun x => [x])).Perm ([a] :: (live.erase a).map (fun x => [x])) := by
    have := (List.perm_cons_erase ha).map (fun x => [x])
    simpa using this
  exact SlotInv_perm t _ _ _ hp h.inv

theorem slotInv_back {t : VT} {F live : List Nat} (a : Nat) (ha : a ∈ live)
    (h : ValueTable.SlotInv t F ([a] :: (live.erase a).map (fun x => [x]))) :
    ValueTable.SlotInv t F (live.map (fun x => [x])) := by
  have hp : ([a] :: (live.erase a).map (fun x => [x])).Perm (live.map (fun x => [x])) := by
    have := ((List.perm_cons_erase ha).map (fun x => [x])).symm
    simpa using this
  exact SlotInv_perm t _ _ _ hp h

/-- REPLACE IN PLACE commutes with the abstraction: `write_replace_plan` at a live slot keeps
the address and the allocator state, the table represents the store with that cell replaced. -/
theorem RepL.replace {t : VT} {A : AStore} {live : List Nat} (h : RepL t A live) (a : Nat)
    (ha : a ∈ live) (tl v : Bytes) (c : Bool) (hok : WriteOk t (.partialKey tl) v)
    (hb : t.filled + 1 ≤ 2 ^ 64) :
    ∃ r, writeChain t (.partialKey tl) v (some a) c = .ok r ∧ r.addr = a ∧
      RepL r.table (A.replace a (tl, v, c)) live ∧ SameCfg t r.table := by
  have hn := numParts_single hok h.single
  have hinv := h.inv_first a ha
  have hnd := hinv.nodup
  have hrange := hinv.range
  have hcount := hinv.count
  rw [List.flatten_cons] at hnd hrange hcount
  rw [List.length_append] at hcount
  obtain ⟨r, h1, h2, h3, _, h5, h6, _, h8⟩ := writeChain_spec t (.partialKey tl) v c A.tier.free [a]
    ((live.erase a).map (fun x => [x])) hok hinv.free hnd hrange hcount
    (fun ch hch => hinv.chains ch (by simp [hch])) (Or.inr (hinv.chains [a] (by simp)))
    (by rw [hn]; exact hb)
  rw [hn] at h2 h6
  have h1' : writeChain t (.partialKey tl) v (some a) c = .ok r := h1
  have hmp' : r.table.multipart = false := by rw [h8.2.1]; exact h.single
  have hchain : r.chain = [a] := by rw [h2]; simp [newChain, extChain]
  have haddr : r.addr = a := by rw [h3, hchain]; rfl
  have hnf : newFree A.tier.free [a] 1 = A.tier.free := by simp [newFree]
  rw [hchain, hnf] at h6
  have hframe : ∀ j, j ≠ a → r.table.slots j = t.slots j := fun j hj =>
    writeChain_frame_single t _ v (some a) c r h.single h1' j (by rw [hchain]; simpa using hj)
  have hfl := h6.count
  rw [List.flatten_cons, List.length_append] at hfl
  have hfilled : r.table.filled = t.filled := by omega
  have harange := hrange a (by simp)
  refine ⟨r, h1', haddr, ?_, h8⟩
  simp only [AStore.replace, AStore.setCell]
  refine ⟨hmp', ?_, ?_, slotInv_back a ha h6, ?_, ?_⟩
  · intro i
    by_cases hi : i = a
    · simp only [hi, if_true]
      have := absVT_of_read r.table tl r.addr v c 1 h5
      rw [haddr] at this; exact this
    · simp only [hi, if_false]
      rw [absVT_congr_single t r.table h8 h.single i (hframe i hi)]; exact h.cells i
  · simp only; rw [hfilled, h.filled]
  · intro a'
    by_cases ha' : a' = a
    · simp [ha', ha]
    · simp only [ha', if_false]; exact h.liveIff a'
  · intro i hi
    have hne : i ≠ a := by omega
    rw [hframe i hne]
    exact h.blank i (by omega)

/-- REMOVE commutes with the abstraction: `write_remove_plan` at a live slot empties the cell
and pushes the slot on the free list. -/
theorem RepL.remove {t : VT} {A : AStore} {live : List Nat} (h : RepL t A live) (a : Nat)
    (ha : a ∈ live) (hb : t.filled ≤ 2 ^ 64) :
    ∃ t', removePlan t a = .ok (t', [a]) ∧ RepL t' (A.remove a) (live.erase a) ∧ SameCfg t t' := by
  have hinv := h.inv_first a ha
  obtain ⟨t', h1, h2, _, h4, h5⟩ := removePlan_spec t A.tier.free [a]
    ((live.erase a).map (fun x => [x])) hinv hb
  have h1' : removePlan t a = .ok (t', [a]) := h1
  have ht' : t' = clearSlot t a := by
    have : removePlan t a = .ok (clearSlot t a, [a]) := by simp [removePlan, h.single]
    rw [this] at h1'
    injection h1' with e; injection e with e _; exact e.symm
  have hframe : ∀ j, j ≠ a → t'.slots j = t.slots j := fun j hj => by
    rw [ht']; exact clearSlot_ne t a j hj
  have hmp' : t'.multipart = false := by rw [h4.2.1]; exact h.single
  have h2' : ValueTable.SlotInv t' (a :: A.tier.free) ((live.erase a).map (fun x => [x])) := by
    simpa using h2
  have harange := hinv.range a (by simp)
  have hnd := h.live_nodup
  refine ⟨t', h1', ?_, h4⟩
  simp only [AStore.remove, AStore.setCell]
  refine ⟨hmp', ?_, ?_, h2', ?_, ?_⟩
  · intro i
    by_cases hi : i = a
    · simp only [hi, if_true]
      exact absVT_tombstone t' a (FreeChain_mem t' _ _ h2'.free a (by simp)).2.2
    · simp only [hi, if_false]
      rw [absVT_congr_single t t' h4 h.single i (hframe i hi)]; exact h.cells i
  · simp only; rw [h5, h.filled]
  · intro a'
    rw [List.Nodup.mem_erase_iff hnd]
    by_cases ha' : a' = a
    · simp [ha']
    · simp only [ha', if_false, ne_eq, not_false_eq_true, true_and]; exact h.liveIff a'
  · intro i hi
    have hne : i ≠ a := by omega
    rw [hframe i hne]
    exact h.blank i (by omega)

/-- the empty table of a fixed-size tier represents the empty store -/
theorem RepL.empty (es : Nat) (rc : Bool) :
    RepL (VT.empty es false rc) ⟨fun _ => none, Tier.init⟩ [] := by
  refine ⟨rfl, fun i => absVT_blank _ i rfl, rfl, ?_, by simp, fun _ _ => rfl⟩
  refine ⟨by simp [FreeChain, VT.empty, Tier.init], by simp [Tier.init], by simp [Tier.init], by simp [VT.empty, Tier.init], by simp⟩

/-! ## chains (multipart tier): the address is the head slot, the chain is below the abstraction -/

/-- INSERT, any table: the cell at the returned head slot holds the value whatever the number of
parts; the slots come off the free list first (the allocation order of the index model, repeated
once per part); the cells at the heads of the other live chains are unchanged. -/
theorem heads_insert (t : VT) (tl v : Bytes) (c : Bool) (F : List Nat) (L : List (List Nat))
    (hok : WriteOk t (.partialKey tl) v) (hinv : ValueTable.SlotInv t F L)
    (hb : t.filled + numParts t (.partialKey tl) v ≤ 2 ^ 64) :
    ∃ r, writeChain t (.partialKey tl) v none c = .ok r ∧ r.addr = r.chain.headD 0 ∧
      r.chain = F.take (numParts t (.partialKey tl) v) ++
        List.range' t.filled (numParts t (.partialKey tl) v - F.length) ∧
      absVT r.table r.addr = some (tl, v, c) ∧
      ValueTable.SlotInv r.table (F.drop (numParts t (.partialKey tl) v)) (r.chain :: L) ∧
      ∀ ch ∈ L, absVT r.table (ch.headD 0) = absVT t (ch.headD 0) := by
  obtain ⟨r, h1, h2, h3, _, h5, h6⟩ := C06_roundtrip t (.partialKey tl) v c F L hok hinv hb
  obtain ⟨r', g1, g2, _⟩ := C06_insert_reuses_free t (.partialKey tl) v c F L hok hinv hb
  have : r' = r := by rw [h1] at g1; injection g1 with e; exact e.symm
  subst this
  exact ⟨r', h1, h3, g2, absVT_of_read _ tl _ v c 1 h2, h5,
    fun ch hch => absVT_congr_read t r'.table _ (h6 ch hch)⟩

/-- REPLACE, any table: same address (the old head), the new value whatever the old and new
chain lengths. -/
theorem heads_replace (t : VT) (tl v : Bytes) (c : Bool) (F c0 : List Nat) (Lr : List (List Nat))
    (hok : WriteOk t (.partialKey tl) v) (hinv : ValueTable.SlotInv t F (c0 :: Lr))
    (hb : t.filled + numParts t (.partialKey tl) v ≤ 2 ^ 64) :
    ∃ r, writeChain t (.partialKey tl) v (some (c0.headD 0)) c = .ok r ∧ r.addr = c0.headD 0 ∧
      absVT r.table r.addr = some (tl, v, c) ∧
      ValueTable.SlotInv r.table (newFree F c0 (numParts t (.partialKey tl) v)) (r.chain :: Lr) ∧
      ∀ ch ∈ Lr, absVT r.table (ch.headD 0) = absVT t (ch.headD 0) := by
  obtain ⟨r, h1, h2, h3, _, h5, h6⟩ := C06_replace_roundtrip t (.partialKey tl) v c F c0 Lr hok hinv hb
  exact ⟨r, h1, h2, absVT_of_read _ tl _ v c 1 h3, h5,
    fun ch hch => absVT_congr_read t r.table _ (h6 ch hch)⟩

/-- REMOVE, any table: the cell at the head becomes empty, every slot of the chain goes to the
free list (last part on top). -/
theorem heads_remove (t : VT) (F c0 : List Nat) (Lr : List (List Nat))
    (hinv : ValueTable.SlotInv t F (c0 :: Lr)) (hb : t.filled ≤ 2 ^ 64) :
    ∃ t', removePlan t (c0.headD 0) = .ok (t', c0) ∧ absVT t' (c0.headD 0) = none ∧
      ValueTable.SlotInv t' (c0.reverse ++ F) Lr ∧
      ∀ ch ∈ Lr, absVT t' (ch.headD 0) = absVT t (ch.headD 0) := by
  obtain ⟨t', h1, h2, _, h4⟩ := C06_remove_frees t F c0 Lr hinv hb
  refine ⟨t', h1, ?_, h2, fun ch hch => absVT_congr_read t t' _ (h4 ch hch)⟩
  have hne := IsChain_ne_nil t c0 (hinv.chains c0 (by simp))
  have hmem : c0.headD 0 ∈ c0.reverse ++ F := by
    cases c0 with
    | nil => exact absurd rfl hne
    | cons a r => simp
  exact absVT_tombstone t' _ (FreeChain_mem t' _ _ h2.free _ hmem).2.2

end Pdb.Refine
