/-
R2: the byte-level value table (Pdb/Model/ValueTable.lean, proved in C06) implements the
abstract value store of the index model (one tier: cells by head slot, fill mark, LIFO free
list, continuation slots of the chains).  This file: `absVT` and reads, the frame of the table
operations (M3: slots outside the written / cleared chains are untouched), what a written chain
looks like, and the representation relation `RepL` (chains).  The operations (insert / replace in
place / remove) are in Pdb/Proofs/Refine4.lean.
-/
import Pdb.Model.Refine
import Pdb.Props.C06

namespace Pdb.Refine
open Pdb.Gen Pdb.Index Pdb.ValueTable

/-! ## `absVT` and `readChain` -/

theorem readChain_shape (t : VT) (key : TKey) (i : Nat) :
    ∃ rest, readChain t key i =
      if isTombstone (t.slots i) then .ok none
      else if t.multipart = true ∧ ¬ isMultiHead (t.slots i) then .ok none
      else if ¬ keyMatches key (t.slots i) (keyOff t i) then .ok none else rest :=
  ⟨_, rfl⟩

/-- a successful keyed read proves that the slot stores that key tail -/
theorem readChain_partial_tail (t : VT) (tl : Bytes) (i : Nat) (x : Bytes × Bool × Nat)
    (h : readChain t (.partialKey tl) i = .ok (some x)) : tl = storedTail t i := by
  obtain ⟨rest, e⟩ := readChain_shape t (.partialKey tl) i
  rw [e] at h
  by_cases h1 : isTombstone (t.slots i)
  · rw [if_pos h1] at h; cases h
  rw [if_neg h1] at h
  by_cases h2 : t.multipart = true ∧ ¬ isMultiHead (t.slots i)
  · rw [if_pos h2] at h; cases h
  rw [if_neg h2] at h
  by_cases h3 : ¬ keyMatches (.partialKey tl) (t.slots i) (keyOff t i)
  · rw [if_pos h3] at h; cases h
  have h3' := Decidable.not_not.mp h3
  rcases h3' with h3' | h3'
  · cases h3'
  · injection h3'

theorem absVT_of_read (t : VT) (tl : Bytes) (i : Nat) (v : Bytes) (c : Bool) (n : Nat)
    (h : readChain t (.partialKey tl) i = .ok (some (v, c, n))) : absVT t i = some (tl, v, c) := by
  have e := readChain_partial_tail t tl i _ h
  subst e
  simp only [absVT, h]

theorem read_of_absVT (t : VT) (tl : Bytes) (i : Nat) (v : Bytes) (c : Bool)
    (h : absVT t i = some (tl, v, c)) :
    ∃ n, readChain t (.partialKey tl) i = .ok (some (v, c, n)) := by
  unfold absVT at h
  split at h
  · rename_i v' c' n heq
    injection h with h
    injection h with h1 h2
    injection h2 with h2 h3
    subst h1; subst h2; subst h3
    exact ⟨n, heq⟩
  · cases h

/-- `absVT` at `i` is determined by the keyed reads at `i` -/
theorem absVT_congr_read (t t' : VT) (i : Nat)
    (h : ∀ key', readChain t' key' i = readChain t key' i) : absVT t' i = absVT t i := by
  cases h1 : absVT t i with
  | some x =>
    obtain ⟨tl, v, c⟩ := x
    obtain ⟨n, hn⟩ := read_of_absVT t tl i v c h1
    rw [← h] at hn
    exact absVT_of_read t' tl i v c n hn
  | none =>
    cases h2 : absVT t' i with
    | none => rfl
    | some x =>
      obtain ⟨tl, v, c⟩ := x
      obtain ⟨n, hn⟩ := read_of_absVT t' tl i v c h2
      rw [h] at hn
      rw [absVT_of_read t tl i v c n hn] at h1
      cases h1

theorem absVT_tombstone (t : VT) (i : Nat) (h : isTombstone (t.slots i)) : absVT t i = none := by
  cases h1 : absVT t i with
  | none => rfl
  | some x =>
    obtain ⟨tl, v, c⟩ := x
    obtain ⟨n, hn⟩ := read_of_absVT t tl i v c h1
    obtain ⟨rest, e⟩ := readChain_shape t (.partialKey tl) i
    rw [e, if_pos h] at hn
    cases hn

/-- an unwritten slot holds no value -/
theorem absVT_blank (t : VT) (i : Nat) (h : t.slots i = []) : absVT t i = none := by
  cases h1 : absVT t i with
  | none => rfl
  | some x =>
    obtain ⟨tl, v, c⟩ := x
    obtain ⟨n, hn⟩ := read_of_absVT t tl i v c h1
    exfalso
    unfold readChain at hn
    simp only [h] at hn
    have e1 : ¬ isTombstone ([] : Bytes) := by decide
    have e2 : ¬ isMulti ([] : Bytes) := by decide
    have e3 : (readSize ([] : Bytes)).1 = 0 := by decide
    simp only [e1, e2, e3, if_false, and_false, decide_false, Bool.false_eq_true] at hn
    split at hn
    · cases hn
    split at hn
    · cases hn
    have e4 : SIZE_SIZE + 0 < SIZE_SIZE + refSize t + (TKey.partialKey tl).encodedSize := by
      simp only [TKey.encodedSize, PARTIAL_SIZE]; omega
    rw [if_pos e4] at hn
    cases hn

/-- in a table without multipart support a cell is a function of the configuration and of the
bytes of its own slot -/
theorem absVT_congr_single (t t' : VT) (hcfg : SameCfg t t') (hmp : t.multipart = false) (i : Nat)
    (hs : t'.slots i = t.slots i) : absVT t' i = absVT t i := by
  have hmp' : t'.multipart = false := by rw [hcfg.2.1]; exact hmp
  unfold absVT storedTail keyOff readChain refSize
  simp only [hs, hcfg.1, hcfg.2.2, hmp, hmp']
  simp

/-! ## frame (M3): slots outside the written / cleared chains are untouched -/

theorem nextFree_slots (t t1 : VT) (a : Nat) (h : nextFree t = .ok (t1, a)) : t1.slots = t.slots := by
  unfold nextFree at h
  split at h
  · simp only at h
    split at h
    · cases h
    · injection h with h; injection h with h1 _; subst h1; rfl
  · injection h with h; injection h with h1 _; subst h1; rfl

theorem allocN_slots : ∀ (n : Nat) (t t' : VT) (l : List Nat), allocN t n = .ok (t', l) →
    t'.slots = t.slots := by
  intro n
  induction n with
  | zero => intro t t' l h; simp only [allocN] at h; injection h with h; injection h with h1 _; subst h1; rfl
  | succ n ih =>
    intro t t' l h
    simp only [allocN] at h
    cases hnf : nextFree t with
    | error e => rw [hnf] at h; cases h
    | ok r =>
      obtain ⟨t1, a⟩ := r
      rw [hnf] at h
      simp only at h
      cases hal : allocN t1 n with
      | error e => rw [hal] at h; cases h
      | ok r2 =>
        obtain ⟨t2, l2⟩ := r2
        rw [hal] at h
        simp only at h
        injection h with h; injection h with h1 _; subst h1
        rw [ih t1 t2 l2 hal, nextFree_slots t t1 a hnf]

/-- `clear_chain` touches only the slots it clears and never moves the fill mark -/
theorem clearChain_frame : ∀ (f : Nat) (t : VT) (i : Nat) (t' : VT) (l : List Nat),
    clearChain t f i = .ok (t', l) →
    (∀ j, j ∉ l → t'.slots j = t.slots j) ∧ t'.filled = t.filled := by
  intro f
  induction f with
  | zero => intro t i t' l h; simp [clearChain] at h
  | succ f ih =>
    intro t i t' l h
    simp only [clearChain] at h
    cases hn : nextPart t i with
    | none =>
      rw [hn] at h
      simp only at h
      injection h with h
      injection h with h1 h2
      subst h1; subst h2
      exact ⟨fun j hj => clearSlot_ne t i j (by simpa using hj), rfl⟩
    | some nx =>
      rw [hn] at h
      simp only at h
      cases hc : clearChain (clearSlot t i) f nx with
      | error e => rw [hc] at h; cases h
      | ok r =>
        obtain ⟨t2, l2⟩ := r
        rw [hc] at h
        simp only at h
        injection h with h
        injection h with h1 h2
        subst h1; subst h2
        obtain ⟨g1, g2⟩ := ih _ _ _ _ hc
        refine ⟨fun j hj => ?_, by rw [g2]; rfl⟩
        simp only [List.mem_cons, not_or] at hj
        rw [g1 j hj.2]
        exact clearSlot_ne t i j hj.1

/-- `write_remove_plan` touches only the slots it returns -/
theorem removePlan_frame (t : VT) (i : Nat) (t' : VT) (l : List Nat)
    (h : removePlan t i = .ok (t', l)) : ∀ j, j ∉ l → t'.slots j = t.slots j := by
  unfold removePlan at h
  cases hmp : t.multipart
  · rw [hmp] at h
    simp only [Bool.false_eq_true, if_false] at h
    injection h with h
    injection h with h1 h2
    subst h1; subst h2
    intro j hj
    exact clearSlot_ne t i j (by simpa using hj)
  · rw [hmp] at h
    simp only [if_true] at h
    exact (clearChain_frame _ _ _ _ _ h).1

/-- `overwrite_chain`, whatever the table: only the slots of the new chain and the freed slots
of the old one are touched; the fill mark moves by exactly what neither the old chain nor the
free list could supply. -/
theorem writeChain_struct (t : VT) (key : TKey) (v : Bytes) (at_ : Option Nat) (c : Bool) (r : WrOk)
    (F : List Nat) (hF : FreeChain t t.lastRemoved F) (hpos : 0 < t.filled)
    (h : writeChain t key v at_ c = .ok r) :
    (∀ j, j ∉ r.chain → j ∉ r.freed → r.table.slots j = t.slots j) ∧
    r.table.filled = t.filled + ((chunksOf t key v).length -
      (oldWalk t (chunksOf t key v).length at_).1.length - F.length) := by
  unfold writeChain at h
  by_cases hp : writePanics t key v
  · rw [if_pos hp] at h; cases h
  rw [if_neg hp] at h
  generalize oldWalk t (chunksOf t key v).length at_ = w at h ⊢
  obtain ⟨w1, w2⟩ := w
  obtain ⟨t1, hal, hs1, _, hf1, _⟩ := allocN_spec ((chunksOf t key v).length - w1.length) t F hF hpos
  unfold writeCore at h
  simp only at h hal
  rw [hal] at h
  simp only at h
  have hwp := writeParts_cfg c t1 true (w1 ++ (F.take ((chunksOf t key v).length - w1.length) ++
    List.range' t.filled ((chunksOf t key v).length - w1.length - F.length))) (chunksOf t key v)
  cases w2 with
  | none =>
    simp only at h
    injection h with h
    subst h
    refine ⟨fun j hj _ => ?_, ?_⟩
    · simp only at hj ⊢
      rw [writeParts_notin _ _ _ _ _ _ hj, hs1]
    · simp only
      rw [hwp.2.1, hf1]
  | some nx =>
    simp only at h
    by_cases h0 : nx = 0
    · rw [if_pos h0] at h
      injection h with h
      subst h
      refine ⟨fun j hj _ => ?_, ?_⟩
      · simp only at hj ⊢
        rw [writeParts_notin _ _ _ _ _ _ hj, hs1]
      · simp only
        rw [hwp.2.1, hf1]
    · rw [if_neg h0] at h
      split at h
      · rename_i t3 freed hcl
        injection h with h
        subst h
        obtain ⟨g1, g2⟩ := clearChain_frame _ _ _ _ _ hcl
        refine ⟨fun j hj hj2 => ?_, ?_⟩
        · simp only at hj hj2 ⊢
          rw [g1 j hj2, writeParts_notin _ _ _ _ _ _ hj, hs1]
        · simp only
          rw [g2, hwp.2.1, hf1]
      · cases h

/-! ## what a written chain looks like -/

/-- the bytes of a part that is not the first one never carry a head marker -/
theorem encodePart_not_head (compressed : Bool) (c : Bytes) (nx : Option Nat)
    (hlen : nx = none → c.length < 32765) : ¬ isMultiHead (encodePart compressed false c nx) := by
  cases nx with
  | none =>
    simp only [encodePart]
    intro hh
    exact (sized_slot c compressed (hlen rfl)).2.1 (Or.inr hh)
  | some n =>
    simp only [encodePart, Bool.false_eq_true, if_false]
    have : (MULTIPART ++ leBytes INDEX_SIZE n ++ c).take SIZE_SIZE = MULTIPART := by
      rw [List.append_assoc]; exact take_marker _ _ (by decide)
    unfold isMultiHead isMultiHeadCompressed
    rw [this]
    decide

/-- in a written chain no part after the first is a chain head -/
theorem Written_tail_plain (s : VT) (compressed : Bool) (hfs : freeSpace s ≤ maxStoredLen) :
    ∀ (idxs : List Nat) (first : Bool) (chunks : List Bytes),
      Written s compressed first idxs chunks → GoodChunks (freeSpace s) (partCap s) chunks →
      ∀ j ∈ idxs.tail, ¬ isMultiHead (s.slots j) := by
  intro idxs
  induction idxs with
  | nil => intro first chunks _ _ j hj; simp at hj
  | cons i is ih =>
    intro first chunks hw hg j hj
    cases chunks with
    | nil => simp [Written] at hw
    | cons c cs =>
      simp only [Written] at hw
      simp only [List.tail_cons] at hj
      cases is with
      | nil => simp at hj
      | cons j0 js =>
        cases cs with
        | nil => simp [Written] at hw
        | cons c' cs' =>
          simp only [GoodChunks] at hg
          rcases List.mem_cons.1 hj with e | e
          · subst e
            have hw2 := hw.2
            simp only [Written] at hw2
            rw [hw2.1]
            apply encodePart_not_head
            intro hnone
            cases js with
            | cons a b => simp at hnone
            | nil =>
              cases cs' with
              | cons a b => simp [Written] at hw2
              | nil =>
                have := hg.2
                simp only [GoodChunks] at this
                have := maxStoredLen_lt
                omega
          · exact ih false (c' :: cs') hw.2 hg.2 j (by simpa using e)

/-- `writeChain_spec` (C06) also establishes that the new chain holds the encoded parts -/
theorem writeChain_written (t : VT) (key : TKey) (v : Bytes) (compressed : Bool)
    (F c0 : List Nat) (Lr : List (List Nat)) (hok : WriteOk t key v)
    (hF : FreeChain t t.lastRemoved F)
    (hnd : (F ++ (c0 ++ Lr.flatten)).Nodup)
    (hrange : ∀ i ∈ F ++ (c0 ++ Lr.flatten), 1 ≤ i ∧ i < t.filled)
    (hcount : F.length + (c0.length + Lr.flatten.length) + 1 = t.filled)
    (hchains : ∀ c ∈ Lr, IsChain t c)
    (hc0 : c0 = [] ∨ IsChain t c0)
    (hb : t.filled + numParts t key v ≤ 2 ^ 64) :
    ∃ r, writeChain t key v c0.head? compressed = .ok r ∧
      Written r.table compressed true r.chain (chunksOf t key v) := by
  obtain ⟨hes, hfs, hcap, hle, hshort, hhdr⟩ := hok.facts
  obtain ⟨hg, p0, cs, hchunks, hval, hshape⟩ := chunksOf_shape hok
  have hmp : 2 ≤ (chunksOf t key v).length → t.multipart = true := by
    intro h2
    rcases hshape with ⟨_, h⟩ | ⟨h, _⟩
    · rw [hchunks, h] at h2; simp at h2
    · exact h
  have hguard2 : ¬ (freeSpace t < (bodyOf t key v).length ∧ partCap t ≤ hdrLen t key) := by
    intro ⟨h1, h2⟩
    cases hm : t.multipart
    · have := hshort hm; omega
    · have := hhdr hm; omega
  have hwc : writeChain t key v c0.head? compressed =
      writeCore t compressed (chunksOf t key v) (c0.take (numParts t key v), c0[numParts t key v]?) := by
    unfold writeChain
    have hnp : ¬ writePanics t key v := by
      intro h
      rcases h with h | h
      · exact h hok.fits
      · exact hguard2 h
    rw [if_neg hnp, oldWalk_spec t _ c0 hc0]
    rfl
  by_cases hm : c0.length ≤ numParts t key v
  · have htake : c0.take (numParts t key v) = c0 := List.take_of_length_le hm
    have hget : c0[numParts t key v]? = none := List.getElem?_eq_none (by omega)
    obtain ⟨r, h1, h2, _, _, h5, _⟩ := writeCore_extend t compressed (chunksOf t key v)
      F c0 Lr hfs hg hmp hF hnd hrange hcount hchains hb hm
    exact ⟨r, by rw [hwc, htake, hget]; exact h1, by rw [h2]; exact h5⟩
  · have hm' : (chunksOf t key v).length < c0.length := by unfold numParts at hm; omega
    have hc0' : IsChain t c0 := by
      rcases hc0 with h | h
      · rw [h] at hm'; simp at hm'
      · exact h
    obtain ⟨r, h1, h2, _, _, h5, _⟩ := writeCore_shrink t compressed (chunksOf t key v)
      F c0 Lr hfs hg hmp hF hnd hrange hcount hchains hc0' (by omega) hm'
    exact ⟨r, by rw [hwc]; exact h1, by rw [h2]; exact h5⟩

/-- a slot of a multipart table that is not a chain head holds no value -/
theorem absVT_nonhead (t : VT) (i : Nat) (hmp : t.multipart = true) (h : ¬ isMultiHead (t.slots i)) :
    absVT t i = none := by
  cases h1 : absVT t i with
  | none => rfl
  | some x =>
    obtain ⟨tl, v, c⟩ := x
    obtain ⟨n, hn⟩ := read_of_absVT t tl i v c h1
    obtain ⟨rest, e⟩ := readChain_shape t (.partialKey tl) i
    rw [e] at hn
    by_cases ht : isTombstone (t.slots i)
    · rw [if_pos ht] at hn; cases hn
    · rw [if_neg ht, if_pos ⟨hmp, h⟩] at hn; cases hn

/-! ## counting -/

theorem nodup_bounded_length (lo : Nat) : ∀ (m : Nat) (l : List Nat), l.Nodup →
    (∀ x ∈ l, lo ≤ x ∧ x < lo + m) → l.length ≤ m := by
  intro m
  induction m with
  | zero =>
    intro l _ hr
    cases l with
    | nil => simp
    | cons x r => have := hr x (by simp); omega
  | succ m ih =>
    intro l hnd hr
    have h1 := ih (l.erase (lo + m)) (hnd.erase _) (fun x hx => by
      have hx' := (List.Nodup.mem_erase_iff hnd).mp hx
      have := hr x hx'.2
      omega)
    have h2 := List.length_erase (a := lo + m) (l := l)
    split at h2 <;> omega

/-- a duplicate-free list of `f - 1` numbers of `[1, f)` contains every number of `[1, f)` -/
theorem cover_of_count (l : List Nat) (f : Nat) (hnd : l.Nodup) (hr : ∀ x ∈ l, 1 ≤ x ∧ x < f)
    (hc : l.length + 1 = f) (i : Nat) (h1 : 1 ≤ i) (h2 : i < f) : i ∈ l := by
  apply Classical.byContradiction
  intro hni
  have := nodup_bounded_length 1 (f - 1) (i :: l) (List.nodup_cons.mpr ⟨hni, hnd⟩) (fun x hx => by
    rcases List.mem_cons.mp hx with rfl | hx
    · omega
    · have := hr x hx; omega)
  simp only [List.length_cons] at this
  omega

theorem numParts_single {t : VT} {key : TKey} {v : Bytes} (hok : WriteOk t key v)
    (hmp : t.multipart = false) : numParts t key v = 1 := by
  obtain ⟨_, p0, cs, hch, _, hshape⟩ := chunksOf_shape hok
  unfold numParts
  rcases hshape with ⟨_, h⟩ | ⟨h, _⟩
  · rw [hch, h]; rfl
  · rw [hmp] at h; cases h

/-- the number of parts depends on the configuration of the table only -/
theorem numParts_cfg (t t' : VT) (key : TKey) (v : Bytes) (h : SameCfg t t') :
    numParts t' key v = numParts t key v := by
  unfold numParts chunksOf bodyOf
  rw [h.freeSpace_eq, h.partCap_eq, h.rcBytes_eq]

/-! ## chains as lists -/

theorem chain_decomp (c : List Nat) (h : c ≠ []) : c = c.headD 0 :: c.tail := by
  cases c with
  | nil => exact absurd rfl h
  | cons a r => rfl

theorem headD_mem (c : List Nat) (h : c ≠ []) : c.headD 0 ∈ c := by
  cases c with
  | nil => exact absurd rfl h
  | cons a r => simp

theorem chainRest_of_not_mem : ∀ (l : List (Nat × List Nat)) (h : Nat), h ∉ l.map (·.1) →
    chainRest l h = [] := by
  intro l
  induction l with
  | nil => intro h _; rfl
  | cons x l ih =>
    intro h hn
    obtain ⟨h1, r1⟩ := x
    simp only [List.map_cons, List.mem_cons, not_or] at hn
    have hne : ¬ h1 = h := fun e => hn.1 e.symm
    simp only [chainRest, hne, if_false]
    exact ih h hn.2

theorem mem_ownedOf : ∀ (l : List (Nat × List Nat)), (l.map (·.1)).Nodup → ∀ x, x ∈ ownedOf l →
    ∃ h, h ∈ l.map (·.1) ∧ x ∈ chainRest l h := by
  intro l
  induction l with
  | nil => intro _ x hx; simp [ownedOf] at hx
  | cons y l ih =>
    intro hnd x hx
    obtain ⟨h1, r1⟩ := y
    simp only [List.map_cons, List.nodup_cons] at hnd
    simp only [ownedOf, List.mem_append] at hx
    rcases hx with hx | hx
    · exact ⟨h1, by simp, by simp [chainRest, hx]⟩
    · obtain ⟨h, hm, hr⟩ := ih hnd.2 x hx
      have e2 : ¬ h1 = h := fun e => hnd.1 (e ▸ hm)
      exact ⟨h, by simp [hm], by simp [chainRest, e2, hr]⟩

theorem mem_ownedOf_of_rest : ∀ (l : List (Nat × List Nat)) (h x : Nat), x ∈ chainRest l h →
    x ∈ ownedOf l := by
  intro l
  induction l with
  | nil => intro h x hx; simp [chainRest] at hx
  | cons y l ih =>
    intro h x hx
    obtain ⟨h1, r1⟩ := y
    simp only [chainRest] at hx
    simp only [ownedOf, List.mem_append]
    by_cases e : h1 = h
    · rw [if_pos e] at hx; exact Or.inl hx
    · rw [if_neg e] at hx; exact Or.inr (ih h x hx)

/-- a chain whose head is not a listed head cannot share a slot with the list: in a duplicate-free
flattening, two chains of the list with the same head are the same position -/
theorem head_not_in_others (c0 : List Nat) (Lr : List (List Nat)) (hnd : (c0 ++ Lr.flatten).Nodup)
    (hc0 : c0 ≠ []) (c : List Nat) (hc : c ∈ Lr) (hne : c ≠ []) : c.headD 0 ≠ c0.headD 0 := by
  intro e
  have h1 : c.headD 0 ∈ Lr.flatten := List.mem_flatten.mpr ⟨c, hc, headD_mem c hne⟩
  have h2 : c0.headD 0 ∈ c0 := headD_mem c0 hc0
  exact (List.nodup_append.mp hnd).2.2 _ h2 _ h1 e.symm

/-! ## the representation relation -/

/-- The byte-level table `t` represents the abstract store `A`; `L` lists the live chains (a
one-slot value is a chain of length one).
  * C06's invariant holds with the free list of the index model and `L`;
  * the cell at the head of every chain is what a keyed read of the chain returns, the recorded
    continuation slots are the rest of the chain; no cell elsewhere; no chain recorded for a slot
    that is not a live head;
  * the parts after the head are not chain heads (so a stale index entry pointing into the
    middle of a chain reads nothing);
  * the header slot and the slots at or above the fill mark were never written. -/
structure RepL (t : VT) (A : AStore) (L : List (List Nat)) : Prop where
  filled : t.filled = A.tier.filled
  inv : ValueTable.SlotInv t A.tier.free L
  parts : ∀ c ∈ L, ∀ j ∈ c.tail, t.multipart = true ∧ ¬ isMultiHead (t.slots j)
  heads : ∀ c ∈ L, absVT t (c.headD 0) = A.cell (c.headD 0) ∧ (A.cell (c.headD 0)).isSome = true ∧
    c.tail = chainRest A.tier.chains (c.headD 0)
  off : ∀ i, (∀ c ∈ L, c.headD 0 ≠ i) → A.cell i = none
  recorded : ∀ h ∈ A.tier.chains.map (·.1), ∃ c ∈ L, c.headD 0 = h
  chainsNodup : (A.tier.chains.map (·.1)).Nodup
  blank : ∀ i, (i = 0 ∨ t.filled ≤ i) → t.slots i = []

def Rep (t : VT) (A : AStore) : Prop := ∃ L, RepL t A L

theorem RepL.ne_nil {t : VT} {A : AStore} {L : List (List Nat)} (h : RepL t A L) (c : List Nat)
    (hc : c ∈ L) : c ≠ [] := IsChain_ne_nil t c (h.inv.chains c hc)

/-- every live cell is the head of a listed chain -/
theorem RepL.live {t : VT} {A : AStore} {L : List (List Nat)} (h : RepL t A L) (a : Nat)
    (ha : (A.cell a).isSome = true) : ∃ c ∈ L, c.headD 0 = a := by
  apply Classical.byContradiction
  intro hn
  have := h.off a (fun c hc e => hn ⟨c, hc, e⟩)
  rw [this] at ha; cases ha

/-- every slot reads as the abstract cell -/
theorem RepL.cells {t : VT} {A : AStore} {L : List (List Nat)} (h : RepL t A L) (i : Nat) :
    absVT t i = A.cell i := by
  by_cases hh : ∃ c ∈ L, c.headD 0 = i
  · obtain ⟨c, hc, rfl⟩ := hh
    exact (h.heads c hc).1
  · have hcell : A.cell i = none := h.off i (fun c hc e => hh ⟨c, hc, e⟩)
    rw [hcell]
    by_cases hb : i = 0 ∨ t.filled ≤ i
    · exact absVT_blank t i (h.blank i hb)
    · have hi := cover_of_count (A.tier.free ++ L.flatten) t.filled h.inv.nodup h.inv.range
        (by rw [List.length_append]; exact h.inv.count) i (by omega) (by omega)
      rcases List.mem_append.mp hi with hf | hl
      · exact absVT_tombstone t i (FreeChain_mem t _ _ h.inv.free i hf).2.2
      · obtain ⟨c, hc, hic⟩ := List.mem_flatten.mp hl
        have hdec := chain_decomp c (h.ne_nil c hc)
        rw [hdec] at hic
        rcases List.mem_cons.mp hic with e | e
        · exact absurd ⟨c, hc, e.symm⟩ hh
        · obtain ⟨hmp, hnh⟩ := h.parts c hc i e
          exact absVT_nonhead t i hmp hnh

/-- reads: a keyed read at a slot succeeds iff the abstract cell holds that tail -/
theorem RepL.read {t : VT} {A : AStore} {L : List (List Nat)} (h : RepL t A L) (tl : Bytes)
    (i : Nat) (v : Bytes) (c : Bool) :
    (∃ n, readChain t (.partialKey tl) i = .ok (some (v, c, n))) ↔ A.cell i = some (tl, v, c) := by
  rw [← h.cells]
  constructor
  · rintro ⟨n, hn⟩; exact absVT_of_read t tl i v c n hn
  · exact read_of_absVT t tl i v c

/-- the recorded continuation slots of a listed head are the rest of its chain -/
theorem RepL.chain_eq {t : VT} {A : AStore} {L : List (List Nat)} (h : RepL t A L) (c : List Nat)
    (hc : c ∈ L) : c = c.headD 0 :: chainRest A.tier.chains (c.headD 0) := by
  rw [← (h.heads c hc).2.2]; exact chain_decomp c (h.ne_nil c hc)

/-- a slot that is free or fresh has no chain recorded -/
theorem RepL.rest_of_dead {t : VT} {A : AStore} {L : List (List Nat)} (h : RepL t A L) (o : Nat)
    (ho : o ∈ A.tier.free ∨ A.tier.filled ≤ o) : chainRest A.tier.chains o = [] := by
  apply chainRest_of_not_mem
  intro hm
  obtain ⟨c, hc, e⟩ := h.recorded o hm
  have hin : o ∈ L.flatten := List.mem_flatten.mpr ⟨c, hc, e ▸ headD_mem c (h.ne_nil c hc)⟩
  rcases ho with ho | ho
  · exact (List.nodup_append.mp h.inv.nodup).2.2 o ho o hin rfl
  · have := h.inv.range o (List.mem_append_right _ hin)
    rw [h.filled] at this; omega

/-- The index model's slot invariant (`Index.SlotInv`, one tier), read off the byte level. -/
structure AStoreInv (A : AStore) : Prop where
  /-- free-list members, continuation slots and slots at or above the fill mark hold no value -/
  fresh : ∀ off, (off ∈ A.tier.free ∨ off ∈ ownedOf A.tier.chains ∨ A.tier.filled ≤ off) →
    A.cell off = none
  /-- live slots lie below the fill mark -/
  addr : ∀ off, (A.cell off).isSome = true → 1 ≤ off ∧ off < A.tier.filled
  nodup : A.tier.free.Nodup
  range : ∀ off, off ∈ A.tier.free ++ ownedOf A.tier.chains → 1 ≤ off ∧ off < A.tier.filled
  /-- no slot is both free and part of a chain -/
  disjoint : ∀ off ∈ ownedOf A.tier.chains, off ∉ A.tier.free
  filled : 1 ≤ A.tier.filled
  /-- no leaked slot -/
  cover : ∀ off, 1 ≤ off → off < A.tier.filled →
    off ∈ A.tier.free ∨ off ∈ ownedOf A.tier.chains ∨ (A.cell off).isSome = true
  /-- one chain per head, recorded only for live values -/
  heads : (A.tier.chains.map (·.1)).Nodup
  headLive : ∀ h ∈ A.tier.chains.map (·.1), (A.cell h).isSome = true

theorem RepL.storeInv {t : VT} {A : AStore} {L : List (List Nat)} (h : RepL t A L) :
    AStoreInv A := by
  have hnd := h.inv.nodup
  have hrange := h.inv.range
  have hcount := h.inv.count
  -- a continuation slot of the model is a non-head slot of a listed chain
  have hown : ∀ x, x ∈ ownedOf A.tier.chains → ∃ c ∈ L, x ∈ c.tail := by
    intro x hx
    obtain ⟨hd, hm, hr⟩ := mem_ownedOf _ h.chainsNodup x hx
    obtain ⟨c, hc, e⟩ := h.recorded hd hm
    exact ⟨c, hc, by rw [(h.heads c hc).2.2, e]; exact hr⟩
  have hownL : ∀ x, x ∈ ownedOf A.tier.chains → x ∈ L.flatten := by
    intro x hx
    obtain ⟨c, hc, hxc⟩ := hown x hx
    exact List.mem_flatten.mpr ⟨c, hc, List.mem_of_mem_tail hxc⟩
  refine ⟨?_, ?_, (List.nodup_append.mp hnd).1, ?_, ?_, ?_, ?_, h.chainsNodup, ?_⟩
  · intro off ho
    rw [← h.cells]
    rcases ho with ho | ho | ho
    · exact absVT_tombstone t off (FreeChain_mem t _ _ h.inv.free off ho).2.2
    · obtain ⟨c, hc, hxc⟩ := hown off ho
      obtain ⟨hmp, hnh⟩ := h.parts c hc off hxc
      exact absVT_nonhead t off hmp hnh
    · exact absVT_blank t off (h.blank off (Or.inr (by rw [h.filled]; exact ho)))
  · intro off ho
    obtain ⟨c, hc, e⟩ := h.live off ho
    have := hrange off (List.mem_append_right _
      (List.mem_flatten.mpr ⟨c, hc, e ▸ headD_mem c (h.ne_nil c hc)⟩))
    rw [← h.filled]; exact this
  · intro off ho
    rw [← h.filled]
    rcases List.mem_append.mp ho with ho | ho
    · exact hrange off (List.mem_append_left _ ho)
    · exact hrange off (List.mem_append_right _ (hownL off ho))
  · intro off ho hf
    exact (List.nodup_append.mp hnd).2.2 off hf off (hownL off ho) rfl
  · rw [← h.filled]; omega
  · intro off h1 h2
    have := cover_of_count (A.tier.free ++ L.flatten) t.filled hnd hrange
      (by rw [List.length_append]; exact hcount) off h1 (by rw [h.filled]; exact h2)
    rcases List.mem_append.mp this with hf | hl
    · exact Or.inl hf
    · obtain ⟨c, hc, hic⟩ := List.mem_flatten.mp hl
      rw [chain_decomp c (h.ne_nil c hc)] at hic
      rcases List.mem_cons.mp hic with e | e
      · exact Or.inr (Or.inr (by rw [e]; exact (h.heads c hc).2.1))
      · refine Or.inr (Or.inl ?_)
        rw [(h.heads c hc).2.2] at e
        exact mem_ownedOf_of_rest _ _ _ e
  · intro hd hm
    obtain ⟨c, hc, e⟩ := h.recorded hd hm
    rw [← e]; exact (h.heads c hc).2.1

/-- the empty table (fixed-size tier or the multipart table) represents the empty store -/
theorem RepL.empty (es : Nat) (mp rc : Bool) :
    RepL (VT.empty es mp rc) ⟨fun _ => none, Tier.init⟩ [] := by
  refine ⟨rfl, ?_, by simp, by simp, fun _ _ => rfl, by simp [Tier.init], by simp [Tier.init],
    fun _ _ => rfl⟩
  refine ⟨by simp [FreeChain, VT.empty, Tier.init], by simp [Tier.init], by simp [Tier.init],
    by simp [VT.empty, Tier.init], by simp⟩

end Pdb.Refine
