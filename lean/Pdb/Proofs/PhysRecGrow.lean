/-
R7 with index growth.  A record that grows the index names a table the column does not have yet.
`Db::enact_logs` VALIDATES the whole record before it applies any of it, and the validation of the
first INSERT_INDEX naming the bigger table calls `trigger_reindex` (Pdb/Model/Wal.lean, "validation
is NOT free of side effects").  So the apply pass runs on the column AFTER `trigger_reindex`:
`grow1 p`.  Growth changes the table shape but not the memory (the new table is empty, a missing
table reads as empty).
-/
import Pdb.Proofs.PhysRecRead
import Pdb.Proofs.PhysRecRc

namespace Pdb.PhysRec
open Pdb.Gen Pdb.Index Pdb.IndexPage Pdb.ValueTable Pdb.Refine

/-- `trigger_reindex` on the physical column -/
def grow1 (p : PCol) : PCol := p.withIx (triggerReindex p.ix)

theorem tables_grow1 (p : PCol) :
    PCol.tables (grow1 p) = Table.new (p.current.bits + 1) :: (p.older ++ [p.current]) := rfl

theorem shape_grow1 (p : PCol) :
    shape (grow1 p) = (p.current.bits + 1) :: (p.older.map (·.bits) ++ [p.current.bits]) := by
  simp [shape, tables_grow1, Table.new]

theorem tableByBits_none {ts : List Table} {b : Nat} (h : b ∉ ts.map (·.bits)) :
    tableByBits ts b = none := by
  cases ht : tableByBits ts b with
  | none => rfl
  | some t => exact absurd (tableByBits_some_mem ht) h

/-- with distinct index bits, the table found by its bits does not depend on the order -/
theorem tableByBits_perm (ts ts' : List Table) (hnd : (ts.map (·.bits)).Nodup)
    (hnd' : (ts'.map (·.bits)).Nodup) (hm : ∀ t, t ∈ ts ↔ t ∈ ts') (b : Nat) :
    tableByBits ts b = tableByBits ts' b := by
  by_cases hb : b ∈ ts.map (·.bits)
  · obtain ⟨t, ht, rfl⟩ := List.mem_map.1 hb
    rw [tableByBits_nodup ts hnd t ht, tableByBits_nodup ts' hnd' t ((hm t).1 ht)]
  · have hb' : b ∉ ts'.map (·.bits) := by
      intro h
      obtain ⟨t, ht, e⟩ := List.mem_map.1 h
      exact hb (List.mem_map.2 ⟨t, (hm t).2 ht, e⟩)
    rw [tableByBits_none hb, tableByBits_none hb']

/-- GROWTH DOES NOT CHANGE THE MEMORY (distinct index bits after the growth). -/
theorem mem_grow1 (p : PCol) (hnd : (shape (grow1 p)).Nodup) (l : Loc) : mem (grow1 p) l = mem p l := by
  cases l with
  | val tier s => rfl
  | hdr tier => rfl
  | idx b c i =>
    rw [shape_grow1] at hnd
    have hnew : p.current.bits + 1 ∉ p.older.map (·.bits) ++ [p.current.bits] := (List.nodup_cons.1 hnd).1
    have hnd2 : ((p.older ++ [p.current]).map (·.bits)).Nodup := by
      simpa using (List.nodup_cons.1 hnd).2
    have hnd3 : ((PCol.tables p).map (·.bits)).Nodup := by
      have hp : ((p.older ++ [p.current]).map (·.bits)).Perm ((PCol.tables p).map (·.bits)) := by
        simp only [PCol.tables, List.map_append, List.map_cons, List.map_nil]
        exact List.perm_append_comm
      exact hp.nodup_iff.1 hnd2
    simp only [mem, tables_grow1, tableByBits]
    by_cases hb : (Table.new (p.current.bits + 1)).bits = b
    · rw [if_pos hb]
      have hb' : b = p.current.bits + 1 := hb.symm
      have : b ∉ (PCol.tables p).map (·.bits) := by
        rw [hb']
        intro h
        apply hnew
        simp only [PCol.tables, List.map_cons, List.mem_cons] at h
        simp only [List.mem_append, List.mem_cons, List.not_mem_nil, or_false]
        rcases h with h | h
        · omega
        · exact Or.inl h
      rw [tableByBits_none this]
      have := emptyPage_getD i
      simp only [List.getD_eq_getElem?_getD] at this
      simp [Table.page, Table.new, Trie.empty, Trie.get, alGet, entryAt, this]
    · rw [if_neg hb]
      rw [tableByBits_perm (p.older ++ [p.current]) (PCol.tables p) hnd2 hnd3
        (fun t => by simp [PCol.tables, or_comm]) b]

/-- the diff record is enacted without skips in any column that has the tables of both states -/
theorem diff_ok' (T : List (Nat × Nat)) (p p' : PCol) (S : List Nat)
    (h1 : ∀ b ∈ shape p, b ∈ S) (h2 : ∀ b ∈ shape p', b ∈ S) (w : Write)
    (h : w ∈ diffWrites (cands T p p') (mem p) (mem p')) : Write.Ok S w := by
  obtain ⟨hc, hv⟩ := mem_diffWrites h
  obtain ⟨wl, wi⟩ := w
  simp only at hc hv
  subst hv
  cases wl with
  | idx b c i =>
    rw [idx_mem_cands] at hc
    refine ⟨?_, hc.2.2, ?_⟩
    · rcases hc.1 with h | h
      · exact h1 b h
      · exact h2 b h
    · simp only [mem]
      split <;> exact ⟨_, rfl⟩
  | val tier s => trivial
  | hdr tier => exact ⟨_, _, rfl⟩

/-- R7_full, general form: the record of a framed step from `p` to `p'`, applied to any column `q`
that has the tables of `p'` (which include those of `p`) and reads like `p`, gives a column that
reads like `p'`. -/
theorem full_mem_shape (T : List (Nat × Nat)) (p p' q : PCol) (hf : VFrame T p p')
    (hsub : ∀ b ∈ shape p, b ∈ shape p') (hqs : shape q = shape p')
    (hqm : ∀ l, Loc.Ok l → mem q l = mem p l) :
    (∀ l, Loc.Ok l → mem (applyWrites q (recOf T p p')) l = mem p' l) ∧
      Static q (applyWrites q (recOf T p p')) := by
  have hok : ∀ w ∈ recOf T p p', Write.Ok (shape q) w := by
    rw [hqs]; exact fun w hw => diff_ok' T p p' _ hsub (fun _ h => h) w hw
  obtain ⟨hm, hst⟩ := mem_applyWrites _ q hok
  refine ⟨fun l hl => ?_, hst⟩
  rw [hm l hl, mapplys_congr _ _ (mem p) l (hqm l hl)]
  unfold recOf
  rw [mapplys_diff_self]
  split
  · rfl
  · rename_i hn
    exact (frame_of_vframe T p p' hf l hl hn).symm

end Pdb.PhysRec
