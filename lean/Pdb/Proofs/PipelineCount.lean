/-
The mathematical reference counter of C07 and its agreement with the saturating model
counter below the saturation bound.
-/
import Pdb.Proofs.PipelineRc

set_option linter.unusedSectionVars false
set_option linter.unusedSimpArgs false
namespace Pdb
variable {K V : Type} [DecidableEq K]

/-- C07's counter: starts at zero, raised by every set and by every reference to a present
    key, lowered by every dereference of a present key, ignores reference / dereference of
    absent keys. -/
def countStep (k : K) (n : Nat) (op : Op K V) : Nat :=
  if op.key = k then
    match op with
    | .set _ _ => n + 1
    | .ref _ => if n = 0 then 0 else n + 1
    | .deref _ => n - 1
  else n

def countOf (ops : List (Op K V)) (k : K) : Nat := ops.foldl (countStep k) 0

def cnt (c : Cell V) : Nat := (c.map Prod.snd).getD 0

theorem countStep_le (k : K) (n : Nat) (op : Op K V) : countStep k n op ≤ n + 1 := by
  unfold countStep
  split
  · cases op <;> simp <;> (try split) <;> omega
  · omega

theorem applyCell_cnt (op : Op K V) (c : Cell V)
    (hpos : ∀ v n, c = some (v, n) → 1 ≤ n) (hb : cnt c + 1 < LOCKED) :
    cnt (applyCell .rc op c) =
      match op with
      | .set _ _ => cnt c + 1
      | .ref _ => if cnt c = 0 then 0 else cnt c + 1
      | .deref _ => cnt c - 1 := by
  cases c with
  | none => cases op <;> simp [applyCell, cnt]
  | some c =>
    obtain ⟨v0, n0⟩ := c
    simp only [cnt, Option.map_some, Option.getD_some] at hb
    have h1 := hpos v0 n0 rfl
    have hi : incRc n0 = n0 + 1 := by unfold incRc; split <;> omega
    have h0 : n0 ≠ 0 := by omega
    have hl : n0 ≠ LOCKED := by omega
    cases op with
    | set k v => simp [applyCell, cnt, hi]
    | ref k => simp [applyCell, cnt, hi, h0]
    | deref k =>
      simp only [applyCell, hl, if_false]
      by_cases h2 : n0 ≤ 1
      · have : n0 = 1 := by omega
        simp [h2, cnt, this]
      · simp [h2, cnt]

theorem applyOp_cnt (kind : K → Kind) (t : Tbl K V) (op : Op K V) (k : K) (hk : kind k = .rc)
    (hpos : ∀ v n, t k = some (v, n) → 1 ≤ n) (hb : cnt (t k) + 1 < LOCKED) :
    cnt (applyOp kind t op k) = countStep k (cnt (t k)) op := by
  unfold applyOp countStep
  by_cases hkk : op.key = k
  · subst hkk
    simp only [upd_same, if_true]
    rw [hk, applyCell_cnt op (t op.key) hpos hb]
  · have : k ≠ op.key := fun e => hkk e.symm
    simp [upd_other _ _ _ _ this, hkk]

theorem applyOps_cnt (valueOf : K → V) (kind : K → Kind) (ops : List (Op K V)) (t : Tbl K V)
    (k : K) (hk : kind k = .rc) (ht : TblOk valueOf kind t)
    (hc : OpsContract valueOf kind ops) (hb : cnt (t k) + ops.length + 1 < LOCKED) :
    cnt (applyOps kind t ops k) = ops.foldl (countStep k) (cnt (t k)) := by
  induction ops generalizing t with
  | nil => rfl
  | cons op ops ih =>
    have e : applyOps kind t (op :: ops) = applyOps kind (applyOp kind t op) ops := rfl
    simp only [List.length_cons] at hb
    have hstep := applyOp_cnt kind t op k hk (fun v n h => (ht k v n h).2) (by omega)
    have hle := countStep_le k (cnt (t k)) op
    rw [e, List.foldl_cons, ← hstep]
    apply ih
    · exact applyOp_ok valueOf kind t op ht (fun k' v hm hk' => hc k' v (by
        simp only [List.mem_singleton] at hm; simp [hm]) hk')
    · exact fun k' v hm hk' => hc k' v (List.mem_cons_of_mem _ hm) hk'
    · rw [hstep]; omega

/-- Below the saturation bound the model's stored count is C07's mathematical count. -/
theorem spec_count (valueOf : K → V) (kind : K → Kind) (txs : List (List (Op K V))) (k : K)
    (hk : kind k = .rc) (hc : Contract valueOf kind txs) (hb : txs.flatten.length + 1 < LOCKED) :
    cnt (spec kind txs k) = countOf txs.flatten k := by
  unfold spec countOf
  have := applyOps_cnt valueOf kind txs.flatten (fun _ => none) k hk
    (by intro k v n h; simp at h) hc (by simpa [cnt] using hb)
  simpa [cnt] using this

end Pdb
