/-
C06 helper lemmas, part 3: chains of parts.  Read-after-write over an arbitrary list of distinct
slots (induction over the chain, no enumeration), allocation from the free list, clearing.
-/
import Pdb.Proofs.C06Codec

namespace Pdb.ValueTable
open Pdb.Gen

/-! ## slots -/

@[simp] theorem setSlot_same (t : VT) (i : Nat) (b : Bytes) : (t.setSlot i b).slots i = b := by
  simp [VT.setSlot]

theorem setSlot_ne (t : VT) (i j : Nat) (b : Bytes) (h : j ≠ i) :
    (t.setSlot i b).slots j = t.slots j := by
  simp [VT.setSlot, h]

@[simp] theorem setSlot_entrySize (t : VT) (i : Nat) (b : Bytes) : (t.setSlot i b).entrySize = t.entrySize := rfl
@[simp] theorem setSlot_multipart (t : VT) (i : Nat) (b : Bytes) : (t.setSlot i b).multipart = t.multipart := rfl
@[simp] theorem setSlot_refCounted (t : VT) (i : Nat) (b : Bytes) : (t.setSlot i b).refCounted = t.refCounted := rfl
@[simp] theorem setSlot_filled (t : VT) (i : Nat) (b : Bytes) : (t.setSlot i b).filled = t.filled := rfl
@[simp] theorem setSlot_lastRemoved (t : VT) (i : Nat) (b : Bytes) : (t.setSlot i b).lastRemoved = t.lastRemoved := rfl

/-- same configuration (entry size, multipart, ref counted) -/
def SameCfg (t t' : VT) : Prop :=
  t'.entrySize = t.entrySize ∧ t'.multipart = t.multipart ∧ t'.refCounted = t.refCounted

instance (t t' : VT) : Decidable (SameCfg t t') := by unfold SameCfg; infer_instance

theorem SameCfg.refl (t : VT) : SameCfg t t := ⟨rfl, rfl, rfl⟩
theorem SameCfg.trans {a b c : VT} (h1 : SameCfg a b) (h2 : SameCfg b c) : SameCfg a c :=
  ⟨h2.1.trans h1.1, h2.2.1.trans h1.2.1, h2.2.2.trans h1.2.2⟩

theorem SameCfg.freeSpace_eq {t t' : VT} (h : SameCfg t t') : freeSpace t' = freeSpace t := by
  simp [freeSpace, h.1]
theorem SameCfg.partCap_eq {t t' : VT} (h : SameCfg t t') : partCap t' = partCap t := by
  simp [partCap, h.freeSpace_eq]
theorem SameCfg.refSize_eq {t t' : VT} (h : SameCfg t t') : refSize t' = refSize t := by
  simp [refSize, h.2.2]
theorem SameCfg.rcBytes_eq {t t' : VT} (h : SameCfg t t') : rcBytes t' = rcBytes t := by
  simp [rcBytes, h.2.2]

/-! ## markers at the front of a slot -/

theorem take_marker (m x : Bytes) (h : m.length = SIZE_SIZE) : (m ++ x).take SIZE_SIZE = m :=
  List.take_left' h

theorem take_sizeBytes (n : Nat) (c : Bool) (x : Bytes) :
    (sizeBytes n c ++ x).take SIZE_SIZE = sizeBytes n c := take_marker _ _ (sizeBytes_length n c)

theorem headMarker_length (c : Bool) : (headMarker c).length = SIZE_SIZE := by
  cases c <;> decide

/-! ## splitBody -/

/-- every part but the last has exactly `cap` bytes, the last at most `fs` -/
def GoodChunks (fs cap : Nat) : List Bytes → Prop
  | [] => False
  | [c] => c.length ≤ fs
  | c :: c' :: r => c.length = cap ∧ GoodChunks fs cap (c' :: r)

theorem splitBody_flatten (fs cap fuel : Nat) (body : Bytes) :
    (splitBody fs cap fuel body).flatten = body := by
  induction fuel generalizing body with
  | zero => simp [splitBody]
  | succ f ih =>
    unfold splitBody
    split
    · simp [ih]
    · simp

theorem splitBody_ne_nil (fs cap fuel : Nat) (body : Bytes) : splitBody fs cap fuel body ≠ [] := by
  cases fuel with
  | zero => simp [splitBody]
  | succ f => unfold splitBody; split <;> simp

theorem splitBody_short (fs cap fuel : Nat) (body : Bytes) (h : body.length ≤ fs) :
    splitBody fs cap fuel body = [body] := by
  cases fuel with
  | zero => rfl
  | succ f => unfold splitBody; rw [if_neg (by omega)]

theorem splitBody_good (fs cap : Nat) (_hcap : 0 < cap) (hle : cap ≤ fs) (fuel : Nat) (body : Bytes)
    (hf : body.length ≤ fs + fuel * cap) : GoodChunks fs cap (splitBody fs cap fuel body) := by
  induction fuel generalizing body with
  | zero => simp at hf; simp [splitBody, GoodChunks, hf]
  | succ f ih =>
    unfold splitBody
    split
    · rename_i hlong
      have hrest := ih (body.drop cap) (by
        simp only [List.length_drop]
        rw [Nat.succ_mul] at hf; omega)
      have hne := splitBody_ne_nil fs cap f (body.drop cap)
      cases hs : splitBody fs cap f (body.drop cap) with
      | nil => exact absurd hs hne
      | cons c' r =>
        rw [hs] at hrest
        refine ⟨?_, hrest⟩
        simp only [List.length_take]; omega
    · simp only [GoodChunks]; omega

theorem splitBody_long (fs cap fuel : Nat) (body : Bytes) (h : fs < body.length) :
    ∃ r, splitBody fs cap (fuel + 1) body = body.take cap :: r ∧ r ≠ [] := by
  refine ⟨splitBody fs cap fuel (body.drop cap), ?_, splitBody_ne_nil _ _ _ _⟩
  rw [splitBody, if_pos h]

/-! ## written chains -/

/-- slot `idxs[j]` holds the encoding of `chunks[j]` linking to `idxs[j+1]` -/
def Written (s : VT) (compressed : Bool) : Bool → List Nat → List Bytes → Prop
  | first, i :: is, c :: cs =>
    s.slots i = encodePart compressed first c is.head? ∧ Written s compressed false is cs
  | _, [], [] => True
  | _, _, _ => False

theorem Written_length (s : VT) (compressed : Bool) : ∀ (is : List Nat) (first : Bool)
    (ch : List Bytes), Written s compressed first is ch → is.length = ch.length := by
  intro is
  induction is with
  | nil => intro first ch h; cases ch <;> simp_all [Written]
  | cons a as iha =>
    intro first ch h
    cases ch with
    | nil => simp [Written] at h
    | cons b bs => simp only [Written] at h; simp [iha false bs h.2]

theorem Written_congr (s s' : VT) (compressed : Bool) (first : Bool) (idxs : List Nat)
    (chunks : List Bytes) (h : ∀ i ∈ idxs, s'.slots i = s.slots i)
    (hw : Written s compressed first idxs chunks) : Written s' compressed first idxs chunks := by
  induction idxs generalizing first chunks with
  | nil => cases chunks <;> simp_all [Written]
  | cons i is ih =>
    cases chunks with
    | nil => simp [Written] at hw
    | cons c cs =>
      simp only [Written] at hw ⊢
      refine ⟨by rw [h i (by simp)]; exact hw.1, ih false cs (fun j hj => h j (by simp [hj])) hw.2⟩

theorem writeParts_notin (compressed : Bool) (t : VT) (first : Bool) (idxs : List Nat)
    (chunks : List Bytes) (j : Nat) (hj : j ∉ idxs) :
    (writeParts compressed t first idxs chunks).slots j = t.slots j := by
  induction idxs generalizing t first chunks with
  | nil => cases chunks <;> simp [writeParts]
  | cons i is ih =>
    cases chunks with
    | nil => simp [writeParts]
    | cons c cs =>
      simp only [writeParts]
      rw [ih _ _ _ (by simp at hj; exact hj.2)]
      exact setSlot_ne _ _ _ _ (by simp at hj; exact hj.1)

theorem writeParts_cfg (compressed : Bool) (t : VT) (first : Bool) (idxs : List Nat)
    (chunks : List Bytes) :
    SameCfg t (writeParts compressed t first idxs chunks) ∧
    (writeParts compressed t first idxs chunks).filled = t.filled ∧
    (writeParts compressed t first idxs chunks).lastRemoved = t.lastRemoved := by
  induction idxs generalizing t first chunks with
  | nil => cases chunks <;> simp [writeParts, SameCfg.refl]
  | cons i is ih =>
    cases chunks with
    | nil => simp [writeParts, SameCfg.refl]
    | cons c cs =>
      simp only [writeParts]
      obtain ⟨h1, h2, h3⟩ := ih (t.setSlot i (encodePart compressed first c is.head?)) false cs
      exact ⟨SameCfg.trans ⟨rfl, rfl, rfl⟩ h1, by simp [h2], by simp [h3]⟩

theorem writeParts_written (compressed : Bool) (t : VT) (first : Bool) (idxs : List Nat)
    (chunks : List Bytes) (hnd : idxs.Nodup) (hlen : idxs.length = chunks.length) :
    Written (writeParts compressed t first idxs chunks) compressed first idxs chunks := by
  induction idxs generalizing t first chunks with
  | nil => cases chunks <;> simp_all [Written]
  | cons i is ih =>
    cases chunks with
    | nil => simp at hlen
    | cons c cs =>
      simp only [writeParts, Written]
      rw [List.nodup_cons] at hnd
      refine ⟨?_, ih _ false cs hnd.2 (by simpa using hlen)⟩
      rw [writeParts_notin _ _ _ _ _ _ hnd.1]
      simp

/-! ## decoding one slot -/

theorem pow_index : (256 : Nat) ^ INDEX_SIZE = 2 ^ 64 := by decide

theorem multi_slot (m : Bytes) (hm : m.length = SIZE_SIZE) (nx : Nat) (hnx : nx < 2 ^ 64)
    (c : Bytes) :
    (m ++ leBytes INDEX_SIZE nx ++ c).take SIZE_SIZE = m ∧
    linkOf (m ++ leBytes INDEX_SIZE nx ++ c) = nx ∧
    (m ++ leBytes INDEX_SIZE nx ++ c).drop (SIZE_SIZE + INDEX_SIZE) = c := by
  refine ⟨?_, ?_, ?_⟩
  · rw [List.append_assoc]; exact List.take_left' hm
  · unfold linkOf
    rw [List.append_assoc, List.drop_left' hm, List.take_left' (leBytes_length _ _)]
    exact fromLe_leBytes _ _ (by rw [pow_index]; exact hnx)
  · exact List.drop_left' (by simp [hm])

theorem sized_slot (c : Bytes) (compressed : Bool) (hlen : c.length < 32765) :
    ¬ isTombstone (sizeBytes c.length compressed ++ c) ∧
    ¬ isMulti (sizeBytes c.length compressed ++ c) ∧
    readSize (sizeBytes c.length compressed ++ c) = (c.length, compressed) ∧
    (sizeBytes c.length compressed ++ c).drop SIZE_SIZE = c := by
  have hn := sizeBytes_not_marker c.length compressed hlen
  refine ⟨?_, ?_, readSize_sizeBytes _ _ (by omega) _, List.drop_left' (sizeBytes_length _ _)⟩
  · unfold isTombstone; rw [take_sizeBytes]; exact hn.1
  · unfold isMulti isMultipart isMultiHead isMultiHeadCompressed
    rw [take_sizeBytes]
    intro h
    rcases h with h | h | h
    · exact hn.2.1 h
    · exact hn.2.2.2 h
    · exact hn.2.2.1 h

theorem sized_nextPart (s : VT) (i : Nat) (c : Bytes) (compressed : Bool) (hlen : c.length < 32765)
    (h : s.slots i = sizeBytes c.length compressed ++ c) : nextPart s i = none := by
  unfold nextPart
  rw [h, if_neg]
  intro hh
  exact (sized_slot c compressed hlen).2.1 hh.2

theorem multipart_marker_facts :
    ¬ isTombstone MULTIPART ∧ isMulti MULTIPART ∧ ¬ isMultiHead MULTIPART := by decide

/-! ## reading the parts after the head -/

theorem partCap_eq (s : VT) : partCap s = s.entrySize - (SIZE_SIZE + INDEX_SIZE) := by
  unfold partCap freeSpace; exact Nat.sub_sub _ _ _

theorem readRest_written (s : VT) (compressed : Bool) (hmp : s.multipart = true)
    (hfs : freeSpace s ≤ maxStoredLen) :
    ∀ (idxs : List Nat) (chunks : List Bytes) (fuel : Nat) (i : Nat),
      Written s compressed false (i :: idxs) chunks →
      GoodChunks (freeSpace s) (partCap s) chunks →
      (∀ j ∈ idxs, j ≠ 0 ∧ j < 2 ^ 64) → idxs.length < fuel →
      readRest s fuel i = .ok (some chunks.flatten) := by
  intro idxs
  induction idxs with
  | nil =>
    intro chunks fuel i hw hg _ hfuel
    cases chunks with
    | nil => simp [Written] at hw
    | cons c cs =>
      cases cs with
      | cons c' cs' => simp [Written] at hw
      | nil =>
        simp only [Written, List.head?_nil, encodePart] at hw
        simp only [GoodChunks] at hg
        have hl : c.length < 32765 := by have := maxStoredLen_lt; omega
        obtain ⟨h1, h2, h3, h4⟩ := sized_slot c compressed hl
        cases fuel with
        | zero => omega
        | succ f =>
          simp only [readRest, hw.1]
          rw [if_neg h1, if_neg (fun h => h2 h.2), h3, h4]
          simp
  | cons j js ih =>
    intro chunks fuel i hw hg hj hfuel
    cases chunks with
    | nil => simp [Written] at hw
    | cons c cs =>
      cases cs with
      | nil => simp [Written] at hw
      | cons c' cs' =>
        simp only [Written, List.head?_cons, encodePart] at hw
        simp only [GoodChunks] at hg
        have hjj := hj j (by simp)
        obtain ⟨m1, m2, m3⟩ := multi_slot MULTIPART (by decide) j hjj.2 c
        cases fuel with
        | zero => omega
        | succ f =>
          have hrec := ih (c' :: cs') f j hw.2 hg.2 (fun x hx => hj x (by simp [hx]))
            (by simp at hfuel; omega)
          simp only [readRest, hw.1, Bool.false_eq_true, if_false]
          have ht : ¬ isTombstone (MULTIPART ++ leBytes INDEX_SIZE j ++ c) := by
            unfold isTombstone; rw [m1]; decide
          have hm : isMulti (MULTIPART ++ leBytes INDEX_SIZE j ++ c) := by
            unfold isMulti isMultipart; rw [m1]; exact Or.inl rfl
          rw [if_neg ht, if_pos ⟨hmp, hm⟩, m2, if_neg hjj.1, hrec, m3]
          have : c.length = s.entrySize - (SIZE_SIZE + INDEX_SIZE) := by rw [← partCap_eq]; exact hg.1
          rw [← this, List.take_length]
          simp

/-! ## reading the head -/

theorem rcBytes_length (s : VT) : (rcBytes s).length = refSize s := by
  unfold rcBytes refSize; split <;> simp

theorem hdr_parse (s : VT) (key : TKey) (hk : key.Ok) (b : Bytes) (off0 : Nat) (p0 : Bytes)
    (h : b.drop off0 = rcBytes s ++ key.bytes ++ p0) :
    (if s.refCounted = true then fromLe ((b.drop off0).take REFS_SIZE) else 1) = 1 ∧
    keyMatches key b (off0 + refSize s) ∧
    b.drop (off0 + refSize s + key.encodedSize) = p0 := by
  have h1 : b.drop (off0 + refSize s) = key.bytes ++ p0 := by
    rw [← List.drop_drop, h, List.append_assoc, List.drop_left' (rcBytes_length s)]
  refine ⟨?_, ?_, ?_⟩
  · split
    · rename_i hrc
      rw [h]
      have : rcBytes s = leBytes REFS_SIZE 1 := by simp [rcBytes, hrc]
      rw [this, List.append_assoc, List.take_left' (leBytes_length _ _)]
      exact fromLe_leBytes _ _ (by decide)
    · rfl
  · unfold keyMatches
    cases key with
    | noHash => exact Or.inl rfl
    | partialKey tail =>
      right
      rw [h1]
      have : tail.length = PARTIAL_SIZE := hk
      simp only [TKey.bytes]
      rw [List.take_left' this]
  · rw [← List.drop_drop, h1]
    exact List.drop_left' hk

theorem headMarker_facts (c : Bool) :
    ¬ isTombstone (headMarker c) ∧ isMulti (headMarker c) ∧ isMultiHead (headMarker c) ∧
      (isMultiHeadCompressed (headMarker c) ↔ c = true) := by
  cases c <;> decide

theorem marker_take_self (m : Bytes) (h : m.length = SIZE_SIZE) : m.take SIZE_SIZE = m :=
  List.take_of_length_le (by omega)

/-- Read-after-write for a whole chain whose slots hold the encoded parts. -/
theorem readChain_written (s : VT) (key : TKey) (compressed : Bool) (hk : key.Ok)
    (hfs : freeSpace s ≤ maxStoredLen) (hes : SIZE_SIZE + INDEX_SIZE ≤ s.entrySize)
    (i : Nat) (idxs : List Nat) (c0 p0 : Bytes) (cs : List Bytes)
    (hw : Written s compressed true (i :: idxs) (c0 :: cs))
    (hg : GoodChunks (freeSpace s) (partCap s) (c0 :: cs))
    (hc0 : c0 = rcBytes s ++ key.bytes ++ p0)
    (hidx : ∀ j ∈ idxs, j ≠ 0 ∧ j < 2 ^ 64)
    (hfuel : idxs.length ≤ s.filled)
    (hshape : (s.multipart = true ∧ idxs ≠ []) ∨ (s.multipart = false ∧ idxs = [])) :
    readChain s key i = .ok (some (p0 ++ cs.flatten, compressed, 1)) := by
  cases idxs with
  | nil =>
    have hmp : s.multipart = false := by
      rcases hshape with h | h
      · exact absurd rfl h.2
      · exact h.1
    cases cs with
    | cons c' cs' => simp [Written] at hw
    | nil =>
      simp only [Written, List.head?_nil, encodePart] at hw
      simp only [GoodChunks] at hg
      have hl : c0.length < 32765 := by have := maxStoredLen_lt; omega
      obtain ⟨h1, _, h3, h4⟩ := sized_slot c0 compressed hl
      obtain ⟨r1, r2, r3⟩ := hdr_parse s key hk (sizeBytes c0.length compressed ++ c0) SIZE_SIZE p0
        (by rw [h4]; exact hc0)
      have hlen : c0.length = refSize s + key.encodedSize + p0.length := by
        rw [hc0]; simp [rcBytes_length, hk.symm]; omega
      unfold readChain
      simp only [hw.1, hmp, Bool.false_eq_true, false_and, decide_false, if_false]
      rw [if_neg h1, h3]
      rw [if_neg (fun h => h r2), if_neg (by omega), r3]
      have : SIZE_SIZE + c0.length - (SIZE_SIZE + refSize s + key.encodedSize) = p0.length := by omega
      rw [this, List.take_length]
      cases hrc : s.refCounted
      · simp
      · rw [hrc] at r1; simp at r1; simp [r1]
  | cons j js =>
    have hmp : s.multipart = true := by
      rcases hshape with h | h
      · exact h.1
      · exact absurd h.2 (by simp)
    cases cs with
    | nil => simp [Written] at hw
    | cons c' cs' =>
      simp only [Written, List.head?_cons, encodePart, if_true] at hw
      simp only [GoodChunks] at hg
      have hjj := hidx j (by simp)
      obtain ⟨m1, m2, m3⟩ := multi_slot (headMarker compressed) (headMarker_length _) j hjj.2 c0
      obtain ⟨f1, f2, f3, f4⟩ := headMarker_facts compressed
      obtain ⟨r1, r2, r3⟩ := hdr_parse s key hk (headMarker compressed ++ leBytes INDEX_SIZE j ++ c0)
        (SIZE_SIZE + INDEX_SIZE) p0 (by rw [m3]; exact hc0)
      have hlen : c0.length = refSize s + key.encodedSize + p0.length := by
        rw [hc0]; simp [rcBytes_length, hk.symm]; omega
      have hrest := readRest_written s compressed hmp hfs js (c' :: cs') s.filled j hw.2 hg.2
        (fun x hx => hidx x (by simp [hx])) (by simp at hfuel; omega)
      have ht : ¬ isTombstone (headMarker compressed ++ leBytes INDEX_SIZE j ++ c0) := by
        unfold isTombstone; rw [m1]
        have := f1; unfold isTombstone at this; rwa [marker_take_self _ (headMarker_length _)] at this
      have hmh : isMultiHead (headMarker compressed ++ leBytes INDEX_SIZE j ++ c0) := by
        unfold isMultiHead isMultiHeadCompressed; rw [m1]
        have := f3; unfold isMultiHead isMultiHeadCompressed at this
        rwa [marker_take_self _ (headMarker_length _)] at this
      have hm : isMulti (headMarker compressed ++ leBytes INDEX_SIZE j ++ c0) := Or.inr hmh
      have hiff : isMultiHeadCompressed (headMarker compressed ++ leBytes INDEX_SIZE j ++ c0) ↔
          compressed = true := by
        have := f4; unfold isMultiHeadCompressed at this ⊢
        rw [marker_take_self _ (headMarker_length _)] at this
        rw [m1]; exact this
      have hmc : decide (isMultiHeadCompressed (headMarker compressed ++ leBytes INDEX_SIZE j ++ c0)) = compressed := by
        cases compressed
        · exact decide_eq_false (fun h => Bool.noConfusion (hiff.mp h))
        · exact decide_eq_true (hiff.mpr rfl)
      unfold readChain
      simp only [hw.1]
      rw [if_neg ht, if_neg (fun h => h.2 hmh)]
      have hd : decide (s.multipart = true ∧ isMulti (headMarker compressed ++ leBytes INDEX_SIZE j ++ c0)) = true :=
        decide_eq_true ⟨hmp, hm⟩
      simp only [hd, if_true, hmc, m2]
      rw [if_neg (fun h => h r2)]
      have hcl : c0.length = s.entrySize - (SIZE_SIZE + INDEX_SIZE) := by rw [← partCap_eq]; exact hg.1
      rw [if_neg (by omega), if_neg hjj.1, hrest, r3]
      have : s.entrySize - (SIZE_SIZE + INDEX_SIZE + refSize s + key.encodedSize) = p0.length := by omega
      rw [this, List.take_length]
      cases hrc : s.refCounted
      · simp
      · rw [hrc] at r1; simp at r1; simp [r1]

end Pdb.ValueTable
