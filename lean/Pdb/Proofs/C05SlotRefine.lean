/-
C05SlotRefine: forward simulation from the slot-level model (`CSlot.SSt`, Model/ConcSlot.lean) to
the key-level model (`CRd.CSt`, Model/ConcRead.lean Part 1).  Every slot-level action is translated
into a (possibly empty) list of key-level actions (`trAct`), and the relation `Sim` is preserved.
-/
import Pdb.Props.C05Slot
import Pdb.Props.C05

namespace Pdb
namespace CSlot

set_option linter.unusedSectionVars false
variable {K V : Type} [DecidableEq K]

/-- reader pc abstraction: all slot-level lookup stages are the key-level "overlay missed" -/
def absPc : CSlot.RPc K V → CRd.RPc K V
  | .idle => .idle
  | .started k q => .started k q
  | .missedOv k q => .missedOverlay k q
  | .missedIdx k q => .missedOverlay k q
  | .gotAddr k q _ => .missedOverlay k q
  | .missedVal k q _ => .missedOverlay k q
  | .done k q res _ _ => .done k q res

def absEvt (e : CSlot.ReadEvt K V) : CRd.ReadEvt K V :=
  ⟨e.tid, e.key, e.result, e.startSeq, e.endSeq⟩

def RPc.isDone : CSlot.RPc K V → Bool
  | .done _ _ _ _ _ => true
  | _ => false

/-- simulation relation -/
structure Sim (s : SSt K V) (c : CRd.CSt K V) : Prop where
  nextId : c.nextId = s.nextId
  overlay : c.overlay = s.overlay
  queue : c.queue = s.queue
  inflight : c.inflight = s.inflight
  hist : c.hist = s.hist
  loggedLen : c.logged.length = s.logged.length
  flushed : c.flushed = s.flushed
  enactPos : c.enactPos = 0
  readers : ∀ t, c.readers t = absPc (s.readers t)
  reads : c.reads = s.reads.map absEvt

/-- translation of a slot-level lookup step of reader `t`: the two key-level lookups when the
    slot-level read completes, a stutter otherwise -/
def trRd (cfg : Cfg) (tier : V → Nat) (chunkOf : K → Nat) (N : Nat) (s : SSt K V) (t : Nat)
    (a : SAct K V) : List (CRd.CAct K V) :=
  if !(s.readers t).isDone && ((sstep cfg tier chunkOf N s a).readers t).isDone then
    [.rLog t, .rTable t]
  else []

/-- translation of one slot-level action (from the pair of states `s`, `c`) -/
def trAct (cfg : Cfg) (tier : V → Nat) (chunkOf : K → Nat) (N : Nat) (s : SSt K V)
    (c : CRd.CSt K V) : SAct K V → List (CRd.CAct K V)
  | .commit tx => [.commit tx]
  | .pop => [.pop]
  | .publish => [.publish]
  | .cleanOverlay => [.cleanOverlay]
  | .flush => [.flush]
  | .enactWrite => []
  | .endRead =>
    match s.flushed, s.logged with
    | _ + 1, r :: _ =>
      if s.enactPos = r.writes.length then
        List.replicate (c.logged.headD []).length .enactWrite ++ [.endRead]
      else []
    | _, _ => []
  | .rBegin t k => [.rBegin t k]
  | .rOverlay t => [.rOverlay t]
  | .rIdxLog t => trRd cfg tier chunkOf N s t (.rIdxLog t)
  | .rIdxFile t => trRd cfg tier chunkOf N s t (.rIdxFile t)
  | .rValLog t => trRd cfg tier chunkOf N s t (.rValLog t)
  | .rValFile t => trRd cfg tier chunkOf N s t (.rValFile t)
  | .rEnd t => [.rEnd t]

/-- translation of a slot-level schedule, threading both states -/
def trRun (cfg : Cfg) (tier : V → Nat) (chunkOf : K → Nat) (N : Nat) :
    SSt K V → CRd.CSt K V → List (SAct K V) → List (CRd.CAct K V)
  | _, _, [] => []
  | s, c, a :: as =>
    trAct cfg tier chunkOf N s c a ++
      trRun cfg tier chunkOf N (sstep cfg tier chunkOf N s a)
        (CRd.crun plainK N c (trAct cfg tier chunkOf N s c a)) as

/-! ### basic facts -/

theorem setReader_self (s : SSt K V) (t : Nat) : setReader s t (s.readers t) = s := by
  cases s
  simp only [setReader, SSt.mk.injEq, true_and, and_true]
  funext x
  split
  · subst_vars; rfl
  · rfl

theorem cset_set (c : CRd.CSt K V) (t : Nat) (a b : CRd.RPc K V) :
    CRd.setReader (CRd.setReader c t a) t b = CRd.setReader c t b := by
  cases c
  simp only [CRd.setReader, CRd.CSt.mk.injEq, true_and, and_true]
  funext x
  split <;> rfl

theorem absPc_isIdle (pc : CSlot.RPc K V) : (absPc pc).isIdle = pc.isIdle := by
  cases pc <;> rfl

theorem holds_disc (cfg : Cfg) (hd : cfg.discipline = true) (pc : CSlot.RPc K V) :
    holds cfg pc = !pc.isIdle := by
  cases pc <;> simp [holds, RPc.isIdle, hd]

theorem inside_eq (cfg : Cfg) (hd : cfg.discipline = true) (N : Nat) {s : SSt K V}
    {c : CRd.CSt K V} (h : Sim s c) : CRd.inside N c = inside cfg N s := by
  simp only [CRd.inside, inside, h.readers, absPc_isIdle, holds_disc cfg hd]

theorem srun_snoc (cfg : Cfg) (tier : V → Nat) (chunkOf : K → Nat) (N : Nat) (s : SSt K V)
    (as : List (SAct K V)) (a : SAct K V) :
    srun cfg tier chunkOf N s (as ++ [a]) =
      sstep cfg tier chunkOf N (srun cfg tier chunkOf N s as) a := by
  simp [srun, List.foldl_append]

theorem crun_app (N : Nat) (c : CRd.CSt K V) (as bs : List (CRd.CAct K V)) :
    CRd.crun plainK N c (as ++ bs) = CRd.crun plainK N (CRd.crun plainK N c as) bs := by
  simp [CRd.crun, List.foldl_append]

/-! ### a reader at `done` holds the specification value (both levels) -/

theorem done_spec_slot (cfg : Cfg) (hd : cfg.discipline = true) (hx : cfg.exactEnd = true)
    (tier : V → Nat) (chunkOf : K → Nat) (N : Nat) (pre : List (SAct K V)) (t : Nat) (k : K)
    (q : Nat) (res : Option V) (src : Option Addr) (x : Option (K × V))
    (h : (srun cfg tier chunkOf N SSt.init pre).readers t = .done k q res src x) :
    res = (spec plainK ((srun cfg tier chunkOf N SSt.init pre).hist.take q) k).map Prod.fst := by
  have hs : srun cfg tier chunkOf N SSt.init (pre ++ [.rEnd t]) =
      { setReader (srun cfg tier chunkOf N SSt.init pre) t .idle with
        reads := (srun cfg tier chunkOf N SSt.init pre).reads ++
          [{ tid := t, key := k, result := res, startSeq := q,
             endSeq := (srun cfg tier chunkOf N SSt.init pre).hist.length, slot := src,
             stored := x }] } := by
    rw [srun_snoc]
    simp only [sstep, h]
  have := (C05_slot_read_linearizable cfg hd hx tier chunkOf N (pre ++ [.rEnd t])
    { tid := t, key := k, result := res, startSeq := q,
      endSeq := (srun cfg tier chunkOf N SSt.init pre).hist.length, slot := src, stored := x }
    (by rw [hs]; simp)).2.2.2
  rw [hs] at this
  exact this

theorem done_spec_key (N : Nat) (pre : List (CRd.CAct K V)) (t : Nat) (k : K)
    (q : Nat) (res : Option V)
    (h : (CRd.crun plainK N CRd.CSt.init pre).readers t = .done k q res) :
    res = (spec plainK ((CRd.crun plainK N CRd.CSt.init pre).hist.take q) k).map Prod.fst := by
  have hs : CRd.crun plainK N CRd.CSt.init (pre ++ [.rEnd t]) =
      { CRd.setReader (CRd.crun plainK N CRd.CSt.init pre) t .idle with
        reads := (CRd.crun plainK N CRd.CSt.init pre).reads ++
          [{ tid := t, key := k, result := res, startSeq := q,
             endSeq := (CRd.crun plainK N CRd.CSt.init pre).hist.length }] } := by
    rw [crun_app]
    show CRd.cstep plainK N (CRd.crun plainK N CRd.CSt.init pre) (.rEnd t) = _
    simp only [CRd.cstep, h]
  have := (C05_read_linearizable plainK N (pre ++ [.rEnd t])
    { tid := t, key := k, result := res, startSeq := q,
      endSeq := (CRd.crun plainK N CRd.CSt.init pre).hist.length }
    (by rw [hs]; simp) rfl).2.2.2
  rw [hs] at this
  exact this

/-! ### slot-level lookup steps -/

theorem rd_step (cfg : Cfg) (tier : V → Nat) (chunkOf : K → Nat) (N : Nat) (s : SSt K V)
    (t : Nat) (a : SAct K V)
    (ha : a = .rIdxLog t ∨ a = .rIdxFile t ∨ a = .rValLog t ∨ a = .rValFile t) :
    ∃ pc, sstep cfg tier chunkOf N s a = setReader s t pc ∧
      (pc = s.readers t ∨
       ((s.readers t).isDone = false ∧ pc.isDone = false ∧ absPc pc = absPc (s.readers t)) ∨
       ((s.readers t).isDone = false ∧ ∃ k q res src x,
          absPc (s.readers t) = .missedOverlay k q ∧ pc = .done k q res src x)) := by
  rcases ha with rfl | rfl | rfl | rfl
  all_goals
    simp only [sstep, afterIdx]
    repeat' split
  all_goals
    first
    | exact ⟨s.readers t, (setReader_self s t).symm, Or.inl rfl⟩
    | (refine ⟨_, rfl, Or.inr (Or.inl ?_)⟩
       simp [*, absPc, RPc.isDone]
       done)
    | (refine ⟨_, rfl, Or.inr (Or.inr ?_)⟩
       simp [*, absPc, RPc.isDone])

/-! ### key-level helper runs -/

theorem key_lookup (N : Nat) (c : CRd.CSt K V) (t : Nat) (k : K) (q : Nat)
    (h : c.readers t = .missedOverlay k q) :
    ∃ res', CRd.crun plainK N c [.rLog t, .rTable t] = CRd.setReader c t (.done k q res') := by
  show ∃ res', CRd.cstep plainK N (CRd.cstep plainK N c (.rLog t)) (.rTable t) = _
  cases hl : logLookup c.logged k with
  | some cell =>
    refine ⟨cell.map Prod.fst, ?_⟩
    have h1 : CRd.cstep plainK N c (.rLog t) = CRd.setReader c t (.done k q (cell.map Prod.fst)) := by
      simp only [CRd.cstep, h, hl]
    rw [h1]
    simp [CRd.cstep, CRd.setReader]
  | none =>
    refine ⟨(c.tables k).map Prod.fst, ?_⟩
    have h1 : CRd.cstep plainK N c (.rLog t) = CRd.setReader c t (.missedLog k q) := by
      simp only [CRd.cstep, h, hl]
    rw [h1]
    simp [CRd.cstep, CRd.setReader]
    funext y
    by_cases hy : y = t <;> simp [hy]

theorem enact_all (N : Nat) (f : Nat) (r : Rec K V) (rs : List (Rec K V)) (n : Nat) :
    ∀ c : CRd.CSt K V, c.flushed = f + 1 → c.logged = r :: rs → c.enactPos + n = r.length →
      ∃ tb, CRd.crun plainK N c (List.replicate n .enactWrite) =
        { c with tables := tb, enactPos := r.length } := by
  induction n with
  | zero =>
    intro c _ _ h3
    refine ⟨c.tables, ?_⟩
    cases c
    simp only [Nat.add_zero] at h3
    subst h3
    rfl
  | succ n ih =>
    intro c h1 h2 h3
    have hlt : c.enactPos < r.length := by omega
    have hstep : CRd.cstep plainK N c .enactWrite =
        { c with tables := upd c.tables (r[c.enactPos]).1 (r[c.enactPos]).2,
                 enactPos := c.enactPos + 1 } := by
      simp only [CRd.cstep, h1, h2]
      simp [List.getElem?_eq_getElem hlt]
    obtain ⟨tb, h⟩ := ih (CRd.cstep plainK N c .enactWrite) (by rw [hstep]; exact h1)
      (by rw [hstep]; exact h2) (by rw [hstep]; simp only; omega)
    refine ⟨tb, ?_⟩
    rw [List.replicate_succ]
    show CRd.crun plainK N (CRd.cstep plainK N c .enactWrite) _ = _
    rw [h, hstep]

/-! ### the step lemma -/

theorem Sim.step (cfg : Cfg) (hd : cfg.discipline = true) (hx : cfg.exactEnd = true)
    (tier : V → Nat) (chunkOf : K → Nat) (N : Nat) (pre : List (SAct K V))
    (pre' : List (CRd.CAct K V)) (s : SSt K V) (c : CRd.CSt K V)
    (hs : s = srun cfg tier chunkOf N SSt.init pre)
    (hc : c = CRd.crun plainK N CRd.CSt.init pre') (h : Sim s c) (a : SAct K V) :
    Sim (sstep cfg tier chunkOf N s a)
      (CRd.crun plainK N c (trAct cfg tier chunkOf N s c a)) := by
  have hin := inside_eq cfg hd N h
  have hrd : ∀ t (a : SAct K V),
      (a = .rIdxLog t ∨ a = .rIdxFile t ∨ a = .rValLog t ∨ a = .rValFile t) →
      Sim (sstep cfg tier chunkOf N s a)
        (CRd.crun plainK N c (trRd cfg tier chunkOf N s t a)) := by
    intro t a ha
    obtain ⟨pc, hpc, hcase⟩ := rd_step cfg tier chunkOf N s t a ha
    have hcond : ((sstep cfg tier chunkOf N s a).readers t) = pc := by
      rw [hpc]; simp [setReader]
    rcases hcase with h1 | ⟨h1, h2, h3⟩ | ⟨h1, k, q, res, src, x, h2, h3⟩
    · subst h1
      rw [hpc, setReader_self]
      have : trRd cfg tier chunkOf N s t a = [] := by
        simp only [trRd, hcond]
        cases (s.readers t).isDone <;> rfl
      rw [this]
      exact h
    · have : trRd cfg tier chunkOf N s t a = [] := by
        simp only [trRd, hcond, h1, h2]
        rfl
      rw [this, hpc]
      obtain ⟨g1, g2, g3, g4, g5, g6, g7, g8, g9, g10⟩ := h
      refine ⟨g1, g2, g3, g4, g5, g6, g7, g8, ?_, g10⟩
      intro y
      simp only [setReader]
      split
      · rename_i hy
        subst hy
        rw [h3]; exact g9 y
      · exact g9 y
    · subst h3
      have htr : trRd cfg tier chunkOf N s t a = [.rLog t, .rTable t] := by
        simp only [trRd, hcond, h1]
        rfl
      have hct : c.readers t = .missedOverlay k q := by rw [h.readers, h2]
      obtain ⟨res', hres'⟩ := key_lookup N c t k q hct
      have e1 : res = (spec plainK (s.hist.take q) k).map Prod.fst := by
        have := done_spec_slot cfg hd hx tier chunkOf N (pre ++ [a]) t k q res src x
          (by rw [srun_snoc, ← hs]; exact hcond)
        rw [srun_snoc, ← hs, hpc] at this
        exact this
      have e2 : res' = (spec plainK (c.hist.take q) k).map Prod.fst := by
        have := done_spec_key N (pre' ++ [.rLog t, .rTable t]) t k q res'
          (by rw [crun_app, ← hc, hres']; simp [CRd.setReader])
        rw [crun_app, ← hc, hres'] at this
        exact this
      have e3 : res' = res := by rw [e1, e2, h.hist]
      subst e3
      rw [htr, hres', hpc]
      obtain ⟨g1, g2, g3, g4, g5, g6, g7, g8, g9, g10⟩ := h
      refine ⟨g1, g2, g3, g4, g5, g6, g7, g8, ?_, g10⟩
      intro y
      simp only [setReader, CRd.setReader]
      split
      · rfl
      · exact g9 y
  obtain ⟨g1, g2, g3, g4, g5, g6, g7, g8, g9, g10⟩ := h
  clear hs hc
  cases a with
  | commit tx =>
    simp only [trAct, CRd.crun, List.foldl_cons, List.foldl_nil, CRd.cstep, sstep, hin]
    repeat' split
    all_goals (constructor <;> simp [*])
  | pop =>
    simp only [trAct, CRd.crun, List.foldl_cons, List.foldl_nil, CRd.cstep, sstep, g3, g4]
    repeat' split
    all_goals (constructor <;> simp_all)
  | publish =>
    simp only [trAct, CRd.crun, List.foldl_cons, List.foldl_nil, CRd.cstep, sstep, g4]
    repeat' split
    all_goals (constructor <;> simp_all)
  | cleanOverlay =>
    simp only [trAct, CRd.crun, List.foldl_cons, List.foldl_nil, CRd.cstep, sstep, hin, g4]
    repeat' split
    all_goals (constructor <;> simp_all)
  | flush =>
    simp only [trAct, CRd.crun, List.foldl_cons, List.foldl_nil, CRd.cstep, sstep]
    constructor <;> simp [*]
  | enactWrite =>
    simp only [trAct, CRd.crun, List.foldl_nil, sstep]
    repeat' split
    all_goals (constructor <;> simp [*])
  | endRead =>
    cases hf : s.flushed with
    | zero =>
      simp only [trAct, sstep, hf, CRd.crun, List.foldl_nil]
      constructor <;> simp [*]
    | succ f =>
      cases hl : s.logged with
      | nil =>
        simp only [trAct, sstep, hf, hl, CRd.crun, List.foldl_nil]
        constructor <;> simp [*]
      | cons r rs =>
        by_cases he : s.enactPos = r.writes.length
        · simp only [trAct, sstep, hf, hl, he, if_true, dropEnded, hx]
          rw [hl] at g6
          rw [hf] at g7
          cases hcl : c.logged with
          | nil => rw [hcl] at g6; simp at g6
          | cons r' rs' =>
            rw [hcl] at g6
            obtain ⟨tb, htb⟩ := enact_all N f r' rs' r'.length c g7 hcl (by omega)
            rw [crun_app]
            simp only [List.headD_cons]
            rw [htb]
            simp only [CRd.crun, List.foldl_cons, List.foldl_nil, CRd.cstep, g7, hcl, if_true]
            constructor <;> simp_all
        · simp only [trAct, sstep, hf, hl, he, if_false, CRd.crun, List.foldl_nil]
          constructor <;> simp [*]
  | rBegin t k =>
    simp only [trAct, CRd.crun, List.foldl_cons, List.foldl_nil, CRd.cstep, sstep, g9, absPc_isIdle,
      g5]
    split
    · constructor <;> try simp [*, setReader, CRd.setReader]
      intro y
      split <;> simp [absPc]
    · constructor <;> simp [*]
  | rOverlay t =>
    simp only [trAct, CRd.crun, List.foldl_cons, List.foldl_nil, CRd.cstep, sstep, g9, g2]
    cases hpc : s.readers t with
    | started k q =>
      simp only [absPc]
      cases ho : s.overlay k with
      | none =>
        constructor <;> try simp [*, setReader, CRd.setReader]
        intro y
        split <;> simp [absPc, *]
      | some iv =>
        constructor <;> try simp [*, setReader, CRd.setReader]
        intro y
        split <;> simp [absPc, *]
    | _ =>
      simp only [absPc]
      exact ⟨g1, g2, g3, g4, g5, g6, g7, g8, g9, g10⟩
  | rIdxLog t => exact hrd t _ (Or.inl rfl)
  | rIdxFile t => exact hrd t _ (Or.inr (Or.inl rfl))
  | rValLog t => exact hrd t _ (Or.inr (Or.inr (Or.inl rfl)))
  | rValFile t => exact hrd t _ (Or.inr (Or.inr (Or.inr rfl)))
  | rEnd t =>
    simp only [trAct, CRd.crun, List.foldl_cons, List.foldl_nil, CRd.cstep, sstep, g9]
    cases hpc : s.readers t with
    | done k q res src x =>
      simp only [absPc]
      constructor <;> try simp [*, setReader, CRd.setReader, absEvt]
      intro y
      split <;> simp [absPc, *]
    | _ =>
      simp only [absPc]
      exact ⟨g1, g2, g3, g4, g5, g6, g7, g8, g9, g10⟩

theorem Sim.init : Sim (SSt.init : SSt K V) (CRd.CSt.init : CRd.CSt K V) :=
  ⟨rfl, rfl, rfl, rfl, rfl, rfl, rfl, rfl, fun _ => rfl, rfl⟩

theorem Sim.run_from (cfg : Cfg) (hd : cfg.discipline = true) (hx : cfg.exactEnd = true)
    (tier : V → Nat) (chunkOf : K → Nat) (N : Nat) (as : List (SAct K V)) :
    ∀ (pre : List (SAct K V)) (pre' : List (CRd.CAct K V)),
      Sim (srun cfg tier chunkOf N SSt.init pre) (CRd.crun plainK N CRd.CSt.init pre') →
      Sim (srun cfg tier chunkOf N (srun cfg tier chunkOf N SSt.init pre) as)
        (CRd.crun plainK N (CRd.crun plainK N CRd.CSt.init pre')
          (trRun cfg tier chunkOf N (srun cfg tier chunkOf N SSt.init pre)
            (CRd.crun plainK N CRd.CSt.init pre') as)) := by
  induction as with
  | nil => intro pre pre' h; exact h
  | cons a as ih =>
    intro pre pre' h
    have hstep := Sim.step cfg hd hx tier chunkOf N pre pre' _ _ rfl rfl h a
    have := ih (pre ++ [a])
      (pre' ++ trAct cfg tier chunkOf N (srun cfg tier chunkOf N SSt.init pre)
        (CRd.crun plainK N CRd.CSt.init pre') a)
    rw [srun_snoc, crun_app] at this
    simp only [trRun]
    rw [crun_app]
    exact this hstep

theorem Sim.run (cfg : Cfg) (hd : cfg.discipline = true) (hx : cfg.exactEnd = true)
    (tier : V → Nat) (chunkOf : K → Nat) (N : Nat) (as : List (SAct K V)) :
    Sim (srun cfg tier chunkOf N SSt.init as)
      (CRd.crun plainK N CRd.CSt.init (trRun cfg tier chunkOf N SSt.init CRd.CSt.init as)) :=
  Sim.run_from cfg hd hx tier chunkOf N as [] [] Sim.init

theorem absEvt_key (e : CSlot.ReadEvt K V) : (absEvt e).key = e.key := rfl
theorem absEvt_result (e : CSlot.ReadEvt K V) : (absEvt e).result = e.result := rfl
theorem absEvt_startSeq (e : CSlot.ReadEvt K V) : (absEvt e).startSeq = e.startSeq := rfl
theorem absEvt_endSeq (e : CSlot.ReadEvt K V) : (absEvt e).endSeq = e.endSeq := rfl

/-! ### the abstraction on contents: both views are the table of the published commits -/

/-- the two levels have published the same number of commits -/
theorem npub_agree (cfg : Cfg) (hd : cfg.discipline = true) (hx : cfg.exactEnd = true)
    (tier : V → Nat) (chunkOf : K → Nat) (N : Nat) (as : List (SAct K V)) :
    (CRd.crun plainK N CRd.CSt.init
        (trRun cfg tier chunkOf N SSt.init CRd.CSt.init as)).nEnacted +
      (CRd.crun plainK N CRd.CSt.init
        (trRun cfg tier chunkOf N SSt.init CRd.CSt.init as)).logged.length =
    (srun cfg tier chunkOf N SSt.init as).npub := by
  have hsim := Sim.run cfg hd hx tier chunkOf N as
  have ki := ((BaseInv.init (K := K) (V := V) chunkOf).run hx tier chunkOf N as).ki
  have hl1 := ki.abs.len
  simp only [kabs, List.length_nil, List.length_append] at hl1
  have hl2 := (C05_shadow plainK N (trRun cfg tier chunkOf N SSt.init CRd.CSt.init as)).2.2.len
  simp only [CRd.abs, List.length_append] at hl2
  have hp : (CRd.pend (CRd.crun plainK N CRd.CSt.init
      (trRun cfg tier chunkOf N SSt.init CRd.CSt.init as))).length =
      (pend (srun cfg tier chunkOf N SSt.init as)).length := by
    unfold CRd.pend pend
    rw [hsim.inflight]
    rfl
  rw [hp, hsim.queue, hsim.hist] at hl2
  omega

theorem view_agree (cfg : Cfg) (hd : cfg.discipline = true) (hx : cfg.exactEnd = true)
    (tier : V → Nat) (chunkOf : K → Nat) (N : Nat) (as : List (SAct K V)) (k : K) :
    (CRd.cview (CRd.crun plainK N CRd.CSt.init
        (trRun cfg tier chunkOf N SSt.init CRd.CSt.init as)) k).map Prod.fst =
      slookup chunkOf (sview (srun cfg tier chunkOf N SSt.init as)) k := by
  have hsim := Sim.run cfg hd hx tier chunkOf N as
  have hsh := C05_shadow plainK N (trRun cfg tier chunkOf N SSt.init CRd.CSt.init as)
  have hve := hsh.2.2.view_eq
  have hn := npub_agree cfg hd hx tier chunkOf N as
  rw [(C05_slot_view_represents cfg hx tier chunkOf N as k).1, hsh.2.1, hve]
  simp only [CRd.abs]
  rw [hn, hsim.hist]

end CSlot
end Pdb
