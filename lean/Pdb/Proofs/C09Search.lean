/-
C09 helper: frame lemmas of the column operations and the search functions
(`searchTable`, `searchOlder`, `searchAll`) in terms of `Table.Has`.
-/
import Pdb.Proofs.C09Page

namespace Pdb.Index
open Pdb.Gen Pdb.IndexPage

/-! ## frame lemmas -/

@[simp] theorem Col.valAt_setVal (s : Col) (a a' : Nat) (o : Option Slot) (n : Nat) :
    (s.setVal a o n).valAt a' = if a = a' then o else s.valAt a' := by
  simp only [Col.valAt, Col.setVal, Trie.get_set]

theorem Col.tailAt_setVal (s : Col) (a a' : Nat) (o : Option Slot) (n : Nat) :
    (s.setVal a o n).tailAt a' = if a = a' then o.map (·.tail) else s.tailAt a' := by
  simp only [Col.tailAt, Col.valAt_setVal]
  by_cases h : a = a' <;> simp [h]

theorem Col.tier_set (s : Col) (t t' : Nat) (x : Tier) :
    ({ s with tiers := s.tiers.set DEPTH t (some x) } : Col).tier t' = if t = t' then x else s.tier t' := by
  simp only [Col.tier, Trie.get_set]
  by_cases h : t = t' <;> simp [h]

/-! ## one table -/

theorem searchTable_sound (s : Col) (t : Table) (k : Key) (i a : Nat) (hwf : TableWF t)
    (h : searchTable s t k = some (i, a)) :
    s.tailAt a = some k.tail ∧ i < 64 ∧ (t.page (t.chunk k.pre)).getD i 0 ≠ 0 ∧
      a = Entry.address ((t.page (t.chunk k.pre)).getD i 0) t.bits ∧
      (ExactAt s.cfg.exact t.bits → BaseMatch t.bits k.pre (t.page (t.chunk k.pre)) i) := by
  unfold searchTable at h
  have := scanPage_sound s.cfg.exact t.bits k.pre (t.page (t.chunk k.pre)) _ hwf.hi
    (hwf.pages _).2 _ _ i a h
  refine ⟨?_, this.2.1, this.2.2.1, this.2.2.2.1, this.2.2.2.2.2⟩
  simpa using this.2.2.2.2.1

theorem searchTable_complete (s : Col) (t : Table) (k : Key) (a : Nat) (hwf : TableWF t)
    (hh : t.Has k.pre a) (ht : s.tailAt a = some k.tail) : (searchTable s t k).isSome = true := by
  obtain ⟨j, hj, hm, ha⟩ := hh
  unfold searchTable
  apply scanPage_complete s.cfg.exact t.bits k.pre (t.page (t.chunk k.pre)) _ hwf.hi
    (hwf.pages _).2 j hj hm
  · rw [ha]; simpa using ht
  · omega
  · simp [SCAN_FUEL, INDEX_CHUNK_ENTRIES]; omega

/-- `searchTable` depends on the column only through `cfg` and the stored tails. -/
theorem searchTable_congr (s s' : Col) (t : Table) (k : Key) (hc : s'.cfg = s.cfg)
    (ht : ∀ a, s'.tailAt a = s.tailAt a) : searchTable s' t k = searchTable s t k := by
  unfold searchTable
  rw [hc]
  have : (fun a => s'.tailAt a == some k.tail) = (fun a => s.tailAt a == some k.tail) := by
    funext a; rw [ht a]
  rw [this]

/-! ## all tables -/

theorem searchOlder_some (s : Col) (k : Key) :
    ∀ (ts : List Table) (j0 j i a : Nat), searchOlder s k ts j0 = some (j, i, a) →
      ∃ n t, j = j0 + n ∧ ts[n]? = some t ∧ searchTable s t k = some (i, a) := by
  intro ts
  induction ts with
  | nil => intro j0 j i a h; simp [searchOlder] at h
  | cons t ts ih =>
    intro j0 j i a h
    unfold searchOlder at h
    cases hs : searchTable s t k with
    | none =>
      simp only [hs] at h
      obtain ⟨n, t', h1, h2, h3⟩ := ih (j0 + 1) j i a h
      exact ⟨n + 1, t', by omega, by simpa using h2, h3⟩
    | some r =>
      obtain ⟨i', a'⟩ := r
      simp only [hs] at h
      have h1 : j0 = j := by injection h with h; injection h
      have h2 : (i', a') = (i, a) := by
        injection h with h; injection h with _ h
      exact ⟨0, t, by omega, by simp, by rw [hs, h2]⟩

theorem searchOlder_none (s : Col) (k : Key) :
    ∀ (ts : List Table) (j0 : Nat), searchOlder s k ts j0 = none →
      ∀ t ∈ ts, searchTable s t k = none := by
  intro ts
  induction ts with
  | nil => intro j0 _ t ht; simp at ht
  | cons t ts ih =>
    intro j0 h t' ht'
    unfold searchOlder at h
    cases hs : searchTable s t k with
    | none =>
      simp only [hs] at h
      rcases List.mem_cons.1 ht' with h1 | h1
      · rw [h1]; exact hs
      · exact ih (j0 + 1) h t' h1
    | some r =>
      obtain ⟨i', a'⟩ := r
      simp [hs] at h

theorem searchOlder_congr (s s' : Col) (k : Key) (hc : s'.cfg = s.cfg)
    (ht : ∀ a, s'.tailAt a = s.tailAt a) :
    ∀ (ts : List Table) (j0 : Nat), searchOlder s' k ts j0 = searchOlder s k ts j0 := by
  intro ts
  induction ts with
  | nil => intro j0; rfl
  | cons t ts ih =>
    intro j0
    unfold searchOlder
    rw [searchTable_congr s s' t k hc ht]
    cases searchTable s t k with
    | none => exact ih (j0 + 1)
    | some r => rfl

theorem searchAll_some (s : Col) (k : Key) (j i a : Nat) (h : searchAll s k = some (j, i, a)) :
    ∃ t, s.tables[j]? = some t ∧ searchTable s t k = some (i, a) := by
  unfold searchAll at h
  obtain ⟨n, t, h1, h2, h3⟩ := searchOlder_some s k s.tables 0 j i a h
  have : j = n := by omega
  subst this
  exact ⟨t, h2, h3⟩

theorem searchAll_none (s : Col) (k : Key) (h : searchAll s k = none) :
    ∀ t ∈ s.tables, searchTable s t k = none :=
  searchOlder_none s k s.tables 0 h

end Pdb.Index
