/-
C07 / C14 value iteration, part 3: the scan of a whole column (`pScan` = `iter_column_while` with
a callback that never stops) against the index model state the physical column represents
(`SimR`, R5): the reported items are exactly the live slots of the index model, each once, with the
decoded value and the coded count.
-/
import Pdb.Proofs.C07Iter2
import Pdb.Proofs.RefineRc3
import Pdb.Props.C06

namespace Pdb.ValueIter
open Pdb.Gen Pdb.ValueTable Pdb.Refine Pdb.RefineRc Pdb.Index

/-! ## the column scan as a concatenation of table scans -/

theorem toCItem_eq (decomp : Bytes → Option Bytes) (tier : Nat) (it : Item) :
    toCItem decomp tier it =
      (decodeStored decomp (it.value, it.compressed)).map
        (fun v => (⟨tier, it.index, it.tail, it.rc, v⟩ : CItem)) := by
  unfold toCItem decodeStored
  by_cases h : it.compressed = true
  · simp only [h, if_true]
  · simp only [h, if_false, Option.map_some, Bool.false_eq_true]

theorem toCItem_fields (decomp : Bytes → Option Bytes) (tier : Nat) (it : Item) (ci : CItem)
    (h : toCItem decomp tier it = some ci) : ci.index = it.index ∧ ci.tier = tier := by
  rw [toCItem_eq] at h
  cases hd : decodeStored decomp (it.value, it.compressed) with
  | none => rw [hd] at h; cases h
  | some v => rw [hd] at h; simp only [Option.map_some, Option.some.injEq] at h; subst h; exact ⟨rfl, rfl⟩

theorem filterMap_toCItem_index (decomp : Bytes → Option Bytes) (tier : Nat) : ∀ its : List Item,
    (∀ it ∈ its, (toCItem decomp tier it).isSome = true) →
    (its.filterMap (toCItem decomp tier)).map (·.index) = its.map (·.index) := by
  intro its
  induction its with
  | nil => intro _; rfl
  | cons it l ih =>
    intro hsome
    cases hc : toCItem decomp tier it with
    | none => have := hsome it (by simp); rw [hc] at this; cases this
    | some ci =>
      simp only [List.filterMap_cons, hc, List.map_cons]
      rw [(toCItem_fields decomp tier it ci hc).1, ih (fun x hx => hsome x (by simp [hx]))]

theorem colCb_of_some (decomp : Bytes → Option Bytes) (tier : Nat) (acc : List CItem) (it : Item)
    (ci : CItem) (hc : toCItem decomp tier it = some ci) :
    colCb decomp tier collectAll acc it = (acc ++ [ci], true) := by
  unfold toCItem at hc
  unfold colCb collectAll
  by_cases hcomp : it.compressed = true
  · rw [if_pos hcomp] at hc ⊢
    cases hd : decomp it.value with
    | none => rw [hd] at hc; cases hc
    | some v => rw [hd] at hc; simp only [Option.map_some, Option.some.injEq] at hc; subst hc; rfl
  · rw [if_neg hcomp] at hc ⊢
    simp only [Option.some.injEq] at hc; subst hc; rfl

theorem runCb_colCb (decomp : Bytes → Option Bytes) (tier : Nat) : ∀ (items : List Item)
    (acc : List CItem), (∀ it ∈ items, (toCItem decomp tier it).isSome = true) →
    runCb (colCb decomp tier collectAll) acc items = acc ++ items.filterMap (toCItem decomp tier) := by
  intro items
  induction items with
  | nil => intro acc _; simp [runCb]
  | cons it l ih =>
    intro acc h
    have hs := h it (by simp)
    cases hc : toCItem decomp tier it with
    | none => rw [hc] at hs; cases hs
    | some ci =>
      have e := colCb_of_some decomp tier acc it ci hc
      have : runCb (colCb decomp tier collectAll) acc (it :: l) =
          runCb (colCb decomp tier collectAll) (acc ++ [ci]) l := by
        show (if (colCb decomp tier collectAll acc it).2 = true then _ else _) = _
        rw [e, if_pos rfl]
      rw [this, ih _ (fun x hx => h x (by simp [hx]))]
      simp only [List.filterMap_cons, hc, List.append_assoc, List.cons_append, List.nil_append]

/-- the items of table `j` (nothing if its scan fails) -/
def itemsOf (p : PCol) (j : Nat) : List Item :=
  match (p.vt j).scan with
  | .ok l => l
  | .error _ => []

theorem pIterTiers_collect (decomp : Bytes → Option Bytes) (p : PCol) : ∀ (n tier : Nat)
    (acc : List CItem),
    (∀ j, tier ≤ j → j < tier + n → (p.vt j).scan = .ok (itemsOf p j) ∧
      ∀ it ∈ itemsOf p j, (toCItem decomp j it).isSome = true) →
    pIterTiers decomp p collectAll n tier acc =
      .ok (acc ++ (List.range' tier n).flatMap (fun j => (itemsOf p j).filterMap (toCItem decomp j))) := by
  intro n
  induction n with
  | zero => intro tier acc _; simp [pIterTiers]
  | succ n ih =>
    intro tier acc h
    obtain ⟨h1, h2⟩ := h tier (Nat.le_refl _) (by omega)
    unfold pIterTiers
    have e : (p.vt tier).iterWhile (colCb decomp tier collectAll) acc =
        .ok (acc ++ (itemsOf p tier).filterMap (toCItem decomp tier)) := by
      unfold VT.iterWhile
      rw [iterLoop_eq (p.vt tier) _ _ _ acc (itemsOf p tier) h1, runCb_colCb decomp tier _ acc h2]
    rw [e]
    simp only
    rw [ih (tier + 1) _ (fun j a b => h j (by omega) (by omega))]
    simp only [List.range'_succ, List.flatMap_cons, List.append_assoc]

/-- whatever the client callback: the column scan runs the callback over the items of one table
after the other; a `false` ends the run over ONE table only (`runCb` stops, the fold goes on) -/
theorem pIterTiers_eq {σ : Type} (decomp : Bytes → Option Bytes) (p : PCol) (f : σ → CItem → σ × Bool)
    (its : Nat → List Item) : ∀ (n tier : Nat) (s : σ),
    (∀ j, tier ≤ j → j < tier + n → (p.vt j).scan = .ok (its j)) →
    pIterTiers decomp p f n tier s =
      .ok ((List.range' tier n).foldl (fun s j => runCb (colCb decomp j f) s (its j)) s) := by
  intro n
  induction n with
  | zero => intro tier s _; rfl
  | succ n ih =>
    intro tier s h
    unfold pIterTiers
    have e : (p.vt tier).iterWhile (colCb decomp tier f) s =
        .ok (runCb (colCb decomp tier f) s (its tier)) := by
      unfold VT.iterWhile
      exact iterLoop_eq (p.vt tier) _ _ _ s (its tier) (h tier (Nat.le_refl _) (by omega))
    rw [e]
    simp only
    rw [ih (tier + 1) _ (fun j a b => h j (by omega) (by omega))]
    simp only [List.range'_succ, List.foldl_cons]

/-! ## one table of a represented column -/

/-- the abstract store of one tier of `s` when the value bytes of a slot are `valF sl.val` -/
def storeG (cmp : Bytes → Bytes) (thr : Nat) (valF : Val → Bytes) (s : Col) (tier : Nat) : AStore :=
  ⟨fun off => (s.valAt (off * 256 + tier)).map (fun sl =>
      (encTail sl.tail, (storedForm cmp thr (valF sl.val)).1, (storedForm cmp thr (valF sl.val)).2)),
    s.tier tier⟩

/-- what both R3's `VSim` (plain column: `valF = decVal`, count 1) and R5's `VSimR` (`valF = valOf`,
`cntF = cntOf`) say about the value tables -/
structure VRep (cmp : Bytes → Bytes) (thr : Nat) (valF : Val → Bytes) (cntF : Val → Nat)
    (p : PCol) (s : Col) : Prop where
  es : ∀ tier, tier < 256 → PARTIAL_SIZE ≤ (p.vt tier).entrySize
  rep : ∀ tier, tier < 256 → Rep (p.vt tier) (storeG cmp thr valF s tier)
  cnt : ∀ tier off sl v c n, tier < 256 → s.valAt (off * 256 + tier) = some sl →
    readChain (p.vt tier) (.partialKey (encTail sl.tail)) off = .ok (some (v, c, n)) → n = cntF sl.val

/-- what the scan may report for a state `s` of the index model: a live slot of `s` at the
address (`index`, `tier`), with the stored tail, the decoded value and the count -/
def Reports (valF : Val → Bytes) (cntF : Val → Nat) (s : Col) (ci : CItem) : Prop :=
  ci.tier < 256 ∧ ∃ sl, s.valAt (ci.index * 256 + ci.tier) = some sl ∧ ci.tail = encTail sl.tail ∧
    ci.rc = cntF sl.val ∧ ci.value = valF sl.val

theorem sizes_ge : ∀ x ∈ SIZES, PARTIAL_SIZE ≤ x := by decide +kernel

theorem tableOfTier_es (rc : Bool) (tier : Nat) : PARTIAL_SIZE ≤ (tableOfTier rc tier).entrySize := by
  unfold tableOfTier
  split
  · rename_i h
    simp only [VT.empty]
    have : SIZES.getD tier 0 ∈ SIZES := by
      rw [List.getD_eq_getElem?_getD, List.getElem?_eq_getElem h]
      exact List.getElem_mem h
    exact sizes_ge _ this
  · simp only [VT.empty]; decide

theorem tier_scan {cmp : Bytes → Bytes} {thr : Nat} {valF : Val → Bytes} {cntF : Val → Nat}
    {p : PCol} {s : Col}
    (decomp : Bytes → Option Bytes) (hA : ∀ v, decomp (cmp v) = some v)
    (h : VRep cmp thr valF cntF p s) (tier : Nat) (ht : tier < 256) :
    ∃ its, (p.vt tier).scan = .ok its ∧
      (∀ it ∈ its, (toCItem decomp tier it).isSome = true) ∧
      (∀ ci, ci ∈ its.filterMap (toCItem decomp tier) ↔ ci.tier = tier ∧ Reports valF cntF s ci) ∧
      ((its.filterMap (toCItem decomp tier)).map (·.index)).Pairwise (· < ·) := by
  obtain ⟨L, hr⟩ := h.rep tier ht
  have hes : PARTIAL_SIZE ≤ (p.vt tier).entrySize := h.es tier ht
  obtain ⟨its, hscan, hex, _⟩ := scan_exact_rep (p.vt tier) _ L hes hr
  -- every reported item is a live slot of `s`
  have hitem : ∀ it ∈ its, ∃ sl, s.valAt (it.index * 256 + tier) = some sl ∧
      toCItem decomp tier it = some ⟨tier, it.index, encTail sl.tail, cntF sl.val, valF sl.val⟩ := by
    intro it hit
    obtain ⟨_, hread⟩ := hex.read it hit
    have habs := absVT_of_read _ _ _ _ _ _ hread
    rw [hr.cells] at habs
    simp only [storeG] at habs
    cases hv : s.valAt (it.index * 256 + tier) with
    | none => rw [hv] at habs; cases habs
    | some sl =>
      rw [hv] at habs
      simp only [Option.map_some, Option.some.injEq, Prod.mk.injEq] at habs
      obtain ⟨e1, e2, e3⟩ := habs
      rw [← e1] at hread
      have e4 := h.cnt tier it.index sl _ _ _ ht hv hread
      refine ⟨sl, rfl, ?_⟩
      rw [toCItem_eq, ← e2, ← e3]
      have : ((storedForm cmp thr (valF sl.val)).1, (storedForm cmp thr (valF sl.val)).2) =
          storedForm cmp thr (valF sl.val) := rfl
      rw [this, C06_stored_decodes cmp decomp hA thr (valF sl.val), ← e1, e4]
      rfl
  have hsome : ∀ it ∈ its, (toCItem decomp tier it).isSome = true := by
    intro it hit
    obtain ⟨sl, _, e⟩ := hitem it hit
    rw [e]; rfl
  refine ⟨its, hscan, hsome, ?_, ?_⟩
  · intro ci
    constructor
    · intro hci
      obtain ⟨it, hit, e⟩ := List.mem_filterMap.mp hci
      obtain ⟨sl, hv, e2⟩ := hitem it hit
      rw [e2] at e
      simp only [Option.some.injEq] at e
      subst e
      exact ⟨rfl, ht, sl, hv, rfl, rfl, rfl⟩
    · rintro ⟨e0, _, sl, hv, e1, e2, e3⟩
      rw [e0] at hv
      -- the slot is the head of a live chain, so the scan reports it
      have hcell : ((storeG cmp thr valF s tier).cell ci.index).isSome = true := by
        simp only [storeG, hv, Option.map_some, Option.isSome_some]
      obtain ⟨c, hc, hhead⟩ := hr.live ci.index hcell
      obtain ⟨it, hit, hidx⟩ := List.mem_map.mp ((hex.heads ci.index).mpr ⟨c, hc, hhead⟩)
      obtain ⟨sl', hv', e⟩ := hitem it hit
      rw [hidx, hv] at hv'
      cases hv'
      refine List.mem_filterMap.mpr ⟨it, hit, ?_⟩
      rw [e, hidx]
      obtain ⟨a, b, c, d, f⟩ := ci
      simp only at e0 e1 e2 e3
      subst e0 e1 e2 e3
      rfl
  · have := filterMap_toCItem_index decomp tier its hsome
    rw [this]; exact hex.sorted

/-! ## the whole column -/

/-- the order of the scan: tables in tier order, inside a table increasing slot numbers -/
def Before (x y : CItem) : Prop := x.tier < y.tier ∨ (x.tier = y.tier ∧ x.index < y.index)

theorem column_scan {cmp : Bytes → Bytes} {thr : Nat} {valF : Val → Bytes} {cntF : Val → Nat}
    {p : PCol} {s : Col}
    (decomp : Bytes → Option Bytes) (hA : ∀ v, decomp (cmp v) = some v)
    (h : VRep cmp thr valF cntF p s) :
    ∃ items, pScan decomp p = .ok items ∧ (∀ ci, ci ∈ items ↔ Reports valF cntF s ci) ∧
      items.Pairwise Before := by
  have hper : ∀ j, j < 256 → (p.vt j).scan = .ok (itemsOf p j) ∧
      (∀ it ∈ itemsOf p j, (toCItem decomp j it).isSome = true) ∧
      (∀ ci, ci ∈ (itemsOf p j).filterMap (toCItem decomp j) ↔ ci.tier = j ∧ Reports valF cntF s ci) ∧
      (((itemsOf p j).filterMap (toCItem decomp j)).map (·.index)).Pairwise (· < ·) := by
    intro j hj
    obtain ⟨its, h1, h2, h3, h4⟩ := tier_scan decomp hA h j hj
    have e : itemsOf p j = its := by simp only [itemsOf, h1]
    rw [e]; exact ⟨h1, h2, h3, h4⟩
  have hrun := pIterTiers_collect decomp p 256 0 []
    (fun j _ hj => ⟨(hper j (by omega)).1, (hper j (by omega)).2.1⟩)
  refine ⟨_, hrun, ?_, ?_⟩
  · intro ci
    simp only [List.nil_append, List.mem_flatMap, List.mem_range'_1]
    constructor
    · rintro ⟨j, ⟨_, hj⟩, hm⟩
      exact (((hper j (by omega)).2.2.1 ci).mp hm).2
    · intro hrep
      exact ⟨ci.tier, ⟨Nat.zero_le _, by have := hrep.1; omega⟩,
        ((hper ci.tier hrep.1).2.2.1 ci).mpr ⟨rfl, hrep⟩⟩
  · simp only [List.nil_append]
    rw [List.pairwise_flatMap]
    constructor
    · intro j hj
      have hj' : j < 256 := by have := (List.mem_range'_1.mp hj).2; omega
      obtain ⟨_, _, h3, h4⟩ := hper j hj'
      rw [List.pairwise_map] at h4
      refine List.Pairwise.imp_of_mem ?_ h4
      intro x y hx hy hlt
      exact Or.inr ⟨((h3 x).mp hx).1.trans ((h3 y).mp hy).1.symm, hlt⟩
    · refine List.Pairwise.imp_of_mem ?_ (List.pairwise_lt_range' (s := 0) (n := 256))
      intro j1 j2 hj1 hj2 hlt x hx y hy
      have hj1' : j1 < 256 := by have := (List.mem_range'_1.mp hj1).2; omega
      have hj2' : j2 < 256 := by have := (List.mem_range'_1.mp hj2).2; omega
      have e1 := (((hper j1 hj1').2.2.1 x).mp hx).1
      have e2 := (((hper j2 hj2').2.2.1 y).mp hy).1
      exact Or.inl (by omega)

/-! ## R5's and R3's representation relations as `VRep` -/

theorem VSimR.toVRep {rc : Bool} {cmp : Bytes → Bytes} {thr : Nat} {p : PCol} {s : Col}
    (h : VSimR rc cmp thr p s) : VRep cmp thr valOf cntOf p s :=
  ⟨fun tier ht => by rw [(h.cfgs tier ht).1]; exact tableOfTier_es rc tier,
   fun tier ht => h.rep tier ht,
   fun tier off sl v c n ht hv hr => (h.cnt tier off sl v c n ht hv hr).1⟩

theorem VSim.toVRep {cmp : Bytes → Bytes} {thr : Nat} {p : PCol} {s : Col}
    (h : VSim cmp thr p s) : VRep cmp thr decVal (fun _ => 1) p s :=
  ⟨fun tier ht => by rw [(h.cfgs tier ht).1]; exact tableOfTier_es false tier,
   fun tier ht => h.rep tier ht,
   fun tier off sl v c n ht _ hr => by
     have hrc : (p.vt tier).refCounted = false := by
       rw [(h.cfgs tier ht).2.2]; unfold tableOfTier; split <;> rfl
     have := (read_count _ _ _ v c n hr).1
     rw [hrc] at this
     simpa using this⟩

end Pdb.ValueIter
