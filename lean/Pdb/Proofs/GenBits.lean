/-
Facts about the generated bit functions (Pdb/Gen/Bits.lean), re-proved on every run against
what /repo/src/index.rs says now.  Used by the index / migration / WAL models.
-/
import Pdb.Gen.Bits

namespace Pdb.Gen

theorem shl_eq_mul (a i : Nat) : a <<< i = a * 2 ^ i := Nat.shiftLeft_eq a i
theorem shr_eq_div (a i : Nat) : a >>> i = a / 2 ^ i := Nat.shiftRight_eq_div_pow a i

theorem address_bits_eq (ib : Nat) (h : ib ≤ 241) : Entry.address_bits ib = ib + 14 := by
  simp only [Entry.address_bits, wadd, INDEX_CHUNK_ENTRIES_BITS, SIZE_TIERS_BITS]
  omega

/-- `Address::new` / `offset` / `size_tier` round trip. -/
theorem address_roundtrip (o t : Nat) (ho : o < 2 ^ 56) (ht : t < 256) :
    Address.offset (Address.new o t) = o ∧ Address.size_tier (Address.new o t) = t := by
  have e : Address.new o t = o * 256 + t := by
    simp only [Address.new, wor, wshl, wcast, SIZE_TIERS_BITS]
    have h1 : (o <<< (8 % 64)) % 2 ^ 64 = o * 256 := by
      rw [show 8 % 64 = 8 from rfl, shl_eq_mul]; omega
    have h2 : t % 2 ^ 64 = t := by omega
    rw [h1, h2, show o * 256 = o <<< 8 by rw [shl_eq_mul]]
    rw [← Nat.shiftLeft_add_eq_or_of_lt (by omega : t < 2 ^ 8)]
  constructor
  · rw [e]
    simp only [Address.offset, wshr, SIZE_TIERS_BITS]
    rw [show 8 % 64 = 8 from rfl, shr_eq_div]
    omega
  · rw [e]
    simp only [Address.size_tier, wcast, wand, wsub, wshl, SIZE_TIERS_BITS]
    have : ((1 <<< (8 % 64)) % 2 ^ 64 % 2 ^ 64 + 2 ^ 64 - 1 % 2 ^ 64) % 2 ^ 64 = 2 ^ 8 - 1 := by decide
    rw [this, Nat.and_two_pow_sub_one_eq_mod]
    omega

/-- `TableId::new` / `col` / `index_bits` round trip. -/
theorem tableId_roundtrip (c b : Nat) (hc : c < 256) (hb : b < 256) :
    TableId.col (TableId.new c b) = c ∧ TableId.index_bits (TableId.new c b) = b := by
  have e : TableId.new c b = c * 256 + b := by
    simp only [TableId.new, wor, wshl, wcast]
    have h1 : ((c % 2 ^ 16) <<< (8 % 16)) % 2 ^ 16 = c * 256 := by
      rw [show 8 % 16 = 8 from rfl, shl_eq_mul]; omega
    have h2 : b % 2 ^ 16 = b := by omega
    rw [h1, h2, show c * 256 = c <<< 8 by rw [shl_eq_mul]]
    rw [← Nat.shiftLeft_add_eq_or_of_lt (by omega : b < 2 ^ 8), shl_eq_mul]
  constructor
  · rw [e]; simp only [TableId.col, wcast, wshr]
    rw [show 8 % 16 = 8 from rfl, shr_eq_div]; omega
  · rw [e]; simp only [TableId.index_bits, wcast, wand]
    rw [show (255 : Nat) = 2 ^ 8 - 1 from rfl, Nat.and_two_pow_sub_one_eq_mod]; omega

/-- The log-overlay slot of an index table is injective below 48 index bits (`log_index`). -/
theorem tableId_log_index_injective (c1 b1 c2 b2 : Nat) (hc1 : c1 < 256) (hc2 : c2 < 256)
    (hb1 : b1 < 48) (hb2 : b2 < 48)
    (h : TableId.log_index (TableId.new c1 b1) = TableId.log_index (TableId.new c2 b2)) :
    c1 = c2 ∧ b1 = b2 := by
  obtain ⟨r1a, r1b⟩ := tableId_roundtrip c1 b1 hc1 (by omega)
  obtain ⟨r2a, r2b⟩ := tableId_roundtrip c2 b2 hc2 (by omega)
  simp only [TableId.log_index, r1a, r1b, r2a, r2b, wadd, wmul, wcast, wsub, MIN_INDEX_BITS] at h
  simp only [Nat.reducePow, Nat.reduceMod, Nat.reduceAdd, Nat.reduceSub] at h
  clear r1a r1b r2a r2b
  have e1 : c1 % 18446744073709551616 = c1 := Nat.mod_eq_of_lt (by omega)
  have e2 : c2 % 18446744073709551616 = c2 := Nat.mod_eq_of_lt (by omega)
  have e3 : b1 % 18446744073709551616 = b1 := Nat.mod_eq_of_lt (by omega)
  have e4 : b2 % 18446744073709551616 = b2 := Nat.mod_eq_of_lt (by omega)
  rw [e1, e2, e3, e4] at h
  have e5 : c1 * 48 % 18446744073709551616 = c1 * 48 := Nat.mod_eq_of_lt (by omega)
  have e6 : c2 * 48 % 18446744073709551616 = c2 * 48 := Nat.mod_eq_of_lt (by omega)
  rw [e5, e6] at h
  have e7 : (c1 * 48 + b1) % 18446744073709551616 = c1 * 48 + b1 := Nat.mod_eq_of_lt (by omega)
  have e8 : (c2 * 48 + b2) % 18446744073709551616 = c2 * 48 + b2 := Nat.mod_eq_of_lt (by omega)
  rw [e7, e8] at h
  omega

/-- The chunk (page) number of a key prefix is below the number of chunks. -/
theorem chunk_index_lt (ib kp : Nat) (hib : 1 ≤ ib) (hib2 : ib ≤ 63) (hkp : kp < 2 ^ 64) :
    chunk_index ib kp < total_chunks ib := by
  simp only [chunk_index, total_chunks, wshr, wshl, wsub, INDEX_ENTRY_BITS]
  have h1 : (64 + 2 ^ 8 - ib % 2 ^ 8) % 2 ^ 8 % 64 = 64 - ib := by omega
  have h2 : ib % 64 = ib := by omega
  rw [h1, h2, shr_eq_div, shl_eq_mul, Nat.one_mul]
  have : (2 : Nat) ^ ib < 2 ^ 64 := Nat.pow_lt_pow_right (by omega) (by omega)
  rw [Nat.mod_eq_of_lt this]
  apply Nat.div_lt_of_lt_mul
  rw [← Nat.pow_add]
  have : 64 - ib + ib = 64 := by omega
  rw [this]; exact hkp

theorem total_entries_eq (ib : Nat) (hib : ib ≤ 57) : total_entries ib = 2 ^ ib * 64 := by
  simp only [total_entries, total_chunks, wmul, wshl, wcast, INDEX_CHUNK_ENTRIES]
  have h2 : ib % 64 = ib := by omega
  rw [h2, shl_eq_mul, Nat.one_mul]
  have h57 : (2 : Nat) ^ ib ≤ 2 ^ 57 := Nat.pow_le_pow_right (by omega) hib
  have : (2 : Nat) ^ ib < 2 ^ 64 := by omega
  rw [Nat.mod_eq_of_lt this]
  omega

end Pdb.Gen
