/-
R1: the index layer (Pdb/Model/Index.lean, proved in C09) refines the logical table of a plain
hash column of P1 (Pdb/Model/Pipeline.lean).

  * `Implements ops acts`: `acts` is a translation of the P1 operations `ops` of ONE plain hash
    column into index-layer actions (`Op.set k v ↦ .set k tier ext v` for any tier and any
    number of continuation slots, `Op.deref k ↦
    .del k`, `Op.ref` has no effect on a plain column), with any number of maintenance actions
    (reindex batches, enacted drops, reopen, relaunch) interleaved: those are stutter steps.
  * `spec_implements`: the abstract map of C09 (`Index.spec`) lifted to a P1 table is
    `Pdb.applyOps` of the logical operations.
-/
import Pdb.Model.Refine
import Pdb.Proofs.C09Check
import Pdb.Proofs.PipelineInv

namespace Pdb.Refine
open Pdb.Gen Pdb.Index

/-- an abstract map of the index layer as a P1 table of a plain column -/
def liftMap (m : Key → Option Val) : Pdb.Tbl Key Val := fun k => (m k).map (fun v => (v, 1))

/-- index-layer actions performing one P1 operation on a plain hash column -/
def opActs (tier ext : Key → Val → Nat) : Pdb.Op Key Val → List Index.Action
  | .set k v => [.set k (tier k v) (ext k v) v]
  | .deref k => [.del k]
  | .ref _ => []

/-- the canonical translation (no maintenance in between) -/
def translate (tier ext : Key → Val → Nat) (ops : List (Pdb.Op Key Val)) : List Index.Action :=
  ops.flatMap (opActs tier ext)

/-- `acts` implements `ops`: the translation of `ops`, tiers and slot counts arbitrary, maintenance actions
interleaved arbitrarily. -/
inductive Implements : List (Pdb.Op Key Val) → List Index.Action → Prop
  | nil : Implements [] []
  | set (k : Key) (tier ext : Nat) (v : Val) {ops : List (Pdb.Op Key Val)} {acts : List Index.Action} :
      Implements ops acts → Implements (.set k v :: ops) (.set k tier ext v :: acts)
  | deref (k : Key) {ops : List (Pdb.Op Key Val)} {acts : List Index.Action} :
      Implements ops acts → Implements (.deref k :: ops) (.del k :: acts)
  | ref (k : Key) {ops : List (Pdb.Op Key Val)} {acts : List Index.Action} :
      Implements ops acts → Implements (.ref k :: ops) acts
  | reindex {ops : List (Pdb.Op Key Val)} {acts : List Index.Action} :
      Implements ops acts → Implements ops (.reindex :: acts)
  | enact {ops : List (Pdb.Op Key Val)} {acts : List Index.Action} :
      Implements ops acts → Implements ops (.enact :: acts)
  | reopen {ops : List (Pdb.Op Key Val)} {acts : List Index.Action} :
      Implements ops acts → Implements ops (.reopen :: acts)
  | relaunch {ops : List (Pdb.Op Key Val)} {acts : List Index.Action} :
      Implements ops acts → Implements ops (.relaunch :: acts)

theorem translate_implements (tier ext : Key → Val → Nat) (ops : List (Pdb.Op Key Val)) :
    Implements ops (translate tier ext ops) := by
  induction ops with
  | nil => exact .nil
  | cons op ops ih =>
    cases op with
    | set k v => exact .set k (tier k v) (ext k v) v ih
    | deref k => exact .deref k ih
    | ref k => exact .ref k ih

/-- the logical operations of an index action (maintenance: none) -/
def logical : Index.Action → List (Pdb.Op Key Val)
  | .set k _ _ v => [.set k v]
  | .del k => [.deref k]
  | _ => []

theorem logical_implements (acts : List Index.Action) : Implements (acts.flatMap logical) acts := by
  induction acts with
  | nil => exact .nil
  | cons a acts ih =>
    cases a with
    | set k t e v => exact .set k t e v ih
    | del k => exact .deref k ih
    | reindex => exact .reindex ih
    | enact => exact .enact ih
    | reopen => exact .reopen ih
    | relaunch => exact .relaunch ih

theorem applyOps_cons (kind : Key → Pdb.Kind) {V : Type} (t : Pdb.Tbl Key V) (op : Pdb.Op Key V)
    (ops : List (Pdb.Op Key V)) :
    Pdb.applyOps kind t (op :: ops) = Pdb.applyOps kind (Pdb.applyOp kind t op) ops := rfl

theorem liftMap_set (m : Key → Option Val) (k : Key) (v : Val) :
    Pdb.applyOp (fun _ => Pdb.Kind.plain) (liftMap m) (.set k v) =
      liftMap (Index.upd m k (some v)) := by
  funext x
  simp only [Pdb.applyOp, Pdb.Op.key, Pdb.applyCell, Pdb.upd, liftMap, Index.upd]
  by_cases h : x = k <;> simp [h]

theorem liftMap_deref (m : Key → Option Val) (k : Key) :
    Pdb.applyOp (fun _ => Pdb.Kind.plain) (liftMap m) (.deref k) =
      liftMap (Index.upd m k none) := by
  funext x
  simp only [Pdb.applyOp, Pdb.Op.key, Pdb.applyCell, Pdb.upd, liftMap, Index.upd]
  by_cases h : x = k <;> simp [h]

theorem liftMap_ref (m : Key → Option Val) (k : Key) :
    Pdb.applyOp (fun _ => Pdb.Kind.plain) (liftMap m) (.ref k) = liftMap m := by
  funext x
  simp only [Pdb.applyOp, Pdb.Op.key, Pdb.applyCell, Pdb.upd]
  by_cases h : x = k <;> simp [h]

/-- The abstract map of C09 is P1's fold of the logical operations. -/
theorem spec_implements {ops : List (Pdb.Op Key Val)} {acts : List Index.Action}
    (h : Implements ops acts) : ∀ m : Key → Option Val,
    liftMap (Index.spec m acts) = Pdb.applyOps (fun _ => Pdb.Kind.plain) (liftMap m) ops := by
  induction h with
  | nil => intro m; rfl
  | set k tier ext v _ ih => intro m; rw [applyOps_cons, liftMap_set]; exact ih _
  | deref k _ ih => intro m; rw [applyOps_cons, liftMap_deref]; exact ih _
  | ref k _ ih => intro m; rw [applyOps_cons, liftMap_ref]; exact ih _
  | reindex _ ih => intro m; exact ih m
  | enact _ ih => intro m; exact ih m
  | reopen _ ih => intro m; exact ih m
  | relaunch _ ih => intro m; exact ih m

/-- One action from a good state: the abstraction moves by the logical operations of the action
(maintenance actions are stutter steps). -/
theorem absCol_step {U : Key → Prop} {s s' : Col} {m : Key → Option Val} (hU : Univ U)
    (hG : Good U s m) (hex : s.cfg.exact = true) (hgrow : s.cfg.growOnMove = true) (a : Index.Action)
    (ha : ActOK U a) (h : stepA s a = .ok s') (hB : Bounded s') (k : Key) (hk : U k) :
    Good U s' (specStep m a) ∧
    absCol s' k = Pdb.applyOps (fun _ => Pdb.Kind.plain) (liftMap m) (logical a) k ∧
    absCol s k = liftMap m k := by
  have hG' := stepA_ok hU hG hex hgrow a ha h hB
  refine ⟨hG', ?_, ?_⟩
  · have e : absCol s' k = liftMap (specStep m a) k := by
      simp only [absCol, liftMap, lookup_eq hU hG'.idx hG'.abs k hk]
    rw [e]
    cases a with
    | set k' t e v => simp only [logical, applyOps_cons, liftMap_set]; rfl
    | del k' => simp only [logical, applyOps_cons, liftMap_deref]; rfl
    | reindex => rfl
    | enact => rfl
    | reopen => rfl
    | relaunch => rfl
  · simp only [absCol, liftMap, lookup_eq hU hG.idx hG.abs k hk]

end Pdb.Refine
