/-
Invariants of the P1 pipeline model and their preservation by every action.
-/
import Pdb.Model.Pipeline

namespace Pdb
variable {K V : Type} [DecidableEq K]

theorem list_snoc_induction {α : Type} {P : List α → Prop} (nil : P [])
    (snoc : ∀ l a, P l → P (l ++ [a])) : ∀ l, P l := by
  intro l
  have : ∀ r : List α, P r.reverse := by
    intro r
    induction r with
    | nil => simpa
    | cons a r ih => simpa [List.reverse_cons] using snoc _ a ih
  simpa using this l.reverse

/-! ### `upd` and last-write lookups -/

@[simp] theorem upd_same {β : Type} (f : K → β) (k : K) (b : β) : upd f k b k = b := by
  simp [upd]

theorem upd_other {β : Type} (f : K → β) (k x : K) (b : β) (h : x ≠ k) : upd f k b x = f x := by
  simp [upd, h]

/-- Last write to `k` in a list of writes (later entries win). -/
def lastW {β : Type} : List (K × β) → K → Option β
  | [], _ => none
  | (k', b) :: ws, k => (lastW ws k).or (if k' = k then some b else none)

theorem lastW_append {β : Type} (ws1 ws2 : List (K × β)) (k : K) :
    lastW (ws1 ++ ws2) k = (lastW ws2 k).or (lastW ws1 k) := by
  induction ws1 with
  | nil => simp [lastW]
  | cons a ws1 ih =>
    obtain ⟨k', b⟩ := a
    simp only [List.cons_append, lastW, ih]
    cases lastW ws2 k <;> simp

/-- Folding writes over a function. -/
def applyW {β : Type} (f : K → β) (ws : List (K × β)) : K → β :=
  ws.foldl (fun f (kb : K × β) => upd f kb.1 kb.2) f

theorem applyW_eq {β : Type} (ws : List (K × β)) (f : K → β) (k : K) :
    applyW f ws k = (lastW ws k).getD (f k) := by
  induction ws generalizing f with
  | nil => simp [applyW, lastW]
  | cons a ws ih =>
    obtain ⟨k', b⟩ := a
    have : applyW f ((k', b) :: ws) = applyW (upd f k' b) ws := rfl
    rw [this, ih]
    simp only [lastW]
    cases lastW ws k with
    | some x => rfl
    | none =>
      by_cases h : k' = k
      · subst h; simp
      · have : k ≠ k' := fun e => h e.symm
        simp [h, upd_other _ _ _ _ this]

theorem applyRec_eq_applyW (t : Tbl K V) (r : Rec K V) : applyRec t r = applyW t r := rfl

theorem applyRec_eq (t : Tbl K V) (r : Rec K V) (k : K) :
    applyRec t r k = (lastW r k).getD (t k) := by
  rw [applyRec_eq_applyW]; exact applyW_eq r t k

theorem lastW_take_none {β : Type} (ws : List (K × β)) (j : Nat) (k : K)
    (h : lastW ws k = none) : lastW (ws.take j) k = none := by
  induction ws generalizing j with
  | nil => simp [lastW]
  | cons a ws ih =>
    obtain ⟨k', b⟩ := a
    cases j with
    | zero => simp [lastW]
    | succ j =>
      simp only [lastW] at h
      cases hw : lastW ws k with
      | some x => simp [hw] at h
      | none =>
        simp only [hw] at h
        simp only [List.take_succ_cons, lastW, ih j hw]
        by_cases hk : k' = k
        · simp [hk] at h
        · simp [hk]

/-- Replaying a record over a state that already holds a prefix of its writes gives the
    same result as applying it to the original state (absolute after-images). -/
theorem overwrite_idempotent (t : Tbl K V) (r : Rec K V) (j : Nat) :
    applyRec (applyRecPrefix j t r) r = applyRec t r := by
  funext k
  rw [applyRec_eq, applyRec_eq]
  cases h : lastW r k with
  | some c => rfl
  | none =>
    simp only [applyRecPrefix]
    rw [applyRec_eq, lastW_take_none r j k h]
    rfl

/-! ### recLookup / logLookup agree with applyRec / applyRecs -/

theorem recLookup_eq (r : Rec K V) (k : K) : recLookup r k = lastW r k := by
  unfold recLookup
  induction r with
  | nil => simp [lastW]
  | cons a ws ih =>
    obtain ⟨k', b⟩ := a
    simp only [List.reverse_cons, List.find?_append, lastW]
    rw [← ih]
    cases h : ws.reverse.find? (fun kc => decide (kc.1 = k)) with
    | some x => simp
    | none =>
      by_cases hk : k' = k <;> simp [hk]

theorem logLookup_append (rs : List (Rec K V)) (r : Rec K V) (k : K) :
    logLookup (rs ++ [r]) k = (recLookup r k).or (logLookup rs k) := by
  unfold logLookup
  simp only [List.reverse_append, List.reverse_cons, List.reverse_nil, List.nil_append,
    List.cons_append, List.findSome?_cons]
  cases recLookup r k <;> rfl

theorem applyRecs_snoc (t : Tbl K V) (rs : List (Rec K V)) (r : Rec K V) :
    applyRecs t (rs ++ [r]) = applyRec (applyRecs t rs) r := by
  simp [applyRecs, List.foldl_append]

theorem view_eq_aux (t : Tbl K V) (rs : List (Rec K V)) (k : K) :
    (logLookup rs k).getD (t k) = applyRecs t rs k := by
  induction rs using list_snoc_induction with
  | nil => simp [logLookup, applyRecs]
  | snoc rs r ih =>
    rw [logLookup_append, applyRecs_snoc, applyRec_eq, ← recLookup_eq, ← ih]
    cases recLookup r k <;> rfl

theorem view_eq (s : St K V) : view s = applyRecs s.tables s.logged := by
  funext k; exact view_eq_aux _ _ k

end Pdb
