/-
Index hand-over during reindexing (pre-finding F11): the patched reader program
(`reindex.read()` before the first index lookup) always finds a live key.
-/
import Pdb.Model.ConcRead

set_option linter.unusedSectionVars false
set_option linter.unusedSimpArgs false
set_option linter.unusedVariables false
namespace Pdb
namespace CRd
namespace Idx
variable {K A : Type} [DecidableEq K]

/-- Invariant of the patched program for a key that is live at address `a`. -/
structure IInv (key : K) (a : A) (s : ISt K A) : Prop where
  addrC : ∀ x, s.current key = some x → x = a
  addrO : ∀ o x, s.older = some o → o key = some x → x = a
  live : s.current key = some a ∨ ∃ o, s.older = some o ∧ o key = some a
  holds : s.holds = true ↔ (1 ≤ s.pc ∧ s.pc ≤ 3)
  locks : s.holds = true → 1 ≤ s.readLocks
  found : s.found = none ∨ s.found = some a
  pc0 : s.pc ≤ 1 → s.found = none
  pc2 : s.pc = 2 → s.found = none → ∃ o, s.older = some o ∧ o key = some a
  pc3 : 3 ≤ s.pc → s.found = some a
  fin : s.finished = true → 4 ≤ s.pc

theorem IInv.init (key : K) (a : A) (current older : K → Option A)
    (hc : ∀ x, current key = some x → x = a) (ho : ∀ x, older key = some x → x = a)
    (hl : current key = some a ∨ older key = some a) :
    IInv key a (ISt.init current older) := by
  constructor <;> simp [ISt.init]
  · exact hc
  · intro o x e; subst e; exact ho x
  · exact hl

theorem IInv.step {keys : List K} {key : K} {a : A} {s : ISt K A} (hk : key ∈ keys)
    (h : IInv key a s) (act : IAct K) : IInv key a (istep keys patched key s act) := by
  have h0 := h
  obtain ⟨hAC, hAO, hL, hH, hLk, hF, hP0, hP2, hP3, hFin⟩ := h
  cases act with
  | copy k =>
    simp only [istep]
    split
    · rename_i o ho
      split
      · rename_i x hx hcur
        by_cases e : key = k
        · subst e
          have hxa := hAO o x ho hx
          subst hxa
          constructor <;> (try simp) <;> (try assumption)
        · constructor <;> (try simp [e]) <;> (try assumption)
      · exact h0
    · exact h0
  | dropIndex =>
    simp only [istep]
    split
    · rename_i hg
      simp only [Bool.and_eq_true, beq_iff_eq] at hg
      -- nobody holds the lock, so the reader is before its lock or after its unlock
      have hnh : s.holds = false := by
        cases hh : s.holds with
        | false => rfl
        | true => have := hLk hh; omega
      have hpc : s.pc = 0 ∨ 4 ≤ s.pc := by
        have := hH
        rw [hnh] at this
        simp at this
        omega
      -- everything was copied, in particular the reader's key
      have hcur : s.current key = some a := by
        rcases hL with hc | ⟨o, ho, hoa⟩
        · exact hc
        · have hall := hg.1
          unfold copiedAll at hall
          rw [ho] at hall
          simp only [List.all_eq_true, Bool.or_eq_true] at hall
          have := hall key hk
          rw [hoa] at this
          simp at this
          obtain ⟨x, hx⟩ := Option.isSome_iff_exists.mp this
          rw [hx, hAC x hx]
      constructor <;> (try simp) <;> (try assumption)
      · intro h2; omega
    · exact h0
  | reader =>
    simp only [istep]
    split
    · exact h0
    · rename_i hfin
      have hfin' : s.finished = false := by simpa using hfin
      have hpcs : s.pc = 0 ∨ s.pc = 1 ∨ s.pc = 2 ∨ s.pc = 3 ∨ 4 ≤ s.pc := by omega
      rcases hpcs with hp | hp | hp | hp | hp
      · -- lockReindex
        have hnh : s.holds = false := by
          cases hh : s.holds with
          | false => rfl
          | true => have := hH.mp hh; omega
        simp only [hp, patched]
        simp only [List.getElem?_cons_zero]
        constructor <;> (try simp [hp]) <;> (try assumption)
        · exact hP0 (by omega)
      · -- lookupCurrent
        have hf0 := hP0 (by omega)
        have hh : s.holds = true := hH.mpr (by omega)
        simp only [hp, patched, List.getElem?_cons_succ, List.getElem?_cons_zero, hf0,
          Option.isSome_none, Bool.false_eq_true, if_false]
        constructor <;> (try simp [hp, hh]) <;> (try assumption)
        · exact hLk hh
        · cases hc : s.current key with
          | none => left; rfl
          | some x => right; rw [hAC x hc]
        · intro hc
          rcases hL with hl | hl
          · rw [hl] at hc; simp at hc
          · exact hl
      · -- lookupOlder
        have hh : s.holds = true := hH.mpr (by omega)
        simp only [hp, patched, List.getElem?_cons_succ, List.getElem?_cons_zero]
        split
        · rename_i hsome
          have hfa : s.found = some a := by
            rcases hF with hf | hf
            · rw [hf] at hsome; simp at hsome
            · exact hf
          constructor <;> (try simp [hp, hh, hfa]) <;> (try assumption)
          · exact hLk hh
        · rename_i hnone
          have hfn : s.found = none := by
            cases hf : s.found with
            | none => rfl
            | some x => rw [hf] at hnone; simp at hnone
          obtain ⟨o, ho, hoa⟩ := hP2 hp hfn
          constructor <;> (try simp [hp, hh, ho, hoa]) <;> (try assumption)
          · intro o' x ho' hx
            exact hAO o' x (by rw [ho, ho']) hx
          · exact hLk hh
      · -- unlockReindex
        have hfa := hP3 (by omega)
        simp only [hp, patched, List.getElem?_cons_succ, List.getElem?_cons_zero]
        constructor <;> (try simp [hp, hfa]) <;> (try assumption)
      · -- past the end of the program
        have hfa := hP3 (by omega)
        have hnone : patched[s.pc]? = none := by
          simp [patched]; omega
        simp only [hnone]
        constructor <;> (try simp) <;> (try assumption)

theorem IInv.run {keys : List K} {key : K} {a : A} {s : ISt K A} (hk : key ∈ keys)
    (h : IInv key a s) (as : List (IAct K)) : IInv key a (irun keys patched key s as) := by
  induction as generalizing s with
  | nil => exact h
  | cons act as ih => exact ih (h.step hk act)

end Idx
end CRd
end Pdb
