/-
C13 helper lemmas, part 1: little-endian codec, `Reader`, one step of `LogReader::next`
on encoded actions (both directions).
-/
import Pdb.Model.Wal

namespace Pdb.Wal
open Pdb.Gen

/-! ### little endian -/

@[simp] theorem length_leBytes (k n : Nat) : (leBytes k n).length = k := by
  induction k generalizing n with
  | zero => rfl
  | succ k ih => simp [leBytes, ih]

theorem leVal_leBytes (k n : Nat) : leVal (leBytes k n) = n % 256 ^ k := by
  induction k generalizing n with
  | zero => simp [leBytes, leVal, Nat.mod_one]
  | succ k ih =>
    simp only [leBytes, leVal, ih]
    have h : (UInt8.ofNat (n % 256)).toNat = n % 256 := by
      simp [UInt8.toNat_ofNat']
    rw [h, Nat.pow_succ, Nat.mul_comm (256 ^ k) 256, Nat.mod_mul]

theorem leBytes_leVal (bs : Bytes) : leBytes bs.length (leVal bs) = bs := by
  induction bs with
  | nil => rfl
  | cons b bs ih =>
    have hb : b.toNat < 256 := UInt8.toNat_lt_size b
    simp only [List.length_cons, leBytes, leVal]
    have h1 : (b.toNat + 256 * leVal bs) % 256 = b.toNat := by omega
    have h2 : (b.toNat + 256 * leVal bs) / 256 = leVal bs := by omega
    rw [h1, h2, ih]
    simp

theorem leVal_lt (bs : Bytes) : leVal bs < 256 ^ bs.length := by
  induction bs with
  | nil => simp [leVal]
  | cons b bs ih =>
    have hb : b.toNat < 256 := UInt8.toNat_lt_size b
    simp only [leVal, List.length_cons, Nat.pow_succ]
    have : 256 * leVal bs + 256 ≤ 256 * 256 ^ bs.length := by
      have := Nat.mul_le_mul_left 256 (Nat.succ_le_of_lt ih)
      simpa [Nat.mul_succ] using this
    omega

theorem leVal_leBytes_of_lt {k n : Nat} (h : n < 256 ^ k) : leVal (leBytes k n) = n := by
  rw [leVal_leBytes, Nat.mod_eq_of_lt h]

/-- A list of `k` bytes is the `k`-byte encoding of its value. -/
theorem eq_leBytes_of_length {bs : Bytes} {k : Nat} (h : bs.length = k) :
    bs = leBytes k (leVal bs) := by
  subst h; exact (leBytes_leVal bs).symm

/-! ### Reader -/

theorem read_append (pre x tail : Bytes) :
    Reader.read x.length ⟨pre, x ++ tail⟩ = some (x, ⟨pre ++ x, tail⟩) := by
  simp [Reader.read]

theorem read_append' {n : Nat} (pre x tail : Bytes) (h : x.length = n) :
    Reader.read n ⟨pre, x ++ tail⟩ = some (x, ⟨pre ++ x, tail⟩) := by
  subst h; exact read_append pre x tail

theorem readRaw_append' {n : Nat} (pre x tail : Bytes) (h : x.length = n) :
    Reader.readRaw n ⟨pre, x ++ tail⟩ = some (x, ⟨pre, tail⟩) := by
  subst h; simp [Reader.readRaw]

@[simp] theorem read_leBytes (k n : Nat) (pre tail : Bytes) :
    Reader.read k ⟨pre, leBytes k n ++ tail⟩ = some (leBytes k n, ⟨pre ++ leBytes k n, tail⟩) :=
  read_append' pre _ tail (length_leBytes k n)

theorem read_some {n : Nat} {rd rd' : Reader} {x : Bytes} (h : rd.read n = some (x, rd')) :
    x.length = n ∧ rd.rest = x ++ rd'.rest ∧ rd'.consumed = rd.consumed ++ x := by
  unfold Reader.read at h
  split at h
  · cases h
  · rename_i hn
    simp only [Option.some.injEq, Prod.mk.injEq] at h
    obtain ⟨rfl, rfl⟩ := h
    refine ⟨?_, ?_, rfl⟩
    · simp [List.length_take]; omega
    · simp

theorem readRaw_some {n : Nat} {rd rd' : Reader} {x : Bytes} (h : rd.readRaw n = some (x, rd')) :
    x.length = n ∧ rd.rest = x ++ rd'.rest ∧ rd'.consumed = rd.consumed := by
  unfold Reader.readRaw at h
  split at h
  · cases h
  · rename_i hn
    simp only [Option.some.injEq, Prod.mk.injEq] at h
    obtain ⟨rfl, rfl⟩ := h
    refine ⟨?_, ?_, rfl⟩
    · simp [List.length_take]; omega
    · simp

theorem read_none {n : Nat} {rd : Reader} (h : rd.read n = none) : rd.rest.length < n := by
  unfold Reader.read at h
  split at h
  · assumption
  · cases h

/-! ### opcodes are pairwise distinct bytes (breaks if a Rust constant is mutated to clash) -/

theorem opcodes_ok :
    BEGIN_RECORD < 256 ∧ INSERT_INDEX < 256 ∧ INSERT_VALUE < 256 ∧ END_RECORD < 256 ∧
    DROP_TABLE < 256 ∧ INSERT_REF_COUNT < 256 ∧ DROP_REF_COUNT_TABLE < 256 ∧
    [BEGIN_RECORD, INSERT_INDEX, INSERT_VALUE, INSERT_REF_COUNT, END_RECORD, DROP_TABLE,
      DROP_REF_COUNT_TABLE].Nodup := by decide

theorem leVal_op {o : Nat} (h : o < 256) : leVal (leBytes 1 o) = o :=
  leVal_leBytes_of_lt (by simpa using h)

/-- `read_buf(2)`, `read_buf(8)` on an encoded table id and index. -/
theorem readTableIndex_enc {t i : Nat} (ht : t < U16) (hi : i < U64) (pre tail : Bytes) :
    readTableIndex ⟨pre, leBytes 2 t ++ (leBytes 8 i ++ tail)⟩ =
      some (t, i, ⟨pre ++ (leBytes 2 t ++ leBytes 8 i), tail⟩) := by
  have h2 : leVal (leBytes 2 t) = t := leVal_leBytes_of_lt (by simpa [U16] using ht)
  have h8 : leVal (leBytes 8 i) = i := leVal_leBytes_of_lt (by simpa [U64] using hi)
  simp [readTableIndex, h2, h8]

theorem readTableIndex_some {rd rd' : Reader} {t i : Nat}
    (h : readTableIndex rd = some (t, i, rd')) :
    t < U16 ∧ i < U64 ∧ rd.rest = leBytes 2 t ++ (leBytes 8 i ++ rd'.rest) ∧
      rd'.consumed = rd.consumed ++ (leBytes 2 t ++ leBytes 8 i) := by
  unfold readTableIndex at h
  split at h
  · cases h
  · rename_i tb rd1 h1
    split at h
    · cases h
    · rename_i ib rd2 h2
      simp only [Option.some.injEq, Prod.mk.injEq] at h
      obtain ⟨rfl, rfl, rfl⟩ := h
      obtain ⟨l1, r1, c1⟩ := read_some h1
      obtain ⟨l2, r2, c2⟩ := read_some h2
      have e1 := eq_leBytes_of_length l1
      have e2 := eq_leBytes_of_length l2
      refine ⟨?_, ?_, ?_, ?_⟩
      · have := leVal_lt tb; rw [l1] at this; simpa [U16] using this
      · have := leVal_lt ib; rw [l2] at this; simpa [U64] using this
      · rw [r1, r2, ← e1, ← e2]
      · rw [c2, c1, ← e1, ← e2, List.append_assoc]

end Pdb.Wal
