/-
C06 helper lemmas, part 7: removal (`write_remove_plan`), order-independence of the list of live
chains, and "reads of other chains are unaffected".
-/
import Pdb.Proofs.C06Main

namespace Pdb.ValueTable
open Pdb.Gen

/-- In a table without multipart support every chain is a single slot. -/
theorem IsChain_single (t : VT) (hmp : t.multipart = false) (c : List Nat) (h : IsChain t c) :
    ∃ a, c = [a] := by
  cases c with
  | nil => exact absurd h (by simp [IsChain])
  | cons a r =>
    cases r with
    | nil => exact ⟨a, rfl⟩
    | cons b r' =>
      simp only [IsChain, nextPart, hmp] at h
      simp at h

/-- `write_remove_plan` on the head of a live chain pushes every slot of the chain on the free
list and keeps the invariant. -/
theorem removePlan_spec (t : VT) (F c0 : List Nat) (Lr : List (List Nat))
    (hinv : SlotInv t F (c0 :: Lr)) (hb : t.filled ≤ 2 ^ 64) :
    ∃ t', removePlan t (c0.headD 0) = .ok (t', c0) ∧ SlotInv t' (c0.reverse ++ F) Lr ∧
      (∀ i ∈ Lr.flatten, t'.slots i = t.slots i) ∧ SameCfg t t' ∧ t'.filled = t.filled := by
  have hc0 : IsChain t c0 := hinv.chains c0 (by simp)
  have hnd := hinv.nodup
  have hrange := hinv.range
  have hcount := hinv.count
  rw [List.flatten_cons] at hnd hrange hcount
  have hc0nd : c0.Nodup := (List.nodup_append.mp (List.nodup_append.mp hnd).2.1).1
  have hdisjF : ∀ x ∈ c0, x ∉ F := by
    intro x hx hx'
    exact (List.nodup_append.mp hnd).2.2 x hx' x (by simp [hx]) rfl
  have hdisjL : ∀ x ∈ Lr.flatten, x ∉ c0 := by
    intro x hx hx'
    exact (List.nodup_append.mp (List.nodup_append.mp hnd).2.1).2.2 x hx' x hx rfl
  have hr0 : ∀ x ∈ c0, x ≠ 0 ∧ x < t.filled := by
    intro x hx
    have := hrange x (by simp [hx]); omega
  -- both branches produce `clearChain`'s result
  have hclear : ∃ t', removePlan t (c0.headD 0) = .ok (t', c0) ∧ SameCfg t t' ∧ t'.filled = t.filled ∧
      (∀ j, j ∉ c0 → t'.slots j = t.slots j) ∧ FreeChain t' t'.lastRemoved (c0.reverse ++ F) := by
    cases c0 with
    | nil => exact absurd hc0 (by simp [IsChain])
    | cons a r =>
      simp only [List.headD_cons]
      cases hmp : t.multipart
      · obtain ⟨a', ha'⟩ := IsChain_single t hmp _ hc0
        simp only [List.cons.injEq] at ha'
        obtain ⟨rfl, rfl⟩ := ha'
        have ha := hr0 a (by simp)
        refine ⟨clearSlot t a, by simp [removePlan, hmp], (clearSlot_cfg t a).1, rfl, ?_, ?_⟩
        · intro j hj; exact clearSlot_ne t a j (by simpa using hj)
        · simpa using clearSlot_free t F a hinv.free ha.1 ha.2 (hdisjF a (by simp)) hb
      · have := clearChain_spec r a t F t.filled hc0 hc0nd hr0 hdisjF hinv.free hb (by
          simp only [List.length_append, List.length_cons] at hcount; simp; omega)
        obtain ⟨t', h1, h2, h3, h4, h5⟩ := this
        exact ⟨t', by simp [removePlan, hmp, h1], h2, h3, h4, h5⟩
  obtain ⟨t', h1, h2, h3, h4, h5⟩ := hclear
  have hslotsL : ∀ i ∈ Lr.flatten, t'.slots i = t.slots i := fun i hi => h4 i (hdisjL i hi)
  refine ⟨t', h1, ⟨h5, ?_, ?_, ?_, ?_⟩, hslotsL, h2, h3⟩
  · have hperm : ((c0.reverse ++ F) ++ Lr.flatten).Perm (F ++ (c0 ++ Lr.flatten)) := by
      simp only [List.perm_iff_count]
      intro a
      simp only [List.count_append, List.count_reverse]
      omega
    rw [hperm.nodup_iff]; exact hnd
  · intro i hi
    rw [h3]
    apply hrange
    rcases List.mem_append.mp hi with h | h
    · rcases List.mem_append.mp h with h | h
      · simp [List.mem_reverse.mp h]
      · simp [h]
    · simp [h]
  · rw [h3]
    simp only [List.length_append, List.length_reverse] at hcount ⊢
    omega
  · intro c hc
    refine IsChain_congr t t' c (fun x hx => hslotsL x ?_) h2.2.1 (hinv.chains c (by simp [hc]))
    exact List.mem_flatten.mpr ⟨c, hc, hx⟩

/-- The order in which the live chains are listed is irrelevant. -/
theorem SlotInv_perm (t : VT) (F : List Nat) (L L' : List (List Nat)) (hp : L.Perm L')
    (h : SlotInv t F L) : SlotInv t F L' := by
  have hf : (F ++ L.flatten).Perm (F ++ L'.flatten) := List.Perm.append_left F hp.flatten
  refine ⟨h.free, hf.nodup_iff.mp h.nodup, ?_, ?_, ?_⟩
  · intro i hi; exact h.range i (hf.mem_iff.mpr hi)
  · have := hp.flatten.length_eq
    have := h.count
    omega
  · intro c hc; exact h.chains c (hp.mem_iff.mpr hc)

/-! ## reads of untouched chains -/

theorem readRest_congr (t t' : VT) (hcfg : SameCfg t t') :
    ∀ (c : List Nat) (f f' : Nat), IsChain t c → (∀ x ∈ c, t'.slots x = t.slots x) →
      c.length ≤ f → c.length ≤ f' → readRest t' f' (c.headD 0) = readRest t f (c.headD 0) := by
  intro c
  induction c with
  | nil => intro f f' h; exact absurd h (by simp [IsChain])
  | cons a r ih =>
    intro f f' hc hs hf hf'
    cases f with
    | zero => simp at hf
    | succ f =>
      cases f' with
      | zero => simp at hf'
      | succ f' =>
        simp only [List.headD_cons, readRest, hs a (by simp), hcfg.2.1, hcfg.1]
        cases r with
        | nil =>
          simp only [IsChain, nextPart] at hc
          by_cases hm : t.multipart = true ∧ isMulti (t.slots a)
          · rw [if_pos hm] at hc; exact absurd hc (by simp)
          · simp [hm]
        | cons b r' =>
          simp only [IsChain, nextPart] at hc
          by_cases hm : t.multipart = true ∧ isMulti (t.slots a)
          · rw [if_pos hm] at hc
            simp only [Option.some.injEq] at hc
            have hrec := ih f f' hc.2 (fun x hx => hs x (by simp [List.mem_cons] at hx ⊢; exact Or.inr hx))
              (by simp at hf ⊢; omega) (by simp at hf' ⊢; omega)
            simp only [List.headD_cons] at hrec
            simp only [if_pos hm, hc.1, hrec]
          · rw [if_neg hm] at hc; exact absurd hc.1 (by simp)

/-- A chain whose slots are untouched reads the same (whatever the key asked for). -/
theorem readChain_congr (t t' : VT) (hcfg : SameCfg t t') (key : TKey) (c : List Nat)
    (hc : IsChain t c) (hs : ∀ x ∈ c, t'.slots x = t.slots x)
    (hf : c.length ≤ t.filled) (hf' : c.length ≤ t'.filled) :
    readChain t' key (c.headD 0) = readChain t key (c.headD 0) := by
  cases c with
  | nil => exact absurd hc (by simp [IsChain])
  | cons a r =>
    simp only [List.headD_cons]
    unfold readChain
    simp only [hs a (by simp), hcfg.2.1, hcfg.1, hcfg.2.2, hcfg.refSize_eq]
    cases r with
    | nil =>
      simp only [IsChain, nextPart] at hc
      by_cases hm : t.multipart = true ∧ isMulti (t.slots a)
      · rw [if_pos hm] at hc; exact absurd hc (by simp)
      · have : decide (t.multipart = true ∧ isMulti (t.slots a)) = false := decide_eq_false hm
        simp only [this]
        simp
    | cons b r' =>
      simp only [IsChain, nextPart] at hc
      by_cases hm : t.multipart = true ∧ isMulti (t.slots a)
      · rw [if_pos hm] at hc
        simp only [Option.some.injEq] at hc
        have hrec := readRest_congr t t' hcfg (b :: r') t.filled t'.filled hc.2
          (fun x hx => hs x (by simp [List.mem_cons] at hx ⊢; exact Or.inr hx))
          (by simp at hf ⊢; omega) (by simp at hf' ⊢; omega)
        simp only [List.headD_cons] at hrec
        have : decide (t.multipart = true ∧ isMulti (t.slots a)) = true := decide_eq_true hm
        simp only [this, if_true, hc.1, hrec]
      · rw [if_neg hm] at hc; exact absurd hc.1 (by simp)

theorem length_le_flatten (L : List (List Nat)) (c : List Nat) (h : c ∈ L) :
    c.length ≤ L.flatten.length := by
  induction L with
  | nil => simp at h
  | cons a r ih =>
    rw [List.flatten_cons, List.length_append]
    rcases List.mem_cons.mp h with rfl | h
    · omega
    · have := ih h; omega

end Pdb.ValueTable
