/-
C10, P3: packing of tree nodes (column.rs claim_node / unpack_node_data).
-/
import Pdb.Model.MultiTree
namespace Pdb.MultiTree

theorem leU64_u64le (a : Nat) (h : a < 2 ^ 64) : leU64 (u64le a) = a := by
  simp only [u64le, leU64, List.foldr, Nat.shiftRight_eq_div_pow]
  omega

theorem u64le_length (a : Nat) : (u64le a).length = 8 := rfl

theorem flatMap_u64le_length (cs : List Nat) : (cs.flatMap u64le).length = 8 * cs.length := by
  induction cs with
  | nil => rfl
  | cons a cs ih => simp [List.flatMap_cons, u64le_length, ih]; omega

theorem chunk_at (cs : List Nat) (i : Nat) (hi : i < cs.length) (tail : List Nat) :
    ((cs.flatMap u64le ++ tail).drop (i * 8)).take 8 = u64le (cs.getD i 0) := by
  induction cs generalizing i with
  | nil => simp at hi
  | cons a cs ih =>
    cases i with
    | zero => simp [List.flatMap_cons, u64le]
    | succ i =>
      have : (i + 1) * 8 = 8 + i * 8 := by omega
      rw [List.flatMap_cons, List.append_assoc, this, ← List.drop_drop]
      have h8 : (u64le a ++ (List.flatMap u64le cs ++ tail)).drop 8 = List.flatMap u64le cs ++ tail := by
        simp [u64le]
      rw [h8]
      simpa using ih i (by simpa using hi)
end Pdb.MultiTree

namespace Pdb.MultiTree
theorem packNode_length (d cs : List Nat) : (packNode d cs).length = d.length + 8 * cs.length + 1 := by
  simp only [packNode, List.length_append, flatMap_u64le_length, List.length_cons, List.length_nil]

theorem C10_unpack_pack (d cs : List Nat) (hn : cs.length ≤ 255) (hc : ∀ a ∈ cs, a < 2 ^ 64) :
    unpackNode (packNode d cs) = .ok (d, cs) := by
  have hlen := packNode_length d cs
  have hmod : cs.length % 256 = cs.length := Nat.mod_eq_of_lt (by omega)
  have hlast : (packNode d cs).getD ((packNode d cs).length - 1) 0 = cs.length := by
    rw [hlen]
    simp only [packNode, hmod]
    have : d.length + 8 * cs.length + 1 - 1 = (d ++ cs.flatMap u64le).length := by
      simp only [List.length_append, flatMap_u64le_length]; omega
    rw [this]
    simp
  unfold unpackNode
  rw [hlast]
  have h1 : ¬ (packNode d cs).length = 0 := by omega
  have h2 : ¬ (packNode d cs).length < cs.length * 8 + 1 := by omega
  simp only [h1, h2, if_false]
  have hdl : (packNode d cs).length - (cs.length * 8 + 1) = d.length := by omega
  rw [hdl]
  congr 2
  · simp [packNode]
  · apply List.ext_getElem
    · simp
    · intro i h1 h2
      simp only [List.getElem_map, List.getElem_range]
      have hi : i < cs.length := by simpa using h1
      have : (packNode d cs).drop (d.length + i * 8) = ((cs.flatMap u64le ++ [cs.length % 256]).drop (i * 8)) := by
        simp only [packNode, List.append_assoc]
        rw [← List.drop_drop]
        simp
      rw [this, chunk_at cs i hi]
      rw [leU64_u64le]
      · simp [List.getD, hi]
      · apply hc; simp [List.getD, hi]
end Pdb.MultiTree

namespace Pdb.MultiTree
/-- the count byte wraps: with a multiple of 256 children the stored node parses as a node
    WITHOUT children whose data swallowed the child addresses. -/
theorem unpack_pack_wrapped (d cs : List Nat) (hn : cs.length % 256 = 0) :
    unpackNode (packNode d cs) = .ok (d ++ cs.flatMap u64le, []) := by
  have hlen := packNode_length d cs
  have hlast : (packNode d cs).getD ((packNode d cs).length - 1) 0 = 0 := by
    rw [hlen]
    simp only [packNode, hn]
    have : d.length + 8 * cs.length + 1 - 1 = (d ++ cs.flatMap u64le).length := by
      simp only [List.length_append, flatMap_u64le_length]; omega
    rw [this]
    simp
  unfold unpackNode
  rw [hlast]
  have h1 : ¬ (packNode d cs).length = 0 := by omega
  simp only [h1, if_false, Nat.zero_mul, Nat.zero_add]
  have h2 : ¬ (packNode d cs).length < 1 := by omega
  simp only [h2, if_false]
  have : (packNode d cs).length - 1 = (d ++ cs.flatMap u64le).length := by
    rw [hlen]; simp only [List.length_append, flatMap_u64le_length]; omega
  rw [this]
  simp only [List.range_zero, List.map_nil, packNode]
  rw [List.take_left']
  rfl

theorem packNode_size (d cs : List Nat) (hn : cs.length ≤ 255) (hd : d.length < 2 ^ 63) :
    (packNode d cs).length = Gen.packed_node_size d.length (cs.length % 256) := by
  rw [packNode_length]
  have hmod : cs.length % 256 = cs.length := Nat.mod_eq_of_lt (by omega)
  simp only [Gen.packed_node_size, Gen.wadd, Gen.wmul, Gen.wcast, hmod]
  omega
end Pdb.MultiTree
