/-
T2 soundness, index part: from `IndexOk d` (= `checkIndex d = true`) to the invariants of the
C09 / C14 theorems on `colOf d`: `IdxInv`, `Univ`, `Abs`, `NoLeak`, and the abstract `SlotInv`
(chains of the multipart table included), hence `Good`.
-/
import Pdb.Proofs.DumpCheckIndex

namespace Pdb.DumpCheck
open Pdb.Gen Pdb.Index Pdb.IndexPage

/-- the key universe of a dump -/
def U (d : ColumnDump) (k : Key) : Prop := k ∈ keysOf d

variable {d : ColumnDump}

theorem IndexOk.keyed_spec (ok : IndexOk d) :
    (keyed d).map (·.1) = headsOf d ∧ ∀ x ∈ keyed d, x.2.tail = x.1.slot.tail ∧
      (∃ t ∈ (colOf d).tables, t.Has x.2.pre x.1.addr) ∧ expectedOk d.expected x.2 = true :=
  keyedOf_ok _ _ _ _ _ ok.keyedEq

/-- two heads with the same tail are the same head -/
theorem IndexOk.head_inj (ok : IndexOk d) (x y : Head) (hx : x ∈ headsOf d) (hy : y ∈ headsOf d)
    (h : x.slot.tail = y.slot.tail) : x = y :=
  inj_of_nodup_map (fun h : Head => h.slot.tail) _ ok.tails x hx y hy h

theorem IndexOk.keyed_head (ok : IndexOk d) (x : Head × Key) (hx : x ∈ keyed d) : x.1 ∈ headsOf d := by
  rw [← ok.keyed_spec.1]
  exact List.mem_map_of_mem hx

/-- two keyed heads with the same key tail are the same pair -/
theorem IndexOk.keyed_inj (ok : IndexOk d) (x y : Head × Key) (hx : x ∈ keyed d) (hy : y ∈ keyed d)
    (h : x.2.tail = y.2.tail) : x = y := by
  have hn : ((keyed d).map (fun x : Head × Key => x.1.slot.tail)).Nodup := by
    have := ok.tails
    rw [← ok.keyed_spec.1, List.map_map] at this
    exact this
  apply inj_of_nodup_map (fun x : Head × Key => x.1.slot.tail) _ hn x hx y hy
  show x.1.slot.tail = y.1.slot.tail
  rw [← (ok.keyed_spec.2 x hx).1, ← (ok.keyed_spec.2 y hy).1]
  exact h

theorem IndexOk.head_keyed (ok : IndexOk d) (x : Head) (hx : x ∈ headsOf d) :
    ∃ k, (x, k) ∈ keyed d := by
  rw [← ok.keyed_spec.1] at hx
  obtain ⟨y, hy, rfl⟩ := List.mem_map.1 hx
  exact ⟨y.2, hy⟩

theorem IndexOk.univ (ok : IndexOk d) : Univ (U d) := by
  constructor
  · intro k hk
    obtain ⟨x, hx, rfl⟩ := List.mem_map.1 hk
    exact ok.pre x hx
  · intro k1 k2 h1 h2 ht
    obtain ⟨x, hx, rfl⟩ := List.mem_map.1 h1
    obtain ⟨y, hy, rfl⟩ := List.mem_map.1 h2
    rw [ok.keyed_inj x y hx hy ht]

theorem IndexOk.idxInv (ok : IndexOk d) : IdxInv (U d) (colOf d) := by
  have htab := tables_colOf d ok.nonempty
  refine ⟨?_, ok.order, ?_, ?_, ?_, ok.prog0⟩
  · intro t ht
    rw [htab] at ht
    obtain ⟨x, hx, rfl⟩ := List.mem_map.1 ht
    exact indexOf_wf x (ok.bits x hx).1 (ok.bits x hx).2
  · intro a tl h
    obtain ⟨x, hx, h1, h2⟩ := tailAt_colOf d a tl h
    obtain ⟨k, hk⟩ := ok.head_keyed x hx
    have := ok.keyed_spec.2 _ hk
    refine ⟨k, List.mem_map.2 ⟨_, hk, rfl⟩, by rw [this.1]; exact h2, ?_⟩
    rw [← h1]; exact this.2.1
  · intro a1 a2 tl h1 h2
    obtain ⟨x, hx, hx1, hx2⟩ := tailAt_colOf d a1 tl h1
    obtain ⟨y, hy, hy1, hy2⟩ := tailAt_colOf d a2 tl h2
    have := ok.head_inj x y hx hy (hx2.trans hy2.symm)
    rw [← hx1, ← hy1, this]
  · intro t0 rest ho k a hk hhas hchunk htl
    obtain ⟨x, hx, rfl⟩ := List.mem_map.1 hk
    obtain ⟨y, hy, hy1, hy2⟩ := tailAt_colOf d a _ htl
    have hxy : y = x.1 := by
      apply ok.head_inj y x.1 hy (ok.keyed_head x hx)
      rw [hy2, (ok.keyed_spec.2 x hx).1]
    have hp := ok.prog
    unfold progOk at hp
    rw [ho] at hp
    simp only [List.all_eq_true] at hp
    have := hp x hx
    rw [Bool.or_eq_true] at this
    rcases this with h1 | h1
    · rw [Bool.not_eq_true', Bool.and_eq_false_iff] at h1
      rcases h1 with h1 | h1
      · rw [← hy1, hxy] at hhas
        rw [(hasB_iff _ _ _).2 hhas] at h1
        cases h1
      · rw [decide_eq_false_iff_not] at h1
        exact absurd hchunk h1
    · rw [← hy1, hxy]
      exact (any_hasB _ _ _).1 h1

/-- the abstract map of the dump is the abstraction of `colOf d` -/
theorem IndexOk.abs (ok : IndexOk d) : Abs (U d) (colOf d) (absOf d) := by
  intro k hk v
  obtain ⟨x, hx, rfl⟩ := List.mem_map.1 hk
  have hfind : (keyed d).find? (fun y => y.2 == x.2) = some x := by
    cases hf : (keyed d).find? (fun y => y.2 == x.2) with
    | none =>
      have := List.find?_eq_none.1 hf x hx
      simp at this
    | some y =>
      have h1 := List.find?_some hf
      have h2 := List.mem_of_find?_eq_some hf
      rw [beq_iff_eq] at h1
      rw [ok.keyed_inj y x h2 hx (by rw [h1])]
  have hval : (colOf d).valAt x.1.addr = some ⟨x.2.tail, x.1.slot.val⟩ := by
    rw [(ok.heads x.1 (ok.keyed_head x hx)).1, (ok.keyed_spec.2 x hx).1]
  unfold absOf
  rw [hfind]
  simp only [Option.map_some, Option.some.injEq]
  constructor
  · intro hv
    exact ⟨x.1.addr, by rw [← hv]; exact hval⟩
  · rintro ⟨a, ha⟩
    obtain ⟨y, hy, hy1, hy2⟩ := valAt_colOf d a _ ha
    have : y = x.1 := by
      apply ok.head_inj y x.1 hy (ok.keyed_head x hx)
      rw [hy2, (ok.keyed_spec.2 x hx).1]
    rw [← this, hy2]

/-- `NoLeak` needs only `IdxInv` and `Abs` (same argument as `C14_no_leak`). -/
theorem noLeak_of {Uk : Key → Prop} {s : Col} {m : Key → Option Val} (hI : IdxInv Uk s)
    (hA : Abs Uk s m) : NoLeak Uk s m := by
  refine ⟨fun a sl ha => ?_, fun k v hk hm => ?_⟩
  · obtain ⟨tl, v⟩ := sl
    have ht : s.tailAt a = some tl := (tailAt_eq_some s a tl).2 ⟨v, ha⟩
    obtain ⟨k, hk, htl, _⟩ := hI.reach a tl ht
    refine ⟨k, hk, htl, (hA k hk v).2 ⟨a, ?_⟩⟩
    rw [htl]; exact ha
  · obtain ⟨a, ha⟩ := (hA k hk v).1 hm
    refine ⟨a, ha, fun a' ha' => ?_⟩
    exact hI.inj a' a k.tail ha' ((tailAt_eq_some s a k.tail).2 ⟨v, ha⟩)

theorem IndexOk.noLeak (ok : IndexOk d) : NoLeak (U d) (colOf d) (absOf d) :=
  noLeak_of ok.idxInv ok.abs

/-! ## the abstract `SlotInv` (chains included) -/

theorem mem_headsOfTable (td : TableDump) (h : Head) (hh : h ∈ headsOfTable td) :
    h.tier = td.tier ∧ h.addr = Address.new h.off td.tier ∧ 1 ≤ h.off ∧ h.off < td.filled := by
  unfold headsOfTable at hh
  obtain ⟨i, hi, rfl⟩ := List.mem_map.1 hh
  unfold headIdx at hi
  rw [List.mem_filter, List.mem_range, Bool.and_eq_true, decide_eq_true_eq] at hi
  exact ⟨rfl, rfl, hi.2.1, hi.1⟩

theorem mem_headsOf (d : ColumnDump) (h : Head) (hh : h ∈ headsOf d) :
    ∃ td ∈ d.tables, h ∈ headsOfTable td := by
  unfold headsOf at hh
  exact List.mem_flatMap.1 hh

structure AbsSlots (d : ColumnDump) : Prop where
  tier : ∀ td ∈ d.tables, ((colOf d).tier td.tier).filled = td.filled ∧
    ((colOf d).tier td.tier).free = freeOf td ∧ td.filled ≤ 2 ^ 56 ∧
    (((colOf d).tier td.tier).free ++ ownedOf ((colOf d).tier td.tier).chains).Nodup ∧
    (∀ off ∈ ((colOf d).tier td.tier).free ++ ownedOf ((colOf d).tier td.tier).chains,
      1 ≤ off ∧ off < td.filled ∧ (colOf d).tailAt (Address.new off td.tier) = none) ∧
    (∀ off, 1 ≤ off → off < td.filled →
      off ∈ ((colOf d).tier td.tier).free ++ ownedOf ((colOf d).tier td.tier).chains ∨
      ((colOf d).tailAt (Address.new off td.tier)).isSome = true) ∧
    (((colOf d).tier td.tier).chains.map (·.1)).Nodup ∧
    (∀ h ∈ ((colOf d).tier td.tier).chains.map (·.1), 1 ≤ h ∧ h < td.filled ∧
      ((colOf d).tailAt (Address.new h td.tier)).isSome = true)

theorem absSlotsOk_spec (d : ColumnDump) (h : absSlotsOk d (colOf d) = true) : AbsSlots d := by
  unfold absSlotsOk at h
  rw [List.all_eq_true] at h
  constructor
  intro td htd
  have := h td htd
  simp only [Bool.and_eq_true, decide_eq_true_eq, List.all_eq_true, List.mem_range,
    Bool.or_eq_true, Option.isNone_iff_eq_none] at this
  obtain ⟨⟨⟨⟨⟨⟨⟨a1, a2⟩, a3⟩, a4⟩, a5⟩, a6⟩, a7⟩, a8⟩ := this
  refine ⟨a1, a2, a3, a4, fun off ho => ?_, fun off h1 h2 => ?_, a7, fun hd hm => ?_⟩
  · obtain ⟨⟨b1, b2⟩, b3⟩ := a5 off ho
    exact ⟨b1, b2, b3⟩
  · rcases a6 off h2 with (h3 | h3) | h3
    · omega
    · exact Or.inl h3
    · exact Or.inr h3
  · obtain ⟨⟨b1, b2⟩, b3⟩ := a8 hd hm
    exact ⟨b1, b2, b3⟩

theorem IndexOk.slotInv (ok : IndexOk d) : Index.SlotInv (colOf d) := by
  have A := absSlotsOk_spec d ok.absSlots
  -- every live address decodes to (table, offset)
  have hdec : ∀ a tl, (colOf d).tailAt a = some tl → ∃ td ∈ d.tables, ∃ x ∈ headsOf d,
      x.tier = td.tier ∧ a = Address.new x.off td.tier ∧ 1 ≤ x.off ∧ x.off < td.filled := by
    intro a tl h
    obtain ⟨x, hx, h1, _⟩ := tailAt_colOf d a tl h
    obtain ⟨td, htd, hxt⟩ := mem_headsOf d x hx
    have := mem_headsOfTable td x hxt
    exact ⟨td, htd, x, hx, this.1, by rw [← h1]; exact this.2.1, this.2.2⟩
  -- the tier record of a tier number
  have htier : ∀ t, (colOf d).tiers.get t = none ∨ ∃ td ∈ d.tables, td.tier = t := by
    intro t
    cases hg : (colOf d).tiers.get t with
    | none => exact Or.inl rfl
    | some T =>
      obtain ⟨td, htd, h1, _⟩ := tiers_colOf d t T hg
      exact Or.inr ⟨td, htd, h1⟩
  have hinit : ∀ t, (colOf d).tiers.get t = none → (colOf d).tier t = Tier.init := by
    intro t h; unfold Col.tier; rw [h]; rfl
  refine ⟨fun tier => ⟨?_, ?_, ?_, ?_, ?_, ?_, ?_⟩, ?_⟩
  · -- fresh
    intro off ht ho hfree
    rcases hfree with hf | hf
    · rcases htier tier with h | ⟨td, htd, rfl⟩
      · rw [hinit tier h] at hf; simp [Tier.init, ownedOf] at hf
      · exact ((A.tier td htd).2.2.2.2.1 off hf).2.2
    · cases hta : (colOf d).tailAt (Address.new off tier) with
      | none => rfl
      | some tl =>
        exfalso
        obtain ⟨td, htd, x, hx, hx1, hx2, hx3, hx4⟩ := hdec _ tl hta
        have hA := A.tier td htd
        have hinj := address_new_inj off tier x.off td.tier ho ht (by omega) (ok.tiers.1 td htd) hx2
        rw [hinj.2, hA.1, hinj.1] at hf
        omega
  · -- nodup
    rcases htier tier with h | ⟨td, htd, rfl⟩
    · rw [hinit tier h]; simp [Tier.init, ownedOf]
    · exact (A.tier td htd).2.2.2.1
  · -- range
    intro off hoff
    rcases htier tier with h | ⟨td, htd, rfl⟩
    · rw [hinit tier h] at hoff; simp [Tier.init, ownedOf] at hoff
    · rw [(A.tier td htd).1]
      have := (A.tier td htd).2.2.2.2.1 off hoff
      exact ⟨this.1, this.2.1⟩
  · -- filled
    intro _
    rcases htier tier with h | ⟨td, htd, rfl⟩
    · rw [hinit tier h]; exact ⟨Nat.le_refl 1, by decide⟩
    · rw [(A.tier td htd).1]
      have := (ok.tables td htd).filled_pos
      exact ⟨by omega, (A.tier td htd).2.2.1⟩
  · -- cover
    intro off _ _ h1 h2
    rcases htier tier with h | ⟨td, htd, rfl⟩
    · rw [hinit tier h] at h2
      have : Tier.init.filled = 1 := rfl
      omega
    · rw [(A.tier td htd).1] at h2
      exact (A.tier td htd).2.2.2.2.2.1 off h1 h2
  · -- heads
    rcases htier tier with h | ⟨td, htd, rfl⟩
    · rw [hinit tier h]; simp [Tier.init]
    · exact (A.tier td htd).2.2.2.2.2.2.1
  · -- headLive
    intro hd _ hm
    rcases htier tier with h | ⟨td, htd, rfl⟩
    · rw [hinit tier h] at hm; simp [Tier.init] at hm
    · rw [(A.tier td htd).1]
      exact (A.tier td htd).2.2.2.2.2.2.2 hd hm
  · -- addr
    intro a tl h
    obtain ⟨td, htd, x, _, _, hx2, hx3, hx4⟩ := hdec a tl h
    exact ⟨td.tier, x.off, ok.tiers.1 td htd, hx3, by rw [(A.tier td htd).1]; exact hx4, hx2⟩

/-- every accepted dump satisfies the whole hypothesis `Good` of the C09/C14 theorems -/
theorem IndexOk.good (ok : IndexOk d) : Good (U d) (colOf d) (absOf d) :=
  ⟨ok.idxInv, ok.slotInv, ok.abs⟩

end Pdb.DumpCheck
