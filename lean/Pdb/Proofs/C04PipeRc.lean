/-
C04 pipeline, part 5: reference-counted btree columns.

  * `rcFold_spec`: the tree + count list after the changes of one transaction (one descent per
    change, `rcOne`) hold the cells `cellStep` computes (P1 cell semantics `applyCell .rc`);
    TreeInv is kept, no `stuck`;
  * `cellStep_sort`: applying the transaction sorted stably by key (as `write_plan` does) or in
    the order given is the same;
  * `rcFold_nowrite`: a transaction that writes nothing leaves the tree unchanged;
  * the step lemma `act_spec_rc` of the pipeline against `specActR`.
-/
import Pdb.Proofs.C04Pipe

namespace Pdb.C04

/-! ### cells as sorted lists -/

theorem lookup_valuesOf (cs : CellList) (k : Key) :
    lookup (valuesOf cs) k = (lookup cs k).map Prod.fst := by
  unfold valuesOf
  induction cs with
  | nil => rfl
  | cons a cs ih =>
    obtain ⟨k', v, n⟩ := a
    simp only [List.map_cons, lookup]
    by_cases h : k' = k
    · simp [h]
    · simp [h, ih]

theorem lookup_countsOf (cs : CellList) (k : Key) :
    lookup (countsOf cs) k = (lookup cs k).map Prod.snd := by
  unfold countsOf
  induction cs with
  | nil => rfl
  | cons a cs ih =>
    obtain ⟨k', v, n⟩ := a
    simp only [List.map_cons, lookup]
    by_cases h : k' = k
    · simp [h]
    · simp [h, ih]

theorem sorted_valuesOf {cs : CellList} (h : Sorted cs) : Sorted (valuesOf cs) := by
  unfold Sorted valuesOf at *
  rw [List.pairwise_map]
  exact h

theorem sorted_countsOf {cs : CellList} (h : Sorted cs) : Sorted (countsOf cs) := by
  unfold Sorted countsOf at *
  rw [List.pairwise_map]
  exact h

theorem mapSnd_put {β γ : Type} (f : β → γ) (l : List (Key × β)) (k : Key) (b : β) :
    (put l k b).map (fun e => (e.1, f e.2)) = put (l.map (fun e => (e.1, f e.2))) k (f b) := by
  induction l with
  | nil => rfl
  | cons a l ih =>
    obtain ⟨k', b'⟩ := a
    simp only [put, List.map_cons]
    by_cases h1 : keyLt k k' = true
    · simp only [h1, if_true, List.map_cons]
    · simp only [h1, if_false, Bool.false_eq_true]
      by_cases h2 : k = k'
      · simp only [h2, if_true, List.map_cons]
      · simp only [h2, if_false, List.map_cons, ih]

theorem mapSnd_del {β γ : Type} (f : β → γ) (l : List (Key × β)) (k : Key) :
    (del l k).map (fun e => (e.1, f e.2)) = del (l.map (fun e => (e.1, f e.2))) k := by
  induction l with
  | nil => rfl
  | cons a l ih =>
    obtain ⟨k', b'⟩ := a
    simp only [del, List.map_cons]
    by_cases h : k' = k
    · simp only [h, if_true]
    · simp only [h, if_false, List.map_cons, ih]

theorem valuesOf_put (cs : CellList) (k : Key) (v : String) (n : Nat) :
    valuesOf (put cs k (v, n)) = put (valuesOf cs) k v := mapSnd_put Prod.fst cs k (v, n)

theorem countsOf_put (cs : CellList) (k : Key) (v : String) (n : Nat) :
    countsOf (put cs k (v, n)) = put (countsOf cs) k n := mapSnd_put Prod.snd cs k (v, n)

theorem valuesOf_del (cs : CellList) (k : Key) : valuesOf (del cs k) = del (valuesOf cs) k :=
  mapSnd_del Prod.fst cs k

theorem countsOf_del (cs : CellList) (k : Key) : countsOf (del cs k) = del (countsOf cs) k :=
  mapSnd_del Prod.snd cs k

theorem put_same {β : Type} {l : List (Key × β)} (hs : Sorted l) {k : Key} {b : β}
    (h : lookup l k = some b) : put l k b = l :=
  sorted_ext (sorted_put hs k b) hs (fun x => by
    rw [lookup_put]
    by_cases e : k = x
    · simp [e, ← h]
    · simp [e])

theorem del_absent {β : Type} {l : List (Key × β)} {k : Key} (h : lookup l k = none) :
    del l k = l := del_not_mem (lookup_none.mp h)

/-! ### `applyCell .rc` keeps the value of a present key -/

theorem applyCell_rc_some (op : ROp) (v0 : String) (n0 : Nat) :
    applyCell Kind.rc op (some (v0, n0)) = none ∨
      ∃ n, applyCell Kind.rc op (some (v0, n0)) = some (v0, n) := by
  cases op with
  | set k v => exact Or.inr ⟨_, rfl⟩
  | ref k => exact Or.inr ⟨_, rfl⟩
  | deref k =>
    simp only [applyCell]
    by_cases h1 : n0 = LOCKED
    · simp only [h1, if_true]; exact Or.inr ⟨_, rfl⟩
    · simp only [h1, if_false]
      by_cases h2 : n0 ≤ 1
      · simp only [h2, if_true]; exact Or.inl trivial
      · simp only [h2, if_false]; exact Or.inr ⟨_, rfl⟩

/-! ### one change on the tree -/

theorem applyChanges_single {V : Type} (t : Tree V) (op : Op V) :
    applyChanges t [op] = applyOne t op := by
  show applyList t (dedupLast (stableSort [op])) = applyOne t op
  simp only [stableSort, insertFront, dedupLast, applyList]
  cases h : (applyOne t op).2 with
  | true => simp only [if_true]; rw [← h]
  | false => simp only [Bool.false_eq_true, if_false]

theorem applyOne_full {V : Type} (t : Tree V) (h : TreeInv t) (op : Op V) :
    (applyOne t op).2 = true ∧ (applyOne t op).1.toList = specApply [op] t.toList ∧
      TreeInv (applyOne t op).1 := by
  rw [← applyChanges_single]
  exact C04_change_refines t [op] h

/-- the tree and the count list hold the cells `cs` -/
structure RcRel (a : RcAcc) (cs : CellList) : Prop where
  tinv : TreeInv a.tree
  ok : a.ok = true
  scs : Sorted cs
  vals : a.tree.toList = valuesOf cs
  cnts : a.counts = countsOf cs

theorem cellOf_map (x : Option (String × Nat)) : cellOf (x.map Prod.fst) (x.map Prod.snd) = x := by
  cases x with
  | none => rfl
  | some c => obtain ⟨v, n⟩ := c; rfl

theorem RcRel.old {a : RcAcc} {cs : CellList} (h : RcRel a cs) (k : Key) :
    cellOf (nodeGet a.tree.depth a.tree.root k) (lookup a.counts k) = lookup cs k := by
  rw [Tree.get_spec a.tree h.tinv, h.vals, h.cnts, lookup_valuesOf, lookup_countsOf, cellOf_map]

theorem sorted_cellStep {cs : CellList} (hs : Sorted cs) (op : ROp) : Sorted (cellStep cs op) := by
  unfold cellStep
  cases applyCell Kind.rc op (lookup cs op.key) with
  | none => exact sorted_del hs _
  | some c => exact sorted_put hs _ _

theorem rcOne_spec {a : RcAcc} {cs : CellList} (h : RcRel a cs) (op : ROp) :
    RcRel (rcOne a op) (cellStep cs op) := by
  have hsort := sorted_cellStep h.scs op
  have e : rcOne a op =
      rcWrite a op.key (lookup cs op.key) (applyCell Kind.rc op (lookup cs op.key)) := by
    unfold rcOne
    simp only [h.old op.key]
  rw [e]
  unfold cellStep at *
  cases hl : lookup cs op.key with
  | none =>
    cases hn : applyCell Kind.rc op none with
    | none =>
      simp only [rcWrite]
      rw [del_absent hl]
      exact h
    | some c =>
      obtain ⟨v, n⟩ := c
      obtain ⟨f1, f2, f3⟩ := applyOne_full a.tree h.tinv (.set op.key v)
      simp only [rcWrite]
      rw [hl, hn] at hsort
      refine ⟨f3, by simp [h.ok, f1], hsort, ?_, ?_⟩
      · show (applyOne a.tree (.set op.key v)).1.toList = _
        rw [f2, valuesOf_put, h.vals]; rfl
      · show put a.counts op.key n = _
        rw [countsOf_put, h.cnts]
  | some c0 =>
    obtain ⟨v0, n0⟩ := c0
    rcases applyCell_rc_some op v0 n0 with hn | ⟨n, hn⟩
    · rw [hn]
      obtain ⟨f1, f2, f3⟩ := applyOne_full a.tree h.tinv (.del op.key)
      simp only [rcWrite]
      rw [hl, hn] at hsort
      refine ⟨f3, by simp [h.ok, f1], hsort, ?_, ?_⟩
      · show (applyOne a.tree (.del op.key)).1.toList = _
        rw [f2, valuesOf_del, h.vals]; rfl
      · show del a.counts op.key = _
        rw [countsOf_del, h.cnts]
    · rw [hn]
      simp only [rcWrite]
      rw [hl, hn] at hsort
      refine ⟨h.tinv, h.ok, hsort, ?_, ?_⟩
      · show a.tree.toList = _
        rw [valuesOf_put, h.vals]
        exact (put_same (sorted_valuesOf h.scs) (by rw [lookup_valuesOf, hl]; rfl)).symm
      · show put a.counts op.key n = _
        rw [countsOf_put, h.cnts]

theorem rcFold_spec (ops : List ROp) : ∀ {a : RcAcc} {cs : CellList}, RcRel a cs →
    RcRel (ops.foldl rcOne a) (ops.foldl cellStep cs) := by
  induction ops with
  | nil => intro a cs h; exact h
  | cons op ops ih => intro a cs h; exact ih (rcOne_spec h op)

/-! ### nothing written: same tree -/

theorem rcWrite_wrote_false (a : RcAcc) (k : Key) (old new : Cell String)
    (h : (rcWrite a k old new).wrote = false) : a.wrote = false ∧ (rcWrite a k old new).tree = a.tree := by
  cases old with
  | none =>
    cases new with
    | none => exact ⟨h, rfl⟩
    | some c => obtain ⟨v, n⟩ := c; simp [rcWrite] at h
  | some c0 =>
    cases new with
    | none => simp [rcWrite] at h
    | some c => obtain ⟨v, n⟩ := c; simp [rcWrite] at h

theorem rcFold_nowrite (ops : List ROp) : ∀ (a : RcAcc), (ops.foldl rcOne a).wrote = false →
    a.wrote = false ∧ (ops.foldl rcOne a).tree = a.tree := by
  induction ops with
  | nil => intro a h; exact ⟨h, rfl⟩
  | cons op ops ih =>
    intro a h
    obtain ⟨h1, h2⟩ := ih (rcOne a op) h
    obtain ⟨h3, h4⟩ := rcWrite_wrote_false a op.key _ _ h1
    exact ⟨h3, by rw [List.foldl_cons, h2]; exact h4⟩

/-! ### sorted or in the order given -/

theorem lookup_cellStep {cs : CellList} (hs : Sorted cs) (op : ROp) (k : Key) :
    lookup (cellStep cs op) k =
      if op.key = k then applyCell Kind.rc op (lookup cs k) else lookup cs k := by
  unfold cellStep
  by_cases e : op.key = k
  · subst e
    cases hn : applyCell Kind.rc op (lookup cs op.key) with
    | none => simp [lookup_del hs]
    | some c => simp [lookup_put]
  · cases hn : applyCell Kind.rc op (lookup cs op.key) with
    | none => simp [lookup_del hs, e]
    | some c => simp [lookup_put, e]

/-- the operations on one key applied to its cell -/
def cellFold (c : Cell String) (ops : List ROp) : Cell String :=
  ops.foldl (fun c op => applyCell Kind.rc op c) c

theorem sorted_cellStep_fold (ops : List ROp) : ∀ {cs : CellList}, Sorted cs →
    Sorted (ops.foldl cellStep cs) := by
  induction ops with
  | nil => intro cs h; exact h
  | cons op ops ih => intro cs h; exact ih (sorted_cellStep h op)

theorem lookup_cellStep_fold (ops : List ROp) : ∀ {cs : CellList}, Sorted cs → ∀ k,
    lookup (ops.foldl cellStep cs) k =
      cellFold (lookup cs k) (ops.filter (fun op => op.key = k)) := by
  induction ops with
  | nil => intro cs _ k; rfl
  | cons op ops ih =>
    intro cs hs k
    rw [List.foldl_cons, ih (sorted_cellStep hs op) k, lookup_cellStep hs, List.filter_cons]
    by_cases e : op.key = k
    · simp [e, cellFold]
    · simp [e]

theorem insertByKey_filter {α : Type} (key : α → Key) (x : α) (l : List α) (k : Key) :
    (insertByKey key x l).filter (fun op => key op = k) = (x :: l).filter (fun op => key op = k) := by
  induction l with
  | nil => rfl
  | cons y ys ih =>
    simp only [insertByKey]
    by_cases h : keyLt (key y) (key x) = true
    · rw [if_pos h]
      have hne : key y ≠ key x := keyLt_ne h
      simp only [List.filter_cons] at ih ⊢
      rw [ih]
      by_cases hx : key x = k
      · have hy : ¬ key y = k := fun e => hne (e.trans hx.symm)
        simp [hx, hy]
      · simp [hx]
    · rw [if_neg h]

theorem sortByKey_filter {α : Type} (key : α → Key) (l : List α) (k : Key) :
    (sortByKey key l).filter (fun op => key op = k) = l.filter (fun op => key op = k) := by
  induction l with
  | nil => rfl
  | cons x xs ih =>
    simp only [sortByKey]
    rw [insertByKey_filter]
    simp only [List.filter_cons, ih]

/-- `changes.sort()` (stable, by key) does not change what a transaction does to the cells. -/
theorem cellStep_sort {cs : CellList} (hs : Sorted cs) (ops : List ROp) :
    (sortByKey Pdb.Op.key ops).foldl cellStep cs = ops.foldl cellStep cs :=
  sorted_ext (sorted_cellStep_fold _ hs) (sorted_cellStep_fold _ hs) (fun k => by
    rw [lookup_cellStep_fold _ hs, lookup_cellStep_fold _ hs, sortByKey_filter])

/-! ### the cells of the specification are the P1 specification -/

theorem lookup_cellsAfter_aux (ops : List ROp) : ∀ {cs : CellList}, Sorted cs → ∀ k,
    lookup (ops.foldl cellStep cs) k = Pdb.applyOps (fun _ => Kind.rc) (lookup cs) ops k := by
  induction ops with
  | nil => intro cs _ k; rfl
  | cons op ops ih =>
    intro cs hs k
    rw [List.foldl_cons, ih (sorted_cellStep hs op) k]
    unfold Pdb.applyOps
    rw [List.foldl_cons]
    have : lookup (cellStep cs op) = Pdb.applyOp (fun _ => Kind.rc) (lookup cs) op := by
      funext x
      rw [lookup_cellStep hs]
      simp only [Pdb.applyOp, Pdb.upd]
      by_cases e : x = op.key
      · subst e; simp
      · have e' : ¬ op.key = x := fun h => e h.symm
        simp [e, e']
    rw [this]

theorem sorted_cellsAfter (txs : List (List ROp)) : Sorted (cellsAfter txs) :=
  sorted_cellStep_fold _ sorted_nil

/-- The cells of the specification are the cells of the P1 specification (`Pdb.spec`: every
    accepted operation folded, in commit order, over the empty map) on byte-string keys. -/
theorem lookup_cellsAfter (txs : List (List ROp)) (k : Key) :
    lookup (cellsAfter txs) k = Pdb.spec (fun _ => Kind.rc) txs k := by
  unfold cellsAfter Pdb.spec
  rw [lookup_cellsAfter_aux _ sorted_nil]
  rfl

theorem cellsAfter_snoc (txs : List (List ROp)) (tx : List ROp) :
    cellsAfter (txs ++ [tx]) = tx.foldl cellStep (cellsAfter txs) := by
  simp [cellsAfter, List.foldl_append]

end Pdb.C04
