/-
C09: reindex batches, the drop of the old table, re-launched growth.
-/
import Pdb.Proofs.C09Write

namespace Pdb.Index
open Pdb.Gen Pdb.IndexPage

theorem Good.frame {U : Key → Prop} {s s' : Col} {m : Key → Option Val} (hG : Good U s m)
    (hI : IdxInv U s') (ht : ∀ t, s'.tier t = s.tier t) (hv : ∀ x, s'.valAt x = s.valAt x) :
    Good U s' m :=
  ⟨hI, hG.slots.congr ht (fun x => by simp only [Col.tailAt, hv]), hG.abs.congr hv⟩

/-! ## `drop_index` -/

theorem dropPending_iff (s : Col) : dropPending s = true ↔
    ∃ t0 rest, s.older = t0 :: rest ∧ s.progress = total_chunks t0.bits := by
  unfold dropPending
  cases h : s.older with
  | nil => simp
  | cons t0 rest => simp

/-- C09_drop_no_loss: when the queue front is dropped every live value stays reachable. -/
theorem enactDrop_ok {U : Key → Prop} {s : Col} {m : Key → Option Val} (hU : Univ U)
    (hG : Good U s m) : Good U (enactDrop s) m := by
  unfold enactDrop
  by_cases hd : dropPending s = true
  · simp only [hd, if_true]
    obtain ⟨t0, rest, hol, hp⟩ := (dropPending_iff s).1 hd
    refine hG.frame ?_ (fun _ => rfl) (fun _ => rfl)
    have hI := hG.idx
    refine ⟨?_, ?_, ?_, hI.inj, ?_, fun _ => rfl⟩
    · intro t ht
      apply hI.wf t
      simp only [Col.tables, hol, List.tail_cons] at ht ⊢
      rcases List.mem_cons.1 ht with h1 | h1
      · rw [h1]; simp
      · exact List.mem_cons_of_mem _ (List.mem_cons_of_mem _ h1)
    · have := hI.order
      rw [hol] at this
      simp only [hol, List.tail_cons]
      simp only [List.cons_append, List.map_cons] at this
      exact (List.pairwise_cons.1 this).2
    · intro a tl ha
      obtain ⟨k, hk, htl, t, ht, hh⟩ := hI.reach a tl ha
      refine ⟨k, hk, htl, ?_⟩
      simp only [Col.tables, hol, List.tail_cons] at ht ⊢
      rcases List.mem_cons.1 ht with h1 | h1
      · exact ⟨t, by rw [h1]; simp, hh⟩
      · rcases List.mem_cons.1 h1 with h2 | h2
        · subst h2
          have hwf := hI.wf t (by simp [Col.tables, hol])
          have hch : t.chunk k.pre < s.progress := by
            rw [hp]
            rcases chunk_index_lt t.bits k.pre (by have := hwf.lo; omega) (by have := hwf.hi; omega)
              (hU.pre_lt k hk) with h3 | h3
            · exact h3
            · have := hwf.hi; omega
          exact hI.prog t rest hol k a hk hh hch (by rw [htl]; exact ha)
        · exact ⟨t, List.mem_cons_of_mem _ h2, hh⟩
    · intro t0' rest' _ k a _ _ hch
      exact absurd hch (Nat.not_lt_zero _)
  · simp only [hd]
    exact hG

/-! ## `trigger_reindex` alone (growth re-launched by the validation of a rejected record) -/

theorem triggerReindex_ok {U : Key → Prop} {s : Col} {m : Key → Option Val} (hG : Good U s m)
    (hb : s.current.bits + 1 ≤ 49) : Good U (triggerReindex s) m :=
  hG.frame (hG.idx.ext (Ext.trigger s) (hG.idx.shape.trigger hb)) (fun _ => rfl) (fun _ => rfl)

theorem relaunch_ok {U : Key → Prop} {m : Key → Option Val} : ∀ (g : Nat) (s : Col), Good U s m →
    s.current.bits + g ≤ 49 → Good U (relaunch s g) m := by
  intro g
  induction g with
  | zero => intro s hG _; exact hG
  | succ g ih =>
    intro s hG hb
    unfold relaunch
    apply ih _ (triggerReindex_ok hG (by omega))
    simp only [triggerReindex, Table.new]
    omega

/-! ## one reindex step (`write_reindex_plan`) -/

theorem Table.has_congr (t : Table) (kp1 kp2 a : Nat)
    (hc : chunk_index t.bits kp1 = chunk_index t.bits kp2)
    (hk : Entry.extract_key kp1 t.bits = Entry.extract_key kp2 t.bits) (h : t.Has kp1 a) :
    t.Has kp2 a := by
  obtain ⟨i, hi, hm, ha⟩ := h
  have hch : t.chunk kp1 = t.chunk kp2 := hc
  refine ⟨i, hi, ?_, ?_⟩
  · rw [← hch]
    unfold BaseMatch at hm ⊢
    rw [← hk]; exact hm
  · rw [← hch]; exact ha

/-- some table newer than the queue front holds the entry -/
def Newer (s : Col) (kp a : Nat) : Prop := ∃ t ∈ s.current :: s.older.tail, t.Has kp a

theorem Ext.newer {s s' : Col} (h : Ext s s') (hne : s.older ≠ []) (kp a : Nat)
    (hn : Newer s kp a) : Newer s' kp a := by
  obtain ⟨p, ho, hm⟩ := h.tables
  obtain ⟨t, ht, hh⟩ := hn
  cases hso : s.older with
  | nil => exact absurd hso hne
  | cons u us =>
    have htail : s'.older.tail = us ++ p := by rw [ho, hso]; rfl
    rw [hso] at ht
    simp only [List.tail_cons] at ht
    unfold Newer
    rw [htail]
    rcases List.mem_cons.1 ht with h1 | h1
    · subst h1
      obtain ⟨t', ht', hh'⟩ := hm kp a hh
      refine ⟨t', ?_, hh'⟩
      rcases List.mem_cons.1 ht' with h2 | h2
      · subst h2; simp
      · exact List.mem_cons_of_mem _ (List.mem_append_right _ h2)
    · exact ⟨t, List.mem_cons_of_mem _ (List.mem_append_left _ h1), hh⟩

theorem Ext.older_ne {s s' : Col} (h : Ext s s') (hne : s.older ≠ []) : s'.older ≠ [] := by
  obtain ⟨p, ho, _⟩ := h.tables
  rw [ho]
  intro h0
  exact hne (List.append_eq_nil_iff.1 h0).1

theorem ExactCur.ext {s s' : Col} (hx : ExactCur s) (h : Ext s s') : ExactCur s' := by
  unfold ExactCur ExactAt at hx ⊢
  rw [h.cfg]
  rcases hx with h1 | h1
  · exact Or.inl h1
  · exact Or.inr (Nat.le_trans h1 h.bits)

theorem containsAddr_has (s : Col) (kp a : Nat) (hwf : TableWF s.current) (hx : ExactCur s)
    (h : containsAddr s kp a = true) : s.current.Has kp a := by
  unfold containsAddr at h
  cases hs : scanPage s.cfg.exact s.current.bits kp (s.current.page (s.current.chunk kp))
      (fun a' => a' == a) SCAN_FUEL 0 with
  | none => rw [hs] at h; simp at h
  | some r =>
    obtain ⟨i, a'⟩ := r
    have := scanPage_sound s.cfg.exact s.current.bits kp _ _ hwf.hi (hwf.pages _).2 _ _ i a' hs
    have ha : a' = a := by simpa using this.2.2.2.2.1
    subst ha
    exact ⟨i, this.2.1, this.2.2.2.2.2 hx, this.2.2.2.1.symm⟩

theorem writeReindex_bits (s s' : Col) (kp a : Nat) (h : writeReindex s kp a = .ok s') :
    s.current.bits ≤ s'.current.bits := by
  unfold writeReindex at h
  by_cases hc : containsAddr s kp a = true
  · simp only [hc, if_true] at h
    injection h with h; subst h; exact Nat.le_refl _
  · simp only [hc] at h
    exact insertLoop_bits kp a _ _ _ h

theorem writeReindex_ok (s s' : Col) (kp a : Nat) (hS : Shape s) (hx : ExactCur s)
    (h : writeReindex s kp a = .ok s') (hb : s'.current.bits ≤ 49) :
    Ext s s' ∧ Shape s' ∧ (a ≠ 0 → s'.current.Has kp a) := by
  unfold writeReindex at h
  by_cases hc : containsAddr s kp a = true
  · simp only [hc, if_true] at h
    injection h with h; subst h
    exact ⟨Ext.refl s, hS, fun _ => containsAddr_has s kp a (hS.wf _ (by simp [Col.tables])) hx hc⟩
  · simp only [hc] at h
    exact insertLoop_ok kp a _ s s' hS h hb

theorem Res.bind_ok {r : Res} {f : Col → Res} {s' : Col} (h : r.bind f = .ok s') :
    ∃ s1, r = .ok s1 ∧ f s1 = .ok s' := by
  cases r with
  | ok s1 => exact ⟨s1, rfl, h⟩
  | panic => simp only [Res.bind] at h; cases h
  | diverge => simp only [Res.bind] at h; cases h

theorem applyPlan_bits : ∀ (plan : List (Nat × Nat)) (s s' : Col),
    applyPlan s plan = .ok s' → s.current.bits ≤ s'.current.bits := by
  intro plan
  induction plan with
  | nil => intro s s' h; simp only [applyPlan] at h; injection h with h; subst h; exact Nat.le_refl _
  | cons x rest ih =>
    intro s s' h
    obtain ⟨kp, a⟩ := x
    simp only [applyPlan] at h
    obtain ⟨s1, h1, h2⟩ := Res.bind_ok h
    exact Nat.le_trans (writeReindex_bits s s1 kp a h1) (ih s1 s' h2)

theorem applyPlan_ok : ∀ (plan : List (Nat × Nat)) (s s' : Col), Shape s → ExactCur s →
    s.older ≠ [] → applyPlan s plan = .ok s' → s'.current.bits ≤ 49 →
    Ext s s' ∧ Shape s' ∧ ∀ kp a, (kp, a) ∈ plan → a ≠ 0 → Newer s' kp a := by
  intro plan
  induction plan with
  | nil =>
    intro s s' hS _ _ h _
    simp only [applyPlan] at h
    injection h with h; subst h
    exact ⟨Ext.refl s, hS, fun _ _ hm => absurd hm (by simp)⟩
  | cons x rest ih =>
    intro s s' hS hx hne h hb
    obtain ⟨kp, a⟩ := x
    simp only [applyPlan] at h
    obtain ⟨s1, h1, h2⟩ := Res.bind_ok h
    have hb1 : s1.current.bits ≤ 49 := Nat.le_trans (applyPlan_bits rest s1 s' h2) hb
    obtain ⟨hE1, hS1, hH1⟩ := writeReindex_ok s s1 kp a hS hx h1 hb1
    have hne1 := hE1.older_ne hne
    obtain ⟨hE2, hS2, hN2⟩ := ih s1 s' hS1 (hx.ext hE1) hne1 h2 hb
    refine ⟨hE1.trans hE2, hS2, fun kp' a' hm h0 => ?_⟩
    rcases List.mem_cons.1 hm with h3 | h3
    · injection h3 with e1 e2
      subst e1; subst e2
      exact hE2.newer hne1 _ _ ⟨s1.current, by simp, hH1 h0⟩
    · exact hN2 kp' a' h3 h0

/-! ## the batch plan (`HashColumn::reindex`) -/

theorem collectChunk_mem (b c : Nat) (page : List Nat) (i : Nat) (hi : i < page.length)
    (hne : page.getD i 0 ≠ 0) :
    (recover_index_key b c (page.getD i 0), Entry.address (page.getD i 0) b) ∈ collectChunk b c page := by
  have he : page.getD i 0 = page[i] := by
    rw [List.getD_eq_getElem?_getD, List.getElem?_eq_getElem hi]; rfl
  unfold collectChunk
  rw [List.mem_filterMap]
  refine ⟨page.getD i 0, ?_, by rw [if_neg hne]⟩
  rw [he]
  exact List.getElem_mem hi

theorem collectPlan_spec (t : Table) : ∀ (f c : Nat) (acc : List (Nat × Nat)) (n : Nat),
    c ≤ (collectPlan t f c acc n).2 ∧
    (∀ x ∈ acc, x ∈ (collectPlan t f c acc n).1) ∧
    ∀ c', c ≤ c' → c' < (collectPlan t f c acc n).2 →
      ∀ x ∈ collectChunk t.bits c' (t.page c'), x ∈ (collectPlan t f c acc n).1 := by
  intro f
  induction f with
  | zero =>
    intro c acc n
    simp only [collectPlan]
    exact ⟨Nat.le_refl _, fun x hx => hx, fun c' h1 h2 => by omega⟩
  | succ f ih =>
    intro c acc n
    unfold collectPlan
    by_cases hc : c < total_chunks t.bits ∧ n < MAX_REINDEX_BATCH
    · simp only [hc, and_self, if_true]
      obtain ⟨h1, h2, h3⟩ := ih (c + 1) ((collectChunk t.bits c (t.page c)).reverse ++ acc)
        (n + (collectChunk t.bits c (t.page c)).length)
      refine ⟨by omega, fun x hx => h2 x (List.mem_append_right _ hx), fun c' hc1 hc2 x hx => ?_⟩
      by_cases hcc : c' = c
      · subst hcc
        exact h2 x (List.mem_append_left _ (List.mem_reverse.2 hx))
      · exact h3 c' (by omega) hc2 x hx
    · simp only [hc, if_false]
      exact ⟨Nat.le_refl _, fun x hx => hx, fun c' h1 h2 => by omega⟩

/-! ## `process_reindex` -/

/-- C09_batch_no_loss: a reindex batch keeps the invariants (exact page search required for
"same address already present"). -/
theorem reindexBatch_ok {U : Key → Prop} {s s' : Col} {m : Key → Option Val} (hU : Univ U)
    (hG : Good U s m) (hx : ExactCur s) (h : reindexBatch s = .ok s') (hB : Bounded s') :
    Good U s' m ∧ ExactCur s' := by
  unfold reindexBatch at h
  cases hol : s.older with
  | nil =>
    rw [hol] at h
    simp only at h
    injection h with h; subst h
    exact ⟨hG, hx⟩
  | cons t0 rest =>
    rw [hol] at h
    simp only at h
    by_cases hp : s.progress = total_chunks t0.bits
    · simp only [hp, if_true] at h
      injection h with h; subst h
      exact ⟨hG, hx⟩
    · simp only [hp, if_false] at h
      have hI := hG.idx
      -- the state with the advanced progress counter
      generalize hplan : collectPlan t0 (total_chunks t0.bits - s.progress) s.progress [] 0 = r at h
      rw [← hol] at h
      have hspec := collectPlan_spec t0 (total_chunks t0.bits - s.progress) s.progress [] 0
      rw [hplan] at hspec
      obtain ⟨hle, _, hmem⟩ := hspec
      have hSp : Shape ({ s with progress := r.2 } : Col) := ⟨hI.wf, hI.order⟩
      have hne : ({ s with progress := r.2 } : Col).older ≠ [] := by
        show s.older ≠ []
        rw [hol]; simp
      obtain ⟨hE, hS', hN⟩ := applyPlan_ok r.1.reverse _ s' hSp hx hne h hB.bits
      obtain ⟨pushed, hol', hmono⟩ := hE.tables
      have hol'' : s'.older = t0 :: (rest ++ pushed) := by
        rw [hol']; show s.older ++ pushed = _; rw [hol]; rfl
      have htail : ∀ x, s'.tailAt x = s.tailAt x := fun x => hE.tailAt x
      have hIdx : IdxInv U s' := by
        refine ⟨hS'.wf, hS'.order, ?_, ?_, ?_, ?_⟩
        · intro a tl ha
          rw [htail] at ha
          obtain ⟨k, hk, htl, t, ht, hh⟩ := hI.reach a tl ha
          obtain ⟨t', ht', hh'⟩ := hE.has_all k.pre a t ht hh
          exact ⟨k, hk, htl, t', ht', hh'⟩
        · intro a1 a2 tl h1 h2
          rw [htail] at h1 h2
          exact hI.inj a1 a2 tl h1 h2
        · intro t0' rest' hol3 k a hk hh hch hta
          rw [hol''] at hol3
          injection hol3 with e1 e2
          subst e1
          rw [htail] at hta
          have hprog' : s'.progress = r.2 := hE.progress
          rw [hprog'] at hch
          have hnewer : Newer s' k.pre a := by
            by_cases hold : t0.chunk k.pre < s.progress
            · obtain ⟨t, ht, hht⟩ := hI.prog t0 rest hol k a hk hh hold hta
              apply hE.newer hne
              refine ⟨t, ?_, hht⟩
              show t ∈ s.current :: s.older.tail
              rw [hol]; exact ht
            · -- the entry is part of this batch
              obtain ⟨i, hi, hm, haddr⟩ := hh
              have hwf0 := hI.wf t0 (by simp [Col.tables, hol])
              have hlen := (hwf0.pages (t0.chunk k.pre)).1
              have hin := collectChunk_mem t0.bits (t0.chunk k.pre) (t0.page (t0.chunk k.pre)) i
                (by omega) hm.2
              rw [haddr] at hin
              have hplanmem := hmem (t0.chunk k.pre) (by omega) hch _ hin
              have ha0 : a ≠ 0 := (hG.slots.decode a k.tail hta).2.2.2.2
              obtain ⟨t, ht, hht⟩ := hN _ a (List.mem_reverse.2 hplanmem) ha0
              -- `t` has at least as many bits as the source: the recovered prefix is as good
              have htb : t0.bits ≤ t.bits ∧ t.bits ≤ 49 := by
                have hwft : TableWF t := by
                  apply hS'.wf t
                  simp only [Col.tables]
                  rcases List.mem_cons.1 ht with h1 | h1
                  · rw [h1]; simp
                  · exact List.mem_cons_of_mem _ (List.mem_of_mem_tail h1)
                refine ⟨?_, hwft.hi⟩
                have hord := hS'.order
                rw [hol''] at hord
                simp only [List.cons_append, List.map_cons] at hord
                have hall := (List.pairwise_cons.1 hord).1
                have : t.bits ∈ List.map (fun x => x.bits) (rest ++ pushed ++ [s'.current]) := by
                  apply List.mem_map.2
                  refine ⟨t, ?_, rfl⟩
                  rcases List.mem_cons.1 ht with h1 | h1
                  · rw [h1]; simp
                  · rw [hol''] at h1
                    simp only [List.tail_cons] at h1
                    exact List.mem_append_left _ h1
                exact Nat.le_of_lt (hall _ this)
              have hrs := recover_spec t0.bits k.pre ((t0.page (t0.chunk k.pre)).getD i 0) hwf0.lo
                hwf0.hi (hU.pre_lt k hk) hm.1 t.bits htb.1 htb.2
              exact ⟨t, ht, Table.has_congr t _ k.pre a hrs.1 hrs.2 hht⟩
          obtain ⟨t, ht, hht⟩ := hnewer
          refine ⟨t, ?_, hht⟩
          rw [hol''] at ht
          simp only [List.tail_cons] at ht
          rw [← e2]; exact ht
        · intro h0
          rw [hol''] at h0
          exact absurd h0 (by simp)
      exact ⟨hG.frame hIdx (fun t => by simp only [Col.tier, hE.tiers]) (fun x => hE.valAt x),
        ExactCur.ext (s := { s with progress := r.2 }) hx hE⟩

end Pdb.Index
