/-
Lemmas for Pdb/Props/C09Replay.lean (replay of index-layer log records is idempotent /
absorbs an already enacted prefix).

Proof structure:
  * structure lemmas (`cur` monotone, dead tables stay dead, `StructOK` preserved),
  * `Settled`: after the first pass every op of `mid` is structurally neutral, so the second
    pass runs with constant structure (`second_pass_*`),
  * last-writer lemmas for the first pass (`first_pass_*`),
  * both together give equality per location, hence equality of states.
-/
import Pdb.Model.IndexReplay

namespace Pdb.IndexReplay

theorem snoc_induction {α : Type} {P : List α → Prop} (nil : P [])
    (snoc : ∀ l a, P l → P (l ++ [a])) : ∀ l, P l := by
  intro l
  have : ∀ r : List α, P r.reverse := by
    intro r
    induction r with
    | nil => simpa
    | cons a r ih => simpa [List.reverse_cons] using snoc _ a ih
  simpa using this l.reverse

theorem St.ext' {A B : St} (h1 : A.cur = B.cur) (h2 : A.queue = B.queue)
    (h3 : A.idx = B.idx) (h4 : A.vals = B.vals) : A = B := by
  cases A; cases B
  simp only [St.mk.injEq]
  exact ⟨h1, h2, h3, h4⟩

/-! ### unfolding lemmas -/

theorem applyOp_idx (s : St) (b c i e : Nat) : applyOp s (.idx b c i e) = applyIdx s b c i e := rfl
theorem applyOp_val (s : St) (a v : Nat) : applyOp s (.val a v) = writeVal s a v := rfl
theorem applyOp_drop (s : St) (b : Nat) : applyOp s (.drop b) = dropFront s b := rfl

theorem writeIdx_cur (s : St) (b c i e : Nat) : (writeIdx s b c i e).cur = s.cur := rfl
theorem writeIdx_queue (s : St) (b c i e : Nat) : (writeIdx s b c i e).queue = s.queue := rfl
theorem writeIdx_vals (s : St) (b c i e : Nat) : (writeIdx s b c i e).vals = s.vals := rfl
theorem writeIdx_idx (s : St) (b c i e b' c' i' : Nat) :
    (writeIdx s b c i e).idx b' c' i' = if b' = b ∧ c' = c ∧ i' = i then e else s.idx b' c' i' :=
  rfl
theorem live_writeIdx (s : St) (b c i e x : Nat) : live (writeIdx s b c i e) x = live s x := rfl

theorem writeVal_cur (s : St) (a v : Nat) : (writeVal s a v).cur = s.cur := rfl
theorem writeVal_queue (s : St) (a v : Nat) : (writeVal s a v).queue = s.queue := rfl
theorem writeVal_idx (s : St) (a v : Nat) : (writeVal s a v).idx = s.idx := rfl
theorem writeVal_vals (s : St) (a v a' : Nat) :
    (writeVal s a v).vals a' = if a' = a then v else s.vals a' := rfl
theorem live_writeVal (s : St) (a v x : Nat) : live (writeVal s a v) x = live s x := rfl

theorem reindex_cur (s : St) : (reindex s).cur = s.cur + 1 := rfl
theorem reindex_queue (s : St) : (reindex s).queue = s.queue ++ [s.cur] := rfl
theorem reindex_vals (s : St) : (reindex s).vals = s.vals := rfl
theorem reindex_idx (s : St) (b c i : Nat) :
    (reindex s).idx b c i = if b = s.cur + 1 then 0 else s.idx b c i := rfl

theorem growTo_zero (s : St) (b : Nat) : growTo 0 s b = s := rfl
theorem growTo_succ (n : Nat) (s : St) (b : Nat) :
    growTo (n + 1) s b = if s.cur < b then growTo n (reindex s) b else s := rfl

theorem dropFront_front {s : St} {b : Nat} (h : s.queue.head? = some b) :
    dropFront s b = { s with queue := s.queue.tail } := if_pos h
theorem dropFront_notfront {s : St} {b : Nat} (h : s.queue.head? ≠ some b) :
    dropFront s b = s := if_neg h

theorem replayOps_nil (s : St) : replayOps s [] = s := rfl
theorem replayOps_cons (s : St) (o : Op) (ops : List Op) :
    replayOps s (o :: ops) = replayOps (applyOp s o) ops := rfl
theorem replayOps_append (s : St) (xs ys : List Op) :
    replayOps s (xs ++ ys) = replayOps (replayOps s xs) ys := by
  simp only [replayOps, List.foldl_append]
theorem replayOps_snoc (s : St) (xs : List Op) (o : Op) :
    replayOps s (xs ++ [o]) = applyOp (replayOps s xs) o := by
  rw [replayOps_append]; rfl

theorem replayRecordsFold_eq (s : St) (rs : List Record) :
    replayRecordsFold s rs = replayRecords s rs := by
  induction rs generalizing s with
  | nil => rfl
  | cons r rs ih =>
    show replayRecordsFold (replayOps s r) rs = replayOps s (r ++ rs.flatten)
    rw [ih, replayOps_append]; rfl

theorem WF_nil (s : St) : WF s [] := trivial
theorem WF_cons (s : St) (o : Op) (ops : List Op) :
    WF s (o :: ops) ↔ WFop s o ∧ WF (applyOp s o) ops := Iff.rfl

theorem WF_append (s : St) (xs ys : List Op) :
    WF s (xs ++ ys) ↔ WF s xs ∧ WF (replayOps s xs) ys := by
  induction xs generalizing s with
  | nil => simp [WF_nil, replayOps_nil]
  | cons o xs ih =>
    rw [List.cons_append, WF_cons, WF_cons, ih, replayOps_cons, and_assoc]

theorem WF_snoc (s : St) (xs : List Op) (o : Op) :
    WF s (xs ++ [o]) ↔ WF s xs ∧ WFop (replayOps s xs) o := by
  rw [WF_append, WF_cons]; simp [WF_nil]

/-! ### liveness and structure -/

theorem live_iff (s : St) (b : Nat) : live s b = true ↔ b = s.cur ∨ b ∈ s.queue := by
  simp [live]

theorem live_false_iff (s : St) (b : Nat) : live s b = false ↔ b ≠ s.cur ∧ b ∉ s.queue := by
  simp [live]

theorem live_congr {A B : St} (hc : A.cur = B.cur) (hq : A.queue = B.queue) (x : Nat) :
    live A x = live B x := by
  simp only [live, hc, hq]

theorem live_le {s : St} (h : StructOK s) {b : Nat} (hl : live s b = true) : b ≤ s.cur := by
  rcases (live_iff s b).1 hl with h1 | h1
  · omega
  · have := h.2 b h1; omega

theorem live_reindex (s : St) (x : Nat) :
    live (reindex s) x = true ↔ x = s.cur + 1 ∨ x ∈ s.queue ∨ x = s.cur := by
  simp [live_iff, reindex_cur, reindex_queue]

theorem structOK_reindex {s : St} (h : StructOK s) : StructOK (reindex s) := by
  obtain ⟨hp, hlt⟩ := h
  refine ⟨?_, ?_⟩
  · rw [reindex_queue, List.pairwise_append]
    refine ⟨hp, List.pairwise_singleton _ _, ?_⟩
    intro x hx y hy
    simp only [List.mem_singleton] at hy
    subst hy
    exact hlt x hx
  · intro b hb
    rw [reindex_queue, List.mem_append, List.mem_singleton] at hb
    rw [reindex_cur]
    rcases hb with hb | hb
    · have := hlt b hb; omega
    · omega

theorem structOK_growTo : ∀ (n : Nat) (s : St) (b : Nat), StructOK s → StructOK (growTo n s b)
  | 0, _, _, h => h
  | n + 1, s, b, h => by
    rw [growTo_succ]
    split
    · exact structOK_growTo n _ b (structOK_reindex h)
    · exact h

theorem cur_le_growTo : ∀ (n : Nat) (s : St) (b : Nat), s.cur ≤ (growTo n s b).cur
  | 0, _, _ => Nat.le_refl _
  | n + 1, s, b => by
    rw [growTo_succ]
    split
    · have := cur_le_growTo n (reindex s) b
      rw [reindex_cur] at this; omega
    · exact Nat.le_refl _

theorem growTo_vals : ∀ (n : Nat) (s : St) (b : Nat), (growTo n s b).vals = s.vals
  | 0, _, _ => rfl
  | n + 1, s, b => by
    rw [growTo_succ]
    split
    · rw [growTo_vals n (reindex s) b, reindex_vals]
    · rfl

/-- `growTo` with enough fuel reaches exactly `b`. -/
theorem growTo_cur : ∀ (n : Nat) (s : St) (b : Nat), s.cur ≤ b → b - s.cur ≤ n →
    (growTo n s b).cur = b
  | 0, s, b, h1, h2 => by rw [growTo_zero]; omega
  | n + 1, s, b, h1, h2 => by
    rw [growTo_succ]
    split
    · apply growTo_cur n (reindex s) b <;> rw [reindex_cur] <;> omega
    · omega

theorem live_growTo : ∀ (n : Nat) (s : St) (b x : Nat), live (growTo n s b) x = true →
    live s x = true ∨ s.cur < x
  | 0, _, _, _, h => Or.inl h
  | n + 1, s, b, x, h => by
    rw [growTo_succ] at h
    split at h
    · rcases live_growTo n (reindex s) b x h with h1 | h1
      · rcases (live_reindex s x).1 h1 with h2 | h2 | h2
        · right; omega
        · left; exact (live_iff s x).2 (Or.inr h2)
        · left; exact (live_iff s x).2 (Or.inl h2)
      · rw [reindex_cur] at h1; right; omega
    · exact Or.inl h

theorem growTo_one (s : St) : growTo (s.cur + 1 - s.cur) s (s.cur + 1) = reindex s := by
  have h : s.cur + 1 - s.cur = 1 := by omega
  rw [h, growTo_succ, if_pos (Nat.lt_succ_self _), growTo_zero]

/-! ### the three cases of `InsertIndex` and the two of `DropTable` -/

theorem applyIdx_live {s : St} {b : Nat} (h : live s b = true) (c i e : Nat) :
    applyIdx s b c i e = writeIdx s b c i e := if_pos h

theorem applyIdx_dropped {s : St} {b : Nat} (h : live s b = false) (hlt : b < s.cur)
    (c i e : Nat) : applyIdx s b c i e = s := by
  unfold applyIdx
  rw [if_neg (by rw [h]; exact Bool.false_ne_true), if_pos hlt]

theorem applyIdx_grow1 {s : St} (h : StructOK s) (c i e : Nat) :
    applyIdx s (s.cur + 1) c i e = writeIdx (reindex s) (s.cur + 1) c i e := by
  unfold applyIdx
  have hl : ¬ live s (s.cur + 1) = true := by
    intro hl
    have := live_le h hl
    omega
  rw [if_neg hl, if_neg (by omega), growTo_one]

/-- No growth when the table bits are not above the current table. -/
theorem applyIdx_le {s : St} {b : Nat} (h : b ≤ s.cur) (c i e : Nat) :
    applyIdx s b c i e = if live s b = true then writeIdx s b c i e else s := by
  unfold applyIdx
  by_cases hl : live s b = true
  · rw [if_pos hl, if_pos hl]
  · rw [if_neg hl, if_neg hl]
    have hne : b ≠ s.cur := by
      intro hb
      exact hl ((live_iff s b).2 (Or.inl hb))
    rw [if_pos (by omega)]

theorem head_live {s : St} {b : Nat} (h : s.queue.head? = some b) : live s b = true := by
  apply (live_iff s b).2
  right
  exact List.mem_of_head? h

theorem applyOp_drop_dead {s : St} {b : Nat} (h : live s b = false) :
    applyOp s (.drop b) = s := by
  rw [applyOp_drop]
  apply dropFront_notfront
  intro hh
  rw [head_live hh] at h
  cases h

/-! ### monotonicity of the structure along `applyOp` -/

theorem cur_le_applyOp (s : St) (o : Op) : s.cur ≤ (applyOp s o).cur := by
  cases o with
  | idx b c i e =>
    rw [applyOp_idx]; unfold applyIdx
    split
    · exact Nat.le_refl _
    · split
      · exact Nat.le_refl _
      · rw [writeIdx_cur]; exact cur_le_growTo _ _ _
  | val a v => exact Nat.le_refl _
  | drop b =>
    rw [applyOp_drop]; unfold dropFront
    split <;> exact Nat.le_refl _

/-- New tables always have more bits than the current one: a table that is not live and not
above `cur` never becomes live again. -/
theorem live_applyOp {s : St} {o : Op} {x : Nat} (h : live (applyOp s o) x = true) :
    live s x = true ∨ s.cur < x := by
  cases o with
  | idx b c i e =>
    rw [applyOp_idx] at h; unfold applyIdx at h
    split at h
    · exact Or.inl h
    · split at h
      · exact Or.inl h
      · rw [live_writeIdx] at h
        exact live_growTo _ _ _ _ h
  | val a v => exact Or.inl h
  | drop b =>
    rw [applyOp_drop] at h; unfold dropFront at h
    split at h
    · left
      rcases (live_iff _ x).1 h with h1 | h1
      · exact (live_iff s x).2 (Or.inl h1)
      · exact (live_iff s x).2 (Or.inr (List.mem_of_mem_tail h1))
    · exact Or.inl h

theorem structOK_applyOp {s : St} (h : StructOK s) (o : Op) : StructOK (applyOp s o) := by
  cases o with
  | idx b c i e =>
    rw [applyOp_idx]; unfold applyIdx
    split
    · exact h
    · split
      · exact h
      · exact structOK_growTo _ _ _ h
  | val a v => exact h
  | drop b =>
    rw [applyOp_drop]; unfold dropFront
    split
    · exact ⟨h.1.tail, fun x hx => h.2 x (List.mem_of_mem_tail hx)⟩
    · exact h

theorem structOK_replayOps {s : St} (h : StructOK s) (ops : List Op) :
    StructOK (replayOps s ops) := by
  induction ops generalizing s with
  | nil => exact h
  | cons o ops ih => exact ih (structOK_applyOp h o)

theorem cur_le_replayOps (s : St) (ops : List Op) : s.cur ≤ (replayOps s ops).cur := by
  induction ops generalizing s with
  | nil => exact Nat.le_refl _
  | cons o ops ih => exact Nat.le_trans (cur_le_applyOp s o) (ih (applyOp s o))

/-! ### `Settled`: ops that no longer change the structure -/

/-- An op is settled in `s` if applying it cannot change the structure of `s` any more, and this
stays so whatever is applied later. -/
def Settled (s : St) : Op → Prop
  | .idx b _ _ _ => b ≤ s.cur
  | .val _ _ => True
  | .drop b => b ≤ s.cur ∧ live s b = false

theorem settled_idx (s : St) (b c i e : Nat) : Settled s (.idx b c i e) ↔ b ≤ s.cur := Iff.rfl
theorem settled_drop (s : St) (b : Nat) :
    Settled s (.drop b) ↔ (b ≤ s.cur ∧ live s b = false) := Iff.rfl

theorem settled_congr {A B : St} (hc : A.cur = B.cur) (hq : A.queue = B.queue) {o : Op}
    (h : Settled A o) : Settled B o := by
  cases o with
  | idx b c i e => rw [settled_idx] at *; omega
  | val a v => trivial
  | drop b =>
    rw [settled_drop] at *
    rw [← live_congr hc hq, ← hc]; exact h

theorem settled_applyOp {s : St} {o : Op} (a : Op) (h : Settled s o) :
    Settled (applyOp s a) o := by
  cases o with
  | idx b c i e =>
    rw [settled_idx] at *
    exact Nat.le_trans h (cur_le_applyOp s a)
  | val a v => trivial
  | drop b =>
    rw [settled_drop] at *
    obtain ⟨h1, h2⟩ := h
    refine ⟨Nat.le_trans h1 (cur_le_applyOp s a), ?_⟩
    cases hl : live (applyOp s a) b with
    | false => rfl
    | true =>
      rcases live_applyOp hl with h3 | h3
      · rw [h2] at h3; cases h3
      · omega

/-- A well-formed op is settled right after it has been applied. -/
theorem settled_self {s : St} (hs : StructOK s) {o : Op} (hw : WFop s o) :
    Settled (applyOp s o) o := by
  cases o with
  | idx b c i e =>
    rw [settled_idx]
    rcases hw with hl | hb
    · exact Nat.le_trans (live_le hs hl) (cur_le_applyOp s _)
    · subst hb
      rw [applyOp_idx, applyIdx_grow1 hs, writeIdx_cur, reindex_cur]
      exact Nat.le_refl _
  | val a v => trivial
  | drop b =>
    have hw' : s.queue.head? = some b := hw
    rw [settled_drop, applyOp_drop, dropFront_front hw']
    obtain ⟨hp, hlt⟩ := hs
    cases hq : s.queue with
    | nil => rw [hq] at hw'; cases hw'
    | cons x t =>
      rw [hq] at hw' hp hlt
      simp only [List.head?_cons, Option.some.injEq] at hw'
      subst hw'
      have hx : x < s.cur := hlt x (List.mem_cons_self ..)
      refine ⟨Nat.le_of_lt hx, ?_⟩
      rw [live_false_iff]
      refine ⟨Nat.ne_of_lt hx, ?_⟩
      show x ∉ t
      intro hmem
      have := (List.pairwise_cons.1 hp).1 x hmem
      omega

/-- After the first pass over a well-formed `mid`, every op of `mid` is settled. -/
theorem settled_all {X : St} (hX : StructOK X) :
    ∀ mid : List Op, WF X mid → ∀ o ∈ mid, Settled (replayOps X mid) o := by
  intro mid
  induction mid using snoc_induction with
  | nil => intro _ o ho; cases ho
  | snoc m a ih =>
    intro hw o ho
    rw [WF_snoc] at hw
    rw [replayOps_snoc]
    rw [List.mem_append, List.mem_singleton] at ho
    rcases ho with ho | ho
    · exact settled_applyOp a (ih hw.1 o ho)
    · subst ho
      exact settled_self (structOK_replayOps hX m) hw.2

theorem applyOp_settled_str {s : St} {o : Op} (h : Settled s o) :
    (applyOp s o).cur = s.cur ∧ (applyOp s o).queue = s.queue := by
  cases o with
  | idx b c i e =>
    rw [settled_idx] at h
    rw [applyOp_idx, applyIdx_le h]
    split
    · exact ⟨rfl, rfl⟩
    · exact ⟨rfl, rfl⟩
  | val a v => exact ⟨rfl, rfl⟩
  | drop b =>
    rw [settled_drop] at h
    rw [applyOp_drop_dead h.2]
    exact ⟨rfl, rfl⟩

/-! ### last-writer bookkeeping -/

theorem pick_none (old : Option Nat) : pick none old = old := rfl
theorem pick_some (e : Nat) (old : Option Nat) : pick (some e) old = some e := rfl

theorem lastIdxWrite_nil (b c i : Nat) : lastIdxWrite [] b c i = none := rfl
theorem lastIdxWrite_snoc (m : List Op) (o : Op) (b c i : Nat) :
    lastIdxWrite (m ++ [o]) b c i = pick (idxHit b c i o) (lastIdxWrite m b c i) := by
  simp only [lastIdxWrite, List.foldl_append, List.foldl_cons, List.foldl_nil]

theorem lastValWrite_nil (a : Nat) : lastValWrite [] a = none := rfl
theorem lastValWrite_snoc (m : List Op) (o : Op) (a : Nat) :
    lastValWrite (m ++ [o]) a = pick (valHit a o) (lastValWrite m a) := by
  simp only [lastValWrite, List.foldl_append, List.foldl_cons, List.foldl_nil]

theorem idxHit_idx (b c i b' c' i' e : Nat) :
    idxHit b c i (.idx b' c' i' e) = if b = b' ∧ c = c' ∧ i = i' then some e else none := rfl
theorem idxHit_val (b c i a v : Nat) : idxHit b c i (.val a v) = none := rfl
theorem idxHit_drop (b c i b' : Nat) : idxHit b c i (.drop b') = none := rfl
theorem valHit_idx (a b' c' i' e : Nat) : valHit a (.idx b' c' i' e) = none := rfl
theorem valHit_val (a a' v : Nat) :
    valHit a (.val a' v) = if a = a' then some v else none := rfl
theorem valHit_drop (a b' : Nat) : valHit a (.drop b') = none := rfl

/-! ### second pass: constant structure, contents = last writer over the old contents -/

theorem second_pass_str {Y : St} :
    ∀ ops : List Op, (∀ o ∈ ops, Settled Y o) →
      (replayOps Y ops).cur = Y.cur ∧ (replayOps Y ops).queue = Y.queue := by
  intro ops
  induction ops using snoc_induction with
  | nil => intro _; exact ⟨rfl, rfl⟩
  | snoc m a ih =>
    intro hs
    have hm : ∀ o ∈ m, Settled Y o := fun o ho => hs o (List.mem_append_left _ ho)
    obtain ⟨hc, hq⟩ := ih hm
    have ha : Settled (replayOps Y m) a :=
      settled_congr hc.symm hq.symm (hs a (List.mem_append_right _ (List.mem_singleton.2 rfl)))
    obtain ⟨hc', hq'⟩ := applyOp_settled_str ha
    rw [replayOps_snoc]
    exact ⟨hc'.trans hc, hq'.trans hq⟩

theorem second_pass_idx {Y : St} :
    ∀ ops : List Op, (∀ o ∈ ops, Settled Y o) → ∀ b c i : Nat,
      (replayOps Y ops).idx b c i =
        if live Y b = true then (lastIdxWrite ops b c i).getD (Y.idx b c i) else Y.idx b c i := by
  intro ops
  induction ops using snoc_induction with
  | nil =>
    intro _ b c i
    rw [replayOps_nil, lastIdxWrite_nil]
    simp only [Option.getD_none, ite_self]
  | snoc m a ih =>
    intro hs b c i
    have hm : ∀ o ∈ m, Settled Y o := fun o ho => hs o (List.mem_append_left _ ho)
    have ih' := ih hm b c i
    obtain ⟨hc, hq⟩ := second_pass_str m hm
    have ha : Settled (replayOps Y m) a :=
      settled_congr hc.symm hq.symm (hs a (List.mem_append_right _ (List.mem_singleton.2 rfl)))
    rw [replayOps_snoc, lastIdxWrite_snoc]
    cases a with
    | idx b' c' i' e' =>
      rw [settled_idx] at ha
      rw [applyOp_idx, applyIdx_le ha, live_congr hc hq, idxHit_idx]
      by_cases hl' : live Y b' = true
      · rw [if_pos hl', writeIdx_idx]
        by_cases hit : b = b' ∧ c = c' ∧ i = i'
        · rw [if_pos hit, if_pos hit, pick_some]
          have hb : live Y b = true := by rw [hit.1]; exact hl'
          rw [if_pos hb]; rfl
        · rw [if_neg hit, if_neg hit, pick_none]; exact ih'
      · rw [if_neg hl']
        by_cases hit : b = b' ∧ c = c' ∧ i = i'
        · have hb : ¬ live Y b = true := by rw [hit.1]; exact hl'
          rw [if_neg hb]
          rw [if_neg hb] at ih'
          exact ih'
        · rw [if_neg hit, pick_none]; exact ih'
    | val a v =>
      rw [idxHit_val, pick_none, applyOp_val, writeVal_idx]; exact ih'
    | drop b' =>
      rw [settled_drop] at ha
      rw [idxHit_drop, pick_none, applyOp_drop_dead ha.2]; exact ih'

theorem second_pass_vals {Y : St} :
    ∀ ops : List Op, (∀ o ∈ ops, Settled Y o) → ∀ x : Nat,
      (replayOps Y ops).vals x = (lastValWrite ops x).getD (Y.vals x) := by
  intro ops
  induction ops using snoc_induction with
  | nil =>
    intro _ x
    rw [replayOps_nil, lastValWrite_nil]; rfl
  | snoc m a ih =>
    intro hs x
    have hm : ∀ o ∈ m, Settled Y o := fun o ho => hs o (List.mem_append_left _ ho)
    have ih' := ih hm x
    obtain ⟨hc, hq⟩ := second_pass_str m hm
    have ha : Settled (replayOps Y m) a :=
      settled_congr hc.symm hq.symm (hs a (List.mem_append_right _ (List.mem_singleton.2 rfl)))
    rw [replayOps_snoc, lastValWrite_snoc]
    cases a with
    | idx b' c' i' e' =>
      rw [settled_idx] at ha
      rw [valHit_idx, pick_none, applyOp_idx, applyIdx_le ha]
      split
      · rw [writeIdx_vals]; exact ih'
      · exact ih'
    | val a v =>
      rw [valHit_val, applyOp_val, writeVal_vals]
      by_cases hit : x = a
      · rw [if_pos hit, if_pos hit, pick_some]; rfl
      · rw [if_neg hit, if_neg hit, pick_none]; exact ih'
    | drop b' =>
      rw [settled_drop] at ha
      rw [valHit_drop, pick_none, applyOp_drop_dead ha.2]; exact ih'

/-! ### first pass: a location of a table that is live at the end holds its last write -/

theorem first_pass_vals (X : St) :
    ∀ (mid : List Op) (x v : Nat), lastValWrite mid x = some v → (replayOps X mid).vals x = v := by
  intro mid
  induction mid using snoc_induction with
  | nil => intro x v h; rw [lastValWrite_nil] at h; cases h
  | snoc m a ih =>
    intro x v h
    rw [lastValWrite_snoc] at h
    rw [replayOps_snoc]
    cases a with
    | idx b' c' i' e' =>
      rw [valHit_idx, pick_none] at h
      rw [applyOp_idx]; unfold applyIdx
      split
      · rw [writeIdx_vals]; exact ih x v h
      · split
        · exact ih x v h
        · rw [writeIdx_vals, growTo_vals]; exact ih x v h
    | val a w =>
      rw [valHit_val] at h
      rw [applyOp_val, writeVal_vals]
      by_cases hit : x = a
      · rw [if_pos hit, pick_some] at h
        rw [if_pos hit]
        exact Option.some.inj h
      · rw [if_neg hit, pick_none] at h
        rw [if_neg hit]; exact ih x v h
    | drop b' =>
      rw [valHit_drop, pick_none] at h
      rw [applyOp_drop]; unfold dropFront
      split
      · exact ih x v h
      · exact ih x v h

/-- Tables written by a well-formed sequence have at most the final `cur` bits. -/
theorem first_pass_le {X : St} (hX : StructOK X) :
    ∀ (mid : List Op), WF X mid → ∀ b c i e : Nat, lastIdxWrite mid b c i = some e →
      b ≤ (replayOps X mid).cur := by
  intro mid
  induction mid using snoc_induction with
  | nil => intro _ b c i e h; rw [lastIdxWrite_nil] at h; cases h
  | snoc m a ih =>
    intro hw b c i e h
    rw [WF_snoc] at hw
    rw [lastIdxWrite_snoc] at h
    rw [replayOps_snoc]
    have hT := structOK_replayOps hX m
    have hmono := cur_le_applyOp (replayOps X m) a
    cases hh : idxHit b c i a with
    | none =>
      rw [hh, pick_none] at h
      exact Nat.le_trans (ih hw.1 b c i e h) hmono
    | some e' =>
      cases a with
      | idx b' c' i' e'' =>
        rw [idxHit_idx] at hh
        by_cases hit : b = b' ∧ c = c' ∧ i = i'
        · rw [hit.1]
          exact settled_self hT hw.2
        · rw [if_neg hit] at hh; cases hh
      | val a v => rw [idxHit_val] at hh; cases hh
      | drop b' => rw [idxHit_drop] at hh; cases hh

theorem first_pass_idx {X : St} (hX : StructOK X) :
    ∀ (mid : List Op), WF X mid → ∀ b c i e : Nat, live (replayOps X mid) b = true →
      lastIdxWrite mid b c i = some e → (replayOps X mid).idx b c i = e := by
  intro mid
  induction mid using snoc_induction with
  | nil => intro _ b c i e _ h; rw [lastIdxWrite_nil] at h; cases h
  | snoc m a ih =>
    intro hw b c i e hl h
    rw [WF_snoc] at hw
    have hle := first_pass_le hX m hw.1 b c i
    have ih' := ih hw.1 b c i
    rw [lastIdxWrite_snoc] at h
    rw [replayOps_snoc] at hl ⊢
    have hT := structOK_replayOps hX m
    cases a with
    | idx b' c' i' e' =>
      rw [idxHit_idx] at h
      have hw2 : live (replayOps X m) b' = true ∨ b' = (replayOps X m).cur + 1 := hw.2
      rw [applyOp_idx] at hl ⊢
      rcases hw2 with hlb | hgrow
      · -- plain write into an existing table
        rw [applyIdx_live hlb] at hl ⊢
        rw [live_writeIdx] at hl
        rw [writeIdx_idx]
        by_cases hit : b = b' ∧ c = c' ∧ i = i'
        · rw [if_pos hit, pick_some] at h
          rw [if_pos hit]; exact Option.some.inj h
        · rw [if_neg hit, pick_none] at h
          rw [if_neg hit]; exact ih' e hl h
      · -- growth: the new table is zeroed, then written
        subst hgrow
        rw [applyIdx_grow1 hT] at hl ⊢
        rw [live_writeIdx] at hl
        rw [writeIdx_idx]
        by_cases hit : b = (replayOps X m).cur + 1 ∧ c = c' ∧ i = i'
        · rw [if_pos hit, pick_some] at h
          rw [if_pos hit]; exact Option.some.inj h
        · rw [if_neg hit, pick_none] at h
          rw [if_neg hit, reindex_idx]
          have hb := hle e h
          rw [if_neg (by omega)]
          apply ih' e _ h
          rcases (live_reindex _ b).1 hl with h1 | h1 | h1
          · omega
          · exact (live_iff _ b).2 (Or.inr h1)
          · exact (live_iff _ b).2 (Or.inl h1)
    | val a v =>
      rw [idxHit_val, pick_none] at h
      exact ih' e hl h
    | drop b' =>
      rw [idxHit_drop, pick_none] at h
      rw [applyOp_drop] at hl ⊢
      unfold dropFront at hl ⊢
      split at hl
      · rename_i hfront
        rw [if_pos hfront]
        apply ih' e _ h
        rcases (live_iff _ b).1 hl with h1 | h1
        · exact (live_iff _ b).2 (Or.inl h1)
        · exact (live_iff _ b).2 (Or.inr (List.mem_of_mem_tail h1))
      · rename_i hfront
        rw [if_neg hfront]
        exact ih' e hl h

/-! ### idempotence -/

theorem replay_idempotent {X : St} (hX : StructOK X) {mid : List Op} (hw : WF X mid) :
    replayOps (replayOps X mid) mid = replayOps X mid := by
  have hs := settled_all hX mid hw
  obtain ⟨hc, hq⟩ := second_pass_str mid hs
  apply St.ext' hc hq
  · funext b c i
    rw [second_pass_idx mid hs b c i]
    by_cases hl : live (replayOps X mid) b = true
    · rw [if_pos hl]
      cases hlast : lastIdxWrite mid b c i with
      | none => rfl
      | some e =>
        rw [first_pass_idx hX mid hw b c i e hl hlast]; rfl
    · rw [if_neg hl]
  · funext x
    rw [second_pass_vals mid hs x]
    cases hlast : lastValWrite mid x with
    | none => rfl
    | some v => rw [first_pass_vals X mid x v hlast]; rfl

theorem replay_absorbs {S0 : St} (h0 : StructOK S0) (pre mid post : List Op)
    (hw : WF S0 (pre ++ mid ++ post)) :
    replayOps (replayOps S0 (pre ++ mid)) (mid ++ post) = replayOps S0 (pre ++ mid ++ post) := by
  rw [WF_append, WF_append] at hw
  rw [replayOps_append S0 pre mid, replayOps_append _ mid post,
    replay_idempotent (structOK_replayOps h0 pre) hw.1.2,
    replayOps_append S0 (pre ++ mid) post, replayOps_append S0 pre mid]

end Pdb.IndexReplay
