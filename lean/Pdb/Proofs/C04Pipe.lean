/-
C04 pipeline, part 4: the invariant of the executable pipeline `Drv` (column without reference
counting, patched iterator) and the step lemma `act_spec`: every action is answered as the
specification `specAct` answers it, and the invariant is kept.

Invariant `PInv s sp` (`sp` = the specification state: committed map + logical position):
  * `QInv`: TreeInv of the model tree, never stuck, the commit overlay is exactly what the
    queued transactions put there (`ovOf`), queue ids ascending above the column's record id;
  * `sp.m = committed s` = the queued operations applied (in commit order) to `toList tree`;
  * `ItInv`: the stack machine state stands (`RelIt`) for a state `sA` of the abstract machine
    satisfying the invariant `Inv` of Proofs/C04Iter.lean w.r.t. the backend its cursor was built
    for, which is the current backend if the record ids agree.
Consequence `QInv.merged`: `merged overlay (toList tree) = committed` - the map the iterator
enumerates IS the latest committed state, whatever stage holds the data.
-/
import Pdb.Proofs.C04PipeIter
import Pdb.Proofs.C04PipeOverlay

namespace Pdb.C04

/-! ### record id of the abstract machine after a call -/

theorem mergeA_rid {V : Type} (d : Dir) (s : IterSt V) (o : Option (Key × Option V))
    (b : Option (Key × V)) : (mergeA d s o b).1.rid = s.rid := by
  cases o with
  | none => cases b <;> rfl
  | some c =>
    obtain ⟨ck, cv⟩ := c
    cases b with
    | none => cases cv <;> rfl
    | some e =>
      obtain ⟨bk, bv⟩ := e
      simp only [mergeA]
      by_cases h1 : dirLt d ck bk = true
      · simp only [h1, if_true]; cases cv <;> rfl
      · simp only [h1, if_false, Bool.false_eq_true]
        by_cases h2 : dirLt d bk ck = true
        · simp only [h2, if_true]
        · simp only [h2, if_false, Bool.false_eq_true]; cases cv <;> rfl

theorem backendItem_rid {V : Type} (be : List (Key × V)) (rid : Nat) (d : Dir) (s : IterSt V) :
    (backendItem be rid d s).2.rid = rid ∨ (backendItem be rid d s).2.rid = s.rid := by
  rw [backendItem_eq]
  cases pendingItem (if rid ≠ s.rid then none else s.pending) d with
  | some item => exact Or.inr rfl
  | none => exact Or.inl rfl

theorem iterLoop_rid {V : Type} (ov : List (Key × Option V)) (be : List (Key × V)) (rid : Nat)
    (d : Dir) : ∀ (fuel : Nat) (s : IterSt V),
    (iterLoop ov be rid d fuel s).1.rid = rid ∨ (iterLoop ov be rid d fuel s).1.rid = s.rid := by
  intro fuel
  induction fuel with
  | zero => intro s; exact Or.inr rfl
  | succ fuel ih =>
    intro s
    rw [iterLoop_succ]
    have hb := backendItem_rid be rid d s
    have hm := mergeA_rid d (backendItem be rid d s).2 (ovStep d ov s.lastKey) (backendItem be rid d s).1
    cases hr : (mergeA d (backendItem be rid d s).2 (ovStep d ov s.lastKey)
        (backendItem be rid d s).1).2 with
    | some r =>
      simp only [finish_fst]
      rw [hm]; exact hb
    | none =>
      simp only
      rcases ih (mergeA d (backendItem be rid d s).2 (ovStep d ov s.lastKey)
        (backendItem be rid d s).1).1 with h | h
      · exact Or.inl h
      · rw [h, hm]; exact hb

theorem stepV_rid {V : Type} (v : Variant) (beOf : Nat → List (Key × V)) (s : IterSt V) (e : Env V)
    (c : Call) : (stepV v beOf s e c).1.rid = e.rid ∨ (stepV v beOf s e c).1.rid = s.rid := by
  cases c with
  | seek k => exact Or.inl rfl
  | seekFirst => exact Or.inl rfl
  | seekLast => exact Or.inl rfl
  | next =>
    simp only [stepV, iterInner]
    split
    · exact Or.inr rfl
    · exact iterLoop_rid _ _ _ _ _ _
  | prev =>
    simp only [stepV, iterInner]
    split
    · exact Or.inr rfl
    · exact iterLoop_rid _ _ _ _ _ _

theorem stepV_congr {V : Type} (v : Variant) {beOf beOf' : Nat → List (Key × V)} (s : IterSt V)
    (e : Env V) (h : beOf e.rid = beOf' e.rid) (c : Call) :
    stepV v beOf s e c = stepV v beOf' s e c := by
  cases c <;> simp only [stepV, h]

theorem Inv.congr {V : Type} {beOf beOf' : Nat → List (Key × V)} {s : IterSt V}
    (h : beOf s.rid = beOf' s.rid) (hi : Inv beOf s) : Inv beOf' s :=
  ⟨hi.pend, fun d hd => by rw [← h]; exact hi.ans d hd⟩

/-! ### the invariant -/

structure QInv (s : Drv) : Prop where
  rc : s.rc = false
  var : s.variant = patched
  tinv : TreeInv s.tree
  nstuck : s.stuck = false
  sov : Sorted s.overlay
  ov : ∀ k, lookup s.overlay k = ovOf s.queue k
  ids : s.queue.Pairwise (fun a b => a.1 < b.1)
  lo : ∀ e ∈ s.queue, s.rid < e.1 ∧ e.1 ≤ s.nextId
  rid_le : s.rid ≤ s.nextId

/-- the latest committed state: processed state + queued transactions in commit order -/
def committed (s : Drv) : List (Key × String) := specApply (flatQ s.queue) s.tree.toList

def ItInv (s : Drv) (pos : LastKey) : Prop :=
  ∃ (sA : IterSt String) (beI : List (Key × String)),
    RelIt s.tree s.rid s.it sA ∧ Inv (fun _ => beI) sA ∧ Sorted beI ∧
    (sA.rid = s.rid → beI = s.tree.toList) ∧ sA.rid ≤ s.rid ∧ sA.lastKey = pos

structure PInv (s : Drv) (sp : SpecSt) : Prop where
  q : QInv s
  m : sp.m = committed s
  it : ItInv s sp.pos

theorem QInv.sorted_be {s : Drv} (h : QInv s) : Sorted s.tree.toList :=
  ((treeInvB_iff s.tree).mp h.tinv).1.2

theorem QInv.sorted_committed {s : Drv} (h : QInv s) : Sorted (committed s) :=
  sorted_specApply _ h.sorted_be

theorem QInv.sorted_env {s : Drv} (h : QInv s) : Sorted s.env.ov := sorted_map_snd h.sov

/-- (a) A point read through overlay and backend is the lookup in the committed state. -/
theorem QInv.view {s : Drv} (h : QInv s) (k : Key) :
    mget s.env.ov s.tree.toList k = lookup (committed s) k := by
  unfold committed
  rw [lookup_specApply _ h.sorted_be, ← view_eq_effect]
  simp only [mget, Drv.env, lookup_map_snd, h.ov k]
  cases ovOf s.queue k with
  | none => rfl
  | some x => obtain ⟨i, o⟩ := x; rfl

/-- (a) The map the iterator enumerates is the committed state. -/
theorem QInv.merged {s : Drv} (h : QInv s) : merged s.env.ov s.tree.toList = committed s :=
  sorted_ext (sorted_merged _ h.sorted_be) h.sorted_committed
    (fun x => by rw [lookup_merged h.sorted_env h.sorted_be, h.view])

theorem QInv.get {s : Drv} (h : QInv s) (k : Key) : s.get k = lookup (committed s) k := by
  rw [← h.view k]
  simp only [Drv.get, mget, Drv.env, lookup_map_snd, Tree.get_spec s.tree h.tinv]
  cases lookup s.overlay k with
  | none => rfl
  | some x => obtain ⟨i, o⟩ := x; rfl

/-! ### init -/

theorem QInv.init : QInv (Drv.init patched false) :=
  { rc := rfl, var := rfl, tinv := (show treeInvB (Tree.empty : Tree String) = true from rfl),
    nstuck := rfl, sov := sorted_nil, ov := fun _ => rfl, ids := List.Pairwise.nil,
    lo := fun e he => by simp [Drv.init] at he, rid_le := Nat.le_refl _ }

theorem ItInv.fresh (s : Drv) (hs : Sorted s.tree.toList) (hit : s.it = IterCSt.new s.rid) :
    ItInv s .start := by
  refine ⟨IterSt.new s.rid, s.tree.toList, ?_, Inv.new _ _, hs, fun _ => rfl, Nat.le_refl _, rfl⟩
  rw [hit]
  exact RelIt.new _ _ _

theorem PInv.init : PInv (Drv.init patched false) SpecSt.init :=
  { q := QInv.init, m := rfl, it := ItInv.fresh _ sorted_nil rfl }

/-! ### commit -/

theorem commitPlain_spec {s : Drv} {sp : SpecSt} (h : PInv s sp) (ops : List (Op String)) :
    PInv (s.commitPlain ops) { sp with m := specApply ops sp.m } := by
  obtain ⟨hq, hm, hit⟩ := h
  refine ⟨?_, ?_, ?_⟩
  · refine { rc := hq.rc, var := hq.var, tinv := hq.tinv, nstuck := hq.nstuck, sov := ?_, ov := ?_,
             ids := ?_, lo := ?_, rid_le := ?_ }
    · exact sorted_ovPut_fold _ _ hq.sov
    · intro k
      simp only [Drv.commitPlain]
      rw [lookup_ovPut_fold, ovOf_snoc, hq.ov k]
    · simp only [Drv.commitPlain]
      rw [List.pairwise_append]
      refine ⟨hq.ids, List.pairwise_singleton _ _, ?_⟩
      intro a ha b hb
      simp only [List.mem_singleton] at hb
      subst hb
      have := (hq.lo a ha).2
      simp only
      omega
    · intro e he
      simp only [Drv.commitPlain, List.mem_append, List.mem_singleton] at he ⊢
      rcases he with he | he
      · have := hq.lo e he
        omega
      · subst he
        have := hq.rid_le
        simp only
        omega
    · have := hq.rid_le
      simp only [Drv.commitPlain]
      omega
  · show specApply ops sp.m = committed (s.commitPlain ops)
    simp only [committed, Drv.commitPlain, flatQ_snoc, specApply_append]
    rw [hm]; rfl
  · obtain ⟨sA, beI, h1, h2, h3, h4, h5, h6⟩ := hit
    exact ⟨sA, beI, h1, h2, h3, h4, h5, h6⟩

/-! ### process -/

theorem applyList_noop (t : Tree String) (ht : treeInvB t = true) :
    ∀ (ops : List (Op String)), ops.any (wroteOp t) = false → applyList t ops = (t, true) := by
  intro ops
  induction ops with
  | nil => intro _; rfl
  | cons op ops ih =>
    intro h
    simp only [List.any_cons, Bool.or_eq_false_iff] at h
    obtain ⟨h1, h2⟩ := h
    cases op with
    | set k v => simp [wroteOp] at h1
    | del k =>
      have hk : lookup t.toList k = none := by
        rw [← Tree.get_spec t ht]
        simpa [wroteOp] using h1
      simp only [applyList, applyOne_del_absent t ht k hk, if_true]
      exact ih h2

theorem processPlain_spec {s : Drv} {sp : SpecSt} (h : PInv s sp) : PInv s.processPlain sp := by
  obtain ⟨hq, hm, hit⟩ := h
  unfold Drv.processPlain
  cases hqueue : s.queue with
  | nil => exact ⟨hq, hm, hit⟩
  | cons e q =>
    obtain ⟨id, ops⟩ := e
    simp only
    obtain ⟨hb1, hb2, hb3, hb4⟩ := C04b_batch_refines_tx s.tree ops hq.tinv
    have hids := hq.ids
    rw [hqueue] at hids
    have hidq : id ∉ q.map Prod.fst := by
      intro hmem
      obtain ⟨x, hx, hxe⟩ := List.mem_map.mp hmem
      have := (List.pairwise_cons.mp hids).1 x hx
      rw [hxe] at this
      exact Nat.lt_irrefl _ this
    have hlo := hq.lo
    rw [hqueue] at hlo
    have hid := hlo (id, ops) (List.mem_cons.mpr (Or.inl rfl))
    have hov := hq.ov
    rw [hqueue] at hov
    refine ⟨?_, ?_, ?_⟩
    · refine { rc := hq.rc, var := hq.var, tinv := hb4, nstuck := ?_, sov := ?_, ov := ?_,
               ids := ?_, lo := ?_, rid_le := ?_ }
      · simp only [hq.nstuck, hb2, Bool.not_true, Bool.or_false]
      · exact sorted_cleanOverlay _ _ hq.sov
      · intro k
        exact lookup_clean_head hq.sov id ops q hidq hov k
      · exact (List.pairwise_cons.mp hids).2
      · intro e he
        have h1 := hlo e (List.mem_cons_of_mem _ he)
        have h2 := (List.pairwise_cons.mp hids).1 e he
        simp only at h2 ⊢
        split <;> omega
      · simp only
        have := hq.rid_le
        split <;> omega
    · rw [hm]
      simp only [committed, hqueue, flatQ_cons, specApply_append, hb3]
    · obtain ⟨sA, beI, h1, h2, h3, h4, h5, h6⟩ := hit
      by_cases hw : (dedupLast (stableSort ops)).any (wroteOp s.tree) = true
      · -- the record writes the column: new record id, the cursor will be rebuilt
        simp only [hw, if_true]
        have hne : id ≠ sA.rid := by omega
        refine ⟨sA, beI, h1.rid_change hne, h2, h3, fun e => absurd e.symm hne, ?_, h6⟩
        show sA.rid ≤ id
        omega
      · -- nothing written: same record id, same tree
        have hw' : (dedupLast (stableSort ops)).any (wroteOp s.tree) = false := by
          simpa using hw
        have hsame : (applyChangesB s.tree ops).1 = s.tree := by
          rw [hb1]
          show (applyList s.tree (dedupLast (stableSort ops))).1 = s.tree
          rw [applyList_noop s.tree hq.tinv _ hw']
        simp only [hw', Bool.false_eq_true, if_false, hsame]
        exact ⟨sA, beI, h1, h2, h3, h4, h5, h6⟩

theorem process_spec {s : Drv} {sp : SpecSt} (h : PInv s sp) : PInv s.process sp := by
  unfold Drv.process
  rw [h.q.rc]
  exact processPlain_spec h

theorem processAll_spec {sp : SpecSt} : ∀ (n : Nat) {s : Drv}, PInv s sp → PInv (Drv.processAll n s) sp
  | 0, _, h => h
  | n + 1, _, h => processAll_spec n (process_spec h)

theorem process_queue_length {s : Drv} (hrc : s.rc = false) :
    s.process.queue.length = s.queue.length - 1 := by
  unfold Drv.process Drv.processPlain
  simp only [hrc, Bool.false_eq_true, if_false]
  cases hq : s.queue with
  | nil => simp [hq]
  | cons e q => obtain ⟨id, ops⟩ := e; simp

theorem processAll_queue {sp : SpecSt} : ∀ (n : Nat) {s : Drv}, PInv s sp → s.queue.length ≤ n →
    (Drv.processAll n s).queue = []
  | 0, s, _, hn => List.eq_nil_of_length_eq_zero (Nat.le_zero.mp hn)
  | n + 1, s, h, hn => by
    apply processAll_queue n (process_spec h)
    rw [process_queue_length h.q.rc]
    omega

/-! ### reopen -/

theorem reopen_spec {s : Drv} {sp : SpecSt} (h : PInv s sp) :
    PInv s.reopen { sp with pos := .start } := by
  have h1 := processAll_spec (s.queue.length + s.queueR.length) h
  have hq0 := processAll_queue (s.queue.length + s.queueR.length) h (Nat.le_add_right _ _)
  unfold Drv.reopen
  generalize Drv.processAll (s.queue.length + s.queueR.length) s = s1 at h1 hq0
  obtain ⟨hq, hm, _⟩ := h1
  refine ⟨?_, ?_, ?_⟩
  · refine ⟨hq.rc, hq.var, hq.tinv, hq.nstuck, sorted_nil, ?_, ?_, ?_, Nat.le_refl _⟩
    · intro k
      show lookup [] k = ovOf s1.queue k
      rw [hq0]; rfl
    · show s1.queue.Pairwise _
      rw [hq0]; exact List.Pairwise.nil
    · intro e he
      have he' : e ∈ s1.queue := he
      rw [hq0] at he'
      cases he'
  · show sp.m = specApply (flatQ s1.queue) s1.tree.toList
    rw [hm]; rfl
  · exact ItInv.fresh _ hq.sorted_be rfl

/-! ### iterator calls -/

/-- One iterator call of the pipeline, whatever the column kind: if the overlay merged over the
    tree is the map `m`, the call is answered as the abstract cursor answers it on `m`. -/
theorem call_generic {s : Drv} {m : List (Key × String)} {pos : LastKey}
    (hvar : s.variant = patched) (htinv : TreeInv s.tree) (hsov : Sorted s.env.ov)
    (hmerged : merged s.env.ov s.tree.toList = m) (hit : ItInv s pos) (c : Call) :
    (stepCV s.variant s.tree s.it s.env c).2 = outC (specStep m pos c).2 ∧
      ItInv { s with it := (stepCV s.variant s.tree s.it s.env c).1 } (specStep m pos c).1 := by
  obtain ⟨sA, beI, hrel, hinv, hsb, hcur, hle, hpos⟩ := hit
  rw [hvar]
  have hbe : Sorted s.tree.toList := ((treeInvB_iff s.tree).mp htinv).1.2
  -- the backend as a function of the record id: the current tree at the current id
  let beOf : Nat → List (Key × String) := fun r => if r = s.rid then s.tree.toList else beI
  have hbeOf_cur : beOf s.rid = s.tree.toList := by simp [beOf]
  have hbeS : ∀ r, Sorted (beOf r) := by
    intro r
    simp only [beOf]
    split
    · exact hbe
    · exact hsb
  have hinv' : Inv beOf sA := by
    refine Inv.congr ?_ hinv
    simp only [beOf]
    split
    · rename_i e; exact hcur e
    · rfl
  have hrid : s.env.rid = s.rid := rfl
  obtain ⟨s1, s2⟩ := stepCV_sim htinv patched s.env (by rw [hrid]; exact hrel) c
  have hcg : stepV patched (fun _ => s.tree.toList) sA s.env c = stepV patched beOf sA s.env c :=
    stepV_congr patched sA s.env (by rw [hrid, hbeOf_cur]) c
  rw [hcg] at s1 s2
  obtain ⟨t1, t2, t3⟩ := step_spec beOf hbeS sA hinv' s.env hsov c
  have hmg : merged s.env.ov (beOf s.env.rid) = m := by
    rw [hrid, hbeOf_cur, hmerged]
  rw [hmg, hpos] at t1 t2
  refine ⟨?_, ?_⟩
  · rw [s1]; exact congrArg outC t1
  · refine ⟨(step beOf sA s.env c).1, beOf (step beOf sA s.env c).1.rid, ?_, ?_, hbeS _, ?_, ?_, t2⟩
    · exact s2
    · exact Inv.congr rfl t3
    · intro e; show beOf _ = _; rw [e]; exact hbeOf_cur
    · rcases stepV_rid patched beOf sA s.env c with e | e
      · show (stepV patched beOf sA s.env c).1.rid ≤ s.rid
        rw [e]; exact Nat.le_refl _
      · show (stepV patched beOf sA s.env c).1.rid ≤ s.rid
        rw [e]; exact hle

theorem call_spec {s : Drv} {sp : SpecSt} (h : PInv s sp) (c : Call) :
    (stepCV s.variant s.tree s.it s.env c).2 = outC (specStep sp.m sp.pos c).2 ∧
      PInv { s with it := (stepCV s.variant s.tree s.it s.env c).1 }
        { sp with pos := (specStep sp.m sp.pos c).1 } := by
  obtain ⟨hq, hm, hit⟩ := h
  obtain ⟨h1, h2⟩ := call_generic (m := sp.m) hq.var hq.tinv hq.sorted_env (by rw [hq.merged, hm]) hit c
  exact ⟨h1, ⟨hq.rc, hq.var, hq.tinv, hq.nstuck, hq.sov, hq.ov, hq.ids, hq.lo, hq.rid_le⟩, hm, h2⟩

/-! ### every action -/

theorem any_isRef_map_toROp (ops : List (Op String)) : (ops.map toROp).any isRef = false := by
  induction ops with
  | nil => rfl
  | cons op ops ih => cases op <;> simp [toROp, isRef, ih]

theorem act_spec {s : Drv} {sp : SpecSt} (h : PInv s sp) (a : PAct) :
    (s.act a).2 = (specAct sp a).2 ∧ PInv (s.act a).1 (specAct sp a).1 := by
  have hrc := h.q.rc
  cases a with
  | commit ops =>
    simp only [Drv.act, specAct, hrc, Bool.false_eq_true, if_false]
    exact ⟨trivial, commitPlain_spec h ops⟩
  | commitRc ops =>
    simp only [Drv.act, specAct, hrc, Bool.false_eq_true, if_false]
    by_cases hr : ops.any isRef = true
    · simp only [hr, if_true]; exact ⟨trivial, h⟩
    · simp only [hr, if_false, Bool.false_eq_true]
      exact ⟨trivial, commitPlain_spec h _⟩
  | process => exact ⟨rfl, process_spec h⟩
  | flush => exact ⟨rfl, h⟩
  | enact => exact ⟨rfl, h⟩
  | clean => exact ⟨rfl, h⟩
  | reopen => exact ⟨rfl, reopen_spec h⟩
  | get k =>
    refine ⟨?_, h⟩
    simp only [Drv.act, specAct]
    rw [h.q.get k, h.m]
  | iterNew =>
    refine ⟨rfl, ⟨?_, h.m, ?_⟩⟩
    · exact ⟨h.q.rc, h.q.var, h.q.tinv, h.q.nstuck, h.q.sov, h.q.ov, h.q.ids, h.q.lo, h.q.rid_le⟩
    · exact ItInv.fresh _ h.q.sorted_be rfl
  | call c =>
    obtain ⟨h1, h2⟩ := call_spec h c
    exact ⟨by simp only [Drv.act, specAct, h1], h2⟩

theorem run_spec_pipe : ∀ (as : List PAct) {s : Drv} {sp : SpecSt}, PInv s sp →
    (s.run as).2 = (specRunP sp as).2 ∧ PInv (s.run as).1 (specRunP sp as).1
  | [], _, _, h => ⟨rfl, h⟩
  | a :: as, s, sp, h => by
    obtain ⟨h1, h2⟩ := act_spec h a
    obtain ⟨i1, i2⟩ := run_spec_pipe as h2
    simp only [Drv.run, specRunP]
    exact ⟨by rw [h1, i1], i2⟩

end Pdb.C04
