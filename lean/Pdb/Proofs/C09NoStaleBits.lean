/-
C09 / C14 / C20 (no stale index entry): the index-visible bits of a key prefix.

`vis kp` = bits 63..14 of the 64-bit key prefix: exactly what an index table of ANY size stores
of a key (page number = the top `bits` bits, partial key = the following `50 - bits` bits).
-/
import Pdb.Proofs.C09Bits

namespace Pdb.Index
open Pdb.Gen Pdb.IndexPage

/-- the index-visible bits (63..14) of a key prefix -/
def vis (kp : Nat) : Nat := kp >>> 14

theorem vis_eq_iff (kp1 kp2 : Nat) :
    vis kp1 = vis kp2 ↔ ∀ j, 14 ≤ j → kp1.testBit j = kp2.testBit j := by
  unfold vis
  constructor
  · intro h j hj
    have := congrArg (fun x => x.testBit (j - 14)) h
    simp only [Nat.testBit_shiftRight] at this
    have e : 14 + (j - 14) = j := by omega
    rw [e] at this
    exact this
  · intro h
    apply Nat.eq_of_testBit_eq
    intro i
    simp only [Nat.testBit_shiftRight]
    exact h _ (by omega)

/-- Page and partial key of a table of `b` index bits determine, and are determined by, the
index-visible bits. -/
theorem vis_eq_iff_index (b kp1 kp2 : Nat) (hb16 : 16 ≤ b) (hb : b ≤ 49) (h1 : kp1 < 2 ^ 64)
    (h2 : kp2 < 2 ^ 64) :
    vis kp1 = vis kp2 ↔
      (chunk_index b kp1 = chunk_index b kp2 ∧ Entry.extract_key kp1 b = Entry.extract_key kp2 b) := by
  have hhi : ∀ kp, kp < 2 ^ 64 → ∀ i, 64 ≤ i → kp.testBit i = false := fun kp hkp i hi =>
    Nat.testBit_lt_two_pow (Nat.lt_of_lt_of_le hkp (Nat.pow_le_pow_right (by omega) hi))
  rw [vis_eq_iff, chunk_index_eq b kp1 (by omega) (by omega), chunk_index_eq b kp2 (by omega) (by omega),
    extract_key_plain kp1 b hb, extract_key_plain kp2 b hb]
  constructor
  · intro h
    constructor
    · apply Nat.eq_of_testBit_eq
      intro i
      simp only [Nat.testBit_shiftRight]
      exact h _ (by omega)
    · apply Nat.eq_of_testBit_eq
      intro i
      simp only [Nat.testBit_shiftRight, Nat.testBit_mod_two_pow, Nat.testBit_shiftLeft]
      by_cases hc : b + 14 + i < 64
      · have e1 : b ≤ b + 14 + i := by omega
        simp only [hc, e1, decide_true, Bool.true_and]
        exact h _ (by omega)
      · simp [hc]
  · rintro ⟨hc, hk⟩ j hj
    by_cases h64 : j < 64
    · by_cases hj2 : 64 - b ≤ j
      · have := congrArg (fun x => x.testBit (j - (64 - b))) hc
        simp only [Nat.testBit_shiftRight] at this
        have e : 64 - b + (j - (64 - b)) = j := by omega
        rw [e] at this
        exact this
      · have := congrArg (fun x => x.testBit (j - 14)) hk
        simp only [Nat.testBit_shiftRight, Nat.testBit_mod_two_pow, Nat.testBit_shiftLeft] at this
        have e0 : b + 14 + (j - 14) = b + j := by omega
        have e1 : b + j < 64 := by omega
        have e2 : b ≤ b + j := by omega
        have e3 : b + j - b = j := by omega
        simp only [e0, e1, e2, e3, decide_true, Bool.true_and] at this
        exact this
    · rw [hhi kp1 h1 j (by omega), hhi kp2 h2 j (by omega)]

/-- the prefix recovered from an entry (`recover_key_prefix`) carries the index-visible bits of
every key the entry matches -/
theorem vis_recover (b kp e : Nat) (hb16 : 16 ≤ b) (hb : b ≤ 49) (hkp : kp < 2 ^ 64)
    (hpk : Entry.partial_key e b = Entry.extract_key kp b) :
    vis (recover_index_key b (chunk_index b kp) e) = vis kp := by
  rw [vis_eq_iff]
  intro j hj
  rw [recover_testBit b kp e hb16 hb hkp hpk]
  simp [hj]

theorem recover_of_key_lt (b kp e : Nat) (hb16 : 16 ≤ b) (hb : b ≤ 49) (hkp : kp < 2 ^ 64)
    (hpk : Entry.partial_key e b = Entry.extract_key kp b) :
    recover_index_key b (chunk_index b kp) e < 2 ^ 64 := by
  apply Nat.lt_pow_two_of_testBit
  intro i hi
  rw [recover_testBit b kp e hb16 hb hkp hpk]
  have : kp.testBit i = false :=
    Nat.testBit_lt_two_pow (Nat.lt_of_lt_of_le hkp (Nat.pow_le_pow_right (by omega) hi))
  simp [this]

theorem total_chunks_eq (b : Nat) (hb : b ≤ 49) : total_chunks b = 2 ^ b := by
  simp only [total_chunks, wshl]
  rw [Nat.mod_eq_of_lt (by omega : b < 64), Nat.one_shiftLeft,
    Nat.mod_eq_of_lt (Nat.pow_lt_pow_right (by omega) (by omega))]

theorem partial_key_lt50 (e b : Nat) (hb : b ≤ 49) (he : e < 2 ^ 64) :
    Entry.partial_key e b < 2 ^ (50 - b) := by
  rw [partial_key_plain e b hb, Nat.shiftRight_eq_div_pow,
    Nat.div_lt_iff_lt_mul (Nat.two_pow_pos _), ← Nat.pow_add]
  have : 50 - b + (b + 14) = 64 := by omega
  rw [this]; exact he

/-- `recover_key_prefix` inverts the split of a key prefix into page number and partial key: the
prefix recovered from the entry `e` of page `c` belongs to page `c` and has the partial key of `e`. -/
theorem recover_inv (b c e : Nat) (hb16 : 16 ≤ b) (hb : b ≤ 49) (hc : c < total_chunks b)
    (he : e < 2 ^ 64) :
    recover_index_key b c e < 2 ^ 64 ∧ chunk_index b (recover_index_key b c e) = c ∧
      Entry.extract_key (recover_index_key b c e) b = Entry.partial_key e b := by
  rw [total_chunks_eq b hb] at hc
  have hpk := partial_key_lt50 e b hb he
  have hcb : ∀ i, b ≤ i → c.testBit i = false := fun i hi =>
    Nat.testBit_lt_two_pow (Nat.lt_of_lt_of_le hc (Nat.pow_le_pow_right (by omega) hi))
  have hpb : ∀ i, 50 - b ≤ i → (Entry.partial_key e b).testBit i = false := fun i hi =>
    Nat.testBit_lt_two_pow (Nat.lt_of_lt_of_le hpk (Nat.pow_le_pow_right (by omega) hi))
  have hbit : ∀ j, (recover_index_key b c e).testBit j =
      ((decide (j < 64) && (decide (64 - b ≤ j) && c.testBit (j - (64 - b)))) ||
       (decide (j < 64) && (decide (14 ≤ j) && (Entry.partial_key e b).testBit (j - 14)))) := by
    intro j
    rw [recover_plain b c e hb16 hb]
    simp only [Nat.testBit_or, Nat.testBit_mod_two_pow, Nat.testBit_shiftLeft]
  refine ⟨?_, ?_, ?_⟩
  · apply Nat.lt_pow_two_of_testBit
    intro i hi
    rw [hbit]
    have : ¬ i < 64 := by omega
    simp [this]
  · rw [chunk_index_eq b _ (by omega) (by omega)]
    apply Nat.eq_of_testBit_eq
    intro i
    rw [Nat.testBit_shiftRight, hbit]
    by_cases hi : i < b
    · have e1 : 64 - b + i < 64 := by omega
      have e2 : 64 - b ≤ 64 - b + i := by omega
      have e3 : 64 - b + i - (64 - b) = i := by omega
      have e4 := hpb (64 - b + i - 14) (by omega)
      simp [e1, e2, e3, e4]
    · have e1 : ¬ 64 - b + i < 64 := by omega
      simp [e1, hcb i (by omega)]
  · rw [extract_key_plain _ b hb]
    apply Nat.eq_of_testBit_eq
    intro i
    simp only [Nat.testBit_shiftRight, Nat.testBit_mod_two_pow, Nat.testBit_shiftLeft, hbit]
    by_cases hi : b + 14 + i < 64
    · have e1 : b ≤ b + 14 + i := by omega
      have e2 : b + 14 + i - b < 64 := by omega
      have e3 : ¬ 64 - b ≤ b + 14 + i - b := by omega
      have e4 : 14 ≤ b + 14 + i - b := by omega
      have e5 : b + 14 + i - b - 14 = i := by omega
      simp [hi, e1, e2, e3, e4, e5]
    · have := hpb i (by omega)
      simp [hi, this]

end Pdb.Index
