/-
C15 helper lemmas (2): structural invariants of the pipeline LTS (who may be where once the
handle is being dropped / an error was stored).  Every conjunct is a named predicate on the
projections it reads, so that untouched conjuncts are closed by `assumption` after a step.
-/
import Pdb.Proofs.C15Cv

namespace Pdb.Conc.Pipe

def DPc.afterSd1 : DPc → Bool
  | .sd2 | .joinL | .joinF | .joinC | .joinK | .kill | .unlock | .done => true
  | _ => false
def DPc.afterSd2 : DPc → Bool
  | .joinL | .joinF | .joinC | .joinK | .kill | .unlock | .done => true
  | _ => false
def DPc.joined : DPc → Nat
  | .joinF => 1 | .joinC => 2 | .joinK => 3 | .kill | .unlock | .done => 4
  | _ => 0

def LPc.exited : LPc → Bool
  | .done | .err .e2 | .err .e3 => true
  | _ => false
def FPc.exited : FPc → Bool
  | .done | .err .e2 | .err .e3 => true
  | _ => false
def CPc.exited : CPc → Bool
  | .done | .err .e2 | .err .e3 => true
  | _ => false
def KPc.exited : KPc → Bool
  | .done | .err .e2 | .err .e3 => true
  | _ => false

def A1 (pd : DPc) (cms : List Cm) : Prop := pd ≠ .idle → ∀ c ∈ cms, c = .idle
def A2 (pd : DPc) (sh : Bool) : Prop := pd.afterSd1 = true → sh = true
def A3 (pd : DPc) (sd : Bool) : Prop := pd.afterSd2 = true → sd = true
def A4 (sd sh : Bool) : Prop := sd = true → sh = true
def A5 (sh sd : Bool) (pd : DPc) (pl : LPc) (pf : FPc) (pc : CPc) (pk : KPc) : Prop :=
  sh = true → sd = false → (pd = .sd2 ∨ pl = .err .e2 ∨ pf = .err .e2 ∨ pc = .err .e2 ∨ pk = .err .e2)
def A6l (pl : LPc) (sh : Bool) : Prop := pl.exited = true → sh = true
def A6f (pf : FPc) (sh : Bool) : Prop := pf.exited = true → sh = true
def A6c (pc : CPc) (sh : Bool) : Prop := pc.exited = true → sh = true
def A6k (pk : KPc) (sh : Bool) : Prop := pk.exited = true → sh = true
def A7 (e sh : Bool) : Prop := e = true → sh = true
def A8 (pd : DPc) : Prop := pd ≠ .stuck
def A9 (pd : DPc) (pl : LPc) (pf : FPc) (pc : CPc) (pk : KPc) : Prop :=
  (1 ≤ pd.joined → pl = .done) ∧ (2 ≤ pd.joined → pf = .done) ∧ (3 ≤ pd.joined → pc = .done) ∧
  (4 ≤ pd.joined → pk = .done)

structure G1 (s : St) : Prop where
  a1 : A1 s.pd s.cms
  a2 : A2 s.pd s.shutdown
  a3 : A3 s.pd s.sdDone
  a4 : A4 s.sdDone s.shutdown
  a5 : A5 s.shutdown s.sdDone s.pd s.pl s.pf s.pc s.pk
  a6l : A6l s.pl s.shutdown
  a6f : A6f s.pf s.shutdown
  a6c : A6c s.pc s.shutdown
  a6k : A6k s.pk s.shutdown
  a7 : A7 s.bgErr s.shutdown
  a8 : A8 s.pd
  a9 : A9 s.pd s.pl s.pf s.pc s.pk

/-- closes one branch of a tick function: the step equation is the only `_ = some _` hypothesis -/
macro "g1fin" : tactic => `(tactic| (
  first
  | (cases ‹_ = some _›; done)
  | (cases ‹_ = some _›
     constructor <;> dsimp only <;>
       (first | assumption
              | (simp_all [A1, A2, A3, A4, A5, A6l, A6f, A6c, A6k, A7, A8, A9, LPc.exited, FPc.exited, CPc.exited,
                   KPc.exited, DPc.afterSd1, DPc.afterSd2, DPc.joined, Cv.waitStep]; first | done | assumption | omega)
              | (split <;> simp_all [A1, A2, A3, A4, A5, A6l, A6f, A6c, A6k, A7, A8, A9, LPc.exited, FPc.exited,
                   CPc.exited, KPc.exited, DPc.afterSd1, DPc.afterSd2, DPc.joined, Cv.waitStep]; done)))))

theorem A1_wake {pd : DPc} {cms : List Cm} (h : A1 pd cms) : A1 pd (cms.map Cm.wake) := by
  intro hp c hc
  simp only [List.mem_map] at hc
  obtain ⟨c0, hc0, rfl⟩ := hc
  rw [h hp c0 hc0]; rfl

/-- closes one branch of the `store_err` tail of a worker -/
macro "g1err" : tactic => `(tactic| (
  first
  | (cases ‹_ = some _›; done)
  | (simp only [Option.map_some, Option.some.injEq] at *
     subst_vars
     try dsimp only [sdNotify, lqNotify, notifyAllCm]
     try split
     all_goals
      (constructor <;> dsimp only <;>
       (first | assumption | (apply A1_wake; assumption)
              | (simp_all [A2, A3, A4, A5, A6l, A6f, A6c, A6k, A7, A8, A9, LPc.exited, FPc.exited, CPc.exited,
                   KPc.exited, DPc.afterSd1, DPc.afterSd2, DPc.joined]; done))))))

theorem g1_lqNotify {s : St} (h : G1 s) : G1 (lqNotify s) := by
  unfold lqNotify; split
  · exact ⟨h.a1, h.a2, h.a3, h.a4, h.a5, h.a6l, h.a6f, h.a6c, h.a6k, h.a7, h.a8, h.a9⟩
  · exact h

theorem g1_notifyAllCm {s : St} (h : G1 s) : G1 (notifyAllCm s) := by
  refine ⟨?_, h.a2, h.a3, h.a4, h.a5, h.a6l, h.a6f, h.a6c, h.a6k, h.a7, h.a8, h.a9⟩
  intro hp c hc
  simp only [notifyAllCm, List.mem_map] at hc
  obtain ⟨c0, hc0, rfl⟩ := hc
  rw [h.a1 hp c0 hc0]; rfl

theorem g1_reindexStep {s : St} (a1 : A1 s.pd s.cms) (a2 : A2 s.pd s.shutdown) (a3 : A3 s.pd s.sdDone)
    (a4 : A4 s.sdDone s.shutdown) (a5 : A5 s.shutdown s.sdDone s.pd s.pl s.pf s.pc s.pk)
    (a6l : A6l s.pl s.shutdown) (a6f : A6f s.pf s.shutdown) (a6c : A6c s.pc s.shutdown)
    (a6k : A6k s.pk s.shutdown) (a7 : A7 s.bgErr s.shutdown) (a8 : A8 s.pd)
    (a9 : A9 s.pd s.pl s.pf s.pc s.pk) (hp : s.pl = .loop) : G1 (reindexStep s) := by
  unfold reindexStep
  split
  · split
    · constructor <;> dsimp only <;> assumption
    · constructor <;> dsimp only <;>
        (first | assumption | (simp_all [A5, A6l, A9, LPc.exited]; done))
  · constructor <;> dsimp only <;> assumption

set_option maxHeartbeats 800000 in
/-- the error tail keeps the structural invariant -/
theorem g1_errL {cfg : Cfg} {s s' : St} {e : ETail} (hI : G1 s) (he : s.pl = .err e)
    (h : (errStep cfg s e).map (fun (x : St × Option ETail) =>
      { x.1 with pl := match x.2 with | some e' => LPc.err e' | none => LPc.done }) = some s') : G1 s' := by
  obtain ⟨a1, a2, a3, a4, a5, a6l, a6f, a6c, a6k, a7, a8, a9⟩ := hI
  unfold errStep at h
  cases e <;> dsimp only at h <;> split at h <;> g1err

set_option maxHeartbeats 800000 in
theorem g1_tickL {cfg : Cfg} {s s' : St} (hI : G1 s) (h : tickL cfg s = some s') : G1 s' := by
  have hI0 := hI
  obtain ⟨a1, a2, a3, a4, a5, a6l, a6f, a6c, a6k, a7, a8, a9⟩ := hI
  unfold tickL at h
  split at h
  · cases h
    apply g1_reindexStep <;> dsimp only <;> (first | assumption | rfl | (simp_all [A5, A6l, A9, LPc.exited]; done))
  · split at h
    · split at h <;> g1fin
    · g1fin
  · split at h <;> g1fin
  · split at h <;> g1fin
  · g1fin
  · split at h <;> g1fin
  · split at h
    · split at h
      · g1fin
      · cases h
        split
        · refine g1_notifyAllCm ?_
          constructor <;> dsimp only <;> (first | assumption | (simp_all [A5, A6l, A9, LPc.exited]; done))
        · constructor <;> dsimp only <;> (first | assumption | (simp_all [A5, A6l, A9, LPc.exited]; done))
    · g1fin
  · g1fin
  · g1fin
  · cases h
    apply g1_reindexStep <;> dsimp only <;> (first | assumption | rfl | (simp_all [A5, A6l, A9, LPc.exited]; done))
  · g1fin
  · rename_i e he
    exact g1_errL hI0 he h
  · g1fin

end Pdb.Conc.Pipe

namespace Pdb.Conc.Pipe

set_option maxHeartbeats 800000 in
theorem g1_errF {cfg : Cfg} {s s' : St} {e : ETail} (hI : G1 s) (he : s.pf = .err e)
    (h : (errStep cfg s e).map (fun (x : St × Option ETail) =>
      { x.1 with pf := match x.2 with | some e' => FPc.err e' | none => FPc.done }) = some s') : G1 s' := by
  obtain ⟨a1, a2, a3, a4, a5, a6l, a6f, a6c, a6k, a7, a8, a9⟩ := hI
  unfold errStep at h
  cases e <;> dsimp only at h <;> split at h <;> g1err

set_option maxHeartbeats 800000 in
theorem g1_errC {cfg : Cfg} {s s' : St} {e : ETail} (hI : G1 s) (he : s.pc = .err e)
    (h : (errStep cfg s e).map (fun (x : St × Option ETail) =>
      { x.1 with pc := match x.2 with | some e' => CPc.err e' | none => CPc.done }) = some s') : G1 s' := by
  obtain ⟨a1, a2, a3, a4, a5, a6l, a6f, a6c, a6k, a7, a8, a9⟩ := hI
  unfold errStep at h
  cases e <;> dsimp only at h <;> split at h <;> g1err

set_option maxHeartbeats 800000 in
theorem g1_errK {cfg : Cfg} {s s' : St} {e : ETail} (hI : G1 s) (he : s.pk = .err e)
    (h : (errStep cfg s e).map (fun (x : St × Option ETail) =>
      { x.1 with pk := match x.2 with | some e' => KPc.err e' | none => KPc.done }) = some s') : G1 s' := by
  obtain ⟨a1, a2, a3, a4, a5, a6l, a6f, a6c, a6k, a7, a8, a9⟩ := hI
  unfold errStep at h
  cases e <;> dsimp only at h <;> split at h <;> g1err

set_option maxHeartbeats 800000 in
theorem g1_tickF {cfg : Cfg} {s s' : St} (hI : G1 s) (h : tickF cfg s = some s') : G1 s' := by
  have hI0 := hI
  obtain ⟨a1, a2, a3, a4, a5, a6l, a6f, a6c, a6k, a7, a8, a9⟩ := hI
  unfold tickF at h
  split at h
  · split at h
    · split at h <;> g1fin
    · g1fin
  · split at h <;> g1fin
  · split at h <;> g1fin
  · g1fin
  · rename_i e he
    exact g1_errF hI0 he h
  · g1fin

set_option maxHeartbeats 800000 in
theorem g1_tickC {cfg : Cfg} {s s' : St} (hI : G1 s) (h : tickC cfg s = some s') : G1 s' := by
  have hI0 := hI
  obtain ⟨a1, a2, a3, a4, a5, a6l, a6f, a6c, a6k, a7, a8, a9⟩ := hI
  unfold tickC at h
  split at h
  · split at h
    · split at h <;> g1fin
    · g1fin
  · g1fin
  · split at h <;> g1fin
  · split at h <;> g1fin
  · split at h
    · g1fin
    · g1fin
    · split at h
      · cases h
        split
        · refine g1_lqNotify ?_
          constructor <;> dsimp only <;> (first | assumption | (simp_all [A5, A6c, A9, CPc.exited]; done))
        · constructor <;> dsimp only <;> (first | assumption | (simp_all [A5, A6c, A9, CPc.exited]; done))
      · g1fin
  · split at h <;> g1fin
  · split at h <;> g1fin
  · rename_i e he
    exact g1_errC hI0 he h
  · g1fin

set_option maxHeartbeats 800000 in
theorem g1_tickK {cfg : Cfg} {s s' : St} (hI : G1 s) (h : tickK cfg s = some s') : G1 s' := by
  have hI0 := hI
  obtain ⟨a1, a2, a3, a4, a5, a6l, a6f, a6c, a6k, a7, a8, a9⟩ := hI
  unfold tickK at h
  split at h
  · split at h
    · split at h <;> g1fin
    · g1fin
  · split at h <;> g1fin
  · split at h <;> g1fin
  · g1fin
  · rename_i e he
    exact g1_errK hI0 he h
  · g1fin

end Pdb.Conc.Pipe

namespace Pdb.Conc.Pipe

/-- the sequential pieces (`kill_logs`, stepping API) only touch the data part of the state -/
structure CtlEq (s s' : St) : Prop where
  pl : s'.pl = s.pl
  pf : s'.pf = s.pf
  pc : s'.pc = s.pc
  pk : s'.pk = s.pk
  pd : s'.pd = s.pd
  cms : s'.cms = s.cms
  mc : s'.moreCommits = s.moreCommits
  mr : s'.moreReindex = s.moreReindex
  mf : s'.moreF = s.moreF
  mC : s'.moreC = s.moreC
  mk' : s'.moreK = s.moreK
  cvL : s'.cvL = s.cvL
  cvK : s'.cvK = s.cvK
  cvQ : s'.cvQ = s.cvQ
  lqn : s'.lqNotified = s.lqNotified
  reidx : s'.reidx = s.reidx
  sh : s'.shutdown = s.shutdown
  be : s'.bgErr = s.bgErr
  sd : s'.sdDone = s.sdDone
  tl : s'.treeLocked = s.treeLocked
  dcy : s'.deferCycle = s.deferCycle

theorem CtlEq.refl (s : St) : CtlEq s s := by constructor <;> rfl
theorem CtlEq.trans {a b c : St} (h1 : CtlEq a b) (h2 : CtlEq b c) : CtlEq a c := by
  constructor
  · rw [h2.pl, h1.pl]
  · rw [h2.pf, h1.pf]
  · rw [h2.pc, h1.pc]
  · rw [h2.pk, h1.pk]
  · rw [h2.pd, h1.pd]
  · rw [h2.cms, h1.cms]
  · rw [h2.mc, h1.mc]
  · rw [h2.mr, h1.mr]
  · rw [h2.mf, h1.mf]
  · rw [h2.mC, h1.mC]
  · rw [h2.mk', h1.mk']
  · rw [h2.cvL, h1.cvL]
  · rw [h2.cvK, h1.cvK]
  · rw [h2.cvQ, h1.cvQ]
  · rw [h2.lqn, h1.lqn]
  · rw [h2.reidx, h1.reidx]
  · rw [h2.sh, h1.sh]
  · rw [h2.be, h1.be]
  · rw [h2.sd, h1.sd]
  · rw [h2.tl, h1.tl]
  · rw [h2.dcy, h1.dcy]

theorem ctlEq_seqEnactOnce {cfg : Cfg} {s s1 : St} {b : Bool} (h : seqEnactOnce cfg s = some (s1, b)) :
    CtlEq s s1 := by
  unfold seqEnactOnce at h
  split at h
  · cases h; exact CtlEq.refl _
  · cases h; constructor <;> rfl
  · simp only at h
    split at h
    · cases h
    · cases h; constructor <;> rfl

theorem ctlEq_seqEnactLoop {cfg : Cfg} : ∀ (n : Nat) {s s' : St}, seqEnactLoop cfg n s = some s' → CtlEq s s'
  | 0, s, s', h => by simp [seqEnactLoop] at h; subst h; exact CtlEq.refl _
  | n + 1, s, s', h => by
    simp only [seqEnactLoop] at h
    split at h
    · cases h
    · rename_i s1 he; exact (ctlEq_seqEnactOnce he).trans (ctlEq_seqEnactLoop n h)
    · rename_i s1 he; cases h; exact ctlEq_seqEnactOnce he

theorem ctlEq_seqFlush0 (s : St) : CtlEq s (seqFlush0 s) := by
  unfold seqFlush0; split
  · constructor <;> rfl
  · exact CtlEq.refl _

theorem ctlEq_seqProcessOnce (s : St) : CtlEq s (seqProcessOnce s).1 := by
  unfold seqProcessOnce; split
  · exact CtlEq.refl _
  · constructor <;> rfl

theorem ctlEq_seqProcessLoop : ∀ (n : Nat) (s : St), CtlEq s (seqProcessLoop n s)
  | 0, s => by simp only [seqProcessLoop]; exact CtlEq.refl _
  | n + 1, s => by
    simp only [seqProcessLoop]
    split
    · exact (ctlEq_seqProcessOnce s).trans (ctlEq_seqProcessLoop n _)
    · exact CtlEq.refl _

theorem ctlEq_killLogsSeq {cfg : Cfg} {s s' : St} (h : killLogsSeq cfg s = some s') : CtlEq s s' := by
  unfold killLogsSeq at h
  split at h
  · cases h; constructor <;> rfl
  · obtain ⟨s1, h1, h⟩ := bind_some h
    split at h
    · cases h
    obtain ⟨s4, h4, h⟩ := bind_some h
    obtain ⟨s6, h6, h⟩ := bind_some h
    cases h
    have e1 := ctlEq_seqEnactLoop _ h1
    have e3 := (ctlEq_seqFlush0 s1).trans (ctlEq_seqProcessLoop (fuel s1) _)
    have e4 := ctlEq_seqEnactLoop _ h4
    have e6 := ctlEq_seqEnactLoop _ h6
    have e := ((e1.trans e3).trans e4).trans ((ctlEq_seqFlush0 s4).trans e6)
    constructor
    · exact e.pl
    · exact e.pf
    · exact e.pc
    · exact e.pk
    · exact e.pd
    · exact e.cms
    · exact e.mc
    · exact e.mr
    · exact e.mf
    · exact e.mC
    · exact e.mk'
    · exact e.cvL
    · exact e.cvK
    · exact e.cvQ
    · exact e.lqn
    · exact e.reidx
    · exact e.sh
    · exact e.be
    · exact e.sd
    · exact e.tl
    · exact e.dcy

theorem g1_ctlEq {s s' : St} (hI : G1 s) (e : CtlEq s s') : G1 s' := by
  obtain ⟨a1, a2, a3, a4, a5, a6l, a6f, a6c, a6k, a7, a8, a9⟩ := hI
  constructor
  · rw [e.pd, e.cms]; exact a1
  · rw [e.pd, e.sh]; exact a2
  · rw [e.pd, e.sd]; exact a3
  · rw [e.sd, e.sh]; exact a4
  · rw [e.sh, e.sd, e.pd, e.pl, e.pf, e.pc, e.pk]; exact a5
  · rw [e.pl, e.sh]; exact a6l
  · rw [e.pf, e.sh]; exact a6f
  · rw [e.pc, e.sh]; exact a6c
  · rw [e.pk, e.sh]; exact a6k
  · rw [e.be, e.sh]; exact a7
  · rw [e.pd]; exact a8
  · rw [e.pd, e.pl, e.pf, e.pc, e.pk]; exact a9

theorem g1_sdNotify (cfg : Cfg) {s : St} (a1 : A1 s.pd s.cms) (a2 : A2 s.pd s.shutdown)
    (a6l : A6l s.pl s.shutdown) (a6f : A6f s.pf s.shutdown) (a6c : A6c s.pc s.shutdown)
    (a6k : A6k s.pk s.shutdown) (a7 : A7 s.bgErr s.shutdown) (a8 : A8 s.pd)
    (a9 : A9 s.pd s.pl s.pf s.pc s.pk) (hs : s.shutdown = true) :
    G1 (sdNotify cfg s) := by
  unfold sdNotify lqNotify
  split <;> (constructor <;> dsimp only <;> (first | assumption | (simp_all [A3, A4, A5]; done)))

end Pdb.Conc.Pipe
