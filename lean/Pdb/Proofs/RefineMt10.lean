/-
R6 lemmas, part 10: the root changes of a change set on a plain multitree column (`Set` of fresh keys), and the whole
change set (`IndexedChangeSet::write_plan` without postponed `Set`s): root changes, then node changes.
-/
import Pdb.Proofs.RefineMt9

namespace Pdb.MultiTreePhys
open Pdb.Gen Pdb.ValueTable Pdb.MultiTree

/-- slots the root `Set`s of a list need at most -/
def rootSlots (rc : Bool) : List RChange → Nat
  | [] => 0
  | .set k root :: rest =>
    numParts (tableOfTier rc (rootTier rc k (encodeNode root).length)) (keyTail k) (encodeNode root) + rootSlots rc rest
  | .reference _ :: rest => rootSlots rc rest

def setKeys : List RChange → List Key
  | [] => []
  | .set k _ :: rest => k :: setKeys rest
  | .reference _ :: rest => setKeys rest

/-- static side condition on the root changes of a plain column: every `Set` writes a representable root under a 32-byte
    hashed key that has no root entry and occurs once (C10's "distinct live root keys") -/
structure RootsOk (h : Heap Key Bytes) (chs : List RChange) : Prop where
  sets : ∀ k root, RootChange.set k root ∈ chs → k.length = 32 ∧ NodeOk root ∧ h.roots.get k = none
  distinct : (setKeys chs).Nodup

theorem mem_setKeys {k : Key} {root : Node Bytes} {chs : List RChange} (h : RootChange.set k root ∈ chs) :
    k ∈ setKeys chs := by
  induction chs with
  | nil => simp at h
  | cons c rest ih =>
    rcases List.mem_cons.mp h with rfl | h'
    · simp [setKeys]
    · have := ih h'
      cases c <;> simp [setKeys, this]

/-- the fill marks after a root `Set` on a fresh key -/
theorem setRoot_filled (p : PCol) (h : Heap Key Bytes) (ly : Layout) (r : Rep p h ly) (k : Key) (root : Node Bytes)
    (hk : k.length = 32) (hnew : h.roots.get k = none)
    (hb : (p.vt (rootTier p.isRc k (encodeNode root).length)).filled +
      numParts (p.vt (rootTier p.isRc k (encodeNode root).length)) (keyTail k) (encodeNode root) ≤ 2 ^ 56)
    (p' : PCol) (hp : physApplyRoot p (.set k root) = .ok p') :
    ∀ tier', (p'.vt tier').filled ≤ (p.vt tier').filled +
      (if tier' = rootTier p.isRc k (encodeNode root).length then
        numParts (p.vt (rootTier p.isRc k (encodeNode root).length)) (keyTail k) (encodeNode root) else 0) := by
  generalize htier : rootTier p.isRc k (encodeNode root).length = tier at *
  have hidxnone : p.index.get k = none := r.roots.rootNone k hnew
  have hok : WriteOk (p.vt tier) (keyTail k) (encodeNode root) :=
    root_writeOk p.isRc _ k _ hk (by rw [htier]; exact r.cfg tier)
  obtain ⟨w, hw, _, _, _, _, _, _, _, hfl⟩ := tier_insert (p.vt tier) (ly.free tier)
    (ly.claimed tier) _ (keyTail k) (encodeNode root) (r.tiers tier) hok (by omega)
  simp only [physApplyRoot, physSetRoot, htier, hidxnone, hw, Except.ok.injEq] at hp
  subst hp
  intro tier'
  show ((p.setVT tier w.table).vt tier').filled ≤ _
  by_cases he : tier' = tier
  · subst he; rw [setVT_same, if_pos rfl]; exact hfl
  · rw [setVT_other _ _ _ _ he, if_neg he]; omega

/-- the loop over `changes` on a plain column -/
theorem sim_rootChanges : ∀ (chs : List RChange) (p : PCol) (h : Heap Key Bytes) (ly : Layout), Rep p h ly →
    p.variant = .plain → RootsOk h chs → (∀ tier, (p.vt tier).filled + rootSlots p.isRc chs ≤ 2 ^ 56) →
    ∃ p' ly', chs.foldlM physApplyRoot p = .ok p' ∧ Rep p' (chs.foldl (applyRootChange .plain) h) ly' ∧
      p'.variant = p.variant ∧ ly'.claimed = ly.claimed ∧
      (∀ tier, (p'.vt tier).filled ≤ (p.vt tier).filled + rootSlots p.isRc chs) := by
  intro chs
  induction chs with
  | nil => intro p h ly r _ _ _; exact ⟨p, ly, rfl, r, rfl, rfl, fun _ => by simp [rootSlots]⟩
  | cons c rest ih =>
    intro p h ly r hv hok hroom
    simp only [List.foldlM_cons, List.foldl_cons]
    cases c with
    | reference k =>
      have habs : applyRootChange .plain h (.reference k) = h := by
        simp [applyRootChange, referenceTree, okOr]
      have hphys : physApplyRoot p (.reference k) = .ok p := by
        simp only [physApplyRoot, physRefRoot, isRc_of_plain p hv]
        cases p.index.get k <;> simp
      rw [habs, hphys]
      simp only [bind, Except.bind]
      simp only [rootSlots] at hroom ⊢
      exact ih p h ly r hv ⟨fun k' root' hm => hok.sets k' root' (List.mem_cons_of_mem _ hm), by
        have := hok.distinct; simpa [setKeys] using this⟩ hroom
    | set k root =>
      obtain ⟨hk, hn, hnew⟩ := hok.sets k root List.mem_cons_self
      have hcfgT := r.cfg (rootTier p.isRc k (encodeNode root).length)
      have hnp := numParts_cfg _ _ hcfgT (keyTail k) (encodeNode root)
      simp only [rootSlots] at hroom
      have hb : (p.vt (rootTier p.isRc k (encodeNode root).length)).filled +
          numParts (p.vt (rootTier p.isRc k (encodeNode root).length)) (keyTail k) (encodeNode root) ≤ 2 ^ 56 := by
        rw [hnp]; have := hroom (rootTier p.isRc k (encodeNode root).length); omega
      obtain ⟨pm, c, hpm, rm, _, hvm⟩ := sim_setRoot_new p h ly r k root hk hnew hn hb
      have hfl := setRoot_filled p h ly r k root hk hnew hb pm hpm
      have hrcm : pm.isRc = p.isRc := by simp [PCol.isRc, hvm]
      have habs : applyRootChange .plain h (.set k root) = { h with roots := h.roots.set k (some (root, 1)) } := by
        simp only [applyRootChange, hnew]; rfl
      have hnd := hok.distinct
      simp only [setKeys, List.nodup_cons] at hnd
      obtain ⟨p', ly', hp', r', hv', hcl', hfl'⟩ := ih pm _ _ rm (hvm.trans hv)
        ⟨fun k' root' hm => by
          obtain ⟨a1, a2, a3⟩ := hok.sets k' root' (List.mem_cons_of_mem _ hm)
          refine ⟨a1, a2, ?_⟩
          have hne : k' ≠ k := fun e => hnd.1 (e ▸ mem_setKeys hm)
          simp only [FMap.get_set, hne, if_false]; exact a3, hnd.2⟩
        (by
          intro tier
          rw [hrcm]
          have h1 := hfl tier
          have h2 := hroom tier
          by_cases he : tier = rootTier p.isRc k (encodeNode root).length
          · rw [if_pos he, hnp] at h1; omega
          · rw [if_neg he] at h1; omega)
      rw [habs, hpm]
      simp only [bind, Except.bind]
      refine ⟨p', ly', hp', r', hv'.trans hvm, hcl', ?_⟩
      intro tier
      simp only [rootSlots]
      have h1 := hfl tier
      have h2 := hfl' tier
      rw [hrcm] at h2
      by_cases he : tier = rootTier p.isRc k (encodeNode root).length
      · rw [if_pos he, hnp] at h1; omega
      · rw [if_neg he] at h1; omega

/-- static side condition on a whole change set of a plain column -/
structure CsOk (p : PCol) (h : Heap Key Bytes) (ly : Layout) (cs : ChangeSet Key Bytes) : Prop where
  roots : RootsOk h cs.changes
  nv : ∀ a n, NodeChange.newValue a n ∈ cs.nodeChanges → NVOk p.isRc ly a n
  distinct : (newAddrs cs.nodeChanges).Nodup
  room : ∀ tier, (p.vt tier).filled + rootSlots p.isRc cs.changes + slotsNeeded p.isRc cs.nodeChanges ≤ 2 ^ 56

/-- `IndexedChangeSet::write_plan` (no postponed `Set`): root changes, then node changes = C10's `applyChangeSetF41H` -/
theorem sim_changeSet (p : PCol) (h h' : Heap Key Bytes) (ly : Layout) (cs : ChangeSet Key Bytes) (r : Rep p h ly)
    (hv : p.variant = .plain) (hok : CsOk p h ly cs) (hw : applyChangeSetF41H .plain h cs = .ok h') :
    ∃ p' ly', physApplyChangeSet p cs = .ok p' ∧ Rep p' h' ly' ∧ p'.variant = p.variant ∧
      (∀ tier o, o ∈ ly'.claimed tier → o ∈ ly.claimed tier ∧
        ∀ a n, NodeChange.newValue a n ∈ cs.nodeChanges → ¬ (Address.size_tier a = tier ∧ Address.offset a = o)) := by
  obtain ⟨p1, ly1, hp1, r1, hv1, hcl1, hfl1⟩ := sim_rootChanges cs.changes p h ly r hv hok.roots (by
    intro tier; have := hok.room tier; omega)
  have hrc1 : p1.isRc = p.isRc := by simp [PCol.isRc, hv1]
  obtain ⟨p', ly', hp', r', hv', hleft⟩ := sim_nodeChanges cs.nodeChanges p1 _ h' ly1 r1 (hv1.trans hv)
    ⟨fun a n hm => by
      have := hok.nv a n hm
      unfold NVOk at this ⊢
      rw [hrc1, hcl1]; exact this, hok.distinct, by
      intro tier
      rw [hrc1]
      have := hok.room tier
      have := hfl1 tier
      omega⟩ hw
  refine ⟨p', ly', ?_, r', hv'.trans hv1, by rw [hcl1] at hleft; exact hleft⟩
  simp only [physApplyChangeSet, hp1]
  exact hp'

end Pdb.MultiTreePhys
