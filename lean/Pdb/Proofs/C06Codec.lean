/-
C06 helper lemmas, part 1: little-endian fields, the size field and the markers.
Everything about concrete numbers is derived from the generated constants
(`COMPRESSED_MASK`, `MAX_ENTRY_SIZE`, `SIZE_SIZE`, the four markers), so a mutation of one of
them in src/table.rs breaks these proofs.
-/
import Pdb.Model.ValueTable

namespace Pdb.ValueTable
open Pdb.Gen

/-! ## little endian -/

@[simp] theorem leBytes_length (n x : Nat) : (leBytes n x).length = n := by
  induction n generalizing x with
  | zero => rfl
  | succ n ih => simp [leBytes, ih]

theorem fromLe_leBytes (n x : Nat) (h : x < 256 ^ n) : fromLe (leBytes n x) = x := by
  induction n generalizing x with
  | zero => simp at h; subst h; rfl
  | succ n ih =>
    simp only [leBytes, fromLe]
    have : x / 256 < 256 ^ n := by
      rw [Nat.div_lt_iff_lt_mul (by decide)]
      rw [Nat.pow_succ] at h; exact h
    rw [ih _ this]
    omega

theorem leBytes_two (x : Nat) : leBytes 2 x = [x % 256, x / 256 % 256] := rfl

/-! ## bit operations with the compressed mask -/

theorem mask_eq : COMPRESSED_MASK = 2 ^ 15 := by decide

theorem and_mask (s : Nat) : s &&& COMPRESSED_MASK = 32768 * (s / 32768 % 2) := by
  rw [mask_eq]
  have h1 : (s &&& 2 ^ 15) % 2 ^ 15 = 0 := by
    rw [Nat.and_mod_two_pow]; simp
  have h2 : (s &&& 2 ^ 15) / 2 ^ 15 = s / 2 ^ 15 % 2 := by
    rw [Nat.and_div_two_pow]
    have h := Nat.and_two_pow_sub_one_eq_mod (s / 2 ^ 15) 1
    have e : (2:Nat) ^ 15 / 2 ^ 15 = 2 ^ 1 - 1 := by decide
    rw [e]; exact h
  have := Nat.div_add_mod (s &&& 2 ^ 15) (2 ^ 15)
  rw [h1, h2] at this
  omega

theorem and_notmask (s : Nat) : s &&& (2 ^ 16 - 1 - COMPRESSED_MASK) = s % 32768 := by
  have : 2 ^ 16 - 1 - COMPRESSED_MASK = 2 ^ 15 - 1 := by decide
  rw [this, Nat.and_two_pow_sub_one_eq_mod]

theorem or_mask (n : Nat) (h : n < 32768) : n ||| COMPRESSED_MASK = n + 32768 := by
  rw [mask_eq]
  exact Nat.or_two_pow_eq_add_of_lt (n := 15) (by simpa using h)

/-- The u16 in the size field for a length below 2^15. -/
theorem sizeField_eq (n : Nat) (c : Bool) (h : n < 32768) :
    sizeField n c = if c then n + 32768 else n := by
  unfold sizeField
  have : n % 2 ^ 16 = n := Nat.mod_eq_of_lt (by omega)
  rw [this]
  cases c
  · simp
  · simp [or_mask n h]

theorem sizeField_lt (n : Nat) (c : Bool) (h : n < 32768) : sizeField n c < 65536 := by
  rw [sizeField_eq n c h]; split <;> omega

theorem fromLe_sizeBytes (n : Nat) (c : Bool) (h : n < 32768) :
    fromLe (sizeBytes n c) = sizeField n c := by
  unfold sizeBytes
  apply fromLe_leBytes
  have : (256 : Nat) ^ SIZE_SIZE = 65536 := by decide
  rw [this]; exact sizeField_lt n c h

@[simp] theorem sizeBytes_length (n : Nat) (c : Bool) : (sizeBytes n c).length = SIZE_SIZE := by
  simp [sizeBytes]

/-- `read_size` inverts `write_size` for every length below 2^15. -/
theorem readSize_sizeBytes (n : Nat) (c : Bool) (h : n < 32768) (rest : Bytes) :
    readSize (sizeBytes n c ++ rest) = (n, c) := by
  unfold readSize
  have ht : (sizeBytes n c ++ rest).take SIZE_SIZE = sizeBytes n c :=
    List.take_left' (sizeBytes_length n c)
  simp only [ht, fromLe_sizeBytes n c h, sizeField_eq n c h, and_notmask, and_mask]
  cases c
  · have h1 : n % 32768 = n := Nat.mod_eq_of_lt h
    have h2 : n / 32768 = 0 := Nat.div_eq_of_lt h
    simp [h1, h2]
  · have h1 : (n + 32768) % 32768 = n := by omega
    have h2 : (n + 32768) / 32768 % 2 = 1 := by omega
    simp only [if_true]; rw [h1, h2]; simp

/-! ## the size field is never a marker -/

theorem fromLe_TOMBSTONE : fromLe TOMBSTONE = 65535 := by decide
theorem fromLe_MULTIPART : fromLe MULTIPART = 65534 := by decide
theorem fromLe_MULTIHEAD : fromLe MULTIHEAD = 65533 := by decide
theorem fromLe_MULTIHEAD_COMPRESSED : fromLe MULTIHEAD_COMPRESSED = 32765 := by decide

/-- The largest length `overwrite_chain` ever puts into a size field is
`free_space = entry_size - SIZE_SIZE <= MAX_ENTRY_SIZE - SIZE_SIZE`. -/
def maxStoredLen : Nat := MAX_ENTRY_SIZE - SIZE_SIZE

theorem maxStoredLen_lt : maxStoredLen < 32765 := by decide

/-- Core of C06_size_field_never_a_marker, for every length below 0x7ffd. -/
theorem sizeBytes_not_marker (n : Nat) (c : Bool) (h : n < 32765) :
    sizeBytes n c ≠ TOMBSTONE ∧ sizeBytes n c ≠ MULTIPART ∧ sizeBytes n c ≠ MULTIHEAD ∧
      sizeBytes n c ≠ MULTIHEAD_COMPRESSED := by
  have hf := fromLe_sizeBytes n c (by omega)
  rw [sizeField_eq n c (by omega)] at hf
  refine ⟨?_, ?_, ?_, ?_⟩ <;> intro he <;> rw [he] at hf
  · rw [fromLe_TOMBSTONE] at hf; split at hf <;> omega
  · rw [fromLe_MULTIPART] at hf; split at hf <;> omega
  · rw [fromLe_MULTIHEAD] at hf; split at hf <;> omega
  · rw [fromLe_MULTIHEAD_COMPRESSED] at hf; split at hf <;> omega

/-- markers are pairwise distinct and two bytes long -/
theorem markers_distinct :
    TOMBSTONE ≠ MULTIPART ∧ TOMBSTONE ≠ MULTIHEAD ∧ TOMBSTONE ≠ MULTIHEAD_COMPRESSED ∧
      MULTIPART ≠ MULTIHEAD ∧ MULTIPART ≠ MULTIHEAD_COMPRESSED ∧ MULTIHEAD ≠ MULTIHEAD_COMPRESSED ∧
      TOMBSTONE.length = SIZE_SIZE ∧ MULTIPART.length = SIZE_SIZE ∧ MULTIHEAD.length = SIZE_SIZE ∧
      MULTIHEAD_COMPRESSED.length = SIZE_SIZE := by decide

end Pdb.ValueTable
