/-
R6 lemmas, part 14: the whole InsertTree transaction on a plain multitree column: `commit_changes` (validation, claims,
queue) followed by `process_commits` of that commit.
-/
import Pdb.Proofs.RefineMt13

namespace Pdb.MultiTreePhys
open Pdb.Gen Pdb.ValueTable Pdb.MultiTree

mutual
  theorem fineRef_maxFan : ∀ (r : NRef Bytes), fineRef r → r.maxFan ≤ 255
    | .existing _, _ => by simp [NRef.maxFan]
    | .new d cs, hf => by
      have := fineRefs_maxFan cs hf.2.2
      simp only [NRef.maxFan]
      exact Nat.max_le.mpr ⟨hf.2.1, this⟩
  theorem fineRefs_maxFan : ∀ (cs : NRefs Bytes), fineRefs cs → cs.maxFan ≤ 255
    | .nil, _ => by simp [NRefs.maxFan]
    | .cons r rs, hf => by
      simp only [NRefs.maxFan]
      exact Nat.max_le.mpr ⟨fineRef_maxFan r hf.1, fineRefs_maxFan rs hf.2⟩
end

/-- node changes without DereferenceChildren never fail in C10's model -/
theorem foldNoDeref_ok (v : Variant) : ∀ (chs : List NChange) (h : Heap Key Bytes),
    (∀ c ∈ chs, isDeref c = false) → ∃ h', chs.foldlM (applyNodeChangeH v) h = .ok h' := by
  intro chs
  induction chs with
  | nil => intro h _; exact ⟨h, rfl⟩
  | cons c rest ih =>
    intro h hnd
    simp only [List.foldlM_cons]
    cases c with
    | newValue a n =>
      simp only [applyNodeChangeH, bind, Except.bind]
      exact ih _ (fun c hc => hnd c (List.mem_cons_of_mem _ hc))
    | incRef a =>
      simp only [applyNodeChangeH, bind, Except.bind]
      exact ih _ (fun c hc => hnd c (List.mem_cons_of_mem _ hc))
    | derefChildren k cs =>
      have := hnd _ List.mem_cons_self
      simp [isDeref] at this

theorem no_postponed_of_noDeref (cs : ChangeSet Key Bytes) (hnd : ∀ c ∈ cs.nodeChanges, isDeref c = false) :
    ∀ c ∈ cs.changes, cs.postponed c = false := by
  intro c _
  cases c with
  | reference k => rfl
  | set k root =>
    simp only [ChangeSet.postponed, ChangeSet.dereferenced]
    rw [List.any_eq_false]
    intro x hx
    have := hnd x hx
    cases x <;> simp_all [isDeref, derefKey]

/-- InsertTree(k, t) as one transaction on a plain multitree column with an empty commit queue: `commit` validates,
    claims (heap untouched) and queues the change set `cs`; `process` applies it; the result represents C10's
    `applyChangeSetH .plain h cs`, and `cs` is the change set C10's assembly makes from the claimed addresses. -/
theorem sim_tx_insert (db : PDb) (h : Heap Key Bytes) (ly : Layout) (r : Rep db.col h ly)
    (hv : db.col.variant = .plain) (hq : db.queue = []) (k : Key) (t : NewNode Bytes)
    (hk : k.length = 32) (hfresh : h.roots.get k = none)
    (hfine : t.data.length < 2 ^ 63 ∧ t.children.length ≤ 255 ∧ fineRefs t.children)
    (hb : ∀ tier, (db.col.vt tier).filled +
      ((tierCounts (tiersRefs db.col.isRc t.children)).map Prod.snd).sum ≤ 2 ^ 56)
    (hroom : ∀ p1 root chs, physClaimTree db.col t = .ok (p1, root, chs) →
      ∀ tier, (p1.vt tier).filled + rootSlots p1.isRc [.set k root] + slotsNeeded p1.isRc chs ≤ 2 ^ 56) :
    ∃ (db1 : PDb) (root : Node Bytes) (chs : List NChange) (h' : Heap Key Bytes) (p' : PCol) (ly1 ly' : Layout),
      db.commit [.insert k t] = (db1, .ok (newAddrs chs)) ∧ db1.queue = [⟨[.set k root], chs⟩] ∧
      Rep db1.col h ly1 ∧
      root.data = t.data ∧
      planRefs (K := Key) false (newAddrs chs) t.children = (chs, [], root.children) ∧
      applyChangeSetH .plain h ⟨[.set k root], chs⟩ = .ok h' ∧
      db1.process = (⟨p', []⟩, .ok ()) ∧ Rep p' h' ly' ∧ p'.variant = .plain ∧
      ((∀ tier, ly.claimed tier = []) → ∀ tier, ly'.claimed tier = []) := by
  obtain ⟨p1, root, chs, ly1, hct, r1, hv1, hroot, hdata, hnv, hnd, hndr, _, _, hused⟩ :=
    sim_claimTree' db.col h ly r t hfine hb
  have hrc1 : p1.isRc = db.col.isRc := by simp [PCol.isRc, hv1]
  have hap : db.col.isAppendOnly = false := by simp [PCol.isAppendOnly, hv]
  -- the plan is the abstract plan
  have hplan : planRefs (K := Key) false (newAddrs chs) t.children = (chs, [], root.children) := by
    have h2 := sim_claimTree db.col h ly r t hb
    obtain ⟨p1', root', chs', _, hct', _, _, _, hpl, _⟩ := h2
    rw [hct] at hct'
    simp only [Except.ok.injEq, Prod.mk.injEq] at hct'
    obtain ⟨_, rfl, rfl⟩ := hct'
    rw [hap] at hpl; exact hpl
  have hnoD : ∀ c ∈ chs, isDeref c = false := by
    intro c hc
    cases c with
    | derefChildren k' cs' => exact absurd rfl (hndr _ hc k' cs')
    | newValue _ _ => rfl
    | incRef _ => rfl
  have hnp := no_postponed_of_noDeref ⟨[.set k root], chs⟩ hnoD
  obtain ⟨h', hh'⟩ := foldNoDeref_ok .plain chs (applyRootChange .plain h (.set k root)) hnoD
  have hF41 : applyChangeSetF41H .plain h ⟨[.set k root], chs⟩ = .ok h' := by
    simp only [applyChangeSetF41H, List.foldl_cons, List.foldl_nil]; exact hh'
  have hcs : CsOk p1 h ly1 ⟨[.set k root], chs⟩ := by
    refine ⟨⟨?_, by simp [setKeys]⟩, ?_, hnd, ?_⟩
    · intro k' root' hm
      simp only [List.mem_singleton, RootChange.set.injEq] at hm
      obtain ⟨rfl, rfl⟩ := hm
      exact ⟨hk, hroot, hfresh⟩
    · intro a n hm; rw [hrc1]; exact hnv a n hm
    · intro tier; have := hroom p1 root chs hct tier; omega
  obtain ⟨p', ly', hp', r', hv', hleft⟩ := sim_changeSet p1 h h' ly1 _ r1 (hv1.trans hv) hcs hF41
  refine ⟨⟨p1, [⟨[.set k root], chs⟩]⟩, root, chs, h', p', ly1, ly', ?_, rfl, r1, hdata, hplan, ?_, ?_, r',
    hv'.trans (hv1.trans hv), ?_⟩
  rotate_left 3
  · intro hempty tier
    apply List.eq_nil_iff_forall_not_mem.mpr
    intro o ho
    obtain ⟨h1, h2⟩ := hleft tier o ho
    rcases hused tier o h1 with h3 | ⟨a, n, hm, ht, hoff⟩
    · rw [hempty tier] at h3; simp at h3
    · exact h2 a n hm ⟨ht, hoff⟩
  · have hval : validateOps db.col.variant db.viewRoot ([POp.insert k t].map POp.toOp) = .ok := by
      have hmf : t.maxFan ≤ 255 := by
        unfold NewNode.maxFan
        exact Nat.max_le.mpr ⟨hfine.2.1, fineRefs_maxFan _ hfine.2.2⟩
      have hmf' : ¬ t.maxFan > 255 := by omega
      simp [List.map_cons, List.map_nil, POp.toOp, validateOps, Op.kind, Validate.validateChange, hv, Variant.opts, hmf']
    unfold PDb.commit
    rw [hval]
    simp only [List.foldlM_cons, List.foldlM_nil, PDb.asmOp, hct, bind, Except.bind, ChangeSet.empty, List.nil_append,
      hq, pure, Except.pure]
    rfl
  · rw [applyChangeSetH_of_no_postponed' _ _ _ hnp]; exact hF41
  · simp only [PDb.process, hp']
where
  applyChangeSetH_of_no_postponed' (v : Variant) (h : Heap Key Bytes) (cs : ChangeSet Key Bytes)
      (hnp : ∀ c ∈ cs.changes, cs.postponed c = false) : applyChangeSetH v h cs = applyChangeSetF41H v h cs := by
    have h1 : cs.early = cs := by
      unfold ChangeSet.early
      have : cs.changes.filter (fun c => !cs.postponed c) = cs.changes :=
        List.filter_eq_self.mpr (fun c hc => by simp [hnp c hc])
      rw [this]
    have h2 : cs.late = [] := by
      unfold ChangeSet.late
      exact List.filter_eq_nil_iff.mpr (fun c hc => by simp [hnp c hc])
    unfold applyChangeSetH
    rw [h1, h2]
    cases applyChangeSetF41H v h cs <;> rfl

end Pdb.MultiTreePhys
