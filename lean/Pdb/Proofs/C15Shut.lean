/-
C15 helper lemmas (6): the shutdown phase (once the notifications of `shutdown()` are out no
worker can be parked for ever), the error wake-up of throttled committers, the result of
`kill_logs`, and the assembly of all invariants for the fixed configuration.
-/
import Pdb.Proofs.C15Num

namespace Pdb.Conc.Pipe

def cIdle : CPc → Bool
  | .idle1 | .idle2 | .waitC => true
  | _ => false

/-- once the notifications of `shutdown()` are out, no worker can be parked for ever -/
def DL (sd : Bool) (pl : LPc) (cvL : Cv) (lqn : Bool) : Prop :=
  sd = true → (pl = .waitL → cvL.flag = true) ∧ (pl = .lqParked → lqn = true) ∧ pl ≠ .lqAbout
def DF (sd : Bool) (pf : FPc) (cvF : Cv) : Prop := sd = true → pf = .waitF → cvF.flag = true
def DC (sd : Bool) (pc : CPc) (cvC cvQ : Cv) : Prop :=
  sd = true → (cIdle pc = true → cvC.flag = true) ∧ (pc = .waitQ → cvQ.flag = true)
def DK (sd : Bool) (pk : KPc) (cvK : Cv) : Prop := sd = true → pk = .waitK → cvK.flag = true
/-- after `kill_logs`: everything accepted is in a flushed log file or in the tables: queue and
    appending file empty, NO FILE HALF READ (`Log::kill_logs` deletes the file being read: it
    held no unread record) -/
def FIN (pd : DPc) (dirty : Nat) (be : Bool) (q app : List Nat) (reading : Option (List Nat)) (kl : Nat) : Prop :=
  (pd = .unlock ∨ pd = .done) → dirty = 0 ∧ (be = false → q = [] ∧ sum app = 0 ∧ reading = none ∧ kl = 0)

structure GD (s : St) : Prop where
  dl : DL s.sdDone s.pl s.cvL s.lqNotified
  df : DF s.sdDone s.pf s.cvF
  dc : DC s.sdDone s.pc s.cvC s.cvQ
  dk : DK s.sdDone s.pk s.cvK
  q2 : Q2 s.bgErr s.cms s.pl s.pf s.pc s.pk
  fin : FIN s.pd s.dirty s.bgErr s.q s.app s.reading s.killLost

/-- the fixes of F7 / F12 / F13 are in (`Cfg.patched`), workers are running -/
structure Fixed (cfg : Cfg) : Prop where
  w : cfg.workers = true
  p1 : cfg.enactChecksShutdown = true
  p2 : cfg.shutdownSignalsCleanupQ = true
  p3 : cfg.shutdownNotifyLocked = true
  p4 : cfg.commitChecksErrBeforeWait = true
  p5 : cfg.storeErrNotifyLocked = true

macro "gdsimp" : tactic => `(tactic|
  simp_all [DL, DF, DC, DK, FIN, Q2, cIdle, lE23, fE23, cE23, kE23, Cv.signal, Cv.waitStep, Cv.canStep, A4, A9,
    DPc.joined, waitCond])

macro "gdfin" : tactic => `(tactic| (
  first
  | (cases ‹_ = some _›; done)
  | (cases ‹_ = some _›
     constructor <;> dsimp only <;>
       (first | assumption
              | (gdsimp; first | done | assumption | omega | grind)))))

theorem q2_wake {be : Bool} {cms : List Cm} {pl : LPc} {pf : FPc} {pc : CPc} {pk : KPc}
    (h : Q2 be cms pl pf pc pk) : Q2 be (cms.map Cm.wake) pl pf pc pk :=
  fun hb hex => h hb (unnot_of_wake hex)

theorem q2_setL {be : Bool} {cms : List Cm} {pl pl' : LPc} {pf : FPc} {pc : CPc} {pk : KPc}
    (h : Q2 be cms pl pf pc pk) (hm : lE23 pl = true → lE23 pl' = true) : Q2 be cms pl' pf pc pk := by
  intro hb hex
  rcases h hb hex with h1 | h1
  · exact Or.inl (hm h1)
  · exact Or.inr h1

/-- the three steps of a worker's `store_err` tail, for the thread-independent part of `GD`:
    returns the facts about the intermediate state that the per-thread lemmas need -/
theorem gd_errStep {cfg : Cfg} (hF : Fixed cfg) {s s1 : St} {e : ETail} {n : Option ETail} (hG : G1 s) (hI : GD s)
    (hsh : e ≠ .e1 → s.shutdown = true) (he : errStep cfg s e = some (s1, n)) :
    -- condvar-side facts
    (s1.sdDone = true → (s1.pl = .waitL → s1.cvL.flag = true) ∧ (s1.pl = .lqParked → s1.lqNotified = true) ∧
        s1.pl ≠ .lqAbout) ∧
    (s1.sdDone = true → s1.pf = .waitF → s1.cvF.flag = true) ∧
    (s1.sdDone = true → (cIdle s1.pc = true → s1.cvC.flag = true) ∧ (s1.pc = .waitQ → s1.cvQ.flag = true)) ∧
    (s1.sdDone = true → s1.pk = .waitK → s1.cvK.flag = true) ∧
    FIN s1.pd s1.dirty s1.bgErr s1.q s1.app s1.reading s1.killLost ∧
    s1.pl = s.pl ∧ s1.pf = s.pf ∧ s1.pc = s.pc ∧ s1.pk = s.pk ∧
    -- committers
    ((e = .e1 ∧ s1.cms = s.cms ∧ s1.bgErr = true ∧ (n = some .e2 ∨ (n = some .e3 ∧ s.bgErr = true))) ∨
     (e = .e2 ∧ s1.cms = s.cms ∧ s1.bgErr = s.bgErr ∧ n = some .e3) ∨
     (e = .e3 ∧ n = none ∧ ¬ ∃ c ∈ s1.cms, unnot c = true)) := by
  obtain ⟨dl, df, dc, dk, q2, fin⟩ := hI
  obtain ⟨hw, p1, p2, p3, p4, p5⟩ := hF
  cases e with
  | e1 =>
    simp only [errStep] at he
    split at he
    · rename_i hb
      cases he
      exact ⟨dl, df, dc, dk, fin, rfl, rfl, rfl, rfl, Or.inl ⟨rfl, rfl, hb, Or.inr ⟨rfl, hb⟩⟩⟩
    · cases he
      refine ⟨dl, df, dc, dk, ?_, rfl, rfl, rfl, rfl, Or.inl ⟨rfl, rfl, rfl, Or.inl rfl⟩⟩
      intro hp; exact ⟨(fin hp).1, fun hb => by cases hb⟩
  | e2 =>
    simp only [errStep] at he
    split at he
    · cases he
    · rename_i hg
      cases he
      have hfree : s.pl ≠ .lqAbout := by
        simp [p3] at hg; simpa [lqFree] using hg
      unfold sdNotify lqNotify
      split
      · rename_i hpar
        refine ⟨?_, ?_, ?_, ?_, fin, rfl, rfl, rfl, rfl, Or.inr (Or.inl ⟨rfl, rfl, rfl, rfl⟩)⟩
        · intro _; simp [hpar, Cv.signal]
        · intro _ _; simp [Cv.signal]
        · intro _; simp [Cv.signal, p2]
        · intro _ _; simp [Cv.signal]
      · rename_i hpar
        refine ⟨?_, ?_, ?_, ?_, fin, rfl, rfl, rfl, rfl, Or.inr (Or.inl ⟨rfl, rfl, rfl, rfl⟩)⟩
        · intro _; exact ⟨fun _ => by simp [Cv.signal], fun h => absurd h hpar, hfree⟩
        · intro _ _; simp [Cv.signal]
        · intro _; simp [Cv.signal, p2]
        · intro _ _; simp [Cv.signal]
  | e3 =>
    simp only [errStep] at he
    split at he
    · cases he
    · rename_i hg
      cases he
      have hfree : qFree s = true := by simpa [p5] using hg
      exact ⟨dl, df, dc, dk, fin, rfl, rfl, rfl, rfl,
        Or.inr (Or.inr ⟨rfl, rfl, no_unnot_after_notifyAll hfree⟩)⟩

set_option maxHeartbeats 1600000 in
theorem gd_tickL {cfg : Cfg} (hF : Fixed cfg) {s s' : St} (hG : G1 s) (hI : GD s) (h : tickL cfg s = some s') : GD s' := by
  have hI0 := hI
  obtain ⟨dl, df, dc, dk, q2, fin⟩ := hI
  have a4 := hG.a4
  have a9 := hG.a9
  obtain ⟨hw, p1, p2, p3, p4, p5⟩ := hF
  unfold tickL at h
  split at h
  · cases h
    unfold reindexStep
    split
    · split <;> (constructor <;> dsimp only <;> (first | assumption | (gdsimp; first | done | grind)))
    · constructor <;> dsimp only <;> (first | assumption | (gdsimp; first | done | grind))
  · split at h
    · split at h <;> gdfin
    · gdfin
  · split at h
    · cases h
      cases hf : s.cvL.flag <;> (constructor <;> dsimp only <;> (first | assumption | (gdsimp; first | done | grind)))
    · gdfin
  · split at h <;> gdfin
  · gdfin
  · split at h <;> gdfin
  · split at h
    · split at h
      · gdfin
      · cases h
        split
        · constructor <;> dsimp only [notifyAllCm] <;>
            (first | assumption | (exact q2_wake (q2_setL q2 (by simp_all [lE23]))) | (gdsimp; first | done | grind))
        · constructor <;> dsimp only <;> (first | assumption | (gdsimp; first | done | grind))
    · gdfin
  · gdfin
  · gdfin
  · cases h
    unfold reindexStep
    split
    · split <;> (constructor <;> dsimp only <;> (first | assumption | (gdsimp; first | done | grind)))
    · constructor <;> dsimp only <;> (first | assumption | (gdsimp; first | done | grind))
  · gdfin
  · rename_i e hp
    obtain ⟨⟨s1, n⟩, he, hs⟩ := map_some h
    subst hs
    have hsh : e ≠ .e1 → s.shutdown = true := by
      intro hne
      apply hG.a6l
      rw [hp]; cases e <;> simp_all [LPc.exited]
    obtain ⟨b1, b2, b3, b4, b5, e1, e2, e3, e4, hc⟩ :=
      gd_errStep ⟨hw, p1, p2, p3, p4, p5⟩ hG hI0 hsh he
    refine ⟨?_, b2, b3, b4, ?_, b5⟩
    · intro hsd; cases n <;> simp
    · dsimp only
      rw [e2, e3, e4]
      rcases hc with ⟨_, hcm, hb, hn⟩ | ⟨_, hcm, hb, hn⟩ | ⟨_, hn, hno⟩
      · intro _ _; rcases hn with hn | ⟨hn, _⟩ <;> (subst hn; simp [lE23])
      · intro _ _; subst hn; simp [lE23]
      · intro _ hex; exact absurd hex hno
  · gdfin

set_option maxHeartbeats 1600000 in
theorem gd_tickF {cfg : Cfg} (hF : Fixed cfg) {s s' : St} (hG : G1 s) (hI : GD s) (h : tickF cfg s = some s') : GD s' := by
  have hI0 := hI
  obtain ⟨dl, df, dc, dk, q2, fin⟩ := hI
  have a4 := hG.a4
  have a9 := hG.a9
  obtain ⟨hw, p1, p2, p3, p4, p5⟩ := hF
  unfold tickF at h
  split at h
  · split at h
    · split at h <;> gdfin
    · gdfin
  · split at h
    · cases h
      cases hf : s.cvF.flag <;> (constructor <;> dsimp only <;> (first | assumption | (gdsimp; first | done | grind)))
    · gdfin
  · split at h <;> gdfin
  · gdfin
  · rename_i e hp
    obtain ⟨⟨s1, n⟩, he, hs⟩ := map_some h
    subst hs
    have hsh : e ≠ .e1 → s.shutdown = true := by
      intro hne
      apply hG.a6f
      rw [hp]; cases e <;> simp_all [FPc.exited]
    obtain ⟨b1, b2, b3, b4, b5, e1, e2, e3, e4, hc⟩ :=
      gd_errStep ⟨hw, p1, p2, p3, p4, p5⟩ hG hI0 hsh he
    refine ⟨b1, ?_, b3, b4, ?_, b5⟩
    · intro hsd; cases n <;> simp
    · dsimp only
      rw [e1, e3, e4]
      rcases hc with ⟨_, hcm, hb, hn⟩ | ⟨_, hcm, hb, hn⟩ | ⟨_, hn, hno⟩
      · intro _ _; rcases hn with hn | ⟨hn, _⟩ <;> (subst hn; simp [fE23])
      · intro _ _; subst hn; simp [fE23]
      · intro _ hex; exact absurd hex hno
  · gdfin

set_option maxHeartbeats 1600000 in
theorem gd_tickC {cfg : Cfg} (hF : Fixed cfg) {s s' : St} (hG : G1 s) (hI : GD s) (h : tickC cfg s = some s') : GD s' := by
  have hI0 := hI
  obtain ⟨dl, df, dc, dk, q2, fin⟩ := hI
  have a4 := hG.a4
  have a9 := hG.a9
  obtain ⟨hw, p1, p2, p3, p4, p5⟩ := hF
  unfold tickC at h
  split at h
  · split at h
    · split at h <;> gdfin
    · gdfin
  · gdfin
  · split at h <;> gdfin
  · split at h
    · cases h
      cases hf : s.cvC.flag <;> (constructor <;> dsimp only <;> (first | assumption | (gdsimp; first | done | grind)))
    · gdfin
  · rename_i hpc
    have hfin : ∀ dirty be q app rd kl, FIN s.pd dirty be q app rd kl := by
      intro dirty be q app rd kl hx
      exfalso
      have := hG.a9.2.2.1 (by rcases hx with hx | hx <;> (rw [hx]; decide))
      rw [hpc] at this; cases this
    split at h
    · gdfin
    · cases h
      constructor <;> dsimp only <;>
        (first | assumption | (exact hfin _ _ _ _ _ _) | (gdsimp; first | done | grind))
    · split at h
      · cases h
        split
        · unfold lqNotify
          split <;> (constructor <;> dsimp only <;>
            (first | assumption | (exact hfin _ _ _ _ _ _) | (gdsimp; first | done | grind)))
        · constructor <;> dsimp only <;>
            (first | assumption | (exact hfin _ _ _ _ _ _) | (gdsimp; first | done | grind))
      · gdfin
  · split at h <;> gdfin
  · split at h
    · cases h
      cases hf : s.cvQ.flag <;> (constructor <;> dsimp only <;> (first | assumption | (gdsimp; first | done | grind)))
    · gdfin
  · rename_i e hp
    obtain ⟨⟨s1, n⟩, he, hs⟩ := map_some h
    subst hs
    have hsh : e ≠ .e1 → s.shutdown = true := by
      intro hne
      apply hG.a6c
      rw [hp]; cases e <;> simp_all [CPc.exited]
    obtain ⟨b1, b2, b3, b4, b5, e1, e2, e3, e4, hc⟩ :=
      gd_errStep ⟨hw, p1, p2, p3, p4, p5⟩ hG hI0 hsh he
    refine ⟨b1, b2, ?_, b4, ?_, b5⟩
    · intro hsd; cases n <;> simp [cIdle]
    · dsimp only
      rw [e1, e2, e4]
      rcases hc with ⟨_, hcm, hb, hn⟩ | ⟨_, hcm, hb, hn⟩ | ⟨_, hn, hno⟩
      · intro _ _; rcases hn with hn | ⟨hn, _⟩ <;> (subst hn; simp [cE23])
      · intro _ _; subst hn; simp [cE23]
      · intro _ hex; exact absurd hex hno
  · gdfin

set_option maxHeartbeats 1600000 in
theorem gd_tickK {cfg : Cfg} (hF : Fixed cfg) {s s' : St} (hG : G1 s) (hI : GD s) (h : tickK cfg s = some s') : GD s' := by
  have hI0 := hI
  obtain ⟨dl, df, dc, dk, q2, fin⟩ := hI
  have a4 := hG.a4
  have a9 := hG.a9
  obtain ⟨hw, p1, p2, p3, p4, p5⟩ := hF
  unfold tickK at h
  split at h
  · split at h
    · split at h <;> gdfin
    · gdfin
  · split at h
    · cases h
      cases hf : s.cvK.flag <;> (constructor <;> dsimp only <;> (first | assumption | (gdsimp; first | done | grind)))
    · gdfin
  · split at h <;> gdfin
  · gdfin
  · rename_i e hp
    obtain ⟨⟨s1, n⟩, he, hs⟩ := map_some h
    subst hs
    have hsh : e ≠ .e1 → s.shutdown = true := by
      intro hne
      apply hG.a6k
      rw [hp]; cases e <;> simp_all [KPc.exited]
    obtain ⟨b1, b2, b3, b4, b5, e1, e2, e3, e4, hc⟩ :=
      gd_errStep ⟨hw, p1, p2, p3, p4, p5⟩ hG hI0 hsh he
    refine ⟨b1, b2, b3, ?_, ?_, b5⟩
    · intro hsd; cases n <;> simp
    · dsimp only
      rw [e1, e2, e3]
      rcases hc with ⟨_, hcm, hb, hn⟩ | ⟨_, hcm, hb, hn⟩ | ⟨_, hn, hno⟩
      · intro _ _; rcases hn with hn | ⟨hn, _⟩ <;> (subst hn; simp [kE23])
      · intro _ _; subst hn; simp [kE23]
      · intro _ hex; exact absurd hex hno
  · gdfin

/-- number of unread records of the file `read_next` works on -/
def curLen (s : St) : Nat := (curFile s).1.elim 0 List.length

theorem curFile_reading {s : St} {f : List Nat} (h : s.reading = some f) : curFile s = (some f, s.readQ) := by
  unfold curFile; rw [h]

/-- FUEL ADEQUACY of `while enact_logs(false)? {}`: with more fuel than the current file has
    records the loop ends because `enact_logs` returned false (end of file / nothing to read),
    not because the fuel ran out: no file is left half read. -/
theorem seqEnactLoop_reading {cfg : Cfg} : ∀ (n : Nat) {s s' : St}, seqEnactLoop cfg n s = some s' →
    curLen s < n → s'.reading = none
  | 0, s, s', _, hn => by omega
  | n + 1, s, s', h, hn => by
    simp only [seqEnactLoop] at h
    cases he : seqEnactOnce cfg s with
    | none => rw [he] at h; cases h
    | some r =>
      obtain ⟨s1, b⟩ := r
      rw [he] at h
      unfold seqEnactOnce at he
      split at he
      · rename_i rq hcf
        cases he
        simp only at h; cases h
        exact (curFile_none hcf).1
      · cases he; simp only at h; cases h; rfl
      · rename_i r rs rq hcf
        simp only at he
        split at he
        · cases he
        · cases he
          simp only at h
          apply seqEnactLoop_reading n h
          unfold curLen at hn ⊢
          rw [hcf] at hn
          rw [curFile_reading rfl]
          simp only [Option.elim, List.length_cons] at hn ⊢
          omega

theorem curLen_le_fuel (s : St) : curLen s < fuel s := by
  unfold curLen fuel curFile
  cases hr : s.reading with
  | some f => simp only [Option.elim]; omega
  | none =>
    cases hq : s.readQ with
    | nil => simp only [Option.elim]; omega
    | cons f fs =>
      simp only [Option.elim, List.map_cons, List.foldl_cons, List.length_cons]
      rw [foldl_add]; omega

theorem qa_seqEnactOnce {cfg : Cfg} {s s1 : St} {b : Bool} (h : seqEnactOnce cfg s = some (s1, b)) :
    s1.q = s.q ∧ s1.app = s.app := by
  unfold seqEnactOnce at h
  split at h
  · cases h; exact ⟨rfl, rfl⟩
  · cases h; exact ⟨rfl, rfl⟩
  · simp only at h
    split at h
    · cases h
    · cases h; exact ⟨rfl, rfl⟩

theorem qa_seqEnactLoop {cfg : Cfg} : ∀ (n : Nat) {s s' : St}, seqEnactLoop cfg n s = some s' →
    s'.q = s.q ∧ s'.app = s.app
  | 0, s, s', h => by simp [seqEnactLoop] at h; subst h; exact ⟨rfl, rfl⟩
  | n + 1, s, s', h => by
    simp only [seqEnactLoop] at h
    split at h
    · cases h
    · rename_i s1 he
      have a := qa_seqEnactOnce he
      have b := qa_seqEnactLoop n h
      exact ⟨b.1.trans a.1, b.2.trans a.2⟩
    · rename_i s1 he; cases h; exact qa_seqEnactOnce he

theorem q_seqProcessLoop : ∀ (n : Nat) (s : St), s.q.length ≤ n → (seqProcessLoop n s).q = []
  | 0, s, h => by
    simp only [seqProcessLoop]
    exact List.eq_nil_of_length_eq_zero (by omega)
  | n + 1, s, h => by
    simp only [seqProcessLoop]
    cases hq : s.q with
    | nil => simp [seqProcessOnce, hq]
    | cons b q' =>
      have h2 : (seqProcessOnce s).2 = true := by simp [seqProcessOnce, hq]
      have h1 : (seqProcessOnce s).1.q = q' := by simp [seqProcessOnce, hq]
      rw [if_pos h2]
      apply q_seqProcessLoop n
      rw [h1]; rw [hq] at h; simp at h; omega

theorem sum_app_seqFlush0 (s : St) : sum (seqFlush0 s).app = 0 ∧ (seqFlush0 s).q = s.q := by
  unfold seqFlush0
  split
  · exact ⟨rfl, rfl⟩
  · rename_i h; exact ⟨by omega, rfl⟩

theorem kill_post {cfg : Cfg} {s s' : St} (h : killLogsSeq cfg s = some s') :
    s'.dirty = 0 ∧ (s.bgErr = false → s'.q = [] ∧ sum s'.app = 0 ∧ s'.reading = none ∧ s'.killLost = 0) := by
  unfold killLogsSeq at h
  split at h
  · rename_i hb; cases h; exact ⟨rfl, fun hb' => by rw [hb] at hb'; cases hb'⟩
  · obtain ⟨s1, h1, h⟩ := bind_some h
    split at h
    · cases h
    obtain ⟨s4, h4, h⟩ := bind_some h
    obtain ⟨s6, h6, h⟩ := bind_some h
    cases h
    refine ⟨rfl, fun _ => ?_⟩
    have hq3 : (seqProcessLoop (fuel s1) (seqFlush0 s1)).q = [] := by
      apply q_seqProcessLoop
      rw [(sum_app_seqFlush0 s1).2]; unfold fuel; omega
    have a4 := qa_seqEnactLoop _ h4
    have a5 := sum_app_seqFlush0 s4
    have a6 := qa_seqEnactLoop _ h6
    have hrd : s6.reading = none := seqEnactLoop_reading _ h6 (curLen_le_fuel _)
    refine ⟨?_, ?_, hrd, ?_⟩
    · show s6.q = []
      rw [a6.1, a5.2, a4.1, hq3]
    · show sum s6.app = 0
      rw [a6.2]; exact a5.1
    · show optLen s6.reading = 0
      rw [hrd]; rfl

set_option maxHeartbeats 1600000 in
theorem gd_tickD {cfg : Cfg} (hF : Fixed cfg) {s s' : St} (hG : G1 s) (hI : GD s) (h : tickD cfg s = some s') : GD s' := by
  have hI0 := hI
  obtain ⟨dl, df, dc, dk, q2, fin⟩ := hI
  have a4 := hG.a4
  have a9 := hG.a9
  have hF0 := hF
  obtain ⟨hw, p1, p2, p3, p4, p5⟩ := hF
  unfold tickD at h
  split at h
  · gdfin
  · gdfin
  · rename_i hp
    split at h
    · gdfin
    · rename_i hg
      cases h
      have hsh : s.shutdown = true := hG.a2 (by rw [hp]; rfl)
      have he : errStep cfg s .e2 = some (sdNotify cfg s, some .e3) := by
        simp only [errStep]; rw [if_neg hg]
      obtain ⟨b1, b2, b3, b4, b5, e1, e2, e3, e4, hc⟩ := gd_errStep hF0 hG hI0 (fun _ => hsh) he
      have hpd : (sdNotify cfg s).pd = s.pd := by unfold sdNotify lqNotify; split <;> rfl
      have hcm : (sdNotify cfg s).cms = s.cms := by unfold sdNotify lqNotify; split <;> rfl
      have hbe : (sdNotify cfg s).bgErr = s.bgErr := by unfold sdNotify lqNotify; split <;> rfl
      refine ⟨b1, b2, b3, b4, ?_, ?_⟩
      · dsimp only; rw [hbe, hcm, e1, e2, e3, e4]; exact q2
      · intro hx; simp at hx
  · split at h <;> gdfin
  · split at h <;> gdfin
  · split at h <;> gdfin
  · split at h <;> gdfin
  · rename_i hp
    obtain ⟨s1, he, hs⟩ := map_some h
    subst hs
    have e := ctlEq_killLogsSeq he
    have hj : 4 ≤ s.pd.joined := by rw [hp]; decide
    have hl := hG.a9.1 (by omega)
    have hf := hG.a9.2.1 (by omega)
    have hc := hG.a9.2.2.1 (by omega)
    have hk := hG.a9.2.2.2 hj
    have kp := kill_post he
    constructor <;> dsimp only
    · rw [e.pl, hl]; intro _; simp
    · rw [e.pf, hf]; intro _ h; cases h
    · rw [e.pc, hc]; intro _; simp [cIdle]
    · rw [e.pk, hk]; intro _ h; cases h
    · rw [e.be, e.cms, e.pl, e.pf, e.pc, e.pk]; exact q2
    · intro _; rw [e.be]; exact kp
  · gdfin
  · gdfin
  · gdfin

theorem q2_set {be : Bool} {cms : List Cm} {pl : LPc} {pf : FPc} {pc : CPc} {pk : KPc} {i : Nat} {x : Cm}
    (h : Q2 be cms pl pf pc pk) (hx : be = true → unnot x = true → ∃ c ∈ cms, unnot c = true) :
    Q2 be (cms.set i x) pl pf pc pk := by
  intro hb hex
  rcases unnot_of_set hex with h1 | h1
  · exact h hb (hx hb h1)
  · exact h hb h1

theorem gd_commitFinish {s : St} (hG : G1 s) (hI : GD s) (hp : s.pd = .idle) (i b : Nat) : GD (commitFinish s i b) := by
  obtain ⟨dl, df, dc, dk, q2, fin⟩ := hI
  unfold commitFinish setCm
  split
  · refine ⟨dl, df, dc, dk, q2_set q2 (fun _ h => by cases h), ?_⟩
    intro hx; simp [hp] at hx
  · refine ⟨?_, df, dc, dk, q2_set q2 (fun _ h => by cases h), ?_⟩
    · intro hsd
      obtain ⟨a, b', c⟩ := dl hsd
      exact ⟨fun _ => by simp [Cv.signal], b', c⟩
    · intro hx; simp [hp] at hx

theorem gd_tickCm {s s' : St} {i : Nat} (hG : G1 s) (hI : GD s) (h : tickCm s i = some s') : GD s' := by
  unfold tickCm at h
  split at h
  · rename_i b hc
    cases h
    refine ⟨hI.dl, hI.df, hI.dc, hI.dk, q2_set hI.q2 (fun _ _ => ⟨_, List.mem_of_getElem? hc, rfl⟩), hI.fin⟩
  · rename_i b hc
    split at h
    · cases h; exact gd_commitFinish hG hI (pd_idle_of_busy hG.a1 hc (by simp)) _ _
    · cases h
  · cases h

theorem gd_init (cfg : Cfg) (n r : Nat) : GD (init cfg n r) := by
  have hrep : ∀ c ∈ List.replicate n Cm.idle, c = Cm.idle := fun c hc => (List.mem_replicate.1 hc).2
  unfold init
  split <;> (constructor <;> dsimp only <;> simp [DL, DF, DC, DK, FIN, Q2])

set_option maxHeartbeats 800000 in
theorem gd_step {cfg : Cfg} (hF : Fixed cfg) {s s' : St} {a : Act} (hnp : a.isPanic = false) (hG : G1 s) (hI : GD s)
    (h : step cfg s a = some s') : GD s' := by
  have hw := hF.w
  cases a with
  | tick t =>
    cases t
    · exact gd_tickL hF hG hI h
    · exact gd_tickF hF hG hI h
    · exact gd_tickC hF hG hI (tickCg_some h)
    · exact gd_tickK hF hG hI h
    · exact gd_tickD hF hG hI h
  | cmTick i => exact gd_tickCm hG hI h
  | commit i b =>
    simp only [step] at h
    split at h
    · rename_i hg
      have hp : s.pd = .idle := by simp at hg; exact hg.1.1
      split at h
      · rename_i hwait
        cases h
        have hnb : s.bgErr = false := by
          simp [hF.p4] at hwait; exact hwait.2
        refine ⟨hI.dl, hI.df, hI.dc, hI.dk, ?_, hI.fin⟩
        intro hb
        have hb' : s.bgErr = true := hb
        rw [hnb] at hb'; cases hb'
      · cases h; exact gd_commitFinish hG hI hp _ _
    · cases h
  | drop =>
    simp only [step] at h
    split at h
    · cases h
      refine ⟨hI.dl, hI.df, hI.dc, hI.dk, hI.q2, ?_⟩
      intro hx; simp at hx
    · cases h
  | fail t =>
    obtain ⟨dl, df, dc, dk, q2, fin⟩ := hI
    have a4 := hG.a4
    have a9 := hG.a9
    cases t
    · simp only [step, hw, if_true] at h
      split at h <;> gdfin
    · simp only [step] at h
      split at h <;> gdfin
    · simp only [step] at h
      split at h <;> gdfin
    · simp only [step] at h
      split at h <;> gdfin
    · simp only [step] at h
      cases h
  | apiProcess => simp [step, hw] at h
  | apiFlush => simp [step, hw] at h
  | apiEnact => simp [step, hw] at h
  | apiClean => simp [step, hw] at h
  | defer =>
    obtain ⟨dl, df, dc, dk, q2, fin⟩ := hI
    have a9 := hG.a9
    simp only [step] at h
    split at h
    · split at h
      · rename_i b hp
        cases h
        refine ⟨?_, df, dc, dk, q2_setL q2 (by rw [hp]; simp [lE23]), ?_⟩
        · intro hsd; simp
        · intro hx
          have : s.pl = .done := a9.1 (by rcases hx with hx | hx <;> (rw [hx]; decide))
          rw [hp] at this; cases this
      · cases h
    · cases h
  | panic t => cases hnp
  | iterHold | iterRelease | dropEnacted k | makeCycle =>
    simp only [step] at h
    split at h
    · cases h; exact ⟨hI.dl, hI.df, hI.dc, hI.dk, hI.q2, hI.fin⟩
    · cases h
  | lockTree | unlockTree =>
    simp only [step] at h
    cases h; exact ⟨hI.dl, hI.df, hI.dc, hI.dk, hI.q2, hI.fin⟩
  | grow k =>
    simp only [step] at h
    split at h
    · cases h; exact ⟨hI.dl, hI.df, hI.dc, hI.dk, hI.q2, hI.fin⟩
    · split at h
      · cases h; exact ⟨hI.dl, hI.df, hI.dc, hI.dk, hI.q2, hI.fin⟩
      · cases h
    · cases h

/-- all invariants of the fixed, threaded configuration -/
structure Inv (cfg : Cfg) (s : St) : Prop where
  cv : CvInv s
  g1 : G1 s
  gp : GP cfg s
  gn : GN s
  gd : GD s

theorem inv_reachable {cfg : Cfg} (hF : Fixed cfg) {n r : Nat} {s : St} (h : Reachable cfg n r s) : Inv cfg s :=
  reachable_induction (Inv cfg)
    ⟨cvInv_init cfg n r, g1_init cfg hF.w n r, gp_init cfg n r, gn_init cfg n r, gd_init cfg n r⟩
    (fun _ _ _ hnp hI hs => ⟨cvInv_step hI.cv hs, g1_step hF.w hnp hI.g1 hs, gp_step hF.w hnp hI.g1 hI.gp hs,
      gn_step hF.w hnp hI.g1 hI.gn hs, gd_step hF hnp hI.g1 hI.gd hs⟩) s h

/-- the shutdown flag is only ever set by a drop or by a stored error -/
def A12 (sh : Bool) (pd : DPc) (be : Bool) : Prop := sh = true → pd.afterSd1 = true ∨ be = true

structure GX (s : St) : Prop where
  a12 : A12 s.shutdown s.pd s.bgErr

macro "gxfin" : tactic => `(tactic| (
  first
  | (cases ‹_ = some _›; done)
  | (cases ‹_ = some _›
     constructor <;> dsimp only <;>
       (first | assumption | (simp_all [A12, DPc.afterSd1]; done)))))

theorem gx_errStep {cfg : Cfg} {s s1 : St} {e : ETail} {n : Option ETail} (hI : GX s)
    (he : errStep cfg s e = some (s1, n)) : A12 s1.shutdown s1.pd s1.bgErr := by
  obtain ⟨a12⟩ := hI
  cases e with
  | e1 =>
    simp only [errStep] at he
    split at he
    · cases he; exact a12
    · cases he; intro _; right; rfl
  | e2 =>
    simp only [errStep] at he
    split at he
    · cases he
    · cases he; unfold sdNotify lqNotify; split <;> exact a12
  | e3 =>
    simp only [errStep] at he
    split at he
    · cases he
    · cases he; exact a12

set_option maxHeartbeats 800000 in
theorem gx_step {cfg : Cfg} (hw : cfg.workers = true) {s s' : St} {a : Act} (hnp : a.isPanic = false) (hI : GX s)
    (h : step cfg s a = some s') : GX s' := by
  have hI0 := hI
  obtain ⟨a12⟩ := hI
  cases a with
  | tick t =>
    cases t
    · simp only [step] at h
      unfold tickL reindexStep at h
      split at h
      · split at h
        · split at h <;> gxfin
        · gxfin
      · split at h
        · split at h <;> gxfin
        · gxfin
      · split at h <;> gxfin
      · split at h <;> gxfin
      · gxfin
      · split at h <;> gxfin
      · split at h
        · split at h
          · gxfin
          · cases h; split <;> exact ⟨a12⟩
        · gxfin
      · gxfin
      · gxfin
      · split at h
        · split at h <;> gxfin
        · gxfin
      · gxfin
      · obtain ⟨⟨s1, n⟩, he, hs⟩ := map_some h
        subst hs; exact ⟨(gx_errStep hI0 he : A12 s1.shutdown s1.pd s1.bgErr)⟩
      · gxfin
    · simp only [step] at h
      unfold tickF at h
      split at h
      · split at h
        · split at h <;> gxfin
        · gxfin
      · split at h <;> gxfin
      · split at h <;> gxfin
      · gxfin
      · obtain ⟨⟨s1, n⟩, he, hs⟩ := map_some h
        subst hs; exact ⟨(gx_errStep hI0 he : A12 s1.shutdown s1.pd s1.bgErr)⟩
      · gxfin
    · have h := tickCg_some h
      unfold tickC at h
      split at h
      · split at h
        · split at h <;> gxfin
        · gxfin
      · gxfin
      · split at h <;> gxfin
      · split at h <;> gxfin
      · split at h
        · gxfin
        · gxfin
        · split at h
          · cases h; split
            · unfold lqNotify; split <;> exact ⟨a12⟩
            · exact ⟨a12⟩
          · gxfin
      · split at h <;> gxfin
      · split at h <;> gxfin
      · obtain ⟨⟨s1, n⟩, he, hs⟩ := map_some h
        subst hs; exact ⟨(gx_errStep hI0 he : A12 s1.shutdown s1.pd s1.bgErr)⟩
      · gxfin
    · simp only [step] at h
      unfold tickK at h
      split at h
      · split at h
        · split at h <;> gxfin
        · gxfin
      · split at h <;> gxfin
      · split at h <;> gxfin
      · gxfin
      · obtain ⟨⟨s1, n⟩, he, hs⟩ := map_some h
        subst hs; exact ⟨(gx_errStep hI0 he : A12 s1.shutdown s1.pd s1.bgErr)⟩
      · gxfin
    · simp only [step] at h
      unfold tickD at h
      split at h
      · gxfin
      · gxfin
      · split at h
        · gxfin
        · cases h; constructor; intro _; left; rfl
      · split at h <;> gxfin
      · split at h <;> gxfin
      · split at h <;> gxfin
      · split at h <;> gxfin
      · obtain ⟨s1, he, hs⟩ := map_some h
        subst hs; constructor; intro _; left; rfl
      · gxfin
      · gxfin
      · gxfin
  | cmTick i =>
    simp only [step] at h
    unfold tickCm commitFinish setCm at h
    split at h
    · gxfin
    · split at h
      · split at h <;> gxfin
      · gxfin
    · gxfin
  | commit i b =>
    simp only [step] at h
    unfold commitFinish setCm at h
    split at h
    · split at h
      · gxfin
      · split at h <;> gxfin
    · gxfin
  | drop =>
    simp only [step] at h
    split at h <;> gxfin
  | fail t =>
    cases t
    · simp only [step, hw, if_true] at h
      split at h <;> gxfin
    · simp only [step] at h
      split at h <;> gxfin
    · simp only [step] at h
      split at h <;> gxfin
    · simp only [step] at h
      split at h <;> gxfin
    · simp only [step] at h
      cases h
  | apiProcess => simp [step, hw] at h
  | apiFlush => simp [step, hw] at h
  | apiEnact => simp [step, hw] at h
  | apiClean => simp [step, hw] at h
  | defer =>
    simp only [step] at h
    split at h
    · split at h <;> gxfin
    · gxfin
  | panic t => cases hnp
  | iterHold | iterRelease | dropEnacted k | makeCycle =>
    simp only [step] at h
    split at h <;> gxfin
  | lockTree | unlockTree =>
    simp only [step] at h
    gxfin
  | grow k =>
    simp only [step] at h
    split at h
    · gxfin
    · split at h <;> gxfin
    · gxfin

theorem gx_reachable {cfg : Cfg} (hw : cfg.workers = true) {n r : Nat} {s : St} (h : Reachable cfg n r s) : GX s :=
  reachable_induction GX (by unfold init; split <;> exact ⟨by simp [A12]⟩)
    (fun _ _ _ hnp hI hs => gx_step hw hnp hI hs) s h

/-- with the F7 fix `kill_logs` never waits: shutdown is set when it runs -/
theorem seqEnactOnce_some {cfg : Cfg} (p1 : cfg.enactChecksShutdown = true) {s : St} (hs : s.shutdown = true) :
    ∃ r, seqEnactOnce cfg s = some r := by
  unfold seqEnactOnce
  split
  · exact ⟨_, rfl⟩
  · exact ⟨_, rfl⟩
  · simp only [waitCond, p1, hs]
    simp

theorem seqEnactLoop_some {cfg : Cfg} (p1 : cfg.enactChecksShutdown = true) :
    ∀ (n : Nat) {s : St}, s.shutdown = true → ∃ s', seqEnactLoop cfg n s = some s'
  | 0, s, _ => ⟨s, rfl⟩
  | n + 1, s, hs => by
    obtain ⟨⟨s1, b⟩, he⟩ := seqEnactOnce_some p1 hs
    have hs1 : s1.shutdown = true := by rw [(ctlEq_seqEnactOnce he).sh]; exact hs
    simp only [seqEnactLoop, he]
    cases b
    · exact ⟨s1, rfl⟩
    · exact seqEnactLoop_some p1 n hs1

theorem killLogsSeq_some {cfg : Cfg} (p1 : cfg.enactChecksShutdown = true) {s : St} (hs : s.shutdown = true)
    (ht : s.treeLocked = false) (hdc : s.deferCycle = false) : ∃ s', killLogsSeq cfg s = some s' := by
  unfold killLogsSeq
  split
  · exact ⟨_, rfl⟩
  · obtain ⟨s1, h1⟩ := seqEnactLoop_some p1 (fuel s) hs
    have e1 := ctlEq_seqEnactLoop _ h1
    have ht1 : deferForEver s1 = false := by
      unfold deferForEver; rw [e1.tl, e1.dcy, ht, hdc]; rfl
    have hs3 : (seqProcessLoop (fuel s1) (seqFlush0 s1)).shutdown = true := by
      rw [((ctlEq_seqFlush0 s1).trans (ctlEq_seqProcessLoop (fuel s1) _)).sh, e1.sh]; exact hs
    obtain ⟨s4, h4⟩ := seqEnactLoop_some p1 (fuel (seqProcessLoop (fuel s1) (seqFlush0 s1))) hs3
    have hs5 : (seqFlush0 s4).shutdown = true := by
      rw [(ctlEq_seqFlush0 s4).sh, (ctlEq_seqEnactLoop _ h4).sh]; exact hs3
    obtain ⟨s6, h6⟩ := seqEnactLoop_some p1 (fuel (seqFlush0 s4)) hs5
    exact ⟨{ s6 with dirty := 0, killLost := optLen s6.reading }, by simp [h1, h4, h6, ht1]⟩

end Pdb.Conc.Pipe
