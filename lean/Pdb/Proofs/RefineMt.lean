/-
R6 lemmas, part 1: one value table of a multitree column (claim, write at a claimed slot, remove), on top of the C06
lemmas.  Claimed-but-unwritten slots are carried as one-slot chains (`TierInv`).
-/
import Pdb.Model.MultiTreePhys
import Pdb.Props.C06

namespace Pdb.MultiTreePhys
open Pdb.Gen Pdb.ValueTable Pdb.MultiTree

/-- one-slot chains -/
def singles (C : List Nat) : List (List Nat) := C.map (fun c => [c])

theorem singles_flatten (C : List Nat) : (singles C).flatten = C := by
  induction C with
  | nil => rfl
  | cons a C ih => simp only [singles, List.map_cons, List.flatten_cons] at ih ⊢; rw [ih]; rfl

theorem mem_singles {C : List Nat} {c : List Nat} : c ∈ singles C ↔ ∃ a ∈ C, c = [a] := by
  simp only [singles, List.mem_map]
  constructor
  · rintro ⟨a, ha, rfl⟩; exact ⟨a, ha, rfl⟩
  · rintro ⟨a, ha, rfl⟩; exact ⟨a, ha, rfl⟩

/-- The invariant of one table of a multitree column: free list `F`, claimed slots `C` (popped / taken from the fill
    mark by `claim_entries`, not written yet), live chains `L` (nodes and root values); never-used slots are empty. -/
structure TierInv (t : VT) (F C : List Nat) (L : List (List Nat)) : Prop where
  slot : SlotInv t F (singles C ++ L)
  fresh : ∀ i, t.filled ≤ i → t.slots i = []

theorem nextPart_of_empty (t : VT) (i : Nat) (h : t.slots i = []) : nextPart t i = none := by
  unfold nextPart
  rw [h]
  simp [isMulti, ValueTable.isMultipart, isMultiHead, isMultiHeadCompressed, MULTIPART, MULTIHEAD, MULTIHEAD_COMPRESSED]

theorem nextPart_of_tombstone (t : VT) (i : Nat) (h : isTombstone (t.slots i)) : nextPart t i = none := by
  unfold nextPart
  unfold isTombstone at h
  have : ¬ isMulti (t.slots i) := by
    unfold isMulti ValueTable.isMultipart isMultiHead isMultiHeadCompressed
    rw [h]
    decide
  simp [this]

/-! ## `write_claimed_plan` -/

theorem writeClaimed_eq (t : VT) (v : Bytes) (idx : Nat) (h : nextPart t idx = none) :
    writeClaimed t v idx = writeChain t .noHash v (some idx) false := by
  unfold writeClaimed writeChain
  by_cases hp : writePanics t .noHash v
  · simp [hp]
  · simp only [hp, if_false]
    have hk : 0 < (chunksOf t .noHash v).length := numParts_pos
    obtain ⟨n, hn⟩ := Nat.exists_eq_succ_of_ne_zero (Nat.pos_iff_ne_zero.mp hk)
    simp only [oldWalk, hn, walk, h]

/-- `clear_chain` touches only the slots it reports -/
theorem clearChain_frame : ∀ (fuel : Nat) (t : VT) (i : Nat) (t' : VT) (l : List Nat),
    clearChain t fuel i = .ok (t', l) → ∀ j, j ∉ l → t'.slots j = t.slots j := by
  intro fuel
  induction fuel with
  | zero => intro t i t' l h; simp [clearChain] at h
  | succ f ih =>
    intro t i t' l h j hj
    simp only [clearChain] at h
    split at h
    · rename_i nx hnx
      split at h
      · rename_i t2 l2 h2
        simp only [Except.ok.injEq, Prod.mk.injEq] at h
        obtain ⟨rfl, rfl⟩ := h
        rw [ih _ _ _ _ h2 j (by intro hm; exact hj (List.mem_cons_of_mem _ hm))]
        exact clearSlot_ne t i j (by intro e; exact hj (by rw [e]; exact List.mem_cons_self))
      · simp at h
    · simp only [Except.ok.injEq, Prod.mk.injEq] at h
      obtain ⟨rfl, rfl⟩ := h
      exact clearSlot_ne t i j (by intro e; exact hj (by rw [e]; exact List.mem_cons_self))

theorem removePlan_frame (t : VT) (i : Nat) (t' : VT) (l : List Nat)
    (h : removePlan t i = .ok (t', l)) : ∀ j, j ∉ l → t'.slots j = t.slots j := by
  unfold removePlan at h
  split at h
  · exact clearChain_frame _ _ _ _ _ h
  · simp only [Except.ok.injEq, Prod.mk.injEq] at h
    obtain ⟨rfl, rfl⟩ := h
    intro j hj
    exact clearSlot_ne t i j (by intro e; exact hj (by rw [e]; exact List.mem_cons_self))

/-- `overwrite_chain` on a one-slot old chain touches only the slots of the new chain -/
theorem writeChain_frame (t : VT) (v : Bytes) (idx : Nat) (F : List Nat) (r : WrOk)
    (hF : FreeChain t t.lastRemoved F) (hpos : 0 < t.filled) (hidx : idx < t.filled)
    (hn : nextPart t idx = none)
    (h : writeChain t .noHash v (some idx) false = .ok r) :
    (∀ j, r.table.filled ≤ j → r.table.slots j = t.slots j) ∧ t.filled ≤ r.table.filled := by
  rw [← writeClaimed_eq t v idx hn] at h
  unfold writeClaimed at h
  split at h
  · simp at h
  · obtain ⟨t1, ha, hs1, _, hf1, _⟩ :=
      allocN_spec ((chunksOf t .noHash v).length - [idx].length) t F hF hpos
    simp only [writeCore, ha] at h
    simp only [Except.ok.injEq] at h
    subst h
    have hcfg := writeParts_cfg false t1 true
      ([idx] ++ (F.take ((chunksOf t .noHash v).length - [idx].length) ++
        List.range' t.filled ((chunksOf t .noHash v).length - [idx].length - F.length)))
      (chunksOf t .noHash v)
    simp only [] at hcfg ⊢
    refine ⟨?_, by rw [hcfg.2.1, hf1]; omega⟩
    intro j hj
    rw [hcfg.2.1, hf1] at hj
    rw [writeParts_notin, hs1]
    intro hm
    rcases List.mem_append.mp hm with h1 | h1
    · simp only [List.mem_singleton] at h1; omega
    · rcases List.mem_append.mp h1 with h2 | h2
      · have := (FreeChain_mem t F _ hF j (List.mem_of_mem_take h2)).2.1; omega
      · rw [List.mem_range'_1] at h2; omega

/-! ## claim -/

theorem perm_claim (A B C D E : List Nat) : (A ++ ((C ++ (B ++ D)) ++ E)).Perm (A ++ (([] ++ (B ++ D)) ++ (C ++ E))) := by
  simp only [List.perm_iff_count]
  intro a
  simp only [List.count_append, List.count_nil]
  omega

/-- `claim_entries(n)`: the first `n` free slots (most recently freed first), then fresh slots; they join the claimed
    slots, everything else is untouched. -/
theorem tier_claim (t : VT) (F C : List Nat) (L : List (List Nat)) (n : Nat) (hinv : TierInv t F C L) :
    ∃ t', allocN t n = .ok (t', F.take n ++ List.range' t.filled (n - F.length)) ∧
      TierInv t' (F.drop n) (C ++ (F.take n ++ List.range' t.filled (n - F.length))) L ∧
      t'.slots = t.slots ∧ SameCfg t t' ∧ t'.filled = t.filled + (n - F.length) := by
  have hs := hinv.slot
  have hpos : 0 < t.filled := by have := hs.count; omega
  obtain ⟨t', h1, h2, h3, h4, h5⟩ := allocN_spec n t F hs.free hpos
  refine ⟨t', h1, ⟨⟨h5, ?_, ?_, ?_, ?_⟩, ?_⟩, h2, h3, h4⟩
  · -- nodup
    have hnd := hs.nodup
    have hr := hs.range
    rw [List.flatten_append, singles_flatten] at hnd hr
    have := nodup_extend F [] (C ++ L.flatten) n t.filled (n - F.length)
      (by simpa using hnd) (by simpa using hr)
    rw [List.flatten_append, singles_flatten]
    exact (perm_claim _ _ _ _ _).nodup_iff.mpr this
  · -- range
    intro i hi
    have hr := hs.range
    rw [List.flatten_append, singles_flatten] at hi hr
    rw [h4]
    rcases List.mem_append.mp hi with hi | hi
    · have := hr i (List.mem_append_left _ (List.mem_of_mem_drop hi)); omega
    · rcases List.mem_append.mp hi with hi | hi
      · rcases List.mem_append.mp hi with hi | hi
        · have := hr i (List.mem_append_right _ (List.mem_append_left _ hi)); omega
        · rcases List.mem_append.mp hi with hi | hi
          · have := hr i (List.mem_append_left _ (List.mem_of_mem_take hi)); omega
          · rw [List.mem_range'_1] at hi; omega
      · have := hr i (List.mem_append_right _ (List.mem_append_right _ hi)); omega
  · -- count
    have hc := hs.count
    rw [List.flatten_append, singles_flatten] at hc ⊢
    simp only [List.length_append, List.length_drop, List.length_take, List.length_range'] at hc ⊢
    omega
  · -- chains
    intro c hc
    rcases List.mem_append.mp hc with hc | hc
    · obtain ⟨a, ha, rfl⟩ := mem_singles.mp hc
      simp only [IsChain]
      rcases List.mem_append.mp ha with ha | ha
      · rw [nextPart_congr t t' a (by rw [h2]) h3.2.1]
        have := hs.chains [a] (List.mem_append_left _ (mem_singles.mpr ⟨a, ha, rfl⟩))
        simpa [IsChain] using this
      · rw [nextPart_congr t t' a (by rw [h2]) h3.2.1]
        rcases List.mem_append.mp ha with ha | ha
        · exact nextPart_of_tombstone t a (FreeChain_mem t F _ hs.free a (List.mem_of_mem_take ha)).2.2
        · rw [List.mem_range'_1] at ha
          exact nextPart_of_empty t a (hinv.fresh a (by omega))
    · exact IsChain_congr t t' c (fun x _ => by rw [h2]) h3.2.1 (hs.chains c (List.mem_append_right _ hc))
  · intro i hi
    rw [h2]
    exact hinv.fresh i (by omega)

/-! ## write at a claimed slot -/

theorem perm_front (C : List Nat) (idx : Nat) (L : List (List Nat)) (h : idx ∈ C) :
    (singles C ++ L).Perm ([idx] :: (singles (C.erase idx) ++ L)) := by
  have hp : C.Perm (idx :: C.erase idx) := List.perm_cons_erase h
  have : (singles C).Perm ([idx] :: singles (C.erase idx)) := by
    have := hp.map (fun c => [c])
    simpa [singles] using this
  exact (this.append_right L)

/-- `write_claimed_plan(idx, NoHash, v)` on a claimed slot: the value reads back bit for bit at `idx`, the chain (the
    claimed slot, then popped free slots, then fresh slots) joins the live chains, every other live chain reads as
    before, the other claimed slots stay claimed. -/
theorem tier_write (t : VT) (F C : List Nat) (L : List (List Nat)) (v : Bytes) (idx : Nat)
    (hinv : TierInv t F C L) (hidx : idx ∈ C) (hok : WriteOk t .noHash v)
    (hb : t.filled + numParts t .noHash v ≤ 2 ^ 64) :
    ∃ r, writeClaimed t v idx = .ok r ∧
      readChain r.table .noHash idx = .ok (some (v, false, 1)) ∧
      r.chain.headD 0 = idx ∧
      TierInv r.table (F.drop (numParts t .noHash v - 1)) (C.erase idx) (r.chain :: L) ∧
      (∀ c ∈ L, ∀ key', readChain r.table key' (c.headD 0) = readChain t key' (c.headD 0)) ∧
      SameCfg t r.table := by
  have hs : SlotInv t F ([idx] :: (singles (C.erase idx) ++ L)) :=
    SlotInv_perm t F _ _ (perm_front C idx L hidx) hinv.slot
  have hn : nextPart t idx = none := by
    have := hs.chains [idx] (by simp)
    simpa [IsChain] using this
  obtain ⟨r, h1, h2, h3, h4, h5, h6⟩ := C06_replace_roundtrip t .noHash v false F [idx]
    (singles (C.erase idx) ++ L) hok hs hb
  have hk : 0 < numParts t .noHash v := numParts_pos
  have hfree : newFree F [idx] (numParts t .noHash v) = F.drop (numParts t .noHash v - 1) := by
    unfold newFree
    have : ([idx] : List Nat).drop (numParts t .noHash v) = [] := by
      apply List.drop_eq_nil_of_le; simp; omega
    rw [this]; simp
  rw [hfree] at h5
  simp only [List.headD_cons] at h1 h2
  have hpos : 0 < t.filled := by have := hs.count; omega
  have hidxlt : idx < t.filled := (hs.range idx (by simp)).2
  obtain ⟨hfr, hge⟩ := writeChain_frame t v idx F r hs.free hpos hidxlt hn h1
  have hcfg : SameCfg t r.table := by
    rw [← writeClaimed_eq t v idx hn] at h1
    unfold writeClaimed at h1
    split at h1
    · simp at h1
    · obtain ⟨t1, ha, _, hc1, _, _⟩ :=
        allocN_spec ((chunksOf t .noHash v).length - [idx].length) t F hs.free hpos
      simp only [writeCore, ha, Except.ok.injEq] at h1
      subst h1
      exact SameCfg.trans hc1 (writeParts_cfg _ _ _ _ _).1
  have hhead : r.chain.headD 0 = idx := by
    rw [h4]; unfold newChain extChain
    obtain ⟨k, hk'⟩ := Nat.exists_eq_succ_of_ne_zero (Nat.pos_iff_ne_zero.mp hk)
    rw [hk']; simp
  refine ⟨r, by rw [writeClaimed_eq t v idx hn]; exact h1, by rw [← h2]; exact h3, hhead, ?_, ?_, hcfg⟩
  · refine ⟨?_, ?_⟩
    · -- move the new chain behind the claimed singles
      refine SlotInv_perm r.table _ _ _ ?_ h5
      have : (r.chain :: (singles (C.erase idx) ++ L)).Perm (singles (C.erase idx) ++ r.chain :: L) :=
        (List.perm_middle).symm
      exact this
    · intro i hi
      rw [hfr i hi]
      exact hinv.fresh i (by omega)
  · intro c hc key'
    exact h6 c (List.mem_append_right _ hc) key'

/-! ## remove -/

/-- `write_remove_plan` on the head of a live chain: every slot of the chain is pushed on the free list (the last part
    becomes the head), other chains and the claimed slots are untouched. -/
theorem tier_remove (t : VT) (F C c0 : List Nat) (L : List (List Nat))
    (hinv : TierInv t F C (c0 :: L)) (hb : t.filled ≤ 2 ^ 64) :
    ∃ t', removePlan t (c0.headD 0) = .ok (t', c0) ∧ TierInv t' (c0.reverse ++ F) C L ∧
      t'.filled = t.filled ∧ SameCfg t t' ∧
      (∀ c ∈ L, ∀ key', readChain t' key' (c.headD 0) = readChain t key' (c.headD 0)) := by
  have hs : SlotInv t F (c0 :: (singles C ++ L)) :=
    SlotInv_perm t F _ _ List.perm_middle hinv.slot
  obtain ⟨t', h1, h2, h3, h4⟩ := C06_remove_frees t F c0 (singles C ++ L) hs hb
  obtain ⟨t'', g1, _, _, gcfg, _⟩ := removePlan_spec t F c0 (singles C ++ L) hs hb
  have e : t'' = t' := by rw [h1] at g1; injection g1 with g1; injection g1 with g1 _; exact g1.symm
  subst e
  refine ⟨t'', h1, ⟨h2, ?_⟩, h3, gcfg, fun c hc key' => h4 c (List.mem_append_right _ hc) key'⟩
  intro i hi
  rw [h3] at hi
  rw [removePlan_frame t _ _ _ h1 i]
  · exact hinv.fresh i hi
  · intro hm
    have := (hs.range i (by simp [hm])).2
    omega

end Pdb.MultiTreePhys
