/-
C15 helper lemmas (9): record / commit accounting (ghost counters `nLogged`, `nEnacted`,
`nBatches`, `lost`), the iteration lock, positivity of record sizes.  These invariants hold for
every configuration with workers (patched or not) on panic-free schedules.
-/
import Pdb.Proofs.C15Term

namespace Pdb.Conc.Pipe

/-- the commit popped by `process_commits` and not yet written (`begin_record` .. `end_record`) -/
def inflight : LPc → Nat
  | .write1 _ => 1
  | _ => 0

/-- every record written is enacted or still in a log file (appending / flushed / being read) -/
def RA1 (nl ne : Nat) (app : List Nat) (readQ : List (List Nat)) (reading : Option (List Nat)) : Prop :=
  nl = ne + app.length + lenSum readQ + optLen reading
/-- every accepted commit is queued, in the log worker's hands, written, or was dropped by a
    failing `process_commits`; every record is a commit or a reindex batch (ids start at 1) -/
def RA2 (acc nb : Nat) (q : List Nat) (pl : LPc) (nl lost : Nat) : Prop :=
  acc + nb + 1 = q.length + inflight pl + nl + lost
/-- a commit is only ever dropped together with a stored error -/
def RA3 (lost : Nat) (be : Bool) (pl : LPc) : Prop := lost > 0 → be = true ∨ pl = .err .e1
/-- a record is never empty -/
def RA4 (app : List Nat) : Prop := ∀ r ∈ app, 0 < r
/-- `iteration_lock` is a mutex: commit worker inside `enact_logs` XOR client inside a callback -/
def RA5 (pc : CPc) (ih : Bool) : Prop := (pc = .enDirty ∨ pc = .waitQ) → ih = false
/-- the reindex gate never points beyond the last record written -/
def RA6 (nr nl : Nat) : Prop := nr ≤ nl
/-- while the commit worker is inside `enact_logs` past the read, the file it read from is open -/
def RA7 (pc : CPc) (reading : Option (List Nat)) : Prop := (pc = .enDirty ∨ pc = .waitQ) → reading ≠ none

structure GA (s : St) : Prop where
  r1 : RA1 s.nLogged s.nEnacted s.app s.readQ s.reading
  r2 : RA2 s.accepted s.nBatches s.q s.pl s.nLogged s.lost
  r3 : RA3 s.lost s.bgErr s.pl
  r4 : RA4 s.app
  r5 : RA5 s.pc s.iterHeld
  r6 : RA6 s.nextRe s.nLogged
  r7 : RA7 s.pc s.reading

macro "gasimp" : tactic => `(tactic|
  simp_all [RA1, RA2, RA3, RA4, RA5, RA6, RA7, inflight, lenSum_append, lenSum_cons, recSz, List.length_append])

macro "gafin" : tactic => `(tactic| (
  first
  | (cases ‹_ = some _›; done)
  | (cases ‹_ = some _›
     constructor <;> dsimp only <;>
       (first | assumption
              | (gasimp; first | done | assumption | omega | grind)))))

theorem ga_errStep {cfg : Cfg} {s s1 : St} {e : ETail} {n : Option ETail} (he : errStep cfg s e = some (s1, n)) :
    s1.nLogged = s.nLogged ∧ s1.nEnacted = s.nEnacted ∧ s1.app = s.app ∧ s1.readQ = s.readQ ∧
    s1.reading = s.reading ∧ s1.accepted = s.accepted ∧ s1.nBatches = s.nBatches ∧ s1.q = s.q ∧
    s1.lost = s.lost ∧ s1.pc = s.pc ∧ s1.iterHeld = s.iterHeld ∧ s1.nextRe = s.nextRe ∧ s1.pl = s.pl ∧
    (s.bgErr = true → s1.bgErr = true) ∧ (e = .e1 → s1.bgErr = true) := by
  cases e <;> simp only [errStep] at he <;> split at he <;> cases he <;>
    (try (unfold sdNotify lqNotify; split)) <;> simp_all [notifyAllCm]

theorem ga_reindexStep {s : St} (hI : GA s) (hp : s.pl = .loop) : GA (reindexStep s) := by
  obtain ⟨r1, r2, r3, r4, r5, r6, r7⟩ := hI
  unfold reindexStep
  split
  · split <;> (constructor <;> dsimp only <;> (first | assumption | (gasimp; first | done | omega | grind)))
  · constructor <;> dsimp only <;> assumption

set_option maxHeartbeats 1600000 in
theorem ga_tickL {cfg : Cfg} {s s' : St} (hI : GA s) (h : tickL cfg s = some s') : GA s' := by
  have hI0 := hI
  obtain ⟨r1, r2, r3, r4, r5, r6, r7⟩ := hI
  unfold tickL at h
  split at h
  · cases h
    apply ga_reindexStep _ rfl
    constructor <;> dsimp only <;> (first | assumption | (gasimp; first | done | omega))
  · split at h
    · split at h <;> gafin
    · gafin
  · split at h <;> gafin
  · split at h <;> gafin
  · gafin
  · split at h <;> gafin
  · split at h
    · split at h
      · gafin
      · cases h
        split <;> (constructor <;> dsimp only [notifyAllCm] <;>
          (first | assumption | (gasimp; first | done | omega)))
    · gafin
  · gafin
  · gafin
  · cases h
    apply ga_reindexStep _ rfl
    constructor <;> dsimp only <;> (first | assumption | (gasimp; first | done | omega))
  · gafin
  · rename_i e hp
    obtain ⟨⟨s1, n⟩, he, hs⟩ := map_some h
    subst hs
    obtain ⟨f1, f2, f3, f4, f5, f6, f7, f8, f9, f10, f11, f12, f13, f14, f15⟩ := ga_errStep he
    have hin : inflight s.pl = 0 := by rw [hp]; rfl
    cases n <;> (constructor <;> dsimp only)
    all_goals first
      | (rw [f1, f2, f3, f4, f5]; exact r1)
      | (rw [f6, f7, f8, f1, f9]; simp only [RA2] at r2 ⊢; rw [hin] at r2; simp only [inflight]; omega)
      | (rw [f9]
         intro hl
         rcases r3 hl with hb | hb
         · exact Or.inl (f14 hb)
         · rw [hp] at hb; cases hb; exact Or.inl (f15 rfl))
      | (rw [f3]; exact r4)
      | (rw [f10, f11]; exact r5)
      | (rw [f12, f1]; exact r6)
      | (rw [f10, f5]; exact r7)
  · gafin

/-- error tail of the other three workers -/
theorem ga_err_other {cfg : Cfg} {s s1 : St} {e : ETail} {n : Option ETail} (hI : GA s)
    (he : errStep cfg s e = some (s1, n)) : RA1 s1.nLogged s1.nEnacted s1.app s1.readQ s1.reading ∧
    RA2 s1.accepted s1.nBatches s1.q s1.pl s1.nLogged s1.lost ∧ RA3 s1.lost s1.bgErr s1.pl ∧ RA4 s1.app ∧
    RA6 s1.nextRe s1.nLogged ∧ s1.pc = s.pc ∧ s1.iterHeld = s.iterHeld ∧ s1.reading = s.reading := by
  obtain ⟨r1, r2, r3, r4, r5, r6, r7⟩ := hI
  obtain ⟨f1, f2, f3, f4, f5, f6, f7, f8, f9, f10, f11, f12, f13, f14, f15⟩ := ga_errStep he
  refine ⟨?_, ?_, ?_, ?_, ?_, f10, f11, f5⟩
  · rw [f1, f2, f3, f4, f5]; exact r1
  · rw [f6, f7, f8, f13, f1, f9]; exact r2
  · rw [f9, f13]
    intro hl
    rcases r3 hl with hb | hb
    · exact Or.inl (f14 hb)
    · exact Or.inr hb
  · rw [f3]; exact r4
  · rw [f12, f1]; exact r6

set_option maxHeartbeats 1600000 in
theorem ga_tickF {cfg : Cfg} {s s' : St} (hI : GA s) (h : tickF cfg s = some s') : GA s' := by
  have hI0 := hI
  obtain ⟨r1, r2, r3, r4, r5, r6, r7⟩ := hI
  unfold tickF at h
  split at h
  · split at h
    · split at h <;> gafin
    · gafin
  · split at h <;> gafin
  · split at h
    · cases h
      constructor <;> dsimp only <;> (first | assumption | (gasimp; first | done | omega))
    · gafin
  · gafin
  · obtain ⟨⟨s1, n⟩, he, hs⟩ := map_some h
    subst hs
    obtain ⟨b1, b2, b3, b4, b6, e1, e2, e3⟩ := ga_err_other hI0 he
    exact ⟨b1, b2, b3, b4, by rw [e1, e2]; exact r5, b6, by rw [e1, e3]; exact r7⟩
  · gafin

set_option maxHeartbeats 1600000 in
theorem ga_tickCg {cfg : Cfg} {s s' : St} (hI : GA s) (h : tickCg cfg s = some s') : GA s' := by
  have hI0 := hI
  obtain ⟨r1, r2, r3, r4, r5, r6, r7⟩ := hI
  unfold tickCg at h
  split at h
  · cases h
  rename_i hg
  unfold tickC at h
  split at h
  · split at h
    · split at h <;> gafin
    · gafin
  · gafin
  · split at h <;> gafin
  · split at h <;> gafin
  · rename_i hpc
    have hih : s.iterHeld = false := by simpa [hpc] using hg
    split at h
    · gafin
    · rename_i rq' hcf
      have hc := curFile_counts hcf
      cases h
      constructor <;> dsimp only <;> (first | assumption | skip)
      · simp only [RA1, optLen_none, List.length_nil] at r1 hc ⊢; omega
      · intro hx; rcases hx with hx | hx <;> cases hx
      · intro hx; rcases hx with hx | hx <;> cases hx
    · rename_i r rs rq' hcf
      have hc := curFile_counts hcf
      split at h
      · cases h
        have r1' : RA1 s.nLogged (s.nEnacted + 1) s.app rq' (some rs) := by
          simp only [RA1, optLen_some, List.length_cons] at r1 hc ⊢; omega
        split
        · unfold lqNotify
          split <;> (constructor <;> dsimp only <;> (first | assumption | (intro _; exact hih) | (intro _ hx; cases hx)))
        · constructor <;> dsimp only <;> (first | assumption | (intro _; exact hih) | (intro _ hx; cases hx))
      · gafin
  · split at h <;> gafin
  · split at h <;> gafin
  · rename_i e hp
    obtain ⟨⟨s1, n⟩, he, hs⟩ := map_some h
    subst hs
    obtain ⟨b1, b2, b3, b4, b6, e1, e2, e3⟩ := ga_err_other hI0 he
    refine ⟨b1, b2, b3, b4, ?_, b6, ?_⟩
    · intro hx; cases n <;> (rcases hx with hx | hx <;> cases hx)
    · intro hx; cases n <;> (rcases hx with hx | hx <;> cases hx)
  · gafin

set_option maxHeartbeats 1600000 in
theorem ga_tickK {cfg : Cfg} {s s' : St} (hI : GA s) (h : tickK cfg s = some s') : GA s' := by
  have hI0 := hI
  obtain ⟨r1, r2, r3, r4, r5, r6, r7⟩ := hI
  unfold tickK at h
  split at h
  · split at h
    · split at h <;> gafin
    · gafin
  · split at h <;> gafin
  · split at h <;> gafin
  · gafin
  · obtain ⟨⟨s1, n⟩, he, hs⟩ := map_some h
    subst hs
    obtain ⟨b1, b2, b3, b4, b6, e1, e2, e3⟩ := ga_err_other hI0 he
    exact ⟨b1, b2, b3, b4, by rw [e1, e2]; exact r5, b6, by rw [e1, e3]; exact r7⟩
  · gafin

/-- the sequential pieces run with the log worker gone (`inflight = 0` is kept) -/
structure GAq (s : St) : Prop where
  ga : GA s
  pl : inflight s.pl = 0

theorem ra7_done {pc : CPc} (rd : Option (List Nat)) (h : pc = .done) : RA7 pc rd := by
  intro hx; rcases hx with hx | hx <;> (rw [h] at hx; cases hx)

theorem ga_seqEnactOnce {cfg : Cfg} {s s1 : St} {b : Bool} (hI : GA s) (hd : s.pc = .done)
    (h : seqEnactOnce cfg s = some (s1, b)) : GA s1 := by
  obtain ⟨r1, r2, r3, r4, r5, r6, r7⟩ := hI
  have r7' : ∀ rd, RA7 s.pc rd := fun rd => ra7_done rd hd
  unfold seqEnactOnce at h
  split at h
  · cases h; exact ⟨r1, r2, r3, r4, r5, r6, r7⟩
  · rename_i rq' hcf
    have hc := curFile_counts hcf
    cases h
    constructor <;> dsimp only <;> (first | assumption | exact r7' _ | skip)
    simp only [RA1, optLen_none, List.length_nil] at r1 hc ⊢; omega
  · rename_i r rs rq' hcf
    have hc := curFile_counts hcf
    simp only at h
    split at h
    · cases h
    · cases h
      constructor <;> dsimp only <;> (first | assumption | exact r7' _ | skip)
      simp only [RA1, optLen_some, List.length_cons] at r1 hc ⊢; omega

theorem ga_seqEnactLoop {cfg : Cfg} : ∀ (n : Nat) {s s' : St}, GA s → s.pc = .done →
    seqEnactLoop cfg n s = some s' → GA s'
  | 0, s, s', hI, _, h => by simp [seqEnactLoop] at h; subst h; exact hI
  | n + 1, s, s', hI, hd, h => by
    simp only [seqEnactLoop] at h
    split at h
    · cases h
    · rename_i s1 he
      exact ga_seqEnactLoop n (ga_seqEnactOnce hI hd he) (by rw [(ctlEq_seqEnactOnce he).pc]; exact hd) h
    · rename_i s1 he; cases h; exact ga_seqEnactOnce hI hd he

theorem ga_seqFlush0 {s : St} (hI : GA s) : GA (seqFlush0 s) := by
  obtain ⟨r1, r2, r3, r4, r5, r6, r7⟩ := hI
  unfold seqFlush0
  split
  · constructor <;> dsimp only <;> (first | assumption | (gasimp; first | done | omega))
  · exact ⟨r1, r2, r3, r4, r5, r6, r7⟩

theorem ga_seqProcessOnce {s : St} (hI : GA s) (hp : inflight s.pl = 0) : GA (seqProcessOnce s).1 := by
  obtain ⟨r1, r2, r3, r4, r5, r6, r7⟩ := hI
  unfold seqProcessOnce
  split
  · exact ⟨r1, r2, r3, r4, r5, r6, r7⟩
  · constructor <;> dsimp only <;> (first | assumption | (gasimp; first | done | omega | grind))

theorem ga_seqProcessLoop : ∀ (n : Nat) {s : St}, GA s → inflight s.pl = 0 → GA (seqProcessLoop n s)
  | 0, s, hI, _ => by simpa [seqProcessLoop] using hI
  | n + 1, s, hI, hp => by
    simp only [seqProcessLoop]
    split
    · exact ga_seqProcessLoop n (ga_seqProcessOnce hI hp) (by rw [(ctlEq_seqProcessOnce s).pl]; exact hp)
    · exact hI

theorem ga_killLogsSeq {cfg : Cfg} {s s' : St} (hI : GA s) (hp : inflight s.pl = 0) (hd : s.pc = .done)
    (h : killLogsSeq cfg s = some s') : GA s' := by
  unfold killLogsSeq at h
  split at h
  · cases h; exact ⟨hI.r1, hI.r2, hI.r3, hI.r4, hI.r5, hI.r6, hI.r7⟩
  · obtain ⟨s1, h1, h⟩ := bind_some h
    have i1 := ga_seqEnactLoop _ hI hd h1
    have p1 : inflight s1.pl = 0 := by rw [(ctlEq_seqEnactLoop _ h1).pl]; exact hp
    have d1 : s1.pc = .done := by rw [(ctlEq_seqEnactLoop _ h1).pc]; exact hd
    have d3 : (seqProcessLoop (fuel s1) (seqFlush0 s1)).pc = .done := by
      rw [((ctlEq_seqFlush0 s1).trans (ctlEq_seqProcessLoop (fuel s1) _)).pc]; exact d1
    have i2 := ga_seqFlush0 i1
    have p2 : inflight (seqFlush0 s1).pl = 0 := by rw [(ctlEq_seqFlush0 s1).pl]; exact p1
    have i3 := ga_seqProcessLoop (fuel s1) i2 p2
    split at h
    · cases h
    obtain ⟨s4, h4, h⟩ := bind_some h
    have i4 := ga_seqEnactLoop _ i3 d3 h4
    have i5 := ga_seqFlush0 i4
    have d5 : (seqFlush0 s4).pc = .done := by
      rw [(ctlEq_seqFlush0 s4).pc, (ctlEq_seqEnactLoop _ h4).pc]; exact d3
    obtain ⟨s6, h6, h⟩ := bind_some h
    have i6 := ga_seqEnactLoop _ i5 d5 h6
    cases h
    exact ⟨i6.r1, i6.r2, i6.r3, i6.r4, i6.r5, i6.r6, i6.r7⟩

set_option maxHeartbeats 1600000 in
theorem ga_tickD {cfg : Cfg} {s s' : St} (hG : G1 s) (hI : GA s) (h : tickD cfg s = some s') : GA s' := by
  have hI0 := hI
  obtain ⟨r1, r2, r3, r4, r5, r6, r7⟩ := hI
  unfold tickD at h
  split at h
  · gafin
  · gafin
  · split at h
    · gafin
    · cases h
      unfold sdNotify lqNotify
      split <;> exact ⟨r1, r2, r3, r4, r5, r6, r7⟩
  · split at h <;> gafin
  · split at h <;> gafin
  · split at h <;> gafin
  · split at h <;> gafin
  · rename_i hp
    obtain ⟨s1, he, hs⟩ := map_some h
    subst hs
    have hl : s.pl = .done := hG.a9.1 (by rw [hp]; decide)
    have hc : s.pc = .done := hG.a9.2.2.1 (by rw [hp]; decide)
    have := ga_killLogsSeq hI0 (by rw [hl]; rfl) hc he
    exact ⟨this.r1, this.r2, this.r3, this.r4, this.r5, this.r6, this.r7⟩
  · gafin
  · gafin
  · gafin

theorem ga_commitFinish {s : St} (hI : GA s) (i b : Nat) : GA (commitFinish s i b) := by
  obtain ⟨r1, r2, r3, r4, r5, r6, r7⟩ := hI
  unfold commitFinish setCm
  split <;> (constructor <;> dsimp only <;> (first | assumption | (gasimp; first | done | omega)))

theorem ga_tickCm {s s' : St} {i : Nat} (hI : GA s) (h : tickCm s i = some s') : GA s' := by
  unfold tickCm at h
  split at h
  · cases h; exact ⟨hI.r1, hI.r2, hI.r3, hI.r4, hI.r5, hI.r6, hI.r7⟩
  · split at h
    · cases h; exact ga_commitFinish hI _ _
    · cases h
  · cases h

theorem ga_init (cfg : Cfg) (n r : Nat) : GA (init cfg n r) := by
  unfold init
  split <;> (constructor <;> dsimp only <;> simp [RA1, RA2, RA3, RA4, RA5, RA6, RA7, inflight, optLen])

set_option maxHeartbeats 1600000 in
theorem ga_step {cfg : Cfg} (hw : cfg.workers = true) {s s' : St} {a : Act} (hnp : a.isPanic = false) (hG : G1 s)
    (hI : GA s) (h : step cfg s a = some s') : GA s' := by
  cases a with
  | tick t =>
    cases t
    · exact ga_tickL hI h
    · exact ga_tickF hI h
    · exact ga_tickCg hI h
    · exact ga_tickK hI h
    · exact ga_tickD hG hI h
  | cmTick i => exact ga_tickCm hI h
  | commit i b =>
    simp only [step] at h
    split at h
    · split at h
      · cases h; exact ⟨hI.r1, hI.r2, hI.r3, hI.r4, hI.r5, hI.r6, hI.r7⟩
      · cases h; exact ga_commitFinish hI _ _
    · cases h
  | drop =>
    simp only [step] at h
    split at h
    · cases h; exact ⟨hI.r1, hI.r2, hI.r3, hI.r4, hI.r5, hI.r6, hI.r7⟩
    · cases h
  | fail t =>
    obtain ⟨r1, r2, r3, r4, r5, r6, r7⟩ := hI
    cases t
    · simp only [step, hw, if_true] at h
      split at h <;> gafin
    · simp only [step] at h
      split at h <;> gafin
    · simp only [step] at h
      split at h <;> gafin
    · simp only [step] at h
      split at h <;> gafin
    · simp only [step] at h
      cases h
  | apiProcess => simp [step, hw] at h
  | apiFlush => simp [step, hw] at h
  | apiEnact => simp [step, hw] at h
  | apiClean => simp [step, hw] at h
  | defer =>
    obtain ⟨r1, r2, r3, r4, r5, r6, r7⟩ := hI
    simp only [step] at h
    split at h
    · split at h <;> gafin
    · cases h
  | panic t => cases hnp
  | iterHold =>
    obtain ⟨r1, r2, r3, r4, r5, r6, r7⟩ := hI
    simp only [step] at h
    split at h
    · rename_i hg
      cases h
      refine ⟨r1, r2, r3, r4, ?_, r6, r7⟩
      intro hx
      simp [cHoldsIter] at hg
      rcases hx with hx | hx <;> simp_all
    · cases h
  | iterRelease =>
    simp only [step] at h
    split at h
    · cases h; exact ⟨hI.r1, hI.r2, hI.r3, hI.r4, fun _ => rfl, hI.r6, hI.r7⟩
    · cases h
  | makeCycle =>
    simp only [step] at h
    split at h
    · cases h; exact ⟨hI.r1, hI.r2, hI.r3, hI.r4, hI.r5, hI.r6, hI.r7⟩
    · cases h
  | dropEnacted k =>
    obtain ⟨r1, r2, r3, r4, r5, r6, r7⟩ := hI
    simp only [step] at h
    split at h
    · cases h
      refine ⟨r1, r2, r3, r4, r5, ?_, r7⟩
      simp only [RA6, RA1] at r1 ⊢; omega
    · cases h
  | lockTree | unlockTree =>
    simp only [step] at h
    cases h; exact ⟨hI.r1, hI.r2, hI.r3, hI.r4, hI.r5, hI.r6, hI.r7⟩
  | grow k =>
    obtain ⟨r1, r2, r3, r4, r5, r6, r7⟩ := hI
    simp only [step] at h
    split at h
    · cases h; exact ⟨r1, r2, r3, r4, r5, Nat.le_refl _, r7⟩
    · split at h
      · cases h; exact ⟨r1, r2, r3, r4, r5, Nat.le_refl _, r7⟩
      · cases h
    · cases h

theorem ga_reachable {cfg : Cfg} (hw : cfg.workers = true) {n r : Nat} {s : St} (h : Reachable cfg n r s) :
    G1 s ∧ GA s :=
  reachable_induction (fun s => G1 s ∧ GA s) ⟨g1_init cfg hw n r, ga_init cfg n r⟩
    (fun _ _ _ hnp hI hs => ⟨g1_step hw hnp hI.1 hs, ga_step hw hnp hI.1 hI.2 hs⟩) s h

end Pdb.Conc.Pipe
