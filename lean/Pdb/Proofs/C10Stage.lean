/-
C10: what is readable while commits are queued.  The commit overlay (roots and new nodes of
queued InsertTrees) over the tables shows every root and every node of the atomic heap.
-/
import Pdb.Proofs.C10Sim

namespace Pdb.MultiTree
set_option linter.unusedSectionVars false
variable {K D : Type} [DecidableEq K]

mutual
  /-- The nodes after inserting a reference are the nodes it writes (which depend only on the
      counter and the reference) laid over the old ones. -/
  theorem insRef_nodes (ap : Bool) : ∀ (r : NRef D) (h : Heap K D) (n b : Addr),
      (insRef ap h n r).1.nodes.get b =
        ((insRef true (Heap.empty : Heap K D) n r).1.nodes.get b).or (h.nodes.get b)
    | .existing a, h, n, b => by
      cases ap <;> simp [insRef, incRef, Heap.empty]
    | .new d cs, h, n, b => by
      have ih := insRefs_nodes ap cs h n b
      have ha := insRefs_addrs ap true cs h (Heap.empty : Heap K D) n
      rcases hR : insRefs ap h n cs with ⟨h1, n1, as⟩
      rcases hR' : insRefs true (Heap.empty : Heap K D) n cs with ⟨h1', n1', as'⟩
      simp only [hR, hR', Prod.mk.injEq] at ih ha
      obtain ⟨e1, e2⟩ := ha
      subst e1 e2
      simp only [insRef, hR, hR', FMap.get_set]
      split
      · simp
      · exact ih
  theorem insRefs_nodes (ap : Bool) : ∀ (rs : NRefs D) (h : Heap K D) (n b : Addr),
      (insRefs ap h n rs).1.nodes.get b =
        ((insRefs true (Heap.empty : Heap K D) n rs).1.nodes.get b).or (h.nodes.get b)
    | .nil, h, n, b => by simp [insRefs, Heap.empty]
    | .cons r rs, h, n, b => by
      have ih1 := insRef_nodes ap r h n b
      have ha := insRef_addrs ap true r h (Heap.empty : Heap K D) n
      rcases hR1 : insRef ap h n r with ⟨h1, n1, a⟩
      rcases hR1' : insRef true (Heap.empty : Heap K D) n r with ⟨e1, n1', a'⟩
      simp only [hR1, hR1', Prod.mk.injEq] at ih1 ha
      obtain ⟨x1, x2⟩ := ha
      subst x1 x2
      have ih2 := insRefs_nodes ap rs h1 n1 b
      have ih2' := insRefs_nodes true rs e1 n1 b
      simp only [insRefs, hR1, hR1']
      rcases hR2 : insRefs ap h1 n1 rs with ⟨h2, n2, as⟩
      rcases hR2' : insRefs true e1 n1 rs with ⟨e2, n2', as'⟩
      simp only [hR2, hR2'] at ih2 ih2' ⊢
      rw [ih2, ih2', ih1]
      have hemp : (Heap.empty : Heap K D).nodes.get b = none := rfl
      rw [ih1] at *
      cases (insRefs true (Heap.empty : Heap K D) n1 rs).1.nodes.get b <;> simp
end

theorem insertTreeAt_nodes (v : Variant) (h : Heap K D) (n0 : Addr) (k : K) (t : NewNode D)
    (b : Addr) :
    (insertTreeAt v h n0 k t).nodes.get b =
      ((insRefs true (Heap.empty : Heap K D) n0 t.children).1.nodes.get b).or (h.nodes.get b) := by
  have := insRefs_nodes (decide (v = .appendOnly)) t.children h n0 b
  rcases hR : insRefs (decide (v = .appendOnly)) h n0 t.children with ⟨h1, n1, as⟩
  simp only [hR] at this
  simp only [insertTreeAt, hR]
  exact this

/-- the walk only removes nodes (no invariant needed) -/
theorem derefChildren_sub : ∀ (fuel : Nat) (cs : List Addr) (h h' : Heap K D),
    derefChildren fuel h cs = .ok h' → ∀ b n, h'.nodes.get b = some n → h.nodes.get b = some n
  | 0, _, _, _, e => by simp [derefChildren] at e
  | fuel + 1, cs, h, h', e => by
    simp only [derefChildren] at e
    induction cs generalizing h with
    | nil =>
      simp only [List.foldlM_nil, pure, Except.pure, Except.ok.injEq] at e
      subst e; exact fun _ _ hg => hg
    | cons a rest ih =>
      simp only [List.foldlM_cons] at e
      cases hs : derefStep (derefChildren fuel) h a with
      | error er => rw [hs] at e; cases e
      | ok h2 =>
        rw [hs] at e
        have h2e := ih h2 e
        have hstep : ∀ b n, h2.nodes.get b = some n → h.nodes.get b = some n := by
          simp only [derefStep, decRef] at hs
          cases hr : h.rc.get a with
          | some c =>
            simp only [hr, Except.ok.injEq] at hs
            subst hs; exact fun _ _ hg => hg
          | none =>
            simp only [hr] at hs
            cases hk : (h.nodes.get a).map (·.children) with
            | none => rw [hk] at hs; cases hs
            | some kids =>
              rw [hk] at hs
              have := derefChildren_sub fuel kids _ h2 hs
              intro b n hg
              have h1 := this b n hg
              simp only [FMap.get_set] at h1
              split at h1
              · cases h1
              · exact h1
        exact fun b n hg => hstep b n (h2e b n hg)

theorem derefProcess_sub (v : Variant) (h h' : Heap K D) (k : K) (cs : List Addr)
    (e : derefProcess v h k cs = .ok h') :
    ∀ b n, h'.nodes.get b = some n → h.nodes.get b = some n := by
  simp only [derefProcess] at e
  split at e
  · simp only [Except.ok.injEq] at e; subst e; exact fun _ _ hg => hg
  · split at e
    · simp only [Except.ok.injEq] at e; subst e; exact fun _ _ hg => hg
    · exact derefChildren_sub _ cs { h with roots := h.roots.set k none } h' e

theorem ovNode_cons (p : Pending K D) (q : List (Pending K D)) (a : Addr) :
    ovNode (p :: q) a = (ovNode q a).or (pendNode a p) := by
  simp only [ovNode, List.reverse_cons, List.findSome?_append, List.findSome?_cons,
    List.findSome?_nil]
  cases pendNode a p <;> simp

theorem applyPending_nodes (v : Variant) (h : Heap K D) (p : Pending K D) (hp : pendOk h p)
    (a : Addr) (n : Node D) (hg : (applyPending v h p).nodes.get a = some n) :
    (pendNode a p).or (h.nodes.get a) = some n := by
  cases p with
  | insert k t n0 root ov =>
    simp only [applyPending, insertTreeAt_nodes] at hg
    simp only [pendOk] at hp
    simp only [pendNode, hp.2.2]
    exact hg
  | ref k =>
    simp only [applyPending] at hg
    simp only [pendNode, Option.none_or]
    cases e : referenceTree v h k with
    | error er => simp only [e, okOr] at hg; exact hg
    | ok h' =>
      simp only [e, okOr] at hg
      cases v with
      | appendOnly => simp only [referenceTree, Except.ok.injEq] at e; subst e; exact hg
      | plain => simp [referenceTree] at e
      | rcRoots =>
        simp only [referenceTree] at e
        split at e <;> (simp only [Except.ok.injEq] at e; subst e; exact hg)
  | deref k cs =>
    simp only [applyPending] at hg
    simp only [pendNode, Option.none_or]
    cases e : derefProcess v h k cs with
    | error er => simp only [e, okOr] at hg; exact hg
    | ok h' =>
      simp only [e, okOr] at hg
      exact derefProcess_sub v h h' k cs e a n hg

/-- NodeChar: a node of the drained heap is shown by the address overlay (or the tables). -/
theorem drain_node_view (v : Variant) (q : List (Pending K D)) :
    ∀ (h : Heap K D), QueueOk v h q → ∀ (a : Addr) (n : Node D),
      (drainHeap v h q).nodes.get a = some n → (ovNode q a).or (h.nodes.get a) = some n := by
  induction q with
  | nil =>
    intro h _ a n hg
    simp only [drainHeap, List.foldl_nil] at hg
    simp [ovNode, hg]
  | cons p q ih =>
    intro h hq a n hg
    have := ih (applyPending v h p) hq.2 a n hg
    rw [ovNode_cons]
    cases ho : ovNode q a with
    | some x => simp only [ho, Option.some_or] at this ⊢; exact this
    | none =>
      simp only [ho, Option.none_or] at this ⊢
      exact applyPending_nodes v h p hq.1 a n this

/-- Reading through a view that shows every node of a sound heap gives what the heap gives. -/
theorem readNode_view (H : Heap K D) (hs : Shape H) (view : Addr → Option (Node D))
    (hview : ∀ a n, H.nodes.get a = some n → view a = some n) :
    ∀ (f a : Nat), present H a → readNode view f a = readNode H.nodes.get f a := by
  intro f
  induction f with
  | zero => intro a _; rfl
  | succ f ih =>
    intro a ha
    obtain ⟨n, hn⟩ := (present_iff H a).mp ha
    simp only [readNode, hn, hview a n hn]
    congr 1
    apply mapOpt_congr
    intro c hc
    exact ih c (hs.closedN a n hn c hc)

/-- Every root and node of the atomic heap is visible through the overlays of the pipeline
    state, whatever is still queued. -/
theorem sim_views (v : Variant) (s : PState K D) (H : Heap K D) (sim : Sim v s H) :
    (∀ k r c, H.roots.get k = some (r, c) → viewRoot s k = some r) ∧
    (∀ a n, H.nodes.get a = some n → viewNode s a = some n) := by
  have hc := sim.core
  simp only [core, Prod.mk.injEq] at hc
  obtain ⟨hn, _, hr⟩ := hc
  constructor
  · intro k r c hg
    rw [hr] at hg
    exact drain_root_view v s.queue s.heap sim.qok k r c hg
  · intro a n hg
    rw [hn] at hg
    exact drain_node_view v s.queue s.heap sim.qok a n hg

end Pdb.MultiTree
