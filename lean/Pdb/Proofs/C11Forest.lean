/-
C11, forest half of "deferral keeps commit order".

`grun` (Pdb/Model/C11Ghost.lean) is the run of `tstep` instrumented with the tree events
(`InsertTree` / `DereferenceTree`) of the accepted commits in commit-return order (`Ghost.hist`)
and of the published commits in publication order (`Ghost.done`).

  * `applyTrees_eq_evs`, `tstep_commit_eq`, `grun_fst`: glue between model and instrumentation;
  * `forest_done` (ALL variants): the published forest is the sequential application of
    `Ghost.done` to the empty forest;
  * `DelayD a b`: "b is obtained from a by moving `der` events to the right, nothing else"
    (closure lemmas: `snoc`, `block`, `perm`, `ins_order`);
  * `pipeline_patched`: for `Variant.patched`, `DelayD hist (done ++ pend ++ queue)`: the only
    thing the patched deferral does to the tree events is to delay dereferences;
  * `pipeline_noDeferral` (any variant): in a run where no `process` step postpones a commit
    the pipeline is exactly FIFO: `hist = done ++ pend ++ queue`;
  * final theorems `forest_patched`, `forest_noDeferral`, `order_noDeferral` for drained runs
    from the initial state.
-/
import Pdb.Model.C11Ghost
import Pdb.Proofs.C11Stable
import Pdb.Proofs.C11Order

set_option linter.unusedSectionVars false
set_option linter.unusedSimpArgs false
set_option linter.unusedVariables false
namespace Pdb
namespace CRd
namespace Tr
variable {K V TK : Type} [DecidableEq K] [DecidableEq TK]

/-! ### glue -/

/-- The tree effect of a commit is the fold of its events. -/
theorem applyTrees_eq_evs (fuel : Nat) (f : Forest TK) (c : TCommit K V TK) :
    applyTrees fuel f c = c.evs.foldl (applyEv fuel) f := by
  simp only [applyTrees, TCommit.evs, evsOf, List.foldl_append, List.foldl_map]
  rfl

theorem tstep_commit_rejected (var : Variant) (kind : K → Kind) (fuel : Nat) (s : TSt K V TK)
    (ops : List (Op K V)) (derefs : List TK) (inserts : List (Ins TK))
    (h : commitOk kind s ops derefs inserts = false) :
    tstep var kind fuel s (.commit ops derefs inserts) = s := by
  simp only [tstep]
  split
  · rfl
  split
  · rfl
  split
  · rfl
  split
  · rfl
  split
  · rfl
  split
  · rfl
  rename_i g1 g2 g3 g4 g5 g6
  exfalso
  simp only [Bool.not_eq_true', Bool.not_eq_false] at g1 g2 g3 g4 g5 g6
  simp only [commitOk, g1, g2, g3, g4, g5, g6, Bool.and_self] at h
  exact absurd h (by decide)

theorem tstep_commit_accepted (var : Variant) (kind : K → Kind) (fuel : Nat) (s : TSt K V TK)
    (ops : List (Op K V)) (derefs : List TK) (inserts : List (Ins TK))
    (h : commitOk kind s ops derefs inserts = true) :
    tstep var kind fuel s (.commit ops derefs inserts) =
      { s with nextId := s.nextId + 1,
               overlay := ops.foldl (ovOp kind (s.nextId + 1)) s.overlay,
               queue := s.queue ++ [{ id := s.nextId + 1, ops := ops, derefs := derefs,
                                      inserts := inserts,
                                      used := if inserts.isEmpty then []
                                              else s.rootKeys.filter
                                                (fun k => decide (0 < s.toDeref k) &&
                                                  decide (0 < s.locked k)) }],
               toDeref := derefs.foldl incDeref s.toDeref,
               usedKeys := inserts.map (·.1) ++ s.usedKeys,
               claimed := inserts.flatMap insAddrs ++ s.claimed,
               hist := s.hist ++ [ops] } := by
  simp only [commitOk, Bool.and_eq_true] at h
  obtain ⟨⟨⟨⟨⟨h1, h2⟩, h3⟩, h4⟩, h5⟩, h6⟩ := h
  simp only [tstep, h1, h2, h3, h4, h5, h6, Bool.not_true, Bool.false_eq_true, if_false]

/-- `tstep (.commit ..)` as one `if` on `commitOk`. -/
theorem tstep_commit_eq (var : Variant) (kind : K → Kind) (fuel : Nat) (s : TSt K V TK)
    (ops : List (Op K V)) (derefs : List TK) (inserts : List (Ins TK)) :
    tstep var kind fuel s (.commit ops derefs inserts) =
      if commitOk kind s ops derefs inserts then
        { s with nextId := s.nextId + 1,
                 overlay := ops.foldl (ovOp kind (s.nextId + 1)) s.overlay,
                 queue := s.queue ++ [{ id := s.nextId + 1, ops := ops, derefs := derefs,
                                        inserts := inserts,
                                        used := if inserts.isEmpty then []
                                                else s.rootKeys.filter
                                                  (fun k => decide (0 < s.toDeref k) &&
                                                    decide (0 < s.locked k)) }],
                 toDeref := derefs.foldl incDeref s.toDeref,
                 usedKeys := inserts.map (·.1) ++ s.usedKeys,
                 claimed := inserts.flatMap insAddrs ++ s.claimed,
                 hist := s.hist ++ [ops] }
      else s := by
  cases h : commitOk kind s ops derefs inserts with
  | false => simp only [Bool.false_eq_true, if_false]; exact tstep_commit_rejected var kind fuel s ops derefs inserts h
  | true => simp only [if_true]; exact tstep_commit_accepted var kind fuel s ops derefs inserts h

theorem grun_nil (var : Variant) (kind : K → Kind) (fuel : Nat) (p : TSt K V TK × Ghost TK) :
    grun var kind fuel p [] = p := rfl

theorem grun_cons (var : Variant) (kind : K → Kind) (fuel : Nat) (p : TSt K V TK × Ghost TK)
    (a : TAct K V TK) (as : List (TAct K V TK)) :
    grun var kind fuel p (a :: as) = grun var kind fuel (gstep var kind fuel p a) as := rfl

theorem trun_cons (var : Variant) (kind : K → Kind) (fuel : Nat) (s : TSt K V TK)
    (a : TAct K V TK) (as : List (TAct K V TK)) :
    trun var kind fuel s (a :: as) = trun var kind fuel (tstep var kind fuel s a) as := rfl

/-- The instrumented run projects to the plain run. -/
theorem grun_fst (var : Variant) (kind : K → Kind) (fuel : Nat) (s : TSt K V TK) (g : Ghost TK)
    (as : List (TAct K V TK)) : (grun var kind fuel (s, g) as).1 = trun var kind fuel s as := by
  induction as generalizing s g with
  | nil => rfl
  | cons a as ih => rw [grun_cons, trun_cons]; exact ih _ _

/-! ### the published forest is the fold of `done` -/

theorem publish_forest (kind : K → Kind) (fuel : Nat) (s : TSt K V TK) :
    (publish kind fuel s).forest = (pendEvs s).foldl (applyEv fuel) s.forest := by
  simp only [publish, pendEvs]
  split
  · rename_i hp; simp [hp]
  · rename_i c hp
    simp only [hp, Option.map_some, Option.getD_some, ← applyTrees_eq_evs]
    rfl

/-- Invariant of `gstep`, all variants: only `publish` changes the forest and `done`. -/
theorem forest_done_step (var : Variant) (kind : K → Kind) (fuel : Nat) (f0 : Forest TK)
    (s : TSt K V TK) (g : Ghost TK) (a : TAct K V TK)
    (h : s.forest = g.done.foldl (applyEv fuel) f0) :
    (gstep var kind fuel (s, g) a).1.forest =
      (gstep var kind fuel (s, g) a).2.done.foldl (applyEv fuel) f0 := by
  cases a with
  | commit ops derefs inserts =>
    simp only [gstep, gUpd, tstep_commit_eq]
    split
    · exact h
    · exact h
  | process =>
    simp only [gstep, gUpd, tstep, process]
    repeat (first | exact h | split)
  | publish =>
    simp only [gstep, gUpd, tstep, List.foldl_append, ← h]
    exact publish_forest kind fuel s
  | lock key =>
    simp only [gstep, gUpd, tstep]
    repeat (first | exact h | split)
  | unlock key => exact h

theorem forest_done (var : Variant) (kind : K → Kind) (fuel : Nat) (f0 : Forest TK)
    (s : TSt K V TK) (g : Ghost TK) (as : List (TAct K V TK))
    (h : s.forest = g.done.foldl (applyEv fuel) f0) :
    (grun var kind fuel (s, g) as).1.forest =
      (grun var kind fuel (s, g) as).2.done.foldl (applyEv fuel) f0 := by
  induction as generalizing s g with
  | nil => exact h
  | cons a as ih =>
    rw [grun_cons]
    exact ih _ _ (forest_done_step var kind fuel f0 s g a h)

/-- From the initial state: the published forest is `seqForest` of the publication history. -/
theorem forest_done_init (var : Variant) (kind : K → Kind) (fuel : Nat)
    (as : List (TAct K V TK)) :
    (grun var kind fuel ((TSt.init : TSt K V TK), Ghost.init) as).1.forest =
      seqForest fuel (grun var kind fuel ((TSt.init : TSt K V TK), Ghost.init) as).2.done :=
  forest_done var kind fuel Forest.empty TSt.init Ghost.init as rfl

/-! ### the pipeline relation: only `der` events move, and only to the right -/

/-- `DelayD a b`: `b` is obtained from `a` by moving `der` events to the right. -/
inductive DelayD : List (Ev TK) → List (Ev TK) → Prop
  | refl (l : List (Ev TK)) : DelayD l l
  | move {l : List (Ev TK)} (pre mid post : List (Ev TK)) (k : TK) :
      DelayD l (pre ++ Ev.der k :: (mid ++ post)) → DelayD l (pre ++ (mid ++ Ev.der k :: post))

def insOf : Ev TK → Option (Ins TK)
  | .ins i => some i
  | .der _ => none

theorem DelayD.of_eq {a b : List (Ev TK)} (h : a = b) : DelayD a b := h ▸ DelayD.refl a

theorem DelayD.snoc {a b : List (Ev TK)} (e : List (Ev TK)) (h : DelayD a b) :
    DelayD (a ++ e) (b ++ e) := by
  induction h with
  | refl => exact DelayD.refl _
  | move pre mid post k _ ih =>
    have e1 : (pre ++ (mid ++ Ev.der k :: post)) ++ e = pre ++ (mid ++ Ev.der k :: (post ++ e)) := by
      simp [List.append_assoc]
    have e2 : (pre ++ Ev.der k :: (mid ++ post)) ++ e = pre ++ Ev.der k :: (mid ++ (post ++ e)) := by
      simp [List.append_assoc]
    rw [e1]
    rw [e2] at ih
    exact DelayD.move pre mid (post ++ e) k ih

theorem DelayD.trans {a b c : List (Ev TK)} (h1 : DelayD a b) (h2 : DelayD b c) : DelayD a c := by
  induction h2 with
  | refl => exact h1
  | move pre mid post k _ ih => exact DelayD.move pre mid post k ih

/-- A block of `der` events moves to the right past `mid`. -/
theorem DelayD.block {l : List (Ev TK)} (ds : List TK) (pre mid post : List (Ev TK))
    (h : DelayD l (pre ++ (ds.map Ev.der ++ (mid ++ post)))) :
    DelayD l (pre ++ (mid ++ (ds.map Ev.der ++ post))) := by
  induction ds generalizing pre with
  | nil => simpa using h
  | cons d ds ih =>
    have h1 : DelayD l ((pre ++ [Ev.der d]) ++ (ds.map Ev.der ++ (mid ++ post))) := by
      simpa [List.append_assoc] using h
    have h2 := ih (pre ++ [Ev.der d]) h1
    have h3 : DelayD l (pre ++ Ev.der d :: (mid ++ (ds.map Ev.der ++ post))) := by
      simpa [List.append_assoc] using h2
    have h4 := DelayD.move pre mid (ds.map Ev.der ++ post) d h3
    simpa using h4

theorem DelayD.perm {a b : List (Ev TK)} (h : DelayD a b) : b.Perm a := by
  induction h with
  | refl => exact List.Perm.refl _
  | move pre mid post k _ ih =>
    refine List.Perm.trans ?_ ih
    exact List.Perm.append_left pre List.perm_middle

/-- The `ins` events keep their order (and multiplicity). -/
theorem DelayD.ins_order {a b : List (Ev TK)} (h : DelayD a b) :
    b.filterMap insOf = a.filterMap insOf := by
  induction h with
  | refl => rfl
  | move pre mid post k _ ih =>
    rw [← ih]
    simp [List.filterMap_append, List.filterMap_cons, insOf]

/-- The `der` events are the same multiset. -/
theorem DelayD.mem_iff {a b : List (Ev TK)} (h : DelayD a b) (e : Ev TK) : e ∈ b ↔ e ∈ a :=
  h.perm.mem_iff

theorem queueEvs_append (q1 q2 : List (TCommit K V TK)) :
    (q1 ++ q2).flatMap TCommit.evs = q1.flatMap TCommit.evs ++ q2.flatMap TCommit.evs := by
  simp

/-- `wouldDefer` is the deferral test of `process`. -/
theorem wouldDefer_eq (s : TSt K V TK) (c : TCommit K V TK) (rest : List (TCommit K V TK))
    (hp : s.pend = none) (hq : s.queue = c :: rest) :
    wouldDefer s = c.derefs.any (mustDefer s rest) := by
  simp [wouldDefer, headOf, hp, hq]

/-- Invariant of `gstep .patched`: the publication pipeline (published, planned, queued) holds
    the events of the commit-return history with only dereferences delayed. -/
theorem pipeline_patched_step (kind : K → Kind) (fuel : Nat) (s : TSt K V TK) (g : Ghost TK)
    (a : TAct K V TK) (h : DelayD g.hist (g.done ++ pendEvs s ++ queueEvs s)) :
    DelayD (gstep .patched kind fuel (s, g) a).2.hist
      ((gstep .patched kind fuel (s, g) a).2.done ++ pendEvs (gstep .patched kind fuel (s, g) a).1 ++
        queueEvs (gstep .patched kind fuel (s, g) a).1) := by
  cases a with
  | commit ops derefs inserts =>
    simp only [gstep, gUpd, tstep_commit_eq]
    split
    · have := DelayD.snoc (evsOf inserts derefs) h
      simpa [pendEvs, queueEvs, TCommit.evs, List.append_assoc] using this
    · exact h
  | process =>
    simp only [gstep, gUpd, tstep, process]
    split
    · rename_i c rest hp hq
      simp only [pendEvs, queueEvs, hp, hq, List.flatMap_cons, Option.map_none, Option.getD_none,
        List.append_nil] at h
      split
      · split
        · rename_i hem
          simp only [Bool.and_eq_true, List.isEmpty_iff] at hem
          have hc : c.evs = c.derefs.map Ev.der := by simp [TCommit.evs, evsOf, hem.2]
          rw [hc] at h
          have h1 : DelayD g.hist (g.done ++ (c.derefs.map Ev.der ++ (rest.flatMap TCommit.evs ++ []))) := by
            simpa using h
          have h2 := DelayD.block c.derefs g.done (rest.flatMap TCommit.evs) [] h1
          simpa [pendEvs, queueEvs, hp, hc] using h2
        · have hc : c.evs = c.inserts.map Ev.ins ++ c.derefs.map Ev.der := rfl
          rw [hc] at h
          have h1 : DelayD g.hist ((g.done ++ c.inserts.map Ev.ins) ++
              (c.derefs.map Ev.der ++ (rest.flatMap TCommit.evs ++ []))) := by
            simpa [List.append_assoc] using h
          have h2 := DelayD.block c.derefs (g.done ++ c.inserts.map Ev.ins)
            (rest.flatMap TCommit.evs) [] h1
          simpa [pendEvs, queueEvs, TCommit.evs, evsOf, List.append_assoc] using h2
      · simpa [pendEvs, queueEvs, List.append_assoc] using h
    · exact h
  | publish =>
    simp only [gstep, gUpd, tstep, publish]
    split
    · rename_i hp
      simpa [pendEvs, hp] using h
    · rename_i c hp
      simpa [pendEvs, queueEvs, hp, List.append_assoc] using h
  | lock key =>
    simp only [gstep, gUpd, tstep]
    split
    · exact h
    · exact h
  | unlock key => exact h

theorem pipeline_patched (kind : K → Kind) (fuel : Nat) (s : TSt K V TK) (g : Ghost TK)
    (as : List (TAct K V TK)) (h : DelayD g.hist (g.done ++ pendEvs s ++ queueEvs s)) :
    DelayD (grun .patched kind fuel (s, g) as).2.hist
      ((grun .patched kind fuel (s, g) as).2.done ++ pendEvs (grun .patched kind fuel (s, g) as).1 ++
        queueEvs (grun .patched kind fuel (s, g) as).1) := by
  induction as generalizing s g with
  | nil => exact h
  | cons a as ih =>
    rw [grun_cons]
    exact ih _ _ (pipeline_patched_step kind fuel s g a h)

theorem pipeline_patched_init (kind : K → Kind) (fuel : Nat) (as : List (TAct K V TK)) :
    DelayD (grun .patched kind fuel ((TSt.init : TSt K V TK), Ghost.init) as).2.hist
      ((grun .patched kind fuel ((TSt.init : TSt K V TK), Ghost.init) as).2.done ++
        pendEvs (grun .patched kind fuel ((TSt.init : TSt K V TK), Ghost.init) as).1 ++
        queueEvs (grun .patched kind fuel ((TSt.init : TSt K V TK), Ghost.init) as).1) :=
  pipeline_patched kind fuel TSt.init Ghost.init as (DelayD.refl _)

/-! ### runs without deferral: the pipeline is FIFO (any variant) -/

theorem pipeline_noDeferral_step (var : Variant) (kind : K → Kind) (fuel : Nat) (s : TSt K V TK)
    (g : Ghost TK) (a : TAct K V TK) (hn : (isProcess a && wouldDefer s) = false)
    (h : g.hist = g.done ++ pendEvs s ++ queueEvs s) :
    (gstep var kind fuel (s, g) a).2.hist =
      (gstep var kind fuel (s, g) a).2.done ++ pendEvs (gstep var kind fuel (s, g) a).1 ++
        queueEvs (gstep var kind fuel (s, g) a).1 := by
  cases a with
  | commit ops derefs inserts =>
    simp only [gstep, gUpd, tstep_commit_eq]
    split
    · simp only [h]
      simp [pendEvs, queueEvs, TCommit.evs, List.append_assoc]
    · exact h
  | process =>
    simp only [gstep, gUpd, tstep, process]
    split
    · rename_i c rest hp hq
      have hw : c.derefs.any (mustDefer s rest) = false := by
        rw [← wouldDefer_eq s c rest hp hq]
        simpa [isProcess] using hn
      simp only [hw, Bool.false_eq_true, if_false]
      simp only [pendEvs, queueEvs, hp, hq, List.flatMap_cons, Option.map_none, Option.getD_none,
        List.append_nil] at h
      simpa [pendEvs, queueEvs, List.append_assoc] using h
    · exact h
  | publish =>
    simp only [gstep, gUpd, tstep, publish]
    split
    · rename_i hp
      simpa [pendEvs, hp] using h
    · rename_i c hp
      simpa [pendEvs, queueEvs, hp, List.append_assoc] using h
  | lock key =>
    simp only [gstep, gUpd, tstep]
    split
    · exact h
    · exact h
  | unlock key => exact h

theorem pipeline_noDeferral (var : Variant) (kind : K → Kind) (fuel : Nat) (s : TSt K V TK)
    (g : Ghost TK) (as : List (TAct K V TK)) (hn : noDeferral var kind fuel s as = true)
    (h : g.hist = g.done ++ pendEvs s ++ queueEvs s) :
    (grun var kind fuel (s, g) as).2.hist =
      (grun var kind fuel (s, g) as).2.done ++ pendEvs (grun var kind fuel (s, g) as).1 ++
        queueEvs (grun var kind fuel (s, g) as).1 := by
  induction as generalizing s g with
  | nil => exact h
  | cons a as ih =>
    simp only [noDeferral, Bool.and_eq_true, Bool.not_eq_true'] at hn
    rw [grun_cons]
    exact ih _ _ hn.2 (pipeline_noDeferral_step var kind fuel s g a hn.1 h)

theorem noDeferral_deferredKeys_step (var : Variant) (kind : K → Kind) (fuel : Nat)
    (s : TSt K V TK) (a : TAct K V TK) (hn : (isProcess a && wouldDefer s) = false)
    (h : s.deferredKeys = []) : (tstep var kind fuel s a).deferredKeys = [] := by
  cases a with
  | commit ops derefs inserts =>
    rw [tstep_commit_eq]
    split
    · exact h
    · exact h
  | process =>
    simp only [tstep, process]
    split
    · rename_i c rest hp hq
      have hw : c.derefs.any (mustDefer s rest) = false := by
        rw [← wouldDefer_eq s c rest hp hq]
        simpa [isProcess] using hn
      simp only [hw, Bool.false_eq_true, if_false]
      exact h
    · exact h
  | publish =>
    simp only [tstep, publish]
    split
    · exact h
    · exact h
  | lock key =>
    simp only [tstep]
    split
    · exact h
    · exact h
  | unlock key => exact h

/-- Without deferral no commit is re-queued whole. -/
theorem noDeferral_deferredKeys (var : Variant) (kind : K → Kind) (fuel : Nat) (s : TSt K V TK)
    (as : List (TAct K V TK)) (hn : noDeferral var kind fuel s as = true)
    (h : s.deferredKeys = []) : (trun var kind fuel s as).deferredKeys = [] := by
  induction as generalizing s with
  | nil => exact h
  | cons a as ih =>
    simp only [noDeferral, Bool.and_eq_true, Bool.not_eq_true'] at hn
    rw [trun_cons]
    exact ih _ hn.2 (noDeferral_deferredKeys_step var kind fuel s a hn.1 h)

/-! ### final theorems: drained runs from the initial state -/

/-- Patched variant, drained run: the published forest is the sequential application of the
    publication history, which is the commit-return history with only dereferences delayed. -/
theorem forest_patched (kind : K → Kind) (fuel : Nat) (as : List (TAct K V TK)) :
    let p := grun .patched kind fuel ((TSt.init : TSt K V TK), Ghost.init) as
    p.1.queue = [] → p.1.pend = none →
      p.1.forest = seqForest fuel p.2.done ∧ DelayD p.2.hist p.2.done := by
  intro p hq hp
  refine ⟨forest_done_init .patched kind fuel as, ?_⟩
  have h1 := pipeline_patched_init (K := K) (V := V) (TK := TK) kind fuel as
  have hq' : (grun .patched kind fuel ((TSt.init : TSt K V TK), Ghost.init) as).1.queue = [] := hq
  have hp' : (grun .patched kind fuel ((TSt.init : TSt K V TK), Ghost.init) as).1.pend = none := hp
  simp only [pendEvs, queueEvs, hq', hp', Option.map_none, Option.getD_none, List.flatMap_nil,
    List.append_nil] at h1
  exact h1

/-- Any variant, drained run without deferral: the published forest is the sequential
    application of all accepted transactions in commit-return order. -/
theorem forest_noDeferral (var : Variant) (kind : K → Kind) (fuel : Nat)
    (as : List (TAct K V TK)) :
    noDeferral var kind fuel (TSt.init : TSt K V TK) as = true →
    let p := grun var kind fuel ((TSt.init : TSt K V TK), Ghost.init) as
    p.1.queue = [] → p.1.pend = none → p.1.forest = seqForest fuel p.2.hist := by
  intro hn p hq hp
  have h1 := pipeline_noDeferral var kind fuel (TSt.init : TSt K V TK) Ghost.init as hn rfl
  have hq' : (grun var kind fuel ((TSt.init : TSt K V TK), Ghost.init) as).1.queue = [] := hq
  have hp' : (grun var kind fuel ((TSt.init : TSt K V TK), Ghost.init) as).1.pend = none := hp
  simp only [pendEvs, queueEvs, hq', hp', Option.map_none, Option.getD_none, List.flatMap_nil,
    List.append_nil] at h1
  show (grun var kind fuel ((TSt.init : TSt K V TK), Ghost.init) as).1.forest =
    seqForest fuel (grun var kind fuel ((TSt.init : TSt K V TK), Ghost.init) as).2.hist
  rw [h1]
  exact forest_done_init var kind fuel as

/-- Any variant, drained run without deferral: the ordinary columns are the specification of
    all accepted transactions in commit-return order. -/
theorem order_noDeferral (var : Variant) (kind : K → Kind) (fuel : Nat)
    (as : List (TAct K V TK)) :
    noDeferral var kind fuel (TSt.init : TSt K V TK) as = true →
    let s := trun var kind fuel (TSt.init : TSt K V TK) as
    s.queue = [] → s.pend = none → s.tbl = spec kind s.hist := by
  intro hn s hq hp
  funext k
  have hd : s.deferredKeys = [] := noDeferral_deferredKeys var kind fuel TSt.init as hn rfl
  exact OInv.final (OInv.run (OInv.init kind) as) hq hp k (by rw [hd]; simp)

#print axioms forest_patched
#print axioms forest_noDeferral
#print axioms order_noDeferral
#print axioms pipeline_patched

end Tr
end CRd
end Pdb
