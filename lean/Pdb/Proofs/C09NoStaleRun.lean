/-
C09 / C14 / C20: `NoStale` is preserved by reindex batches, `DropTable`, reopen / recovery and
re-launched growths, hence by every history of the fixed code (`NoStale_run`).
-/
import Pdb.Proofs.C09NoStaleWrite

namespace Pdb.Index
open Pdb.Gen Pdb.IndexPage

/-! ## the reindex plan consists of entries of the source table -/

theorem collectChunk_src (b c : Nat) (page : List Nat) (x : Nat × Nat)
    (hx : x ∈ collectChunk b c page) :
    ∃ i, i < page.length ∧ page.getD i 0 ≠ 0 ∧
      x = (recover_index_key b c (page.getD i 0), Entry.address (page.getD i 0) b) := by
  unfold collectChunk at hx
  rw [List.mem_filterMap] at hx
  obtain ⟨e, he, hf⟩ := hx
  by_cases h0 : e = 0
  · rw [if_pos h0] at hf; cases hf
  · rw [if_neg h0] at hf
    injection hf with hf
    obtain ⟨i, hi, hget⟩ := List.getElem_of_mem he
    have hd : page.getD i 0 = e := by
      rw [List.getD_eq_getElem?_getD, List.getElem?_eq_getElem hi, hget]; rfl
    exact ⟨i, hi, by rw [hd]; exact h0, by rw [hd]; exact hf.symm⟩

theorem collectPlan_src (t : Table) : ∀ (f c : Nat) (acc : List (Nat × Nat)) (n : Nat),
    ∀ x ∈ (collectPlan t f c acc n).1, x ∈ acc ∨
      ∃ c', c' < total_chunks t.bits ∧ x ∈ collectChunk t.bits c' (t.page c') := by
  intro f
  induction f with
  | zero => intro c acc n x hx; exact Or.inl hx
  | succ f ih =>
    intro c acc n x hx
    unfold collectPlan at hx
    by_cases hc : c < total_chunks t.bits ∧ n < MAX_REINDEX_BATCH
    · simp only [hc, and_self, if_true] at hx
      rcases ih _ _ _ x hx with h1 | h1
      · rcases List.mem_append.1 h1 with h2 | h2
        · exact Or.inr ⟨c, hc.1, List.mem_reverse.1 h2⟩
        · exact Or.inl h2
      · exact Or.inr h1
    · simp only [hc, if_false] at hx
      exact Or.inl hx

/-- every element of a reindex plan is an entry of the source table, under a 64-bit prefix -/
theorem plan_src (t0 : Table) (hwf : TableWF t0) (f c n : Nat) (x : Nat × Nat)
    (hx : x ∈ (collectPlan t0 f c [] n).1) : x.1 < 2 ^ 64 ∧ t0.Has x.1 x.2 := by
  rcases collectPlan_src t0 f c [] n x hx with h1 | ⟨c', hc', h1⟩
  · cases h1
  · obtain ⟨i, hi, hne, hx'⟩ := collectChunk_src _ _ _ x h1
    have hpw := hwf.pages c'
    have hi64 : i < 64 := by rw [hpw.1] at hi; exact hi
    have helt : (t0.page c').getD i 0 < 2 ^ 64 := by
      apply hpw.2
      rw [List.getD_eq_getElem?_getD, List.getElem?_eq_getElem hi]
      exact List.getElem_mem hi
    obtain ⟨r1, r2, r3⟩ := recover_inv t0.bits c' _ hwf.lo hwf.hi hc' helt
    rw [hx']
    refine ⟨r1, i, hi64, ?_, ?_⟩
    · show BaseMatch t0.bits _ (t0.page (chunk_index t0.bits _)) i
      rw [r2]
      exact ⟨r3.symm, hne⟩
    · show Entry.address ((t0.page (chunk_index t0.bits _)).getD i 0) t0.bits = _
      rw [r2]

/-! ## one reindex step -/

theorem containsAddr_complete (s : Col) (kp a : Nat) (hwf : TableWF s.current)
    (h : s.current.Has kp a) : containsAddr s kp a = true := by
  obtain ⟨j, hj, hm, ha⟩ := h
  unfold containsAddr
  exact scanPage_complete s.cfg.exact s.current.bits kp _ _ hwf.hi (hwf.pages _).2 j hj hm
    (by rw [ha]; simp) SCAN_FUEL 0 (Nat.zero_le _) (by simp [SCAN_FUEL, INDEX_CHUNK_ENTRIES]; omega)

theorem NoStale.progress {s : Col} (h : NoStale s) (p : Nat) : NoStale { s with progress := p } :=
  ⟨h.live, h.agree, h.uniq⟩

theorem writeReindex_ns {s s' : Col} (hS : Shape s) (hN : NoStale s) (kp a : Nat)
    (hkp : kp < 2 ^ 64) (hsrc : ∃ t ∈ s.tables, t.Has kp a)
    (h : writeReindex s kp a = .ok s') (hb : s'.current.bits ≤ 49) :
    Shape s' ∧ NoStale s' ∧ Ext s s' := by
  unfold writeReindex at h
  by_cases hc : containsAddr s kp a = true
  · simp only [hc, if_true] at h
    injection h with h; subst h
    exact ⟨hS, hN, Ext.refl s⟩
  · simp only [hc] at h
    have hno : ¬ s.current.Has kp a :=
      fun hh => hc (containsAddr_complete s kp a (hS.wf _ (by simp [Col.tables])) hh)
    obtain ⟨hE, hS', _⟩ := insertLoop_ok kp a _ s s' hS h hb
    obtain ⟨r1, r2, r3⟩ := insertLoop_ns kp a hkp _ s s' hS h hb hN.uniq hno
    refine ⟨hS', hN.mono (fun x => hE.tailAt x) r1 (fun t' ht' kp' x hkp' hh => ?_), hE⟩
    have ht'' : t' = s'.current ∨ t' ∈ s'.older := List.mem_cons.1 ht'
    rcases ht'' with e | e
    · rw [e] at hh
      rcases r3 kp' x hkp' hh with h1 | ⟨h1, h2⟩
      · exact ⟨s.current, by simp [Col.tables], kp', hkp', h1, rfl⟩
      · obtain ⟨t, ht, hht⟩ := hsrc
        exact ⟨t, ht, kp, hkp, by rw [h1]; exact hht, h2.symm⟩
    · rcases r2 t' e with h1 | h1
      · exact ⟨t', h1, kp', hkp', hh, rfl⟩
      · exact absurd hh (h1 kp' x)

theorem applyPlan_ns (t0 : Table) : ∀ (plan : List (Nat × Nat)) (s s' : Col), Shape s → NoStale s →
    t0 ∈ s.older → (∀ x ∈ plan, x.1 < 2 ^ 64 ∧ t0.Has x.1 x.2) → applyPlan s plan = .ok s' →
    s'.current.bits ≤ 49 → Shape s' ∧ NoStale s' ∧ Ext s s' := by
  intro plan
  induction plan with
  | nil =>
    intro s s' hS hN _ _ h _
    simp only [applyPlan] at h
    injection h with h; subst h
    exact ⟨hS, hN, Ext.refl s⟩
  | cons x rest ih =>
    intro s s' hS hN ht0 hsrc h hb
    obtain ⟨kp, a⟩ := x
    simp only [applyPlan] at h
    obtain ⟨s1, h1, h2⟩ := Res.bind_ok h
    have hb1 : s1.current.bits ≤ 49 := Nat.le_trans (applyPlan_bits rest s1 s' h2) hb
    have hx := hsrc (kp, a) (by simp)
    obtain ⟨hS1, hN1, hE1⟩ := writeReindex_ns hS hN kp a hx.1
      ⟨t0, by simp [Col.tables]; exact Or.inr ht0, hx.2⟩ h1 hb1
    have ht01 : t0 ∈ s1.older := by
      obtain ⟨pushed, ho, _⟩ := hE1.tables
      rw [ho]; exact List.mem_append_left _ ht0
    obtain ⟨hS2, hN2, hE2⟩ := ih s1 s' hS1 hN1 ht01
      (fun y hy => hsrc y (List.mem_cons_of_mem _ hy)) h2 hb
    exact ⟨hS2, hN2, hE1.trans hE2⟩

theorem SlotInv.ext {s s' : Col} (h : SlotInv s) (hE : Ext s s') : SlotInv s' :=
  h.congr (fun t => by simp only [Col.tier, hE.tiers]) (fun x => hE.tailAt x)

/-- One `process_reindex` batch keeps "no stale index entry". -/
theorem reindexBatch_ns {s s' : Col} (hS : Shape s) (hSl : SlotInv s) (hN : NoStale s)
    (h : reindexBatch s = .ok s') (hB : Bounded s') : Shape s' ∧ SlotInv s' ∧ NoStale s' := by
  unfold reindexBatch at h
  cases hol : s.older with
  | nil =>
    rw [hol] at h
    simp only at h
    injection h with h; subst h
    exact ⟨hS, hSl, hN⟩
  | cons t0 rest =>
    rw [hol] at h
    simp only at h
    by_cases hp : s.progress = total_chunks t0.bits
    · simp only [hp, if_true] at h
      injection h with h; subst h
      exact ⟨hS, hSl, hN⟩
    · simp only [hp, if_false] at h
      generalize hplan : collectPlan t0 (total_chunks t0.bits - s.progress) s.progress [] 0 = r at h
      rw [← hol] at h
      have ht0 : t0 ∈ s.older := by rw [hol]; simp
      have hwf0 : TableWF t0 := hS.wf t0 (by simp [Col.tables]; exact Or.inr ht0)
      have hSp : Shape ({ s with progress := r.2 } : Col) := ⟨hS.wf, hS.order⟩
      obtain ⟨hS', hN', hE⟩ := applyPlan_ns t0 r.1.reverse _ s' hSp (hN.progress r.2) ht0
        (fun x hx => by
          have := plan_src t0 hwf0 (total_chunks t0.bits - s.progress) s.progress 0 x
          rw [hplan] at this
          exact this (List.mem_reverse.1 hx)) h hB.bits
      have hSlp : SlotInv ({ s with progress := r.2 } : Col) := hSl.congr (fun _ => rfl) (fun _ => rfl)
      exact ⟨hS', hSlp.ext hE, hN'⟩

/-! ## `DropTable`, reopen, re-launched growth -/

theorem enactDrop_ns {s : Col} (hS : Shape s) (hSl : SlotInv s) (hN : NoStale s) :
    Shape (enactDrop s) ∧ SlotInv (enactDrop s) ∧ NoStale (enactDrop s) := by
  unfold enactDrop
  by_cases hd : dropPending s = true
  · simp only [hd, if_true]
    obtain ⟨t0, rest, hol, _⟩ := (dropPending_iff s).1 hd
    have hsub : ∀ t ∈ ({ s with older := s.older.tail, progress := 0 } : Col).tables, t ∈ s.tables := by
      intro t ht
      simp only [Col.tables] at ht ⊢
      rcases List.mem_cons.1 ht with e | e
      · rw [e]; simp
      · exact List.mem_cons_of_mem _ (List.mem_of_mem_tail e)
    refine ⟨⟨fun t ht => hS.wf t (hsub t ht), ?_⟩, hSl.congr (fun _ => rfl) (fun _ => rfl),
      hN.mono (fun _ => rfl) (fun t ht => hN.uniq t (hsub t ht))
        (fun t ht kp x hkp hh => ⟨t, hsub t ht, kp, hkp, hh, rfl⟩)⟩
    have := hS.order
    rw [hol] at this ⊢
    simp only [List.tail_cons, List.cons_append, List.map_cons] at this ⊢
    exact (List.pairwise_cons.1 this).2
  · simp only [hd]
    exact ⟨hS, hSl, hN⟩

theorem sort_files_shape {s : Col} (h : Shape s) :
    sortByBits ((s.current :: s.older).filter Table.hasFile) = s.files := by
  have hs : SortedBits (s.older ++ [s.current]) := h.order
  have hold : SortedBits s.older := by
    unfold SortedBits at hs ⊢
    simp only [List.map_append] at hs
    exact (List.pairwise_append.1 hs).1
  have hmax : ∀ u ∈ s.older, u.bits < s.current.bits := by
    intro u hu
    unfold SortedBits at hs
    simp only [List.map_append, List.map_cons, List.map_nil] at hs
    exact (List.pairwise_append.1 hs).2.2 u.bits (List.mem_map.2 ⟨u, hu, rfl⟩) s.current.bits (by simp)
  unfold Col.files
  rw [List.filter_append]
  by_cases hc : s.current.hasFile = true
  · simp only [List.filter_cons, hc, if_true, List.filter_nil]
    exact sortByBits_cons_max s.current _ (hold.filter _)
      (fun u hu => hmax u (List.mem_filter.1 hu).1)
  · have hc' : s.current.hasFile = false := by
      cases h0 : s.current.hasFile with
      | true => exact absurd h0 hc
      | false => rfl
    simp only [List.filter_cons, hc', List.filter_nil, Bool.false_eq_true, if_false, List.append_nil]
    exact sortByBits_sorted _ (hold.filter _)

theorem reopen_cases_shape {s : Col} (h : Shape s) :
    (s.files = [] ∧ reopen s = { s with current := Table.new MIN_INDEX_BITS, older := [], progress := 0 }) ∨
    (∃ init last, s.files = init ++ [last] ∧
      reopen s = { s with current := last, older := init, progress := 0 }) := by
  unfold reopen openIndex
  simp only [sort_files_shape h]
  cases hl : s.files.getLast? with
  | none =>
    left
    exact ⟨List.getLast?_eq_none_iff.1 hl, rfl⟩
  | some last =>
    right
    obtain ⟨ys, hys⟩ := List.getLast?_eq_some_iff.1 hl
    refine ⟨ys, last, hys, ?_⟩
    rw [hys, List.dropLast_concat]

theorem reopen_ns {s : Col} (hS : Shape s) (hSl : SlotInv s) (hN : NoStale s) :
    Shape (reopen s) ∧ SlotInv (reopen s) ∧ NoStale (reopen s) := by
  rcases reopen_cases_shape hS with ⟨_, e⟩ | ⟨init, last, hf, e⟩
  · rw [e]
    refine ⟨⟨fun t ht => ?_, by simp⟩, hSl.congr (fun _ => rfl) (fun _ => rfl),
      hN.mono (fun _ => rfl) (fun t ht => ?_) (fun t ht kp x _ hh => ?_)⟩
    · have : t = Table.new MIN_INDEX_BITS := by simpa [Col.tables] using ht
      rw [this]; exact TableWF.new _ (by decide) (by decide)
    · have : t = Table.new MIN_INDEX_BITS := by simpa [Col.tables] using ht
      rw [this]; exact Table.Uniq.new _
    · have : t = Table.new MIN_INDEX_BITS := by simpa [Col.tables] using ht
      rw [this] at hh; exact absurd hh (Table.not_has_new _ _ _)
  · rw [e]
    have hsub : ∀ t ∈ ({ s with current := last, older := init, progress := 0 } : Col).tables,
        t ∈ s.tables := by
      intro t ht
      have h1 : t ∈ s.files := by
        rw [hf]
        simp only [Col.tables] at ht
        rcases List.mem_cons.1 ht with e1 | e1
        · rw [e1]; simp
        · exact List.mem_append_left _ e1
      have h2 := (List.mem_filter.1 h1).1
      simp only [Col.tables]
      rcases List.mem_append.1 h2 with e1 | e1
      · exact List.mem_cons_of_mem _ e1
      · have : t = s.current := by simpa using e1
        rw [this]; simp
    refine ⟨⟨fun t ht => hS.wf t (hsub t ht), ?_⟩, hSl.congr (fun _ => rfl) (fun _ => rfl),
      hN.mono (fun _ => rfl) (fun t ht => hN.uniq t (hsub t ht))
        (fun t ht kp x hkp hh => ⟨t, hsub t ht, kp, hkp, hh, rfl⟩)⟩
    show List.Pairwise (· < ·) ((init ++ [last]).map (·.bits))
    rw [← hf]
    exact List.Pairwise.sublist ((List.filter_sublist).map _) hS.order

theorem triggerReindex_ns {s : Col} (hS : Shape s) (hSl : SlotInv s) (hN : NoStale s)
    (hb : s.current.bits + 1 ≤ 49) :
    Shape (triggerReindex s) ∧ SlotInv (triggerReindex s) ∧ NoStale (triggerReindex s) := by
  have hsub : ∀ t ∈ (triggerReindex s).tables, t = Table.new (s.current.bits + 1) ∨ t ∈ s.tables := by
    intro t ht
    simp only [Col.tables, triggerReindex] at ht
    rcases List.mem_cons.1 ht with h1 | h1
    · exact Or.inl h1
    · right
      rcases List.mem_append.1 h1 with h2 | h2
      · simp [Col.tables, h2]
      · have : t = s.current := by simpa using h2
        simp [Col.tables, this]
  refine ⟨hS.trigger hb, hSl.congr (fun _ => rfl) (fun _ => rfl),
    hN.mono (fun _ => rfl) (fun t ht => ?_) (fun t ht kp x hkp hh => ?_)⟩
  · rcases hsub t ht with e | e
    · rw [e]; exact Table.Uniq.new _
    · exact hN.uniq t e
  · rcases hsub t ht with e | e
    · rw [e] at hh; exact absurd hh (Table.not_has_new _ _ _)
    · exact ⟨t, e, kp, hkp, hh, rfl⟩

/-! ## histories -/

/-- the invariants the induction is built around: well-formed tables with increasing bits, the
abstract slot invariant (a freshly allocated slot holds no value) and "no stale index entry" -/
structure GoodN (s : Col) : Prop where
  shape : Shape s
  slots : SlotInv s
  ns : NoStale s

/-- the code with the three C09 fixes -/
def FixedCfg (s : Col) : Prop :=
  s.cfg.exact = true ∧ s.cfg.growOnMove = true ∧ s.cfg.purge = true

/-- keys are 32-byte strings (prefix and tail overlap consistently), size tiers are real ones;
NO assumption that distinct keys have distinct tails -/
def ActWF : Action → Prop
  | .set k tier _ _ => KeyWF k ∧ tier < 256
  | .del k => KeyWF k
  | _ => True

theorem stepA_ns {s s' : Col} (hG : GoodN s) (hc : FixedCfg s) (a : Action) (ha : ActWF a)
    (h : stepA s a = .ok s') (hB : Bounded s') : GoodN s' := by
  obtain ⟨hS, hSl, hN⟩ := hG
  obtain ⟨hex, hgrow, hpu⟩ := hc
  cases a with
  | set k tier ext v =>
    obtain ⟨r1, r2, r3⟩ := write_ns hS hSl hN hex hgrow hpu k ha.1 (some (tier, ext, v))
      (fun t e' v' e => by injection e with e; injection e with e1 _; rw [← e1]; exact ha.2) h hB
    exact ⟨r1, r2, r3⟩
  | del k =>
    obtain ⟨r1, r2, r3⟩ := write_ns hS hSl hN hex hgrow hpu k ha none (fun t e' v' e => by cases e) h hB
    exact ⟨r1, r2, r3⟩
  | reindex =>
    obtain ⟨r1, r2, r3⟩ := reindexBatch_ns hS hSl hN h hB
    exact ⟨r1, r2, r3⟩
  | enact =>
    simp only [stepA] at h
    injection h with h; subst h
    obtain ⟨r1, r2, r3⟩ := enactDrop_ns hS hSl hN
    exact ⟨r1, r2, r3⟩
  | reopen =>
    simp only [stepA] at h
    injection h with h; subst h
    obtain ⟨r1, r2, r3⟩ := reopen_ns hS hSl hN
    exact ⟨r1, r2, r3⟩
  | relaunch =>
    simp only [stepA] at h
    injection h with h; subst h
    have := hB.bits
    simp only [triggerReindex, Table.new] at this
    obtain ⟨r1, r2, r3⟩ := triggerReindex_ns hS hSl hN this
    exact ⟨r1, r2, r3⟩

theorem FixedCfg.step {s s' : Col} (hc : FixedCfg s) (a : Action) (h : stepA s a = .ok s') :
    FixedCfg s' := by
  unfold FixedCfg at hc ⊢
  rw [stepA_cfg s s' a h]; exact hc

theorem runA_ns : ∀ (acts : List Action) (s s' : Col), GoodN s → FixedCfg s →
    (∀ a ∈ acts, ActWF a) → AllBounded s acts → runA s acts = .ok s' → GoodN s' := by
  intro acts
  induction acts with
  | nil =>
    intro s s' hG _ _ _ h
    simp only [runA] at h
    injection h with h; subst h
    exact hG
  | cons a as ih =>
    intro s s' hG hc hact hb h
    simp only [runA] at h
    obtain ⟨s1, h1, h2⟩ := Res.bind_ok h
    obtain ⟨hB1, hb1⟩ := hb s1 h1
    exact ih s1 s' (stepA_ns hG hc a (hact a (by simp)) h1 hB1) (hc.step a h1)
      (fun a' ha' => hact a' (List.mem_cons_of_mem _ ha')) hb1 h2

theorem init_goodN (cfg : Cfg) (b : Nat) (h1 : 16 ≤ b) (h2 : b ≤ 49) : GoodN (Col.init cfg b) := by
  have hG := init_good (fun _ => True) cfg b h1 h2
  refine ⟨hG.idx.shape, hG.slots, ⟨fun t ht kp a _ hh => ?_, fun t1 ht1 _ _ kp1 _ a _ _ hh _ => ?_,
    fun t ht => ?_⟩⟩
  · have : t = Table.new b := by simpa [Col.tables, Col.init] using ht
    rw [this] at hh; exact absurd hh (Table.not_has_new _ _ _)
  · have : t1 = Table.new b := by simpa [Col.tables, Col.init] using ht1
    rw [this] at hh; exact absurd hh (Table.not_has_new _ _ _)
  · have : t = Table.new b := by simpa [Col.tables, Col.init] using ht
    rw [this]; exact Table.Uniq.new _

end Pdb.Index
