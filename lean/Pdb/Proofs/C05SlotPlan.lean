/-
The planner of the slot-level model: representation invariant `Rep` (the view represents a
key-level table; distinct keys own distinct slots; the allocator never hands out an occupied
slot) and its preservation by `planOp` / `planOps`; the FRAME property used by the reader proof
(`Stab`: a record that does not write key `k` leaves `k`'s index entry and `k`'s slot alone,
in every one of its location writes); provenance of slot contents.
-/
import Pdb.Proofs.C05SlotKey

set_option linter.unusedSectionVars false
set_option linter.unusedSimpArgs false
set_option linter.unusedVariables false
namespace Pdb
namespace CSlot
variable {K V : Type} [DecidableEq K]

/-! ### slot functions and the allocator -/

def setSlot (sl : Addr → Option (K × V)) (a : Addr) (x : Option (K × V)) :
    Addr → Option (K × V) := fun a' => if a' = a then x else sl a'

theorem setSlot_same (sl : Addr → Option (K × V)) (a : Addr) (x : Option (K × V)) :
    setSlot sl a x a = x := by simp [setSlot]

theorem setSlot_other (sl : Addr → Option (K × V)) (a a' : Addr) (x : Option (K × V))
    (h : a' ≠ a) : setSlot sl a x a' = sl a' := by simp [setSlot, h]

theorem apply_slot_slot (pv : PV K V) (a : Addr) (x : Option (K × V)) :
    (pv.apply (.slot a x)).slot = setSlot pv.slot a x := rfl
theorem apply_slot_chunk (pv : PV K V) (a : Addr) (x : Option (K × V)) :
    (pv.apply (.slot a x)).chunk = pv.chunk := rfl
theorem apply_chunk_slot (pv : PV K V) (c : Nat) (x : List (K × Addr)) :
    (pv.apply (.chunk c x)).slot = pv.slot := rfl
theorem apply_chunk_chunk (pv : PV K V) (c c' : Nat) (x : List (K × Addr)) :
    (pv.apply (.chunk c x)).chunk c' = if c' = c then x else pv.chunk c' := rfl

structure AllocOk (al : Alloc) (sl : Addr → Option (K × V)) : Prop where
  freeEmpty : ∀ t o, o ∈ al.free t → sl (t, o) = none
  aboveEmpty : ∀ t o, al.filled t ≤ o → sl (t, o) = none
  freeNodup : ∀ t, (al.free t).Nodup
  freeLt : ∀ t o, o ∈ al.free t → o < al.filled t

theorem AllocOk.take_none {al : Alloc} {sl : Addr → Option (K × V)} (h : AllocOk al sl)
    (t : Nat) : sl (al.take t).1 = none := by
  unfold Alloc.take
  cases hf : al.free t with
  | nil => simp only; exact h.aboveEmpty t _ (Nat.le_refl _)
  | cons o rest => simp only; exact h.freeEmpty t o (by rw [hf]; exact List.mem_cons_self)

theorem AllocOk.take {al : Alloc} {sl : Addr → Option (K × V)} (h : AllocOk al sl)
    (t : Nat) (x : Option (K × V)) :
    AllocOk (al.take t).2 (setSlot sl (al.take t).1 x) := by
  unfold Alloc.take
  cases hf : al.free t with
  | nil =>
    simp only
    constructor
    · intro t' o' ho
      simp only at ho
      have hlt := h.freeLt t' o' ho
      have : (t', o') ≠ (t, al.filled t) := by
        intro e
        simp only [Prod.mk.injEq] at e
        rw [e.1, e.2] at hlt
        omega
      rw [setSlot_other _ _ _ _ this]
      exact h.freeEmpty t' o' ho
    · intro t' o' ho
      simp only at ho
      by_cases e : t' = t
      · subst e
        simp only [if_true] at ho
        have : (t', o') ≠ (t', al.filled t') := by
          intro e
          simp only [Prod.mk.injEq, true_and] at e
          omega
        rw [setSlot_other _ _ _ _ this]
        exact h.aboveEmpty t' o' (by omega)
      · simp only [e, if_false] at ho
        have : (t', o') ≠ (t, al.filled t) := by
          intro e2
          simp only [Prod.mk.injEq] at e2
          exact e e2.1
        rw [setSlot_other _ _ _ _ this]
        exact h.aboveEmpty t' o' ho
    · exact h.freeNodup
    · intro t' o' ho
      simp only at ho ⊢
      have := h.freeLt t' o' ho
      by_cases e : t' = t
      · subst e; simp only [if_true]; omega
      · simp only [e, if_false]; exact this
  | cons o rest =>
    simp only
    have hnd := h.freeNodup t
    rw [hf, List.nodup_cons] at hnd
    constructor
    · intro t' o' ho
      simp only at ho
      by_cases e : t' = t
      · subst e
        simp only [if_true] at ho
        have : (t', o') ≠ (t', o) := by
          intro e
          simp only [Prod.mk.injEq, true_and] at e
          subst e
          exact hnd.1 ho
        rw [setSlot_other _ _ _ _ this]
        exact h.freeEmpty t' o' (by rw [hf]; exact List.mem_cons_of_mem _ ho)
      · simp only [e, if_false] at ho
        have : (t', o') ≠ (t, o) := by
          intro e2
          simp only [Prod.mk.injEq] at e2
          exact e e2.1
        rw [setSlot_other _ _ _ _ this]
        exact h.freeEmpty t' o' ho
    · intro t' o' ho
      simp only at ho
      have hlt := h.freeLt t o (by rw [hf]; exact List.mem_cons_self)
      have : (t', o') ≠ (t, o) := by
        intro e
        simp only [Prod.mk.injEq] at e
        rw [e.1, e.2] at ho
        omega
      rw [setSlot_other _ _ _ _ this]
      exact h.aboveEmpty t' o' ho
    · intro t'
      simp only
      by_cases e : t' = t
      · subst e; simp only [if_true]; exact hnd.2
      · simp only [e, if_false]; exact h.freeNodup t'
    · intro t' o' ho
      simp only at ho ⊢
      by_cases e : t' = t
      · subst e
        simp only [if_true] at ho
        exact h.freeLt t' o' (by rw [hf]; exact List.mem_cons_of_mem _ ho)
      · simp only [e, if_false] at ho
        exact h.freeLt t' o' ho

theorem AllocOk.release {al : Alloc} {sl : Addr → Option (K × V)} (h : AllocOk al sl)
    (a : Addr) (y : K × V) (hs : sl a = some y) :
    AllocOk (al.release a) (setSlot sl a none) := by
  have hnotfree : a.2 ∉ al.free a.1 := by
    intro hm
    have := h.freeEmpty a.1 a.2 hm
    rw [hs] at this
    exact absurd this (by simp)
  have hlt : a.2 < al.filled a.1 := by
    apply Nat.lt_of_not_le
    intro hle
    have := h.aboveEmpty a.1 a.2 hle
    rw [hs] at this
    exact absurd this (by simp)
  have hnone : ∀ a', sl a' = none → setSlot sl a none a' = none := by
    intro a' h'
    unfold setSlot
    by_cases e : a' = a <;> simp [e, h']
  unfold Alloc.release
  constructor
  · intro t o ho
    simp only at ho
    by_cases e : t = a.1
    · simp only [e, if_true, List.mem_cons] at ho
      rcases ho with ho | ho
      · have : (t, o) = a := by rw [e, ho]
        rw [this, setSlot_same]
      · exact hnone _ (h.freeEmpty t o (by rw [e]; exact ho))
    · simp only [e, if_false] at ho
      exact hnone _ (h.freeEmpty t o ho)
  · intro t o ho
    exact hnone _ (h.aboveEmpty t o ho)
  · intro t
    simp only
    by_cases e : t = a.1
    · simp only [e, if_true, List.nodup_cons]
      exact ⟨hnotfree, h.freeNodup a.1⟩
    · simp only [e, if_false]; exact h.freeNodup t
  · intro t o ho
    simp only at ho ⊢
    by_cases e : t = a.1
    · simp only [e, if_true, List.mem_cons] at ho
      rcases ho with ho | ho
      · rw [e, ho]; exact hlt
      · rw [e]; exact h.freeLt a.1 o ho
    · simp only [e, if_false] at ho
      exact h.freeLt t o ho

theorem AllocOk.overwrite {al : Alloc} {sl : Addr → Option (K × V)} (h : AllocOk al sl)
    (a : Addr) (y z : K × V) (hs : sl a = some y) : AllocOk al (setSlot sl a (some z)) := by
  have hne : ∀ a', sl a' = none → setSlot sl a (some z) a' = none := by
    intro a' h'
    have : a' ≠ a := by intro e; rw [e, hs] at h'; exact absurd h' (by simp)
    rw [setSlot_other _ _ _ _ this, h']
  constructor
  · intro t o ho; exact hne _ (h.freeEmpty t o ho)
  · intro t o ho; exact hne _ (h.aboveEmpty t o ho)
  · exact h.freeNodup
  · exact h.freeLt

/-! ### the representation invariant -/

structure Rep (chunkOf : K → Nat) (pv : PV K V) (al : Alloc) (T : Tbl K V) : Prop where
  present : ∀ k v n, T k = some (v, n) →
    ∃ a, findA k (pv.chunk (chunkOf k)) = some a ∧ pv.slot a = some (k, v)
  absent : ∀ k, T k = none → findA k (pv.chunk (chunkOf k)) = none
  entries : ∀ c k a, (k, a) ∈ pv.chunk c → chunkOf k = c ∧ ∃ v, pv.slot a = some (k, v)
  alloc : AllocOk al pv.slot

theorem Rep.init (chunkOf : K → Nat) :
    Rep chunkOf (PV.empty : PV K V) Alloc.init (fun _ => none) := by
  constructor
  · intro k v n h; simp at h
  · intro k _; rfl
  · intro c k a h; simp [PV.empty] at h
  · constructor
    · intro t o h; simp [Alloc.init] at h
    · intro t o _; rfl
    · intro t; simp [Alloc.init]
    · intro t o h; simp [Alloc.init] at h

theorem Rep.congrT {chunkOf : K → Nat} {pv : PV K V} {al : Alloc} {T T' : Tbl K V}
    (h : Rep chunkOf pv al T) (e : ∀ k, T' k = T k) : Rep chunkOf pv al T' := by
  constructor
  · intro k v n hT; rw [e] at hT; exact h.present k v n hT
  · intro k hT; rw [e] at hT; exact h.absent k hT
  · exact h.entries
  · exact h.alloc

theorem Rep.owner {chunkOf : K → Nat} {pv : PV K V} {al : Alloc} {T : Tbl K V}
    (h : Rep chunkOf pv al T) (k : K) (c : Nat) (a : Addr) (hf : findA k (pv.chunk c) = some a) :
    chunkOf k = c ∧ ∃ v, pv.slot a = some (k, v) :=
  h.entries c k a (findA_mem k _ a hf)

theorem Rep.owner_inj {chunkOf : K → Nat} {pv : PV K V} {al : Alloc} {T : Tbl K V}
    (h : Rep chunkOf pv al T) (k1 k2 : K) (c1 c2 : Nat) (a : Addr)
    (h1 : findA k1 (pv.chunk c1) = some a) (h2 : findA k2 (pv.chunk c2) = some a) : k1 = k2 := by
  obtain ⟨_, v1, e1⟩ := h.owner k1 c1 a h1
  obtain ⟨_, v2, e2⟩ := h.owner k2 c2 a h2
  rw [e1] at e2
  simp only [Option.some.injEq, Prod.mk.injEq] at e2
  exact e2.1

theorem Rep.present_of_find {chunkOf : K → Nat} {pv : PV K V} {al : Alloc} {T : Tbl K V}
    (h : Rep chunkOf pv al T) (k : K) (a : Addr)
    (hf : findA k (pv.chunk (chunkOf k)) = some a) :
    ∃ v n, T k = some (v, n) ∧ pv.slot a = some (k, v) := by
  cases hT : T k with
  | none => rw [h.absent k hT] at hf; exact absurd hf (by simp)
  | some x =>
    obtain ⟨v, n⟩ := x
    obtain ⟨a', hf', hs⟩ := h.present k v n hT
    rw [hf] at hf'
    simp only [Option.some.injEq] at hf'
    subst hf'
    exact ⟨v, n, rfl, hs⟩

theorem Rep.absent_of_find {chunkOf : K → Nat} {pv : PV K V} {al : Alloc} {T : Tbl K V}
    (h : Rep chunkOf pv al T) (k : K) (hf : findA k (pv.chunk (chunkOf k)) = none) :
    T k = none := by
  cases hT : T k with
  | none => rfl
  | some x =>
    obtain ⟨v, n⟩ := x
    obtain ⟨a', hf', hs⟩ := h.present k v n hT
    rw [hf] at hf'
    exact absurd hf' (by simp)

/-- rewriting a present key's slot in place -/
theorem Rep.inplace {chunkOf : K → Nat} {pv : PV K V} {al : Alloc} {T : Tbl K V}
    (h : Rep chunkOf pv al T) (k : K) (v : V) (a : Addr)
    (hf : findA k (pv.chunk (chunkOf k)) = some a) :
    Rep chunkOf (pv.apply (.slot a (some (k, v)))) al (upd T k (some (v, 1))) := by
  obtain ⟨_, v0, hs⟩ := h.owner k _ a hf
  constructor
  · intro k' v' n' hT
    by_cases e : k' = k
    · subst e
      rw [upd_same] at hT
      simp only [Option.some.injEq, Prod.mk.injEq] at hT
      refine ⟨a, hf, ?_⟩
      rw [apply_slot_slot, setSlot_same, hT.1]
    · rw [upd_other _ _ _ _ e] at hT
      obtain ⟨a', hf', hs'⟩ := h.present k' v' n' hT
      refine ⟨a', hf', ?_⟩
      have : a' ≠ a := by
        intro ea; subst ea
        exact e (h.owner_inj k' k _ _ a' hf' hf)
      rw [apply_slot_slot, setSlot_other _ _ _ _ this, hs']
  · intro k' hT
    by_cases e : k' = k
    · subst e; rw [upd_same] at hT; exact absurd hT (by simp)
    · rw [upd_other _ _ _ _ e] at hT; exact h.absent k' hT
  · intro c k' a' hm
    obtain ⟨hc, v', hs'⟩ := h.entries c k' a' hm
    refine ⟨hc, ?_⟩
    rw [apply_slot_slot]
    by_cases ea : a' = a
    · subst ea
      rw [hs] at hs'
      simp only [Option.some.injEq, Prod.mk.injEq] at hs'
      rw [setSlot_same, ← hs'.1]
      exact ⟨v, rfl⟩
    · rw [setSlot_other _ _ _ _ ea]; exact ⟨v', hs'⟩
  · rw [apply_slot_slot]; exact h.alloc.overwrite a (k, v0) (k, v) hs

/-- removing a present key: slot freed, entry removed -/
theorem Rep.remove {chunkOf : K → Nat} {pv : PV K V} {al : Alloc} {T : Tbl K V}
    (h : Rep chunkOf pv al T) (k : K) (a : Addr)
    (hf : findA k (pv.chunk (chunkOf k)) = some a) :
    Rep chunkOf ((pv.apply (.slot a none)).apply
        (.chunk (chunkOf k) (removeA k (pv.chunk (chunkOf k)))))
      (al.release a) (upd T k none) := by
  obtain ⟨_, v0, hs⟩ := h.owner k _ a hf
  constructor
  · intro k' v' n' hT
    by_cases e : k' = k
    · subst e; rw [upd_same] at hT; exact absurd hT (by simp)
    · rw [upd_other _ _ _ _ e] at hT
      obtain ⟨a', hf', hs'⟩ := h.present k' v' n' hT
      refine ⟨a', ?_, ?_⟩
      · rw [apply_chunk_chunk, apply_slot_chunk]
        by_cases ec : chunkOf k' = chunkOf k
        · simp only [ec, if_true]
          rw [findA_removeA_other k k' _ e, ← ec]; exact hf'
        · simp only [ec, if_false]; exact hf'
      · have : a' ≠ a := by
          intro ea; subst ea
          exact e (h.owner_inj k' k _ _ a' hf' hf)
        rw [apply_chunk_slot, apply_slot_slot, setSlot_other _ _ _ _ this, hs']
  · intro k' hT
    rw [apply_chunk_chunk, apply_slot_chunk]
    by_cases e : k' = k
    · subst e; simp only [if_true]; exact findA_removeA_self k' _
    · rw [upd_other _ _ _ _ e] at hT
      by_cases ec : chunkOf k' = chunkOf k
      · simp only [ec, if_true]
        rw [findA_removeA_other k k' _ e, ← ec]; exact h.absent k' hT
      · simp only [ec, if_false]; exact h.absent k' hT
  · intro c k' a' hm
    rw [apply_chunk_chunk, apply_slot_chunk] at hm
    have hold : (k', a') ∈ pv.chunk c ∧ k' ≠ k := by
      by_cases ec : c = chunkOf k
      · simp only [ec, if_true] at hm
        have := (mem_removeA k _ (k', a')).mp hm
        rw [ec]; exact this
      · simp only [ec, if_false] at hm
        refine ⟨hm, ?_⟩
        intro e
        have := (h.entries c k' a' hm).1
        rw [e] at this
        exact ec this.symm
    obtain ⟨hc, v', hs'⟩ := h.entries c k' a' hold.1
    refine ⟨hc, v', ?_⟩
    have : a' ≠ a := by
      intro ea; subst ea
      rw [hs] at hs'
      simp only [Option.some.injEq, Prod.mk.injEq] at hs'
      exact hold.2 hs'.1.symm
    rw [apply_chunk_slot, apply_slot_slot, setSlot_other _ _ _ _ this, hs']
  · rw [apply_chunk_slot, apply_slot_slot]
    exact h.alloc.release a (k, v0) hs

/-- inserting an absent key: new slot, new entry -/
theorem Rep.insert {chunkOf : K → Nat} {pv : PV K V} {al : Alloc} {T : Tbl K V}
    (h : Rep chunkOf pv al T) (k : K) (v : V) (t : Nat)
    (hf : findA k (pv.chunk (chunkOf k)) = none) :
    Rep chunkOf ((pv.apply (.slot (al.take t).1 (some (k, v)))).apply
        (.chunk (chunkOf k) (pv.chunk (chunkOf k) ++ [(k, (al.take t).1)])))
      (al.take t).2 (upd T k (some (v, 1))) := by
  have hnone := h.alloc.take_none t
  have hfree : ∀ a' y, pv.slot a' = some y → a' ≠ (al.take t).1 := by
    intro a' y hy e
    rw [e, hnone] at hy
    exact absurd hy (by simp)
  constructor
  · intro k' v' n' hT
    by_cases e : k' = k
    · subst e
      rw [upd_same] at hT
      simp only [Option.some.injEq, Prod.mk.injEq] at hT
      refine ⟨(al.take t).1, ?_, ?_⟩
      · rw [apply_chunk_chunk]
        simp only [if_true]
        rw [findA_append, hf]
        simp [findA]
      · rw [apply_chunk_slot, apply_slot_slot, setSlot_same, hT.1]
    · rw [upd_other _ _ _ _ e] at hT
      obtain ⟨a', hf', hs'⟩ := h.present k' v' n' hT
      refine ⟨a', ?_, ?_⟩
      · rw [apply_chunk_chunk, apply_slot_chunk]
        by_cases ec : chunkOf k' = chunkOf k
        · simp only [ec, if_true]
          rw [findA_append, ← ec, hf']
          rfl
        · simp only [ec, if_false]; exact hf'
      · rw [apply_chunk_slot, apply_slot_slot, setSlot_other _ _ _ _ (hfree a' _ hs'), hs']
  · intro k' hT
    by_cases e : k' = k
    · subst e; rw [upd_same] at hT; exact absurd hT (by simp)
    · rw [upd_other _ _ _ _ e] at hT
      rw [apply_chunk_chunk, apply_slot_chunk]
      by_cases ec : chunkOf k' = chunkOf k
      · simp only [ec, if_true]
        rw [findA_append, ← ec, h.absent k' hT]
        have : ¬ k = k' := fun x => e x.symm
        simp [findA, this]
      · simp only [ec, if_false]; exact h.absent k' hT
  · intro c k' a' hm
    rw [apply_chunk_chunk, apply_slot_chunk] at hm
    rw [apply_chunk_slot, apply_slot_slot]
    have hcase : (k', a') ∈ pv.chunk c ∨ ((k', a') = (k, (al.take t).1) ∧ c = chunkOf k) := by
      by_cases ec : c = chunkOf k
      · simp only [ec, if_true, List.mem_append, List.mem_singleton] at hm
        rcases hm with hm | hm
        · left; rw [ec]; exact hm
        · right; exact ⟨hm, ec⟩
      · simp only [ec, if_false] at hm
        left; exact hm
    rcases hcase with hm | ⟨hm, ec⟩
    · obtain ⟨hc, v', hs'⟩ := h.entries c k' a' hm
      exact ⟨hc, v', by rw [setSlot_other _ _ _ _ (hfree a' _ hs'), hs']⟩
    · simp only [Prod.mk.injEq] at hm
      rw [hm.1, hm.2, ec]
      exact ⟨rfl, v, by rw [setSlot_same]⟩
  · rw [apply_chunk_slot, apply_slot_slot]
    exact h.alloc.take t _

/-- moving a present key to another slot: new slot written, old slot freed, entry replaced -/
theorem Rep.move {chunkOf : K → Nat} {pv : PV K V} {al : Alloc} {T : Tbl K V}
    (h : Rep chunkOf pv al T) (k : K) (v : V) (t : Nat) (a : Addr)
    (hf : findA k (pv.chunk (chunkOf k)) = some a) :
    Rep chunkOf (((pv.apply (.slot (al.take t).1 (some (k, v)))).apply (.slot a none)).apply
        (.chunk (chunkOf k) (replaceA k (al.take t).1 (pv.chunk (chunkOf k)))))
      ((al.take t).2.release a) (upd T k (some (v, 1))) := by
  obtain ⟨_, v0, hs⟩ := h.owner k _ a hf
  have hnone := h.alloc.take_none t
  have hfree : ∀ a' y, pv.slot a' = some y → a' ≠ (al.take t).1 := by
    intro a' y hy e
    rw [e, hnone] at hy
    exact absurd hy (by simp)
  have haa : a ≠ (al.take t).1 := hfree a _ hs
  have hslot : ∀ a', a' ≠ a → a' ≠ (al.take t).1 →
      (((pv.apply (.slot (al.take t).1 (some (k, v)))).apply (.slot a none)).apply
        (.chunk (chunkOf k) (replaceA k (al.take t).1 (pv.chunk (chunkOf k))))).slot a' =
        pv.slot a' := by
    intro a' h1 h2
    rw [apply_chunk_slot, apply_slot_slot, setSlot_other _ _ _ _ h1, apply_slot_slot,
      setSlot_other _ _ _ _ h2]
  have hnew : (((pv.apply (.slot (al.take t).1 (some (k, v)))).apply (.slot a none)).apply
        (.chunk (chunkOf k) (replaceA k (al.take t).1 (pv.chunk (chunkOf k))))).slot
        (al.take t).1 = some (k, v) := by
    rw [apply_chunk_slot, apply_slot_slot, setSlot_other _ _ _ _ (fun e => haa e.symm),
      apply_slot_slot, setSlot_same]
  constructor
  · intro k' v' n' hT
    by_cases e : k' = k
    · subst e
      rw [upd_same] at hT
      simp only [Option.some.injEq, Prod.mk.injEq] at hT
      refine ⟨(al.take t).1, ?_, ?_⟩
      · rw [apply_chunk_chunk]
        simp only [if_true]
        exact findA_replaceA_self k' _ a _ hf
      · rw [hnew, hT.1]
    · rw [upd_other _ _ _ _ e] at hT
      obtain ⟨a', hf', hs'⟩ := h.present k' v' n' hT
      refine ⟨a', ?_, ?_⟩
      · rw [apply_chunk_chunk, apply_slot_chunk, apply_slot_chunk]
        by_cases ec : chunkOf k' = chunkOf k
        · simp only [ec, if_true]
          rw [findA_replaceA_other k k' _ _ e, ← ec]; exact hf'
        · simp only [ec, if_false]; exact hf'
      · have h1 : a' ≠ a := by
          intro ea; subst ea
          exact e (h.owner_inj k' k _ _ a' hf' hf)
        rw [hslot a' h1 (hfree a' _ hs'), hs']
  · intro k' hT
    by_cases e : k' = k
    · subst e; rw [upd_same] at hT; exact absurd hT (by simp)
    · rw [upd_other _ _ _ _ e] at hT
      rw [apply_chunk_chunk, apply_slot_chunk, apply_slot_chunk]
      by_cases ec : chunkOf k' = chunkOf k
      · simp only [ec, if_true]
        rw [findA_replaceA_other k k' _ _ e, ← ec]; exact h.absent k' hT
      · simp only [ec, if_false]; exact h.absent k' hT
  · intro c k' a' hm
    rw [apply_chunk_chunk, apply_slot_chunk, apply_slot_chunk] at hm
    have hcase : ((k', a') ∈ pv.chunk c ∧ k' ≠ k) ∨
        ((k', a') = (k, (al.take t).1) ∧ c = chunkOf k) := by
      by_cases ec : c = chunkOf k
      · simp only [ec, if_true] at hm
        rcases mem_replaceA k _ _ _ hm with hm | hm
        · left; rw [ec]; exact hm
        · right; exact ⟨hm, ec⟩
      · simp only [ec, if_false] at hm
        left
        refine ⟨hm, ?_⟩
        intro e
        have := (h.entries c k' a' hm).1
        rw [e] at this
        exact ec this.symm
    rcases hcase with ⟨hm, hne⟩ | ⟨hm, ec⟩
    · obtain ⟨hc, v', hs'⟩ := h.entries c k' a' hm
      refine ⟨hc, v', ?_⟩
      have h1 : a' ≠ a := by
        intro ea; subst ea
        rw [hs] at hs'
        simp only [Option.some.injEq, Prod.mk.injEq] at hs'
        exact hne hs'.1.symm
      rw [hslot a' h1 (hfree a' _ hs'), hs']
    · simp only [Prod.mk.injEq] at hm
      rw [hm.1, hm.2, ec]
      exact ⟨rfl, v, hnew⟩
  · rw [apply_chunk_slot, apply_slot_slot, apply_slot_slot]
    have h1 := h.alloc.take t (some (k, v))
    apply h1.release a (k, v0)
    rw [setSlot_other _ _ _ _ haa, hs]

/-! ### `planOp` case by case -/

variable (tier : V → Nat) (chunkOf : K → Nat)

theorem planOp_set_inplace (pv : PV K V) (al : Alloc) (k : K) (v : V) (a : Addr)
    (hf : findA k (pv.chunk (chunkOf k)) = some a) (ht : a.1 = tier v) :
    planOp tier chunkOf pv al (.set k v) = ([.slot a (some (k, v))], al) := by
  simp only [planOp, hf, ht, if_true]

theorem planOp_set_move (pv : PV K V) (al : Alloc) (k : K) (v : V) (a : Addr)
    (hf : findA k (pv.chunk (chunkOf k)) = some a) (ht : ¬ a.1 = tier v) :
    planOp tier chunkOf pv al (.set k v) =
      ([.slot (al.take (tier v)).1 (some (k, v)), .slot a none,
        .chunk (chunkOf k) (replaceA k (al.take (tier v)).1 (pv.chunk (chunkOf k)))],
       (al.take (tier v)).2.release a) := by
  simp only [planOp, hf, ht, if_false]

theorem planOp_set_insert (pv : PV K V) (al : Alloc) (k : K) (v : V)
    (hf : findA k (pv.chunk (chunkOf k)) = none) :
    planOp tier chunkOf pv al (.set k v) =
      ([.slot (al.take (tier v)).1 (some (k, v)),
        .chunk (chunkOf k) (pv.chunk (chunkOf k) ++ [(k, (al.take (tier v)).1)])],
       (al.take (tier v)).2) := by
  simp only [planOp, hf]

theorem planOp_deref_present (pv : PV K V) (al : Alloc) (k : K) (a : Addr)
    (hf : findA k (pv.chunk (chunkOf k)) = some a) :
    planOp tier chunkOf pv al (.deref k) =
      ([.slot a none, .chunk (chunkOf k) (removeA k (pv.chunk (chunkOf k)))], al.release a) := by
  simp only [planOp, hf]

theorem planOp_deref_absent (pv : PV K V) (al : Alloc) (k : K)
    (hf : findA k (pv.chunk (chunkOf k)) = none) :
    planOp tier chunkOf pv al (.deref k) = ([], al) := by
  simp only [planOp, hf]

theorem applyOp_set (T : Tbl K V) (k : K) (v : V) :
    applyOp plainK T (.set k v) = upd T k (some (v, 1)) := by
  unfold applyOp
  simp [Op.key, plainK, applyCell]

theorem applyOp_deref (T : Tbl K V) (k : K) :
    applyOp plainK T (.deref k) = upd T k none := by
  unfold applyOp
  simp [Op.key, plainK, applyCell]

theorem applyLocs_nil (pv : PV K V) : applyLocs pv [] = pv := rfl
theorem applyLocs_cons (pv : PV K V) (w : Loc K V) (ws : List (Loc K V)) :
    applyLocs pv (w :: ws) = applyLocs (pv.apply w) ws := rfl

/-- One planned operation keeps the representation invariant. -/
theorem planOp_rep {pv : PV K V} {al : Alloc} {T : Tbl K V} (h : Rep chunkOf pv al T)
    (op : Op K V) (hv : opValid plainK op = true) :
    Rep chunkOf (applyLocs pv (planOp tier chunkOf pv al op).1) (planOp tier chunkOf pv al op).2
      (applyOp plainK T op) := by
  cases op with
  | set k v =>
    rw [applyOp_set]
    cases hf : findA k (pv.chunk (chunkOf k)) with
    | some a =>
      by_cases ht : a.1 = tier v
      · rw [planOp_set_inplace tier chunkOf pv al k v a hf ht]
        exact h.inplace k v a hf
      · rw [planOp_set_move tier chunkOf pv al k v a hf ht]
        exact h.move k v (tier v) a hf
    | none =>
      rw [planOp_set_insert tier chunkOf pv al k v hf]
      exact h.insert k v (tier v) hf
  | deref k =>
    rw [applyOp_deref]
    cases hf : findA k (pv.chunk (chunkOf k)) with
    | some a =>
      rw [planOp_deref_present tier chunkOf pv al k a hf]
      exact h.remove k a hf
    | none =>
      rw [planOp_deref_absent tier chunkOf pv al k hf]
      apply h.congrT
      intro k'
      by_cases e : k' = k
      · subst e; rw [upd_same]; exact (h.absent_of_find k' hf).symm
      · rw [upd_other _ _ _ _ e]
  | ref k => simp [opValid, plainK] at hv

theorem planOps_nil (pv : PV K V) (al : Alloc) :
    planOps tier chunkOf pv al [] = ([], al) := rfl

theorem planOps_cons (pv : PV K V) (al : Alloc) (op : Op K V) (ops : List (Op K V)) :
    planOps tier chunkOf pv al (op :: ops) =
      ((planOp tier chunkOf pv al op).1 ++
         (planOps tier chunkOf (applyLocs pv (planOp tier chunkOf pv al op).1)
            (planOp tier chunkOf pv al op).2 ops).1,
       (planOps tier chunkOf (applyLocs pv (planOp tier chunkOf pv al op).1)
            (planOp tier chunkOf pv al op).2 ops).2) := rfl

/-- A planned change-set keeps the representation invariant. -/
theorem planOps_rep {pv : PV K V} {al : Alloc} {T : Tbl K V} (h : Rep chunkOf pv al T)
    (ops : List (Op K V)) (hv : ops.all (opValid plainK) = true) :
    Rep chunkOf (applyLocs pv (planOps tier chunkOf pv al ops).1)
      (planOps tier chunkOf pv al ops).2 (applyOps plainK T ops) := by
  induction ops generalizing pv al T with
  | nil => exact h
  | cons op ops ih =>
    simp only [List.all_cons, Bool.and_eq_true] at hv
    rw [planOps_cons]
    simp only
    rw [applyLocs_append]
    have : applyOps plainK T (op :: ops) = applyOps plainK (applyOp plainK T op) ops := rfl
    rw [this]
    exact ih (planOp_rep tier chunkOf h op hv.1) hv.2

/-! ### the frame property -/

/-- Every write of `ws` leaves `k0`'s index entry (`ea`) and `k0`'s slot alone. -/
def Stab (chunkOf : K → Nat) (k0 : K) (ea : Option Addr) (ws : List (Loc K V)) : Prop :=
  ∀ w ∈ ws, (∀ x, w = .chunk (chunkOf k0) x → findA k0 x = ea) ∧
            (∀ a x, w = .slot a x → ea ≠ some a)

theorem Stab.nil (k0 : K) (ea : Option Addr) : Stab chunkOf k0 ea ([] : List (Loc K V)) := by
  intro w hw; simp at hw

theorem Stab.append {k0 : K} {ea : Option Addr} {a b : List (Loc K V)}
    (ha : Stab chunkOf k0 ea a) (hb : Stab chunkOf k0 ea b) : Stab chunkOf k0 ea (a ++ b) := by
  intro w hw
  rcases List.mem_append.mp hw with hw | hw
  · exact ha w hw
  · exact hb w hw

/-- Applying stable writes changes neither `k0`'s entry nor `k0`'s slot. -/
theorem Stab.apply {k0 : K} {ea : Option Addr} {ws : List (Loc K V)}
    (h : Stab chunkOf k0 ea ws) (pv : PV K V) (hf : findA k0 (pv.chunk (chunkOf k0)) = ea) :
    findA k0 ((applyLocs pv ws).chunk (chunkOf k0)) = ea ∧
    (∀ a, ea = some a → (applyLocs pv ws).slot a = pv.slot a) := by
  constructor
  · rw [applyLocs_chunk]
    cases hl : lastBy (Loc.chunkAt (chunkOf k0)) ws with
    | none => exact hf
    | some x =>
      obtain ⟨w, hw, e⟩ := lastBy_some_mem _ ws x hl
      exact (h w hw).1 x (chunkAt_some _ w x e)
  · intro a hea
    rw [applyLocs_slot]
    cases hl : lastBy (Loc.slotAt a) ws with
    | none => rfl
    | some x =>
      obtain ⟨w, hw, e⟩ := lastBy_some_mem _ ws x hl
      exact absurd hea ((h w hw).2 a x (slotAt_some _ w x e))

theorem stab_of_list (k0 : K) (ea : Option Addr) (ws : List (Loc K V))
    (h : ∀ w ∈ ws, (∀ x, w = .chunk (chunkOf k0) x → findA k0 x = ea) ∧
            (∀ a x, w = .slot a x → ea ≠ some a)) : Stab chunkOf k0 ea ws := h

/-- One planned operation on another key is stable for `k0`. -/
theorem planOp_stab {pv : PV K V} {al : Alloc} {T : Tbl K V} (h : Rep chunkOf pv al T)
    (op : Op K V) (k0 : K) (hk : op.key ≠ k0) :
    Stab chunkOf k0 (findA k0 (pv.chunk (chunkOf k0))) (planOp tier chunkOf pv al op).1 := by
  -- a slot owned by another key, or a free slot, is not `k0`'s slot
  have howned : ∀ k a, findA k (pv.chunk (chunkOf k)) = some a → k ≠ k0 →
      findA k0 (pv.chunk (chunkOf k0)) ≠ some a := by
    intro k a hf hne h0
    exact hne (h.owner_inj k k0 _ _ a hf h0)
  have hfree : ∀ t, findA k0 (pv.chunk (chunkOf k0)) ≠ some (al.take t).1 := by
    intro t h0
    obtain ⟨_, v, hs⟩ := h.owner k0 _ _ h0
    rw [h.alloc.take_none t] at hs
    exact absurd hs (by simp)
  cases op with
  | set k v =>
    simp only [Op.key] at hk
    have hk' : k0 ≠ k := fun e => hk e.symm
    cases hf : findA k (pv.chunk (chunkOf k)) with
    | some a =>
      by_cases ht : a.1 = tier v
      · rw [planOp_set_inplace tier chunkOf pv al k v a hf ht]
        intro w hw
        simp only [List.mem_singleton] at hw
        subst hw
        refine ⟨(fun x e => by cases e), fun a' x e => ?_⟩
        simp only [Loc.slot.injEq] at e
        rw [← e.1]; exact howned k a hf hk
      · rw [planOp_set_move tier chunkOf pv al k v a hf ht]
        intro w hw
        simp only [List.mem_cons, List.mem_singleton, List.not_mem_nil, or_false] at hw
        rcases hw with hw | hw | hw
        · subst hw
          refine ⟨(fun x e => by cases e), fun a' x e => ?_⟩
          simp only [Loc.slot.injEq] at e
          rw [← e.1]; exact hfree _
        · subst hw
          refine ⟨(fun x e => by cases e), fun a' x e => ?_⟩
          simp only [Loc.slot.injEq] at e
          rw [← e.1]; exact howned k a hf hk
        · subst hw
          refine ⟨fun x e => ?_, fun a' x e => by cases e⟩
          simp only [Loc.chunk.injEq] at e
          rw [← e.2, findA_replaceA_other k k0 _ _ hk', e.1]
    | none =>
      rw [planOp_set_insert tier chunkOf pv al k v hf]
      intro w hw
      simp only [List.mem_cons, List.mem_singleton, List.not_mem_nil, or_false] at hw
      rcases hw with hw | hw
      · subst hw
        refine ⟨(fun x e => by cases e), fun a' x e => ?_⟩
        simp only [Loc.slot.injEq] at e
        rw [← e.1]; exact hfree _
      · subst hw
        refine ⟨fun x e => ?_, fun a' x e => by cases e⟩
        simp only [Loc.chunk.injEq] at e
        rw [← e.2, findA_append, e.1]
        simp [findA, hk]
  | deref k =>
    simp only [Op.key] at hk
    have hk' : k0 ≠ k := fun e => hk e.symm
    cases hf : findA k (pv.chunk (chunkOf k)) with
    | some a =>
      rw [planOp_deref_present tier chunkOf pv al k a hf]
      intro w hw
      simp only [List.mem_cons, List.mem_singleton, List.not_mem_nil, or_false] at hw
      rcases hw with hw | hw
      · subst hw
        refine ⟨(fun x e => by cases e), fun a' x e => ?_⟩
        simp only [Loc.slot.injEq] at e
        rw [← e.1]; exact howned k a hf hk
      · subst hw
        refine ⟨fun x e => ?_, fun a' x e => by cases e⟩
        simp only [Loc.chunk.injEq] at e
        rw [← e.2, findA_removeA_other k k0 _ hk', e.1]
    | none =>
      rw [planOp_deref_absent tier chunkOf pv al k hf]
      exact Stab.nil chunkOf k0 _
  | ref k => exact Stab.nil chunkOf k0 _

/-- A planned change-set that does not write `k0` is stable for `k0`. -/
theorem planOps_stab {pv : PV K V} {al : Alloc} {T : Tbl K V} (h : Rep chunkOf pv al T)
    (ops : List (Op K V)) (hv : ops.all (opValid plainK) = true) (k0 : K)
    (hk : k0 ∉ ops.map Op.key) :
    Stab chunkOf k0 (findA k0 (pv.chunk (chunkOf k0))) (planOps tier chunkOf pv al ops).1 := by
  induction ops generalizing pv al T with
  | nil => exact Stab.nil chunkOf k0 _
  | cons op ops ih =>
    simp only [List.all_cons, Bool.and_eq_true] at hv
    simp only [List.map_cons, List.mem_cons, not_or] at hk
    rw [planOps_cons]
    simp only
    have h1 := planOp_stab tier chunkOf h op k0 (fun e => hk.1 e.symm)
    refine Stab.append chunkOf h1 ?_
    have h2 := ih (planOp_rep tier chunkOf h op hv.1) hv.2 hk.2
    rw [(h1.apply chunkOf pv rfl).1] at h2
    exact h2

/-! ### provenance: a stored (key, value) pair comes from a `set` of that key -/

theorem planOp_prov (pv : PV K V) (al : Alloc) (op : Op K V) (a : Addr) (k : K) (v : V)
    (h : Loc.slot a (some (k, v)) ∈ (planOp tier chunkOf pv al op).1) : op = .set k v := by
  cases op with
  | set k' v' =>
    cases hf : findA k' (pv.chunk (chunkOf k')) with
    | some a' =>
      by_cases ht : a'.1 = tier v'
      · rw [planOp_set_inplace tier chunkOf pv al k' v' a' hf ht] at h
        simp at h
        rw [h.2.1, h.2.2]
      · rw [planOp_set_move tier chunkOf pv al k' v' a' hf ht] at h
        simp at h
        rw [h.2.1, h.2.2]
    | none =>
      rw [planOp_set_insert tier chunkOf pv al k' v' hf] at h
      simp at h
      rw [h.2.1, h.2.2]
  | deref k' =>
    cases hf : findA k' (pv.chunk (chunkOf k')) with
    | some a' =>
      rw [planOp_deref_present tier chunkOf pv al k' a' hf] at h
      simp at h
    | none =>
      rw [planOp_deref_absent tier chunkOf pv al k' hf] at h
      simp at h
  | ref k' => simp [planOp] at h

theorem planOps_prov (pv : PV K V) (al : Alloc) (ops : List (Op K V)) (a : Addr) (k : K) (v : V)
    (h : Loc.slot a (some (k, v)) ∈ (planOps tier chunkOf pv al ops).1) : Op.set k v ∈ ops := by
  induction ops generalizing pv al with
  | nil => simp [planOps] at h
  | cons op ops ih =>
    rw [planOps_cons] at h
    simp only [List.mem_append] at h
    rcases h with h | h
    · rw [planOp_prov tier chunkOf pv al op a k v h]; exact List.mem_cons_self
    · exact List.mem_cons_of_mem _ (ih _ _ h)

end CSlot
end Pdb
