/-
Provenance invariant of the slot-level reader model, valid in BOTH reader disciplines and for
both `end_read` variants: every (key, value) pair stored in a slot (file or log overlay) or in
the commit overlay comes from a committed `set key value`; with the stored-key check a reader
only returns a value whose slot content carries the reader's key.
-/
import Pdb.Proofs.C05SlotPlan

set_option linter.unusedSectionVars false
set_option linter.unusedSimpArgs false
set_option linter.unusedVariables false
namespace Pdb
namespace CSlot
variable {K V : Type} [DecidableEq K]

def Committed (hist : List (List (Op K V))) (k : K) (v : V) : Prop :=
  ∃ tx ∈ hist, Op.set k v ∈ tx

def Prov (hist : List (List (Op K V))) (x : Option (K × V)) : Prop :=
  ∀ k v, x = some (k, v) → Committed hist k v

/-- a finished lookup: a returned value was committed under the reader's key, and if it came
    out of a slot, the slot content carried the reader's key -/
def DoneOk (hist : List (List (Op K V))) (k : K) (res : Option V) (src : Option Addr)
    (x : Option (K × V)) : Prop :=
  ∀ v, res = some v → Committed hist k v ∧ (∀ a, src = some a → x = some (k, v))

theorem Committed.mono {hist : List (List (Op K V))} {k : K} {v : V} (l : List (List (Op K V)))
    (h : Committed hist k v) : Committed (hist ++ l) k v := by
  obtain ⟨tx, htx, hm⟩ := h
  exact ⟨tx, List.mem_append_left _ htx, hm⟩

theorem Prov.mono {hist : List (List (Op K V))} {x : Option (K × V)} (l : List (List (Op K V)))
    (h : Prov hist x) : Prov (hist ++ l) x := fun k v e => (h k v e).mono l

theorem DoneOk.mono {hist : List (List (Op K V))} {k : K} {res : Option V} {src : Option Addr}
    {x : Option (K × V)} (l : List (List (Op K V))) (h : DoneOk hist k res src x) :
    DoneOk (hist ++ l) k res src x := fun v e => ⟨((h v e).1).mono l, (h v e).2⟩

structure WInv (s : SSt K V) : Prop where
  files : ∀ a, Prov s.hist (s.files.slot a)
  logged : ∀ r ∈ s.logged, ∀ a x, Loc.slot a x ∈ r.writes → Prov s.hist x
  ov : ∀ k i v, s.overlay k = some (i, some v) → Committed s.hist k v
  pend : ∀ c ∈ inflAll s ++ s.queue, c.ops ∈ s.hist
  rd : ∀ t k q res src x, s.readers t = .done k q res src x → DoneOk s.hist k res src x
  evs : ∀ e ∈ s.reads, DoneOk s.hist e.key e.result e.slot e.stored

theorem WInv.init : WInv (SSt.init : SSt K V) := by
  constructor
  · intro a k v h; simp [SSt.init, PV.empty] at h
  · intro r hr; simp [SSt.init] at hr
  · intro k i v h; simp [SSt.init] at h
  · intro c hc; simp [SSt.init, inflAll] at hc
  · intro t k q res src x h; simp [SSt.init] at h
  · intro e he; simp [SSt.init] at he

theorem opsW_set (id : Nat) (tx : List (Op K V)) (k : K) (i : Nat) (v : V)
    (h : lastW (opsW plainK id tx) k = some (i, some v)) : Op.set k v ∈ tx := by
  induction tx with
  | nil => simp [opsW, lastW] at h
  | cons op tx ih =>
    rw [opsW_cons, lastW_append] at h
    cases h2 : lastW (opsW plainK id tx) k with
    | some y =>
      rw [h2] at h
      simp only [Option.or] at h
      exact List.mem_cons_of_mem _ (ih (by rw [h2, h]))
    | none =>
      rw [h2] at h
      simp only [Option.or] at h
      cases op with
      | set k' v' =>
        by_cases e : k' = k
        · subst e
          simp [opW, lastW] at h
          rw [h.2]; exact List.mem_cons_self
        · simp [opW, lastW, e] at h
      | deref k' =>
        by_cases e : k' = k
        · subst e; simp [opW, lastW, plainK] at h
        · simp [opW, lastW, plainK, e] at h
      | ref k' => simp [opW, lastW] at h

theorem valResult_some {cfg : Cfg} (hk : cfg.keyCheck = true) (k : K) (x : Option (K × V))
    (v : V) (h : valResult cfg k x = some v) : x = some (k, v) := by
  unfold valResult at h
  cases x with
  | none => simp at h
  | some kv =>
    obtain ⟨k', v'⟩ := kv
    simp only [accepts, hk, Bool.not_true, Bool.false_or, decide_eq_true_eq] at h
    by_cases e : k' = k
    · simp only [e, if_true, Option.some.injEq] at h
      rw [e, h]
    · simp [e] at h

theorem WInv.setReader {s : SSt K V} (h : WInv s) (t : Nat) (pc : RPc K V)
    (hpc : ∀ k q res src x, pc = .done k q res src x → DoneOk s.hist k res src x) :
    WInv (CSlot.setReader s t pc) := by
  constructor
  · exact h.files
  · exact h.logged
  · exact h.ov
  · exact h.pend
  · intro t' k q res src x hr
    simp only [CSlot.setReader] at hr
    by_cases e : t' = t
    · simp only [e, if_true] at hr
      exact hpc k q res src x hr
    · simp only [e, if_false] at hr
      exact h.rd t' k q res src x hr
  · exact h.evs

theorem WInv.afterIdx {s : SSt K V} (h : WInv s) (t : Nat) (k : K) (q : Nat)
    (content : List (K × Addr)) : WInv (CSlot.setReader s t (afterIdx k q content)) := by
  apply h.setReader
  intro k' q' res src x e
  unfold CSlot.afterIdx at e
  cases hf : findA k content with
  | some a => rw [hf] at e; simp at e
  | none =>
    rw [hf] at e
    simp only [RPc.done.injEq] at e
    intro v hv
    rw [← e.2.2.1] at hv
    exact absurd hv (by simp)

theorem WInv.afterVal {cfg : Cfg} (hk : cfg.keyCheck = true) {s : SSt K V} (h : WInv s)
    (t : Nat) (k : K) (q : Nat) (a : Addr) (x : Option (K × V)) (hx : Prov s.hist x) :
    WInv (CSlot.setReader s t (.done k q (valResult cfg k x) (some a) x)) := by
  apply h.setReader
  intro k' q' res src x' e
  simp only [RPc.done.injEq] at e
  obtain ⟨e1, _, e3, e4, e5⟩ := e
  subst e1 e3 e4 e5
  intro v hv
  have := valResult_some hk k x v hv
  exact ⟨hx k v this, fun _ _ => this⟩

theorem WInv.step {cfg : Cfg} (hk : cfg.keyCheck = true) (tier : V → Nat) (chunkOf : K → Nat)
    (N : Nat) {s : SSt K V} (h : WInv s) (a : SAct K V) :
    WInv (sstep cfg tier chunkOf N s a) := by
  cases a with
  | commit tx =>
    simp only [sstep]
    split
    · exact h
    · split
      · exact h
      · constructor
        · intro a; exact (h.files a).mono [tx]
        · intro r hr a x hx; exact (h.logged r hr a x hx).mono [tx]
        · intro k i v hov
          simp only at hov
          rw [ovOp_fold] at hov
          cases hw : lastW (opsW plainK (s.nextId + 1) tx) k with
          | some y =>
            rw [hw] at hov
            simp only [Option.or, Option.some.injEq] at hov
            rw [hov] at hw
            exact ⟨tx, by simp, opsW_set _ tx k i v hw⟩
          | none =>
            rw [hw] at hov
            simp only [Option.or] at hov
            exact (h.ov k i v hov).mono [tx]
        · intro c hc
          simp only [inflAll, List.mem_append, List.mem_singleton] at hc
          simp only
          rcases hc with hc | hc | hc
          · exact List.mem_append_left _ (h.pend c (by simp [inflAll, hc]))
          · exact List.mem_append_left _ (h.pend c (by simp [hc]))
          · subst hc; simp
        · intro t k q res src x hr
          exact (h.rd t k q res src x hr).mono [tx]
        · intro e he; exact (h.evs e he).mono [tx]
  | pop =>
    simp only [sstep]
    split
    · rename_i c q hi hq
      constructor
      · exact h.files
      · exact h.logged
      · exact h.ov
      · intro c' hc'
        apply h.pend c'
        simp only [inflAll, hi, hq, List.nil_append]
        simpa [inflAll] using hc'
      · exact h.rd
      · exact h.evs
    · exact h
  | publish =>
    simp only [sstep]
    split
    · rename_i c hi
      constructor
      · exact h.files
      · intro r hr a x hx
        simp only [List.mem_append, List.mem_singleton] at hr
        rcases hr with hr | hr
        · exact h.logged r hr a x hx
        · subst hr
          intro k v e
          subst e
          exact ⟨c.ops, h.pend c (by simp [inflAll, hi]),
            planOps_prov tier chunkOf _ _ c.ops a k v hx⟩
      · exact h.ov
      · intro c' hc'
        apply h.pend c'
        simp only [inflAll, hi]
        simpa [inflAll] using hc'
      · exact h.rd
      · exact h.evs
    · exact h
  | cleanOverlay =>
    simp only [sstep]
    split
    · exact h
    · split
      · rename_i c hi
        constructor
        · exact h.files
        · exact h.logged
        · intro k i v hov
          simp only at hov
          rcases CRd.clean_fold_cases c.id c.ops s.overlay k with e | e
          · rw [e] at hov; exact h.ov k i v hov
          · rw [e] at hov; exact absurd hov (by simp)
        · intro c' hc'
          apply h.pend c'
          simp only [inflAll, hi]
          simp only [inflAll, List.nil_append] at hc'
          simp [hc']
        · exact h.rd
        · exact h.evs
      · exact h
  | flush => exact ⟨h.files, h.logged, h.ov, h.pend, h.rd, h.evs⟩
  | enactWrite =>
    simp only [sstep]
    split
    · rename_i f r rs hf hl
      split
      · rename_i w hw
        refine ⟨?_, h.logged, h.ov, h.pend, h.rd, h.evs⟩
        intro a
        have hlaw : (s.files.apply w).slot a = (Loc.slotAt a w).getD (s.files.slot a) :=
          (slotSel a).law s.files w
        show Prov s.hist ((s.files.apply w).slot a)
        rw [hlaw]
        cases hs : Loc.slotAt a w with
        | none => exact h.files a
        | some x =>
          have hw' := slotAt_some _ w x hs
          subst hw'
          exact h.logged r (by rw [hl]; exact List.mem_cons_self) a x (List.mem_of_getElem? hw)
      · exact h
    · exact h
  | endRead =>
    simp only [sstep]
    split
    · rename_i f r rs hf hl
      split
      · refine ⟨h.files, ?_, h.ov, h.pend, h.rd, h.evs⟩
        intro r' hr' a x hx
        simp only [dropEnded] at hr'
        by_cases he : cfg.exactEnd = true
        · simp only [he, if_true] at hr'
          exact h.logged r' (by rw [hl]; exact List.mem_cons_of_mem _ hr') a x hx
        · simp only [he, if_false] at hr'
          obtain ⟨r0, hr0, e⟩ := List.mem_map.mp hr'
          subst e
          simp only at hx
          exact h.logged r0 (by rw [hl]; exact List.mem_cons_of_mem _ hr0) a x
            (List.mem_filter.mp hx).1
      · exact h
    · exact h
  | rBegin t k =>
    simp only [sstep]
    split
    · apply h.setReader
      intro k' q res src x e
      simp at e
    · exact h
  | rOverlay t =>
    simp only [sstep]
    split
    · rename_i k q hpc
      split
      · rename_i i v hov
        apply h.setReader
        intro k' q' res src x e
        simp only [RPc.done.injEq] at e
        obtain ⟨e1, _, e3, e4, _⟩ := e
        subst e1 e3 e4
        intro v' hv'
        subst hv'
        exact ⟨h.ov k i v' hov, fun a ha => by simp at ha⟩
      · apply h.setReader
        intro k' q res src x e
        simp at e
    · exact h
  | rIdxLog t =>
    simp only [sstep]
    split
    · split
      · exact h.afterIdx t _ _ _
      · apply h.setReader
        intro k' q res src x e
        simp at e
    · exact h
  | rIdxFile t =>
    simp only [sstep]
    split
    · exact h.afterIdx t _ _ _
    · exact h
  | rValLog t =>
    simp only [sstep]
    split
    · rename_i k q a hpc
      split
      · rename_i x hl
        apply h.afterVal hk
        obtain ⟨r, hr, w, hw, e⟩ := ovBy_some_mem _ _ x hl
        have := slotAt_some _ w x e
        subst this
        exact h.logged r hr a x hw
      · apply h.setReader
        intro k' q res src x e
        simp at e
    · exact h
  | rValFile t =>
    simp only [sstep]
    split
    · rename_i k q a hpc
      exact h.afterVal hk t k q a _ (h.files a)
    · exact h
  | rEnd t =>
    simp only [sstep]
    split
    · rename_i k q res src x hpc
      have h1 := h.setReader t .idle (by intro k' q' r' s' x' e; simp at e)
      refine ⟨h1.files, h1.logged, h1.ov, h1.pend, h1.rd, ?_⟩
      intro e he
      simp only [List.mem_append, List.mem_singleton] at he
      rcases he with he | he
      · exact h.evs e he
      · subst he
        exact h.rd t k q res src x hpc
    · exact h

theorem WInv.run {cfg : Cfg} (hk : cfg.keyCheck = true) (tier : V → Nat) (chunkOf : K → Nat)
    (N : Nat) {s : SSt K V} (h : WInv s) (as : List (SAct K V)) :
    WInv (srun cfg tier chunkOf N s as) := by
  induction as generalizing s with
  | nil => exact h
  | cons a as ih => exact ih (h.step hk tier chunkOf N a)

end CSlot
end Pdb
