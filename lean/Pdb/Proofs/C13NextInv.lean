/-
C13 helper lemmas: `LogReader::next`, inverted.  Whatever the bytes are, a result of `next`
determines the bytes consumed (opcode, fields) and the running-CRC prefix.
-/
import Pdb.Proofs.C13Codec

namespace Pdb.Wal
open Pdb.Gen

theorem leBytes_mod (k n : Nat) : leBytes k (n % 256 ^ k) = leBytes k n := by
  have := leBytes_leVal (leBytes k n)
  rwa [length_leBytes, leVal_leBytes] at this

theorem op_eq {op : Bytes} {o : Nat} (hl : op.length = 1) (h : leVal op = o) :
    op = leBytes 1 o := by
  subst h; exact eq_leBytes_of_length hl

/-- closes the branches of `next` that produce another constructor -/
macro "wrong_branch" h:ident : tactic =>
  `(tactic| repeat (first | cases $h:ident | split at $h:ident))

theorem next_inv_begin {crc : Bytes → Nat} {rd rd' : Reader} {id : Nat}
    (h : next crc rd = .begin id rd') :
    id < U64 ∧ rd.rest = leBytes 1 BEGIN_RECORD ++ (leBytes 8 id ++ rd'.rest) ∧
      rd'.consumed = rd.consumed ++ (leBytes 1 BEGIN_RECORD ++ leBytes 8 id) := by
  unfold next at h
  split at h
  · cases h
  · rename_i op rd1 h1
    obtain ⟨l1, r1, c1⟩ := read_some h1
    simp only at h
    split at h
    · rename_i ho
      split at h
      · cases h
      · rename_i b rd2 h2
        cases h
        obtain ⟨l2, r2, c2⟩ := read_some h2
        have e1 := op_eq l1 ho
        have e2 := eq_leBytes_of_length l2
        refine ⟨?_, ?_, ?_⟩
        · have := leVal_lt b; rw [l2] at this; simpa [U64] using this
        · rw [r1, r2, ← e1, ← e2]
        · rw [c2, c1, ← e1, ← e2, List.append_assoc]
    · wrong_branch h

/-- shared shape of the three insert opcodes -/
theorem insert_inv {rd rd1 rd2 : Reader} {op : Bytes} {o t i : Nat}
    (h1 : rd.read 1 = some (op, rd1)) (ho : leVal op = o)
    (h2 : readTableIndex rd1 = some (t, i, rd2)) :
    t < U16 ∧ i < U64 ∧ rd.rest = leBytes 1 o ++ (leBytes 2 t ++ (leBytes 8 i ++ rd2.rest)) ∧
      rd2.consumed = rd.consumed ++ (leBytes 1 o ++ (leBytes 2 t ++ leBytes 8 i)) := by
  obtain ⟨l1, r1, c1⟩ := read_some h1
  obtain ⟨ht, hi, r2, c2⟩ := readTableIndex_some h2
  have e1 := op_eq l1 ho
  refine ⟨ht, hi, ?_, ?_⟩
  · rw [r1, r2, ← e1]
  · rw [c2, c1, ← e1, List.append_assoc]

theorem next_inv_insertIndex {crc : Bytes → Nat} {rd rd' : Reader} {t i : Nat}
    (h : next crc rd = .insertIndex t i rd') :
    t < U16 ∧ i < U64 ∧
      rd.rest = leBytes 1 INSERT_INDEX ++ (leBytes 2 t ++ (leBytes 8 i ++ rd'.rest)) ∧
      rd'.consumed = rd.consumed ++ (leBytes 1 INSERT_INDEX ++ (leBytes 2 t ++ leBytes 8 i)) := by
  unfold next at h
  split at h
  · cases h
  · rename_i op rd1 h1
    simp only at h
    split at h
    · wrong_branch h
    · split at h
      · rename_i ho
        split at h
        · cases h
        · rename_i t' i' rd2 h2
          cases h
          exact insert_inv h1 ho h2
      · wrong_branch h

theorem next_inv_insertValue {crc : Bytes → Nat} {rd rd' : Reader} {t i : Nat}
    (h : next crc rd = .insertValue t i rd') :
    t < U16 ∧ i < U64 ∧
      rd.rest = leBytes 1 INSERT_VALUE ++ (leBytes 2 t ++ (leBytes 8 i ++ rd'.rest)) ∧
      rd'.consumed = rd.consumed ++ (leBytes 1 INSERT_VALUE ++ (leBytes 2 t ++ leBytes 8 i)) := by
  unfold next at h
  split at h
  · cases h
  · rename_i op rd1 h1
    simp only at h
    split at h
    · wrong_branch h
    · split at h
      · wrong_branch h
      · split at h
        · rename_i ho
          split at h
          · cases h
          · rename_i t' i' rd2 h2
            cases h
            exact insert_inv h1 ho h2
        · wrong_branch h

theorem next_inv_insertRefCount {crc : Bytes → Nat} {rd rd' : Reader} {t i : Nat}
    (h : next crc rd = .insertRefCount t i rd') :
    t < U16 ∧ i < U64 ∧
      rd.rest = leBytes 1 INSERT_REF_COUNT ++ (leBytes 2 t ++ (leBytes 8 i ++ rd'.rest)) ∧
      rd'.consumed =
        rd.consumed ++ (leBytes 1 INSERT_REF_COUNT ++ (leBytes 2 t ++ leBytes 8 i)) := by
  unfold next at h
  split at h
  · cases h
  · rename_i op rd1 h1
    simp only at h
    split at h
    · wrong_branch h
    · split at h
      · wrong_branch h
      · split at h
        · wrong_branch h
        · split at h
          · rename_i ho
            split at h
            · cases h
            · rename_i t' i' rd2 h2
              cases h
              exact insert_inv h1 ho h2
          · wrong_branch h

theorem drop_inv {rd rd1 rd2 : Reader} {op tb : Bytes} {o : Nat}
    (h1 : rd.read 1 = some (op, rd1)) (ho : leVal op = o)
    (h2 : rd1.read 2 = some (tb, rd2)) :
    leVal tb < U16 ∧ rd.rest = leBytes 1 o ++ (leBytes 2 (leVal tb) ++ rd2.rest) ∧
      rd2.consumed = rd.consumed ++ (leBytes 1 o ++ leBytes 2 (leVal tb)) := by
  obtain ⟨l1, r1, c1⟩ := read_some h1
  obtain ⟨l2, r2, c2⟩ := read_some h2
  have e1 := op_eq l1 ho
  have e2 := eq_leBytes_of_length l2
  refine ⟨?_, ?_, ?_⟩
  · have := leVal_lt tb; rw [l2] at this; simpa [U16] using this
  · rw [r1, r2, ← e1, ← e2]
  · rw [c2, c1, ← e1, ← e2, List.append_assoc]

theorem next_inv_dropTable {crc : Bytes → Nat} {rd rd' : Reader} {t : Nat}
    (h : next crc rd = .dropTable t rd') :
    t < U16 ∧ rd.rest = leBytes 1 DROP_TABLE ++ (leBytes 2 t ++ rd'.rest) ∧
      rd'.consumed = rd.consumed ++ (leBytes 1 DROP_TABLE ++ leBytes 2 t) := by
  unfold next at h
  split at h
  · cases h
  · rename_i op rd1 h1
    simp only at h
    split at h
    · wrong_branch h
    · split at h
      · wrong_branch h
      · split at h
        · wrong_branch h
        · split at h
          · wrong_branch h
          · split at h
            · wrong_branch h
            · split at h
              · rename_i ho
                split at h
                · cases h
                · rename_i tb rd2 h2
                  cases h
                  exact drop_inv h1 ho h2
              · wrong_branch h

theorem next_inv_dropRefCountTable {crc : Bytes → Nat} {rd rd' : Reader} {t : Nat}
    (h : next crc rd = .dropRefCountTable t rd') :
    t < U16 ∧ rd.rest = leBytes 1 DROP_REF_COUNT_TABLE ++ (leBytes 2 t ++ rd'.rest) ∧
      rd'.consumed = rd.consumed ++ (leBytes 1 DROP_REF_COUNT_TABLE ++ leBytes 2 t) := by
  unfold next at h
  split at h
  · cases h
  · rename_i op rd1 h1
    simp only at h
    split at h
    · wrong_branch h
    · split at h
      · wrong_branch h
      · split at h
        · wrong_branch h
        · split at h
          · wrong_branch h
          · split at h
            · wrong_branch h
            · split at h
              · wrong_branch h
              · split at h
                · rename_i ho
                  split at h
                  · cases h
                  · rename_i tb rd2 h2
                    cases h
                    exact drop_inv h1 ho h2
                · cases h

/-- `END_RECORD` accepted: the four bytes after the opcode are the CRC of everything consumed
    since `BEGIN_RECORD`, the opcode included. -/
theorem next_inv_end {crc : Bytes → Nat} {rd rd' : Reader}
    (h : next crc rd = .endRecord rd') :
    rd.rest = leBytes 1 END_RECORD ++
      (leBytes 4 (crc (rd.consumed ++ leBytes 1 END_RECORD)) ++ rd'.rest) := by
  unfold next at h
  split at h
  · cases h
  · rename_i op rd1 h1
    obtain ⟨l1, r1, c1⟩ := read_some h1
    simp only at h
    split at h
    · wrong_branch h
    · split at h
      · wrong_branch h
      · split at h
        · wrong_branch h
        · split at h
          · wrong_branch h
          · split at h
            · rename_i ho
              split at h
              · cases h
              · rename_i c rd2 h2
                split at h
                · rename_i hcrc
                  cases h
                  obtain ⟨l2, r2, _⟩ := readRaw_some h2
                  have e1 := op_eq l1 ho
                  have e2 : c = leBytes 4 (crc rd1.consumed) := by
                    have := eq_leBytes_of_length l2
                    rw [hcrc] at this
                    rw [this]
                    exact leBytes_mod 4 _
                  rw [r1, r2, e2, c1, ← e1]
                · cases h
            · wrong_branch h


end Pdb.Wal
