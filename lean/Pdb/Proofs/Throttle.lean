/-
The throttle / wake-up conditions of the commit queue and of the log queue, as generated
from src/db.rs: whenever a pop brings a queue from "throttled" to "not throttled", the
popping side's wake-up condition holds, so a waiting committer / log worker is notified.
(The waiters test the throttle condition once and wait once, so a missed crossing is a hang.)

The log-queue counter is an `i64` in the Rust (`log_queue_wait.work`, "may underflow occasionally"):
`log_throttle` / `log_wake` are generated over `Int` with two's complement wrapping (`iadd`, `icast`
of Pdb/Gen/Prim.lean) and the lemmas hold for every counter value in the `i64` range, negative ones
included.  The comparisons are only ONE conjunct of the `if` headers they sit in: the complete
headers are pinned by tools/skeleton.py (`<fn>_conds`, obligations `Ord.commitRaw_wait_condition`,
`Ord.processCommits_conditions`, `Ord.enactLogs_conditions` in Pdb/Proofs/Order.lean).

Second part: the generated definitions are the ones the C15 model (Pdb/Model/Conc.lean) runs on:
`max_logs` / `keep_logs` (the two `if self.options.sync_data { A } else { B }` of `enact_logs` /
`clean_logs`) equal `Cfg.maxLogs` / `Cfg.keepLogs`, and the notification conditions of `tickL` /
`tickC` equal `commit_wake` / `log_wake`.
-/
import Pdb.Gen.Bits
import Pdb.Model.Conc

namespace Pdb.Gen

theorem commit_throttle_iff (q : Nat) : commit_throttle q = true ↔ q > MAX_COMMIT_QUEUE_BYTES := by
  unfold commit_throttle; exact decide_eq_true_iff

theorem commit_wake_iff (q c : Nat) (h64 : q + c < 2 ^ 64) :
    commit_wake q c = true ↔ (q ≤ MAX_COMMIT_QUEUE_BYTES ∧ q + c > MAX_COMMIT_QUEUE_BYTES) := by
  have hm : wadd 64 q c = q + c := by unfold wadd; exact Nat.mod_eq_of_lt h64
  unfold commit_wake
  rw [hm, Bool.and_eq_true, decide_eq_true_iff, decide_eq_true_iff]

/-- Commit queue: `commit_raw` waits while `commit_throttle bytes`; `process_commits` pops a
    commit of `c` bytes leaving `q` and notifies iff `commit_wake q c`. -/
theorem commit_wake_on_crossing (q c : Nat) (h64 : q + c < 2 ^ 64)
    (hbefore : commit_throttle (q + c) = true) (hafter : commit_throttle q = false) :
    commit_wake q c = true := by
  rw [commit_wake_iff q c h64]
  have h1 := (commit_throttle_iff (q + c)).mp hbefore
  have h2 : ¬ q > MAX_COMMIT_QUEUE_BYTES := fun h => by
    rw [(commit_throttle_iff q).mpr h] at hafter; cases hafter
  omega

/-- A wake-up never happens while the queue stays throttled. -/
theorem commit_wake_implies_unthrottled (q c : Nat) (h64 : q + c < 2 ^ 64)
    (h : commit_wake q c = true) : commit_throttle q = false := by
  have := (commit_wake_iff q c h64).mp h
  cases ht : commit_throttle q with
  | false => rfl
  | true => have := (commit_throttle_iff q).mp ht; omega

/-! ### the log queue: an `i64` counter -/

theorem two_pow_63 : (2 : Int) ^ (64 - 1) = 9223372036854775808 := by decide
theorem two_pow_64 : (2 : Int) ^ 64 = 18446744073709551616 := by decide

/-- no wrap-around inside the `i64` range -/
theorem iwrap64_of_range (x : Int) (h1 : -(2 ^ 63) ≤ x) (h2 : x < 2 ^ 63) : iwrap 64 x = x := by
  unfold iwrap
  rw [two_pow_63, two_pow_64]
  have e : (2 : Int) ^ 63 = 9223372036854775808 := two_pow_63
  rw [e] at h1 h2
  omega

theorem log_throttle_iff (q : Int) : log_throttle q = true ↔ q > (MAX_LOG_QUEUE_BYTES : Int) := by
  unfold log_throttle; exact decide_eq_true_iff

/-- `q` = counter after the subtraction (any `i64`, possibly negative), `b` = bytes of the enacted record -/
theorem log_wake_iff (q : Int) (b : Nat) (hq : -(2 ^ 63) ≤ q) (hb : (b : Int) < 2 ^ 63) (hs : q + b < 2 ^ 63) :
    log_wake q b = true ↔ (q ≤ (MAX_LOG_QUEUE_BYTES : Int) ∧ q + b > (MAX_LOG_QUEUE_BYTES : Int)) := by
  have hc : icast 64 b = (b : Int) := by
    unfold icast; exact iwrap64_of_range _ (by have : (0 : Int) ≤ (b : Int) := Int.natCast_nonneg b; omega) hb
  have hm : iadd 64 q (icast 64 b) = q + b := by
    unfold iadd; rw [hc]; exact iwrap64_of_range _ (by have : (0 : Int) ≤ (b : Int) := Int.natCast_nonneg b; omega) hs
  unfold log_wake
  rw [hm, Bool.and_eq_true, decide_eq_true_iff, decide_eq_true_iff]

/-- Log queue: `process_commits` waits while `log_throttle counter`; `enact_logs` subtracts the
    `b` bytes of the enacted record leaving `q` and notifies iff `log_wake q b`. -/
theorem log_wake_on_crossing (q : Int) (b : Nat) (hq : -(2 ^ 63) ≤ q) (hb : (b : Int) < 2 ^ 63)
    (hs : q + b < 2 ^ 63)
    (hbefore : log_throttle (q + b) = true) (hafter : log_throttle q = false) :
    log_wake q b = true := by
  rw [log_wake_iff q b hq hb hs]
  have h1 := (log_throttle_iff (q + b)).mp hbefore
  have h2 : ¬ q > (MAX_LOG_QUEUE_BYTES : Int) := fun h => by
    rw [(log_throttle_iff q).mpr h] at hafter; cases hafter
  omega

/-- no notification unless the counter was above the limit before the subtraction: in particular
    none while the counter is negative (the underflow the Rust comment mentions) -/
theorem log_no_wake_below (q : Int) (b : Nat) (hq : -(2 ^ 63) ≤ q) (hb : (b : Int) < 2 ^ 63)
    (hs : q + b < 2 ^ 63) (h : q + b ≤ (MAX_LOG_QUEUE_BYTES : Int)) : log_wake q b = false := by
  cases hw : log_wake q b with
  | false => rfl
  | true => have := (log_wake_iff q b hq hb hs).mp hw; omega

theorem log_wake_implies_unthrottled (q : Int) (b : Nat) (hq : -(2 ^ 63) ≤ q) (hb : (b : Int) < 2 ^ 63)
    (hs : q + b < 2 ^ 63) (h : log_wake q b = true) : log_throttle q = false := by
  have := (log_wake_iff q b hq hb hs).mp h
  cases ht : log_throttle q with
  | false => rfl
  | true => have := (log_throttle_iff q).mp ht; omega

theorem queue_limits_positive : 0 < MAX_COMMIT_QUEUE_BYTES ∧ 0 < MAX_LOG_QUEUE_BYTES ∧
    0 < MAX_LOG_FILES ∧ MAX_LOG_FILES ≤ KEEP_LOGS := by decide

/-! ### `max_logs` / `keep_logs` as generated from `enact_logs` / `clean_logs` -/

/-- what the cleanup worker leaves behind never keeps `enact_logs` waiting -/
theorem keep_logs_le_max_logs (sync_data : Bool) : clean_keep_logs sync_data ≤ enact_max_logs sync_data := by
  cases sync_data <;> decide

theorem max_logs_values : enact_max_logs true = MAX_LOG_FILES ∧ enact_max_logs false = KEEP_LOGS ∧
    clean_keep_logs true = 0 ∧ clean_keep_logs false = KEEP_LOGS := by decide

example : commit_throttle (MAX_COMMIT_QUEUE_BYTES + 5) = true ∧ commit_throttle MAX_COMMIT_QUEUE_BYTES = false ∧
    commit_wake MAX_COMMIT_QUEUE_BYTES 5 = true := by decide

example : log_throttle ((MAX_LOG_QUEUE_BYTES : Int) + 5) = true ∧ log_throttle (MAX_LOG_QUEUE_BYTES : Int) = false ∧
    log_wake (MAX_LOG_QUEUE_BYTES : Int) 5 = true ∧ log_throttle (-7) = false ∧ log_wake (-7) 3 = false ∧
    log_wake (-7) 134217740 = true := by decide

/-! ### the C15 model runs on the generated definitions
(kept in namespace `Pdb.Gen`: the check derives theorem names from the first `namespace` of a file) -/
section Model
open Pdb.Conc.Pipe

/-- H6-type edits (swapping the two branches, another constant) break these -/
theorem cfg_maxLogs_gen (c : Cfg) : c.maxLogs = enact_max_logs c.syncData := rfl
theorem cfg_keepLogs_gen (c : Cfg) : c.keepLogs = clean_keep_logs c.syncData := rfl

theorem cfg_keep_le_max (c : Cfg) : c.keepLogs ≤ c.maxLogs := by
  rw [cfg_maxLogs_gen, cfg_keepLogs_gen]; exact keep_logs_le_max_logs _

/-- the queue-full test of `Act.commit` -/
theorem model_commit_throttle (q : Nat) : decide (q > MAXQ) = commit_throttle q := rfl

/-- the notification condition of `tickL` at `.pop` -/
theorem model_commit_wake (q b : Nat) (h64 : q + b < 2 ^ 64) :
    (decide (q ≤ MAXQ) && decide (q + b > MAXQ)) = commit_wake q b := by
  have hm : wadd 64 q b = q + b := by unfold wadd; exact Nat.mod_eq_of_lt h64
  unfold commit_wake MAXQ
  rw [hm]

/-- the throttle test of `tickL` at `.thr` -/
theorem model_log_throttle (lq : Int) : decide (lq > (MAXL : Int)) = log_throttle lq := rfl

/-- the notification condition of `tickC` at `.enRead` (`lq` = counter before the subtraction of `r`) -/
theorem model_log_wake (lq : Int) (r : Nat) (h1 : -(2 ^ 63) ≤ lq - r) (hr : (r : Int) < 2 ^ 63) (h2 : lq < 2 ^ 63) :
    (decide (lq - (r : Int) ≤ (MAXL : Int)) && decide (lq > (MAXL : Int))) = log_wake (lq - r) r := by
  have e : lq - (r : Int) + (r : Int) = lq := by omega
  have hc : icast 64 r = (r : Int) := by
    unfold icast; exact iwrap64_of_range _ (by have : (0 : Int) ≤ (r : Int) := Int.natCast_nonneg r; omega) hr
  have hm : iadd 64 (lq - r) (icast 64 r) = lq := by
    unfold iadd; rw [hc, e]
    exact iwrap64_of_range _ (by have : (0 : Int) ≤ (r : Int) := Int.natCast_nonneg r; omega) h2
  unfold log_wake MAXL
  rw [hm]

end Model

end Pdb.Gen

#print axioms Pdb.Gen.commit_wake_on_crossing
#print axioms Pdb.Gen.log_wake_on_crossing
#print axioms Pdb.Gen.log_no_wake_below
#print axioms Pdb.Gen.keep_logs_le_max_logs
#print axioms Pdb.Gen.cfg_maxLogs_gen
#print axioms Pdb.Gen.cfg_keepLogs_gen
#print axioms Pdb.Gen.model_commit_wake
#print axioms Pdb.Gen.model_log_wake
