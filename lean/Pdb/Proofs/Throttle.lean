/-
The throttle / wake-up conditions of the commit queue and of the log queue, as generated
from src/db.rs: whenever a pop brings a queue from "throttled" to "not throttled", the
popping side's wake-up condition holds, so a waiting committer / log worker is notified.
(The waiters test the throttle condition once and wait once, so a missed crossing is a hang.)
-/
import Pdb.Gen.Bits

namespace Pdb.Gen

theorem commit_throttle_iff (q : Nat) : commit_throttle q = true ↔ q > MAX_COMMIT_QUEUE_BYTES := by
  unfold commit_throttle; exact decide_eq_true_iff

theorem log_throttle_iff (q : Nat) : log_throttle q = true ↔ q > MAX_LOG_QUEUE_BYTES := by
  unfold log_throttle; exact decide_eq_true_iff

theorem commit_wake_iff (q c : Nat) (h64 : q + c < 2 ^ 64) :
    commit_wake q c = true ↔ (q ≤ MAX_COMMIT_QUEUE_BYTES ∧ q + c > MAX_COMMIT_QUEUE_BYTES) := by
  have hm : wadd 64 q c = q + c := by unfold wadd; exact Nat.mod_eq_of_lt h64
  unfold commit_wake
  rw [hm, Bool.and_eq_true, decide_eq_true_iff, decide_eq_true_iff]

theorem log_wake_iff (q b : Nat) (h64 : q + b < 2 ^ 64) :
    log_wake q b = true ↔ (q ≤ MAX_LOG_QUEUE_BYTES ∧ q + b > MAX_LOG_QUEUE_BYTES) := by
  have hm : wadd 64 q b = q + b := by unfold wadd; exact Nat.mod_eq_of_lt h64
  unfold log_wake
  rw [hm, Bool.and_eq_true, decide_eq_true_iff, decide_eq_true_iff]

/-- Commit queue: `commit_raw` waits while `commit_throttle bytes`; `process_commits` pops a
    commit of `c` bytes leaving `q` and notifies iff `commit_wake q c`. -/
theorem commit_wake_on_crossing (q c : Nat) (h64 : q + c < 2 ^ 64)
    (hbefore : commit_throttle (q + c) = true) (hafter : commit_throttle q = false) :
    commit_wake q c = true := by
  rw [commit_wake_iff q c h64]
  have h1 := (commit_throttle_iff (q + c)).mp hbefore
  have h2 : ¬ q > MAX_COMMIT_QUEUE_BYTES := fun h => by
    rw [(commit_throttle_iff q).mpr h] at hafter; cases hafter
  omega

/-- A wake-up never happens while the queue stays throttled. -/
theorem commit_wake_implies_unthrottled (q c : Nat) (h64 : q + c < 2 ^ 64)
    (h : commit_wake q c = true) : commit_throttle q = false := by
  have := (commit_wake_iff q c h64).mp h
  cases ht : commit_throttle q with
  | false => rfl
  | true => have := (commit_throttle_iff q).mp ht; omega

/-- Log queue: `process_commits` waits while `log_throttle bytes`; `enact_logs` subtracts the
    `b` bytes of the enacted record leaving `q` and notifies iff `log_wake q b`. -/
theorem log_wake_on_crossing (q b : Nat) (h64 : q + b < 2 ^ 64)
    (hbefore : log_throttle (q + b) = true) (hafter : log_throttle q = false) :
    log_wake q b = true := by
  rw [log_wake_iff q b h64]
  have h1 := (log_throttle_iff (q + b)).mp hbefore
  have h2 : ¬ q > MAX_LOG_QUEUE_BYTES := fun h => by
    rw [(log_throttle_iff q).mpr h] at hafter; cases hafter
  omega

theorem queue_limits_positive : 0 < MAX_COMMIT_QUEUE_BYTES ∧ 0 < MAX_LOG_QUEUE_BYTES ∧
    0 < MAX_LOG_FILES ∧ MAX_LOG_FILES ≤ KEEP_LOGS := by decide

example : commit_throttle (MAX_COMMIT_QUEUE_BYTES + 5) = true ∧ commit_throttle MAX_COMMIT_QUEUE_BYTES = false ∧
    commit_wake MAX_COMMIT_QUEUE_BYTES 5 = true := by decide

end Pdb.Gen
