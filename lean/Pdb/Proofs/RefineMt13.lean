/-
R6 lemmas, part 13: `claim_tree_values` delivers a change set that satisfies the static side condition of the process
phase (`NVOk` for every NewValue, distinct addresses), and the whole InsertTree transaction (commit, then process).
-/
import Pdb.Proofs.RefineMt12

namespace Pdb.MultiTreePhys
open Pdb.Gen Pdb.ValueTable Pdb.MultiTree

mutual
  /-- a tree the codec can represent: at most 255 children per new node (`validate_change`), data below 2^63 bytes,
      `Existing` addresses are u64 -/
  def fineRef : NRef Bytes → Prop
    | .existing a => a < 2 ^ 64
    | .new d cs => d.length < 2 ^ 63 ∧ cs.length ≤ 255 ∧ fineRefs cs
  def fineRefs : NRefs Bytes → Prop
    | .nil => True
    | .cons r rs => fineRef r ∧ fineRefs rs
end

mutual
  theorem planRef_fine (rc ap : Bool) : ∀ (s : Supply) (r : NRef Bytes), fineRef r →
      (∀ a n, NodeChange.newValue a n ∈ (physPlanRef rc ap s r).1 → NodeOk n ∧ n.data.length < 2 ^ 63) ∧
      (physPlanRef rc ap s r).2.2 < 2 ^ 64
    | s, .existing a0, hf => by
      refine ⟨?_, hf⟩
      intro a n hm
      cases ap <;> simp [physPlanRef] at hm
    | s, .new d cs, hf => by
      obtain ⟨hd, hl, hcs⟩ := hf
      have ih := planRefs_fine rc ap (s.take (nodeTier rc d.length cs.length)).2 cs hcs
      have hlen := planRefs_len rc ap (s.take (nodeTier rc d.length cs.length)).2 cs
      rcases hP : physPlanRefs rc ap (s.take (nodeTier rc d.length cs.length)).2 cs with ⟨chs, s2, as⟩
      rw [hP] at ih hlen
      simp only [] at ih hlen
      simp only [physPlanRef, hP]
      refine ⟨?_, address_new_lt _ _⟩
      intro a n hm
      rcases List.mem_append.mp hm with hm | hm
      · exact ih.1 a n hm
      · simp only [List.mem_singleton, NodeChange.newValue.injEq] at hm
        obtain ⟨_, rfl⟩ := hm
        exact ⟨⟨by simp only [hlen]; exact hl, ih.2⟩, hd⟩
  theorem planRefs_fine (rc ap : Bool) : ∀ (s : Supply) (cs : NRefs Bytes), fineRefs cs →
      (∀ a n, NodeChange.newValue a n ∈ (physPlanRefs rc ap s cs).1 → NodeOk n ∧ n.data.length < 2 ^ 63) ∧
      (∀ c ∈ (physPlanRefs rc ap s cs).2.2, c < 2 ^ 64)
    | s, .nil, _ => by simp [physPlanRefs]
    | s, .cons r rs, hf => by
      have ih1 := planRef_fine rc ap s r hf.1
      rcases hP1 : physPlanRef rc ap s r with ⟨c1, s1, a1⟩
      rw [hP1] at ih1
      have ih2 := planRefs_fine rc ap s1 rs hf.2
      rcases hP2 : physPlanRefs rc ap s1 rs with ⟨c2, s2, as⟩
      rw [hP2] at ih2
      simp only [] at ih1 ih2
      simp only [physPlanRefs, hP1, hP2]
      refine ⟨?_, ?_⟩
      · intro a n hm
        rcases List.mem_append.mp hm with hm | hm
        · exact ih1.1 a n hm
        · exact ih2.1 a n hm
      · intro c hc
        rcases List.mem_cons.mp hc with rfl | hc
        · exact ih1.2
        · exact ih2.2 c hc
end

def isDeref : NChange → Bool
  | .derefChildren _ _ => true
  | _ => false

mutual
  theorem planRef_noDeref (rc ap : Bool) : ∀ (s : Supply) (r : NRef Bytes),
      ∀ c ∈ (physPlanRef rc ap s r).1, isDeref c = false
    | s, .existing a0 => by
      intro c hc
      cases ap <;> simp [physPlanRef] at hc
      subst hc; rfl
    | s, .new d cs => by
      intro c hc
      have ih := planRefs_noDeref rc ap (s.take (nodeTier rc d.length cs.length)).2 cs
      rcases hP : physPlanRefs rc ap (s.take (nodeTier rc d.length cs.length)).2 cs with ⟨chs, s2, as⟩
      rw [hP] at ih
      simp only [physPlanRef, hP] at hc
      rcases List.mem_append.mp hc with hc | hc
      · exact ih c hc
      · simp only [List.mem_singleton] at hc; subst hc; rfl
  theorem planRefs_noDeref (rc ap : Bool) : ∀ (s : Supply) (cs : NRefs Bytes),
      ∀ c ∈ (physPlanRefs rc ap s cs).1, isDeref c = false
    | s, .nil => by intro c hc; simp [physPlanRefs] at hc
    | s, .cons r rs => by
      intro c hc
      have ih1 := planRef_noDeref rc ap s r
      rcases hP1 : physPlanRef rc ap s r with ⟨c1, s1, a1⟩
      rw [hP1] at ih1
      have ih2 := planRefs_noDeref rc ap s1 rs
      rcases hP2 : physPlanRefs rc ap s1 rs with ⟨c2, s2, as⟩
      rw [hP2] at ih2
      simp only [physPlanRefs, hP1, hP2] at hc
      rcases List.mem_append.mp hc with hc | hc
      · exact ih1 c hc
      · exact ih2 c hc
end

theorem tierCounts_fst_nodup (tiers : List Nat) : ((tierCounts tiers).map Prod.fst).Nodup := by
  unfold tierCounts
  rw [List.map_map]
  have : (Prod.fst ∘ fun t => (t, tiers.count t)) = id := rfl
  rw [this, List.map_id]
  exact nodup_eraseDups _ _ (Nat.le_refl _)

/-- `claim_tree_values` with everything the process phase needs -/
theorem sim_claimTree' (p : PCol) (h : Heap Key Bytes) (ly : Layout) (r : Rep p h ly) (t : NewNode Bytes)
    (hfine : t.data.length < 2 ^ 63 ∧ t.children.length ≤ 255 ∧ fineRefs t.children)
    (hb : ∀ tier, (p.vt tier).filled +
      ((tierCounts (tiersRefs p.isRc t.children)).map Prod.snd).sum ≤ 2 ^ 56) :
    ∃ p' root chs ly', physClaimTree p t = .ok (p', root, chs) ∧ Rep p' h ly' ∧ p'.variant = p.variant ∧
      NodeOk root ∧ root.data = t.data ∧
      (∀ a n, NodeChange.newValue a n ∈ chs → NVOk p.isRc ly' a n) ∧ (newAddrs chs).Nodup ∧
      (∀ c ∈ chs, ∀ k cs, c ≠ NodeChange.derefChildren k cs) ∧
      (∀ tier o, o ∈ ly.claimed tier → o ∈ ly'.claimed tier) ∧
      (∀ tier, (p'.vt tier).filled ≤ (p.vt tier).filled +
        ((tierCounts (tiersRefs p.isRc t.children)).map Prod.snd).sum) ∧
      (∀ tier o, o ∈ ly'.claimed tier → o ∈ ly.claimed tier ∨
        ∃ a n, NodeChange.newValue a n ∈ chs ∧ Address.size_tier a = tier ∧ Address.offset a = o) := by
  obtain ⟨p', s, ly', hcl, r', hv', hmono, hs, hsup, hlen, hfl, hconv, hnil⟩ :=
    sim_claimList' _ p h ly r hb (tierCounts_fst_nodup _)
  have hcap : ∀ tier, (tiersRefs p.isRc t.children).count tier ≤ (s.get tier).length := by
    intro tier
    by_cases hm : tier ∈ tiersRefs p.isRc t.children
    · have he : (tier, (tiersRefs p.isRc t.children).count tier) ∈ tierCounts (tiersRefs p.isRc t.children) := by
        unfold tierCounts
        exact List.mem_map.mpr ⟨tier, List.mem_eraseDups.mpr hm, rfl⟩
      have := hlen _ he
      simp only [] at this
      omega
    · rw [List.count_eq_zero.mpr hm]; omega
  have hnv := planRefs_nv p.isRc p.isAppendOnly s t.children hcap
  have hnd := planRefs_nodup p.isRc p.isAppendOnly s t.children hcap hsup
  have hfn := planRefs_fine p.isRc p.isAppendOnly s t.children hfine.2.2
  have hln := planRefs_len p.isRc p.isAppendOnly s t.children
  refine ⟨p', ⟨t.data, (physPlanRefs p.isRc p.isAppendOnly s t.children).2.2⟩,
    (physPlanRefs p.isRc p.isAppendOnly s t.children).1, ly', ?_, r', hv', ?_, rfl, ?_, hnd, ?_, hmono, hfl, ?_⟩
  · simp only [physClaimTree, claimTiers, hcl]
  · exact ⟨by simp only [hln]; exact hfine.2.1, hfn.2⟩
  · intro a n hm
    obtain ⟨off, ho, ha⟩ := hnv a n hm
    obtain ⟨hn, hd⟩ := hfn.1 a n hm
    have hoin := List.mem_of_mem_take ho
    have hoff : off < 2 ^ 56 := (hsup _).2 off hoin
    have hT := nodeTier_lt p.isRc n.data.length n.children.length
    have h1 := Index.address_tier_new off _ hoff hT
    have h2 := Index.address_offset_new off _ hoff hT
    rw [← ha] at h1 h2
    refine ⟨by rw [h1, h2]; exact ha, by rw [h1, h2]; exact hs _ off hoin, hn, hd, h1⟩
  · -- an InsertTree plans no DereferenceChildren
    intro c hc k cs he
    subst he
    have := planRefs_noDeref p.isRc p.isAppendOnly s t.children _ hc
    simp [isDeref] at this
  · intro tier o ho
    rcases hconv tier o ho with h1 | h1
    · exact Or.inl h1
    · right
      have hfst : (tierCounts (tiersRefs p.isRc t.children)).map Prod.fst = (tiersRefs p.isRc t.children).eraseDups := by
        unfold tierCounts
        rw [List.map_map]
        have : (Prod.fst ∘ fun t' => (t', (tiersRefs p.isRc t.children).count t')) = id := rfl
        rw [this, List.map_id]
      by_cases hm : tier ∈ tiersRefs p.isRc t.children
      · have he : (tier, (tiersRefs p.isRc t.children).count tier) ∈ tierCounts (tiersRefs p.isRc t.children) := by
          unfold tierCounts
          exact List.mem_map.mpr ⟨tier, List.mem_eraseDups.mpr hm, rfl⟩
        have hl := hlen _ he
        simp only [] at hl
        have hin : o ∈ (s.get tier).take ((tiersRefs p.isRc t.children).count tier) := by
          rw [List.take_of_length_le (by omega)]; exact h1
        obtain ⟨a, n, hmem, ha, hT⟩ := planRefs_used p.isRc p.isAppendOnly s t.children tier o hin
        have hoff : o < 2 ^ 56 := (hsup _).2 o h1
        have hTlt : tier < 256 := by rw [hT]; exact nodeTier_lt _ _ _
        refine ⟨a, n, hmem, ?_, ?_⟩
        · rw [ha]; exact Index.address_tier_new o tier hoff hTlt
        · rw [ha]; exact Index.address_offset_new o tier hoff hTlt
      · have : tier ∉ (tierCounts (tiersRefs p.isRc t.children)).map Prod.fst := by
          rw [hfst]; intro hh; exact hm (List.mem_eraseDups.mp hh)
        rw [hnil tier this] at h1
        simp at h1

end Pdb.MultiTreePhys
