/-
T2 soundness, value-table part: `checkSlots d = true` implies the Lean invariant
`Pdb.ValueTable.SlotInv` (the hypothesis / conclusion of the C06 theorems) on the model state
`tableOf d`, for the witnesses `freeOf d` (free list) and `chainsOf d` (live chains).
-/
import Pdb.Model.DumpCheck

namespace Pdb.DumpCheck
open Pdb.Gen Pdb.ValueTable

/-- everything `slotsReason d = none` establishes -/
structure SlotsOk (d : TableDump) : Prop where
  size : d.slots.size = d.filled
  filled_pos : d.filled ≠ 0
  header : headerOk d = true
  inv : SlotInv (tableOf d) (freeOf d) (chainsOf d)
  live : partsLive (tableOf d) (chainsOf d) = true

theorem slotsReason_none (d : TableDump) (h : slotsReason d = none) : SlotsOk d := by
  unfold slotsReason at h
  simp only [] at h
  split at h
  · exact absurd h (by simp)
  rename_i h1
  split at h
  · exact absurd h (by simp)
  rename_i h2
  split at h
  · exact absurd h (by simp)
  rename_i h3
  split at h
  · exact absurd h (by simp)
  rename_i h4
  split at h
  · exact absurd h (by simp)
  rename_i h5
  split at h
  · exact absurd h (by simp)
  rename_i h6
  split at h
  · exact absurd h (by simp)
  rename_i h7
  split at h
  · exact absurd h (by simp)
  rename_i h8
  have h1' : d.slots.size = d.filled ∧ d.filled ≠ 0 := by
    constructor
    · exact Decidable.byContradiction fun hc => h1 (Or.inl hc)
    · exact fun hc => h1 (Or.inr hc)
  refine ⟨h1'.1, h1'.2, by simpa using h2, ⟨?_, ?_, ?_, ?_, ?_⟩, by simpa using h8⟩
  · exact Decidable.not_not.1 h3
  · exact Decidable.not_not.1 h6
  · exact Decidable.not_not.1 h5
  · exact Decidable.not_not.1 h4
  · exact Decidable.not_not.1 h7

theorem checkSlots_iff (d : TableDump) : checkSlots d = true ↔ slotsReason d = none := by
  unfold checkSlots
  cases slotsReason d <;> simp

/-! ## consequences: no leaked slot, live chains -/

theorem nodup_of_nodup_map {α β : Type} (f : α → β) : ∀ (l : List α), (l.map f).Nodup → l.Nodup := by
  intro l
  induction l with
  | nil => intro _; exact List.nodup_nil
  | cons a r ih =>
    intro h
    rw [List.map_cons, List.nodup_cons] at h
    rw [List.nodup_cons]
    exact ⟨fun ha => h.1 (List.mem_map_of_mem ha), ih h.2⟩

theorem nodup_bounded : ∀ (n : Nat) (l : List Nat), l.Nodup → (∀ x ∈ l, x < n) → l.length ≤ n := by
  intro n
  induction n with
  | zero =>
    intro l _ h
    cases l with
    | nil => exact Nat.le_refl 0
    | cons a r => exact absurd (h a List.mem_cons_self) (Nat.not_lt_zero a)
  | succ n ih =>
    intro l hn h
    have h1 : (l.erase n).Nodup := hn.sublist List.erase_sublist
    have h2 : ∀ x ∈ l.erase n, x < n := by
      intro x hx
      have hx' := (List.Nodup.mem_erase_iff hn).1 hx
      have := h x hx'.2
      omega
    have h3 := ih _ h1 h2
    have h4 : l.length ≤ (l.erase n).length + 1 := by
      rw [List.length_erase]
      split <;> omega
    omega

/-- SlotInv leaves no slot unaccounted for: every slot below `filled` is on the free list or in a
live chain (and, by `nodup`, in exactly one place). -/
theorem slotInv_cover {t : VT} {F : List Nat} {L : List (List Nat)} (h : SlotInv t F L) (i : Nat)
    (h1 : 1 ≤ i) (h2 : i < t.filled) : i ∈ F ++ L.flatten := by
  apply Decidable.byContradiction
  intro hni
  have hn : (0 :: i :: (F ++ L.flatten)).Nodup := by
    rw [List.nodup_cons, List.nodup_cons]
    refine ⟨?_, hni, h.nodup⟩
    intro h0
    rcases List.mem_cons.1 h0 with h0 | h0
    · omega
    · have := (h.range 0 h0).1; omega
  have hb : ∀ x ∈ 0 :: i :: (F ++ L.flatten), x < t.filled := by
    intro x hx
    rcases List.mem_cons.1 hx with rfl | hx
    · omega
    rcases List.mem_cons.1 hx with rfl | hx
    · exact h2
    · exact (h.range x hx).2
  have := nodup_bounded _ _ hn hb
  have hc := h.count
  simp only [List.length_cons, List.length_append] at this hc
  omega

theorem chainFrom_head (t : VT) (f i : Nat) : (chainFrom t f i).head? = some i := by
  cases f with
  | zero => rfl
  | succ f =>
    unfold chainFrom
    split <;> rfl

/-- every chain of the witness starts at a live head (not a tombstone; a multi-part head in the
multipart table) and, when `partsLive` holds, continues through parts only -/
theorem chainsOf_live (d : TableDump) (hl : partsLive (tableOf d) (chainsOf d) = true) :
    ∀ c ∈ chainsOf d, ∃ i, c.head? = some i ∧ 1 ≤ i ∧ i < d.filled ∧
      ¬ isTombstone ((tableOf d).slots i) ∧
      (d.multipart = true → isMultiHead ((tableOf d).slots i)) ∧
      ∀ j ∈ c.tail, ¬ isTombstone ((tableOf d).slots j) ∧ ¬ isMultiHead ((tableOf d).slots j) := by
  intro c hc
  unfold chainsOf at hc
  obtain ⟨i, hi, rfl⟩ := List.mem_map.1 hc
  unfold headIdx at hi
  rw [List.mem_filter, List.mem_range, Bool.and_eq_true, decide_eq_true_eq] at hi
  have hh := hi.2.2
  unfold isHead at hh
  rw [Bool.and_eq_true, Bool.not_eq_true', decide_eq_false_iff_not, Bool.or_eq_true,
    Bool.not_eq_true', decide_eq_true_eq] at hh
  refine ⟨i, chainFrom_head _ _ _, hi.2.1, hi.1, hh.1, ?_, ?_⟩
  · intro hm
    rcases hh.2 with h | h
    · have : (tableOf d).multipart = d.multipart := rfl
      rw [this, hm] at h; cases h
    · exact h
  · intro j hj
    unfold partsLive at hl
    rw [List.all_eq_true] at hl
    have := hl _ (List.mem_map.2 ⟨i, by
      unfold headIdx
      rw [List.mem_filter, List.mem_range, Bool.and_eq_true, decide_eq_true_eq]
      exact hi, rfl⟩)
    rw [List.all_eq_true] at this
    have := this j hj
    rw [Bool.and_eq_true, Bool.not_eq_true', decide_eq_false_iff_not, Bool.not_eq_true',
      decide_eq_false_iff_not] at this
    exact this

end Pdb.DumpCheck
