/-
R8 (physical btree column), part 1: the descent `physNodeGet` through decoded node bytes is
`C04.nodeGet` on the abstraction `absNode` (lemmas for `R8_get`, Props/RefineBt.lean).
-/
import Pdb.Model.BTreePhys

namespace Pdb.BTreePhys
open Pdb.Gen Pdb.ValueTable

theorem optList_eq_some {α : Type} : ∀ (l : List (Option α)) (L : List α),
    optList l = some L ↔ l = L.map some := by
  intro l
  induction l with
  | nil =>
    intro L
    cases L <;> simp [optList]
  | cons x r ih =>
    intro L
    cases x with
    | none => cases L <;> simp [optList]
    | some x =>
      cases L with
      | nil => simp [optList]
      | cons y L' =>
        simp only [optList, Option.map_eq_some_iff, List.map_cons, List.cons.injEq, Option.some.injEq]
        constructor
        · rintro ⟨L'', h1, rfl, rfl⟩
          exact ⟨rfl, (ih L'').mp h1⟩
        · rintro ⟨rfl, h2⟩
          exact ⟨L', (ih L').mpr h2, rfl, rfl⟩

theorem absNode_zero {decomp : Bytes → Option Bytes} {c : PCol} {a : Nat} {N : C04.Node Nat}
    (h : absNode decomp c 0 a = some N) :
    ∃ n, fetchNode decomp c a = .ok n ∧ n.children.all (· == 0) = true ∧ N = .mk n.seps [] := by
  rw [absNode] at h
  cases hf : fetchNode decomp c a with
  | error e => rw [hf] at h; simp [absStep] at h
  | ok n =>
    rw [hf] at h
    simp only [absStep, if_true] at h
    by_cases hz : n.children.all (· == 0) = true
    · rw [if_pos hz] at h
      exact ⟨n, rfl, hz, (Option.some.inj h).symm⟩
    · rw [if_neg hz] at h; simp at h

theorem absNode_succ {decomp : Bytes → Option Bytes} {c : PCol} {d a : Nat} {N : C04.Node Nat}
    (h : absNode decomp c (d + 1) a = some N) :
    ∃ n L, fetchNode decomp c a = .ok n ∧ n.children.all (· != 0) = true ∧
      n.children.map (absNode decomp c d) = L.map some ∧ N = .mk n.seps L := by
  rw [absNode] at h
  cases hf : fetchNode decomp c a with
  | error e => rw [hf] at h; simp [absStep] at h
  | ok n =>
    rw [hf] at h
    simp only [absStep, Bool.false_eq_true, if_false] at h
    by_cases hz : n.children.all (· != 0) = true
    · rw [if_pos hz] at h
      obtain ⟨L, h1, h2⟩ := Option.map_eq_some_iff.mp h
      exact ⟨n, L, rfl, hz, (optList_eq_some _ _).mp h1, h2.symm⟩
    · rw [if_neg hz] at h; simp at h

theorem absNode_fetch {decomp : Bytes → Option Bytes} {c : PCol} {d a : Nat} {N : C04.Node Nat}
    (h : absNode decomp c d a = some N) : ∃ n, fetchNode decomp c a = .ok n := by
  cases d with
  | zero => obtain ⟨n, h1, _⟩ := absNode_zero h; exact ⟨n, h1⟩
  | succ d => obtain ⟨n, _, h1, _⟩ := absNode_succ h; exact ⟨n, h1⟩

theorem slot_zero_of_all (n : C04.RawNode) (h : n.children.all (· == 0) = true) (i : Nat) :
    n.slot i = 0 := by
  unfold C04.RawNode.slot
  rw [List.getD_eq_getElem?_getD]
  cases hi : n.children[i]? with
  | none => rfl
  | some x =>
    have hx : x ∈ n.children := List.mem_of_getElem? hi
    have := List.all_eq_true.mp h x hx
    simpa using this

/-- The descent of `Node::get` through the stored bytes computes `C04.nodeGet` on the decoded
tree, with any fuel above the depth. -/
theorem physNodeGet_abs (decomp : Bytes → Option Bytes) (c : PCol) (k : Key) :
    ∀ (d fuel a : Nat) (n : C04.RawNode) (N : C04.Node Nat), d < fuel →
      fetchNode decomp c a = .ok n → absNode decomp c d a = some N →
      physNodeGet decomp c fuel n k = .ok (C04.nodeGet d N k) := by
  intro d
  induction d with
  | zero =>
    intro fuel a n N hf hn hN
    obtain ⟨n', h1, h2, h3⟩ := absNode_zero hN
    rw [hn] at h1
    obtain rfl : n = n' := Except.ok.inj h1
    subst h3
    obtain ⟨f, rfl⟩ : ∃ f, fuel = f + 1 := ⟨fuel - 1, by omega⟩
    rw [physNodeGet, C04.nodeGet]
    simp only [getStep, C04.Node.seps]
    by_cases hp : (C04.position n.seps k).1 = true
    · simp [hp]
    · simp [hp, slot_zero_of_all n h2]
  | succ d ih =>
    intro fuel a n N hf hn hN
    obtain ⟨n', L, h1, h2, h3, h4⟩ := absNode_succ hN
    rw [hn] at h1
    obtain rfl : n = n' := Except.ok.inj h1
    subst h4
    obtain ⟨f, rfl⟩ : ∃ f, fuel = f + 1 := ⟨fuel - 1, by omega⟩
    rw [physNodeGet, C04.nodeGet]
    simp only [getStep, C04.Node.seps, C04.Node.children]
    by_cases hp : (C04.position n.seps k).1 = true
    · simp [hp]
    · simp only [hp]
      generalize (C04.position n.seps k).2 = i
      have hlen : L.length = n.children.length := by
        have := congrArg List.length h3
        simpa using this.symm
      cases hi : n.children[i]? with
      | none =>
        have hs : n.slot i = 0 := by
          unfold C04.RawNode.slot
          rw [List.getD_eq_getElem?_getD, hi]; rfl
        have hL : L[i]? = none := by
          rw [List.getElem?_eq_none_iff] at hi ⊢
          omega
        simp [hs, hL]
      | some x =>
        have hx : x ∈ n.children := List.mem_of_getElem? hi
        have hx0 : x ≠ 0 := by
          have := List.all_eq_true.mp h2 x hx
          simpa using this
        have hs : n.slot i = x := by
          unfold C04.RawNode.slot
          rw [List.getD_eq_getElem?_getD, hi]; rfl
        have hLi : (L.map some)[i]? = some (absNode decomp c d x) := by
          rw [← h3, List.getElem?_map, hi]; rfl
        rw [List.getElem?_map] at hLi
        cases hl : L[i]? with
        | none => rw [hl] at hLi; simp at hLi
        | some Ni =>
          rw [hl] at hLi
          have hNi : absNode decomp c d x = some Ni := by
            simpa using hLi.symm
          obtain ⟨ch, hch⟩ := absNode_fetch hNi
          rw [hs, if_neg hx0, hch]
          simp only
          exact ih f x ch Ni (by omega) hch hNi

/-- congruence of the abstraction: it depends on the column only through `valueAt` on the nodes
it decodes -/
theorem fetchNode_congr {decomp : Bytes → Option Bytes} {c c' : PCol} {a : Nat}
    (h : valueAt decomp c' a = valueAt decomp c a) : fetchNode decomp c' a = fetchNode decomp c a := by
  unfold fetchNode; rw [h]

theorem absNode_congr (decomp : Bytes → Option Bytes) (c c' : PCol) :
    ∀ (d a : Nat), (∀ x ∈ reachNodes decomp c d a, valueAt decomp c' x = valueAt decomp c x) →
      absNode decomp c' d a = absNode decomp c d a ∧
      reachNodes decomp c' d a = reachNodes decomp c d a := by
  intro d
  induction d with
  | zero =>
    intro a h
    have hf := fetchNode_congr (h a (by simp [reachNodes]))
    refine ⟨?_, by simp [reachNodes]⟩
    rw [absNode, absNode, hf]
  | succ d ih =>
    intro a h
    have ha : a ∈ reachNodes decomp c (d + 1) a := by
      rw [reachNodes]; unfold reachStep; cases fetchNode decomp c a <;> simp
    have hf := fetchNode_congr (h a ha)
    rw [absNode, absNode, reachNodes, reachNodes, hf]
    cases hn : fetchNode decomp c a with
    | error e => simp [absStep, reachStep]
    | ok n =>
      have hch : ∀ x ∈ n.children, absNode decomp c' d x = absNode decomp c d x ∧
          reachNodes decomp c' d x = reachNodes decomp c d x := by
        intro x hx
        apply ih
        intro y hy
        apply h
        rw [reachNodes, hn]
        simp only [reachStep, List.mem_cons, List.mem_flatten, List.mem_map]
        exact Or.inr ⟨_, ⟨x, hx, rfl⟩, hy⟩
      have e1 : n.children.map (absNode decomp c' d) = n.children.map (absNode decomp c d) :=
        List.map_congr_left (fun x hx => (hch x hx).1)
      have e2 : n.children.map (reachNodes decomp c' d) = n.children.map (reachNodes decomp c d) :=
        List.map_congr_left (fun x hx => (hch x hx).2)
      simp only [absStep, reachStep, e1, e2]
      exact ⟨trivial, trivial⟩

end Pdb.BTreePhys
