/-
Key-level part of the slot-level reader model: the commit overlay covers every accepted commit
that is not yet published (HandOver), via the sequential pipeline invariant `Pdb.Inv` on a
refinement image `kabs` in which every published record counts as enacted.  Independent of the
slot layer, of the readers and of the reader discipline.
-/
import Pdb.Proofs.C05SlotShadow
import Pdb.Proofs.C05Lemmas

set_option linter.unusedSectionVars false
set_option linter.unusedSimpArgs false
set_option linter.unusedVariables false
namespace Pdb
namespace CSlot
variable {K V : Type} [DecidableEq K]

def pend (s : SSt K V) : List (Commit K V) :=
  match s.inflight with
  | some (c, false) => [c]
  | _ => []

def absOverlay (s : SSt K V) : K → Option (Nat × Option V) :=
  match s.inflight with
  | some (c, true) => c.ops.foldl (cleanOp c.id) s.overlay
  | _ => s.overlay

def inflAll (s : SSt K V) : List (Commit K V) :=
  match s.inflight with
  | some (c, _) => [c]
  | none => []

/-- the key-level table of the published commits -/
def pubT (s : SSt K V) : Tbl K V := spec plainK (s.hist.take s.npub)

def kabs (s : SSt K V) : Pdb.St K V :=
  { nextId := s.nextId, overlay := absOverlay s, queue := pend s ++ s.queue, logged := [],
    flushed := 0, tables := pubT s, bgErr := false, hist := s.hist, nEnacted := s.npub }

structure KInv (s : SSt K V) : Prop where
  abs : Inv plainK (kabs s)
  inflId : ∀ c b, s.inflight = some (c, b) → c.id ≤ s.nextId
  stale : ∀ c, s.inflight = some (c, true) → ∀ k v,
      s.overlay k = some (c.id, v) → (pubT s k).map Prod.fst = v
  valid : ∀ c ∈ inflAll s ++ s.queue, c.ops.all (opValid plainK) = true

theorem KInv.init : KInv (SSt.init : SSt K V) := by
  constructor
  · exact Inv.init plainK
  · simp [SSt.init]
  · simp [SSt.init]
  · simp [SSt.init, inflAll]

theorem KInv.congr {s s' : SSt K V} (h1 : s'.nextId = s.nextId) (h2 : s'.overlay = s.overlay)
    (h3 : s'.queue = s.queue) (h4 : s'.inflight = s.inflight) (h5 : s'.hist = s.hist)
    (h6 : s'.npub = s.npub) (h : KInv s) : KInv s' := by
  have e : kabs s' = kabs s := by
    unfold kabs absOverlay pend pubT
    rw [h1, h2, h3, h4, h5, h6]
  constructor
  · rw [e]; exact h.abs
  · rw [h4, h1]; exact h.inflId
  · rw [h4, h2]; unfold pubT; rw [h5, h6]; exact h.stale
  · unfold inflAll; rw [h4, h3]; exact h.valid

theorem KInv.sameCore {s s' : SSt K V} (hc : SameCore s s') (h : KInv s) : KInv s' :=
  h.congr hc.nextId hc.overlay hc.queue hc.inflight hc.hist hc.npub

theorem KInv.npub_le {s : SSt K V} (h : KInv s) : s.npub ≤ s.hist.length := by
  have := h.abs.len
  simp only [kabs, List.length_nil] at this
  omega

/-! ### commit -/

theorem pubT_snoc {s : SSt K V} (h : KInv s) (s' : SSt K V) (tx : List (Op K V))
    (h1 : s'.hist = s.hist ++ [tx]) (h2 : s'.npub = s.npub) : pubT s' = pubT s := by
  unfold pubT
  rw [h1, h2, List.take_append_of_le_length h.npub_le]

theorem kabs_commit {s : SSt K V} (h : KInv s) (tx : List (Op K V))
    (hv : tx.all (opValid plainK) = true) (s' : SSt K V)
    (h1 : s'.nextId = s.nextId + 1)
    (h2 : s'.overlay = tx.foldl (ovOp plainK (s.nextId + 1)) s.overlay)
    (h3 : s'.queue = s.queue ++ [{ id := s.nextId + 1, ops := tx }])
    (h4 : s'.inflight = s.inflight) (h5 : s'.hist = s.hist ++ [tx]) (h6 : s'.npub = s.npub) :
    kabs s' = (Pdb.commit plainK (kabs s) tx).1 := by
  unfold Pdb.commit
  simp only [hv, Bool.not_true, Bool.false_eq_true, if_false]
  unfold kabs
  simp only [Bool.false_eq_true, if_false, St.mk.injEq, true_and, and_true]
  refine ⟨h1, ?_, ?_, ?_, h5, h6⟩
  · unfold absOverlay
    rw [h4, h2]
    cases hi : s.inflight with
    | none => rfl
    | some x =>
      obtain ⟨c, b⟩ := x
      cases b with
      | false => rfl
      | true =>
        simp only
        have := h.inflId c true hi
        exact CRd.clean_ov_comm plainK c.id (s.nextId + 1) (by omega) c.ops tx s.overlay
  · unfold pend
    rw [h4, h3]
    simp only [List.append_assoc]
  · exact pubT_snoc h s' tx h5 h6

theorem KInv.commit {s : SSt K V} (h : KInv s) (tx : List (Op K V))
    (hv : tx.all (opValid plainK) = true) (s' : SSt K V)
    (h1 : s'.nextId = s.nextId + 1)
    (h2 : s'.overlay = tx.foldl (ovOp plainK (s.nextId + 1)) s.overlay)
    (h3 : s'.queue = s.queue ++ [{ id := s.nextId + 1, ops := tx }])
    (h4 : s'.inflight = s.inflight) (h5 : s'.hist = s.hist ++ [tx]) (h6 : s'.npub = s.npub) :
    KInv s' := by
  have habs := kabs_commit h tx hv s' h1 h2 h3 h4 h5 h6
  constructor
  · rw [habs]; exact h.abs.commit tx
  · intro c b hc
    rw [h4] at hc
    have := h.inflId c b hc
    rw [h1]; omega
  · intro c hc k v hov
    rw [h4] at hc
    rw [h2] at hov
    rw [pubT_snoc h s' tx h5 h6]
    rw [ovOp_fold] at hov
    have hid := h.inflId c true hc
    cases hw : lastW (opsW plainK (s.nextId + 1) tx) k with
    | some x =>
      obtain ⟨i, w⟩ := x
      rw [hw] at hov
      simp at hov
      have := (opsW_tag plainK (s.nextId + 1) tx k i w hw).1
      omega
    | none =>
      rw [hw] at hov
      simp only [Option.or] at hov
      exact h.stale c hc k v hov
  · intro c hc
    unfold inflAll at hc
    rw [h4, h3] at hc
    simp only [List.mem_append, List.mem_singleton] at hc
    rcases hc with hc | hc | hc
    · exact h.valid c (by unfold inflAll; simp [hc])
    · exact h.valid c (by simp [hc])
    · subst hc; exact hv

/-! ### pop -/

theorem KInv.pop {s : SSt K V} (h : KInv s) (c : Commit K V) (q : List (Commit K V))
    (hi : s.inflight = none) (hq : s.queue = c :: q) :
    KInv ({ s with inflight := some (c, false), queue := q } : SSt K V) := by
  have habs : kabs ({ s with inflight := some (c, false), queue := q } : SSt K V) = kabs s := by
    unfold kabs absOverlay pend pubT
    simp [hi, hq]
  have hmem : c ∈ (kabs s).queue := by
    unfold kabs pend; simp [hi, hq]
  constructor
  · rw [habs]; exact h.abs
  · intro c' b hc
    simp only [Option.some.injEq, Prod.mk.injEq] at hc
    rw [← hc.1]
    exact h.abs.ids c hmem
  · intro c' hc
    simp at hc
  · intro c' hc
    apply h.valid c'
    simp only [inflAll, hi, hq, List.nil_append]
    simpa [inflAll] using hc

/-! ### publish -/

/-- What is known when the in-flight commit is about to be planned. -/
theorem KInv.plan_facts {s : SSt K V} (h : KInv s) (c : Commit K V)
    (hi : s.inflight = some (c, false)) :
    (∃ rest, s.hist.drop s.npub = c.ops :: rest) ∧
    s.hist.take (s.npub + 1) = s.hist.take s.npub ++ [c.ops] ∧
    c.ops.all (opValid plainK) = true ∧
    (∀ k, s.overlay k = none → k ∉ c.ops.map Op.key) := by
  have hq : (kabs s).queue = c :: s.queue := by unfold kabs pend; simp [hi]
  have hov : (kabs s).overlay = s.overlay := by unfold kabs absOverlay; simp [hi]
  have hqueue := h.abs.queue
  rw [hq] at hqueue
  simp only [List.map_cons, kabs, List.length_nil, Nat.add_zero] at hqueue
  have hdt := drop_cons_take s.hist _ _ _ hqueue.symm
  have hvalid : c.ops.all (opValid plainK) = true := h.valid c (by simp [inflAll, hi])
  refine ⟨⟨_, hqueue.symm⟩, hdt.1, hvalid, ?_⟩
  intro k hk
  apply CRd.opsW_none_notin plainK c.id c.ops k rfl hvalid
  have := h.abs.ov k
  rw [hov, hq, hk] at this
  have e : queueW plainK (c :: s.queue) = opsW plainK c.id c.ops ++ queueW plainK s.queue := by
    simp [queueW]
  rw [e, lastW_append] at this
  cases h2 : lastW (queueW plainK s.queue) k with
  | some x => rw [h2] at this; simp at this
  | none => rw [h2] at this; simp only [Option.or] at this; exact this.symm

theorem pubT_publish {s : SSt K V} (h : KInv s) (c : Commit K V)
    (hi : s.inflight = some (c, false)) (s' : SSt K V) (h5 : s'.hist = s.hist)
    (h6 : s'.npub = s.npub + 1) : pubT s' = applyOps plainK (pubT s) c.ops := by
  unfold pubT
  rw [h5, h6, (h.plan_facts c hi).2.1, spec_snoc]

theorem KInv.publish {s : SSt K V} (h : KInv s) (c : Commit K V)
    (hi : s.inflight = some (c, false)) (s' : SSt K V)
    (h1 : s'.nextId = s.nextId) (h2 : s'.overlay = s.overlay) (h3 : s'.queue = s.queue)
    (h4 : s'.inflight = some (c, true)) (h5 : s'.hist = s.hist) (h6 : s'.npub = s.npub + 1) :
    KInv s' := by
  have hq : (kabs s).queue = c :: s.queue := by unfold kabs pend; simp [hi]
  have hov : (kabs s).overlay = s.overlay := by unfold kabs absOverlay; simp [hi]
  have hp := h.abs.process
  have hpo : (Pdb.process plainK (kabs s)).overlay = c.ops.foldl (cleanOp c.id) s.overlay := by
    unfold Pdb.process; rw [hq]; simp only; rw [hov]
  have hpq : (Pdb.process plainK (kabs s)).queue = s.queue := by
    unfold Pdb.process; rw [hq]
  have hpl : (Pdb.process plainK (kabs s)).logged.length = 1 := by
    unfold Pdb.process; rw [hq]; simp [kabs]
  have hph : (Pdb.process plainK (kabs s)).hist = s.hist := by
    unfold Pdb.process; rw [hq]; rfl
  have hpn : (Pdb.process plainK (kabs s)).nEnacted = s.npub := by
    unfold Pdb.process; rw [hq]; rfl
  have hpi : (Pdb.process plainK (kabs s)).nextId = s.nextId := by
    unfold Pdb.process; rw [hq]; rfl
  have hao : absOverlay s' = c.ops.foldl (cleanOp c.id) s.overlay := by
    unfold absOverlay; rw [h4, h2]
  have hpe : pend s' = [] := by unfold pend; rw [h4]
  have hovk : ∀ k, s.overlay k =
      (lastW (queueW plainK s.queue) k).or (lastW (opsW plainK c.id c.ops) k) := by
    intro k
    have := h.abs.ov k
    rw [hov, hq] at this
    have e : queueW plainK (c :: s.queue) = opsW plainK c.id c.ops ++ queueW plainK s.queue := by
      simp [queueW]
    rw [e, lastW_append] at this
    exact this
  have hnod := h.abs.nodup
  rw [hq, List.pairwise_cons] at hnod
  constructor
  · constructor
    · intro k
      have := hp.ov k
      rw [hpo, hpq] at this
      simp only [kabs, hao, hpe, List.nil_append, h3]
      exact this
    · intro c' hc'
      simp only [kabs, hpe, List.nil_append, h3, h1] at hc' ⊢
      have := hp.ids c' (by rw [hpq]; exact hc')
      rw [hpi] at this
      exact this
    · simp only [kabs, hpe, List.nil_append, h3]
      have := hp.nodup
      rw [hpq] at this
      exact this
    · intro i hi'
      simp only [kabs, List.length_nil, Nat.le_zero_eq] at hi'
      subst hi'
      simp [kabs, applyRecs, pubT]
    · simp only [kabs, hpe, List.nil_append, h3, h5, h6, List.length_nil, Nat.add_zero]
      have := hp.queue
      rw [hpq, hph, hpn, hpl] at this
      exact this
    · simp only [kabs, hpe, List.nil_append, h3, h5, h6, List.length_nil, Nat.add_zero]
      have := hp.len
      rw [hpq, hph, hpn, hpl] at this
      exact this
    · simp [kabs]
  · intro c' b hc
    rw [h4] at hc
    simp only [Option.some.injEq, Prod.mk.injEq] at hc
    rw [← hc.1, h1]
    exact h.inflId c false hi
  · intro c' hc k v hovv
    rw [h4] at hc
    simp only [Option.some.injEq, Prod.mk.injEq, and_true] at hc
    subst hc
    rw [h2] at hovv
    rw [pubT_publish h c hi s' h5 h6]
    rw [applyOps_plain plainK c.id c.ops (pubT s) k rfl]
    have := hovk k
    rw [hovv] at this
    cases h2' : lastW (queueW plainK s.queue) k with
    | some x =>
      obtain ⟨i, w⟩ := x
      rw [h2'] at this
      simp at this
      obtain ⟨c', hc', hid⟩ := queueW_tag plainK s.queue k i w h2'
      exact absurd (hid.trans this.1.symm).symm (hnod.1 c' hc')
    | none =>
      rw [h2'] at this
      simp only [Option.or] at this
      rw [← this]
      rfl
  · intro c' hc
    apply h.valid c'
    unfold inflAll at hc ⊢
    rw [h4, h3] at hc
    rw [hi]
    exact hc

/-! ### cleanOverlay -/

theorem KInv.cleanOverlay {s : SSt K V} (h : KInv s) (c : Commit K V)
    (hi : s.inflight = some (c, true)) :
    KInv ({ s with inflight := none,
                   overlay := c.ops.foldl (cleanOp c.id) s.overlay } : SSt K V) := by
  have habs : kabs ({ s with inflight := none,
                             overlay := c.ops.foldl (cleanOp c.id) s.overlay } : SSt K V) =
      kabs s := by
    unfold kabs absOverlay pend pubT
    simp [hi]
  constructor
  · rw [habs]; exact h.abs
  · intro c' b hc; simp at hc
  · intro c' hc; simp at hc
  · intro c' hc
    apply h.valid c'
    simp only [inflAll, hi]
    simp only [inflAll, List.nil_append] at hc
    simp [hc]

/-! ### every action -/

theorem KInv.step (cfg : Cfg) (tier : V → Nat) (chunkOf : K → Nat) (N : Nat) {s : SSt K V}
    (h : KInv s) (a : SAct K V) : KInv (sstep cfg tier chunkOf N s a) := by
  by_cases hr : a.isReader = true
  · exact h.sameCore (sameCore_reader cfg tier chunkOf N s a hr)
  · cases a with
    | commit tx =>
      simp only [sstep]
      split
      · exact h
      · split
        · exact h
        · rename_i hv
          simp only [Bool.not_eq_true, Bool.not_eq_false'] at hv
          exact h.commit tx hv _ rfl rfl rfl rfl rfl rfl
    | pop =>
      simp only [sstep]
      split
      · rename_i c q hi hq
        exact h.pop c q hi hq
      · exact h
    | publish =>
      simp only [sstep]
      split
      · rename_i c hi
        exact h.publish c hi _ rfl rfl rfl rfl rfl rfl
      · exact h
    | cleanOverlay =>
      simp only [sstep]
      split
      · exact h
      · split
        · rename_i c hi
          exact h.cleanOverlay c hi
        · exact h
    | flush => exact KInv.congr (s := s) rfl rfl rfl rfl rfl rfl h
    | enactWrite =>
      simp only [sstep]
      split
      · split
        · exact KInv.congr (s := s) rfl rfl rfl rfl rfl rfl h
        · exact h
      · exact h
    | endRead =>
      simp only [sstep]
      split
      · split
        · exact KInv.congr (s := s) rfl rfl rfl rfl rfl rfl h
        · exact h
      · exact h
    | _ => simp [SAct.isReader] at hr

/-! ### consequences: hits and misses of the commit overlay -/

theorem absOverlay_none {s : SSt K V} (k : K) (hov : s.overlay k = none) :
    absOverlay s k = none := by
  unfold absOverlay
  cases hi : s.inflight with
  | none => simpa using hov
  | some x =>
    obtain ⟨c, b⟩ := x
    cases b with
    | false => simpa using hov
    | true =>
      simp only
      rw [clean_fold_other c.id c.ops s.overlay k (by intro w; rw [hov]; simp), hov]

theorem kview_eq (s : SSt K V) : Pdb.view (kabs s) = pubT s := by
  rw [Pdb.view_eq]; rfl

/-- After a miss in the commit overlay the published table holds the specification value of
    ALL accepted commits for that key. -/
theorem KInv.overlay_miss {s : SSt K V} (h : KInv s) (k : K) (hov : s.overlay k = none) :
    (pubT s k).map Prod.fst = (spec plainK s.hist k).map Prod.fst := by
  have hg := h.abs.get_plain k rfl
  have : get (kabs s) k = (Pdb.view (kabs s) k).map Prod.fst := by
    unfold get
    have e : (kabs s).overlay k = none := absOverlay_none k hov
    rw [e]
  rw [this, kview_eq] at hg
  exact hg

/-- A hit in the commit overlay returns the specification value, even when the entry is the
    stale one of a commit whose record is already published. -/
theorem KInv.overlay_hit {s : SSt K V} (h : KInv s) (k : K) (i : Nat) (v : Option V)
    (hov : s.overlay k = some (i, v)) : v = (spec plainK s.hist k).map Prod.fst := by
  have hg := h.abs.get_plain k rfl
  have hh : (kabs s).hist = s.hist := rfl
  rw [hh] at hg
  rw [← hg]
  unfold get
  have hao : (kabs s).overlay k = absOverlay s k := rfl
  rw [hao]
  unfold absOverlay
  cases hi : s.inflight with
  | none => simp [hov]
  | some x =>
    obtain ⟨c, b⟩ := x
    cases b with
    | false => simp [hov]
    | true =>
      simp only
      rcases CRd.clean_fold_cases c.id c.ops s.overlay k with e | e
      · rw [e, hov]
      · rw [e]
        simp only
        by_cases hid : i = c.id
        · subst hid
          rw [kview_eq]
          exact (h.stale c hi k v hov).symm
        · have := clean_fold_other c.id c.ops s.overlay k
            (by intro w; rw [hov]; simp; intro e2; exact absurd e2 hid)
          rw [e, hov] at this
          simp at this

end CSlot
end Pdb
