/-
C09: the index invariant (`IdxInv`, DESIGN 6.1 IndexInv), the abstract slot invariant
(`SlotInv`), the abstraction relation (`Abs`) and the read theorem `lookup_eq`.
-/
import Pdb.Proofs.C09Search

namespace Pdb.Index
open Pdb.Gen Pdb.IndexPage

/-- The keys of a history: prefixes are u64, and distinct keys have distinct 26-byte tails
(assumption A-tail). -/
structure Univ (U : Key → Prop) : Prop where
  pre_lt : ∀ k, U k → k.pre < 2 ^ 64
  atail : ∀ k1 k2, U k1 → U k2 → k1.tail = k2.tail → k1 = k2

/-- IndexInv. -/
structure IdxInv (U : Key → Prop) (s : Col) : Prop where
  wf : ∀ t ∈ s.tables, TableWF t
  /-- index bits strictly increase from the oldest queued table to the current one -/
  order : List.Pairwise (· < ·) ((s.older ++ [s.current]).map (·.bits))
  /-- every live slot is reachable: some table holds, in the page and with the partial key of
  the key owning the slot, an entry with the slot's address -/
  reach : ∀ a tl, s.tailAt a = some tl →
    ∃ k, U k ∧ k.tail = tl ∧ ∃ t ∈ s.tables, t.Has k.pre a
  /-- one slot per key tail -/
  inj : ∀ a1 a2 tl, s.tailAt a1 = some tl → s.tailAt a2 = some tl → a1 = a2
  /-- reindex progress: every valid entry of the queue front in a chunk already planned has a
  valid copy in a newer table -/
  prog : ∀ t0 rest, s.older = t0 :: rest → ∀ k a, U k → t0.Has k.pre a →
    t0.chunk k.pre < s.progress → s.tailAt a = some k.tail →
    ∃ t ∈ s.current :: rest, t.Has k.pre a
  prog0 : s.older = [] → s.progress = 0

/-- continuation slots of the live multi-slot values of a tier -/
def Col.owned (s : Col) (tier : Nat) : List Nat := ownedOf (s.tier tier).chains

/-- the slots below the fill mark that are not the head of a value: the free list, then the
continuation slots of the live chains -/
def Col.dead (s : Col) (tier : Nat) : List Nat := (s.tier tier).free ++ s.owned tier

/-- SlotInv of one value table `T` of tier `tier`; `tl` = stored tail by address. -/
structure TierInv (tl : Nat → Option Nat) (tier : Nat) (T : Tier) : Prop where
  fresh : ∀ off, tier < 256 → off < 2 ^ 56 →
    (off ∈ T.free ++ ownedOf T.chains ∨ T.filled ≤ off) → tl (Address.new off tier) = none
  nodup : (T.free ++ ownedOf T.chains).Nodup
  range : ∀ off, off ∈ T.free ++ ownedOf T.chains → 1 ≤ off ∧ off < T.filled
  filled : tier < 256 → 1 ≤ T.filled ∧ T.filled ≤ 2 ^ 56
  cover : ∀ off, tier < 256 → off < 2 ^ 56 → 1 ≤ off → off < T.filled →
    off ∈ T.free ++ ownedOf T.chains ∨ (tl (Address.new off tier)).isSome = true
  heads : (T.chains.map (·.1)).Nodup
  headLive : ∀ h, tier < 256 → h ∈ T.chains.map (·.1) →
    1 ≤ h ∧ h < T.filled ∧ (tl (Address.new h tier)).isSome = true

/-- SlotInv on the abstract value tables. -/
structure SlotInv (s : Col) : Prop where
  tiers : ∀ tier, TierInv s.tailAt tier (s.tier tier)
  /-- live addresses are (tier, offset) pairs below the fill mark -/
  addr : ∀ a tl, s.tailAt a = some tl →
    ∃ tier off, tier < 256 ∧ 1 ≤ off ∧ off < (s.tier tier).filled ∧ a = Address.new off tier

/-- free-list members, continuation slots and slots at or above the fill mark hold no value -/
theorem SlotInv.fresh {s : Col} (h : SlotInv s) : ∀ tier off, tier < 256 → off < 2 ^ 56 →
    (off ∈ s.dead tier ∨ (s.tier tier).filled ≤ off) → s.tailAt (Address.new off tier) = none :=
  fun tier off => (h.tiers tier).fresh off

/-- no slot is twice on the free list, in two chains, or both free and part of a chain -/
theorem SlotInv.nodup {s : Col} (h : SlotInv s) : ∀ tier, (s.dead tier).Nodup :=
  fun tier => (h.tiers tier).nodup

theorem SlotInv.range {s : Col} (h : SlotInv s) : ∀ tier off, off ∈ s.dead tier →
    1 ≤ off ∧ off < (s.tier tier).filled :=
  fun tier off => (h.tiers tier).range off

theorem SlotInv.filled {s : Col} (h : SlotInv s) : ∀ tier, tier < 256 →
    1 ≤ (s.tier tier).filled ∧ (s.tier tier).filled ≤ 2 ^ 56 :=
  fun tier => (h.tiers tier).filled

/-- no leaked slot: below the fill mark a slot is free, a continuation slot of a live chain, or
the head slot of a live value -/
theorem SlotInv.cover {s : Col} (h : SlotInv s) : ∀ tier off, tier < 256 → off < 2 ^ 56 →
    1 ≤ off → off < (s.tier tier).filled →
    off ∈ s.dead tier ∨ (s.tailAt (Address.new off tier)).isSome = true :=
  fun tier off => (h.tiers tier).cover off

/-- one chain per head slot -/
theorem SlotInv.heads {s : Col} (h : SlotInv s) : ∀ tier, ((s.tier tier).chains.map (·.1)).Nodup :=
  fun tier => (h.tiers tier).heads

/-- no orphan chain: the head of every recorded chain is a live value -/
theorem SlotInv.headLive {s : Col} (h : SlotInv s) : ∀ tier hd, tier < 256 →
    hd ∈ (s.tier tier).chains.map (·.1) →
    1 ≤ hd ∧ hd < (s.tier tier).filled ∧ (s.tailAt (Address.new hd tier)).isSome = true :=
  fun tier hd => (h.tiers tier).headLive hd

/-- The abstract map of a state: `m k = some v` iff some slot holds `k`'s tail and `v`. -/
def Abs (U : Key → Prop) (s : Col) (m : Key → Option Val) : Prop :=
  ∀ k, U k → ∀ v, m k = some v ↔ ∃ a, s.valAt a = some ⟨k.tail, v⟩

theorem tailAt_eq_some (s : Col) (a tl : Nat) :
    s.tailAt a = some tl ↔ ∃ v, s.valAt a = some ⟨tl, v⟩ := by
  unfold Col.tailAt
  cases h : s.valAt a with
  | none => simp
  | some sl =>
    obtain ⟨t, v⟩ := sl
    simp only [Option.map_some, Option.some.injEq, Slot.mk.injEq]
    constructor
    · intro h1; exact ⟨v, h1, rfl⟩
    · rintro ⟨v', h1, _⟩; exact h1

/-! ## reads -/

/-- A successful search ends at a slot holding the key's tail. -/
theorem searchAll_sound {U : Key → Prop} {s : Col} (hI : IdxInv U s) (k : Key) (j i a : Nat)
    (h : searchAll s k = some (j, i, a)) :
    s.tailAt a = some k.tail ∧ ∃ t, s.tables[j]? = some t ∧ searchTable s t k = some (i, a) := by
  obtain ⟨t, ht, hs⟩ := searchAll_some s k j i a h
  have hwf := hI.wf t (List.mem_of_getElem? ht)
  exact ⟨(searchTable_sound s t k i a hwf hs).1, t, ht, hs⟩

/-- An unsuccessful search means no slot holds the key's tail. -/
theorem searchAll_complete {U : Key → Prop} {s : Col} (hU : Univ U) (hI : IdxInv U s) (k : Key)
    (hk : U k) (h : searchAll s k = none) (a : Nat) : s.tailAt a ≠ some k.tail := by
  intro ha
  obtain ⟨k', hk', htl, t, ht, hh⟩ := hI.reach a k.tail ha
  have : k' = k := hU.atail k' k hk' hk htl
  subst this
  have h1 := searchAll_none s k' h t ht
  have h2 := searchTable_complete s t k' a (hI.wf t ht) hh ha
  rw [h1] at h2
  exact absurd h2 (by simp)

/-- C09 read theorem: `get` returns the abstract map's value. -/
theorem lookup_eq {U : Key → Prop} {s : Col} {m : Key → Option Val} (hU : Univ U)
    (hI : IdxInv U s) (hA : Abs U s m) (k : Key) (hk : U k) : lookup s k = m k := by
  unfold lookup
  cases h : searchAll s k with
  | none =>
    simp only [Option.bind_none]
    cases hm : m k with
    | none => rfl
    | some v =>
      obtain ⟨a, ha⟩ := (hA k hk v).1 hm
      exact absurd ((tailAt_eq_some s a k.tail).2 ⟨v, ha⟩) (searchAll_complete hU hI k hk h a)
  | some r =>
    obtain ⟨j, i, a⟩ := r
    simp only [Option.bind_some]
    obtain ⟨v, hv⟩ := (tailAt_eq_some s a k.tail).1 (searchAll_sound hI k j i a h).1
    rw [hv]
    simp only [Option.map_some]
    exact ((hA k hk v).2 ⟨a, hv⟩).symm

end Pdb.Index
