/-
C20, directory level: `copy_column` / `move_column` (`deplace_column`, src/migration.rs) and the
column loop of `migrate` on the directory model of C17 (Pdb/Model/Meta.lean).

T0 obligation: the `||` chain of `is_file_name` tests in `deplace_column` (generated
`Gen.Text.deplaceColumnTests`) is the chain of `Column::drop_files` (`Gen.Text.dropFilesTests`),
i.e. `copy_column` / `move_column` act on exactly the files that belong to the column.  Before
fix-c20-refcount-files.diff the chain was `[index, table]` and this file did not build.
-/
import Pdb.Model.Migrate
import Pdb.Proofs.C17Dir

namespace Pdb.Migrate
open Pdb Pdb.Gen Pdb.C17

/-! ### the chain of tests -/

/-- `C17.isColumnFile` is `isFileOf` for the chain of `Column::drop_files`. -/
theorem isFileOf_dropFiles (c : Nat) (n : FileName) :
    isFileOf Gen.Text.dropFilesTests c n = isColumnFile c n := rfl

/-- T0 obligation: `deplace_column` tests the same modules, in the same order, as
`Column::drop_files`. -/
theorem deplace_chain_eq_drop_files : Gen.Text.deplaceColumnTests = Gen.Text.dropFilesTests := by
  decide

/-- Hence `copy_column` / `move_column` select exactly the files of the column. -/
theorem isDeplacedFile_eq (c : Nat) (n : FileName) : isDeplacedFile c n = isColumnFile c n := by
  unfold isDeplacedFile
  rw [deplace_chain_eq_drop_files]
  rfl

/-- A file belongs to at most one column. -/
theorem isColumnFile_unique {c c' : Nat} {n : FileName} (h : isColumnFile c n = true)
    (h' : isColumnFile c' n = true) : c = c' := by
  rw [isColumnFile_eq] at h
  simp only [Bool.or_eq_true] at h
  have key : ∀ k : FileKind, (filePrefix k c).isPrefixOf n = true → c = c' := by
    intro k hk
    obtain ⟨rest, hrest⟩ := List.isPrefixOf_iff_prefix.mp hk
    rw [← hrest] at h'
    exact ((isColumnFile_prefix_iff c' k c rest).mp h').symm
  rcases h with (h | h) | h
  · exact key _ h
  · exact key _ h
  · exact key _ h

/-! ### one round of the column loop, seen from the files of an unselected column `c` -/

section
variable {β : Type}

/-- A round for another column leaves the files of column `c` where they are, in both
directories. -/
theorem stepCol_other (tests : List Text) (htests : ∀ c n, isFileOf tests c n = isColumnFile c n)
    (fx : DbEffects β) (hfx : fx.Frame) (overwrite : Bool) (sel : List Nat) (c c' : Nat)
    (hne : c ≠ c') (st : Dir β × Dir β) (n : FileName) (hn : isColumnFile c n = true) :
    (stepCol tests fx overwrite sel c' st).1 n = st.1 n ∧
    (stepCol tests fx overwrite sel c' st).2 n = st.2 n := by
  have hno : isFileOf tests c' n = false := by
    rw [htests]
    cases h : isColumnFile c' n with
    | false => rfl
    | true => exact absurd (isColumnFile_unique hn h) hne
  unfold stepCol
  by_cases hs : c' ∈ sel
  · simp only [hs, if_true]
    cases overwrite with
    | false => exact ⟨rfl, hfx.populate_other c' st.2 c n hn hne⟩
    | true =>
      simp only [if_true]
      refine ⟨?_, ?_⟩
      · rw [hfx.openSource_col _ c n hn, hfx.writeMeta_col c' _ c n hn]
        simp only [deplaceWith, hno, Bool.false_and, Bool.false_eq_true, if_false]
      · rw [hfx.openDest_col _ c n hn]
        simp only [deplaceWith, hno, Bool.false_and, Bool.false_eq_true, if_false]
        exact hfx.populate_other c' st.2 c n hn hne
  · simp only [hs, if_false]
    cases overwrite with
    | true => exact ⟨rfl, rfl⟩
    | false =>
      refine ⟨rfl, ?_⟩
      simp only [Bool.false_eq_true, if_false]
      rw [hfx.openDest_col _ c n hn]
      simp only [deplaceWith, hno, Bool.false_eq_true, if_false]

/-- The round of the unselected column `c` itself: nothing happens with overwrite; without,
its files are copied over whatever the destination held under these names. -/
theorem stepCol_self (tests : List Text) (htests : ∀ c n, isFileOf tests c n = isColumnFile c n)
    (fx : DbEffects β) (hfx : fx.Frame) (overwrite : Bool) (sel : List Nat) (c : Nat)
    (hsel : c ∉ sel) (st : Dir β × Dir β) (n : FileName) (hn : isColumnFile c n = true) :
    (stepCol tests fx overwrite sel c st).1 n = st.1 n ∧
    (stepCol tests fx overwrite sel c st).2 n =
      if overwrite then st.2 n else (st.1 n).or (st.2 n) := by
  unfold stepCol
  simp only [hsel, if_false]
  cases overwrite with
  | true => exact ⟨rfl, rfl⟩
  | false =>
    refine ⟨rfl, ?_⟩
    simp only [Bool.false_eq_true, if_false]
    rw [hfx.openDest_col _ c n hn]
    simp only [deplaceWith, htests, hn, if_true]

theorem foldl_stepCol_other (tests : List Text)
    (htests : ∀ c n, isFileOf tests c n = isColumnFile c n)
    (fx : DbEffects β) (hfx : fx.Frame) (overwrite : Bool) (sel : List Nat) (c : Nat)
    (cols : List Nat) (hc : c ∉ cols) (st : Dir β × Dir β) (n : FileName)
    (hn : isColumnFile c n = true) :
    (cols.foldl (fun st c' => stepCol tests fx overwrite sel c' st) st).1 n = st.1 n ∧
    (cols.foldl (fun st c' => stepCol tests fx overwrite sel c' st) st).2 n = st.2 n := by
  induction cols generalizing st with
  | nil => exact ⟨rfl, rfl⟩
  | cons c' cols ih =>
    have hne : c ≠ c' := fun e => hc (e ▸ List.mem_cons_self)
    have hrest : c ∉ cols := fun h => hc (List.mem_cons_of_mem _ h)
    obtain ⟨h1, h2⟩ := stepCol_other tests htests fx hfx overwrite sel c c' hne st n hn
    obtain ⟨i1, i2⟩ := ih hrest (stepCol tests fx overwrite sel c' st)
    simp only [List.foldl_cons]
    exact ⟨i1.trans h1, i2.trans h2⟩

/-- The whole column loop, for any chain of tests that agrees with `Column::drop_files`:
the files of an unselected column `c` keep their place in the source directory, and without
overwrite the destination directory holds, under the names of column `c`, exactly the files of
the source (those it held before are overwritten, names the source does not have keep what the
destination had). -/
theorem migrateFsWith_unselected (tests : List Text)
    (htests : ∀ c n, isFileOf tests c n = isColumnFile c n)
    (fx : DbEffects β) (hfx : fx.Frame) (overwrite : Bool) (sel : List Nat) (ncols : Nat)
    (src dst : Dir β) (c : Nat) (hc : c < ncols) (hsel : c ∉ sel) (n : FileName)
    (hn : isColumnFile c n = true) :
    (migrateFsWith tests fx overwrite sel ncols src dst).1 n = src n ∧
    (migrateFsWith tests fx overwrite sel ncols src dst).2 n =
      if overwrite then dst n else (src n).or (dst n) := by
  have hmem : c ∈ List.range ncols := List.mem_range.mpr hc
  obtain ⟨l1, l2, hsplit⟩ := List.append_of_mem hmem
  have hnd : (l1 ++ c :: l2).Nodup := hsplit ▸ List.nodup_range
  have hc1 : c ∉ l1 := fun h => by
    have := (List.nodup_append.mp hnd).2.2 c h c List.mem_cons_self
    exact this rfl
  have hc2 : c ∉ l2 := (List.nodup_cons.mp (List.nodup_append.mp hnd).2.1).1
  unfold migrateFsWith
  rw [hsplit, List.foldl_append, List.foldl_cons]
  obtain ⟨a1, a2⟩ := foldl_stepCol_other tests htests fx hfx overwrite sel c l1 hc1
    (fx.openSource src, fx.openDest dst) n hn
  obtain ⟨b1, b2⟩ := stepCol_self tests htests fx hfx overwrite sel c hsel
    (l1.foldl (fun st c' => stepCol tests fx overwrite sel c' st) (fx.openSource src, fx.openDest dst)) n hn
  obtain ⟨d1, d2⟩ := foldl_stepCol_other tests htests fx hfx overwrite sel c l2 hc2
    (stepCol tests fx overwrite sel c
      (l1.foldl (fun st c' => stepCol tests fx overwrite sel c' st) (fx.openSource src, fx.openDest dst))) n hn
  have e1 : (fx.openSource src) n = src n := hfx.openSource_col src c n hn
  have e2 : (fx.openDest dst) n = dst n := hfx.openDest_col dst c n hn
  refine ⟨?_, ?_⟩
  · rw [d1, b1, a1]; exact e1
  · rw [d2, b2, a1, a2]
    simp only [e1, e2]

end

end Pdb.Migrate
